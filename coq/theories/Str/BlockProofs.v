(* Proofs about block strings: the code model su_unescape_block_string (Str/Unescape.v) equals the
   specification's bs_BlockStringValue (Str/BlockString.v) applied to the raw value, for every input.
   The code replaces the escaped triple quote per line after splitting and dedenting; the specification
   replaces it in the raw value before the algorithm: the theorem is the commutation. *)
From ApolloVerif Require Import Base.Chars Str.Unescape Str.Literal Str.BlockString Str.QuotedProofs.
From Coq Require Import ZifyBool ZifyN.

Local Notation R := su_replace_esc3.

(* ------------------------------------------------------------------ small facts *)

Lemma split_lines_nonempty s : exists l ls, su_split_lines s = l :: ls.
Proof.
  induction s as [|c r IH]; cbn [su_split_lines]; [eauto|].
  destruct (c =? c_lf); [eauto|].
  destruct (c =? c_cr); [destruct r as [|c2 r2]; [eauto|destruct (c2 =? c_lf); eauto]|].
  destruct IH as [l [ls ->]]. eauto.
Qed.

Lemma ws_same c : bs_WhiteSpaceb c = su_is_ws c.
Proof. unfold bs_WhiteSpaceb, su_is_ws, c_space, c_tab. apply orb_comm. Qed.

Lemma only_ws_same l : bs_contains_only_ws l = su_is_ws_line l.
Proof. unfold bs_contains_only_ws, su_is_ws_line. induction l as [|c l IH]; cbn [forallb]; [auto|]. now rewrite ws_same, IH. Qed.

Lemma leading_ws_same l : bs_leading_ws l = su_count_indent l.
Proof.
  induction l as [|c l IH]; cbn [bs_leading_ws su_count_indent]; [auto|].
  rewrite ws_same, IH. destruct (su_is_ws c); lia.
Qed.

Lemma gws_u8len c : su_is_ws c = true -> u8len c = 1.
Proof. unfold su_is_ws, c_space, c_tab, u8len. intros H. replace (c <? 128) with true by lia. reflexivity. Qed.

Lemma gws_not_bslash c : su_is_ws c = true -> (c =? c_bslash) = false.
Proof. unfold su_is_ws, c_space, c_tab, c_bslash. lia. Qed.

(* the indent is less than the length exactly on lines with a non-whitespace character;
   byte length (code) and character count (spec) agree on that *)
Lemma indent_lt_blen l : (su_count_indent l <? blen l) = negb (su_is_ws_line l).
Proof.
  induction l as [|c l IH]; cbn [su_count_indent blen su_is_ws_line forallb]; [reflexivity|].
  destruct (su_is_ws c) eqn:E; cbn [andb negb].
  - fold (su_is_ws_line l). rewrite <- IH. rewrite (gws_u8len _ E). lia.
  - pose proof (u8len_pos c). lia.
Qed.

Lemma indent_lt_length l : (bs_leading_ws l <? bs_line_length l) = negb (bs_contains_only_ws l).
Proof.
  rewrite leading_ws_same, only_ws_same. unfold bs_line_length.
  induction l as [|c l IH]; cbn [su_count_indent length su_is_ws_line forallb]; [reflexivity|].
  destruct (su_is_ws c) eqn:E; cbn [andb negb].
  - fold (su_is_ws_line l). rewrite <- IH. lia.
  - lia.
Qed.

Lemma line_indent_alt l : su_line_indent l = if su_is_ws_line l then None else Some (su_count_indent l).
Proof. unfold su_line_indent. rewrite indent_lt_blen. destruct (su_is_ws_line l); reflexivity. Qed.

(* ------------------------------------------------------------------ su_replace_esc3 keeps what the algorithm looks at *)

Lemma prefix_qqq_inv s : su_prefix_qqq s = true -> exists t, s = c_quote :: c_quote :: c_quote :: t.
Proof.
  destruct s as [|a [|b [|c t]]]; cbn; try discriminate; try (rewrite ?andb_false_r; discriminate).
  intros H. exists t. repeat f_equal; lia.
Qed.

Lemma R_ws_line l : su_is_ws_line l = true -> R l = l.
Proof.
  induction l as [|c l IH]; cbn [su_is_ws_line forallb R]; [auto|].
  intros H. apply andb_true_iff in H as [Hc Hl]. rewrite (gws_not_bslash _ Hc). cbn [andb]. f_equal. auto.
Qed.

Lemma R_is_ws_line l : su_is_ws_line (R l) = su_is_ws_line l.
Proof.
  induction l as [|c l IH]; cbn [R]; [reflexivity|].
  destruct ((c =? c_bslash) && su_prefix_qqq l) eqn:E.
  - apply andb_true_iff in E as [Ec El]. apply prefix_qqq_inv in El as [t ->].
    rewrite IH. assert (c = c_bslash) by lia. subst c. reflexivity.
  - cbn [su_is_ws_line forallb]. fold (su_is_ws_line (R l)). fold (su_is_ws_line l). now rewrite IH.
Qed.

Lemma R_count_indent l : su_count_indent (R l) = su_count_indent l.
Proof.
  induction l as [|c l IH]; cbn [R]; [reflexivity|].
  destruct ((c =? c_bslash) && su_prefix_qqq l) eqn:E.
  - apply andb_true_iff in E as [Ec El]. apply prefix_qqq_inv in El as [t ->].
    rewrite IH. assert (c = c_bslash) by lia. subst c. reflexivity.
  - cbn [su_count_indent]. rewrite IH. reflexivity.
Qed.

Lemma R_line_indent l : su_line_indent (R l) = su_line_indent l.
Proof. rewrite !line_indent_alt, R_is_ws_line, R_count_indent. reflexivity. Qed.

(* removing leading whitespace commutes with the replacement *)
Lemma R_remove_chars n l :
  (N.of_nat n <= su_count_indent l) -> bs_remove_chars n (R l) = R (bs_remove_chars n l).
Proof.
  revert l. induction n as [|n IH]; intros l H.
  - destruct l; reflexivity.
  - destruct l as [|c l]; [reflexivity|]. cbn [su_count_indent] in H.
    destruct (su_is_ws c) eqn:E; [|lia].
    cbn [R]. rewrite (gws_not_bslash _ E). cbn [andb bs_remove_chars]. apply IH. lia.
Qed.

Lemma remove_chars_all n l : (length l <= n)%nat -> bs_remove_chars n l = [].
Proof.
  revert l. induction n as [|n IH]; intros [|c l] H; cbn [bs_remove_chars length] in *; try reflexivity; try lia.
  apply IH. lia.
Qed.

Lemma remove_chars_ws n l : su_is_ws_line l = true -> su_is_ws_line (bs_remove_chars n l) = true.
Proof.
  revert l. induction n as [|n IH]; intros [|c l] H; cbn [bs_remove_chars]; auto.
  cbn [su_is_ws_line forallb] in H. apply andb_true_iff in H as [_ H]. apply IH. exact H.
Qed.

Lemma R_remove_chars_ws n l : su_is_ws_line l = true -> bs_remove_chars n (R l) = R (bs_remove_chars n l).
Proof. intros H. rewrite (R_ws_line _ H), (R_ws_line _ (remove_chars_ws n _ H)). reflexivity. Qed.

(* ------------------------------------------------------------------ step 1: lines *)

Definition prepend (cur : str) (ll : list str) : list str :=
  match ll with l :: ls => (cur ++ l) :: ls | [] => [cur] end.

Lemma lines_from_split : forall s cur, bs_lines_from cur s = prepend cur (su_split_lines s).
Proof.
  induction s as [s IH] using list_len_ind. intros cur.
  destruct s as [|c r]; [cbn; now rewrite app_nil_r|].
  cbn [bs_lines_from su_split_lines]. unfold c_lf, c_cr.
  destruct (N.eqb_spec c 13) as [->|H13].
  - change (13 =? 10) with false. cbn iota.
    destruct r as [|c2 r2].
    + cbn. now rewrite app_nil_r.
    + destruct (c2 =? 10).
      * rewrite (IH r2) by (cbn; lia). cbn [prepend]. rewrite app_nil_r.
        destruct (split_lines_nonempty r2) as [l [ls ->]]. reflexivity.
      * rewrite (IH (c2 :: r2)) by (cbn; lia). cbn [prepend]. rewrite app_nil_r.
        destruct (split_lines_nonempty (c2 :: r2)) as [l [ls ->]]. reflexivity.
  - destruct (N.eqb_spec c 10) as [->|H10].
    + rewrite (IH r) by (cbn; lia). cbn [prepend]. rewrite app_nil_r.
      destruct (split_lines_nonempty r) as [l [ls ->]]. reflexivity.
    + rewrite (IH r) by (cbn; lia).
      destruct (split_lines_nonempty r) as [l [ls ->]]. cbn [prepend]. now rewrite <- app_assoc.
Qed.

Lemma split_by_lt_split s : bs_split_by_line_terminator s = su_split_lines s.
Proof.
  unfold bs_split_by_line_terminator. rewrite lines_from_split.
  destruct (split_lines_nonempty s) as [l [ls ->]]. reflexivity.
Qed.

(* the first line starts with the same quotes as the text *)
Lemma first_line_prefix_q r l ls : su_split_lines r = l :: ls -> su_prefix_q l = su_prefix_q r.
Proof.
  destruct r as [|c r1]; cbn [su_split_lines]; [intros [= <- <-]; reflexivity|].
  unfold c_lf, c_cr. destruct (N.eqb_spec c 10) as [->|].
  - intros [= <- <-]. reflexivity.
  - destruct (N.eqb_spec c 13) as [->|].
    + destruct r1 as [|c2 r2]; [|destruct (c2 =? 10)]; intros [= <- <-]; reflexivity.
    + destruct (split_lines_nonempty r1) as [l1 [ls1 ->]]. intros [= <- <-]. reflexivity.
Qed.

Lemma first_line_prefix_qq r l ls : su_split_lines r = l :: ls -> su_prefix_qq l = su_prefix_qq r.
Proof.
  destruct r as [|c r1]; cbn [su_split_lines]; [intros [= <- <-]; reflexivity|].
  unfold c_lf, c_cr. destruct (N.eqb_spec c 10) as [->|].
  - intros [= <- <-]. reflexivity.
  - destruct (N.eqb_spec c 13) as [->|].
    + destruct r1 as [|c2 r2]; [|destruct (c2 =? 10)]; intros [= <- <-]; reflexivity.
    + destruct (su_split_lines r1) as [|l1 ls1] eqn:E; [destruct (split_lines_nonempty r1) as [? [? ?]]; congruence|].
      intros [= <- <-]. cbn [su_prefix_qq]. now rewrite (first_line_prefix_q _ _ _ E).
Qed.

Lemma first_line_prefix_qqq r l ls : su_split_lines r = l :: ls -> su_prefix_qqq l = su_prefix_qqq r.
Proof.
  destruct r as [|c r1]; cbn [su_split_lines]; [intros [= <- <-]; reflexivity|].
  unfold c_lf, c_cr. destruct (N.eqb_spec c 10) as [->|].
  - intros [= <- <-]. reflexivity.
  - destruct (N.eqb_spec c 13) as [->|].
    + destruct r1 as [|c2 r2]; [|destruct (c2 =? 10)]; intros [= <- <-]; reflexivity.
    + destruct (su_split_lines r1) as [|l1 ls1] eqn:E; [destruct (split_lines_nonempty r1) as [? [? ?]]; congruence|].
      intros [= <- <-]. cbn [su_prefix_qqq]. now rewrite (first_line_prefix_qq _ _ _ E).
Qed.

(* splitting commutes with the replacement: an escaped triple quote never spans a line terminator *)
Lemma split_lines_R : forall s, su_split_lines (R s) = map R (su_split_lines s).
Proof.
  induction s as [s IH] using list_len_ind.
  destruct s as [|c r]; [reflexivity|].
  cbn [R]. destruct ((c =? c_bslash) && su_prefix_qqq r) eqn:E.
  - apply andb_true_iff in E as [Ec Er]. assert (c = c_bslash) by lia. subst c.
    rewrite (IH r) by (cbn; lia). cbn [su_split_lines]. change (c_bslash =? c_lf) with false.
    change (c_bslash =? c_cr) with false. cbn iota.
    destruct (su_split_lines r) as [|l ls] eqn:El; [destruct (split_lines_nonempty r) as [? [? ?]]; congruence|].
    cbn [map R]. rewrite (first_line_prefix_qqq _ _ _ El), Er. reflexivity.
  - cbn [su_split_lines]. unfold c_lf, c_cr.
    destruct (N.eqb_spec c 10) as [->|H10]; [cbn [map]; f_equal; apply IH; cbn; lia|].
    destruct (N.eqb_spec c 13) as [->|H13].
    + destruct r as [|c2 r2]; [reflexivity|].
      cbn [R]. destruct ((c2 =? c_bslash) && su_prefix_qqq r2) eqn:E2.
      * (* the character after CR is a backslash that is dropped: it is not LF *)
        apply andb_true_iff in E2 as [Ec2 Er2]. assert (c2 = c_bslash) by lia. subst c2.
        change (c_bslash =? 10) with false. cbn iota. cbn [map]. f_equal.
        apply prefix_qqq_inv in Er2 as [t ->].
        change (R (c_quote :: c_quote :: c_quote :: t)) with (c_quote :: c_quote :: c_quote :: R t).
        change (c_quote =? 10) with false.
        rewrite <- (IH (c_bslash :: c_quote :: c_quote :: c_quote :: t)) by (cbn; lia). reflexivity.
      * destruct (N.eqb_spec c2 10) as [->|].
        -- cbn [map]. f_equal. apply IH. cbn; lia.
        -- cbn [map]. f_equal. rewrite <- (IH (c2 :: r2)) by (cbn; lia). cbn [R]. rewrite E2. reflexivity.
    + rewrite (IH r) by (cbn; lia).
      destruct (su_split_lines r) as [|l ls] eqn:El; [destruct (split_lines_nonempty r) as [? [? ?]]; congruence|].
      cbn [map R]. rewrite (first_line_prefix_qqq _ _ _ El), E. reflexivity.
Qed.

(* ------------------------------------------------------------------ steps 2-3: commonIndent *)

Definition omin (a b : option N) : option N :=
  match a, b with
  | None, x => x
  | Some x, None => Some x
  | Some x, Some y => Some (N.min x y)
  end.

Lemma common_indent_step_alt acc l : bs_common_indent_step acc l = omin acc (su_line_indent l).
Proof.
  unfold bs_common_indent_step. rewrite indent_lt_length, only_ws_same, leading_ws_same, line_indent_alt.
  destruct (su_is_ws_line l); cbn [negb]; destruct acc as [ci|]; cbn [omin]; try reflexivity.
  destruct (N.ltb_spec (su_count_indent l) ci); f_equal; lia.
Qed.

Lemma omin_assoc a b c : omin (omin a b) c = omin a (omin b c).
Proof. destruct a, b, c; cbn [omin]; try reflexivity. f_equal. lia. Qed.

Lemma fold_common_indent ls : forall acc,
  fold_left bs_common_indent_step ls acc = omin acc (su_min_some (map su_line_indent ls)).
Proof.
  induction ls as [|l ls IH]; intros acc; cbn [fold_left map su_min_some].
  - destruct acc; reflexivity.
  - rewrite IH, common_indent_step_alt, omin_assoc.
    destruct (su_line_indent l), (su_min_some (map su_line_indent ls)), acc; reflexivity.
Qed.

Lemma min_some_le f (ls : list str) m l x :
  su_min_some (map f ls) = Some m -> In l ls -> f l = Some x -> m <= x.
Proof.
  revert m. induction ls as [|a ls IH]; intros m Hm Hin Hx; [destruct Hin|].
  cbn [map su_min_some] in Hm. destruct Hin as [->|Hin].
  - rewrite Hx in Hm. destruct (su_min_some (map f ls)); injection Hm as <-; lia.
  - destruct (f a) as [y|].
    + destruct (su_min_some (map f ls)) as [m'|] eqn:E.
      * injection Hm as <-. specialize (IH m' eq_refl Hin Hx). lia.
      * exfalso. clear -E Hin Hx. induction ls as [|b ls IH]; [destruct Hin|].
        cbn [map su_min_some] in E. destruct Hin as [->|Hin].
        -- rewrite Hx in E. destruct (su_min_some (map f ls)); discriminate.
        -- destruct (f b); [destruct (su_min_some (map f ls)); discriminate|auto].
    + auto.
Qed.

(* ------------------------------------------------------------------ step 4: dedent *)

(* the byte slice of the code removes whole whitespace characters *)
Lemma slice_leading_ws l : forall n,
  n <= su_count_indent l -> su_slice_from n l = SuOk (bs_remove_chars (N.to_nat n) l).
Proof.
  induction l as [|c l IH]; intros n H; cbn [su_count_indent] in H.
  - assert (n = 0) by lia. subst n. reflexivity.
  - cbn [su_slice_from]. destruct (N.eqb_spec n 0) as [->|Hn]; [reflexivity|].
    destruct (su_is_ws c) eqn:E; [|lia]. rewrite (gws_u8len _ E).
    replace (1 <=? n) with true by lia.
    rewrite IH by lia. replace (N.to_nat n) with (S (N.to_nat (n - 1))) by lia. reflexivity.
Qed.

Lemma ws_line_indent l : su_is_ws_line l = true -> su_count_indent l = blen l /\ blen l = N.of_nat (length l).
Proof.
  induction l as [|c l IH]; cbn [su_is_ws_line forallb su_count_indent blen length]; [auto|].
  intros H. apply andb_true_iff in H as [Hc Hl]. rewrite Hc, (gws_u8len _ Hc).
  destruct (IH Hl). lia.
Qed.

(* one dedented line, code and spec *)
Lemma dedent_line ci l :
  (su_is_ws_line l = true \/ ci <= su_count_indent l) ->
  su_slice_from (N.min ci (blen l)) l = SuOk (bs_remove_chars (N.to_nat ci) l).
Proof.
  intros [Hws|Hle].
  - destruct (ws_line_indent _ Hws) as [E1 E2].
    rewrite slice_leading_ws by lia. f_equal.
    destruct (N.le_gt_cases ci (blen l)).
    + now replace (N.min ci (blen l)) with ci by lia.
    + replace (N.min ci (blen l)) with (blen l) by lia.
      rewrite !remove_chars_all by lia. reflexivity.
  - assert (su_count_indent l <= blen l).
    { clear. induction l as [|c l IH]; cbn [su_count_indent blen]; [lia|].
      destruct (su_is_ws c); pose proof (u8len_pos c); lia. }
    replace (N.min ci (blen l)) with ci by lia. apply slice_leading_ws. exact Hle.
Qed.

Lemma smapM_ok {A B} (f : A -> su_res B) (g : A -> B) l :
  (forall a, In a l -> f a = SuOk (g a)) -> su_mapM f l = SuOk (map g l).
Proof.
  induction l as [|a l IH]; intros H; cbn [su_mapM map]; [reflexivity|].
  rewrite (H a) by (left; reflexivity). cbn [su_bind]. rewrite IH by (intros; apply H; right; assumption).
  reflexivity.
Qed.

(* the spec's step 4 on a list of lines *)
Definition dedent_spec (lines : list str) : list str :=
  match fold_left bs_common_indent_step (tl lines) None with
  | Some ci =>
      match lines with
      | first :: rest => first :: map (bs_remove_chars (N.to_nat ci)) rest
      | [] => []
      end
  | None => lines
  end.

Lemma remove_chars_0 l : bs_remove_chars 0 l = l.
Proof. destruct l; reflexivity. Qed.

Lemma map_remove_0 ls : map (bs_remove_chars 0) ls = ls.
Proof. induction ls as [|l ls IH]; cbn [map]; [auto|]. now rewrite remove_chars_0, IH. Qed.

Lemma dedent_spec_alt first rest :
  dedent_spec (first :: rest) = first :: map (bs_remove_chars (N.to_nat (su_common_indent (first :: rest)))) rest.
Proof.
  unfold dedent_spec, su_common_indent. cbn [tl]. rewrite fold_common_indent. cbn [omin].
  destruct (su_min_some (map su_line_indent rest)); [reflexivity|]. cbn. now rewrite map_remove_0.
Qed.

Lemma dedent_code first rest :
  su_dedent_lines (su_common_indent (first :: rest)) (first :: rest) =
  SuOk (first :: map (bs_remove_chars (N.to_nat (su_common_indent (first :: rest)))) rest).
Proof.
  unfold su_dedent_lines.
  rewrite (smapM_ok _ (bs_remove_chars (N.to_nat (su_common_indent (first :: rest))))); [reflexivity|].
  intros l Hin. apply dedent_line.
  destruct (su_is_ws_line l) eqn:E; [auto|right].
  unfold su_common_indent. cbn [tl].
  destruct (su_min_some (map su_line_indent rest)) as [m|] eqn:Em; [|lia].
  eapply min_some_le; eauto. rewrite line_indent_alt, E. reflexivity.
Qed.

(* dedenting commutes with the replacement *)
Lemma common_indent_R ls : su_common_indent (map R ls) = su_common_indent ls.
Proof.
  unfold su_common_indent. destruct ls as [|a ls]; [reflexivity|]. cbn [map tl].
  rewrite map_map. erewrite map_ext; [reflexivity|]. intros l. apply R_line_indent.
Qed.

Lemma dedent_R first rest :
  let ci := N.to_nat (su_common_indent (first :: rest)) in
  map (bs_remove_chars ci) (map R rest) = map R (map (bs_remove_chars ci) rest).
Proof.
  intros ci. rewrite !map_map. apply map_ext_in. intros l Hin.
  destruct (su_is_ws_line l) eqn:E; [apply R_remove_chars_ws; exact E|].
  apply R_remove_chars. subst ci. unfold su_common_indent. cbn [tl].
  destruct (su_min_some (map su_line_indent rest)) as [m|] eqn:Em; [|lia].
  assert (m <= su_count_indent l); [|lia].
  eapply min_some_le; eauto. rewrite line_indent_alt, E. reflexivity.
Qed.

(* ------------------------------------------------------------------ step 5: leading blank lines *)

Lemma remove_leading_blank_R ls : bs_remove_leading_blank (map R ls) = map R (su_skip_while su_is_ws_line ls).
Proof.
  induction ls as [|l ls IH]; cbn [map bs_remove_leading_blank su_skip_while]; [reflexivity|].
  rewrite only_ws_same, R_is_ws_line. destruct (su_is_ws_line l); [exact IH|reflexivity].
Qed.

Lemma skip_while_head {A} (p : A -> bool) l a r : su_skip_while p l = a :: r -> p a = false.
Proof.
  induction l as [|b l IH]; cbn [su_skip_while]; [discriminate|].
  destruct (p b) eqn:E; [exact IH|]. intros [= <- <-]. exact E.
Qed.

(* ------------------------------------------------------------------ steps 6-8: trailing blank lines and joining *)

Lemma join_lf_cons x b : bs_join_lf (x :: b) = x ++ flat_map (cons 10) b.
Proof.
  revert x. induction b as [|y b IH]; intros x.
  - cbn. now rewrite app_nil_r.
  - change (bs_join_lf (x :: y :: b)) with (x ++ [10] ++ bs_join_lf (y :: b)). rewrite IH. reflexivity.
Qed.

Lemma remove_leading_blank_suffix ys : exists pre, ys = pre ++ bs_remove_leading_blank ys.
Proof.
  induction ys as [|y ys [pre IH]]; [exists []; reflexivity|].
  cbn [bs_remove_leading_blank]. destruct (bs_contains_only_ws y).
  - exists (y :: pre). cbn. now f_equal.
  - exists []. reflexivity.
Qed.

Lemma remove_trailing_blank_prefix xs : exists post, xs = bs_remove_trailing_blank xs ++ post.
Proof.
  unfold bs_remove_trailing_blank. destruct (remove_leading_blank_suffix (rev xs)) as [pre E].
  exists (rev pre). rewrite <- rev_app_distr, <- E. now rewrite rev_involutive.
Qed.

Lemma remove_trailing_blank_snoc xs l :
  bs_remove_trailing_blank (xs ++ [l]) =
  if bs_contains_only_ws l then bs_remove_trailing_blank xs else xs ++ [l].
Proof.
  unfold bs_remove_trailing_blank. rewrite rev_app_distr. cbn [rev app bs_remove_leading_blank].
  destruct (bs_contains_only_ws l); [reflexivity|]. cbn [rev]. now rewrite rev_involutive.
Qed.

Lemma join_prefix xs : exists q, bs_join_lf xs = bs_join_lf (bs_remove_trailing_blank xs) ++ q.
Proof.
  destruct (remove_trailing_blank_prefix xs) as [post E].
  destruct (bs_remove_trailing_blank xs) as [|a b] eqn:Er.
  - exists (bs_join_lf xs). reflexivity.
  - exists (flat_map (cons 10) post).
    transitivity (bs_join_lf ((a :: b) ++ post)); [f_equal; exact E|].
    cbn [app]. rewrite !join_lf_cons, flat_map_app, app_assoc. reflexivity.
Qed.

Lemma byte_slice_to_prefix p q : su_slice_to (blen p) (p ++ q) = SuOk p.
Proof.
  induction p as [|c p IH]; cbn [blen app su_slice_to].
  - destruct q; reflexivity.
  - pose proof (u8len_pos c). replace (u8len c + blen p =? 0) with false by lia.
    replace (u8len c <=? u8len c + blen p) with true by lia.
    replace (u8len c + blen p - u8len c) with (blen p) by lia. rewrite IH. reflexivity.
Qed.

Lemma byte_truncate_prefix p q : su_truncate (blen p) (p ++ q) = SuOk p.
Proof.
  unfold su_truncate. rewrite blen_app. replace (blen p + blen q <? blen p) with false by lia.
  apply byte_slice_to_prefix.
Qed.

(* the `for line in lines` loop *)
Lemma ubs_fold l0 : forall rest done,
  fold_left su_ubs_step rest
    (bs_join_lf (map R (l0 :: done)), blen (bs_join_lf (bs_remove_trailing_blank (map R (l0 :: done))))) =
  (bs_join_lf (map R (l0 :: done ++ rest)), blen (bs_join_lf (bs_remove_trailing_blank (map R (l0 :: done ++ rest))))).
Proof.
  induction rest as [|l rest IH]; intros done; cbn [fold_left].
  - now rewrite app_nil_r.
  - replace (done ++ l :: rest) with ((done ++ [l]) ++ rest) by (now rewrite <- app_assoc).
    rewrite <- IH. f_equal. unfold su_ubs_step. cbn [fst snd].
    assert (Ej : bs_join_lf (map R (l0 :: done ++ [l])) = bs_join_lf (map R (l0 :: done)) ++ [c_lf] ++ R l).
    { cbn [map]. rewrite !join_lf_cons, map_app, flat_map_app. cbn [map flat_map].
      rewrite app_nil_r, <- app_assoc. reflexivity. }
    f_equal; [symmetry; exact Ej|].
    assert (Em : map R (l0 :: done ++ [l]) = map R (l0 :: done) ++ [R l])
      by (cbn [map]; rewrite map_app; reflexivity).
    rewrite Em, remove_trailing_blank_snoc, only_ws_same, R_is_ws_line.
    destruct (su_is_ws_line l); cbn [negb]; [reflexivity|].
    rewrite <- Em, Ej. reflexivity.
Qed.

Lemma ubs_fold0 l0 more :
  su_is_ws_line l0 = false ->
  fold_left su_ubs_step more (R l0, blen (R l0)) =
  (bs_join_lf (map R (l0 :: more)), blen (bs_join_lf (bs_remove_trailing_blank (map R (l0 :: more))))).
Proof.
  intros Hl0. pose proof (ubs_fold l0 more []) as H. cbn [app] in H. rewrite <- H. f_equal. f_equal. f_equal.
  cbn [map]. change [R l0] with ([] ++ [R l0]). rewrite remove_trailing_blank_snoc.
  rewrite only_ws_same, R_is_ws_line, Hl0. reflexivity.
Qed.

(* ------------------------------------------------------------------ the theorem *)

Lemma BlockStringValue_alt raw :
  bs_BlockStringValue raw =
  bs_join_lf (bs_remove_trailing_blank (bs_remove_leading_blank (dedent_spec (bs_split_by_line_terminator raw)))).
Proof. reflexivity. Qed.

Theorem block_string_total body : su_unescape_block_string body = SuOk (bs_BlockStringValue (R body)).
Proof.
  rewrite BlockStringValue_alt, split_by_lt_split, split_lines_R.
  unfold su_unescape_block_string.
  destruct (split_lines_nonempty body) as [first [rest E]]. rewrite E.
  rewrite dedent_code. cbn [su_bind]. cbn [map]. rewrite dedent_spec_alt.
  change (R first :: map R rest) with (map R (first :: rest)) at 1.
  rewrite common_indent_R, dedent_R.
  change (R first :: map R (map (bs_remove_chars (N.to_nat (su_common_indent (first :: rest)))) rest))
    with (map R (first :: map (bs_remove_chars (N.to_nat (su_common_indent (first :: rest)))) rest)).
  rewrite remove_leading_blank_R.
  destruct (su_skip_while su_is_ws_line (first :: map (bs_remove_chars (N.to_nat (su_common_indent (first :: rest)))) rest))
    as [|l0 more] eqn:Es.
  - reflexivity.
  - pose proof (skip_while_head _ _ _ _ Es) as Hl0.
    rewrite (ubs_fold0 _ _ Hl0). cbn [fst snd].
    destruct (join_prefix (map R (l0 :: more))) as [q Eq]. rewrite Eq at 1.
    apply byte_truncate_prefix.
Qed.

(* ------------------------------------------------------------------ the raw value of a body *)

Lemma has_prefix_bqqq c r :
  ~ has_prefix [92; 34; 34; 34] (c :: r) -> (c =? c_bslash) && su_prefix_qqq r = false.
Proof.
  intros H. destruct ((c =? c_bslash) && su_prefix_qqq r) eqn:E; [|reflexivity]. exfalso. apply H.
  apply andb_true_iff in E as [Ec Er]. apply prefix_qqq_inv in Er as [t ->].
  exists t. unfold c_bslash in Ec. assert (c = 92) by lia. subst. reflexivity.
Qed.

Lemma has_prefix_app p s t : has_prefix p s -> has_prefix p (s ++ t).
Proof. intros [u ->]. exists (u ++ t). now rewrite app_assoc. Qed.

Lemma BlockChars_R ctx body raw : BlockChars ctx body raw -> raw = R body.
Proof.
  induction 1 as [|r v H IH|c r v Hq Hb H IH].
  - reflexivity.
  - change (R (92 :: 34 :: 34 :: 34 :: r)) with (34 :: 34 :: 34 :: R r). now rewrite IH.
  - cbn [R]. rewrite has_prefix_bqqq; [now rewrite IH|].
    intros Hp. apply Hb. change (c :: r ++ ctx) with ((c :: r) ++ ctx). apply has_prefix_app. exact Hp.
Qed.

Theorem block_string_value body raw :
  BlockRawValue body raw -> su_unescape_block_string body = SuOk (bs_BlockStringValue raw).
Proof. intros H. rewrite (BlockChars_R _ _ _ H). apply block_string_total. Qed.

Theorem BlockChars_fun ctx body raw raw' : BlockChars ctx body raw -> BlockChars ctx body raw' -> raw = raw'.
Proof. intros H H'. rewrite (BlockChars_R _ _ _ H), (BlockChars_R _ _ _ H'). reflexivity. Qed.
