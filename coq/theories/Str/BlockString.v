(* The GraphQL specification (October 2021), section 2.9.4 'String Value', transcribed independently of the
   code model (Str/Unescape.v): the static semantics of StringValue and the algorithm bs_BlockStringValue.
   Only Base.Chars is imported. *)
From ApolloVerif Require Import Base.Chars.

(* ------------------------------------------------------------------------------------------------
   (In comments Q stands for the quotation mark U+0022, which cannot be written inside a Coq comment.)
   StringValue :: Q StringCharacter* Q
     'Return the Unicode character sequence of all StringCharacter Unicode character values.'

   StringCharacter ::
     SourceCharacter but not Q or \ or LineTerminator     -> 'the character value of SourceCharacter'
     \u EscapedUnicode                                    -> 'the 16-bit hexadecimal value represented by the
                                                              sequence of hexadecimal digits' as a code unit
     \ EscapedCharacter                                   -> the table below
   EscapedUnicode :: /[0-9A-Fa-f]{4}/        EscapedCharacter :: one of Q \ / b f n r t                    *)

(* value of one hexadecimal digit, by position in the digit lists *)
Fixpoint bs_index_of (c : N) (l : list N) : option N :=
  match l with
  | [] => None
  | x :: r => if c =? x then Some 0 else match bs_index_of c r with Some i => Some (i + 1) | None => None end
  end.
Definition bs_digits_upper : list N := [48; 49; 50; 51; 52; 53; 54; 55; 56; 57; 65; 66; 67; 68; 69; 70].
Definition bs_digits_lower : list N := [48; 49; 50; 51; 52; 53; 54; 55; 56; 57; 97; 98; 99; 100; 101; 102].
Definition HexDigitValue (c d : N) : Prop := bs_index_of c bs_digits_upper = Some d \/ bs_index_of c bs_digits_lower = Some d.

Inductive EscapedCharacterValue : N -> N -> Prop :=
| EC_quote : EscapedCharacterValue 34 34       (* Q  -> U+0022 *)
| EC_bslash : EscapedCharacterValue 92 92      (* \  -> U+005C *)
| EC_slash : EscapedCharacterValue 47 47       (* /  -> U+002F *)
| EC_b : EscapedCharacterValue 98 8            (* b  -> U+0008 backspace *)
| EC_f : EscapedCharacterValue 102 12          (* f  -> U+000C form feed *)
| EC_n : EscapedCharacterValue 110 10          (* n  -> U+000A line feed *)
| EC_r : EscapedCharacterValue 114 13          (* r  -> U+000D carriage return *)
| EC_t : EscapedCharacterValue 116 9.          (* t  -> U+0009 horizontal tab *)

(* StringChars body value : `body` is a sequence of StringCharacter whose values concatenate to `value` *)
Inductive StringChars : str -> str -> Prop :=
| SC_nil : StringChars [] []
| SC_source c r v :
    c <> 34 -> c <> 92 -> c <> 10 -> c <> 13 ->
    StringChars r v -> StringChars (c :: r) (c :: v)
| SC_unicode h1 h2 h3 h4 d1 d2 d3 d4 r v :
    HexDigitValue h1 d1 -> HexDigitValue h2 d2 -> HexDigitValue h3 d3 -> HexDigitValue h4 d4 ->
    StringChars r v ->
    StringChars (92 :: 117 :: h1 :: h2 :: h3 :: h4 :: r) (((d1 * 16 + d2) * 16 + d3) * 16 + d4 :: v)
| SC_escaped e x r v :
    EscapedCharacterValue e x ->
    StringChars r v -> StringChars (92 :: e :: r) (x :: v).

(* ------------------------------------------------------------------------------------------------
   StringValue :: QQQ BlockStringCharacter* QQQ
     'Let rawValue be the Unicode character sequence of all BlockStringCharacter Unicode character values
      (which may be an empty sequence).  Return the result of bs_BlockStringValue(rawValue).'
   BlockStringCharacter ::
     SourceCharacter but not QQQ or \QQQ     -> the character value of SourceCharacter
     \QQQ                                    -> the character sequence QQQ
   The 'but not' is a lookahead restriction on the text that follows, which for the last characters of the
   body includes the closing delimiter; `ctx` is the text that follows the part being derived.            *)

Definition has_prefix (p s : str) : Prop := exists t, s = p ++ t.

Inductive BlockChars (ctx : str) : str -> str -> Prop :=
| BC_nil : BlockChars ctx [] []
| BC_escaped r v :
    BlockChars ctx r v -> BlockChars ctx (92 :: 34 :: 34 :: 34 :: r) (34 :: 34 :: 34 :: v)
| BC_source c r v :
    ~ has_prefix [34; 34; 34] (c :: r ++ ctx) ->
    ~ has_prefix [92; 34; 34; 34] (c :: r ++ ctx) ->
    BlockChars ctx r v -> BlockChars ctx (c :: r) (c :: v).

(* rawValue of the block string whose body is `body` *)
Definition BlockRawValue (body raw : str) : Prop := BlockChars [34; 34; 34] body raw.

(* ------------------------------------------------------------------------------------------------
   bs_BlockStringValue(rawValue)                                                                        *)

(* LineTerminator :: New Line (U+000A) | Carriage Return (U+000D) [lookahead != New Line] | CR LF
   WhiteSpace :: Horizontal Tab (U+0009) | Space (U+0020)                                            *)
Definition bs_WhiteSpaceb (c : N) : bool := (c =? 9) || (c =? 32).

(* 1. Let lines be the result of splitting rawValue by LineTerminator.
   `cur` is the line being accumulated. *)
Fixpoint bs_lines_from (cur : str) (s : str) : list str :=
  match s with
  | [] => [cur]
  | c :: r =>
      if c =? 13 then
        match r with
        | c2 :: r2 => if c2 =? 10 then cur :: bs_lines_from [] r2 else cur :: bs_lines_from [] r
        | [] => cur :: bs_lines_from [] r
        end
      else if c =? 10 then cur :: bs_lines_from [] r
      else bs_lines_from (cur ++ [c]) r
  end.
Definition bs_split_by_line_terminator (raw : str) : list str := bs_lines_from [] raw.

(* 3.b 'the number of characters in line', 3.c 'the number of leading consecutive WhiteSpace characters' *)
Definition bs_line_length (line : str) : N := N.of_nat (length line).
Fixpoint bs_leading_ws (line : str) : N :=
  match line with
  | c :: r => if bs_WhiteSpaceb c then bs_leading_ws r + 1 else 0
  | [] => 0
  end.

(* 2./3. commonIndent: null = None.  The fold is over the lines after the first (3.a). *)
Definition bs_common_indent_step (commonIndent : option N) (line : str) : option N :=
  let length := bs_line_length line in
  let indent := bs_leading_ws line in
  if indent <? length then                                      (* 3.d *)
    match commonIndent with
    | None => Some indent                                       (* 3.d.i  commonIndent is null *)
    | Some ci => if indent <? ci then Some indent else Some ci  (*        or indent < commonIndent *)
    end
  else commonIndent.

(* 4.a.ii 'Remove commonIndent characters from the beginning of line' *)
Fixpoint bs_remove_chars (n : nat) (line : str) : str :=
  match n, line with
  | S k, _ :: r => bs_remove_chars k r
  | _, _ => line
  end.

Definition bs_contains_only_ws (line : str) : bool := forallb bs_WhiteSpaceb line.

(* 5. 'While the first item line in lines contains only WhiteSpace: remove the first item from lines' *)
Fixpoint bs_remove_leading_blank (lines : list str) : list str :=
  match lines with
  | l :: r => if bs_contains_only_ws l then bs_remove_leading_blank r else lines
  | [] => []
  end.
(* 6. the same for the last item *)
Definition bs_remove_trailing_blank (lines : list str) : list str := rev (bs_remove_leading_blank (rev lines)).

(* 7./8. formatted: the first line, then for every other line a line feed and the line *)
Fixpoint bs_join_lf (lines : list str) : str :=
  match lines with
  | [] => []
  | [l] => l
  | l :: r => l ++ [10] ++ bs_join_lf r
  end.

Definition bs_BlockStringValue (rawValue : str) : str :=
  let lines := bs_split_by_line_terminator rawValue in                                   (* 1 *)
  let commonIndent := fold_left bs_common_indent_step (tl lines) None in                (* 2, 3 *)
  let lines :=
    match commonIndent with                                                            (* 4 *)
    | Some ci =>
        match lines with
        | first :: rest => first :: map (bs_remove_chars (N.to_nat ci)) rest
        | [] => []
        end
    | None => lines
    end in
  let lines := bs_remove_leading_blank lines in                                           (* 5 *)
  let lines := bs_remove_trailing_blank lines in                                          (* 6 *)
  bs_join_lf lines.                                                                       (* 7, 8, 9 *)
