(* Model of the string part of crates/apollo-compiler/src/ast/serialize.rs:
   State (indent_prefix / indent_level; the no-indent and on_single_line modes are indent_prefix = None),
   new_line_common, require_new_line, serialize_string_value, serialize_block_string (serialize_line, the
   multi_line decision), can_be_block_string, serialize_description.
   The functions return the text they write to the output.  Definitions only. *)
From ApolloVerif Require Import Base.Chars Str.Unescape.

(* config.indent_prefix (None: newlines disabled) and the current indent_level *)
Record ser_state := { st_prefix : option str; st_level : N }.

Definition newlines_enabled (st : ser_state) : bool :=
  match st_prefix st with Some _ => true | None => false end.

(* for _ in 0..indent_level { write(prefix) } *)
Definition indent_text (prefix : str) (level : N) : str :=
  N.iter level (fun acc => prefix ++ acc) [].

Definition new_line_common (st : ser_state) (space : bool) : str :=
  match st_prefix st with
  | Some prefix => [c_lf] ++ indent_text prefix (st_level st)
  | None => if space then [c_space] else []
  end.

(* .expect(..): panics when newlines are disabled *)
Definition require_new_line (st : ser_state) : sres str :=
  match st_prefix st with
  | Some prefix => SOk ([c_lf] ++ indent_text prefix (st_level st))
  | None => SPanic
  end.

(* ---- the quoted form *)
Definition hex_upper (d : N) : N := if d <? 10 then 48 + d else 55 + d.

(* one character of the `loop { str.find(..) .. }`: characters matching the `find` predicate are written as
   their escape, `\u{:04X}` for the other control characters; everything else is copied *)
Definition escape_char (c : N) : str :=
  if ((c <? c_space) && negb (c =? c_tab)) || (c =? c_quote) || (c =? c_bslash) then
    if c =? 8 then [c_bslash; c_b]
    else if c =? c_lf then [c_bslash; c_n]
    else if c =? 12 then [c_bslash; c_f]
    else if c =? c_cr then [c_bslash; c_r]
    else if c =? c_quote then [c_bslash; c_quote]
    else if c =? c_bslash then [c_bslash; c_bslash]
    else [c_bslash; c_u; 48; 48; hex_upper (c / 16); hex_upper (c mod 16)]
  else [c].

Definition quoted_form (s : str) : str := [c_quote] ++ flat_map escape_char s ++ [c_quote].

(* ---- the block form *)

(* str.split('\n') *)
Fixpoint split_lf (s : str) : list str :=
  match s with
  | [] => [[]]
  | c :: r =>
      if c =? c_lf then [] :: split_lf r
      else match split_lf r with
           | l :: ls => (c :: l) :: ls
           | [] => [[c]]   (* unreachable *)
           end
  end.

(* serialize_line: `while let Some((before, after)) = line.split_once(QQQ)` writes before, then \QQQ (Q = quotation mark),
   and continues after the three quotes.  skip = quotes of the occurrence still to be copied. *)
Fixpoint serialize_line (skip : nat) (s : str) : str :=
  match s with
  | [] => []
  | c :: r =>
      match skip with
      | S k => c :: serialize_line k r
      | O => if (c =? c_quote) && prefix_qq r then c_bslash :: c :: serialize_line 2 r
             else c :: serialize_line 0 r
      end
  end.

Definition str_ends_with (ch : N) (s : str) : bool :=
  match rev s with c :: _ => c =? ch | [] => false end.

Definition multi_line (contains_newline : bool) (s : str) : bool :=
  contains_newline || (70 <? blen s) || str_ends_with c_quote s || str_ends_with c_bslash s.

(* the `for line in str.split('\n')` loop *)
Fixpoint block_lines (st : ser_state) (lines : list str) : sres str :=
  match lines with
  | [] => SOk []
  | line :: rest =>
      sbind (match line with
             | [] => SOk [c_lf]
             | _ => smap (fun nl => nl ++ serialize_line 0 line) (require_new_line st)
             end)
            (fun a => smap (app a) (block_lines st rest))
  end.

Definition qqq_text : str := [c_quote; c_quote; c_quote].

Definition serialize_block_string (st : ser_state) (contains_newline : bool) (s : str) : sres str :=
  if negb (multi_line contains_newline s) then
    SOk (qqq_text ++ serialize_line 0 s ++ qqq_text)
  else
    sbind (block_lines st (split_lf s)) (fun body =>
    sbind (require_new_line st) (fun nl =>
    SOk (qqq_text ++ body ++ nl ++ qqq_text))).

(* ---- can_be_block_string *)

(* lines.next_back() after lines.next(): the last line if there are at least two *)
Definition last_after_first (lines : list str) : option str :=
  match lines with
  | _ :: (_ :: _) as rest => Some (last rest [])
  | _ => None
  end.

(* line.len() - trim_start_graphql_whitespace(line).len(), for lines that are not whitespace only *)
Definition line_indent_utf8 (line : str) : option N :=
  if negb (is_gws_line line) then Some (count_indent line) else None.

Definition can_be_block_string (value : str) : bool :=
  if mem c_cr value then false
  else
    let lines := split_lf value in
    if match lines with first :: _ => is_gws_line first | [] => false end
       || match last_after_first lines with Some l => is_gws_line l | None => false end
    then false
    else
      let common_indent := match min_some (map line_indent_utf8 lines) with Some n => n | None => 0 end in
      common_indent =? 0.

(* ---- serialize_string_value / serialize_description *)

Definition serialize_string_value (st : ser_state) (is_description : bool) (s : str) : sres str :=
  let contains_newline := mem c_lf s in
  let prefer_block_string := is_description || contains_newline in
  if newlines_enabled st && prefer_block_string && can_be_block_string s
  then serialize_block_string st contains_newline s
  else SOk (quoted_form s).

(* returns the literal and the separator written after it *)
Definition serialize_description (st : ser_state) (description : option str) : sres (str * str) :=
  match description with
  | Some d => smap (fun lit => (lit, new_line_common st true)) (serialize_string_value st true d)
  | None => SOk ([], [])
  end.
