(* Model of the string part of crates/apollo-compiler/src/ast/serialize.rs:
   State (indent_prefix / indent_level; the no-indent and on_single_line modes are indent_prefix = None),
   se_new_line_common, se_require_new_line, se_serialize_string_value, se_serialize_block_string (se_serialize_line, the
   se_multi_line decision), se_can_be_block_string, se_serialize_description.
   The functions return the text they write to the output.  Definitions only. *)
From ApolloVerif Require Import Base.Chars Str.Unescape.

(* config.indent_prefix (None: newlines disabled) and the current indent_level *)
Record se_state := { se_prefix : option str; se_level : N }.

Definition se_newlines_enabled (st : se_state) : bool :=
  match se_prefix st with Some _ => true | None => false end.

(* for _ in 0..indent_level { write(prefix) } *)
Definition se_indent_text (prefix : str) (level : N) : str :=
  N.iter level (fun acc => prefix ++ acc) [].

Definition se_new_line_common (st : se_state) (space : bool) : str :=
  match se_prefix st with
  | Some prefix => [c_lf] ++ se_indent_text prefix (se_level st)
  | None => if space then [c_space] else []
  end.

(* .expect(..): panics when newlines are disabled *)
Definition se_require_new_line (st : se_state) : su_res str :=
  match se_prefix st with
  | Some prefix => SuOk ([c_lf] ++ se_indent_text prefix (se_level st))
  | None => SuPanic
  end.

(* ---- the quoted form *)
Definition se_hex_upper (d : N) : N := if d <? 10 then 48 + d else 55 + d.

(* one character of the `loop { str.find(..) .. }`: characters matching the `find` predicate are written as
   their escape, `\u{:04X}` for the other control characters; everything else is copied *)
Definition se_escape_char (c : N) : str :=
  if ((c <? c_space) && negb (c =? c_tab)) || (c =? c_quote) || (c =? c_bslash) then
    if c =? 8 then [c_bslash; su_c_b]
    else if c =? c_lf then [c_bslash; su_c_n]
    else if c =? 12 then [c_bslash; su_c_f]
    else if c =? c_cr then [c_bslash; su_c_r]
    else if c =? c_quote then [c_bslash; c_quote]
    else if c =? c_bslash then [c_bslash; c_bslash]
    else [c_bslash; su_c_u; 48; 48; se_hex_upper (c / 16); se_hex_upper (c mod 16)]
  else [c].

Definition se_quoted_form (s : str) : str := [c_quote] ++ flat_map se_escape_char s ++ [c_quote].

(* ---- the block form *)

(* str.split('\n') *)
Fixpoint se_split_lf (s : str) : list str :=
  match s with
  | [] => [[]]
  | c :: r =>
      if c =? c_lf then [] :: se_split_lf r
      else match se_split_lf r with
           | l :: ls => (c :: l) :: ls
           | [] => [[c]]   (* unreachable *)
           end
  end.

(* se_serialize_line: `while let Some((before, after)) = line.split_once(QQQ)` writes before, then \QQQ (Q = quotation mark),
   and continues after the three quotes.  skip = quotes of the occurrence still to be copied. *)
Fixpoint se_serialize_line (skip : nat) (s : str) : str :=
  match s with
  | [] => []
  | c :: r =>
      match skip with
      | S k => c :: se_serialize_line k r
      | O => if (c =? c_quote) && su_prefix_qq r then c_bslash :: c :: se_serialize_line 2 r
             else c :: se_serialize_line 0 r
      end
  end.

Definition se_ends_with (ch : N) (s : str) : bool :=
  match rev s with c :: _ => c =? ch | [] => false end.

Definition se_multi_line (contains_newline : bool) (s : str) : bool :=
  contains_newline || (70 <? blen s) || se_ends_with c_quote s || se_ends_with c_bslash s.

(* the `for line in str.split('\n')` loop *)
Fixpoint se_block_lines (st : se_state) (lines : list str) : su_res str :=
  match lines with
  | [] => SuOk []
  | line :: rest =>
      su_bind (match line with
             | [] => SuOk [c_lf]
             | _ => su_map (fun nl => nl ++ se_serialize_line 0 line) (se_require_new_line st)
             end)
            (fun a => su_map (app a) (se_block_lines st rest))
  end.

Definition se_qqq_text : str := [c_quote; c_quote; c_quote].

Definition se_serialize_block_string (st : se_state) (contains_newline : bool) (s : str) : su_res str :=
  if negb (se_multi_line contains_newline s) then
    SuOk (se_qqq_text ++ se_serialize_line 0 s ++ se_qqq_text)
  else
    su_bind (se_block_lines st (se_split_lf s)) (fun body =>
    su_bind (se_require_new_line st) (fun nl =>
    SuOk (se_qqq_text ++ body ++ nl ++ se_qqq_text))).

(* ---- se_can_be_block_string *)

(* lines.next_back() after lines.next(): the last line if there are at least two *)
Definition se_last_after_first (lines : list str) : option str :=
  match lines with
  | _ :: (_ :: _) as rest => Some (last rest [])
  | _ => None
  end.

(* line.len() - trim_start_graphql_whitespace(line).len(), for lines that are not whitespace only *)
Definition se_line_indent_utf8 (line : str) : option N :=
  if negb (su_is_ws_line line) then Some (su_count_indent line) else None.

Definition se_can_be_block_string (value : str) : bool :=
  if mem c_cr value then false
  else
    let lines := se_split_lf value in
    if match lines with first :: _ => su_is_ws_line first | [] => false end
       || match se_last_after_first lines with Some l => su_is_ws_line l | None => false end
    then false
    else
      let su_common_indent := match su_min_some (map se_line_indent_utf8 lines) with Some n => n | None => 0 end in
      su_common_indent =? 0.

(* ---- se_serialize_string_value / se_serialize_description *)

Definition se_serialize_string_value (st : se_state) (is_description : bool) (s : str) : su_res str :=
  let contains_newline := mem c_lf s in
  let prefer_block_string := is_description || contains_newline in
  if se_newlines_enabled st && prefer_block_string && se_can_be_block_string s
  then se_serialize_block_string st contains_newline s
  else SuOk (se_quoted_form s).

(* returns the literal and the separator written after it *)
Definition se_serialize_description (st : se_state) (description : option str) : su_res (str * str) :=
  match description with
  | Some d => su_map (fun lit => (lit, se_new_line_common st true)) (se_serialize_string_value st true d)
  | None => SuOk ([], [])
  end.
