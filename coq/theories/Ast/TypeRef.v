(* Type references: ast::Type (crates/apollo-compiler/src/ast/mod.rs), Display for Type
   (ast/serialize.rs), and a token-level reference parser for the grammar
       Type : Name | [ Type ] | Type !
   shaped like apollo-parser's grammar/ty.rs `parse` (including its recursion limit, which is the
   structural fuel here: running out of it is the distinct result TrLimit).
   The full `Parser::parse_type` entry (lexer, CST, ignored tokens, error recovery) is modelled
   elsewhere (C01/C07); the C10 tie runs the real `Type::parse` on printed types only.
   Definitions only; proofs in TypeRefProofs.v. *)
From ApolloVerif Require Import Base.Chars Ast.Ast.

(* ast::Type is Ast.ty := TNamed | TNonNullNamed | TList | TNonNullList (shared AST) *)

(* Display for Type *)
Fixpoint tref_print (t : ty) : str :=
  match t with
  | TNamed n => n
  | TNonNullNamed n => n ++ [c_bang]
  | TList i => [c_lbrack] ++ tref_print i ++ [c_rbrack]
  | TNonNullList i => [c_lbrack] ++ tref_print i ++ [c_rbrack; c_bang]
  end.

Fixpoint tref_wf (t : ty) : bool :=
  match t with
  | TNamed n | TNonNullNamed n => is_valid_name n
  | TList i | TNonNullList i => tref_wf i
  end.

(* number of list wrappers *)
Fixpoint tref_depth (t : ty) : nat :=
  match t with
  | TNamed _ | TNonNullNamed _ => O
  | TList i | TNonNullList i => S (tref_depth i)
  end.

(* ---- tokens of a type reference ---- *)
Inductive trtok := TtName (n : str) | TtLBrack | TtRBrack | TtBang.

(* GraphQL ignored characters that can separate tokens: whitespace, line terminators, comma, BOM
   (comments are not handled by this reference lexer: a '#' is an error) *)
Definition trtok_is_ignored (c : N) : bool :=
  (c =? c_tab) || (c =? c_space) || (c =? c_lf) || (c =? c_cr) || (c =? c_comma) || (c =? c_bom).

Definition trtok_flush (cur : str) (toks : list trtok) : list trtok :=
  match cur with [] => toks | _ => TtName (rev cur) :: toks end.

(* left to right; `cur` is the name being read, reversed ([] when not inside a name) *)
Fixpoint tref_lex (cur : str) (s : str) : option (list trtok) :=
  match s with
  | [] => Some (trtok_flush cur [])
  | c :: r =>
      if is_name_continue c then
        match cur with
        | [] => if is_name_start c then tref_lex [c] r else None     (* a digit cannot start a token of a type *)
        | _ => tref_lex (c :: cur) r
        end
      else
        let punct :=
          if c =? c_lbrack then Some (Some TtLBrack)
          else if c =? c_rbrack then Some (Some TtRBrack)
          else if c =? c_bang then Some (Some TtBang)
          else if trtok_is_ignored c then Some None
          else None in
        match punct with
        | None => None
        | Some k =>
            match tref_lex [] r with
            | None => None
            | Some toks => Some (trtok_flush cur (match k with Some k => k :: toks | None => toks end))
            end
        end
  end.

(* ---- recursive descent, as grammar/ty.rs `parse`: a list costs one unit of the recursion limit ---- *)
Inductive trres := TrOk (t : ty) (rest : list trtok) | TrErr | TrLimit.

Fixpoint tref_parse_toks (limit : nat) (toks : list trtok) : trres :=
  match toks with
  | TtLBrack :: r =>
      match limit with
      | O => TrLimit                                         (* recursion_limit.check_and_increment() *)
      | S l =>
          match tref_parse_toks l r with
          | TrOk i (TtRBrack :: r') =>                       (* p.expect(T![']']) *)
              match r' with
              | TtBang :: r'' => TrOk (TNonNullList i) r''
              | _ => TrOk (TList i) r'
              end
          | TrOk _ _ => TrErr
          | e => e
          end
      end
  | TtName n :: r =>
      match r with
      | TtBang :: r' => TrOk (TNonNullNamed n) r'
      | _ => TrOk (TNamed n) r
      end
  | _ => TrErr
  end.

(* whole-input entry: the text must be exactly one type *)
Definition tref_parse (limit : nat) (s : str) : option ty :=
  match tref_lex [] s with
  | None => None
  | Some toks =>
      match tref_parse_toks limit toks with
      | TrOk t [] => Some t
      | _ => None
      end
  end.

(* apollo-parser's DEFAULT_RECURSION_LIMIT *)
Definition tref_default_limit : nat := 500.
