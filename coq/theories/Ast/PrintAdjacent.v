(* C08 (c) — in the serializer's output, two tokens that are not separated by any text are
   adjacent_safe, for every configuration (including no_indent and the empty prefix). *)
From ApolloVerif Require Import Base.Chars Ast.Ast Ast.PrintState Ast.PrintString Ast.Print
  Ast.PrintTokens.

(* ---- induction principles for the nested types *)
Section ValueInd.
  Variable P : value -> Prop.
  Hypothesis Hnull : P VNull.
  Hypothesis Henum : forall n, P (VEnum n).
  Hypothesis Hvar : forall n, P (VVar n).
  Hypothesis Hstr : forall s, P (VString s).
  Hypothesis Hfloat : forall s, P (VFloat s).
  Hypothesis Hint : forall s, P (VInt s).
  Hypothesis Hbool : forall b, P (VBool b).
  Hypothesis Hlist : forall l, Forall P l -> P (VList l).
  Hypothesis Hobj : forall fs, Forall (fun nv => P (snd nv)) fs -> P (VObject fs).
  Fixpoint value_ind2 (v : value) : P v :=
    match v with
    | VNull => Hnull
    | VEnum n => Henum n
    | VVar n => Hvar n
    | VString s => Hstr s
    | VFloat s => Hfloat s
    | VInt s => Hint s
    | VBool b => Hbool b
    | VList l =>
        Hlist l ((fix go (l : list value) : Forall P l :=
                    match l with
                    | [] => Forall_nil _
                    | x :: r => Forall_cons _ (value_ind2 x) (go r)
                    end) l)
    | VObject fs =>
        Hobj fs ((fix go (l : list (str * value)) : Forall (fun nv => P (snd nv)) l :=
                    match l with
                    | [] => Forall_nil _
                    | x :: r => Forall_cons _ (value_ind2 (snd x)) (go r)
                    end) fs)
    end.
End ValueInd.

Section SelectionInd.
  Variable P : selection -> Prop.
  Hypothesis Hfield : forall a n args dirs sels, Forall P sels -> P (SField a n args dirs sels).
  Hypothesis Hspread : forall n dirs, P (SSpread n dirs).
  Hypothesis Hinline : forall c dirs sels, Forall P sels -> P (SInline c dirs sels).
  Fixpoint selection_ind2 (s : selection) : P s :=
    let go := fix go (l : list selection) : Forall P l :=
                match l with
                | [] => Forall_nil _
                | x :: r => Forall_cons _ (selection_ind2 x) (go r)
                end in
    match s with
    | SField a n args dirs sels => Hfield a n args dirs sels (go sels)
    | SSpread n dirs => Hspread n dirs
    | SInline c dirs sels => Hinline c dirs sels (go sels)
    end.
End SelectionInd.

(* ---- the item-level safety check *)
Fixpoint pi_safe (prev : option ptok) (l : list pitem) : bool :=
  match l with
  | [] => true
  | PiSep s :: r => pi_safe (if aps_is_empty s then prev else None) r
  | PiTok t :: r =>
      (match prev with Some q => adjacent_safe q t | None => true end) && pi_safe (Some t) r
  end.

(* tokens that are safe next to anything, on both sides *)
Definition pt_inert (t : ptok) : bool :=
  match t with
  | PtPunct PSpread => false
  | PtPunct _ => true
  | PtEof => true
  | _ => false
  end.

Definition pi_calm (q : option ptok) : bool :=
  match q with None => true | Some t => pt_inert t end.

Definition pi_robust (l : list pitem) : Prop := forall q, pi_safe q l = true.

Lemma adjacent_safe_inert_l t u : pt_inert t = true -> adjacent_safe t u = true.
Proof. destruct t as [[]| | | | |]; cbn; try discriminate; intros _; destruct u as [[]| | | | |]; reflexivity. Qed.

Lemma adjacent_safe_inert_r t u : pt_inert u = true -> adjacent_safe t u = true.
Proof. destruct u as [[]| | | | |]; cbn; try discriminate; intros _; destruct t as [[]| | | | |]; reflexivity. Qed.

(* step lemmas *)
Lemma safe_tok_calm q t R :
  pi_calm q = true -> pi_safe (Some t) R = true -> pi_safe q (PiTok t :: R) = true.
Proof.
  intros Hq HR. cbn [pi_safe]. rewrite HR, andb_true_r.
  destruct q as [u|]; [|reflexivity]. apply adjacent_safe_inert_l. exact Hq.
Qed.

Lemma safe_tok_inert q t R :
  pt_inert t = true -> pi_safe (Some t) R = true -> pi_safe q (PiTok t :: R) = true.
Proof.
  intros Ht HR. cbn [pi_safe]. rewrite HR, andb_true_r.
  destruct q as [u|]; [|reflexivity]. now apply adjacent_safe_inert_r.
Qed.

Lemma safe_tok_pair u t R :
  adjacent_safe u t = true -> pi_safe (Some t) R = true -> pi_safe (Some u) (PiTok t :: R) = true.
Proof. intros H HR. cbn [pi_safe]. now rewrite H, HR. Qed.

Lemma safe_sep q s R :
  aps_is_empty s = false -> pi_safe None R = true -> pi_safe q (PiSep s :: R) = true.
Proof. intros Hs HR. cbn [pi_safe]. now rewrite Hs. Qed.

Lemma robust_nil : pi_robust [].
Proof. intros q. reflexivity. Qed.

(* the two shapes of a construct's lemma *)
Definition pi_ok (g : list pitem) : Prop :=
  forall q R, pi_calm q = true -> pi_robust R -> pi_safe q (g ++ R) = true.
Definition pi_rok (g : list pitem) : Prop :=
  forall q R, pi_robust R -> pi_safe q (g ++ R) = true.

Lemma rok_ok g : pi_rok g -> pi_ok g.
Proof. intros H q R _ HR. now apply H. Qed.

Lemma rok_nil : pi_rok [].
Proof. intros q R HR. apply HR. Qed.

Lemma rok_app a b : pi_rok a -> pi_rok b -> pi_rok (a ++ b).
Proof. intros Ha Hb q R HR. rewrite <- app_assoc. apply Ha. intros q'. now apply Hb. Qed.

Lemma ok_app_rok a b : pi_ok a -> pi_rok b -> pi_ok (a ++ b).
Proof. intros Ha Hb q R Hq HR. rewrite <- app_assoc. apply Ha; [exact Hq|]. intros q'. now apply Hb. Qed.

Lemma rok_flat_map {A} (f : A -> list pitem) xs :
  (forall x, In x xs -> pi_rok (f x)) -> pi_rok (flat_map f xs).
Proof.
  induction xs as [|x xs IH]; intros H; cbn [flat_map]; [apply rok_nil|].
  apply rok_app; [apply H; now left|]. apply IH. intros y Hy. apply H. now right.
Qed.

Lemma rok_sep_ok s g : aps_is_empty s = false -> pi_ok g -> pi_rok (PiSep s :: g).
Proof. intros Hs Hg q R HR. cbn [app]. apply safe_sep; [exact Hs|]. now apply Hg. Qed.

Lemma rok_inert_ok t g : pt_inert t = true -> pi_ok g -> pi_rok (PiTok t :: g).
Proof. intros Ht Hg q R HR. cbn [app]. apply safe_tok_inert; [exact Ht|]. now apply Hg. Qed.

Lemma ok_tok_rok t g : pi_rok g -> pi_ok (PiTok t :: g).
Proof. intros Hg q R Hq HR. cbn [app]. apply safe_tok_calm; [exact Hq|]. now apply Hg. Qed.

Lemma ok_tok t : pi_ok [PiTok t].
Proof. apply ok_tok_rok, rok_nil. Qed.

(* newline-or-nothing pieces in front of an ok piece *)
Lemma ok_nl_app p l sp g : pi_ok g -> pi_ok (pi_nl p l sp ++ g).
Proof.
  intros Hg. destruct p as [p|]; cbn [pi_nl].
  - apply rok_ok. cbn [app]. apply rok_sep_ok; [reflexivity|exact Hg].
  - destruct sp; cbn [app]; [|exact Hg]. apply rok_ok, rok_sep_ok; [reflexivity|exact Hg].
Qed.

Lemma rok_nl_true p l g : pi_ok g -> pi_rok (pi_nl p l true ++ g).
Proof.
  intros Hg. destruct p as [p|]; cbn [pi_nl app]; apply rok_sep_ok; try reflexivity; exact Hg.
Qed.

Lemma rok_nl p l sp : pi_rok (pi_nl p l sp).
Proof.
  destruct p as [p|]; cbn [pi_nl].
  - apply rok_sep_ok; [reflexivity|apply rok_ok, rok_nil].
  - destruct sp; [|apply rok_nil]. apply rok_sep_ok; [reflexivity|apply rok_ok, rok_nil].
Qed.

(* ---- the list layouts *)
Lemma rok_comma o c (items : list pi_layout) p l :
  pt_inert (PtPunct o) = true -> pt_inert (PtPunct c) = true ->
  (forall it, In it items -> forall p l, pi_ok (it p l)) ->
  pi_rok (pi_comma o c items p l).
Proof.
  intros Ho Hc Hit. unfold pi_comma, pi_p. cbn [app].
  apply rok_inert_ok; [exact Ho|].
  destruct items as [|first rest]; cbn [app].
  - apply rok_ok, rok_inert_ok; [exact Hc|apply rok_ok, rok_nil].
  - rewrite <- !app_assoc. apply ok_nl_app. apply ok_app_rok; [apply Hit; now left|].
    apply rok_app.
    + apply rok_flat_map. intros it Hin. cbn [app]. apply rok_sep_ok; [reflexivity|].
      apply ok_nl_app. apply Hit. now right.
    + apply rok_app.
      * destruct p; cbn [pi_if_newlines]; [|apply rok_nil].
        apply rok_sep_ok; [reflexivity|apply rok_ok, rok_nil].
      * apply rok_app; [apply rok_nl|]. apply rok_inert_ok; [exact Hc|apply rok_ok, rok_nil].
Qed.

Lemma rok_curly (items : list pi_layout) p l :
  (forall it, In it items -> forall p l, pi_ok (it p l)) ->
  pi_rok (pi_curly items p l).
Proof.
  intros Hit. unfold pi_curly, pi_p. cbn [app].
  apply rok_inert_ok; [reflexivity|].
  destruct items as [|first rest]; cbn [app].
  - apply rok_ok, rok_inert_ok; [reflexivity|apply rok_ok, rok_nil].
  - rewrite <- !app_assoc. apply ok_nl_app. apply ok_app_rok; [apply Hit; now left|].
    apply rok_app.
    + apply rok_flat_map. intros it Hin. apply rok_nl_true. apply Hit. now right.
    + apply rok_app; [apply rok_nl|]. apply rok_inert_ok; [reflexivity|apply rok_ok, rok_nil].
Qed.

Lemma in_map_ok {A} (G : A -> pi_layout) xs :
  (forall x, In x xs -> forall p l, pi_ok (G x p l)) ->
  forall it, In it (map G xs) -> forall p l, pi_ok (it p l).
Proof. intros H it Hin. apply in_map_iff in Hin as [x [<- Hx]]. now apply H. Qed.

(* ---- constructs *)
Lemma ok_type t : pi_ok (pi_type t).
Proof.
  induction t as [n|n|t IH|t IH]; cbn [pi_type].
  - apply ok_tok.
  - apply ok_tok_rok. apply rok_inert_ok; [reflexivity|apply rok_ok, rok_nil].
  - cbn [app]. apply rok_ok, rok_inert_ok; [reflexivity|].
    apply ok_app_rok; [exact IH|]. apply rok_inert_ok; [reflexivity|apply rok_ok, rok_nil].
  - cbn [app]. apply rok_ok, rok_inert_ok; [reflexivity|].
    apply ok_app_rok; [exact IH|]. apply rok_inert_ok; [reflexivity|].
    apply rok_ok, rok_inert_ok; [reflexivity|apply rok_ok, rok_nil].
Qed.

Lemma ok_string isd s p l : pi_ok (pi_string isd s p l).
Proof. apply ok_tok. Qed.

(* name ':' ' ' followed by an ok piece *)
Lemma ok_name_colon n g : pi_ok g -> pi_ok ([pi_n n; pi_p PColon; pi_s] ++ g).
Proof.
  intros Hg. cbn [app]. unfold pi_n, pi_p, pi_s. apply ok_tok_rok.
  apply rok_inert_ok; [reflexivity|]. apply rok_ok, rok_sep_ok; [reflexivity|exact Hg].
Qed.

Lemma ok_value v : forall p l, pi_ok (pi_value v p l).
Proof.
  induction v as [| n | n | s | s | s | b | vs IH | fs IH] using value_ind2; intros p l; cbn [pi_value].
  - apply ok_tok.
  - apply ok_tok.
  - unfold pi_p, pi_n. apply rok_ok, rok_inert_ok; [reflexivity|apply ok_tok].
  - apply ok_string.
  - apply ok_tok.
  - apply ok_tok.
  - destruct b; apply ok_tok.
  - apply rok_ok, rok_comma; try reflexivity.
    apply in_map_ok. intros x Hx.
    rewrite Forall_forall in IH. now apply IH.
  - apply rok_ok, rok_comma; try reflexivity.
    apply in_map_ok. intros x Hx p' l'.
    apply ok_name_colon. rewrite Forall_forall in IH. now apply IH.
Qed.

Lemma ok_argument a p l : pi_ok (pi_argument a p l).
Proof. unfold pi_argument. apply ok_name_colon, ok_value. Qed.

Lemma rok_arguments args p l : pi_rok (pi_arguments args p l).
Proof.
  unfold pi_arguments. destruct args as [|a args]; [apply rok_nil|].
  apply rok_comma; try reflexivity.
  apply in_map_ok. intros x _ p' l'. apply ok_argument.
Qed.

Lemma ok_directive d p l : pi_ok (pi_directive d p l).
Proof.
  unfold pi_directive, pi_p, pi_n. cbn [app]. apply rok_ok, rok_inert_ok; [reflexivity|].
  apply ok_tok_rok, rok_arguments.
Qed.

Lemma rok_directives ds p l : pi_rok (pi_directives ds p l).
Proof.
  unfold pi_directives. apply rok_flat_map. intros d _. cbn [app]. unfold pi_s.
  apply rok_sep_ok; [reflexivity|apply ok_directive].
Qed.

(* ' ' '=' ' ' value, or nothing *)
Lemma rok_default (dv : option value) p l :
  pi_rok (match dv with Some d => [pi_s; pi_p PEq; pi_s] ++ pi_value d p l | None => [] end).
Proof.
  destruct dv as [d|]; [|apply rok_nil]. cbn [app]. unfold pi_s, pi_p.
  apply rok_sep_ok; [reflexivity|]. apply rok_ok, rok_inert_ok; [reflexivity|].
  apply rok_ok, rok_sep_ok; [reflexivity|apply ok_value].
Qed.

Lemma ok_vardef v p l : pi_ok (pi_vardef v p l).
Proof.
  unfold pi_vardef, pi_p, pi_n, pi_s. cbn [app].
  apply rok_ok, rok_inert_ok; [reflexivity|]. apply ok_tok_rok.
  apply rok_inert_ok; [reflexivity|]. apply rok_ok, rok_sep_ok; [reflexivity|].
  apply ok_app_rok; [apply ok_type|]. apply rok_app; [apply rok_default|apply rok_directives].
Qed.

Lemma rok_space_curly (items : list pi_layout) p l :
  (forall it, In it items -> forall p l, pi_ok (it p l)) ->
  pi_rok ([pi_s] ++ pi_curly items p l).
Proof.
  intros H. cbn [app]. unfold pi_s. apply rok_sep_ok; [reflexivity|]. now apply rok_ok, rok_curly.
Qed.

Lemma ok_selection s : forall p l, pi_ok (pi_selection s p l).
Proof.
  induction s as [a n args dirs sels IH | n dirs | c dirs sels IH] using selection_ind2;
    intros p l; cbn [pi_selection].
  - assert (Hbody : pi_ok ([pi_n n] ++ pi_arguments args p l ++ pi_directives dirs p l ++
              match sels with [] => [] | _ :: _ => [pi_s] ++ pi_curly (map pi_selection sels) p l end)).
    { cbn [app]. unfold pi_n. apply ok_tok_rok. apply rok_app; [apply rok_arguments|].
      apply rok_app; [apply rok_directives|].
      destruct sels as [|s0 sels']; [apply rok_nil|]. apply rok_space_curly.
      apply in_map_ok. intros x Hx.
      rewrite Forall_forall in IH. now apply IH. }
    destruct a as [a|]; [|exact Hbody]. now apply ok_name_colon.
  - cbn [app]. unfold pi_p, pi_n. intros q R Hq HR. cbn [app].
    apply safe_tok_calm; [exact Hq|]. apply safe_tok_pair; [reflexivity|].
    now apply rok_directives.
  - assert (Htail : pi_rok (pi_directives dirs p l ++ [pi_s] ++ pi_curly (map pi_selection sels) p l)).
    { apply rok_app; [apply rok_directives|]. apply rok_space_curly.
      apply in_map_ok. intros x Hx.
      rewrite Forall_forall in IH. now apply IH. }
    destruct c as [t|].
    + cbn [app]. unfold pi_p, pi_n, pi_s. intros q R Hq HR. cbn [app].
      apply safe_tok_calm; [exact Hq|]. apply safe_sep; [reflexivity|].
      apply safe_tok_calm; [reflexivity|]. apply safe_sep; [reflexivity|].
      apply safe_tok_calm; [reflexivity|]. now apply Htail.
    + cbn [app]. unfold pi_p. apply ok_tok_rok. exact Htail.
Qed.

Lemma rok_selset sels p l : pi_rok (pi_curly (map pi_selection sels) p l).
Proof.
  apply rok_curly. apply in_map_ok. intros x _. apply ok_selection.
Qed.

Lemma ok_operation e op name vars dirs sels p l :
  pi_ok (pi_operation e op name vars dirs sels p l).
Proof.
  unfold pi_operation. destruct (negb (pi_shorthand e op name vars dirs)).
  - rewrite <- !app_assoc. cbn [app]. unfold pi_n at 1. apply ok_tok_rok.
    apply rok_app.
    { destruct name as [n|]; [|apply rok_nil]. unfold pi_s, pi_n.
      apply rok_sep_ok; [reflexivity|apply ok_tok]. }
    apply rok_app.
    { destruct vars as [|v vars]; [apply rok_nil|]. apply rok_comma; try reflexivity.
      apply in_map_ok. intros x _ p' l'. apply ok_vardef. }
    apply rok_app; [apply rok_directives|].
    cbn [app]. unfold pi_s. apply rok_sep_ok; [reflexivity|apply rok_ok, rok_selset].
  - cbn [app]. apply rok_ok, rok_selset.
Qed.

Lemma ok_fragment name cond dirs sels p l : pi_ok (pi_fragment name cond dirs sels p l).
Proof.
  unfold pi_fragment, pi_n, pi_s. intros q R Hq HR. cbn [app].
  apply safe_tok_calm; [exact Hq|]. apply safe_sep; [reflexivity|].
  apply safe_tok_calm; [reflexivity|]. apply safe_sep; [reflexivity|].
  apply safe_tok_calm; [reflexivity|]. apply safe_sep; [reflexivity|].
  apply safe_tok_calm; [reflexivity|].
  rewrite <- app_assoc. apply rok_directives. intros q'. cbn [app].
  apply safe_sep; [reflexivity|]. now apply rok_selset.
Qed.

(* description: a string token followed by a newline or a space, or nothing; then an ok piece *)
Lemma ok_description_app desc p l g : pi_ok g -> pi_ok (pi_description desc p l ++ g).
Proof.
  intros Hg. unfold pi_description. destruct desc as [s|]; [|exact Hg].
  unfold pi_string. cbn [app]. apply ok_tok_rok. now apply rok_nl_true.
Qed.

Lemma ok_inputvaldef v p l : pi_ok (pi_inputvaldef v p l).
Proof.
  unfold pi_inputvaldef. apply ok_description_app. apply ok_name_colon.
  apply ok_app_rok; [apply ok_type|]. apply rok_app; [apply rok_default|apply rok_directives].
Qed.

Lemma rok_arguments_definition args p l : pi_rok (pi_arguments_definition args p l).
Proof.
  unfold pi_arguments_definition. destruct args as [|a args]; [apply rok_nil|].
  apply rok_comma; try reflexivity.
  apply in_map_ok. intros x _ p' l'. apply ok_inputvaldef.
Qed.

Lemma ok_fielddef f p l : pi_ok (pi_fielddef f p l).
Proof.
  unfold pi_fielddef. apply ok_description_app. cbn [app]. unfold pi_n. apply ok_tok_rok.
  apply rok_app; [apply rok_arguments_definition|].
  cbn [app]. unfold pi_p, pi_s. apply rok_inert_ok; [reflexivity|].
  apply rok_ok, rok_sep_ok; [reflexivity|]. apply ok_app_rok; [apply ok_type|apply rok_directives].
Qed.

Lemma ok_enumvaldef e p l : pi_ok (pi_enumvaldef e p l).
Proof.
  unfold pi_enumvaldef. apply ok_description_app. cbn [app]. unfold pi_n.
  apply ok_tok_rok, rok_directives.
Qed.

Lemma ok_rootop r p l : pi_ok (pi_rootop r p l).
Proof. unfold pi_rootop. apply (ok_name_colon _ [pi_n (snd r)]). apply ok_tok. Qed.

(* lead (ending in a separator) name (' ' sep ' ' name)* *)
Lemma rok_name_list_kw kw sep names :
  pt_inert (PtPunct sep) = true ->
  pi_rok (pi_name_list [pi_s; pi_n kw; pi_s] sep names).
Proof.
  intros Hs. unfold pi_name_list. destruct names as [|first rest]; [apply rok_nil|].
  cbn [app]. unfold pi_s, pi_n. apply rok_sep_ok; [reflexivity|]. apply ok_tok_rok.
  apply rok_sep_ok; [reflexivity|]. apply ok_tok_rok.
  apply rok_flat_map. intros n _. unfold pi_p. apply rok_sep_ok; [reflexivity|].
  apply rok_ok, rok_inert_ok; [exact Hs|]. apply rok_ok, rok_sep_ok; [reflexivity|apply ok_tok].
Qed.

Lemma rok_name_list_eq names : pi_rok (pi_name_list [pi_s; pi_p PEq; pi_s] PPipe names).
Proof.
  unfold pi_name_list. destruct names as [|first rest]; [apply rok_nil|].
  cbn [app]. unfold pi_s, pi_n, pi_p. apply rok_sep_ok; [reflexivity|].
  apply rok_ok, rok_inert_ok; [reflexivity|].
  apply rok_ok, rok_sep_ok; [reflexivity|]. apply ok_tok_rok.
  apply rok_flat_map. intros n _. apply rok_sep_ok; [reflexivity|].
  apply rok_ok, rok_inert_ok; [reflexivity|]. apply rok_ok, rok_sep_ok; [reflexivity|apply ok_tok].
Qed.

(* keyword ' ' followed by an ok piece *)
Lemma ok_kw_space kw g : pi_ok g -> pi_ok ([pi_n kw; pi_s] ++ g).
Proof.
  intros Hg. cbn [app]. unfold pi_n, pi_s. apply ok_tok_rok. apply rok_sep_ok; [reflexivity|exact Hg].
Qed.

Lemma ok_extend_kw kw g : pi_ok g -> pi_ok ([pi_n apk_extend; pi_s; pi_n kw; pi_s] ++ g).
Proof. intros Hg. apply (ok_kw_space apk_extend ([pi_n kw; pi_s] ++ g)). now apply ok_kw_space. Qed.

Lemma rok_opt_space_curly (body : list pi_layout) p l :
  (forall it, In it body -> forall p l, pi_ok (it p l)) ->
  pi_rok (match body with [] => [] | _ :: _ => [pi_s] ++ pi_curly body p l end).
Proof. intros H. destruct body as [|b body]; [apply rok_nil|]. now apply rok_space_curly. Qed.

Lemma ok_object_type_like name impls dirs fields p l :
  pi_ok (pi_object_type_like name impls dirs fields p l).
Proof.
  unfold pi_object_type_like. cbn [app]. unfold pi_n at 1. apply ok_tok_rok.
  apply rok_app; [apply rok_name_list_kw; reflexivity|].
  apply rok_app; [apply rok_directives|].
  destruct fields as [|f fields]; [apply rok_nil|]. apply rok_space_curly.
  apply in_map_ok. intros x _ p' l'. apply ok_fielddef.
Qed.

Lemma ok_union name dirs members p l : pi_ok (pi_union name dirs members p l).
Proof.
  unfold pi_union. cbn [app]. unfold pi_n at 1. apply ok_tok_rok.
  apply rok_app; [apply rok_directives|apply rok_name_list_eq].
Qed.

Lemma ok_name_dirs_body name dirs body p l :
  (forall it, In it body -> forall p l, pi_ok (it p l)) ->
  pi_ok (pi_name_dirs_body name dirs body p l).
Proof.
  intros H. unfold pi_name_dirs_body. cbn [app]. unfold pi_n at 1. apply ok_tok_rok.
  apply rok_app; [apply rok_directives|]. now apply rok_opt_space_curly.
Qed.

Lemma ok_definition e d p l : pi_ok (pi_definition e d p l).
Proof.
  destruct d; cbn [pi_definition].
  - apply ok_operation.
  - apply ok_fragment.
  - unfold pi_directive_definition. apply ok_description_app.
    cbn [app]. unfold pi_n at 1, pi_s at 1, pi_p at 1. apply ok_tok_rok.
    apply rok_sep_ok; [reflexivity|]. apply rok_ok, rok_inert_ok; [reflexivity|].
    unfold pi_n at 1. apply ok_tok_rok.
    apply rok_app; [apply rok_arguments_definition|].
    apply rok_app; [|apply rok_name_list_kw; reflexivity].
    destruct repeatable; [|apply rok_nil]. unfold pi_s, pi_n.
    apply rok_sep_ok; [reflexivity|apply ok_tok].
  - unfold pi_schema_definition. apply ok_description_app.
    cbn [app]. unfold pi_n at 1. apply ok_tok_rok.
    apply rok_app; [apply rok_directives|]. apply rok_space_curly.
    apply in_map_ok. intros x _ p' l'. apply ok_rootop.
  - apply ok_description_app. apply (ok_kw_space apk_scalar (pi_n name :: pi_directives dirs p l)).
    unfold pi_n. apply ok_tok_rok, rok_directives.
  - apply ok_description_app. apply ok_kw_space, ok_object_type_like.
  - apply ok_description_app. apply ok_kw_space, ok_object_type_like.
  - apply ok_description_app. apply ok_kw_space, ok_union.
  - apply ok_description_app. apply ok_kw_space, ok_name_dirs_body.
    apply in_map_ok. intros x _ p' l'. apply ok_enumvaldef.
  - apply ok_description_app. apply ok_kw_space, ok_name_dirs_body.
    apply in_map_ok. intros x _ p' l'. apply ok_inputvaldef.
  - apply (ok_kw_space apk_extend (pi_n apk_schema :: _)). unfold pi_n. apply ok_tok_rok.
    apply rok_app; [apply rok_directives|].
    destruct roots as [|r roots]; [apply rok_nil|]. apply rok_space_curly.
    apply in_map_ok. intros x _ p' l'. apply ok_rootop.
  - apply (ok_extend_kw apk_scalar (pi_n name :: pi_directives dirs p l)).
    unfold pi_n. apply ok_tok_rok, rok_directives.
  - apply ok_extend_kw, ok_object_type_like.
  - apply ok_extend_kw, ok_object_type_like.
  - apply ok_extend_kw, ok_union.
  - apply ok_extend_kw, ok_name_dirs_body.
    apply in_map_ok. intros x _ p' l'. apply ok_enumvaldef.
  - apply ok_extend_kw, ok_name_dirs_body.
    apply in_map_ok. intros x _ p' l'. apply ok_inputvaldef.
Qed.

Lemma rok_if_newlines_lf p : pi_rok (pi_if_newlines p [PiSep [c_lf]]).
Proof.
  destruct p; cbn [pi_if_newlines]; [|apply rok_nil].
  apply rok_sep_ok; [reflexivity|apply rok_ok, rok_nil].
Qed.

Lemma ok_top_level e d p l : pi_ok (pi_top_level e d p l).
Proof.
  unfold pi_top_level. destruct d as [|first rest]; [apply rok_ok, rok_nil|].
  apply ok_app_rok; [apply ok_definition|].
  apply rok_app; [|apply rok_if_newlines_lf].
  apply rok_flat_map. intros x _.
  apply rok_app; [apply rok_if_newlines_lf|]. apply rok_nl_true, ok_definition.
Qed.

Lemma pi_document_safe cfg d : pi_safe None (pi_document cfg d) = true.
Proof.
  unfold pi_document.
  assert (H : pi_safe None (pi_top_level (pc_starts_empty cfg) d (pc_prefix cfg) (pc_level cfg) ++
                            [PiTok PtEof]) = true).
  { apply ok_top_level; [reflexivity|]. intros q. apply safe_tok_inert; reflexivity. }
  destruct (pc_prefix cfg) as [p|]; [|exact H].
  cbn [app pi_safe]. destruct (aps_is_empty _); exact H.
Qed.

(* ---- from items to the attached token list *)
Fixpoint pt_safe_from (prev : option ptok) (l : list ptoken) : bool :=
  match l with
  | [] => true
  | b :: r =>
      (match prev with
       | Some a => negb (aps_is_empty (pt_sep b)) || adjacent_safe a (pt_tok b)
       | None => true
       end) && pt_safe_from (Some (pt_tok b)) r
  end.

Lemma pt_consecutive_safe_from l : pt_consecutive_safe l = pt_safe_from None l.
Proof.
  assert (H : forall l a, pt_consecutive_safe (a :: l) = pt_safe_from (Some (pt_tok a)) l).
  { clear l. intros l. induction l as [|b r IH]; intros a; [reflexivity|].
    change (pt_consecutive_safe (a :: b :: r)) with
      ((negb (aps_is_empty (pt_sep b)) || adjacent_safe (pt_tok a) (pt_tok b)) &&
       pt_consecutive_safe (b :: r)).
    rewrite IH. reflexivity. }
  destruct l as [|x r]; [reflexivity|]. rewrite (H r x). reflexivity.
Qed.

Lemma aps_is_empty_app (a b : str) : aps_is_empty (a ++ b) = aps_is_empty a && aps_is_empty b.
Proof. destruct a; reflexivity. Qed.

Lemma attach_safe l : forall prev pend,
  pi_safe (if aps_is_empty pend then prev else None) l = true ->
  pt_safe_from prev (pi_attach pend l) = true.
Proof.
  induction l as [|[s|t] r IH]; intros prev pend H; cbn [pi_attach]; [reflexivity| |].
  - apply IH. cbn [pi_safe] in H. rewrite aps_is_empty_app.
    destruct (aps_is_empty pend); cbn [andb]; [exact H|]. now destruct (aps_is_empty s).
  - cbn [pi_safe] in H. apply andb_true_iff in H as [H1 H2].
    cbn [pt_safe_from pt_sep pt_tok]. apply andb_true_iff. split.
    + destruct prev as [a|]; [|reflexivity].
      destruct (aps_is_empty pend); cbn [negb orb]; [exact H1|reflexivity].
    + apply IH. exact H2.
Qed.

Theorem adjacent_safe_all cfg d : pt_consecutive_safe (ptokens cfg d) = true.
Proof.
  rewrite pt_consecutive_safe_from. unfold ptokens. apply attach_safe. apply pi_document_safe.
Qed.

(* the boolean check, spelled out *)
Lemma pt_consecutive_safe_spec l :
  pt_consecutive_safe l = true ->
  forall l1 a b l2, l = l1 ++ a :: b :: l2 -> pt_sep b = [] ->
  adjacent_safe (pt_tok a) (pt_tok b) = true.
Proof.
  intros H l1. revert l H. induction l1 as [|x l1 IH]; intros l H a b l2 -> Hb.
  - cbn [app pt_consecutive_safe] in H. apply andb_true_iff in H as [H _].
    rewrite Hb in H. exact H.
  - apply (IH (l1 ++ a :: b :: l2)) with (l2 := l2); [|reflexivity|exact Hb].
    cbn [app] in H. destruct (l1 ++ a :: b :: l2) eqn:E; [reflexivity|].
    cbn [pt_consecutive_safe] in H. apply andb_true_iff in H as [_ H]. exact H.
Qed.
