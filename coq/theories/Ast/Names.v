(* Model of crates/apollo-compiler/src/name.rs : Name::is_valid_syntax (over BYTES) and every
   checked constructor.  Definitions only; proofs in NamesProofs.v. *)
From ApolloVerif Require Import Base.Chars Base.Utf8.

(* u8::is_ascii_alphabetic / is_ascii_alphanumeric *)
Definition nm_byte_is_ascii_alphabetic (b : N) : bool :=
  ((65 <=? b) && (b <=? 90)) || ((97 <=? b) && (b <=? 122)).
Definition nm_byte_is_ascii_digit (b : N) : bool := (48 <=? b) && (b <=? 57).
Definition nm_byte_is_ascii_alphanumeric (b : N) : bool :=
  nm_byte_is_ascii_alphabetic b || nm_byte_is_ascii_digit b.

(* Name::is_name_start / is_name_continue *)
Definition name_byte_is_start (b : N) : bool := nm_byte_is_ascii_alphabetic b || (b =? 95).
Definition name_byte_is_continue (b : N) : bool := nm_byte_is_ascii_alphanumeric b || (b =? 95).

(* the `while i < bytes.len()` loop from i = 1: every remaining byte, in order, first failure returns false *)
Fixpoint name_bytes_loop (rest : list N) : bool :=
  match rest with
  | [] => true
  | b :: r => if negb (name_byte_is_continue b) then false else name_bytes_loop r
  end.

(* Name::is_valid_syntax on value.as_bytes() *)
Definition name_valid_bytes (bytes : list N) : bool :=
  match bytes with
  | [] => false                                  (* bytes.first() is None *)
  | first :: rest =>
      if negb (name_byte_is_start first) then false else name_bytes_loop rest
  end.

Definition name_is_valid_syntax (value : str) : bool := name_valid_bytes (utf8_bytes value).

(* Name::check_valid_syntax, then the constructors; all of them go through it *)
Definition name_check_valid_syntax (value : str) : option unit :=
  if name_is_valid_syntax value then Some tt else None.
Definition name_new (value : str) : option str :=
  match name_check_valid_syntax value with Some _ => Some value | None => None end.
Definition name_new_static (value : str) : option str :=
  match name_check_valid_syntax value with Some _ => Some value | None => None end.
Definition name_try_from_arc (value : str) : option str :=
  match name_check_valid_syntax value with Some _ => Some value | None => None end.
Definition name_try_from_str (value : str) : option str := name_new value.       (* &str, String, &String *)
Definition name_deserialize (value : str) : option str := name_new value.        (* Visitor::visit_str *)
