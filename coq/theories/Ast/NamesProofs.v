(* C10, names: the byte-level check equals the character-level one and the spec grammar. *)
From ApolloVerif Require Import Base.Chars Base.Utf8 Base.Utf8Proofs Ast.Names.
From Coq Require Import ZifyBool ZifyN.

Lemma name_byte_start_eq b : name_byte_is_start b = is_name_start b.
Proof. reflexivity. Qed.
Lemma name_byte_continue_eq b : name_byte_is_continue b = is_name_continue b.
Proof.
  unfold name_byte_is_continue, nm_byte_is_ascii_alphanumeric, is_name_continue, is_name_start,
    nm_byte_is_ascii_alphabetic, nm_byte_is_ascii_digit, is_alpha, is_digit.
  destruct ((65 <=? b) && (b <=? 90) || (97 <=? b) && (b <=? 122)), ((48 <=? b) && (b <=? 57)), (b =? 95); reflexivity.
Qed.

Lemma name_bytes_loop_forallb bs : name_bytes_loop bs = forallb is_name_continue bs.
Proof.
  induction bs as [|b r IH]; [reflexivity|]. cbn [name_bytes_loop forallb].
  rewrite name_byte_continue_eq, IH. now destruct (is_name_continue b).
Qed.

Theorem name_bytes_eq_chars s : name_is_valid_syntax s = is_valid_name s.
Proof.
  unfold name_is_valid_syntax. destruct s as [|c r]; [reflexivity|].
  rewrite utf8_bytes_cons. cbn [is_valid_name].
  destruct (N.ltb_spec c 128) as [Hc|Hc].
  - rewrite utf8_encode_ascii by exact Hc. cbn [app name_valid_bytes].
    rewrite name_byte_start_eq, name_bytes_loop_forallb, (forallb_utf8 _ _ ascii_is_name_continue).
    now destruct (is_name_start c).
  - destruct (utf8_encode_nonascii c Hc) as (b0 & b1 & bs & -> & Hall).
    inversion Hall as [|? ? Hb0 _]; subst. cbn [app name_valid_bytes].
    rewrite name_byte_start_eq.
    assert (E0 : is_name_start b0 = false).
    { destruct (is_name_start b0) eqn:E; [apply ascii_is_name_start in E; lia|reflexivity]. }
    assert (Ec : is_name_start c = false).
    { destruct (is_name_start c) eqn:E; [apply ascii_is_name_start in E; lia|reflexivity]. }
    now rewrite E0, Ec.
Qed.

Theorem name_valid_iff_spec s : name_is_valid_syntax s = true <-> IsName s.
Proof. rewrite name_bytes_eq_chars. apply is_valid_name_spec. Qed.

Theorem name_nonascii_invalid s : (exists c, In c s /\ 128 <= c) -> name_is_valid_syntax s = false.
Proof.
  intros (c & Hin & Hc). rewrite name_bytes_eq_chars.
  destruct (is_valid_name s) eqn:E; [|reflexivity]. exfalso.
  destruct s as [|x r]; [contradiction|]. cbn [is_valid_name] in E.
  apply andb_true_iff in E as [Hx Hr]. rewrite forallb_forall in Hr.
  destruct Hin as [->|Hin].
  - apply ascii_is_name_start in Hx. lia.
  - apply Hr in Hin. apply ascii_is_name_continue in Hin. lia.
Qed.

(* every constructor accepts exactly the valid names and keeps the text *)
Theorem name_constructors_agree s :
  let r := if name_is_valid_syntax s then Some s else None in
  name_new s = r /\ name_new_static s = r /\ name_try_from_arc s = r /\
  name_try_from_str s = r /\ name_deserialize s = r.
Proof.
  unfold name_try_from_str, name_deserialize, name_new, name_new_static, name_try_from_arc, name_check_valid_syntax.
  destruct (name_is_valid_syntax s); repeat split.
Qed.
