(* Model of crates/apollo-compiler/src/coordinate.rs : FromStr, Display and lookup. *)
From ApolloVerif Require Import Base.Chars.

Inductive coord :=
| CType (ty : str)
| CAttr (ty attr : str)
| CFieldArg (ty field arg : str)
| CDir (d : str)
| CDirArg (d arg : str).

(* TypeCoordinate::from_str *)
Definition parse_type_coord (s : str) : option str :=
  if is_valid_name s then Some s else None.

(* TypeAttributeCoordinate::from_str *)
Definition parse_attr_coord (s : str) : option (str * str) :=
  match split_once c_dot s with
  | None => None
  | Some (t, f) =>
      if is_valid_name t then if is_valid_name f then Some (t, f) else None else None
  end.

(* the shared tail: `let Some((argument, ")")) = rest.split_once(':')` then Name::try_from *)
Definition parse_arg_tail (rest : str) : option str :=
  match split_once c_colon rest with
  | Some (arg, [c]) => if c =? c_rparen then if is_valid_name arg then Some arg else None else None
  | _ => None
  end.

(* FieldArgumentCoordinate::from_str *)
Definition parse_field_arg_coord (s : str) : option (str * str * str) :=
  match split_once c_lparen s with
  | None => None
  | Some (field, rest) =>
      match parse_attr_coord field with
      | None => None
      | Some (t, f) =>
          match parse_arg_tail rest with
          | None => None
          | Some a => Some (t, f, a)
          end
      end
  end.

(* DirectiveCoordinate::from_str *)
Definition parse_dir_coord (s : str) : option str :=
  match strip_prefix c_at s with
  | Some d => if is_valid_name d then Some d else None
  | None => None
  end.

(* DirectiveArgumentCoordinate::from_str *)
Definition parse_dir_arg_coord (s : str) : option (str * str) :=
  match split_once c_lparen s with
  | None => None
  | Some (d, rest) =>
      match parse_dir_coord d with
      | None => None
      | Some d =>
          match parse_arg_tail rest with
          | None => None
          | Some a => Some (d, a)
          end
      end
  end.

(* SchemaCoordinate::from_str : the or_else chain *)
Definition starts_with (ch : N) (s : str) : bool :=
  match s with c :: _ => c =? ch | [] => false end.

Definition parse_coord (s : str) : option coord :=
  if starts_with c_at s then
    match parse_dir_arg_coord s with
    | Some (d, a) => Some (CDirArg d a)
    | None => match parse_dir_coord s with Some d => Some (CDir d) | None => None end
    end
  else
    match parse_field_arg_coord s with
    | Some (t, f, a) => Some (CFieldArg t f a)
    | None =>
        match parse_attr_coord s with
        | Some (t, f) => Some (CAttr t f)
        | None => match parse_type_coord s with Some t => Some (CType t) | None => None end
        end
    end.

(* Display *)
Definition print_coord (c : coord) : str :=
  match c with
  | CType t => t
  | CAttr t f => t ++ [c_dot] ++ f
  | CFieldArg t f a => t ++ [c_dot] ++ f ++ [c_lparen] ++ a ++ [c_colon; c_rparen]
  | CDir d => c_at :: d
  | CDirArg d a => c_at :: d ++ [c_lparen] ++ a ++ [c_colon; c_rparen]
  end.

Definition wf_coord (c : coord) : bool :=
  match c with
  | CType t => is_valid_name t
  | CAttr t f => is_valid_name t && is_valid_name f
  | CFieldArg t f a => is_valid_name t && is_valid_name f && is_valid_name a
  | CDir d => is_valid_name d
  | CDirArg d a => is_valid_name d && is_valid_name a
  end.

(* the five-form grammar the property states *)
Inductive CoordShape : str -> Prop :=
| ShType t : IsName t -> CoordShape t
| ShAttr t f : IsName t -> IsName f -> CoordShape (t ++ [c_dot] ++ f)
| ShFieldArg t f a : IsName t -> IsName f -> IsName a ->
    CoordShape (t ++ [c_dot] ++ f ++ [c_lparen] ++ a ++ [c_colon; c_rparen])
| ShDir d : IsName d -> CoordShape (c_at :: d)
| ShDirArg d a : IsName d -> IsName a ->
    CoordShape (c_at :: d ++ [c_lparen] ++ a ++ [c_colon; c_rparen]).

(* ---- schema side: what lookup needs ---- *)

(* a field or directive: own name and argument names, in order *)
Record fielddef := { f_name : str; f_args : list str }.

Inductive tykind := KScalar | KObject | KInterface | KUnion | KEnum | KInput.

(* a type: own name, kind, attributes (fields / input fields / enum values) keyed by name.
   For input fields and enum values f_args is empty. *)
Record tydef := { t_name : str; t_kind : tykind; t_attrs : list (str * fielddef) }.

Record schema := { s_types : list (str * tydef); s_dirs : list (str * fielddef) }.

Fixpoint str_eqb (a b : str) : bool :=
  match a, b with
  | [], [] => true
  | x :: a, y :: b => (x =? y) && str_eqb a b
  | _, _ => false
  end.

(* IndexMap::get : first entry with the key (keys are unique in an IndexMap) *)
Fixpoint assoc {A} (k : str) (m : list (str * A)) : option A :=
  match m with
  | [] => None
  | (k', v) :: r => if str_eqb k k' then Some v else assoc k r
  end.

(* argument_by_name: arguments.iter().find(|a| a.name == name) *)
Definition find_arg (a : str) (args : list str) : option str :=
  find (str_eqb a) args.

Inductive found :=
| FType (name : str) (k : tykind)
| FDirective (name : str)
| FField (name : str)
| FInputField (name : str)
| FEnumValue (name : str)
| FArgument (name : str).

Inductive lookup_err := MissingType | MissingAttribute | InvalidArgumentAttribute | MissingArgument | InvalidType.

Inductive res := ROk (f : found) | RErr (e : lookup_err).

Definition lookup_type (t : str) (s : schema) : option tydef := assoc t (s_types s).

Definition lookup_attr (t a : str) (s : schema) : res + (tykind * fielddef) :=
  match lookup_type t s with
  | None => inl (RErr MissingType)
  | Some td =>
      match t_kind td with
      | KUnion | KScalar => inl (RErr InvalidType)
      | k => match assoc a (t_attrs td) with
             | None => inl (RErr MissingAttribute)
             | Some fd => inr (k, fd)
             end
      end
  end.

Definition lookup (c : coord) (s : schema) : res :=
  match c with
  | CType t =>
      match lookup_type t s with
      | Some td => ROk (FType (t_name td) (t_kind td))
      | None => RErr MissingType
      end
  | CAttr t a =>
      match lookup_attr t a s with
      | inl e => e
      | inr (KEnum, fd) => ROk (FEnumValue (f_name fd))
      | inr (KInput, fd) => ROk (FInputField (f_name fd))
      | inr (_, fd) => ROk (FField (f_name fd))
      end
  | CFieldArg t f a =>
      match lookup_attr t f s with
      | inl e => e
      | inr (KObject, fd) | inr (KInterface, fd) =>
          match find_arg a (f_args fd) with
          | Some x => ROk (FArgument x)
          | None => RErr MissingArgument
          end
      | inr _ => RErr InvalidArgumentAttribute
      end
  | CDir d =>
      match assoc d (s_dirs s) with
      | Some fd => ROk (FDirective (f_name fd))
      | None => RErr MissingType
      end
  | CDirArg d a =>
      match assoc d (s_dirs s) with
      | None => RErr MissingType
      | Some fd =>
          match find_arg a (f_args fd) with
          | Some x => ROk (FArgument x)
          | None => RErr MissingArgument
          end
      end
  end.

(* A schema as the builder produces it: every map key equals the element's own name. *)
Definition keys_agree {A} (nm : A -> str) (m : list (str * A)) : Prop :=
  Forall (fun kv => nm (snd kv) = fst kv) m.
Definition wf_schema (s : schema) : Prop :=
  keys_agree t_name (s_types s) /\ keys_agree f_name (s_dirs s) /\
  Forall (fun kv => keys_agree f_name (t_attrs (snd kv))) (s_types s).

(* Declarative: element x of s has coordinate c *)
Inductive HasCoord (s : schema) : coord -> found -> Prop :=
| HC_type t td : In td (map snd (s_types s)) -> t_name td = t ->
    HasCoord s (CType t) (FType t (t_kind td))
| HC_field t a td fd : In td (map snd (s_types s)) -> t_name td = t ->
    (t_kind td = KObject \/ t_kind td = KInterface) ->
    In fd (map snd (t_attrs td)) -> f_name fd = a -> HasCoord s (CAttr t a) (FField a)
| HC_input t a td fd : In td (map snd (s_types s)) -> t_name td = t -> t_kind td = KInput ->
    In fd (map snd (t_attrs td)) -> f_name fd = a -> HasCoord s (CAttr t a) (FInputField a)
| HC_enum t a td fd : In td (map snd (s_types s)) -> t_name td = t -> t_kind td = KEnum ->
    In fd (map snd (t_attrs td)) -> f_name fd = a -> HasCoord s (CAttr t a) (FEnumValue a)
| HC_farg t f a td fd : In td (map snd (s_types s)) -> t_name td = t ->
    (t_kind td = KObject \/ t_kind td = KInterface) ->
    In fd (map snd (t_attrs td)) -> f_name fd = f -> In a (f_args fd) ->
    HasCoord s (CFieldArg t f a) (FArgument a)
| HC_dir d fd : In fd (map snd (s_dirs s)) -> f_name fd = d -> HasCoord s (CDir d) (FDirective d)
| HC_darg d a fd : In fd (map snd (s_dirs s)) -> f_name fd = d -> In a (f_args fd) ->
    HasCoord s (CDirArg d a) (FArgument a).
