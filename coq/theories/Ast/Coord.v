(* Model of crates/apollo-compiler/src/coordinate.rs : FromStr, Display and coord_lookup. *)
From ApolloVerif Require Import Base.Chars.

Inductive coord :=
| CType (ty : str)
| CAttr (ty attr : str)
| CFieldArg (ty field arg : str)
| CDir (d : str)
| CDirArg (d arg : str).

(* TypeCoordinate::from_str *)
Definition parse_type_coord (s : str) : option str :=
  if is_valid_name s then Some s else None.

(* TypeAttributeCoordinate::from_str *)
Definition parse_attr_coord (s : str) : option (str * str) :=
  match split_once c_dot s with
  | None => None
  | Some (t, f) =>
      if is_valid_name t then if is_valid_name f then Some (t, f) else None else None
  end.

(* the shared tail: `let Some((argument, ")")) = rest.split_once(':')` then Name::try_from *)
Definition parse_arg_tail (rest : str) : option str :=
  match split_once c_colon rest with
  | Some (arg, [c]) => if c =? c_rparen then if is_valid_name arg then Some arg else None else None
  | _ => None
  end.

(* FieldArgumentCoordinate::from_str *)
Definition parse_field_arg_coord (s : str) : option (str * str * str) :=
  match split_once c_lparen s with
  | None => None
  | Some (field, rest) =>
      match parse_attr_coord field with
      | None => None
      | Some (t, f) =>
          match parse_arg_tail rest with
          | None => None
          | Some a => Some (t, f, a)
          end
      end
  end.

(* DirectiveCoordinate::from_str *)
Definition parse_dir_coord (s : str) : option str :=
  match strip_prefix c_at s with
  | Some d => if is_valid_name d then Some d else None
  | None => None
  end.

(* DirectiveArgumentCoordinate::from_str *)
Definition parse_dir_arg_coord (s : str) : option (str * str) :=
  match split_once c_lparen s with
  | None => None
  | Some (d, rest) =>
      match parse_dir_coord d with
      | None => None
      | Some d =>
          match parse_arg_tail rest with
          | None => None
          | Some a => Some (d, a)
          end
      end
  end.

(* SchemaCoordinate::from_str : the or_else chain *)
Definition coord_starts_with (ch : N) (s : str) : bool :=
  match s with c :: _ => c =? ch | [] => false end.

Definition parse_coord (s : str) : option coord :=
  if coord_starts_with c_at s then
    match parse_dir_arg_coord s with
    | Some (d, a) => Some (CDirArg d a)
    | None => match parse_dir_coord s with Some d => Some (CDir d) | None => None end
    end
  else
    match parse_field_arg_coord s with
    | Some (t, f, a) => Some (CFieldArg t f a)
    | None =>
        match parse_attr_coord s with
        | Some (t, f) => Some (CAttr t f)
        | None => match parse_type_coord s with Some t => Some (CType t) | None => None end
        end
    end.

(* Display *)
Definition print_coord (c : coord) : str :=
  match c with
  | CType t => t
  | CAttr t f => t ++ [c_dot] ++ f
  | CFieldArg t f a => t ++ [c_dot] ++ f ++ [c_lparen] ++ a ++ [c_colon; c_rparen]
  | CDir d => c_at :: d
  | CDirArg d a => c_at :: d ++ [c_lparen] ++ a ++ [c_colon; c_rparen]
  end.

Definition wf_coord (c : coord) : bool :=
  match c with
  | CType t => is_valid_name t
  | CAttr t f => is_valid_name t && is_valid_name f
  | CFieldArg t f a => is_valid_name t && is_valid_name f && is_valid_name a
  | CDir d => is_valid_name d
  | CDirArg d a => is_valid_name d && is_valid_name a
  end.

(* the five-form grammar the property states *)
Inductive CoordShape : str -> Prop :=
| ShType t : IsName t -> CoordShape t
| ShAttr t f : IsName t -> IsName f -> CoordShape (t ++ [c_dot] ++ f)
| ShFieldArg t f a : IsName t -> IsName f -> IsName a ->
    CoordShape (t ++ [c_dot] ++ f ++ [c_lparen] ++ a ++ [c_colon; c_rparen])
| ShDir d : IsName d -> CoordShape (c_at :: d)
| ShDirArg d a : IsName d -> IsName a ->
    CoordShape (c_at :: d ++ [c_lparen] ++ a ++ [c_colon; c_rparen]).

(* ---- coord_schema side: what coord_lookup needs ---- *)

(* a field or directive: own name and argument names, in order *)
Record coord_field := { cf_name : str; cf_args : list str }.

Inductive coord_kind := CKScalar | CKObject | CKInterface | CKUnion | CKEnum | CKInput.

(* a type: own name, kind, attributes (fields / input fields / enum values) keyed by name.
   For input fields and enum values cf_args is empty. *)
Record coord_type := { ct_name : str; ct_kind : coord_kind; ct_attrs : list (str * coord_field) }.

Record coord_schema := { cs_types : list (str * coord_type); cs_dirs : list (str * coord_field) }.

Fixpoint coord_str_eqb (a b : str) : bool :=
  match a, b with
  | [], [] => true
  | x :: a, y :: b => (x =? y) && coord_str_eqb a b
  | _, _ => false
  end.

(* IndexMap::get : first entry with the key (keys are unique in an IndexMap) *)
Fixpoint coord_assoc {A} (k : str) (m : list (str * A)) : option A :=
  match m with
  | [] => None
  | (k', v) :: r => if coord_str_eqb k k' then Some v else coord_assoc k r
  end.

(* argument_by_name: arguments.iter().find(|a| a.name == name) *)
Definition coord_find_arg (a : str) (args : list str) : option str :=
  find (coord_str_eqb a) args.

Inductive coord_found :=
| CFType (name : str) (k : coord_kind)
| CFDirective (name : str)
| CFField (name : str)
| CFInputField (name : str)
| CFEnumValue (name : str)
| CFArgument (name : str).

Inductive coord_lookup_err := CEMissingType | CEMissingAttribute | CEInvalidArgumentAttribute | CEMissingArgument | CEInvalidType.

Inductive coord_res := CoordOk (f : coord_found) | CoordErr (e : coord_lookup_err).

Definition coord_lookup_type (t : str) (s : coord_schema) : option coord_type := coord_assoc t (cs_types s).

Definition coord_lookup_attr (t a : str) (s : coord_schema) : coord_res + (coord_kind * coord_field) :=
  match coord_lookup_type t s with
  | None => inl (CoordErr CEMissingType)
  | Some td =>
      match ct_kind td with
      | CKUnion | CKScalar => inl (CoordErr CEInvalidType)
      | k => match coord_assoc a (ct_attrs td) with
             | None => inl (CoordErr CEMissingAttribute)
             | Some fd => inr (k, fd)
             end
      end
  end.

Definition coord_lookup (c : coord) (s : coord_schema) : coord_res :=
  match c with
  | CType t =>
      match coord_lookup_type t s with
      | Some td => CoordOk (CFType (ct_name td) (ct_kind td))
      | None => CoordErr CEMissingType
      end
  | CAttr t a =>
      match coord_lookup_attr t a s with
      | inl e => e
      | inr (CKEnum, fd) => CoordOk (CFEnumValue (cf_name fd))
      | inr (CKInput, fd) => CoordOk (CFInputField (cf_name fd))
      | inr (_, fd) => CoordOk (CFField (cf_name fd))
      end
  | CFieldArg t f a =>
      match coord_lookup_attr t f s with
      | inl e => e
      | inr (CKObject, fd) | inr (CKInterface, fd) =>
          match coord_find_arg a (cf_args fd) with
          | Some x => CoordOk (CFArgument x)
          | None => CoordErr CEMissingArgument
          end
      | inr _ => CoordErr CEInvalidArgumentAttribute
      end
  | CDir d =>
      match coord_assoc d (cs_dirs s) with
      | Some fd => CoordOk (CFDirective (cf_name fd))
      | None => CoordErr CEMissingType
      end
  | CDirArg d a =>
      match coord_assoc d (cs_dirs s) with
      | None => CoordErr CEMissingType
      | Some fd =>
          match coord_find_arg a (cf_args fd) with
          | Some x => CoordOk (CFArgument x)
          | None => CoordErr CEMissingArgument
          end
      end
  end.

(* A coord_schema as the builder produces it: every map key equals the element's own name. *)
Definition keys_agree {A} (nm : A -> str) (m : list (str * A)) : Prop :=
  Forall (fun kv => nm (snd kv) = fst kv) m.
Definition wf_schema (s : coord_schema) : Prop :=
  keys_agree ct_name (cs_types s) /\ keys_agree cf_name (cs_dirs s) /\
  Forall (fun kv => keys_agree cf_name (ct_attrs (snd kv))) (cs_types s).

(* Declarative: element x of s has coordinate c *)
Inductive HasCoord (s : coord_schema) : coord -> coord_found -> Prop :=
| HC_type t td : In td (map snd (cs_types s)) -> ct_name td = t ->
    HasCoord s (CType t) (CFType t (ct_kind td))
| HC_field t a td fd : In td (map snd (cs_types s)) -> ct_name td = t ->
    (ct_kind td = CKObject \/ ct_kind td = CKInterface) ->
    In fd (map snd (ct_attrs td)) -> cf_name fd = a -> HasCoord s (CAttr t a) (CFField a)
| HC_input t a td fd : In td (map snd (cs_types s)) -> ct_name td = t -> ct_kind td = CKInput ->
    In fd (map snd (ct_attrs td)) -> cf_name fd = a -> HasCoord s (CAttr t a) (CFInputField a)
| HC_enum t a td fd : In td (map snd (cs_types s)) -> ct_name td = t -> ct_kind td = CKEnum ->
    In fd (map snd (ct_attrs td)) -> cf_name fd = a -> HasCoord s (CAttr t a) (CFEnumValue a)
| HC_farg t f a td fd : In td (map snd (cs_types s)) -> ct_name td = t ->
    (ct_kind td = CKObject \/ ct_kind td = CKInterface) ->
    In fd (map snd (ct_attrs td)) -> cf_name fd = f -> In a (cf_args fd) ->
    HasCoord s (CFieldArg t f a) (CFArgument a)
| HC_dir d fd : In fd (map snd (cs_dirs s)) -> cf_name fd = d -> HasCoord s (CDir d) (CFDirective d)
| HC_darg d a fd : In fd (map snd (cs_dirs s)) -> cf_name fd = d -> In a (cf_args fd) ->
    HasCoord s (CDirArg d a) (CFArgument a).
