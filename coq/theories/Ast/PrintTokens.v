(* C08 — the token-level view of the serializer's output.

   [pi_*] re-states every serializer function of Ast/Print.v as a pure function of the effective indent
   prefix (None inside `on_single_line` and in no_indent mode) and the indent level, producing a list of
   *items*: significant tokens and separator texts.  [ptokens] attaches to each token the separator text
   written since the previous token; [pt_render] prints that back.  Ast/PrintFactor.v proves
   ast_print cfg d = ApOk (pt_render (ptokens cfg d)) for every document (all 17 definition kinds).

   Definitions only (extractable). *)
From ApolloVerif Require Import Base.Chars Ast.Ast Ast.PrintState Ast.PrintString Ast.Print.

Inductive ppunct :=
| PBang | PDollar | PAmp | PLParen | PRParen | PSpread | PColon | PEq | PAt | PLBrack | PRBrack
| PLBrace | PPipe | PRBrace.

(* how a string token is written; the significant content is the decoded value *)
Inductive pstrstyle := PsQuoted | PsBlock (indent : str).

Inductive ptok :=
| PtPunct (p : ppunct)
| PtName (n : str)
| PtInt (text : str)
| PtFloat (text : str)
| PtString (value : str) (style : pstrstyle)
| PtEof.

Inductive pitem := PiSep (s : str) | PiTok (t : ptok).

(* a token with the separator text that precedes it ([] = no separator) *)
Record ptoken := { pt_sep : str; pt_tok : ptok }.

Definition ppunct_text (p : ppunct) : str :=
  match p with
  | PBang => [c_bang] | PDollar => [c_dollar] | PAmp => [c_amp] | PLParen => [c_lparen]
  | PRParen => [c_rparen] | PSpread => [c_dot; c_dot; c_dot] | PColon => [c_colon] | PEq => [c_eq]
  | PAt => [c_at] | PLBrack => [c_lbrack] | PRBrack => [c_rbrack] | PLBrace => [c_lbrace]
  | PPipe => [c_pipe] | PRBrace => [c_rbrace]
  end.

Definition ptok_text (t : ptok) : str :=
  match t with
  | PtPunct p => ppunct_text p
  | PtName n => n
  | PtInt x => x
  | PtFloat x => x
  | PtString v PsQuoted => aps_quoted_text v
  | PtString v (PsBlock ind) => aps_block_text ind v
  | PtEof => []
  end.

Definition pitem_text (i : pitem) : str :=
  match i with PiSep s => s | PiTok t => ptok_text t end.

Definition pitems_text (l : list pitem) : str := flat_map pitem_text l.

Definition pt_render (l : list ptoken) : str :=
  flat_map (fun t => pt_sep t ++ ptok_text (pt_tok t)) l.

(* attach pending separator text to the next token *)
Fixpoint pi_attach (pending : str) (l : list pitem) : list ptoken :=
  match l with
  | [] => []
  | PiSep s :: r => pi_attach (pending ++ s) r
  | PiTok t :: r => {| pt_sep := pending; pt_tok := t |} :: pi_attach [] r
  end.

(* the significant content of a token: the writing style of strings erased *)
Definition ptok_erase (t : ptok) : ptok :=
  match t with PtString v _ => PtString v PsQuoted | _ => t end.

Definition ptsig (l : list ptoken) : list ptok := map (fun t => ptok_erase (pt_tok t)) l.

(* "t1 immediately followed by t2 cannot merge or change the two tokens" *)
Definition pt_wordlike (t : ptok) : bool :=
  match t with PtName _ | PtInt _ | PtFloat _ => true | _ => false end.
Definition pt_number (t : ptok) : bool :=
  match t with PtInt _ | PtFloat _ => true | _ => false end.
Definition pt_is_spread (t : ptok) : bool :=
  match t with PtPunct PSpread => true | _ => false end.
Definition pt_is_string (t : ptok) : bool :=
  match t with PtString _ _ => true | _ => false end.

Definition adjacent_safe (t1 t2 : ptok) : bool :=
  negb ((pt_wordlike t1 && pt_wordlike t2)          (* name/number followed by name/number *)
        || (pt_number t1 && pt_is_spread t2)        (* 1... *)
        || (pt_is_spread t1 && pt_is_spread t2)     (* ...... *)
        || (pt_is_string t1 && pt_is_string t2)).   (* ""  "" would open a block string *)

Fixpoint pt_consecutive_safe (l : list ptoken) : bool :=
  match l with
  | a :: ((b :: _) as r) =>
      (negb (aps_is_empty (pt_sep b)) || adjacent_safe (pt_tok a) (pt_tok b)) && pt_consecutive_safe r
  | _ => true
  end.

(* ---- layout pieces *)
Definition pi_indent_str (p : str) (lvl : N) : str := concat (repeat p (N.to_nat lvl)).

Definition pi_nl (pfx : option str) (lvl : N) (space : bool) : list pitem :=
  match pfx with
  | Some p => [PiSep ([c_lf] ++ pi_indent_str p lvl)]
  | None => if space then [PiSep [c_space]] else []
  end.

Definition pi_if_newlines (pfx : option str) (l : list pitem) : list pitem :=
  match pfx with Some _ => l | None => [] end.

Definition pi_p (p : ppunct) : pitem := PiTok (PtPunct p).
Definition pi_n (n : str) : pitem := PiTok (PtName n).
Definition pi_s : pitem := PiSep [c_space].

Definition pi_layout := option str -> N -> list pitem.

Definition pi_comma (open close : ppunct) (items : list pi_layout) : pi_layout := fun pfx lvl =>
  [pi_p open] ++
  match items with
  | [] => []
  | first :: rest =>
      pi_nl pfx (lvl + 1) false ++
      first pfx (lvl + 1) ++
      flat_map (fun it => [PiSep [c_comma]] ++ pi_nl pfx (lvl + 1) true ++ it pfx (lvl + 1)) rest ++
      pi_if_newlines pfx [PiSep [c_comma]] ++
      pi_nl pfx lvl false
  end ++
  [pi_p close].

Definition pi_curly (items : list pi_layout) : pi_layout := fun pfx lvl =>
  [pi_p PLBrace] ++
  match items with
  | [] => []
  | first :: rest =>
      pi_nl pfx (lvl + 1) true ++
      first pfx (lvl + 1) ++
      flat_map (fun it => pi_nl pfx (lvl + 1) true ++ it pfx (lvl + 1)) rest ++
      pi_nl pfx lvl true
  end ++
  [pi_p PRBrace].

(* ---- strings *)
Definition pi_string_style (is_description : bool) (s : str) (pfx : option str) (lvl : N) : pstrstyle :=
  match pfx with
  | Some p =>
      if (is_description || mem c_lf s) && aps_can_be_block_string s
      then PsBlock (pi_indent_str p lvl) else PsQuoted
  | None => PsQuoted
  end.

Definition pi_string (is_description : bool) (s : str) : pi_layout := fun pfx lvl =>
  [PiTok (PtString s (pi_string_style is_description s pfx lvl))].

Definition pi_description (d : option str) : pi_layout := fun pfx lvl =>
  match d with
  | Some s => pi_string true s pfx lvl ++ pi_nl pfx lvl true
  | None => []
  end.

(* ---- types, values, arguments, directives *)
Fixpoint pi_type (t : ty) : list pitem :=
  match t with
  | TNamed n => [pi_n n]
  | TNonNullNamed n => [pi_n n; pi_p PBang]
  | TList t => [pi_p PLBrack] ++ pi_type t ++ [pi_p PRBrack]
  | TNonNullList t => [pi_p PLBrack] ++ pi_type t ++ [pi_p PRBrack; pi_p PBang]
  end.

Fixpoint pi_value (v : value) (pfx : option str) (lvl : N) {struct v} : list pitem :=
  match v with
  | VNull => [pi_n apk_null]
  | VBool true => [pi_n apk_true]
  | VBool false => [pi_n apk_false]
  | VEnum n => [pi_n n]
  | VString s => pi_string false s pfx lvl
  | VVar n => [pi_p PDollar; pi_n n]
  | VFloat t => [PiTok (PtFloat t)]
  | VInt t => [PiTok (PtInt t)]
  | VList l => pi_comma PLBrack PRBrack (map pi_value l) pfx lvl
  | VObject fs =>
      pi_comma PLBrace PRBrace
        (map (fun nv pfx lvl => [pi_n (fst nv); pi_p PColon; pi_s] ++ pi_value (snd nv) pfx lvl) fs)
        pfx lvl
  end.

Definition pi_argument (a : argument) : pi_layout := fun pfx lvl =>
  [pi_n (fst a); pi_p PColon; pi_s] ++ pi_value (snd a) pfx lvl.

Definition pi_arguments (args : list argument) : pi_layout := fun pfx lvl =>
  match args with
  | [] => []
  | _ => pi_comma PLParen PRParen (map pi_argument args) None lvl
  end.

Definition pi_directive (d : directive) : pi_layout := fun pfx lvl =>
  [pi_p PAt; pi_n (d_name d)] ++ pi_arguments (d_args d) pfx lvl.

Definition pi_directives (ds : list directive) : pi_layout := fun pfx lvl =>
  flat_map (fun d => [pi_s] ++ pi_directive d pfx lvl) ds.

(* ---- executable definitions *)
Definition pi_vardef (v : vardef) : pi_layout := fun pfx lvl =>
  [pi_p PDollar; pi_n (v_name v); pi_p PColon; pi_s] ++ pi_type (v_ty v) ++
  match v_default v with
  | Some d => [pi_s; pi_p PEq; pi_s] ++ pi_value d pfx lvl
  | None => []
  end ++
  pi_directives (v_dirs v) pfx lvl.

Fixpoint pi_selection (s : selection) (pfx : option str) (lvl : N) {struct s} : list pitem :=
  match s with
  | SField alias name args dirs sels =>
      match alias with
      | Some a => [pi_n a; pi_p PColon; pi_s]
      | None => []
      end ++
      [pi_n name] ++
      pi_arguments args pfx lvl ++
      pi_directives dirs pfx lvl ++
      match sels with
      | [] => []
      | _ => [pi_s] ++ pi_curly (map pi_selection sels) pfx lvl
      end
  | SSpread name dirs =>
      [pi_p PSpread; pi_n name] ++ pi_directives dirs pfx lvl
  | SInline cond dirs sels =>
      match cond with
      | Some t => [pi_p PSpread; pi_s; pi_n apk_on; pi_s; pi_n t]
      | None => [pi_p PSpread]
      end ++
      pi_directives dirs pfx lvl ++
      [pi_s] ++
      pi_curly (map pi_selection sels) pfx lvl
  end.

Definition pi_shorthand (output_empty : bool) (op : optype) (name : option str) (vars : list vardef)
    (dirs : list directive) : bool :=
  output_empty && (match op with OpQuery => true | _ => false end) &&
  (match name with None => true | Some _ => false end) && ap_is_empty vars && ap_is_empty dirs.

Definition pi_operation (output_empty : bool) (op : optype) (name : option str)
    (vars : list vardef) (dirs : list directive) (sels : list selection) : pi_layout := fun pfx lvl =>
  (if negb (pi_shorthand output_empty op name vars dirs) then
     [pi_n (ap_optype_name op)] ++
     match name with Some n => [pi_s; pi_n n] | None => [] end ++
     match vars with
     | [] => []
     | _ => pi_comma PLParen PRParen (map pi_vardef vars) None lvl
     end ++
     pi_directives dirs pfx lvl ++
     [pi_s]
   else []) ++
  pi_curly (map pi_selection sels) pfx lvl.

Definition pi_fragment (name cond : str) (dirs : list directive) (sels : list selection)
    : pi_layout := fun pfx lvl =>
  [pi_n apk_fragment; pi_s; pi_n name; pi_s; pi_n apk_on; pi_s; pi_n cond] ++
  pi_directives dirs pfx lvl ++ [pi_s] ++ pi_curly (map pi_selection sels) pfx lvl.

(* ---- type-system definitions *)
Definition pi_inputvaldef (v : inputvaldef) : pi_layout := fun pfx lvl =>
  pi_description (iv_desc v) pfx lvl ++
  [pi_n (iv_name v); pi_p PColon; pi_s] ++ pi_type (iv_ty v) ++
  match iv_default v with
  | Some d => [pi_s; pi_p PEq; pi_s] ++ pi_value d pfx lvl
  | None => []
  end ++
  pi_directives (iv_dirs v) pfx lvl.

Definition pi_args_multiline (args : list inputvaldef) : bool :=
  existsb (fun a => (match iv_desc a with Some _ => true | None => false end) ||
                    negb (ap_is_empty (iv_dirs a))) args.

Definition pi_arguments_definition (args : list inputvaldef) : pi_layout := fun pfx lvl =>
  match args with
  | [] => []
  | _ =>
      pi_comma PLParen PRParen (map pi_inputvaldef args)
        (if pi_args_multiline args then pfx else None) lvl
  end.

Definition pi_fielddef (f : fielddef) : pi_layout := fun pfx lvl =>
  pi_description (fd_desc f) pfx lvl ++
  [pi_n (fd_name f)] ++
  pi_arguments_definition (fd_args f) pfx lvl ++
  [pi_p PColon; pi_s] ++ pi_type (fd_ty f) ++
  pi_directives (fd_dirs f) pfx lvl.

Definition pi_enumvaldef (e : enumvaldef) : pi_layout := fun pfx lvl =>
  pi_description (ev_desc e) pfx lvl ++ [pi_n (ev_value e)] ++ pi_directives (ev_dirs e) pfx lvl.

Definition pi_rootop (r : rootop) : pi_layout := fun _ _ =>
  [pi_n (ap_optype_name (fst r)); pi_p PColon; pi_s; pi_n (snd r)].

(* name (sep name)* with a leading keyword/punctuator piece *)
Definition pi_name_list (lead : list pitem) (sep : ppunct) (names : list str) : list pitem :=
  match names with
  | [] => []
  | first :: rest =>
      lead ++ [pi_n first] ++ flat_map (fun n => [pi_s; pi_p sep; pi_s; pi_n n]) rest
  end.

Definition pi_directive_definition (desc : option str) (name : str) (args : list inputvaldef)
    (repeatable : bool) (locs : list dirloc) : pi_layout := fun pfx lvl =>
  pi_description desc pfx lvl ++
  [pi_n apk_directive; pi_s; pi_p PAt; pi_n name] ++
  pi_arguments_definition args pfx lvl ++
  (if repeatable then [pi_s; pi_n apk_repeatable] else []) ++
  pi_name_list [pi_s; pi_n apk_on; pi_s] PPipe (map ap_dirloc_name locs).

Definition pi_schema_definition (desc : option str) (dirs : list directive) (roots : list rootop)
    : pi_layout := fun pfx lvl =>
  pi_description desc pfx lvl ++ [pi_n apk_schema] ++ pi_directives dirs pfx lvl ++ [pi_s] ++
  pi_curly (map pi_rootop roots) pfx lvl.

Definition pi_object_type_like (name : str) (impls : list str) (dirs : list directive)
    (fields : list fielddef) : pi_layout := fun pfx lvl =>
  [pi_n name] ++
  pi_name_list [pi_s; pi_n apk_implements; pi_s] PAmp impls ++
  pi_directives dirs pfx lvl ++
  match fields with
  | [] => []
  | _ => [pi_s] ++ pi_curly (map pi_fielddef fields) pfx lvl
  end.

Definition pi_union (name : str) (dirs : list directive) (members : list str) : pi_layout :=
  fun pfx lvl =>
  [pi_n name] ++ pi_directives dirs pfx lvl ++ pi_name_list [pi_s; pi_p PEq; pi_s] PPipe members.

Definition pi_name_dirs_body (name : str) (dirs : list directive) (body : list pi_layout)
    : pi_layout := fun pfx lvl =>
  [pi_n name] ++ pi_directives dirs pfx lvl ++
  match body with
  | [] => []
  | _ => [pi_s] ++ pi_curly body pfx lvl
  end.

Definition pi_definition (output_empty : bool) (d : definition) : pi_layout := fun pfx lvl =>
  match d with
  | DOperation op name vars dirs sels => pi_operation output_empty op name vars dirs sels pfx lvl
  | DFragment name cond dirs sels => pi_fragment name cond dirs sels pfx lvl
  | DDirective desc name args rep locs => pi_directive_definition desc name args rep locs pfx lvl
  | DSchema desc dirs roots => pi_schema_definition desc dirs roots pfx lvl
  | DScalar desc name dirs =>
      pi_description desc pfx lvl ++ [pi_n apk_scalar; pi_s; pi_n name] ++ pi_directives dirs pfx lvl
  | DObject desc name impls dirs fields =>
      pi_description desc pfx lvl ++ [pi_n apk_type; pi_s] ++
      pi_object_type_like name impls dirs fields pfx lvl
  | DInterface desc name impls dirs fields =>
      pi_description desc pfx lvl ++ [pi_n apk_interface; pi_s] ++
      pi_object_type_like name impls dirs fields pfx lvl
  | DUnion desc name dirs members =>
      pi_description desc pfx lvl ++ [pi_n apk_union; pi_s] ++ pi_union name dirs members pfx lvl
  | DEnum desc name dirs values =>
      pi_description desc pfx lvl ++ [pi_n apk_enum; pi_s] ++
      pi_name_dirs_body name dirs (map pi_enumvaldef values) pfx lvl
  | DInput desc name dirs fields =>
      pi_description desc pfx lvl ++ [pi_n apk_input; pi_s] ++
      pi_name_dirs_body name dirs (map pi_inputvaldef fields) pfx lvl
  | XSchema dirs roots =>
      [pi_n apk_extend; pi_s; pi_n apk_schema] ++ pi_directives dirs pfx lvl ++
      match roots with
      | [] => []
      | _ => [pi_s] ++ pi_curly (map pi_rootop roots) pfx lvl
      end
  | XScalar name dirs =>
      [pi_n apk_extend; pi_s; pi_n apk_scalar; pi_s; pi_n name] ++ pi_directives dirs pfx lvl
  | XObject name impls dirs fields =>
      [pi_n apk_extend; pi_s; pi_n apk_type; pi_s] ++ pi_object_type_like name impls dirs fields pfx lvl
  | XInterface name impls dirs fields =>
      [pi_n apk_extend; pi_s; pi_n apk_interface; pi_s] ++
      pi_object_type_like name impls dirs fields pfx lvl
  | XUnion name dirs members =>
      [pi_n apk_extend; pi_s; pi_n apk_union; pi_s] ++ pi_union name dirs members pfx lvl
  | XEnum name dirs values =>
      [pi_n apk_extend; pi_s; pi_n apk_enum; pi_s] ++
      pi_name_dirs_body name dirs (map pi_enumvaldef values) pfx lvl
  | XInput name dirs fields =>
      [pi_n apk_extend; pi_s; pi_n apk_input; pi_s] ++
      pi_name_dirs_body name dirs (map pi_inputvaldef fields) pfx lvl
  end.

(* top_level: blank line between definitions, trailing newline *)
Definition pi_top_level (output_empty : bool) (d : document) : pi_layout := fun pfx lvl =>
  match d with
  | [] => []
  | first :: rest =>
      pi_definition output_empty first pfx lvl ++
      flat_map (fun x => pi_if_newlines pfx [PiSep [c_lf]] ++ pi_nl pfx lvl true ++
                         pi_definition false x pfx lvl) rest ++
      pi_if_newlines pfx [PiSep [c_lf]]
  end.

(* is `output_empty` still true when the first definition is reached? (the initial indentation is
   written with State::write, which clears the flag) *)
Definition pc_starts_empty (cfg : print_config) : bool :=
  match pc_prefix cfg with
  | Some _ => pc_level cfg =? 0
  | None => true
  end.

Definition pi_document (cfg : print_config) (d : document) : list pitem :=
  match pc_prefix cfg with
  | Some p => [PiSep (pi_indent_str p (pc_level cfg))]
  | None => []
  end ++
  pi_top_level (pc_starts_empty cfg) d (pc_prefix cfg) (pc_level cfg) ++
  [PiTok PtEof].

Definition ptokens (cfg : print_config) (d : document) : list ptoken := pi_attach [] (pi_document cfg d).

(* `{` at the start of a document is the shorthand for `query {` *)
Definition pt_shorthand_norm (l : list ptok) : list ptok :=
  match l with
  | PtPunct PLBrace :: _ => PtName apk_query :: l
  | _ => l
  end.

(* ---- well-formedness of the AST's lexical content, as boolean predicates *)
Definition ap_all_digits (s : str) : bool := forallb is_digit s.

(* IntValue :: -? ( 0 | NonZeroDigit Digit* ) *)
Definition ap_is_int_text (s : str) : bool :=
  let body := match s with c :: r => if c =? c_minus then r else s | [] => [] end in
  match body with
  | [] => false
  | c :: r => if c =? 48 then aps_is_empty r else is_digit c && ap_all_digits r
  end.

(* digits+ *)
Definition ap_digits1 (s : str) : bool := negb (aps_is_empty s) && ap_all_digits s.

(* ExponentPart without the indicator: sign? digits+ *)
Definition ap_is_exp_body (s : str) : bool :=
  match s with
  | c :: r => if (c =? c_plus) || (c =? c_minus) then ap_digits1 r else ap_digits1 s
  | [] => false
  end.

Definition ap_is_e (c : N) : bool := (c =? 101) || (c =? 69).

Fixpoint ap_split_at (p : N -> bool) (s : str) : str * option (N * str) :=
  match s with
  | [] => ([], None)
  | c :: r => if p c then ([], Some (c, r))
              else let '(a, b) := ap_split_at p r in (c :: a, b)
  end.

(* FloatValue :: IntegerPart ( FractionalPart ExponentPart? | ExponentPart ) *)
Definition ap_is_float_text (s : str) : bool :=
  match ap_split_at (fun c => (c =? c_dot) || ap_is_e c) s with
  | (ip, Some (c, rest)) =>
      ap_is_int_text ip &&
      (if c =? c_dot then
         match ap_split_at ap_is_e rest with
         | (frac, None) => ap_digits1 frac
         | (frac, Some (_, ex)) => ap_digits1 frac && ap_is_exp_body ex
         end
       else ap_is_exp_body rest)
  | (_, None) => false
  end.

Definition ptok_wf (t : ptok) : bool :=
  match t with
  | PtName n => is_valid_name n
  | PtInt x => ap_is_int_text x
  | PtFloat x => ap_is_float_text x
  | _ => true
  end.

Fixpoint pwf_ty (t : ty) : bool :=
  match t with
  | TNamed n | TNonNullNamed n => is_valid_name n
  | TList t | TNonNullList t => pwf_ty t
  end.

Fixpoint pwf_value (v : value) : bool :=
  match v with
  | VNull | VBool _ | VString _ => true
  | VEnum n | VVar n => is_valid_name n
  | VFloat x => ap_is_float_text x
  | VInt x => ap_is_int_text x
  | VList l => forallb pwf_value l
  | VObject fs => forallb (fun nv => is_valid_name (fst nv) && pwf_value (snd nv)) fs
  end.

Definition pwf_argument (a : argument) : bool := is_valid_name (fst a) && pwf_value (snd a).
Definition pwf_directive (d : directive) : bool := is_valid_name (d_name d) && forallb pwf_argument (d_args d).
Definition pwf_directives (ds : list directive) : bool := forallb pwf_directive ds.
Definition pwf_opt_value (v : option value) : bool := match v with Some v => pwf_value v | None => true end.
Definition pwf_opt_name (n : option str) : bool := match n with Some n => is_valid_name n | None => true end.

Definition pwf_vardef (v : vardef) : bool :=
  is_valid_name (v_name v) && pwf_ty (v_ty v) && pwf_opt_value (v_default v) && pwf_directives (v_dirs v).

Fixpoint pwf_selection (s : selection) : bool :=
  match s with
  | SField alias name args dirs sels =>
      pwf_opt_name alias && is_valid_name name && forallb pwf_argument args && pwf_directives dirs &&
      forallb pwf_selection sels
  | SSpread name dirs => is_valid_name name && pwf_directives dirs
  | SInline cond dirs sels => pwf_opt_name cond && pwf_directives dirs && forallb pwf_selection sels
  end.

Definition pwf_inputvaldef (v : inputvaldef) : bool :=
  is_valid_name (iv_name v) && pwf_ty (iv_ty v) && pwf_opt_value (iv_default v) && pwf_directives (iv_dirs v).
Definition pwf_fielddef (f : fielddef) : bool :=
  is_valid_name (fd_name f) && forallb pwf_inputvaldef (fd_args f) && pwf_ty (fd_ty f) &&
  pwf_directives (fd_dirs f).
Definition pwf_enumvaldef (e : enumvaldef) : bool := is_valid_name (ev_value e) && pwf_directives (ev_dirs e).
Definition pwf_rootop (r : rootop) : bool := is_valid_name (snd r).

Definition pwf_definition (d : definition) : bool :=
  match d with
  | DOperation _ name vars dirs sels =>
      pwf_opt_name name && forallb pwf_vardef vars && pwf_directives dirs && forallb pwf_selection sels
  | DFragment name cond dirs sels =>
      is_valid_name name && is_valid_name cond && pwf_directives dirs && forallb pwf_selection sels
  | DDirective _ name args _ _ => is_valid_name name && forallb pwf_inputvaldef args
  | DSchema _ dirs roots | XSchema dirs roots => pwf_directives dirs && forallb pwf_rootop roots
  | DScalar _ name dirs | XScalar name dirs => is_valid_name name && pwf_directives dirs
  | DObject _ name impls dirs fields | DInterface _ name impls dirs fields
  | XObject name impls dirs fields | XInterface name impls dirs fields =>
      is_valid_name name && forallb is_valid_name impls && pwf_directives dirs &&
      forallb pwf_fielddef fields
  | DUnion _ name dirs members | XUnion name dirs members =>
      is_valid_name name && pwf_directives dirs && forallb is_valid_name members
  | DEnum _ name dirs values | XEnum name dirs values =>
      is_valid_name name && pwf_directives dirs && forallb pwf_enumvaldef values
  | DInput _ name dirs fields | XInput name dirs fields =>
      is_valid_name name && pwf_directives dirs && forallb pwf_inputvaldef fields
  end.

Definition pwfd (d : document) : bool := forallb pwf_definition d.
