(* C08 (b) — the significant token sequence of the serializer's output does not depend on the
   configuration (indent prefix, initial level, single-line mode), except for the `query` keyword of
   the shorthand form, which depends on whether anything was written before the first definition. *)
From ApolloVerif Require Import Base.Chars Ast.Ast Ast.PrintState Ast.PrintString Ast.Print
  Ast.PrintTokens Ast.PrintAdjacent.

Definition pi_toks (l : list pitem) : list ptok :=
  flat_map (fun i => match i with PiTok t => [ptok_erase t] | PiSep _ => [] end) l.

Lemma pi_toks_app a b : pi_toks (a ++ b) = pi_toks a ++ pi_toks b.
Proof. apply flat_map_app. Qed.

Lemma ptsig_attach l : forall pend, ptsig (pi_attach pend l) = pi_toks l.
Proof.
  induction l as [|[s|t] r IH]; intros pend; cbn [pi_attach]; [reflexivity|apply IH|].
  unfold ptsig. cbn [map pt_tok]. fold (ptsig (pi_attach [] r)). rewrite IH. reflexivity.
Qed.

Lemma app_cong {A} (a a' b b' : list A) : a = a' -> b = b' -> a ++ b = a' ++ b'.
Proof. now intros -> ->. Qed.

Lemma flat_map_ext_in {A B} (f g : A -> list B) xs :
  (forall x, In x xs -> f x = g x) -> flat_map f xs = flat_map g xs.
Proof.
  induction xs as [|x xs IH]; intros H; [reflexivity|]. cbn [flat_map].
  rewrite (H x (or_introl eq_refl)), IH; [reflexivity|]. intros y Hy. apply H. now right.
Qed.

Lemma flat_map_map {A B C} (g : A -> B) (f : B -> list C) xs :
  flat_map f (map g xs) = flat_map (fun x => f (g x)) xs.
Proof. induction xs as [|x xs IH]; [reflexivity|]. cbn [map flat_map]. now rewrite IH. Qed.

Lemma pi_toks_flat_map {A} (f : A -> list pitem) xs :
  pi_toks (flat_map f xs) = flat_map (fun x => pi_toks (f x)) xs.
Proof.
  induction xs as [|x xs IH]; [reflexivity|]. cbn [flat_map]. now rewrite pi_toks_app, IH.
Qed.

Lemma pi_toks_cons_sep s r : pi_toks (PiSep s :: r) = pi_toks r.
Proof. reflexivity. Qed.

Lemma toks_nl p l sp : pi_toks (pi_nl p l sp) = [].
Proof. destruct p; [reflexivity|]. destruct sp; reflexivity. Qed.

Lemma toks_if_newlines_sep p s : pi_toks (pi_if_newlines p [PiSep s]) = [].
Proof. destruct p; reflexivity. Qed.

Definition pi_indep (g : pi_layout) : Prop :=
  forall p l p' l', pi_toks (g p l) = pi_toks (g p' l').

Lemma toks_comma o c items p l :
  pi_toks (pi_comma o c items p l) =
  [PtPunct o] ++ flat_map (fun it => pi_toks (it p (l + 1))) items ++ [PtPunct c].
Proof.
  unfold pi_comma. rewrite !pi_toks_app. apply app_cong; [reflexivity|].
  apply app_cong; [|reflexivity].
  destruct items as [|first rest]; [reflexivity|].
  rewrite !pi_toks_app, !toks_nl, toks_if_newlines_sep, app_nil_r. cbn [app flat_map].
  apply app_cong; [reflexivity|]. rewrite pi_toks_flat_map. apply flat_map_ext_in; cbv beta. intros it _.
  rewrite pi_toks_cons_sep, !pi_toks_app, toks_nl. reflexivity.
Qed.

Lemma toks_curly items p l :
  pi_toks (pi_curly items p l) =
  [PtPunct PLBrace] ++ flat_map (fun it => pi_toks (it p (l + 1))) items ++ [PtPunct PRBrace].
Proof.
  unfold pi_curly. rewrite !pi_toks_app. apply app_cong; [reflexivity|].
  apply app_cong; [|reflexivity].
  destruct items as [|first rest]; [reflexivity|].
  rewrite !pi_toks_app, !toks_nl, app_nil_r. cbn [app flat_map].
  apply app_cong; [reflexivity|]. rewrite pi_toks_flat_map. apply flat_map_ext_in; cbv beta. intros it _.
  rewrite !pi_toks_app, toks_nl. reflexivity.
Qed.

Lemma indep_comma o c items :
  (forall it, In it items -> pi_indep it) -> pi_indep (pi_comma o c items).
Proof.
  intros H p l p' l'. rewrite !toks_comma. apply app_cong; [reflexivity|].
  apply app_cong; [|reflexivity]. apply flat_map_ext_in; cbv beta. intros it Hit. now apply H.
Qed.

Lemma indep_curly items :
  (forall it, In it items -> pi_indep it) -> pi_indep (pi_curly items).
Proof.
  intros H p l p' l'. rewrite !toks_curly. apply app_cong; [reflexivity|].
  apply app_cong; [|reflexivity]. apply flat_map_ext_in; cbv beta. intros it Hit. now apply H.
Qed.

Lemma in_map_indep {A} (G : A -> pi_layout) xs :
  (forall x, In x xs -> pi_indep (G x)) -> forall it, In it (map G xs) -> pi_indep it.
Proof. intros H it Hin. apply in_map_iff in Hin as [x [<- Hx]]. now apply H. Qed.

Ltac toks_split := rewrite ?pi_toks_app; repeat (first [reflexivity | apply app_cong]).

Lemma indep_string isd s : pi_indep (pi_string isd s).
Proof. intros p l p' l'. reflexivity. Qed.

Lemma indep_description d : pi_indep (pi_description d).
Proof.
  intros p l p' l'. unfold pi_description. destruct d as [s|]; [|reflexivity].
  rewrite !pi_toks_app, !toks_nl. reflexivity.
Qed.

Lemma indep_value v : pi_indep (pi_value v).
Proof.
  induction v as [| n | n | s | s | s | b | vs IH | fs IH] using value_ind2; intros p l p' l';
    cbn [pi_value]; try reflexivity.
  - apply indep_comma. apply in_map_indep. intros x Hx. rewrite Forall_forall in IH. now apply IH.
  - apply indep_comma. apply in_map_indep. intros x Hx q k q' k'.
    rewrite !pi_toks_app. apply app_cong; [reflexivity|]. rewrite Forall_forall in IH. now apply IH.
Qed.

Lemma indep_argument a : pi_indep (pi_argument a).
Proof.
  intros p l p' l'. unfold pi_argument. rewrite !pi_toks_app. apply app_cong; [reflexivity|].
  apply indep_value.
Qed.

Lemma indep_arguments args : pi_indep (pi_arguments args).
Proof.
  intros p l p' l'. unfold pi_arguments. destruct args as [|a args]; [reflexivity|].
  apply indep_comma. apply in_map_indep. intros x _. apply indep_argument.
Qed.

Lemma indep_directive d : pi_indep (pi_directive d).
Proof.
  intros p l p' l'. unfold pi_directive. rewrite !pi_toks_app. apply app_cong; [reflexivity|].
  apply indep_arguments.
Qed.

Lemma indep_directives ds : pi_indep (pi_directives ds).
Proof.
  intros p l p' l'. unfold pi_directives. rewrite !pi_toks_flat_map. apply flat_map_ext_in.
  intros d _. rewrite !pi_toks_app. apply app_cong; [reflexivity|]. apply indep_directive.
Qed.

Lemma indep_default (dv : option value) p l p' l' :
  pi_toks (match dv with Some d => [pi_s; pi_p PEq; pi_s] ++ pi_value d p l | None => [] end) =
  pi_toks (match dv with Some d => [pi_s; pi_p PEq; pi_s] ++ pi_value d p' l' | None => [] end).
Proof.
  destruct dv as [d|]; [|reflexivity]. rewrite !pi_toks_app. apply app_cong; [reflexivity|].
  apply indep_value.
Qed.

Lemma indep_vardef v : pi_indep (pi_vardef v).
Proof.
  intros p l p' l'. unfold pi_vardef. rewrite !pi_toks_app.
  apply app_cong; [reflexivity|]. apply app_cong; [reflexivity|].
  apply app_cong; [apply indep_default|apply indep_directives].
Qed.

Lemma indep_selection s : pi_indep (pi_selection s).
Proof.
  induction s as [a n args dirs sels IH | n dirs | c dirs sels IH] using selection_ind2;
    intros p l p' l'; cbn [pi_selection]; rewrite !pi_toks_app.
  - apply app_cong; [reflexivity|]. apply app_cong; [reflexivity|].
    apply app_cong; [apply indep_arguments|]. apply app_cong; [apply indep_directives|].
    destruct sels as [|s0 sels']; [reflexivity|]. rewrite !pi_toks_app.
    apply app_cong; [reflexivity|]. apply indep_curly. apply in_map_indep. intros x Hx.
    rewrite Forall_forall in IH. now apply IH.
  - apply app_cong; [reflexivity|]. apply indep_directives.
  - apply app_cong; [reflexivity|]. apply app_cong; [apply indep_directives|].
    apply app_cong; [reflexivity|]. apply indep_curly. apply in_map_indep. intros x Hx.
    rewrite Forall_forall in IH. now apply IH.
Qed.

Lemma indep_selset sels : pi_indep (pi_curly (map pi_selection sels)).
Proof. apply indep_curly. apply in_map_indep. intros x _. apply indep_selection. Qed.

Lemma indep_operation e op name vars dirs sels : pi_indep (pi_operation e op name vars dirs sels).
Proof.
  intros p l p' l'. unfold pi_operation. rewrite !pi_toks_app.
  apply app_cong; [|apply indep_selset].
  destruct (negb (pi_shorthand e op name vars dirs)); [|reflexivity].
  rewrite !pi_toks_app. apply app_cong; [reflexivity|]. apply app_cong; [reflexivity|].
  apply app_cong.
  - destruct vars as [|v vars]; [reflexivity|]. apply indep_comma. apply in_map_indep.
    intros x _. apply indep_vardef.
  - apply app_cong; [apply indep_directives|reflexivity].
Qed.

Lemma indep_fragment name cond dirs sels : pi_indep (pi_fragment name cond dirs sels).
Proof.
  intros p l p' l'. unfold pi_fragment. rewrite !pi_toks_app. apply app_cong; [reflexivity|].
  apply app_cong; [apply indep_directives|]. apply app_cong; [reflexivity|apply indep_selset].
Qed.

Lemma indep_inputvaldef v : pi_indep (pi_inputvaldef v).
Proof.
  intros p l p' l'. unfold pi_inputvaldef. rewrite !pi_toks_app.
  apply app_cong; [apply indep_description|]. apply app_cong; [reflexivity|].
  apply app_cong; [reflexivity|]. apply app_cong; [apply indep_default|apply indep_directives].
Qed.

Lemma indep_arguments_definition args : pi_indep (pi_arguments_definition args).
Proof.
  intros p l p' l'. unfold pi_arguments_definition. destruct args as [|a args]; [reflexivity|].
  apply indep_comma. apply in_map_indep. intros x _. apply indep_inputvaldef.
Qed.

Lemma indep_fielddef f : pi_indep (pi_fielddef f).
Proof.
  intros p l p' l'. unfold pi_fielddef. rewrite !pi_toks_app.
  apply app_cong; [apply indep_description|]. apply app_cong; [reflexivity|].
  apply app_cong; [apply indep_arguments_definition|]. apply app_cong; [reflexivity|].
  apply app_cong; [reflexivity|apply indep_directives].
Qed.

Lemma indep_enumvaldef e : pi_indep (pi_enumvaldef e).
Proof.
  intros p l p' l'. unfold pi_enumvaldef. rewrite !pi_toks_app.
  apply app_cong; [apply indep_description|]. apply app_cong; [reflexivity|apply indep_directives].
Qed.

Lemma indep_rootop r : pi_indep (pi_rootop r).
Proof. intros p l p' l'. reflexivity. Qed.

Lemma indep_opt_space_curly (body : list pi_layout) p l p' l' :
  (forall it, In it body -> pi_indep it) ->
  pi_toks (match body with [] => [] | _ :: _ => [pi_s] ++ pi_curly body p l end) =
  pi_toks (match body with [] => [] | _ :: _ => [pi_s] ++ pi_curly body p' l' end).
Proof.
  intros H. destruct body as [|b body]; [reflexivity|]. rewrite !pi_toks_app.
  apply app_cong; [reflexivity|]. now apply indep_curly.
Qed.

Lemma indep_object_type_like name impls dirs fields :
  pi_indep (pi_object_type_like name impls dirs fields).
Proof.
  intros p l p' l'. unfold pi_object_type_like. rewrite !pi_toks_app.
  apply app_cong; [reflexivity|]. apply app_cong; [reflexivity|].
  apply app_cong; [apply indep_directives|].
  destruct fields as [|f fields]; [reflexivity|]. rewrite !pi_toks_app.
  apply app_cong; [reflexivity|]. apply indep_curly. apply in_map_indep. intros x _.
  apply indep_fielddef.
Qed.

Lemma indep_union name dirs members : pi_indep (pi_union name dirs members).
Proof.
  intros p l p' l'. unfold pi_union. rewrite !pi_toks_app. apply app_cong; [reflexivity|].
  apply app_cong; [apply indep_directives|reflexivity].
Qed.

Lemma indep_name_dirs_body name dirs body :
  (forall it, In it body -> pi_indep it) -> pi_indep (pi_name_dirs_body name dirs body).
Proof.
  intros H p l p' l'. unfold pi_name_dirs_body. rewrite !pi_toks_app.
  apply app_cong; [reflexivity|]. apply app_cong; [apply indep_directives|].
  now apply indep_opt_space_curly.
Qed.

Lemma indep_definition e d : pi_indep (pi_definition e d).
Proof.
  intros p l p' l'. destruct d; cbn [pi_definition].
  - apply indep_operation.
  - apply indep_fragment.
  - unfold pi_directive_definition. rewrite !pi_toks_app.
    apply app_cong; [apply indep_description|]. apply app_cong; [reflexivity|].
    apply app_cong; [apply indep_arguments_definition|reflexivity].
  - unfold pi_schema_definition. rewrite !pi_toks_app.
    apply app_cong; [apply indep_description|]. apply app_cong; [reflexivity|].
    apply app_cong; [apply indep_directives|]. apply app_cong; [reflexivity|].
    apply indep_curly. apply in_map_indep. intros x _. apply indep_rootop.
  - rewrite !pi_toks_app. apply app_cong; [apply indep_description|].
    apply app_cong; [reflexivity|apply indep_directives].
  - rewrite !pi_toks_app. apply app_cong; [apply indep_description|].
    apply app_cong; [reflexivity|apply indep_object_type_like].
  - rewrite !pi_toks_app. apply app_cong; [apply indep_description|].
    apply app_cong; [reflexivity|apply indep_object_type_like].
  - rewrite !pi_toks_app. apply app_cong; [apply indep_description|].
    apply app_cong; [reflexivity|apply indep_union].
  - rewrite !pi_toks_app. apply app_cong; [apply indep_description|].
    apply app_cong; [reflexivity|]. apply indep_name_dirs_body. apply in_map_indep.
    intros x _. apply indep_enumvaldef.
  - rewrite !pi_toks_app. apply app_cong; [apply indep_description|].
    apply app_cong; [reflexivity|]. apply indep_name_dirs_body. apply in_map_indep.
    intros x _. apply indep_inputvaldef.
  - rewrite !pi_toks_app. apply app_cong; [reflexivity|].
    apply app_cong; [apply indep_directives|].
    destruct roots as [|r roots]; [reflexivity|]. rewrite !pi_toks_app.
    apply app_cong; [reflexivity|]. apply indep_curly. apply in_map_indep. intros x _.
    apply indep_rootop.
  - rewrite !pi_toks_app. apply app_cong; [reflexivity|apply indep_directives].
  - rewrite !pi_toks_app. apply app_cong; [reflexivity|apply indep_object_type_like].
  - rewrite !pi_toks_app. apply app_cong; [reflexivity|apply indep_object_type_like].
  - rewrite !pi_toks_app. apply app_cong; [reflexivity|apply indep_union].
  - rewrite !pi_toks_app. apply app_cong; [reflexivity|]. apply indep_name_dirs_body.
    apply in_map_indep. intros x _. apply indep_enumvaldef.
  - rewrite !pi_toks_app. apply app_cong; [reflexivity|]. apply indep_name_dirs_body.
    apply in_map_indep. intros x _. apply indep_inputvaldef.
Qed.

Lemma indep_top_level e d : pi_indep (pi_top_level e d).
Proof.
  intros p l p' l'. unfold pi_top_level. destruct d as [|first rest]; [reflexivity|].
  rewrite !pi_toks_app, !toks_if_newlines_sep, !app_nil_r.
  apply app_cong; [apply indep_definition|].
  rewrite !pi_toks_flat_map. apply flat_map_ext_in; cbv beta. intros x _.
  rewrite !pi_toks_app, !toks_if_newlines_sep, !toks_nl. cbn [app]. apply indep_definition.
Qed.

Lemma ptsig_ptokens cfg d :
  ptsig (ptokens cfg d) =
  pi_toks (pi_top_level (pc_starts_empty cfg) d (pc_prefix cfg) (pc_level cfg)) ++ [PtEof].
Proof.
  unfold ptokens. rewrite ptsig_attach. unfold pi_document. rewrite !pi_toks_app.
  destruct (pc_prefix cfg); reflexivity.
Qed.

Theorem tokens_config_independent_exact cfg1 cfg2 d :
  pc_starts_empty cfg1 = pc_starts_empty cfg2 ->
  ptsig (ptokens cfg1 d) = ptsig (ptokens cfg2 d).
Proof.
  intros H. rewrite !ptsig_ptokens, H. apply app_cong; [|reflexivity]. apply indep_top_level.
Qed.

(* ---- the shorthand: with output_empty the first definition may lose its `query` keyword *)
Definition hd_not_lbrace (l : list ptok) : bool :=
  match l with
  | [] => false
  | PtPunct PLBrace :: _ => false
  | _ => true
  end.

Lemma hd_not_lbrace_app a b : hd_not_lbrace a = true -> hd_not_lbrace (a ++ b) = true.
Proof. destruct a as [|[[]| | | | |] a]; cbn; congruence. Qed.

Lemma norm_not_lbrace l : hd_not_lbrace l = true -> pt_shorthand_norm l = l.
Proof. destruct l as [|[[]| | | | |] l]; cbn; congruence. Qed.

Lemma toks_description_some s p l :
  pi_toks (pi_description (Some s) p l) = [PtString s PsQuoted].
Proof. unfold pi_description. rewrite pi_toks_app, toks_nl. reflexivity. Qed.

Lemma hd_name n r : hd_not_lbrace (pi_toks (pi_n n :: r)) = true.
Proof. reflexivity. Qed.

Lemma hd_desc desc p l n r : hd_not_lbrace (pi_toks (pi_description desc p l ++ pi_n n :: r)) = true.
Proof.
  destruct desc as [s|]; [|reflexivity]. rewrite pi_toks_app, toks_description_some. reflexivity.
Qed.

Lemma definition_false_head d p l : hd_not_lbrace (pi_toks (pi_definition false d p l)) = true.
Proof.
  destruct d; cbn [pi_definition];
    unfold pi_directive_definition, pi_schema_definition, pi_fragment, pi_operation;
    cbn [pi_shorthand andb negb app]; first [apply hd_desc | apply hd_name].
Qed.

Definition pi_top_rest (rest : document) (p : option str) (l : N) : list pitem :=
  flat_map (fun x => pi_if_newlines p [PiSep [c_lf]] ++ pi_nl p l true ++ pi_definition false x p l) rest ++
  pi_if_newlines p [PiSep [c_lf]].

Lemma top_level_cons e first rest p l :
  pi_top_level e (first :: rest) p l = pi_definition e first p l ++ pi_top_rest rest p l.
Proof. reflexivity. Qed.

Lemma toks_name_space n r : pi_toks (pi_n n :: pi_s :: r) = PtName n :: pi_toks r.
Proof. reflexivity. Qed.

Lemma top_level_norm d p l :
  pt_shorthand_norm (pi_toks (pi_top_level true d p l) ++ [PtEof]) =
  pi_toks (pi_top_level false d p l) ++ [PtEof] /\
  pt_shorthand_norm (pi_toks (pi_top_level false d p l) ++ [PtEof]) =
  pi_toks (pi_top_level false d p l) ++ [PtEof].
Proof.
  destruct d as [|first rest]; [split; reflexivity|].
  assert (Hf : hd_not_lbrace (pi_toks (pi_top_level false (first :: rest) p l) ++ [PtEof]) = true).
  { rewrite top_level_cons, pi_toks_app. apply hd_not_lbrace_app, hd_not_lbrace_app.
    apply definition_false_head. }
  split; [|now apply norm_not_lbrace].
  destruct (pi_shorthand true
              match first with DOperation op _ _ _ _ => op | _ => OpMutation end
              match first with DOperation _ n _ _ _ => n | _ => None end
              match first with DOperation _ _ v _ _ => v | _ => [] end
              match first with DOperation _ _ _ ds _ => ds | _ => [] end) eqn:Esh.
  - (* the shorthand applies: the first definition is an anonymous query without variables/directives *)
    destruct first as [op name vars dirs sels| | | | | | | | | | | | | | | |];
      try (cbn in Esh; discriminate).
    destruct op; try (cbn in Esh; discriminate).
    destruct name; try (cbn in Esh; discriminate).
    destruct vars; try (cbn in Esh; discriminate).
    destruct dirs; try (cbn in Esh; discriminate).
    rewrite !top_level_cons.
    change (pi_definition true (DOperation OpQuery None [] [] sels) p l)
      with (pi_curly (map pi_selection sels) p l).
    change (pi_definition false (DOperation OpQuery None [] [] sels) p l)
      with (pi_n apk_query :: pi_s :: pi_curly (map pi_selection sels) p l).
    rewrite !pi_toks_app, toks_name_space, toks_curly. reflexivity.
  - (* it does not: both flags give the same items *)
    assert (Heq : pi_definition true first p l = pi_definition false first p l).
    { destruct first; try reflexivity. cbn [pi_definition]. unfold pi_operation.
      cbn in Esh. rewrite Esh. reflexivity. }
    rewrite top_level_cons in *. rewrite Heq. now apply norm_not_lbrace.
Qed.

Theorem tokens_config_independent cfg1 cfg2 d :
  pt_shorthand_norm (ptsig (ptokens cfg1 d)) = pt_shorthand_norm (ptsig (ptokens cfg2 d)).
Proof.
  assert (H : forall cfg, pt_shorthand_norm (ptsig (ptokens cfg d)) =
                          pi_toks (pi_top_level false d None 0) ++ [PtEof]).
  { intros cfg. rewrite ptsig_ptokens.
    destruct (top_level_norm d (pc_prefix cfg) (pc_level cfg)) as [Ht Hf].
    destruct (pc_starts_empty cfg); [rewrite Ht|rewrite Hf];
      (apply app_cong; [apply indep_top_level|reflexivity]). }
  now rewrite !H.
Qed.
