(* C10, numbers: the syntax predicates of the code equal the specification grammars; decimal printing of
   an i32 is a valid IntValue that parses back; the float fix-up yields a valid FloatValue. *)
From ApolloVerif Require Import Base.Chars Base.Utf8 Base.Utf8Proofs Ast.Numbers.
From Coq Require Import ZArith ZifyBool ZifyN.

(* ---------- digits ---------- *)

Lemma is_digit_spec c : is_digit c = true <-> SpecDigit c.
Proof. unfold is_digit, SpecDigit. lia. Qed.

Lemma forallb_digit_spec l : forallb is_digit l = true <-> Forall SpecDigit l.
Proof.
  rewrite forallb_forall, Forall_forall. split; intros H x Hx; apply is_digit_spec; auto.
Qed.

Lemma digits_bytes s : forallb is_digit (utf8_bytes s) = forallb is_digit s.
Proof. apply forallb_utf8, ascii_is_digit. Qed.

(* ---------- IntValue ---------- *)

(* the slice patterns, read on characters *)
Definition int_chars (t : str) : bool :=
  match t with
  | [] => false
  | [d] => is_digit d
  | d :: rest => (49 <=? d) && (d <=? 57) && forallb is_digit rest
  end.

Lemma int_bytes_chars t : num_int_valid_bytes (utf8_bytes t) = int_chars t.
Proof.
  destruct t as [|c r]; [reflexivity|]. rewrite utf8_bytes_cons.
  destruct (N.ltb_spec c 128) as [Hc|Hc].
  - rewrite utf8_encode_ascii by exact Hc. cbn [app].
    destruct r as [|c2 r2].
    + cbn [utf8_bytes flat_map num_int_valid_bytes int_chars forallb].
      destruct (is_digit c) eqn:E; [reflexivity|]. unfold is_digit in E.
      destruct ((49 <=? c) && (c <=? 57)) eqn:E2; [lia|reflexivity].
    + destruct (utf8_bytes (c2 :: r2)) as [|b bs] eqn:E.
      { apply (proj1 (utf8_bytes_nil_iff _)) in E. discriminate. }
      cbn [num_int_valid_bytes int_chars]. rewrite <- E, digits_bytes.
      destruct ((49 <=? c) && (c <=? 57)); reflexivity.
  - destruct (utf8_encode_nonascii c Hc) as (b0 & b1 & bs & -> & Hall).
    inversion Hall as [|? ? Hb0 _]; subst. cbn [app num_int_valid_bytes].
    replace ((49 <=? b0) && (b0 <=? 57)) with false by lia.
    unfold int_chars. destruct r; unfold is_digit.
    + lia.
    + replace ((49 <=? c) && (c <=? 57)) with false by lia. reflexivity.
Qed.

Lemma int_valid_chars text : num_int_valid_syntax text = int_chars (num_strip_minus text).
Proof. unfold num_int_valid_syntax. apply int_bytes_chars. Qed.

Lemma int_chars_spec_l s : int_chars (num_strip_minus s) = true -> SpecIntegerPart s.
Proof.
  assert (K : forall t, int_chars t = true ->
            t = [48] \/ exists d ds, t = d :: ds /\ SpecNonZeroDigit d /\ Forall SpecDigit ds).
  { intros t Ht. destruct t as [|d [|d2 r]]; cbn [int_chars] in Ht; [discriminate| |].
    - destruct (N.eqb_spec d 48) as [->|Hne]; [now left|]. right. exists d, [].
      unfold is_digit in Ht. split; [reflexivity|]. split; [unfold SpecNonZeroDigit; lia|constructor].
    - right. exists d, (d2 :: r). apply andb_true_iff in Ht as [Hd Hr].
      apply forallb_digit_spec in Hr. split; [reflexivity|]. split; [unfold SpecNonZeroDigit; lia|exact Hr]. }
  unfold num_strip_minus, strip_prefix. destruct s as [|c r]; [discriminate|].
  destruct (N.eqb_spec c c_minus) as [->|Hne]; intros H; apply K in H.
  - destruct H as [->|(d & ds & -> & Hd & Hds)]; [apply SIP_neg_zero|now apply SIP_neg_nonzero].
  - destruct H as [[= -> ->]|(d & ds & [= -> ->] & Hd & Hds)]; [apply SIP_zero|now apply SIP_nonzero].
Qed.

Lemma int_chars_nonzero d ds : SpecNonZeroDigit d -> Forall SpecDigit ds -> int_chars (d :: ds) = true.
Proof.
  intros Hd Hds. unfold SpecNonZeroDigit in Hd. destruct ds as [|d2 r]; cbn [int_chars].
  - unfold is_digit. lia.
  - apply forallb_digit_spec in Hds. rewrite Hds. lia.
Qed.

Lemma int_chars_spec_r s : SpecIntegerPart s -> int_chars (num_strip_minus s) = true.
Proof.
  intros [| |d ds Hd Hds|d ds Hd Hds]; unfold num_strip_minus, strip_prefix.
  - reflexivity.
  - reflexivity.
  - replace (d =? c_minus) with false by (unfold SpecNonZeroDigit, c_minus in *; lia).
    now apply int_chars_nonzero.
  - rewrite N.eqb_refl. now apply int_chars_nonzero.
Qed.

Theorem int_syntax_iff s : num_int_valid_syntax s = true <-> SpecIntValue s.
Proof.
  rewrite int_valid_chars. unfold SpecIntValue. split; [apply int_chars_spec_l|apply int_chars_spec_r].
Qed.

(* ---------- split_once with a predicate ---------- *)

Lemma split_p_app p a c b :
  existsb p a = false -> p c = true -> num_split_once_p p (a ++ c :: b) = Some (a, b).
Proof.
  induction a as [|x a IH]; cbn [app num_split_once_p existsb]; intros Ha Hc.
  - now rewrite Hc.
  - apply orb_false_iff in Ha as [Hx Ha]. rewrite Hx, (IH Ha Hc). reflexivity.
Qed.

Lemma split_p_none p s : existsb p s = false -> num_split_once_p p s = None.
Proof.
  induction s as [|x s IH]; cbn [num_split_once_p existsb]; [reflexivity|].
  intros H. apply orb_false_iff in H as [Hx Hs]. now rewrite Hx, (IH Hs).
Qed.

Lemma split_p_sound p s : forall a b,
  num_split_once_p p s = Some (a, b) -> exists c, s = a ++ c :: b /\ p c = true /\ existsb p a = false.
Proof.
  induction s as [|x s IH]; intros a b; cbn [num_split_once_p]; [discriminate|].
  destruct (p x) eqn:Hx.
  - intros [= <- <-]. exists x. auto.
  - destruct (num_split_once_p p s) as [[a' b']|]; [|discriminate].
    intros [= <- <-]. destruct (IH a' b' eq_refl) as (c & -> & Hc & Ha).
    exists c. cbn [app existsb]. rewrite Hx. auto.
Qed.

(* ---------- characters of the grammar parts ---------- *)

Definition int_char (c : N) : Prop := c = c_minus \/ SpecDigit c.

Lemma integer_part_chars i : SpecIntegerPart i -> Forall int_char i.
Proof.
  assert (D : forall ds, Forall SpecDigit ds -> Forall int_char ds).
  { intros ds H. eapply Forall_impl; [|exact H]. intros a Ha. now right. }
  assert (Z : int_char 48) by (right; unfold SpecDigit; lia).
  assert (NZ : forall d, SpecNonZeroDigit d -> int_char d)
    by (intros d Hd; right; unfold SpecDigit, SpecNonZeroDigit in *; lia).
  assert (M : int_char c_minus) by (now left).
  intros [| |d ds Hd Hds|d ds Hd Hds]; repeat (constructor; auto).
Qed.

Lemma no_e_int_chars l : Forall int_char l -> existsb num_is_e l = false.
Proof.
  induction 1 as [|c l Hc _ IH]; [reflexivity|]. cbn [existsb]. rewrite IH.
  unfold int_char, SpecDigit, c_minus, num_is_e in *. lia.
Qed.

Lemma no_dot_int_chars l : Forall int_char l -> mem c_dot l = false.
Proof.
  unfold mem. induction 1 as [|c l Hc _ IH]; [reflexivity|]. cbn [existsb]. rewrite IH.
  unfold int_char, SpecDigit, c_minus, c_dot in *. lia.
Qed.

Lemma digits_int_chars l : Forall SpecDigit l -> Forall int_char l.
Proof. intros H. eapply Forall_impl; [|exact H]. intros a Ha. now right. Qed.

Lemma no_e_mantissa i d ds :
  Forall int_char i -> SpecDigit d -> Forall SpecDigit ds -> existsb num_is_e (i ++ c_dot :: d :: ds) = false.
Proof.
  intros Hi Hd Hds. rewrite existsb_app, (no_e_int_chars _ Hi).
  change (c_dot :: d :: ds) with ([c_dot] ++ (d :: ds)).
  rewrite existsb_app, (no_e_int_chars (d :: ds)) by (apply digits_int_chars; now constructor).
  reflexivity.
Qed.

(* ---------- FloatValue ---------- *)

Lemma fractional_ok i d ds :
  SpecIntegerPart i -> SpecDigit d -> Forall SpecDigit ds -> num_float_valid_fractional i (d :: ds) = true.
Proof.
  intros Hi Hd Hds. unfold num_float_valid_fractional.
  rewrite (proj2 (int_syntax_iff i) Hi), digits_bytes. cbn [num_is_empty negb andb].
  apply forallb_digit_spec. now constructor.
Qed.

Lemma strip_sign_digits d ds :
  SpecDigit d ->
  match num_strip_prefix_p num_is_sign (d :: ds) with Some r => r | None => d :: ds end = d :: ds.
Proof.
  intros Hd. cbn [num_strip_prefix_p].
  replace (num_is_sign d) with false; [reflexivity|].
  unfold num_is_sign, SpecDigit, c_plus, c_minus in *. lia.
Qed.

Theorem float_complete s : SpecFloatValue s -> num_float_valid_syntax s = true.
Proof.
  intros [i f e Hi Hf He|i f Hi Hf|i e Hi He]; unfold num_float_valid_syntax;
    pose proof (integer_part_chars _ Hi) as Hic.
  - destruct Hf as [d ds Hd Hds].
    assert (Hm : existsb num_is_e (i ++ c_dot :: d :: ds) = false) by now apply no_e_mantissa.
    assert (Hexp : forall ind rest, SpecExponentIndicator ind ->
              num_split_once_p num_is_e (i ++ (c_dot :: d :: ds) ++ ind :: rest)
              = Some (i ++ c_dot :: d :: ds, rest)).
    { intros ind rest Hind. rewrite app_assoc. apply split_p_app; [exact Hm|].
      unfold SpecExponentIndicator, num_is_e in *. lia. }
    assert (Hdot : split_once c_dot (i ++ c_dot :: d :: ds) = Some (i, d :: ds)).
    { apply split_once_app, no_dot_int_chars, Hic. }
    destruct He as [ind d' ds' Hind Hd' Hds'|ind sg d' ds' Hind Hsg Hd' Hds'].
    + rewrite (Hexp ind (d' :: ds') Hind), (strip_sign_digits d' ds' Hd'), digits_bytes.
      replace (forallb is_digit (d' :: ds')) with true
        by (symmetry; apply forallb_digit_spec; now constructor).
      cbn [num_is_empty negb orb]. rewrite Hdot. now apply fractional_ok.
    + rewrite (Hexp ind (sg :: d' :: ds') Hind). cbn [num_strip_prefix_p].
      replace (num_is_sign sg) with true by (unfold SpecSign, num_is_sign in *; lia).
      rewrite digits_bytes.
      replace (forallb is_digit (d' :: ds')) with true
        by (symmetry; apply forallb_digit_spec; now constructor).
      cbn [num_is_empty negb orb]. rewrite Hdot. now apply fractional_ok.
  - destruct Hf as [d ds Hd Hds].
    rewrite split_p_none by now apply no_e_mantissa.
    rewrite split_once_app by (apply no_dot_int_chars, Hic). now apply fractional_ok.
  - assert (Hexp : forall ind rest, SpecExponentIndicator ind ->
              num_split_once_p num_is_e (i ++ ind :: rest) = Some (i, rest)).
    { intros ind rest Hind. apply split_p_app; [apply no_e_int_chars, Hic|].
      unfold SpecExponentIndicator, num_is_e in *. lia. }
    assert (Hdot : split_once c_dot i = None) by (apply split_once_none, no_dot_int_chars, Hic).
    destruct He as [ind d' ds' Hind Hd' Hds'|ind sg d' ds' Hind Hsg Hd' Hds'].
    + rewrite (Hexp ind (d' :: ds') Hind), (strip_sign_digits d' ds' Hd'), digits_bytes.
      replace (forallb is_digit (d' :: ds')) with true
        by (symmetry; apply forallb_digit_spec; now constructor).
      cbn [num_is_empty negb orb]. rewrite Hdot. now apply int_syntax_iff.
    + rewrite (Hexp ind (sg :: d' :: ds') Hind). cbn [num_strip_prefix_p].
      replace (num_is_sign sg) with true by (unfold SpecSign, num_is_sign in *; lia).
      rewrite digits_bytes.
      replace (forallb is_digit (d' :: ds')) with true
        by (symmetry; apply forallb_digit_spec; now constructor).
      cbn [num_is_empty negb orb]. rewrite Hdot. now apply int_syntax_iff.
Qed.

Lemma fractional_inv i f :
  num_float_valid_fractional i f = true -> SpecIntegerPart i /\ SpecFractionalPart (c_dot :: f).
Proof.
  unfold num_float_valid_fractional. rewrite !andb_true_iff, digits_bytes. intros [[Hi Hne] Hd].
  split; [now apply int_syntax_iff|]. destruct f as [|d ds]; [discriminate|].
  apply forallb_digit_spec in Hd. inversion Hd; subst. now constructor.
Qed.

Theorem float_sound s : num_float_valid_syntax s = true -> SpecFloatValue s.
Proof.
  unfold num_float_valid_syntax.
  destruct (num_split_once_p num_is_e s) as [[m ex]|] eqn:Es.
  - apply split_p_sound in Es as (ind & -> & Hind & _).
    assert (Hi : SpecExponentIndicator ind) by (unfold SpecExponentIndicator, num_is_e in *; lia).
    set (ex' := match num_strip_prefix_p num_is_sign ex with Some r => r | None => ex end).
    destruct (num_is_empty ex' || negb (forallb is_digit (utf8_bytes ex'))) eqn:Eg; [discriminate|].
    apply orb_false_iff in Eg as [Hne Hdig]. apply negb_false_iff in Hdig. rewrite digits_bytes in Hdig.
    assert (He : SpecExponentPart (ind :: ex)).
    { destruct ex' as [|d ds] eqn:Eex; [discriminate|].
      apply forallb_digit_spec in Hdig. inversion Hdig as [|? ? Hd Hds]; subst.
      unfold ex' in Eex. destruct ex as [|c r]; cbn [num_strip_prefix_p] in Eex; [discriminate|].
      destruct (num_is_sign c) eqn:Ec.
      - subst r. apply SEP_signed; auto. unfold SpecSign, num_is_sign in *. lia.
      - injection Eex as -> ->. now apply SEP_unsigned. }
    destruct (split_once c_dot m) as [[i f]|] eqn:Ed.
    + intros Hv. apply split_once_sound in Ed as [-> _].
      apply fractional_inv in Hv as [Hip Hfp].
      replace ((i ++ c_dot :: f) ++ ind :: ex) with (i ++ (c_dot :: f) ++ (ind :: ex))
        by (now rewrite <- app_assoc).
      now apply SFV_ife.
    + intros Hv. apply SFV_ie; [now apply int_syntax_iff|exact He].
  - destruct (split_once c_dot s) as [[i f]|] eqn:Ed; [|discriminate].
    intros Hv. apply split_once_sound in Ed as [-> _].
    apply fractional_inv in Hv as [Hip Hfp]. now apply SFV_if.
Qed.

Theorem float_syntax_iff s : num_float_valid_syntax s = true <-> SpecFloatValue s.
Proof. split; [apply float_sound|apply float_complete]. Qed.

(* the code before the fix c6646f2 (D8): accepts "1e" and "1.5e+", which are not FloatValues *)
Lemma spec_float_has_exponent_digit s :
  SpecFloatValue s -> num_empty_exponent_digits s = false.
Proof.
  intros H. apply float_complete in H. unfold num_float_valid_syntax in H. unfold num_empty_exponent_digits.
  destruct (num_split_once_p num_is_e s) as [[m ex]|]; [|reflexivity].
  destruct (num_is_empty _); [discriminate|reflexivity].
Qed.

Theorem float_old_refuted :
  num_float_valid_syntax_old [49; 101] = true /\ ~ SpecFloatValue [49; 101] /\
  num_float_valid_syntax_old [49; 46; 53; 101; 43] = true /\ ~ SpecFloatValue [49; 46; 53; 101; 43].
Proof.
  split; [vm_compute; reflexivity|]. split.
  - intros H. apply spec_float_has_exponent_digit in H. vm_compute in H. discriminate.
  - split; [vm_compute; reflexivity|].
    intros H. apply spec_float_has_exponent_digit in H. vm_compute in H. discriminate.
Qed.

(* outside the class of the defect the old code was right *)
Theorem float_old_iff_restricted s :
  num_empty_exponent_digits s = false -> (num_float_valid_syntax_old s = true <-> SpecFloatValue s).
Proof.
  intros Hc. rewrite <- float_syntax_iff.
  unfold num_float_valid_syntax_old, num_float_valid_syntax, num_empty_exponent_digits in *.
  destruct (num_split_once_p num_is_e s) as [[m ex]|]; [|tauto].
  rewrite Hc. cbn [orb]. tauto.
Qed.

(* ---------- From<f64>: the ".0" fix-up ---------- *)

Theorem float_fixup_shape t :
  RustFloatDisplayShape t -> SpecFloatValue (num_float_fixup t) /\ num_float_valid_syntax (num_float_fixup t) = true.
Proof.
  intros H. assert (Hs : SpecFloatValue (num_float_fixup t)).
  { unfold num_float_fixup. destruct H as [i Hi|i f Hi Hf].
    - rewrite (no_dot_int_chars _ (integer_part_chars _ Hi)).
      apply SFV_if; [exact Hi|]. apply SFP; [unfold SpecDigit; lia|constructor].
    - destruct Hf as [d ds Hd Hds]. rewrite mem_app. cbn [mem existsb]. rewrite N.eqb_refl, orb_true_r.
      apply SFV_if; [exact Hi|now apply SFP]. }
  split; [exact Hs|now apply float_complete].
Qed.

(* ---------- i32 -> decimal -> i32 ---------- *)

(* value of a digit string, most significant first *)
Definition dval (s : str) : Z := fold_left (fun a c => (a * 10 + Z.of_N (c - 48))%Z) s 0%Z.
Definition dval_from (a : Z) (s : str) : Z := fold_left (fun a c => (a * 10 + Z.of_N (c - 48))%Z) s a.

Lemma dval_snoc s d : dval (s ++ [d]) = (dval s * 10 + Z.of_N (d - 48))%Z.
Proof. unfold dval. now rewrite fold_left_app. Qed.

(* the digit loop: enough fuel never runs out, the result is the digits of n in front of acc *)
Lemma dec_loop_spec f : forall n acc,
  n < 2 ^ N.of_nat f ->
  exists ds, num_dec_loop (S f) n acc = Some (ds ++ acc) /\
             forallb is_digit ds = true /\ dval ds = Z.of_N n /\
             ((n = 0 /\ ds = [48]) \/ (n <> 0 /\ exists d r, ds = d :: r /\ 49 <= d /\ d <= 57)).
Proof.
  induction f as [|f IH]; intros n acc Hn.
  - assert (n = 0) by (cbn in Hn; lia). subst n. exists [48]. cbn [num_dec_loop].
    replace (0 / 10 =? 0) with true by reflexivity. repeat split; auto.
  - cbn [num_dec_loop]. set (d0 := 48 + n mod 10).
    assert (Hd0 : 48 <= d0 /\ d0 <= 57) by (unfold d0; pose proof (N.mod_lt n 10); lia).
    destruct (N.eqb_spec (n / 10) 0) as [Hq|Hq].
    + assert (Hlt : n < 10).
      { destruct (N.lt_ge_cases n 10) as [Hl|Hg]; [exact Hl|].
        assert (1 <= n / 10) by (apply N.div_le_lower_bound; lia). lia. }
      assert (Hm : n mod 10 = n) by now apply N.mod_small.
      exists [d0]. split; [reflexivity|]. split; [|split].
      * cbn [forallb]. unfold is_digit. lia.
      * unfold dval. cbn [fold_left]. subst d0. lia.
      * destruct (N.eq_dec n 0) as [->|Hnz]; [left; split; reflexivity|].
        right. split; [exact Hnz|]. exists d0, []. subst d0. split; [reflexivity|]. lia.
    + assert (Hq2 : n / 10 < 2 ^ N.of_nat f).
      { rewrite Nat2N.inj_succ, N.pow_succ_r' in Hn.
        assert (n / 10 <= n / 2) by (apply N.div_le_compat_l; lia).
        assert (n / 2 < 2 ^ N.of_nat f) by (apply N.div_lt_upper_bound; lia). lia. }
      destruct (IH (n / 10) (d0 :: acc) Hq2) as (ds & Hrun & Hdig & Hval & Hlead).
      exists (ds ++ [d0]). rewrite <- app_assoc. cbn [app]. split; [exact Hrun|]. split; [|split].
      * rewrite forallb_app, Hdig. cbn [forallb]. unfold is_digit. lia.
      * rewrite dval_snoc, Hval. subst d0. pose proof (N.div_mod n 10). lia.
      * right. split; [intros ->; apply Hq; reflexivity|].
        destruct Hlead as [[H0 _]|[_ (d & r & -> & Hd)]]; [contradiction|].
        exists d, (r ++ [d0]). auto.
Qed.

Lemma size_nat_bound n : n < 2 ^ N.of_nat (N.size_nat n).
Proof.
  destruct n as [|p]; [cbn; lia|]. cbn [N.size_nat].
  induction p as [p IH|p IH|]; cbn [Pos.size_nat].
  - rewrite Nat2N.inj_succ, N.pow_succ_r'. lia.
  - rewrite Nat2N.inj_succ, N.pow_succ_r'. lia.
  - cbn. lia.
Qed.

(* fuel never runs out *)
Lemma dec_N_spec n :
  exists ds, num_dec_N n = Some ds /\ forallb is_digit ds = true /\ dval ds = Z.of_N n /\
             ((n = 0 /\ ds = [48]) \/ (n <> 0 /\ exists d r, ds = d :: r /\ 49 <= d /\ d <= 57)).
Proof.
  unfold num_dec_N. destruct (dec_loop_spec (N.size_nat n) n [] (size_nat_bound n)) as (ds & H).
  rewrite app_nil_r in H. now exists ds.
Qed.

Theorem num_dec_total z : exists s, num_dec z = Some s.
Proof.
  destruct z as [|p|p]; cbn [num_dec].
  - destruct (dec_N_spec (Z.to_N 0)) as (ds & -> & _). now exists ds.
  - destruct (dec_N_spec (Z.to_N (Z.pos p))) as (ds & -> & _). now exists ds.
  - destruct (dec_N_spec (N.pos p)) as (ds & -> & _). now exists (c_minus :: ds).
Qed.

Lemma dec_digits_int_chars ds n :
  forallb is_digit ds = true ->
  ((n = 0 /\ ds = [48]) \/ (n <> 0 /\ exists d r, ds = d :: r /\ 49 <= d /\ d <= 57)) ->
  int_chars ds = true.
Proof.
  intros Hdig [[_ ->]|[_ (d & r & -> & Hd)]]; [reflexivity|].
  apply int_chars_nonzero; [unfold SpecNonZeroDigit; lia|].
  cbn [forallb] in Hdig. apply andb_true_iff in Hdig as [_ Hr]. now apply forallb_digit_spec.
Qed.

(* the printed text is a valid IntValue *)
Theorem dec_valid_int z s : num_dec z = Some s -> num_int_valid_syntax s = true.
Proof.
  rewrite int_valid_chars. unfold num_strip_minus, strip_prefix.
  destruct z as [|p|p]; cbn [num_dec].
  - destruct (dec_N_spec (Z.to_N 0)) as (ds & -> & Hdig & _ & Hlead). intros [= <-].
    pose proof (dec_digits_int_chars _ _ Hdig Hlead) as Hc.
    destruct ds as [|c r]; [discriminate|].
    destruct (N.eqb_spec c c_minus) as [->|_]; [|exact Hc].
    cbn [forallb] in Hdig. unfold is_digit, c_minus in Hdig. lia.
  - destruct (dec_N_spec (Z.to_N (Z.pos p))) as (ds & -> & Hdig & _ & Hlead). intros [= <-].
    pose proof (dec_digits_int_chars _ _ Hdig Hlead) as Hc.
    destruct ds as [|c r]; [discriminate|].
    destruct (N.eqb_spec c c_minus) as [->|_]; [|exact Hc].
    cbn [forallb] in Hdig. unfold is_digit, c_minus in Hdig. lia.
  - destruct (dec_N_spec (N.pos p)) as (ds & -> & Hdig & _ & Hlead). intros [= <-].
    rewrite N.eqb_refl. exact (dec_digits_int_chars _ _ Hdig Hlead).
Qed.

(* i32::from_str on digit strings: no overflow as long as the final value is in range *)
Lemma dval_from_cons a c r : dval_from a (c :: r) = dval_from (a * 10 + Z.of_N (c - 48)) r.
Proof. reflexivity. Qed.

Lemma dval_from_mono s : forall a, (0 <= a)%Z -> (a <= dval_from a s)%Z.
Proof.
  induction s as [|c r IH]; intros a Ha; [cbn; lia|]. rewrite dval_from_cons.
  specialize (IH (a * 10 + Z.of_N (c - 48))%Z). lia.
Qed.

Lemma parse_digits_pos s : forall a,
  forallb is_digit s = true -> (0 <= a)%Z -> (dval_from a s <= num_i32_max)%Z ->
  num_parse_digits false s a = Some (dval_from a s).
Proof.
  induction s as [|c r IH]; intros a Hdig Ha Hmax; [reflexivity|].
  rewrite dval_from_cons in *. cbn [num_parse_digits].
  cbn [forallb] in Hdig. apply andb_true_iff in Hdig as [Hc Hr]. rewrite Hc. cbn [negb].
  pose proof (dval_from_mono r (a * 10 + Z.of_N (c - 48))%Z) as Hm.
  assert (E1 : num_in_i32 (a * 10) = true) by (unfold num_in_i32, num_i32_min, num_i32_max in *; lia).
  assert (E2 : num_in_i32 (a * 10 + Z.of_N (c - 48)) = true)
    by (unfold num_in_i32, num_i32_min, num_i32_max in *; lia).
  rewrite E1, E2. cbn [negb]. apply IH; [exact Hr|lia|exact Hmax].
Qed.

Definition dval_neg_from (a : Z) (s : str) : Z := fold_left (fun a c => (a * 10 - Z.of_N (c - 48))%Z) s a.

Lemma dval_neg_from_cons a c r : dval_neg_from a (c :: r) = dval_neg_from (a * 10 - Z.of_N (c - 48)) r.
Proof. reflexivity. Qed.

Lemma dval_neg_from_opp s : forall a, dval_neg_from (- a) s = (- dval_from a s)%Z.
Proof.
  induction s as [|c r IH]; intros a; [reflexivity|].
  rewrite dval_neg_from_cons, dval_from_cons, <- IH. f_equal. lia.
Qed.

Lemma parse_digits_neg s : forall a,
  forallb is_digit s = true -> (a <= 0)%Z -> (num_i32_min <= dval_neg_from a s)%Z ->
  num_parse_digits true s a = Some (dval_neg_from a s).
Proof.
  induction s as [|c r IH]; intros a Hdig Ha Hmin; [reflexivity|].
  rewrite dval_neg_from_cons in *. cbn [num_parse_digits].
  cbn [forallb] in Hdig. apply andb_true_iff in Hdig as [Hc Hr]. rewrite Hc. cbn [negb].
  pose proof (dval_from_mono r (- (a * 10 - Z.of_N (c - 48)))%Z) as Hm.
  pose proof (dval_neg_from_opp r (- (a * 10 - Z.of_N (c - 48)))%Z) as Ho.
  rewrite Z.opp_involutive in Ho.
  assert (E1 : num_in_i32 (a * 10) = true) by (unfold num_in_i32, num_i32_min, num_i32_max in *; lia).
  assert (E2 : num_in_i32 (a * 10 - Z.of_N (c - 48)) = true)
    by (unfold num_in_i32, num_i32_min, num_i32_max in *; lia).
  rewrite E1, E2. cbn [negb]. apply IH; [exact Hr|lia|exact Hmin].
Qed.

(* C10_i32: for every i32, the text of IntValue::from is a valid IntValue and try_to_i32 gives the number back *)
Theorem i32_roundtrip z :
  (num_i32_min <= z <= num_i32_max)%Z ->
  exists s, num_int_from_i32 z = Some s /\ num_int_valid_syntax s = true /\ num_parse_i32 s = Some z.
Proof.
  intros Hr. destruct (num_dec_total z) as (s & Hs). exists s. unfold num_int_from_i32.
  split; [exact Hs|]. split; [exact (dec_valid_int _ _ Hs)|].
  unfold num_i32_min, num_i32_max in Hr.
  assert (Hpos : forall n ds, (Z.of_N n <= 2147483647)%Z -> forallb is_digit ds = true -> dval ds = Z.of_N n ->
            ds <> [] -> num_parse_i32 ds = Some (Z.of_N n)).
  { intros n ds Hn Hdig Hval Hne. destruct ds as [|c r]; [congruence|]. unfold num_parse_i32.
    assert (Hc : is_digit c = true) by (cbn [forallb] in Hdig; now apply andb_true_iff in Hdig as [? _]).
    replace (c =? c_minus) with false by (unfold is_digit, c_minus in *; lia).
    replace (c =? c_plus) with false by (unfold is_digit, c_plus in *; lia).
    rewrite parse_digits_pos; unfold dval in Hval; unfold dval_from, num_i32_max; try rewrite Hval; auto; lia. }
  destruct z as [|p|p]; cbn [num_dec] in Hs.
  - destruct (dec_N_spec (Z.to_N 0)) as (ds & E & Hdig & Hval & Hlead). rewrite E in Hs. injection Hs as <-.
    apply (Hpos 0%N); auto; [cbn; lia|].
    destruct Hlead as [[_ ->]|[_ (d & r & -> & _)]]; discriminate.
  - destruct (dec_N_spec (Z.to_N (Z.pos p))) as (ds & E & Hdig & Hval & Hlead). rewrite E in Hs. injection Hs as <-.
    replace (Z.pos p) with (Z.of_N (Z.to_N (Z.pos p))) by (cbn; reflexivity).
    apply Hpos; auto; [cbn; lia|].
    destruct Hlead as [[_ ->]|[_ (d & r & -> & _)]]; discriminate.
  - destruct (dec_N_spec (N.pos p)) as (ds & E & Hdig & Hval & Hlead). rewrite E in Hs. injection Hs as <-.
    unfold num_parse_i32. rewrite N.eqb_refl.
    assert (Hne : ds <> []) by (destruct Hlead as [[_ ->]|[_ (d & r & -> & _)]]; discriminate).
    destruct ds as [|c r] eqn:Eds; [congruence|]. rewrite <- Eds in *.
    pose proof (dval_neg_from_opp ds 0%Z) as Ho. cbn [Z.opp] in Ho.
    unfold dval in Hval. fold (dval_from 0 ds) in Hval.
    rewrite parse_digits_neg; try (rewrite Ho, Hval); auto; unfold num_i32_min; cbn; lia.
Qed.
