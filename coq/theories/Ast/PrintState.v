(* C08 — the serializer's `State` (crates/apollo-compiler/src/ast/serialize.rs, `struct State` and
   `impl State`) as a writer/state monad.

   A serializer function of the code has type `fn(&self, &mut State) -> fmt::Result`.  Its model has type
   [ap_m] : it receives the mutable part of `State` (config.indent_prefix, indent_level, output_empty) and
   returns either the text it appended to `output` together with the new state, or a panic.
   `fmt::Error` cannot happen when writing to a `String` and is not modelled.

   Panics of the code are explicit outcomes:
     1  `self.indent_level -= 1` at level 0 (checked underflow in debug builds)
     2  `require_new_line called with newlines disabled` (`expect`)                              *)
From ApolloVerif Require Import Base.Chars.
From Coq Require Import String Ascii.

Inductive ap_outcome (A : Type) := ApOk (a : A) | ApPanic (why : N).
Arguments ApOk {A} a.
Arguments ApPanic {A} why.

Definition ap_panic_dedent_underflow : N := 1.
Definition ap_panic_require_new_line : N := 2.

(* string constants are written as Coq string literals and evaluated to character lists at definition
   time (so the extraction contains plain lists) *)
Definition ap_lit (s : string) : str := List.map N_of_ascii (list_ascii_of_string s).

Record ap_state := {
  ap_prefix : option str;   (* config.indent_prefix; None = newlines disabled *)
  ap_level : N;             (* indent_level *)
  ap_empty : bool           (* output_empty *)
}.

Definition ap_m := ap_state -> ap_outcome (str * ap_state).

(* State::write: sets output_empty = false (even for an empty string) *)
Definition ap_write (s : str) : ap_m := fun st =>
  ApOk (s, {| ap_prefix := ap_prefix st; ap_level := ap_level st; ap_empty := false |}).

(* the display! macro: writes to the formatter directly, output_empty is left alone *)
Definition ap_display (s : str) : ap_m := fun st => ApOk (s, st).

Definition ap_skip : ap_m := fun st => ApOk ([], st).

Definition ap_seq (f g : ap_m) : ap_m := fun st =>
  match f st with
  | ApPanic w => ApPanic w
  | ApOk (a, st1) =>
      match g st1 with
      | ApPanic w => ApPanic w
      | ApOk (b, st2) => ApOk (a ++ b, st2)
      end
  end.

Notation "f ;; g" := (ap_seq f g) (at level 61, right associativity).

Fixpoint ap_repeat (n : nat) (f : ap_m) : ap_m :=
  match n with O => ap_skip | S k => f ;; ap_repeat k f end.

Fixpoint ap_all (l : list ap_m) : ap_m :=
  match l with [] => ap_skip | f :: r => f ;; ap_all r end.

Definition ap_set_level (n : N) : ap_m := fun st =>
  ApOk ([], {| ap_prefix := ap_prefix st; ap_level := n; ap_empty := ap_empty st |}).

Definition ap_set_prefix (p : option str) : ap_m := fun st =>
  ApOk ([], {| ap_prefix := p; ap_level := ap_level st; ap_empty := ap_empty st |}).

Definition ap_newlines_enabled (st : ap_state) : bool :=
  match ap_prefix st with Some _ => true | None => false end.

(* `if state.newlines_enabled() { f }` *)
Definition ap_if_newlines (f : ap_m) : ap_m := fun st =>
  if ap_newlines_enabled st then f st else ap_skip st.

(* fn new_line_common(&mut self, space: bool) *)
Definition ap_new_line_common (space : bool) : ap_m := fun st =>
  match ap_prefix st with
  | Some p => (ap_write [c_lf] ;; ap_repeat (N.to_nat (ap_level st)) (ap_write p)) st
  | None => if space then ap_write [c_space] st else ap_skip st
  end.

Definition ap_level_up : ap_m := fun st => ap_set_level (ap_level st + 1) st.
Definition ap_level_down : ap_m := fun st =>
  if ap_level st =? 0 then ApPanic ap_panic_dedent_underflow
  else ap_set_level (ap_level st - 1) st.

Definition ap_indent : ap_m := ap_level_up ;; ap_new_line_common false.
Definition ap_indent_or_space : ap_m := ap_level_up ;; ap_new_line_common true.
Definition ap_dedent : ap_m := ap_level_down ;; ap_new_line_common false.
Definition ap_dedent_or_space : ap_m := ap_level_down ;; ap_new_line_common true.
Definition ap_new_line_or_space : ap_m := ap_new_line_common true.

(* fn require_new_line(&mut self): panics if newlines are disabled *)
Definition ap_require_new_line : ap_m := fun st =>
  match ap_prefix st with
  | None => ApPanic ap_panic_require_new_line
  | Some p => (ap_write [c_lf] ;; ap_repeat (N.to_nat (ap_level st)) (ap_write p)) st
  end.

(* fn on_single_line(&mut self, f): take() the prefix, run f, put it back *)
Definition ap_on_single_line (f : ap_m) : ap_m := fun st =>
  (ap_set_prefix None ;; f ;; ap_set_prefix (ap_prefix st)) st.
