(* C08 — bridging facts for the composition with the lexer (C03):
   for a well-formed AST (pwfd: names valid, numbers in literal syntax) and a whitespace indent prefix,
   every token of the serializer's output is lexically well-formed (ptok_wf) and every separator text
   consists of ignored characters only (space, tab, line feed, comma). *)
From ApolloVerif Require Import Base.Chars Ast.Ast Ast.PrintState Ast.PrintString Ast.Print
  Ast.PrintTokens Ast.PrintAdjacent.

Definition ap_is_ws (c : N) : bool := (c =? c_space) || (c =? c_tab).
Definition ap_is_ignored (c : N) : bool :=
  (c =? c_space) || (c =? c_tab) || (c =? c_lf) || (c =? c_cr) || (c =? c_comma) || (c =? c_bom).

(* the indent prefix of a configuration is spaces and tabs only *)
Definition ws_prefix (p : option str) : bool :=
  match p with Some pr => forallb ap_is_ws pr | None => true end.

Definition pi_item_ok (i : pitem) : bool :=
  match i with PiSep s => forallb ap_is_ignored s | PiTok t => ptok_wf t end.
Definition pi_good (l : list pitem) : bool := forallb pi_item_ok l.

Lemma good_app a b : pi_good (a ++ b) = pi_good a && pi_good b.
Proof. apply forallb_app. Qed.

Lemma good_flat_map {A} (f : A -> list pitem) xs :
  (forall x, In x xs -> pi_good (f x) = true) -> pi_good (flat_map f xs) = true.
Proof.
  induction xs as [|x xs IH]; intros H; [reflexivity|]. cbn [flat_map]. rewrite good_app.
  rewrite (H x (or_introl eq_refl)), IH; [reflexivity|]. intros y Hy. apply H. now right.
Qed.

Lemma ws_ignored c : ap_is_ws c = true -> ap_is_ignored c = true.
Proof. unfold ap_is_ws, ap_is_ignored. intros H. apply orb_true_iff in H as [->| ->]; now rewrite ?orb_true_r. Qed.

Lemma indent_ignored pr l : forallb ap_is_ws pr = true -> forallb ap_is_ignored (pi_indent_str pr l) = true.
Proof.
  intros H. unfold pi_indent_str. induction (N.to_nat l) as [|n IH]; [reflexivity|].
  cbn [repeat concat]. rewrite forallb_app, IH, andb_true_r.
  apply forallb_forall. intros c Hc. apply ws_ignored. rewrite forallb_forall in H. now apply H.
Qed.

Lemma good_nl p l sp : ws_prefix p = true -> pi_good (pi_nl p l sp) = true.
Proof.
  intros H. destruct p as [pr|]; cbn [pi_nl].
  - cbn [pi_good forallb pi_item_ok app]. now rewrite (indent_ignored pr l H).
  - destruct sp; reflexivity.
Qed.

Lemma good_if_newlines_sep p s : forallb ap_is_ignored s = true -> pi_good (pi_if_newlines p [PiSep s]) = true.
Proof. intros H. destruct p; [|reflexivity]. cbn. now rewrite H. Qed.

Create HintDb good.
#[export] Hint Resolve good_nl : good.

Ltac good_leaf := first [ reflexivity | assumption | solve [auto with good] ].
Ltac and_split := repeat match goal with |- _ && _ = true => apply andb_true_iff; split end.
Ltac good_go :=
  cbv beta;
  rewrite ?good_app;
  cbn [pi_good forallb pi_item_ok ptok_wf pi_n pi_p pi_s];
  and_split; good_leaf.
Ltac wf_split :=
  repeat match goal with
         | H : _ && _ = true |- _ => apply andb_true_iff in H as [? ?]
         end.

Lemma good_comma o c (items : list pi_layout) p l :
  ws_prefix p = true ->
  (forall it, In it items -> forall l, pi_good (it p l) = true) ->
  pi_good (pi_comma o c items p l) = true.
Proof.
  intros Hp Hit. unfold pi_comma. destruct items as [|first rest].
  - reflexivity.
  - rewrite !good_app. and_split; try reflexivity.
    + now apply good_nl.
    + apply Hit. now left.
    + apply good_flat_map. intros it Hin. rewrite !good_app.
      and_split; try reflexivity; [now apply good_nl|].
      apply Hit. now right.
    + now apply good_if_newlines_sep.
    + now apply good_nl.
Qed.

Lemma good_curly (items : list pi_layout) p l :
  ws_prefix p = true ->
  (forall it, In it items -> forall l, pi_good (it p l) = true) ->
  pi_good (pi_curly items p l) = true.
Proof.
  intros Hp Hit. unfold pi_curly. destruct items as [|first rest].
  - reflexivity.
  - rewrite !good_app. and_split; try reflexivity.
    + now apply good_nl.
    + apply Hit. now left.
    + apply good_flat_map. intros it Hin. rewrite !good_app.
      apply andb_true_iff; split; [now apply good_nl|]. apply Hit. now right.
    + now apply good_nl.
Qed.

Lemma in_map_good {A} (G : A -> pi_layout) p xs :
  (forall x, In x xs -> forall l, pi_good (G x p l) = true) ->
  forall it, In it (map G xs) -> forall l, pi_good (it p l) = true.
Proof. intros H it Hin. apply in_map_iff in Hin as [x [<- Hx]]. now apply H. Qed.

Lemma good_type t : pwf_ty t = true -> pi_good (pi_type t) = true.
Proof.
  induction t as [n|n|t IH|t IH]; cbn [pwf_ty pi_type]; intros H.
  - good_go.
  - good_go.
  - rewrite !good_app, IH by exact H. reflexivity.
  - rewrite !good_app, IH by exact H. reflexivity.
Qed.
#[export] Hint Resolve good_type : good.

Lemma good_string isd s p l : pi_good (pi_string isd s p l) = true.
Proof. reflexivity. Qed.

Lemma good_description d p l : ws_prefix p = true -> pi_good (pi_description d p l) = true.
Proof.
  intros Hp. unfold pi_description. destruct d as [s|]; [|reflexivity].
  rewrite good_app, good_nl by exact Hp. reflexivity.
Qed.
#[export] Hint Resolve good_string good_description : good.

Lemma good_value v : pwf_value v = true -> forall p l, ws_prefix p = true -> pi_good (pi_value v p l) = true.
Proof.
  induction v as [| n | n | s | s | s | b | vs IH | fs IH] using value_ind2;
    cbn [pwf_value pi_value]; intros H p l Hp; try solve [good_go].
  - destruct b; reflexivity.
  - apply good_comma; [exact Hp|]. apply in_map_good. intros x Hx l'.
    rewrite Forall_forall in IH. apply IH; [exact Hx| |exact Hp].
    rewrite forallb_forall in H. now apply H.
  - apply good_comma; [exact Hp|]. apply in_map_good. intros x Hx l'.
    rewrite forallb_forall in H. specialize (H x Hx). wf_split.
    rewrite Forall_forall in IH. specialize (IH x Hx ltac:(assumption) p l' Hp).
    good_go.
Qed.

Lemma good_argument a p l : pwf_argument a = true -> ws_prefix p = true -> pi_good (pi_argument a p l) = true.
Proof.
  unfold pwf_argument, pi_argument. intros H Hp. wf_split.
  pose proof (good_value (snd a) ltac:(assumption) p l Hp). good_go.
Qed.

Lemma good_arguments args p l :
  forallb pwf_argument args = true -> pi_good (pi_arguments args p l) = true.
Proof.
  intros H. unfold pi_arguments. destruct args as [|a args]; [reflexivity|].
  apply good_comma; [reflexivity|]. apply in_map_good. intros x Hx l'.
  apply good_argument; [|reflexivity]. rewrite forallb_forall in H. now apply H.
Qed.

Lemma good_directive d p l : pwf_directive d = true -> pi_good (pi_directive d p l) = true.
Proof.
  unfold pwf_directive, pi_directive. intros H. wf_split.
  pose proof (good_arguments (d_args d) p l ltac:(assumption)). good_go.
Qed.

Lemma good_directives ds p l : pwf_directives ds = true -> pi_good (pi_directives ds p l) = true.
Proof.
  unfold pwf_directives, pi_directives. intros H. apply good_flat_map. intros d Hd.
  rewrite forallb_forall in H. pose proof (good_directive d p l (H d Hd)). good_go.
Qed.
#[export] Hint Resolve good_directives good_arguments : good.

Lemma good_default (dv : option value) p l :
  pwf_opt_value dv = true -> ws_prefix p = true ->
  pi_good (match dv with Some d => [pi_s; pi_p PEq; pi_s] ++ pi_value d p l | None => [] end) = true.
Proof.
  intros H Hp. destruct dv as [d|]; [|reflexivity].
  pose proof (good_value d H p l Hp). good_go.
Qed.
#[export] Hint Resolve good_default : good.

Lemma good_vardef v p l : pwf_vardef v = true -> ws_prefix p = true -> pi_good (pi_vardef v p l) = true.
Proof. unfold pwf_vardef, pi_vardef. intros H Hp. wf_split. good_go. Qed.

Lemma good_selection s : pwf_selection s = true -> forall p l, ws_prefix p = true -> pi_good (pi_selection s p l) = true.
Proof.
  induction s as [a n args dirs sels IH | n dirs | c dirs sels IH] using selection_ind2;
    cbn [pwf_selection pi_selection]; intros H p l Hp; wf_split.
  - assert (Hc : pi_good (pi_curly (map pi_selection sels) p l) = true).
    { apply good_curly; [exact Hp|]. apply in_map_good. intros x Hx l'.
      rewrite Forall_forall in IH. apply IH; [exact Hx| |exact Hp].
      match goal with Hs : forallb pwf_selection sels = true |- _ => rewrite forallb_forall in Hs; now apply Hs end. }
    destruct a as [a|]; destruct sels; cbn [pwf_opt_name] in *; good_go.
  - good_go.
  - assert (Hc : pi_good (pi_curly (map pi_selection sels) p l) = true).
    { apply good_curly; [exact Hp|]. apply in_map_good. intros x Hx l'.
      rewrite Forall_forall in IH. apply IH; [exact Hx| |exact Hp].
      match goal with Hs : forallb pwf_selection sels = true |- _ => rewrite forallb_forall in Hs; now apply Hs end. }
    destruct c as [c|]; cbn [pwf_opt_name] in *; good_go.
Qed.

Lemma good_selset sels p l :
  forallb pwf_selection sels = true -> ws_prefix p = true ->
  pi_good (pi_curly (map pi_selection sels) p l) = true.
Proof.
  intros H Hp. apply good_curly; [exact Hp|]. apply in_map_good. intros x Hx l'.
  apply good_selection; [|exact Hp]. rewrite forallb_forall in H. now apply H.
Qed.
#[export] Hint Resolve good_selset : good.

Lemma good_optype_name op : is_valid_name (ap_optype_name op) = true.
Proof. destruct op; reflexivity. Qed.
Lemma good_dirloc_name x : is_valid_name (ap_dirloc_name x) = true.
Proof. destruct x; reflexivity. Qed.
#[export] Hint Resolve good_optype_name good_dirloc_name : good.

Lemma good_single_comma {A} (G : A -> pi_layout) (wf : A -> bool) o c xs l :
  (forall x, wf x = true -> forall l, pi_good (G x None l) = true) ->
  forallb wf xs = true ->
  pi_good (pi_comma o c (map G xs) None l) = true.
Proof.
  intros HG H. apply good_comma; [reflexivity|]. apply in_map_good. intros x Hx l'.
  apply HG. rewrite forallb_forall in H. now apply H.
Qed.

Lemma good_operation e op name vars dirs sels p l :
  pwf_definition (DOperation op name vars dirs sels) = true -> ws_prefix p = true ->
  pi_good (pi_operation e op name vars dirs sels p l) = true.
Proof.
  cbn [pwf_definition]. intros H Hp. wf_split. unfold pi_operation.
  assert (Hv : pi_good (pi_comma PLParen PRParen (map pi_vardef vars) None l) = true).
  { apply (good_single_comma pi_vardef pwf_vardef); [|assumption].
    intros x Hx l'. now apply good_vardef. }
  destruct (negb (pi_shorthand e op name vars dirs)); destruct name; destruct vars;
    cbn [pwf_opt_name] in *; good_go.
Qed.

Lemma good_inputvaldef v p l :
  pwf_inputvaldef v = true -> ws_prefix p = true -> pi_good (pi_inputvaldef v p l) = true.
Proof. unfold pwf_inputvaldef, pi_inputvaldef. intros H Hp. wf_split. good_go. Qed.

Lemma good_arguments_definition args p l :
  forallb pwf_inputvaldef args = true -> ws_prefix p = true ->
  pi_good (pi_arguments_definition args p l) = true.
Proof.
  intros H Hp. unfold pi_arguments_definition. destruct args as [|a args]; [reflexivity|].
  apply good_comma.
  - destruct (pi_args_multiline (a :: args)); [exact Hp|reflexivity].
  - apply in_map_good. intros x Hx l'. apply good_inputvaldef.
    + rewrite forallb_forall in H. now apply H.
    + destruct (pi_args_multiline (a :: args)); [exact Hp|reflexivity].
Qed.
#[export] Hint Resolve good_arguments_definition : good.

Lemma good_fielddef f p l : pwf_fielddef f = true -> ws_prefix p = true -> pi_good (pi_fielddef f p l) = true.
Proof. unfold pwf_fielddef, pi_fielddef. intros H Hp. wf_split. good_go. Qed.

Lemma good_enumvaldef e p l : pwf_enumvaldef e = true -> ws_prefix p = true -> pi_good (pi_enumvaldef e p l) = true.
Proof. unfold pwf_enumvaldef, pi_enumvaldef. intros H Hp. wf_split. good_go. Qed.

Lemma good_rootop r p l : pwf_rootop r = true -> pi_good (pi_rootop r p l) = true.
Proof. unfold pwf_rootop, pi_rootop. intros H. destruct (fst r); good_go. Qed.

Lemma good_curly_map {A} (G : A -> pi_layout) (wf : A -> bool) xs p l :
  (forall x, wf x = true -> forall l, pi_good (G x p l) = true) ->
  forallb wf xs = true -> ws_prefix p = true ->
  pi_good (pi_curly (map G xs) p l) = true.
Proof.
  intros HG H Hp. apply good_curly; [exact Hp|]. apply in_map_good. intros x Hx l'.
  apply HG. rewrite forallb_forall in H. now apply H.
Qed.

Lemma good_name_list lead sep names :
  pi_good lead = true -> forallb is_valid_name names = true ->
  pi_good (pi_name_list lead sep names) = true.
Proof.
  intros Hl H. unfold pi_name_list. destruct names as [|first rest]; [reflexivity|].
  cbn [forallb] in H. wf_split. rewrite !good_app. and_split.
  - exact Hl.
  - good_go.
  - apply good_flat_map. intros n Hn.
    match goal with Hr : forallb is_valid_name rest = true |- _ =>
      rewrite forallb_forall in Hr; pose proof (Hr n Hn) end.
    good_go.
Qed.

Lemma good_object_type_like name impls dirs fields p l :
  is_valid_name name = true -> forallb is_valid_name impls = true -> pwf_directives dirs = true ->
  forallb pwf_fielddef fields = true -> ws_prefix p = true ->
  pi_good (pi_object_type_like name impls dirs fields p l) = true.
Proof.
  intros Hn Hi Hd Hf Hp. unfold pi_object_type_like.
  pose proof (good_name_list [pi_s; pi_n apk_implements; pi_s] PAmp impls eq_refl Hi).
  pose proof (good_curly_map pi_fielddef pwf_fielddef fields p l
                (fun x Hx l' => good_fielddef x p l' Hx Hp) Hf Hp).
  destruct fields; good_go.
Qed.

Lemma good_union name dirs members p l :
  is_valid_name name = true -> pwf_directives dirs = true -> forallb is_valid_name members = true ->
  pi_good (pi_union name dirs members p l) = true.
Proof.
  intros Hn Hd Hm. unfold pi_union.
  pose proof (good_name_list [pi_s; pi_p PEq; pi_s] PPipe members eq_refl Hm). good_go.
Qed.

Lemma good_name_dirs_body {A} (G : A -> pi_layout) (wf : A -> bool) name dirs xs p l :
  (forall x, wf x = true -> forall l, pi_good (G x p l) = true) ->
  is_valid_name name = true -> pwf_directives dirs = true -> forallb wf xs = true ->
  ws_prefix p = true ->
  pi_good (pi_name_dirs_body name dirs (map G xs) p l) = true.
Proof.
  intros HG Hn Hd Hx Hp. unfold pi_name_dirs_body.
  pose proof (good_curly_map G wf xs p l HG Hx Hp).
  destruct xs; cbn [map] in *; good_go.
Qed.

Lemma good_definition e d p l :
  pwf_definition d = true -> ws_prefix p = true -> pi_good (pi_definition e d p l) = true.
Proof.
  intros H Hp. destruct d; cbn [pi_definition].
  - now apply good_operation.
  - cbn [pwf_definition] in H. wf_split. unfold pi_fragment. good_go.
  - cbn [pwf_definition] in H. wf_split. unfold pi_directive_definition.
    assert (Hl : pi_good (pi_name_list [pi_s; pi_n apk_on; pi_s] PPipe (map ap_dirloc_name locs)) = true).
    { apply good_name_list; [reflexivity|]. apply forallb_forall. intros x Hx.
      apply in_map_iff in Hx as [y [<- _]]. apply good_dirloc_name. }
    destruct repeatable; good_go.
  - cbn [pwf_definition] in H. wf_split. unfold pi_schema_definition.
    pose proof (good_curly_map pi_rootop pwf_rootop roots p l
                  (fun x Hx l' => good_rootop x p l' Hx) ltac:(assumption) Hp).
    good_go.
  - cbn [pwf_definition] in H. wf_split. good_go.
  - cbn [pwf_definition] in H. wf_split.
    pose proof (good_object_type_like name impls dirs fields p l) as Ho. repeat (specialize (Ho ltac:(assumption))). good_go.
  - cbn [pwf_definition] in H. wf_split.
    pose proof (good_object_type_like name impls dirs fields p l) as Ho. repeat (specialize (Ho ltac:(assumption))). good_go.
  - cbn [pwf_definition] in H. wf_split.
    pose proof (good_union name dirs members p l) as Ho. repeat (specialize (Ho ltac:(assumption))). good_go.
  - cbn [pwf_definition] in H. wf_split.
    pose proof (good_name_dirs_body pi_enumvaldef pwf_enumvaldef name dirs values p l
                  (fun x Hx l' => good_enumvaldef x p l' Hx Hp)) as Ho.
    repeat (specialize (Ho ltac:(assumption))). good_go.
  - cbn [pwf_definition] in H. wf_split.
    pose proof (good_name_dirs_body pi_inputvaldef pwf_inputvaldef name dirs fields p l
                  (fun x Hx l' => good_inputvaldef x p l' Hx Hp)) as Ho.
    repeat (specialize (Ho ltac:(assumption))). good_go.
  - cbn [pwf_definition] in H. wf_split.
    pose proof (good_curly_map pi_rootop pwf_rootop roots p l
                  (fun x Hx l' => good_rootop x p l' Hx) ltac:(assumption) Hp).
    destruct roots; good_go.
  - cbn [pwf_definition] in H. wf_split. good_go.
  - cbn [pwf_definition] in H. wf_split.
    pose proof (good_object_type_like name impls dirs fields p l) as Ho. repeat (specialize (Ho ltac:(assumption))). good_go.
  - cbn [pwf_definition] in H. wf_split.
    pose proof (good_object_type_like name impls dirs fields p l) as Ho. repeat (specialize (Ho ltac:(assumption))). good_go.
  - cbn [pwf_definition] in H. wf_split.
    pose proof (good_union name dirs members p l) as Ho. repeat (specialize (Ho ltac:(assumption))). good_go.
  - cbn [pwf_definition] in H. wf_split.
    pose proof (good_name_dirs_body pi_enumvaldef pwf_enumvaldef name dirs values p l
                  (fun x Hx l' => good_enumvaldef x p l' Hx Hp)) as Ho.
    repeat (specialize (Ho ltac:(assumption))). good_go.
  - cbn [pwf_definition] in H. wf_split.
    pose proof (good_name_dirs_body pi_inputvaldef pwf_inputvaldef name dirs fields p l
                  (fun x Hx l' => good_inputvaldef x p l' Hx Hp)) as Ho.
    repeat (specialize (Ho ltac:(assumption))). good_go.
Qed.

Lemma good_document cfg d :
  pwfd d = true -> ws_prefix (pc_prefix cfg) = true -> pi_good (pi_document cfg d) = true.
Proof.
  intros H Hp. unfold pi_document. rewrite !good_app.
  and_split; try reflexivity.
  - destruct (pc_prefix cfg) as [pr|]; [|reflexivity]. cbn [pi_good forallb pi_item_ok].
    now rewrite (indent_ignored pr (pc_level cfg) Hp).
  - unfold pi_top_level. destruct d as [|first rest]; [reflexivity|].
    unfold pwfd in H. cbn [forallb] in H. wf_split. rewrite !good_app.
    and_split.
    + now apply good_definition.
    + apply good_flat_map. intros x Hx. rewrite !good_app.
      and_split.
      * now apply good_if_newlines_sep.
      * now apply good_nl.
      * apply good_definition; [|exact Hp].
        match goal with Hr : forallb pwf_definition rest = true |- _ =>
          rewrite forallb_forall in Hr; now apply Hr end.
    + now apply good_if_newlines_sep.
Qed.

(* from items to attached tokens *)
Definition ptoken_ok (t : ptoken) : bool := forallb ap_is_ignored (pt_sep t) && ptok_wf (pt_tok t).

Lemma attach_good l : forall pend,
  forallb ap_is_ignored pend = true -> pi_good l = true ->
  forallb ptoken_ok (pi_attach pend l) = true.
Proof.
  induction l as [|[s|t] r IH]; intros pend Hpend H; cbn [pi_attach]; [reflexivity| |].
  - cbn [pi_good forallb pi_item_ok] in H. apply andb_true_iff in H as [Hs Hr].
    apply IH; [|exact Hr]. now rewrite forallb_app, Hpend, Hs.
  - cbn [pi_good forallb pi_item_ok] in H. apply andb_true_iff in H as [Ht Hr].
    cbn [forallb]. unfold ptoken_ok at 1. cbn [pt_sep pt_tok]. rewrite Hpend, Ht. cbn [andb].
    now apply IH.
Qed.

Theorem tokens_wf cfg d :
  pwfd d = true -> ws_prefix (pc_prefix cfg) = true ->
  forallb ptoken_ok (ptokens cfg d) = true.
Proof. intros H Hp. unfold ptokens. apply attach_good; [reflexivity|]. now apply good_document. Qed.
