(* C08 — string values and descriptions as the serializer prints them
   (serialize.rs: serialize_string_value, serialize_block_string, can_be_block_string,
   serialize_description).  A private copy for the printer; property C09 has its own model and proofs
   about these functions (the value survives the round trip).

   Granularity: where the code issues several consecutive `state.write` calls after a first one in the
   same function (the quoted-string loop, serialize_line), the model issues one write per character or
   per line; the text is the same and `output_empty` is already false. *)
From ApolloVerif Require Import Base.Chars Ast.PrintState.

(* str::split('\n'): always at least one piece *)
Fixpoint aps_split_lines (s : str) : list str :=
  match s with
  | [] => [[]]
  | c :: r =>
      if c =? c_lf then [] :: aps_split_lines r
      else match aps_split_lines r with
           | [] => [[c]]
           | l :: ls => (c :: l) :: ls
           end
  end.

(* trim_start_matches([' ', '\t']) *)
Fixpoint aps_trim_start (s : str) : str :=
  match s with
  | c :: r => if (c =? c_space) || (c =? c_tab) then aps_trim_start r else s
  | [] => []
  end.

Definition aps_is_empty (s : str) : bool := match s with [] => true | _ => false end.

Definition aps_blank_line (l : str) : bool := aps_is_empty (aps_trim_start l).

Fixpoint aps_last (l : list str) : option str :=
  match l with [] => None | [x] => Some x | _ :: r => aps_last r end.

Fixpoint aps_min_list (l : list N) : option N :=
  match l with
  | [] => None
  | x :: r => match aps_min_list r with None => Some x | Some m => Some (N.min x m) end
  end.

(* the filter_map of can_be_block_string: indent (in UTF-8 bytes) of every line that is not
   whitespace-only *)
Definition aps_line_indents (lines : list str) : list N :=
  flat_map (fun line =>
    let after := aps_trim_start line in
    if aps_is_empty after then [] else [blen line - blen after]) lines.

Definition aps_can_be_block_string (value : str) : bool :=
  if mem c_cr value then false
  else
    let lines := aps_split_lines value in
    (* lines.next() / lines.next_back() on the same iterator *)
    let first_blank := match lines with [] => false | first :: _ => aps_blank_line first end in
    let last_blank :=
      match lines with
      | [] => false
      | _ :: rest => match aps_last rest with Some l => aps_blank_line l | None => false end
      end in
    if first_blank || last_blank then false
    else
      let common_indent :=
        match aps_min_list (aps_line_indents lines) with Some m => m | None => 0 end in
      common_indent =? 0.

(* ---- quoted form *)
Definition aps_hex_digit (d : N) : N := if d <? 10 then 48 + d else 55 + d.   (* {:X} *)

Definition aps_needs_escape (c : N) : bool :=
  ((c <? c_space) && negb (c =? c_tab)) || (c =? c_quote) || (c =? c_bslash).

Definition aps_escape_char (c : N) : str :=
  if aps_needs_escape c then
    if c =? 8 then [c_bslash; 98]           (* \b *)
    else if c =? c_lf then [c_bslash; 110]  (* \n *)
    else if c =? 12 then [c_bslash; 102]    (* \f *)
    else if c =? c_cr then [c_bslash; 114]  (* \r *)
    else if c =? c_quote then [c_bslash; c_quote]
    else if c =? c_bslash then [c_bslash; c_bslash]
    else [c_bslash; 117; 48; 48; aps_hex_digit (c / 16); aps_hex_digit (c mod 16)]  (* \u{:04X} *)
  else [c].

Definition aps_quoted_text (s : str) : str := [c_quote] ++ flat_map aps_escape_char s ++ [c_quote].

(* ---- block form *)
(* serialize_line: every (non-overlapping, leftmost) `"""` becomes `\"""` *)
Fixpoint aps_escape_triple (line : str) : str :=
  match line with
  | [] => []
  | c1 :: r1 =>
      match r1 with
      | c2 :: (c3 :: r3) =>
          if (c1 =? c_quote) && (c2 =? c_quote) && (c3 =? c_quote)
          then [c_bslash; c_quote; c_quote; c_quote] ++ aps_escape_triple r3
          else c1 :: aps_escape_triple r1
      | _ => c1 :: aps_escape_triple r1
      end
  end.

Fixpoint aps_ends_with (c : N) (s : str) : bool :=
  match s with [] => false | [x] => x =? c | _ :: r => aps_ends_with c r end.

Definition aps_triple : str := [c_quote; c_quote; c_quote].

Definition aps_multi_line (s : str) : bool :=
  mem c_lf s || (70 <? blen s) || aps_ends_with c_quote s || aps_ends_with c_bslash s.

Definition aps_serialize_block_string (contains_newline : bool) (s : str) : ap_m :=
  let multi_line :=
    contains_newline || (70 <? blen s) || aps_ends_with c_quote s || aps_ends_with c_bslash s in
  ap_write aps_triple ;;
  (if negb multi_line then ap_write (aps_escape_triple s)
   else
     ap_all (map (fun line =>
                    if aps_is_empty line then ap_write [c_lf]
                    else ap_require_new_line ;; ap_write (aps_escape_triple line))
                 (aps_split_lines s)) ;;
     ap_require_new_line) ;;
  ap_write aps_triple.

Definition aps_serialize_string_value (is_description : bool) (s : str) : ap_m := fun st =>
  let contains_newline := mem c_lf s in
  let prefer_block_string := is_description || contains_newline in
  if ap_newlines_enabled st && prefer_block_string && aps_can_be_block_string s
  then aps_serialize_block_string contains_newline s st
  else (ap_write [c_quote] ;; ap_all (map (fun c => ap_write (aps_escape_char c)) s) ;;
        ap_write [c_quote]) st.

Definition aps_serialize_description (d : option str) : ap_m :=
  match d with
  | Some s => aps_serialize_string_value true s ;; ap_new_line_or_space
  | None => ap_skip
  end.

(* ---- the same texts as pure functions of the indentation string, used by the token view *)
Definition aps_block_text (indent : str) (s : str) : str :=
  aps_triple ++
  (if negb (aps_multi_line s) then aps_escape_triple s
   else flat_map (fun line =>
          if aps_is_empty line then [c_lf] else [c_lf] ++ indent ++ aps_escape_triple line)
          (aps_split_lines s) ++ [c_lf] ++ indent) ++
  aps_triple.
