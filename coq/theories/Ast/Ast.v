(* The AST of crates/apollo-compiler/src/ast/mod.rs, locations erased (PartialEq ignores them).
   Shared by every model that works on parsed documents.  Numbers keep their literal text. *)
From ApolloVerif Require Import Base.Chars.

Inductive ty :=
| TNamed (n : str)
| TNonNullNamed (n : str)
| TList (t : ty)
| TNonNullList (t : ty).

Inductive value :=
| VNull
| VEnum (n : str)
| VVar (n : str)
| VString (s : str)
| VFloat (text : str)
| VInt (text : str)
| VBool (b : bool)
| VList (l : list value)
| VObject (fields : list (str * value)).

Definition argument := (str * value)%type.

Record directive := { d_name : str; d_args : list argument }.

Inductive optype := OpQuery | OpMutation | OpSubscription.

Inductive dirloc :=
| LQuery | LMutation | LSubscription | LField | LFragmentDefinition | LFragmentSpread
| LInlineFragment | LVariableDefinition | LSchema | LScalar | LObject | LFieldDefinition
| LArgumentDefinition | LInterface | LUnion | LEnum | LEnumValue | LInputObject
| LInputFieldDefinition.

Inductive selection :=
| SField (alias : option str) (name : str) (args : list argument) (dirs : list directive)
         (sels : list selection)
| SSpread (name : str) (dirs : list directive)
| SInline (cond : option str) (dirs : list directive) (sels : list selection).

Record vardef := {
  v_name : str; v_ty : ty; v_default : option value; v_dirs : list directive }.

Record inputvaldef := {
  iv_desc : option str; iv_name : str; iv_ty : ty; iv_default : option value;
  iv_dirs : list directive }.

Record fielddef := {
  fd_desc : option str; fd_name : str; fd_args : list inputvaldef; fd_ty : ty;
  fd_dirs : list directive }.

Record enumvaldef := { ev_desc : option str; ev_value : str; ev_dirs : list directive }.

Definition rootop := (optype * str)%type.

Inductive definition :=
| DOperation (op : optype) (name : option str) (vars : list vardef) (dirs : list directive)
             (sels : list selection)
| DFragment (name : str) (cond : str) (dirs : list directive) (sels : list selection)
| DDirective (desc : option str) (name : str) (args : list inputvaldef) (repeatable : bool)
             (locs : list dirloc)
| DSchema (desc : option str) (dirs : list directive) (roots : list rootop)
| DScalar (desc : option str) (name : str) (dirs : list directive)
| DObject (desc : option str) (name : str) (impls : list str) (dirs : list directive)
          (fields : list fielddef)
| DInterface (desc : option str) (name : str) (impls : list str) (dirs : list directive)
             (fields : list fielddef)
| DUnion (desc : option str) (name : str) (dirs : list directive) (members : list str)
| DEnum (desc : option str) (name : str) (dirs : list directive) (values : list enumvaldef)
| DInput (desc : option str) (name : str) (dirs : list directive) (fields : list inputvaldef)
| XSchema (dirs : list directive) (roots : list rootop)
| XScalar (name : str) (dirs : list directive)
| XObject (name : str) (impls : list str) (dirs : list directive) (fields : list fielddef)
| XInterface (name : str) (impls : list str) (dirs : list directive) (fields : list fielddef)
| XUnion (name : str) (dirs : list directive) (members : list str)
| XEnum (name : str) (dirs : list directive) (values : list enumvaldef)
| XInput (name : str) (dirs : list directive) (fields : list inputvaldef).

Definition document := list definition.

(* string equality and small helpers used everywhere *)
Fixpoint streq (a b : str) : bool :=
  match a, b with
  | [], [] => true
  | x :: a, y :: b => (x =? y) && streq a b
  | _, _ => false
  end.

Lemma streq_eq a b : streq a b = true <-> a = b.
Proof.
  revert b. induction a as [|x a IH]; destruct b as [|y b]; cbn [streq];
    try (split; [discriminate|congruence]).
  - tauto.
  - rewrite andb_true_iff, IH, N.eqb_eq. split; [intros [-> ->]; reflexivity|intros [= -> ->]; auto].
Qed.

Lemma streq_refl a : streq a a = true.
Proof. now apply streq_eq. Qed.

Definition def_name (d : definition) : option str :=
  match d with
  | DOperation _ n _ _ _ => n
  | DFragment n _ _ _ | DDirective _ n _ _ _ | DScalar _ n _ | DObject _ n _ _ _
  | DInterface _ n _ _ _ | DUnion _ n _ _ | DEnum _ n _ _ | DInput _ n _ _
  | XScalar n _ | XObject n _ _ _ | XInterface n _ _ _ | XUnion n _ _ | XEnum n _ _
  | XInput n _ _ => Some n
  | DSchema _ _ _ | XSchema _ _ => None
  end.

(* number of definitions: the smallest function that forces the AST types into the extraction *)
Definition ast_doc_size (d : document) : N := N.of_nat (length d).

Fixpoint inner_named_type (t : ty) : str :=
  match t with
  | TNamed n | TNonNullNamed n => n
  | TList t | TNonNullList t => inner_named_type t
  end.

Definition is_non_null (t : ty) : bool :=
  match t with TNonNullNamed _ | TNonNullList _ => true | _ => false end.
Definition is_list (t : ty) : bool :=
  match t with TList _ | TNonNullList _ => true | _ => false end.
