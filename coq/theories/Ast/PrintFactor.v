(* C08 (a) — factorisation: the literal model of the serializer (Ast/Print.v, a state monad with
   explicit panics) prints exactly the rendering of the token view (Ast/PrintTokens.v):
       ast_print cfg d = ApOk (pt_render (ptokens cfg d))
   for every document and configuration.  In particular the model never panics. *)
From ApolloVerif Require Import Base.Chars Ast.Ast Ast.PrintState Ast.PrintString Ast.Print
  Ast.PrintTokens Ast.PrintAdjacent Ast.PrintIndep.

(* f, started in st, succeeds, appends o, and leaves prefix p' and level l' *)
Definition ap_run (f : ap_m) (st : ap_state) (o : str) (p' : option str) (l' : N) : Prop :=
  match f st with
  | ApOk (o', st') => o' = o /\ ap_prefix st' = p' /\ ap_level st' = l'
  | ApPanic _ => False
  end.

(* f prints the items g, at any prefix and level, and restores both *)
Notation ap_spec f g :=
  (forall st p l, ap_prefix st = p -> ap_level st = l -> ap_run f st (pitems_text (g p l)) p l).

Lemma run_conv f st o o' p l : ap_run f st o p l -> o = o' -> ap_run f st o' p l.
Proof. now intros H <-. Qed.

Lemma run_seq f g st a p1 l1 b p2 l2 :
  ap_run f st a p1 l1 ->
  (forall st1, ap_prefix st1 = p1 -> ap_level st1 = l1 -> ap_run g st1 b p2 l2) ->
  ap_run (f ;; g) st (a ++ b) p2 l2.
Proof.
  unfold ap_run, ap_seq. destruct (f st) as [[o1 st1]|w]; [|tauto].
  intros (-> & Hp & Hl) Hg. specialize (Hg st1 Hp Hl).
  destruct (g st1) as [[o2 st2]|w]; [|tauto]. destruct Hg as (-> & Hp2 & Hl2). auto.
Qed.

Lemma run_write s st p l : ap_prefix st = p -> ap_level st = l -> ap_run (ap_write s) st s p l.
Proof. intros <- <-. cbv. auto. Qed.

Lemma run_display s st p l : ap_prefix st = p -> ap_level st = l -> ap_run (ap_display s) st s p l.
Proof. intros <- <-. cbv. auto. Qed.

Lemma run_skip st p l : ap_prefix st = p -> ap_level st = l -> ap_run ap_skip st [] p l.
Proof. intros <- <-. cbv. auto. Qed.

Lemma run_repeat_write n s : forall st p l,
  ap_prefix st = p -> ap_level st = l ->
  ap_run (ap_repeat n (ap_write s)) st (concat (repeat s n)) p l.
Proof.
  induction n as [|n IH]; intros st p l Hp Hl; cbn [ap_repeat repeat concat].
  - (eapply run_skip; eassumption).
  - eapply run_seq; [(eapply run_write; eassumption)|]. intros st1 Hp1 Hl1. (eapply IH; eassumption).
Qed.

Lemma run_all_map {A} (F : A -> ap_m) (T : A -> str) p l xs :
  (forall x, In x xs -> forall st, ap_prefix st = p -> ap_level st = l -> ap_run (F x) st (T x) p l) ->
  forall st, ap_prefix st = p -> ap_level st = l ->
  ap_run (ap_all (map F xs)) st (flat_map T xs) p l.
Proof.
  induction xs as [|x xs IH]; intros H st Hp Hl; cbn [map ap_all flat_map].
  - (eapply run_skip; eassumption).
  - eapply run_seq; [apply H; auto; now left|]. intros st1 Hp1 Hl1. apply IH; auto.
    intros y Hy. apply H. now right.
Qed.

(* ---- text of items *)
Lemma pitems_text_app a b : pitems_text (a ++ b) = pitems_text a ++ pitems_text b.
Proof. apply flat_map_app. Qed.

Lemma pitems_text_cons i r : pitems_text (i :: r) = pitem_text i ++ pitems_text r.
Proof. reflexivity. Qed.

Lemma pitems_text_nil : pitems_text [] = [].
Proof. reflexivity. Qed.

Lemma pitems_text_flat_map {A} (f : A -> list pitem) xs :
  pitems_text (flat_map f xs) = flat_map (fun x => pitems_text (f x)) xs.
Proof.
  induction xs as [|x xs IH]; [reflexivity|]. cbn [flat_map]. now rewrite pitems_text_app, IH.
Qed.

Ltac text_norm :=
  unfold pi_n, pi_s, pi_p, ap_sp, ap_spread;
  repeat (rewrite pitems_text_app || rewrite pitems_text_cons || rewrite pitems_text_nil);
  cbn [pitem_text ptok_text ppunct_text];
  repeat rewrite <- app_assoc;
  repeat rewrite app_nil_r;
  cbn [app].

(* ---- State primitives *)
Lemma run_unfold f g st o p l : f st = g st -> ap_run g st o p l -> ap_run f st o p l.
Proof. unfold ap_run. now intros ->. Qed.

Lemma run_nl sp st p l :
  ap_prefix st = p -> ap_level st = l ->
  ap_run (ap_new_line_common sp) st (pitems_text (pi_nl p l sp)) p l.
Proof.
  intros Hp Hl.
  apply (run_unfold _ (match p with
                       | Some pr => ap_write [c_lf] ;; ap_repeat (N.to_nat l) (ap_write pr)
                       | None => if sp then ap_write [c_space] else ap_skip
                       end)).
  { unfold ap_new_line_common. rewrite Hp, Hl. destruct p; [reflexivity|]. destruct sp; reflexivity. }
  destruct p as [pr|]; cbn [pi_nl].
  - eapply run_conv.
    + eapply run_seq; [(eapply run_write; eassumption)|]. intros st1 Hp1 Hl1.
      (eapply run_repeat_write; eassumption).
    + cbn. now rewrite app_nil_r.
  - destruct sp; [(eapply run_write; eassumption)|(eapply run_skip; eassumption)].
Qed.

Lemma run_level_up st p l :
  ap_prefix st = p -> ap_level st = l -> ap_run ap_level_up st [] p (l + 1).
Proof. intros <- <-. cbv [ap_run ap_level_up ap_set_level ap_prefix ap_level]. auto. Qed.

Lemma run_level_down st p l :
  ap_prefix st = p -> ap_level st = l + 1 -> ap_run ap_level_down st [] p l.
Proof.
  intros <- Hl. unfold ap_run, ap_level_down. rewrite Hl.
  replace (l + 1 =? 0) with false by lia. cbn. repeat split. lia.
Qed.

Lemma run_indent_gen sp st p l :
  ap_prefix st = p -> ap_level st = l ->
  ap_run (ap_level_up ;; ap_new_line_common sp) st (pitems_text (pi_nl p (l + 1) sp)) p (l + 1).
Proof.
  intros Hp Hl. eapply run_conv.
  - eapply run_seq; [(eapply run_level_up; eassumption)|]. intros st1 Hp1 Hl1. (eapply run_nl; eassumption).
  - reflexivity.
Qed.

Lemma run_dedent_gen sp st p l :
  ap_prefix st = p -> ap_level st = l + 1 ->
  ap_run (ap_level_down ;; ap_new_line_common sp) st (pitems_text (pi_nl p l sp)) p l.
Proof.
  intros Hp Hl. eapply run_conv.
  - eapply run_seq; [(eapply run_level_down; eassumption)|]. intros st1 Hp1 Hl1. (eapply run_nl; eassumption).
  - reflexivity.
Qed.

Lemma run_if_newlines f o st p l :
  (forall st, ap_prefix st = p -> ap_level st = l -> ap_run f st o p l) ->
  ap_prefix st = p -> ap_level st = l ->
  ap_run (ap_if_newlines f) st (match p with Some _ => o | None => [] end) p l.
Proof.
  intros Hf Hp Hl. unfold ap_run, ap_if_newlines, ap_newlines_enabled. rewrite Hp.
  destruct p; [(eapply Hf; eassumption)|]. fold (ap_run ap_skip st [] None l). (eapply run_skip; eassumption).
Qed.

Lemma run_if_newlines_sep s st p l :
  ap_prefix st = p -> ap_level st = l ->
  ap_run (ap_if_newlines (ap_write s)) st (pitems_text (pi_if_newlines p [PiSep s])) p l.
Proof.
  intros Hp Hl. eapply run_conv.
  - apply run_if_newlines; [|exact Hp|exact Hl]. intros st' Hp' Hl'. (eapply run_write; eassumption).
  - destruct p; cbn; now rewrite ?app_nil_r.
Qed.

Lemma run_set_prefix q st l : ap_level st = l -> ap_run (ap_set_prefix q) st [] q l.
Proof. intros <-. cbv [ap_run ap_set_prefix ap_prefix ap_level]. auto. Qed.

Lemma run_on_single_line f o st p l :
  (forall st, ap_prefix st = None -> ap_level st = l -> ap_run f st o None l) ->
  ap_prefix st = p -> ap_level st = l ->
  ap_run (ap_on_single_line f) st o p l.
Proof.
  intros Hf Hp Hl.
  apply (run_unfold _ (ap_set_prefix None ;; f ;; ap_set_prefix p)).
  { unfold ap_on_single_line. now rewrite Hp. }
  eapply run_conv.
  - eapply run_seq; [apply run_set_prefix; exact Hl|]. intros st1 Hp1 Hl1.
    eapply run_seq; [(eapply Hf; eassumption)|]. intros st2 Hp2 Hl2.
    apply run_set_prefix. exact Hl2.
  - cbn. now rewrite app_nil_r.
Qed.

(* ---- the list layouts *)
Lemma run_comma {A} (F : A -> ap_m) (G : A -> pi_layout) o c po pc xs :
  ppunct_text po = o -> ppunct_text pc = c ->
  (forall x, In x xs -> ap_spec (F x) (G x)) ->
  ap_spec (ap_comma_separated o c (map F xs)) (pi_comma po pc (map G xs)).
Proof.
  intros Ho Hc HF st p l Hp Hl. unfold ap_comma_separated, pi_comma.
  destruct xs as [|x xs]; cbn [map].
  - eapply run_conv.
    + eapply run_seq; [(eapply run_write; eassumption)|]. intros st1 Hp1 Hl1.
      eapply run_seq; [(eapply run_skip; eassumption)|]. intros st2 Hp2 Hl2. (eapply run_write; eassumption).
    + text_norm. now rewrite Ho, Hc.
  - eapply run_conv.
    + eapply run_seq; [(eapply run_write; eassumption)|]. intros st1 Hp1 Hl1.
      eapply run_seq.
      * eapply run_seq; [(eapply (run_indent_gen false); eassumption)|]. intros st2 Hp2 Hl2.
        eapply run_seq; [apply HF; [now left|exact Hp2|exact Hl2]|]. intros st3 Hp3 Hl3.
        eapply run_seq.
        { rewrite map_map.
          apply (run_all_map _ (fun y => [c_comma] ++ pitems_text (pi_nl p (l + 1) true) ++
                                          pitems_text (G y p (l + 1)))); [|exact Hp3|exact Hl3].
          intros y Hy st' Hp' Hl'.
          eapply run_seq; [(eapply run_write; eassumption)|]. intros st4 Hp4 Hl4.
          eapply run_seq; [(eapply run_nl; eassumption)|]. intros st5 Hp5 Hl5.
          apply HF; [now right|exact Hp5|exact Hl5]. }
        intros st4 Hp4 Hl4.
        eapply run_seq; [(eapply run_if_newlines_sep; eassumption)|]. intros st5 Hp5 Hl5.
        (eapply (run_dedent_gen false); eassumption).
      * intros st2 Hp2 Hl2. (eapply run_write; eassumption).
    + text_norm. rewrite Ho, Hc. do 3 f_equal.
      rewrite flat_map_map, pitems_text_flat_map.
      f_equal. apply flat_map_ext_in; cbv beta. intros y _. text_norm. reflexivity.
Qed.

Lemma run_curly {A} (F : A -> ap_m) (G : A -> pi_layout) xs :
  (forall x, In x xs -> ap_spec (F x) (G x)) ->
  ap_spec (ap_curly (map F xs)) (pi_curly (map G xs)).
Proof.
  intros HF st p l Hp Hl. unfold ap_curly, pi_curly.
  destruct xs as [|x xs]; cbn [map].
  - eapply run_conv.
    + eapply run_seq; [(eapply run_write; eassumption)|]. intros st1 Hp1 Hl1.
      eapply run_seq; [(eapply run_skip; eassumption)|]. intros st2 Hp2 Hl2. (eapply run_write; eassumption).
    + text_norm. reflexivity.
  - eapply run_conv.
    + eapply run_seq; [(eapply run_write; eassumption)|]. intros st1 Hp1 Hl1.
      eapply run_seq.
      * eapply run_seq; [(eapply (run_indent_gen true); eassumption)|]. intros st2 Hp2 Hl2.
        eapply run_seq; [apply HF; [now left|exact Hp2|exact Hl2]|]. intros st3 Hp3 Hl3.
        eapply run_seq.
        { rewrite map_map.
          apply (run_all_map _ (fun y => pitems_text (pi_nl p (l + 1) true) ++
                                          pitems_text (G y p (l + 1)))); [|exact Hp3|exact Hl3].
          intros y Hy st' Hp' Hl'.
          eapply run_seq; [(eapply run_nl; eassumption)|]. intros st5 Hp5 Hl5.
          apply HF; [now right|exact Hp5|exact Hl5]. }
        intros st4 Hp4 Hl4. (eapply (run_dedent_gen true); eassumption).
      * intros st2 Hp2 Hl2. (eapply run_write; eassumption).
    + text_norm. do 3 f_equal.
      rewrite flat_map_map, pitems_text_flat_map.
      f_equal. apply flat_map_ext_in; cbv beta. intros y _. text_norm. reflexivity.
Qed.

(* ---- proof automation: run a `;;` chain left to right with the lemmas of the hint database *)
Create HintDb aprun.
#[export] Hint Resolve run_write run_display run_skip run_nl run_if_newlines_sep : aprun.

Ltac run_one := solve [ eauto 3 with aprun nocore ].
Ltac run_chain :=
  first [ run_one | eapply run_seq; [ run_chain | intros ? ? ?; run_chain ] ].
Ltac spec_go :=
  let st := fresh "st" in let p := fresh "p" in let l := fresh "l" in
  let Hp := fresh "Hp" in let Hl := fresh "Hl" in
  intros st p l Hp Hl; eapply run_conv; [ run_chain | text_norm; try reflexivity ].

(* ---- strings *)
Lemma run_require_new_line pr st l :
  ap_prefix st = Some pr -> ap_level st = l ->
  ap_run ap_require_new_line st ([c_lf] ++ pi_indent_str pr l) (Some pr) l.
Proof.
  intros Hp Hl.
  apply (run_unfold _ (ap_write [c_lf] ;; ap_repeat (N.to_nat l) (ap_write pr))).
  { unfold ap_require_new_line. now rewrite Hp, Hl. }
  eapply run_seq; [eapply run_write; eassumption|]. intros st1 Hp1 Hl1.
  eapply run_repeat_write; eassumption.
Qed.

Lemma run_block_string pr s st l :
  ap_prefix st = Some pr -> ap_level st = l ->
  ap_run (aps_serialize_block_string (mem c_lf s) s) st
         (aps_block_text (pi_indent_str pr l) s) (Some pr) l.
Proof.
  intros Hp Hl. unfold aps_serialize_block_string, aps_block_text. cbv zeta.
  change (mem c_lf s || (70 <? blen s) || aps_ends_with c_quote s || aps_ends_with c_bslash s)
    with (aps_multi_line s).
  destruct (aps_multi_line s); cbn [negb].
  - eapply run_seq; [eapply run_write; eassumption|]. intros st1 Hp1 Hl1.
    eapply run_seq; [|intros st2 Hp2 Hl2; eapply run_write; eassumption].
    eapply run_seq; [|intros st2 Hp2 Hl2; eapply run_require_new_line; eassumption].
    apply (run_all_map _ (fun line => if aps_is_empty line then [c_lf]
                                      else [c_lf] ++ pi_indent_str pr l ++ aps_escape_triple line));
      [|exact Hp1|exact Hl1].
    intros line _ st' Hp' Hl'. destruct (aps_is_empty line).
    + eapply run_write; eassumption.
    + eapply run_conv.
      * eapply run_seq; [eapply run_require_new_line; eassumption|]. intros st2 Hp2 Hl2.
        eapply run_write; eassumption.
      * now rewrite <- app_assoc.
  - eapply run_seq; [eapply run_write; eassumption|]. intros st1 Hp1 Hl1.
    eapply run_seq; [eapply run_write; eassumption|]. intros st2 Hp2 Hl2.
    eapply run_write; eassumption.
Qed.

Lemma spec_string isd s : ap_spec (aps_serialize_string_value isd s) (pi_string isd s).
Proof.
  intros st p l Hp Hl.
  set (cond := match p with
               | Some _ => (isd || mem c_lf s) && aps_can_be_block_string s
               | None => false
               end).
  apply (run_unfold _ (if cond then aps_serialize_block_string (mem c_lf s) s
                       else ap_write [c_quote] ;; ap_all (map (fun c => ap_write (aps_escape_char c)) s) ;;
                            ap_write [c_quote])).
  { unfold aps_serialize_string_value, ap_newlines_enabled, cond. rewrite Hp.
    destruct p; cbn [andb]; [|reflexivity].
    destruct ((isd || mem c_lf s) && aps_can_be_block_string s); reflexivity. }
  unfold pi_string, pi_string_style. subst cond. destruct p as [pr|].
  - destruct ((isd || mem c_lf s) && aps_can_be_block_string s).
    + eapply run_conv; [eapply run_block_string; eassumption|]. cbn. now rewrite app_nil_r.
    + eapply run_conv.
      * eapply run_seq; [eapply run_write; eassumption|]. intros st1 Hp1 Hl1.
        eapply run_seq; [|intros st2 Hp2 Hl2; eapply run_write; eassumption].
        apply (run_all_map _ aps_escape_char); [|exact Hp1|exact Hl1].
        intros c _ st' Hp' Hl'. eapply run_write; eassumption.
      * cbn. now rewrite app_nil_r.
  - eapply run_conv.
    + eapply run_seq; [eapply run_write; eassumption|]. intros st1 Hp1 Hl1.
      eapply run_seq; [|intros st2 Hp2 Hl2; eapply run_write; eassumption].
      apply (run_all_map _ aps_escape_char); [|exact Hp1|exact Hl1].
      intros c _ st' Hp' Hl'. eapply run_write; eassumption.
    + cbn. now rewrite app_nil_r.
Qed.
#[export] Hint Resolve spec_string : aprun.

Lemma spec_description d : ap_spec (aps_serialize_description d) (pi_description d).
Proof.
  destruct d as [s|]; unfold aps_serialize_description, pi_description, ap_new_line_or_space; spec_go.
Qed.
#[export] Hint Resolve spec_description : aprun.

(* ---- values, arguments, directives *)
Lemma text_type t : pitems_text (pi_type t) = ap_type_text t.
Proof.
  induction t as [n|n|t IH|t IH]; cbn [pi_type ap_type_text]; text_norm; rewrite ?IH; reflexivity.
Qed.

Lemma spec_value v : ap_spec (ap_value v) (pi_value v).
Proof.
  induction v as [| n | n | s | s | s | b | vs IH | fs IH] using value_ind2;
    cbn [ap_value pi_value]; try solve [spec_go].
  - destruct b; spec_go.
  - apply (run_comma ap_value pi_value); try reflexivity.
    rewrite Forall_forall in IH. exact IH.
  - apply (run_comma (fun nv => ap_write (fst nv) ;; ap_write [c_colon; c_space] ;; ap_value (snd nv))
                     (fun nv p l => [pi_n (fst nv); pi_p PColon; pi_s] ++ pi_value (snd nv) p l));
      try reflexivity.
    rewrite Forall_forall in IH. intros x Hx. specialize (IH x Hx).
    intros st p l Hp Hl. eapply run_conv.
    + eapply run_seq; [eapply run_write; eassumption|]. intros st1 Hp1 Hl1.
      eapply run_seq; [eapply run_write; eassumption|]. intros st2 Hp2 Hl2.
      apply IH; assumption.
    + text_norm. reflexivity.
Qed.
#[export] Hint Resolve spec_value : aprun.

Lemma spec_argument a : ap_spec (ap_argument a) (pi_argument a).
Proof. unfold ap_argument, pi_argument. spec_go. Qed.

Lemma spec_arguments args : ap_spec (ap_arguments args) (pi_arguments args).
Proof.
  unfold ap_arguments, pi_arguments. destruct args as [|a args]; [spec_go|].
  intros st p l Hp Hl. apply run_on_single_line; [|exact Hp|exact Hl].
  intros st' Hp' Hl'. apply (run_comma ap_argument pi_argument); try reflexivity; try assumption.
  intros x _. apply spec_argument.
Qed.
#[export] Hint Resolve spec_arguments : aprun.

Lemma spec_directive d : ap_spec (ap_directive d) (pi_directive d).
Proof. unfold ap_directive, pi_directive. spec_go. Qed.
#[export] Hint Resolve spec_directive : aprun.

Lemma spec_all_map {A} (F : A -> ap_m) (G : A -> pi_layout) xs :
  (forall x, In x xs -> ap_spec (F x) (G x)) ->
  ap_spec (ap_all (map F xs)) (fun p l => flat_map (fun x => G x p l) xs).
Proof.
  intros H st p l Hp Hl. cbv beta. rewrite pitems_text_flat_map.
  apply (run_all_map F (fun x => pitems_text (G x p l))); [|exact Hp|exact Hl].
  intros x Hx st' Hp' Hl'. now apply H.
Qed.

Lemma spec_directives ds : ap_spec (ap_directives ds) (pi_directives ds).
Proof.
  unfold ap_directives, pi_directives.
  apply (spec_all_map (fun d => ap_write ap_sp ;; ap_directive d)
                      (fun d p l => [pi_s] ++ pi_directive d p l)).
  intros d _. spec_go.
Qed.
#[export] Hint Resolve spec_directives : aprun.

Ltac text_norm ::=
  cbv beta;
  unfold pi_n, pi_s, pi_p, ap_sp, ap_spread;
  repeat (rewrite pitems_text_app || rewrite pitems_text_cons || rewrite pitems_text_nil);
  cbn [pitem_text ptok_text ppunct_text];
  rewrite ?text_type;
  repeat rewrite <- app_assoc;
  repeat rewrite app_nil_r;
  cbn [app].

(* a comma-separated list printed on a single line *)
Lemma spec_single_comma {A} (F : A -> ap_m) (G : A -> pi_layout) o c po pc xs :
  ppunct_text po = o -> ppunct_text pc = c ->
  (forall x, In x xs -> ap_spec (F x) (G x)) ->
  ap_spec (ap_on_single_line (ap_comma_separated o c (map F xs)))
          (fun _ l => pi_comma po pc (map G xs) None l).
Proof.
  intros Ho Hc HF st p l Hp Hl. apply run_on_single_line; [|exact Hp|exact Hl].
  intros st' Hp' Hl'. now apply (run_comma F G).
Qed.

(* ---- executable definitions *)
Lemma spec_vardef v : ap_spec (ap_vardef v) (pi_vardef v).
Proof. unfold ap_vardef, pi_vardef. destruct (v_default v); spec_go. Qed.

Lemma spec_vardefs vars :
  ap_spec (ap_on_single_line (ap_comma_separated [c_lparen] [c_rparen] (map ap_vardef vars)))
          (fun _ l => pi_comma PLParen PRParen (map pi_vardef vars) None l).
Proof. apply spec_single_comma; try reflexivity. intros x _. apply spec_vardef. Qed.
#[export] Hint Resolve spec_vardefs : aprun.

Lemma spec_selection s : ap_spec (ap_selection s) (pi_selection s).
Proof.
  induction s as [a n args dirs sels IH | n dirs | c dirs sels IH] using selection_ind2;
    cbn [ap_selection pi_selection].
  - assert (Hc : ap_spec (ap_curly (map ap_selection sels)) (pi_curly (map pi_selection sels))).
    { apply run_curly. rewrite Forall_forall in IH. exact IH. }
    destruct a; destruct sels; spec_go.
  - spec_go.
  - assert (Hc : ap_spec (ap_curly (map ap_selection sels)) (pi_curly (map pi_selection sels))).
    { apply run_curly. rewrite Forall_forall in IH. exact IH. }
    destruct c; spec_go.
Qed.

Lemma spec_selset sels : ap_spec (ap_curly (map ap_selection sels)) (pi_curly (map pi_selection sels)).
Proof. apply run_curly. intros x _. apply spec_selection. Qed.
#[export] Hint Resolve spec_selset : aprun.

Lemma run_operation op name vars dirs sels st p l :
  ap_prefix st = p -> ap_level st = l ->
  ap_run (ap_operation op name vars dirs sels) st
         (pitems_text (pi_operation (ap_empty st) op name vars dirs sels p l)) p l.
Proof.
  intros Hp Hl.
  apply (run_unfold _
    ((if negb (pi_shorthand (ap_empty st) op name vars dirs) then
        ap_write (ap_optype_name op) ;;
        match name with Some n => ap_write ap_sp ;; ap_write n | None => ap_skip end ;;
        match vars with
        | [] => ap_skip
        | _ => ap_on_single_line (ap_comma_separated [c_lparen] [c_rparen] (map ap_vardef vars))
        end ;;
        ap_directives dirs ;;
        ap_write ap_sp
      else ap_skip) ;; ap_curly (map ap_selection sels))); [reflexivity|].
  unfold pi_operation. destruct (negb (pi_shorthand (ap_empty st) op name vars dirs)).
  - destruct name; destruct vars; eapply run_conv; try run_chain; text_norm; reflexivity.
  - eapply run_conv; [run_chain|]. text_norm. reflexivity.
Qed.

Lemma spec_fragment name cond dirs sels :
  ap_spec (ap_fragment name cond dirs sels) (pi_fragment name cond dirs sels).
Proof. unfold ap_fragment, pi_fragment. spec_go. Qed.

(* ---- type-system definitions *)
Lemma spec_inputvaldef v : ap_spec (ap_inputvaldef v) (pi_inputvaldef v).
Proof. unfold ap_inputvaldef, pi_inputvaldef. destruct (iv_default v); spec_go. Qed.

Lemma spec_arguments_definition args :
  ap_spec (ap_arguments_definition args) (pi_arguments_definition args).
Proof.
  unfold ap_arguments_definition, pi_arguments_definition, pi_args_multiline.
  destruct args as [|a args]; [spec_go|].
  destruct (existsb _ (a :: args)).
  - apply (run_comma ap_inputvaldef pi_inputvaldef); try reflexivity.
    intros x _. apply spec_inputvaldef.
  - apply (spec_single_comma ap_inputvaldef pi_inputvaldef); try reflexivity.
    intros x _. apply spec_inputvaldef.
Qed.
#[export] Hint Resolve spec_arguments_definition : aprun.

Lemma spec_fielddef f : ap_spec (ap_fielddef f) (pi_fielddef f).
Proof. unfold ap_fielddef, pi_fielddef. spec_go. Qed.

Lemma spec_enumvaldef e : ap_spec (ap_enumvaldef e) (pi_enumvaldef e).
Proof. unfold ap_enumvaldef, pi_enumvaldef. spec_go. Qed.

Lemma spec_rootop r : ap_spec (ap_rootop r) (pi_rootop r).
Proof. unfold ap_rootop, pi_rootop. spec_go. Qed.

Lemma spec_rootops roots : ap_spec (ap_curly (map ap_rootop roots)) (pi_curly (map pi_rootop roots)).
Proof. apply run_curly. intros x _. apply spec_rootop. Qed.
#[export] Hint Resolve spec_rootops : aprun.

Lemma spec_fielddefs fs : ap_spec (ap_curly (map ap_fielddef fs)) (pi_curly (map pi_fielddef fs)).
Proof. apply run_curly. intros x _. apply spec_fielddef. Qed.
#[export] Hint Resolve spec_fielddefs : aprun.

(* lead name (sep name)* *)
Lemma spec_name_list {A} (h : A -> str) lead leadtext sep septext xs :
  pitems_text lead = leadtext -> [c_space] ++ ppunct_text sep ++ [c_space] = septext ->
  ap_spec (match xs with
           | [] => ap_skip
           | first :: rest =>
               ap_write leadtext ;; ap_write (h first) ;;
               ap_all (map (fun x => ap_write septext ;; ap_write (h x)) rest)
           end)
          (fun _ _ => pi_name_list lead sep (map h xs)).
Proof.
  intros Hlead Hsep st p l Hp Hl. destruct xs as [|first rest]; cbn [map pi_name_list].
  - eapply run_skip; eassumption.
  - eapply run_conv.
    + eapply run_seq; [eapply run_write; eassumption|]. intros st1 Hp1 Hl1.
      eapply run_seq; [eapply run_write; eassumption|]. intros st2 Hp2 Hl2.
      apply (run_all_map _ (fun x => septext ++ h x)); [|exact Hp2|exact Hl2].
      intros x _ st' Hp' Hl'.
      eapply run_seq; [eapply run_write; eassumption|]. intros st3 Hp3 Hl3.
      eapply run_write; eassumption.
    + text_norm. rewrite Hlead. do 2 f_equal.
      rewrite flat_map_map, pitems_text_flat_map. apply flat_map_ext_in; cbv beta. intros x _.
      text_norm. rewrite <- Hsep. cbn [app]. now rewrite <- app_assoc.
Qed.

Lemma spec_object_type_like name impls dirs fields :
  ap_spec (ap_object_type_like name impls dirs fields) (pi_object_type_like name impls dirs fields).
Proof.
  unfold ap_object_type_like, pi_object_type_like.
  pose proof (spec_name_list (fun n : str => n) [pi_s; pi_n apk_implements; pi_s]
                (ap_sp ++ apk_implements ++ ap_sp) PAmp [c_space; c_amp; c_space] impls) as Hn.
  rewrite map_id in Hn. specialize (Hn ltac:(text_norm; reflexivity) eq_refl).
  destruct fields; spec_go.
Qed.
#[export] Hint Resolve spec_object_type_like : aprun.

Lemma spec_union name dirs members : ap_spec (ap_union name dirs members) (pi_union name dirs members).
Proof.
  unfold ap_union, pi_union.
  pose proof (spec_name_list (fun n : str => n) [pi_s; pi_p PEq; pi_s]
                [c_space; c_eq; c_space] PPipe [c_space; c_pipe; c_space] members) as Hn.
  rewrite map_id in Hn. specialize (Hn eq_refl eq_refl).
  spec_go.
Qed.
#[export] Hint Resolve spec_union : aprun.

Lemma spec_name_dirs_body {A} (F : A -> ap_m) (G : A -> pi_layout) name dirs xs :
  (forall x, In x xs -> ap_spec (F x) (G x)) ->
  ap_spec (ap_name_dirs_body name dirs (map F xs)) (pi_name_dirs_body name dirs (map G xs)).
Proof.
  intros HF. unfold ap_name_dirs_body, pi_name_dirs_body.
  assert (Hc : ap_spec (ap_curly (map F xs)) (pi_curly (map G xs))) by now apply run_curly.
  destruct xs; cbn [map] in *; spec_go.
Qed.

Lemma spec_enum_body name dirs values :
  ap_spec (ap_name_dirs_body name dirs (map ap_enumvaldef values))
          (pi_name_dirs_body name dirs (map pi_enumvaldef values)).
Proof. apply spec_name_dirs_body. intros x _. apply spec_enumvaldef. Qed.

Lemma spec_input_body name dirs fields :
  ap_spec (ap_name_dirs_body name dirs (map ap_inputvaldef fields))
          (pi_name_dirs_body name dirs (map pi_inputvaldef fields)).
Proof. apply spec_name_dirs_body. intros x _. apply spec_inputvaldef. Qed.
#[export] Hint Resolve spec_enum_body spec_input_body : aprun.

Lemma spec_directive_definition desc name args rep locs :
  ap_spec (ap_directive_definition desc name args rep locs)
          (pi_directive_definition desc name args rep locs).
Proof.
  unfold ap_directive_definition, pi_directive_definition.
  pose proof (spec_name_list ap_dirloc_name [pi_s; pi_n apk_on; pi_s]
                (ap_sp ++ apk_on ++ ap_sp) PPipe [c_space; c_pipe; c_space] locs
                ltac:(text_norm; reflexivity) eq_refl) as Hn.
  destruct rep; spec_go.
Qed.

Lemma spec_schema_definition desc dirs roots :
  ap_spec (ap_schema_definition desc dirs roots) (pi_schema_definition desc dirs roots).
Proof. unfold ap_schema_definition, pi_schema_definition. spec_go. Qed.
#[export] Hint Resolve spec_fragment spec_directive_definition spec_schema_definition : aprun.

Lemma run_definition d st p l :
  ap_prefix st = p -> ap_level st = l ->
  ap_run (ap_definition d) st (pitems_text (pi_definition (ap_empty st) d p l)) p l.
Proof.
  intros Hp Hl. destruct d; cbn [ap_definition pi_definition];
    try (eapply run_conv; [run_chain|text_norm; reflexivity]).
  - now apply run_operation.
  - destruct roots; eapply run_conv; try run_chain; text_norm; reflexivity.
Qed.

(* ---- the output_empty flag: what the top level needs to know *)
Definition ap_post (f : ap_m) (st : ap_state) (Q : ap_state -> Prop) : Prop :=
  match f st with ApOk (_, st') => Q st' | ApPanic _ => True end.

Lemma run_seq_post f g st a p1 l1 b p2 l2 (Q : ap_state -> Prop) :
  ap_run f st a p1 l1 -> ap_post f st Q ->
  (forall st1, Q st1 -> ap_prefix st1 = p1 -> ap_level st1 = l1 -> ap_run g st1 b p2 l2) ->
  ap_run (f ;; g) st (a ++ b) p2 l2.
Proof.
  unfold ap_run, ap_post, ap_seq. destruct (f st) as [[o1 st1]|w]; [|tauto].
  intros (-> & Hp & Hl) HQ Hg. specialize (Hg st1 HQ Hp Hl).
  destruct (g st1) as [[o2 st2]|w]; [|tauto]. destruct Hg as (-> & Hp2 & Hl2). auto.
Qed.

Lemma post_repeat_write n s : forall st,
  ap_post (ap_repeat n (ap_write s)) st
          (fun st' => ap_empty st' = match n with O => ap_empty st | S _ => false end).
Proof.
  induction n as [|n IH]; intros st; [reflexivity|].
  unfold ap_post. cbn [ap_repeat]. unfold ap_seq at 1. cbn [ap_write].
  specialize (IH {| ap_prefix := ap_prefix st; ap_level := ap_level st; ap_empty := false |}).
  unfold ap_post in IH. destruct (ap_repeat n (ap_write s) _) as [[o st']|w]; [|exact I].
  rewrite IH. destruct n; reflexivity.
Qed.

Lemma post_nl_true st : ap_post (ap_new_line_common true) st (fun st' => ap_empty st' = false).
Proof.
  unfold ap_post, ap_new_line_common. destruct (ap_prefix st) as [pr|]; [|reflexivity].
  unfold ap_seq at 1. cbn [ap_write].
  pose proof (post_repeat_write (N.to_nat (ap_level st)) pr
                {| ap_prefix := ap_prefix st; ap_level := ap_level st; ap_empty := false |}) as H.
  unfold ap_post in H. destruct (ap_repeat _ _ _) as [[o st']|w]; [|exact I].
  rewrite H. now destruct (N.to_nat (ap_level st)).
Qed.

Lemma run_top_item x st p l :
  ap_prefix st = p -> ap_level st = l ->
  ap_run (ap_if_newlines (ap_write [c_lf]) ;; ap_new_line_or_space ;; ap_definition x) st
         (pitems_text (pi_if_newlines p [PiSep [c_lf]] ++ pi_nl p l true ++ pi_definition false x p l))
         p l.
Proof.
  intros Hp Hl. eapply run_conv.
  - eapply run_seq; [eapply run_if_newlines_sep; eassumption|]. intros st1 Hp1 Hl1.
    eapply (run_seq_post _ _ _ _ _ _ _ _ _ (fun st' => ap_empty st' = false)).
    + unfold ap_new_line_or_space. eapply run_nl; eassumption.
    + apply post_nl_true.
    + intros st2 HQ Hp2 Hl2. pose proof (run_definition x st2 p l Hp2 Hl2) as H.
      rewrite HQ in H. exact H.
  - text_norm. reflexivity.
Qed.

Lemma run_top_level d st p l :
  ap_prefix st = p -> ap_level st = l ->
  ap_run (ap_document d) st (pitems_text (pi_top_level (ap_empty st) d p l)) p l.
Proof.
  intros Hp Hl. unfold ap_document, ap_top_level, pi_top_level.
  destruct d as [|first rest]; cbn [map]; [eapply run_skip; eassumption|].
  eapply run_conv.
  - eapply run_seq; [eapply run_definition; eassumption|]. intros st1 Hp1 Hl1.
    eapply run_seq; [|intros st2 Hp2 Hl2; eapply run_if_newlines_sep; eassumption].
    rewrite map_map.
    apply (run_all_map _ (fun x => pitems_text (pi_if_newlines p [PiSep [c_lf]] ++ pi_nl p l true ++
                                                 pi_definition false x p l)));
      [|exact Hp1|exact Hl1].
    intros x _ st' Hp' Hl'. now apply run_top_item.
  - text_norm. do 1 f_equal. rewrite pitems_text_flat_map. reflexivity.
Qed.

Lemma run_display_document cfg d :
  ap_run (ap_display_document d) (ap_init_state cfg)
         (pitems_text (match pc_prefix cfg with
                       | Some p => [PiSep (pi_indent_str p (pc_level cfg))]
                       | None => []
                       end ++
                       pi_top_level (pc_starts_empty cfg) d (pc_prefix cfg) (pc_level cfg)))
         (pc_prefix cfg) (pc_level cfg).
Proof.
  destruct cfg as [[pr|] lvl]; cbn [pc_prefix pc_level pc_starts_empty].
  - set (st0 := ap_init_state {| pc_prefix := Some pr; pc_level := lvl |}).
    apply (run_unfold _ (ap_repeat (N.to_nat lvl) (ap_write pr) ;; ap_document d)); [reflexivity|].
    rewrite pitems_text_app.
    eapply (run_seq_post _ _ _ _ _ _ _ _ _ (fun st' => ap_empty st' = (lvl =? 0))).
    + eapply run_conv; [eapply run_repeat_write; reflexivity|]. cbn. now rewrite app_nil_r.
    + pose proof (post_repeat_write (N.to_nat lvl) pr st0) as H.
      unfold ap_post in *. destruct (ap_repeat _ _ st0) as [[o st']|w]; [|exact I].
      rewrite H. cbn [st0 ap_init_state ap_empty].
      destruct (N.eqb_spec lvl 0) as [->|Hne]; [reflexivity|].
      destruct (N.to_nat lvl) eqn:E; [lia|reflexivity].
    + intros st1 HQ Hp1 Hl1. pose proof (run_top_level d st1 _ _ Hp1 Hl1) as H.
      rewrite HQ in H. exact H.
  - set (st0 := ap_init_state {| pc_prefix := None; pc_level := lvl |}).
    apply (run_unfold _ (ap_skip ;; ap_document d)); [reflexivity|].
    rewrite pitems_text_app.
    eapply (run_seq_post _ _ _ _ _ _ _ _ _ (fun st' => ap_empty st' = true)).
    + eapply run_skip; reflexivity.
    + reflexivity.
    + intros st1 HQ Hp1 Hl1. pose proof (run_top_level d st1 _ _ Hp1 Hl1) as H.
      rewrite HQ in H. exact H.
Qed.

Lemma render_attach l : forall pend,
  pt_render (pi_attach pend (l ++ [PiTok PtEof])) = pend ++ pitems_text l.
Proof.
  induction l as [|[s|t] r IH]; intros pend; cbn [app pi_attach].
  - cbn. now rewrite !app_nil_r.
  - rewrite IH, pitems_text_cons. cbn [pitem_text]. now rewrite app_assoc.
  - unfold pt_render. cbn [flat_map pt_sep pt_tok]. fold (pt_render (pi_attach [] (r ++ [PiTok PtEof]))).
    rewrite IH, pitems_text_cons. cbn [pitem_text app]. now rewrite app_assoc.
Qed.

Theorem print_factors cfg d : ast_print cfg d = ApOk (pt_render (ptokens cfg d)).
Proof.
  pose proof (run_display_document cfg d) as H. unfold ap_run in H. unfold ast_print.
  destruct (ap_display_document d (ap_init_state cfg)) as [[o st']|w]; [|contradiction].
  destruct H as (-> & _ & _). f_equal. unfold ptokens, pi_document.
  rewrite app_assoc, render_attach. reflexivity.
Qed.

Corollary print_no_panic cfg d : forall w, ast_print cfg d <> ApPanic w.
Proof. intros w. rewrite print_factors. discriminate. Qed.
