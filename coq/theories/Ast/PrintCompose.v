(* C08 — composite lemmas used by Props/C08.v *)
From ApolloVerif Require Import Base.Chars Ast.Ast Ast.PrintState Ast.PrintString Ast.Print
  Ast.PrintTokens Ast.PrintAdjacent Ast.PrintIndep Ast.PrintFactor Ast.PrintWf.
From Coq Require Import String.

(* the document `{a}`: shorthand with the default configuration, `query {` with an initial indent *)
Definition c08_ex_a : str := [97].
Definition c08_ex_shorthand : document := [DOperation OpQuery None [] [] [SField None c08_ex_a [] [] []]].
Definition c08_cfg_indented : print_config :=
  {| pc_prefix := Some [c_space; c_space; c_space; c_space]; pc_level := 3 |}.

Lemma config_dependence_witness :
  ptsig (ptokens pc_default c08_ex_shorthand) <> ptsig (ptokens c08_cfg_indented c08_ex_shorthand) /\
  ast_print pc_default c08_ex_shorthand = ApOk (ap_lit "{
  a
}
"%string) /\
  ast_print c08_cfg_indented c08_ex_shorthand = ApOk (ap_lit "            query {
                a
            }
"%string).
Proof. split; [vm_compute; discriminate|]. split; vm_compute; reflexivity. Qed.

Lemma adjacent_safe_pairs : forall cfg d l1 a b l2,
  ptokens cfg d = l1 ++ a :: b :: l2 -> pt_sep b = [] ->
  adjacent_safe (pt_tok a) (pt_tok b) = true.
Proof.
  intros cfg d l1 a b l2 H. exact (pt_consecutive_safe_spec _ (adjacent_safe_all cfg d) l1 a b l2 H).
Qed.

Lemma roundtrip_partial : forall cfg d,
  pwfd d = true -> ws_prefix (pc_prefix cfg) = true ->
  exists toks,
    ast_print cfg d = ApOk (pt_render toks) /\
    pt_consecutive_safe toks = true /\
    forallb ptoken_ok toks = true /\
    pt_shorthand_norm (ptsig toks) = pt_shorthand_norm (ptsig (ptokens pc_default d)).
Proof.
  intros cfg d Hwf Hws. exists (ptokens cfg d).
  split; [apply print_factors|]. split; [apply adjacent_safe_all|].
  split; [now apply tokens_wf|apply tokens_config_independent].
Qed.
