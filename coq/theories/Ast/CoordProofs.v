(* Proofs about the coordinate model (C23). *)
From ApolloVerif Require Import Base.Chars Ast.Coord.
From Coq Require Import ZifyBool ZifyN.

Local Ltac punct := reflexivity.

Lemma nm_no ch t : is_valid_name t = true -> is_name_continue ch = false -> mem ch t = false.
Proof. apply name_no_punct. Qed.

Lemma valid_not_at t : is_valid_name t = true -> coord_starts_with c_at t = false.
Proof.
  destruct t as [|c r]; cbn [is_valid_name coord_starts_with]; [discriminate|].
  intros H. apply andb_true_iff in H as [H _].
  unfold is_name_start, is_alpha, c_at in *. lia.
Qed.

Lemma starts_app ch a b : a <> [] -> coord_starts_with ch (a ++ b) = coord_starts_with ch a.
Proof. destruct a; [congruence|reflexivity]. Qed.

Lemma valid_nonempty t : is_valid_name t = true -> t <> [].
Proof. destruct t; [discriminate|congruence]. Qed.

Lemma parse_arg_tail_ok a :
  is_valid_name a = true -> parse_arg_tail (a ++ [c_colon; c_rparen]) = Some a.
Proof.
  intros Ha. unfold parse_arg_tail.
  rewrite (split_once_app c_colon a [c_rparen]) by (apply nm_no; [exact Ha|punct]).
  rewrite N.eqb_refl, Ha. reflexivity.
Qed.

Lemma parse_attr_ok t f :
  is_valid_name t = true -> is_valid_name f = true ->
  parse_attr_coord (t ++ [c_dot] ++ f) = Some (t, f).
Proof.
  intros Ht Hf. unfold parse_attr_coord. cbn [app].
  rewrite (split_once_app c_dot t f) by (apply nm_no; [exact Ht|punct]).
  now rewrite Ht, Hf.
Qed.

Theorem print_parse c : wf_coord c = true -> parse_coord (print_coord c) = Some c.
Proof.
  destruct c as [t|t f|t f a|d|d a]; cbn [wf_coord print_coord]; intros H.
  - (* Type *)
    unfold parse_coord. rewrite (valid_not_at _ H).
    assert (Hp : split_once c_lparen t = None) by (apply split_once_none, nm_no; [exact H|punct]).
    unfold parse_field_arg_coord. rewrite Hp.
    assert (Hd : split_once c_dot t = None) by (apply split_once_none, nm_no; [exact H|punct]).
    unfold parse_attr_coord. rewrite Hd. unfold parse_type_coord. now rewrite H.
  - apply andb_true_iff in H as [Ht Hf].
    unfold parse_coord. rewrite starts_app by now apply valid_nonempty. rewrite (valid_not_at _ Ht).
    assert (Hp : split_once c_lparen (t ++ [c_dot] ++ f) = None).
    { apply split_once_none. rewrite !mem_app, (nm_no c_lparen t Ht), (nm_no c_lparen f Hf) by punct. reflexivity. }
    unfold parse_field_arg_coord. rewrite Hp. now rewrite parse_attr_ok.
  - apply andb_true_iff in H as [H Ha]. apply andb_true_iff in H as [Ht Hf].
    unfold parse_coord. rewrite starts_app by now apply valid_nonempty. rewrite (valid_not_at _ Ht).
    unfold parse_field_arg_coord.
    replace (t ++ [c_dot] ++ f ++ [c_lparen] ++ a ++ [c_colon; c_rparen])
      with ((t ++ [c_dot] ++ f) ++ c_lparen :: (a ++ [c_colon; c_rparen]))
      by (now rewrite <- !app_assoc).
    rewrite split_once_app.
    2:{ rewrite !mem_app, (nm_no c_lparen t Ht), (nm_no c_lparen f Hf) by punct. reflexivity. }
    rewrite parse_attr_ok by assumption. now rewrite parse_arg_tail_ok.
  - unfold parse_coord. cbn [coord_starts_with]. rewrite N.eqb_refl.
    unfold parse_dir_arg_coord.
    assert (Hp : split_once c_lparen (c_at :: d) = None).
    { apply split_once_none. change (c_at :: d) with ([c_at] ++ d). rewrite mem_app, (nm_no c_lparen d H) by punct. reflexivity. }
    rewrite Hp. unfold parse_dir_coord. cbn [strip_prefix]. rewrite N.eqb_refl. now rewrite H.
  - apply andb_true_iff in H as [Hd Ha].
    unfold parse_coord. cbn [coord_starts_with]. rewrite N.eqb_refl.
    unfold parse_dir_arg_coord.
    replace (c_at :: d ++ [c_lparen] ++ a ++ [c_colon; c_rparen])
      with ((c_at :: d) ++ c_lparen :: (a ++ [c_colon; c_rparen])) by reflexivity.
    rewrite split_once_app.
    2:{ change (c_at :: d) with ([c_at] ++ d). rewrite mem_app, (nm_no c_lparen d Hd) by punct. reflexivity. }
    unfold parse_dir_coord. cbn [strip_prefix]. rewrite N.eqb_refl, Hd.
    now rewrite parse_arg_tail_ok.
Qed.

Lemma parse_arg_tail_inv rest a :
  parse_arg_tail rest = Some a -> rest = a ++ [c_colon; c_rparen] /\ is_valid_name a = true.
Proof.
  unfold parse_arg_tail. destruct (split_once c_colon rest) as [[x y]|] eqn:E; [|discriminate].
  destruct y as [|c [|? ?]]; try discriminate.
  destruct (N.eqb_spec c c_rparen) as [->|]; [|discriminate].
  destruct (is_valid_name x) eqn:Hx; [|discriminate]. intros [= <-].
  apply split_once_sound in E as [-> _]. auto.
Qed.

Lemma parse_attr_inv s t f :
  parse_attr_coord s = Some (t, f) ->
  s = t ++ [c_dot] ++ f /\ is_valid_name t = true /\ is_valid_name f = true.
Proof.
  unfold parse_attr_coord. destruct (split_once c_dot s) as [[x y]|] eqn:E; [|discriminate].
  destruct (is_valid_name x) eqn:Hx; [|discriminate].
  destruct (is_valid_name y) eqn:Hy; [|discriminate]. intros [= <- <-].
  apply split_once_sound in E as [-> _]. auto.
Qed.

Lemma parse_dir_inv s d :
  parse_dir_coord s = Some d -> s = c_at :: d /\ is_valid_name d = true.
Proof.
  unfold parse_dir_coord. destruct s as [|c r]; cbn [strip_prefix]; [discriminate|].
  destruct (N.eqb_spec c c_at) as [->|]; [|discriminate].
  destruct (is_valid_name r) eqn:H; [|discriminate]. intros [= <-]. auto.
Qed.

Theorem parse_print s c :
  parse_coord s = Some c -> print_coord c = s /\ wf_coord c = true.
Proof.
  unfold parse_coord. destruct (coord_starts_with c_at s).
  - destruct (parse_dir_arg_coord s) as [[d a]|] eqn:E.
    + intros [= <-]. unfold parse_dir_arg_coord in E.
      destruct (split_once c_lparen s) as [[x rest]|] eqn:Es; [|discriminate].
      destruct (parse_dir_coord x) as [d'|] eqn:Ed; [|discriminate].
      destruct (parse_arg_tail rest) as [a'|] eqn:Ea; [|discriminate].
      injection E as -> ->.
      apply parse_dir_inv in Ed as [-> Hd]. apply parse_arg_tail_inv in Ea as [-> Ha].
      apply split_once_sound in Es as [-> _]. cbn [print_coord wf_coord].
      rewrite Hd, Ha. split; reflexivity.
    + destruct (parse_dir_coord s) as [d|] eqn:Ed; [|discriminate].
      intros [= <-]. apply parse_dir_inv in Ed as [-> Hd]. cbn. auto.
  - destruct (parse_field_arg_coord s) as [[[t f] a]|] eqn:E.
    + intros [= <-]. unfold parse_field_arg_coord in E.
      destruct (split_once c_lparen s) as [[x rest]|] eqn:Es; [|discriminate].
      destruct (parse_attr_coord x) as [[t' f']|] eqn:Ed; [|discriminate].
      destruct (parse_arg_tail rest) as [a'|] eqn:Ea; [|discriminate].
      injection E as -> -> ->.
      apply parse_attr_inv in Ed as [-> [Ht Hf]]. apply parse_arg_tail_inv in Ea as [-> Ha].
      apply split_once_sound in Es as [-> _]. cbn [print_coord wf_coord].
      rewrite Ht, Hf, Ha. split; [now rewrite <- !app_assoc|reflexivity].
    + destruct (parse_attr_coord s) as [[t f]|] eqn:Ea.
      * intros [= <-]. apply parse_attr_inv in Ea as [-> [Ht Hf]]. cbn [print_coord wf_coord].
        now rewrite Ht, Hf.
      * unfold parse_type_coord. destruct (is_valid_name s) eqn:Hs; [|discriminate].
        intros [= <-]. cbn. auto.
Qed.

Lemma shape_of_wf c : wf_coord c = true -> CoordShape (print_coord c).
Proof.
  destruct c; cbn [wf_coord print_coord]; rewrite ?andb_true_iff, ?is_valid_name_spec;
    intros; repeat match goal with H : _ /\ _ |- _ => destruct H end; now constructor.
Qed.

Lemma wf_of_shape s : CoordShape s -> exists c, wf_coord c = true /\ print_coord c = s.
Proof.
  intros [t Ht|t f Ht Hf|t f a Ht Hf Ha|d Hd|d a Hd Ha];
    rewrite <- ?is_valid_name_spec in *.
  - exists (CType t). auto.
  - exists (CAttr t f). cbn. now rewrite Ht, Hf.
  - exists (CFieldArg t f a). cbn. now rewrite Ht, Hf, Ha.
  - exists (CDir d). auto.
  - exists (CDirArg d a). cbn. now rewrite Hd, Ha.
Qed.

Theorem parse_iff s : (exists c, parse_coord s = Some c) <-> CoordShape s.
Proof.
  split.
  - intros [c H]. apply parse_print in H as [<- Hw]. now apply shape_of_wf.
  - intros H. apply wf_of_shape in H as [c [Hw <-]]. exists c. now apply print_parse.
Qed.

(* ---- coord_lookup ---- *)

Lemma str_eqb_eq a b : coord_str_eqb a b = true <-> a = b.
Proof.
  revert b. induction a as [|x a IH]; destruct b as [|y b]; cbn [coord_str_eqb]; try (split; [discriminate|congruence]).
  - tauto.
  - rewrite andb_true_iff, IH, N.eqb_eq. split; [intros [-> ->]; reflexivity|intros [= -> ->]; auto].
Qed.

Lemma str_eqb_refl a : coord_str_eqb a a = true.
Proof. now apply str_eqb_eq. Qed.

Lemma assoc_in {A} k (m : list (str * A)) v : coord_assoc k m = Some v -> In (k, v) m.
Proof.
  induction m as [|[k' v'] m IH]; cbn [coord_assoc]; [discriminate|].
  destruct (coord_str_eqb k k') eqn:E.
  - intros [= ->]. apply str_eqb_eq in E as ->. now left.
  - intros H. right. auto.
Qed.

Lemma assoc_nodup {A} k (m : list (str * A)) v :
  NoDup (map fst m) -> In (k, v) m -> coord_assoc k m = Some v.
Proof.
  induction m as [|[k' v'] m IH]; cbn [coord_assoc map fst]; [contradiction|].
  intros Hnd Hin. inversion Hnd as [|? ? Hni Hnd']; subst.
  destruct Hin as [[= -> ->]|Hin].
  - now rewrite str_eqb_refl.
  - destruct (coord_str_eqb k k') eqn:E.
    + apply str_eqb_eq in E as ->. exfalso. apply Hni. apply (in_map fst) in Hin. exact Hin.
    + auto.
Qed.

Lemma assoc_none {A} k (m : list (str * A)) : coord_assoc k m = None -> ~ In k (map fst m).
Proof.
  induction m as [|[k' v'] m IH]; cbn [coord_assoc map fst]; [auto|].
  destruct (coord_str_eqb k k') eqn:E; [discriminate|].
  intros H [->|Hin]; [now rewrite str_eqb_refl in E|]. now apply IH.
Qed.

Lemma find_arg_some a args x : coord_find_arg a args = Some x -> x = a /\ In a args.
Proof.
  unfold coord_find_arg. intros H. apply find_some in H as [Hin He]. apply str_eqb_eq in He as ->. auto.
Qed.

Lemma find_arg_in a args : In a args -> coord_find_arg a args = Some a.
Proof.
  unfold coord_find_arg. induction args as [|y args IH]; cbn [find]; [contradiction|].
  destruct (coord_str_eqb a y) eqn:E.
  - apply str_eqb_eq in E as ->. reflexivity.
  - intros [->|H]; [now rewrite str_eqb_refl in E|auto].
Qed.

Lemma find_arg_none a args : coord_find_arg a args = None -> ~ In a args.
Proof.
  intros H Hin. rewrite (find_arg_in _ _ Hin) in H. discriminate.
Qed.

Lemma keys_agree_in {A} (nm : A -> str) m k v : keys_agree nm m -> In (k, v) m -> nm v = k.
Proof. unfold keys_agree. rewrite Forall_forall. intros H Hin. exact (H _ Hin). Qed.

Lemma in_snd {A B} (k : A) (v : B) m : In (k, v) m -> In v (map snd m).
Proof. intros H. now apply (in_map snd) in H. Qed.

Definition nodup_schema (s : coord_schema) : Prop :=
  NoDup (map fst (cs_types s)) /\ NoDup (map fst (cs_dirs s)) /\
  Forall (fun kv => NoDup (map fst (ct_attrs (snd kv)))) (cs_types s).

Lemma lookup_attr_inr s t a k fd :
  wf_schema s -> coord_lookup_attr t a s = inr (k, fd) ->
  exists td, In td (map snd (cs_types s)) /\ ct_name td = t /\ ct_kind td = k /\
             k <> CKUnion /\ k <> CKScalar /\
             In fd (map snd (ct_attrs td)) /\ cf_name fd = a.
Proof.
  intros (Ht & _ & Ha). unfold coord_lookup_attr, coord_lookup_type.
  destruct (coord_assoc t (cs_types s)) as [td|] eqn:E; [|discriminate].
  apply assoc_in in E. pose proof (keys_agree_in _ _ _ _ Ht E) as Hn. cbn in Hn.
  rewrite Forall_forall in Ha. specialize (Ha _ E). cbn in Ha.
  destruct (ct_kind td) eqn:Ek; try discriminate;
    (destruct (coord_assoc a (ct_attrs td)) as [fd'|] eqn:E2; [|discriminate]);
    intros [= <- <-]; apply assoc_in in E2;
    exists td; (repeat split; try assumption; try discriminate;
                [eapply in_snd; eassumption|eapply in_snd; eassumption|
                 apply (keys_agree_in _ _ _ _ Ha E2)]).
Qed.

Theorem lookup_sound s c x :
  wf_schema s -> coord_lookup c s = CoordOk x -> HasCoord s c x.
Proof.
  intros Hwf. pose proof Hwf as (Ht & Hd & Ha).
  destruct c as [t|t a|t f a|d|d a]; cbn [coord_lookup].
  - unfold coord_lookup_type. destruct (coord_assoc t (cs_types s)) as [td|] eqn:E; [|discriminate].
    intros [= <-]. apply assoc_in in E. pose proof (keys_agree_in _ _ _ _ Ht E) as Hn. cbn in Hn.
    rewrite Hn. econstructor; [eapply in_snd; eassumption|assumption].
  - destruct (coord_lookup_attr t a s) as [e|[k fd]] eqn:E.
    + intros ->. unfold coord_lookup_attr in E. destruct (coord_lookup_type t s) as [t0|]; [|discriminate].
      destruct (ct_kind t0); try discriminate; destruct (coord_assoc a (ct_attrs t0)); discriminate.
    + apply (lookup_attr_inr _ _ _ _ _ Hwf) in E as (td & Hin & Hn & Hk & Hu & Hs & Hfd & Hfn).
      destruct k; try congruence; intros [= <-]; rewrite Hfn.
      * eapply HC_field; eauto.
      * eapply HC_field; eauto.
      * eapply HC_enum; eauto.
      * eapply HC_input; eauto.
  - destruct (coord_lookup_attr t f s) as [e|[k fd]] eqn:E.
    + intros ->. unfold coord_lookup_attr in E. destruct (coord_lookup_type t s) as [t0|]; [|discriminate].
      destruct (ct_kind t0); try discriminate; destruct (coord_assoc f (ct_attrs t0)); discriminate.
    + apply (lookup_attr_inr _ _ _ _ _ Hwf) in E as (td & Hin & Hn & Hk & Hu & Hs & Hfd & Hfn).
      destruct k; try discriminate;
        (destruct (coord_find_arg a (cf_args fd)) as [y|] eqn:Ef; [|discriminate]);
        intros [= <-]; apply find_arg_some in Ef as [-> Hina];
        eapply HC_farg; eauto.
  - destruct (coord_assoc d (cs_dirs s)) as [fd|] eqn:E; [|discriminate].
    intros [= <-]. apply assoc_in in E. pose proof (keys_agree_in _ _ _ _ Hd E) as Hn. cbn in Hn.
    rewrite Hn. econstructor; [eapply in_snd; eassumption|assumption].
  - destruct (coord_assoc d (cs_dirs s)) as [fd|] eqn:E; [|discriminate].
    destruct (coord_find_arg a (cf_args fd)) as [y|] eqn:Ef; [|discriminate].
    intros [= <-]. apply find_arg_some in Ef as [-> Hina].
    apply assoc_in in E. pose proof (keys_agree_in _ _ _ _ Hd E) as Hn. cbn in Hn.
    econstructor; [eapply in_snd; eassumption|assumption|assumption].
Qed.

Lemma in_snd_inv {A B} (v : B) (m : list (A * B)) : In v (map snd m) -> exists k, In (k, v) m.
Proof. rewrite in_map_iff. intros [[k v'] [<- H]]. now exists k. Qed.

Lemma assoc_of_member {A} (nm : A -> str) m v :
  keys_agree nm m -> NoDup (map fst m) -> In v (map snd m) -> coord_assoc (nm v) m = Some v.
Proof.
  intros Hk Hnd Hin. apply in_snd_inv in Hin as [k Hin].
  rewrite (keys_agree_in _ _ _ _ Hk Hin). now apply assoc_nodup.
Qed.

Theorem lookup_complete s c x :
  wf_schema s -> nodup_schema s -> HasCoord s c x -> coord_lookup c s = CoordOk x.
Proof.
  intros (Ht & Hd & Ha) (Nt & Nd & Na) H.
  assert (Hattr : forall td, In td (map snd (cs_types s)) ->
            keys_agree cf_name (ct_attrs td) /\ NoDup (map fst (ct_attrs td))).
  { intros td Hin. apply in_snd_inv in Hin as [k Hin].
    rewrite Forall_forall in Ha, Na. split; [exact (Ha _ Hin)|exact (Na _ Hin)]. }
  destruct H as [t td Hin Hn|t a td fd Hin Hn Hk Hf Hfn|t a td fd Hin Hn Hk Hf Hfn|
                 t a td fd Hin Hn Hk Hf Hfn|t f a td fd Hin Hn Hk Hf Hfn Hia|d fd Hin Hn|d a fd Hin Hn Hia];
    cbn [coord_lookup]; unfold coord_lookup_attr, coord_lookup_type.
  - subst t. rewrite (assoc_of_member ct_name _ _ Ht Nt Hin). reflexivity.
  - subst t a. rewrite (assoc_of_member ct_name _ _ Ht Nt Hin).
    destruct (Hattr _ Hin) as [Ka Nda]. rewrite (assoc_of_member cf_name _ _ Ka Nda Hf).
    destruct Hk as [-> | ->]; reflexivity.
  - subst t a. rewrite (assoc_of_member ct_name _ _ Ht Nt Hin).
    destruct (Hattr _ Hin) as [Ka Nda]. rewrite (assoc_of_member cf_name _ _ Ka Nda Hf).
    rewrite Hk. reflexivity.
  - subst t a. rewrite (assoc_of_member ct_name _ _ Ht Nt Hin).
    destruct (Hattr _ Hin) as [Ka Nda]. rewrite (assoc_of_member cf_name _ _ Ka Nda Hf).
    rewrite Hk. reflexivity.
  - subst t f. rewrite (assoc_of_member ct_name _ _ Ht Nt Hin).
    destruct (Hattr _ Hin) as [Ka Nda]. rewrite (assoc_of_member cf_name _ _ Ka Nda Hf).
    destruct Hk as [-> | ->]; now rewrite (find_arg_in _ _ Hia).
  - subst d. now rewrite (assoc_of_member cf_name _ _ Hd Nd Hin).
  - subst d. rewrite (assoc_of_member cf_name _ _ Hd Nd Hin). now rewrite (find_arg_in _ _ Hia).
Qed.

(* an error means: no element of the coord_schema has that coordinate *)
Theorem lookup_err_iff s c :
  wf_schema s -> nodup_schema s ->
  ((exists e, coord_lookup c s = CoordErr e) <-> (forall x, ~ HasCoord s c x)).
Proof.
  intros Hwf Hnd. split.
  - intros [e He] x Hx. rewrite (lookup_complete _ _ _ Hwf Hnd Hx) in He. discriminate.
  - intros H. destruct (coord_lookup c s) as [x|e] eqn:E; [|now exists e].
    exfalso. exact (H x (lookup_sound _ _ _ Hwf E)).
Qed.
