(* C08 — crates/apollo-compiler/src/ast/serialize.rs as an executable model.
   One Gallina function per `serialize_impl`, same order of writes; `State` is Ast/PrintState.v,
   strings are Ast/PrintString.v.  `ast_print cfg d` is `d.serialize()` with the builder configuration
   cfg, rendered by `to_string()` (impl Display for Serialize<'_, Document>). *)
From ApolloVerif Require Import Base.Chars Ast.Ast Ast.PrintState Ast.PrintString.
From Coq Require Import String.

(* ---- constants *)
Notation ap_const s := ltac:(let x := eval vm_compute in (ap_lit s%string) in exact x) (only parsing).
Definition apk_query : str := ap_const "query".
Definition apk_mutation : str := ap_const "mutation".
Definition apk_subscription : str := ap_const "subscription".
Definition apk_fragment : str := ap_const "fragment".
Definition apk_on : str := ap_const "on".
Definition apk_directive : str := ap_const "directive".
Definition apk_repeatable : str := ap_const "repeatable".
Definition apk_schema : str := ap_const "schema".
Definition apk_scalar : str := ap_const "scalar".
Definition apk_type : str := ap_const "type".
Definition apk_interface : str := ap_const "interface".
Definition apk_implements : str := ap_const "implements".
Definition apk_union : str := ap_const "union".
Definition apk_enum : str := ap_const "enum".
Definition apk_input : str := ap_const "input".
Definition apk_extend : str := ap_const "extend".
Definition apk_null : str := ap_const "null".
Definition apk_true : str := ap_const "true".
Definition apk_false : str := ap_const "false".
Definition ap_spread : str := [c_dot; c_dot; c_dot].
Definition ap_sp : str := [c_space].

(* OperationType::name *)
Definition ap_optype_name (o : optype) : str :=
  match o with OpQuery => apk_query | OpMutation => apk_mutation | OpSubscription => apk_subscription end.

(* DirectiveLocation::name *)
Definition ap_dirloc_name (l : dirloc) : str :=
  match l with
  | LQuery => ap_const "QUERY"
  | LMutation => ap_const "MUTATION"
  | LSubscription => ap_const "SUBSCRIPTION"
  | LField => ap_const "FIELD"
  | LFragmentDefinition => ap_const "FRAGMENT_DEFINITION"
  | LFragmentSpread => ap_const "FRAGMENT_SPREAD"
  | LInlineFragment => ap_const "INLINE_FRAGMENT"
  | LVariableDefinition => ap_const "VARIABLE_DEFINITION"
  | LSchema => ap_const "SCHEMA"
  | LScalar => ap_const "SCALAR"
  | LObject => ap_const "OBJECT"
  | LFieldDefinition => ap_const "FIELD_DEFINITION"
  | LArgumentDefinition => ap_const "ARGUMENT_DEFINITION"
  | LInterface => ap_const "INTERFACE"
  | LUnion => ap_const "UNION"
  | LEnum => ap_const "ENUM"
  | LEnumValue => ap_const "ENUM_VALUE"
  | LInputObject => ap_const "INPUT_OBJECT"
  | LInputFieldDefinition => ap_const "INPUT_FIELD_DEFINITION"
  end.

(* impl fmt::Display for Type *)
Fixpoint ap_type_text (t : ty) : str :=
  match t with
  | TNamed n => n
  | TNonNullNamed n => n ++ [c_bang]
  | TList t => [c_lbrack] ++ ap_type_text t ++ [c_rbrack]
  | TNonNullList t => [c_lbrack] ++ ap_type_text t ++ [c_rbrack; c_bang]
  end.

(* ---- the two list layouts *)
(* fn comma_separated(state, open, close, values, serialize_one); items = map serialize_one values *)
Definition ap_comma_separated (open close : str) (items : list ap_m) : ap_m :=
  ap_write open ;;
  match items with
  | [] => ap_skip
  | first :: rest =>
      ap_indent ;;
      first ;;
      ap_all (map (fun it => ap_write [c_comma] ;; ap_new_line_or_space ;; it) rest) ;;
      ap_if_newlines (ap_write [c_comma]) ;;      (* trailing comma *)
      ap_dedent
  end ;;
  ap_write close.

(* fn curly_brackets_space_separated(state, values, serialize_one) *)
Definition ap_curly (items : list ap_m) : ap_m :=
  ap_write [c_lbrace] ;;
  match items with
  | [] => ap_skip
  | first :: rest =>
      ap_indent_or_space ;;
      first ;;
      ap_all (map (fun it => ap_new_line_or_space ;; it) rest) ;;
      ap_dedent_or_space
  end ;;
  ap_write [c_rbrace].

(* fn top_level(state, iter, serialize_one) *)
Definition ap_top_level (items : list ap_m) : ap_m :=
  match items with
  | [] => ap_skip
  | first :: rest =>
      first ;;
      ap_all (map (fun it => ap_if_newlines (ap_write [c_lf]) ;; ap_new_line_or_space ;; it) rest) ;;
      ap_if_newlines (ap_write [c_lf])            (* trailing newline *)
  end.

(* ---- values, arguments, directives *)
Fixpoint ap_value (v : value) : ap_m :=
  match v with
  | VNull => ap_write apk_null
  | VBool true => ap_write apk_true
  | VBool false => ap_write apk_false
  | VEnum n => ap_write n
  | VString s => aps_serialize_string_value false s
  | VVar n => ap_display ([c_dollar] ++ n)
  | VFloat t => ap_display t
  | VInt t => ap_display t
  | VList l => ap_comma_separated [c_lbrack] [c_rbrack] (map ap_value l)
  | VObject fs =>
      ap_comma_separated [c_lbrace] [c_rbrace]
        (map (fun nv => ap_write (fst nv) ;; ap_write [c_colon; c_space] ;; ap_value (snd nv)) fs)
  end.

Definition ap_argument (a : argument) : ap_m :=
  ap_write (fst a) ;; ap_write [c_colon; c_space] ;; ap_value (snd a).

(* fn serialize_arguments *)
Definition ap_arguments (args : list argument) : ap_m :=
  match args with
  | [] => ap_skip
  | _ => ap_on_single_line (ap_comma_separated [c_lparen] [c_rparen] (map ap_argument args))
  end.

Definition ap_directive (d : directive) : ap_m :=
  ap_write [c_at] ;; ap_write (d_name d) ;; ap_arguments (d_args d).

(* impl DirectiveList *)
Definition ap_directives (ds : list directive) : ap_m :=
  ap_all (map (fun d => ap_write ap_sp ;; ap_directive d) ds).

(* ---- executable definitions *)
Definition ap_vardef (v : vardef) : ap_m :=
  ap_write [c_dollar] ;; ap_write (v_name v) ;; ap_write [c_colon; c_space] ;;
  ap_display (ap_type_text (v_ty v)) ;;
  match v_default v with
  | Some d => ap_write [c_space; c_eq; c_space] ;; ap_value d
  | None => ap_skip
  end ;;
  ap_directives (v_dirs v).

Fixpoint ap_selection (s : selection) : ap_m :=
  match s with
  | SField alias name args dirs sels =>
      match alias with
      | Some a => ap_write a ;; ap_write [c_colon; c_space]
      | None => ap_skip
      end ;;
      ap_write name ;;
      ap_arguments args ;;
      ap_directives dirs ;;
      match sels with
      | [] => ap_skip
      | _ => ap_write ap_sp ;; ap_curly (map ap_selection sels)
      end
  | SSpread name dirs =>
      ap_write ap_spread ;; ap_write name ;; ap_directives dirs
  | SInline cond dirs sels =>
      match cond with
      | Some t => ap_write (ap_spread ++ ap_sp ++ apk_on ++ ap_sp) ;; ap_write t
      | None => ap_write ap_spread
      end ;;
      ap_directives dirs ;;
      ap_write ap_sp ;;
      ap_curly (map ap_selection sels)
  end.

Definition ap_is_empty {A} (l : list A) : bool := match l with [] => true | _ => false end.

Definition ap_operation (op : optype) (name : option str) (vars : list vardef)
    (dirs : list directive) (sels : list selection) : ap_m := fun st =>
  (* Only use shorthand when this is the first item. *)
  let shorthand :=
    ap_empty st && (match op with OpQuery => true | _ => false end) &&
    (match name with None => true | Some _ => false end) && ap_is_empty vars && ap_is_empty dirs in
  ((if negb shorthand then
      ap_write (ap_optype_name op) ;;
      match name with Some n => ap_write ap_sp ;; ap_write n | None => ap_skip end ;;
      match vars with
      | [] => ap_skip
      | _ => ap_on_single_line (ap_comma_separated [c_lparen] [c_rparen] (map ap_vardef vars))
      end ;;
      ap_directives dirs ;;
      ap_write ap_sp
    else ap_skip) ;;
   ap_curly (map ap_selection sels)) st.

Definition ap_fragment (name cond : str) (dirs : list directive) (sels : list selection) : ap_m :=
  ap_display (apk_fragment ++ ap_sp ++ name ++ ap_sp ++ apk_on ++ ap_sp ++ cond) ;;
  ap_directives dirs ;;
  ap_write ap_sp ;;
  ap_curly (map ap_selection sels).

(* ---- type-system definitions *)
Definition ap_inputvaldef (v : inputvaldef) : ap_m :=
  aps_serialize_description (iv_desc v) ;;
  ap_write (iv_name v) ;;
  ap_write [c_colon; c_space] ;;
  ap_display (ap_type_text (iv_ty v)) ;;
  match iv_default v with
  | Some d => ap_write [c_space; c_eq; c_space] ;; ap_value d
  | None => ap_skip
  end ;;
  ap_directives (iv_dirs v).

(* fn serialize_arguments_definition *)
Definition ap_arguments_definition (args : list inputvaldef) : ap_m :=
  match args with
  | [] => ap_skip
  | _ =>
      let serialize_arguments :=
        ap_comma_separated [c_lparen] [c_rparen] (map ap_inputvaldef args) in
      if existsb (fun a => (match iv_desc a with Some _ => true | None => false end) ||
                           negb (ap_is_empty (iv_dirs a))) args
      then serialize_arguments
      else ap_on_single_line serialize_arguments
  end.

Definition ap_fielddef (f : fielddef) : ap_m :=
  aps_serialize_description (fd_desc f) ;;
  ap_write (fd_name f) ;;
  ap_arguments_definition (fd_args f) ;;
  ap_write [c_colon; c_space] ;;
  ap_display (ap_type_text (fd_ty f)) ;;
  ap_directives (fd_dirs f).

Definition ap_enumvaldef (e : enumvaldef) : ap_m :=
  aps_serialize_description (ev_desc e) ;;
  ap_write (ev_value e) ;;
  ap_directives (ev_dirs e).

(* `display!(state, "{}: {}", operation_type, operation_name)` *)
Definition ap_rootop (r : rootop) : ap_m :=
  ap_display (ap_optype_name (fst r) ++ [c_colon; c_space] ++ snd r).

Definition ap_directive_definition (desc : option str) (name : str) (args : list inputvaldef)
    (repeatable : bool) (locs : list dirloc) : ap_m :=
  aps_serialize_description desc ;;
  ap_write (apk_directive ++ [c_space; c_at]) ;;
  ap_write name ;;
  ap_arguments_definition args ;;
  (if repeatable then ap_write (ap_sp ++ apk_repeatable) else ap_skip) ;;
  match locs with
  | [] => ap_skip
  | first :: rest =>
      ap_write (ap_sp ++ apk_on ++ ap_sp) ;;
      ap_write (ap_dirloc_name first) ;;
      ap_all (map (fun l => ap_write [c_space; c_pipe; c_space] ;; ap_write (ap_dirloc_name l)) rest)
  end.

Definition ap_schema_definition (desc : option str) (dirs : list directive) (roots : list rootop)
    : ap_m :=
  aps_serialize_description desc ;;
  ap_write apk_schema ;;
  ap_directives dirs ;;
  ap_write ap_sp ;;
  ap_curly (map ap_rootop roots).

(* fn serialize_object_type_like *)
Definition ap_object_type_like (name : str) (impls : list str) (dirs : list directive)
    (fields : list fielddef) : ap_m :=
  ap_write name ;;
  match impls with
  | [] => ap_skip
  | first :: rest =>
      ap_write (ap_sp ++ apk_implements ++ ap_sp) ;;
      ap_write first ;;
      ap_all (map (fun n => ap_write [c_space; c_amp; c_space] ;; ap_write n) rest)
  end ;;
  ap_directives dirs ;;
  match fields with
  | [] => ap_skip
  | _ => ap_write ap_sp ;; ap_curly (map ap_fielddef fields)
  end.

(* fn serialize_union *)
Definition ap_union (name : str) (dirs : list directive) (members : list str) : ap_m :=
  ap_write name ;;
  ap_directives dirs ;;
  match members with
  | [] => ap_skip
  | first :: rest =>
      ap_write [c_space; c_eq; c_space] ;;
      ap_write first ;;
      ap_all (map (fun n => ap_write [c_space; c_pipe; c_space] ;; ap_write n) rest)
  end.

(* enum and input object bodies: name, directives, optional braces *)
Definition ap_name_dirs_body (name : str) (dirs : list directive) (body : list ap_m) : ap_m :=
  ap_write name ;;
  ap_directives dirs ;;
  match body with
  | [] => ap_skip
  | _ => ap_write ap_sp ;; ap_curly body
  end.

Definition ap_definition (d : definition) : ap_m :=
  match d with
  | DOperation op name vars dirs sels => ap_operation op name vars dirs sels
  | DFragment name cond dirs sels => ap_fragment name cond dirs sels
  | DDirective desc name args rep locs => ap_directive_definition desc name args rep locs
  | DSchema desc dirs roots => ap_schema_definition desc dirs roots
  | DScalar desc name dirs =>
      aps_serialize_description desc ;; ap_write (apk_scalar ++ ap_sp) ;; ap_write name ;;
      ap_directives dirs
  | DObject desc name impls dirs fields =>
      aps_serialize_description desc ;; ap_write (apk_type ++ ap_sp) ;;
      ap_object_type_like name impls dirs fields
  | DInterface desc name impls dirs fields =>
      aps_serialize_description desc ;; ap_write (apk_interface ++ ap_sp) ;;
      ap_object_type_like name impls dirs fields
  | DUnion desc name dirs members =>
      aps_serialize_description desc ;; ap_write (apk_union ++ ap_sp) ;; ap_union name dirs members
  | DEnum desc name dirs values =>
      aps_serialize_description desc ;; ap_write (apk_enum ++ ap_sp) ;;
      ap_name_dirs_body name dirs (map ap_enumvaldef values)
  | DInput desc name dirs fields =>
      aps_serialize_description desc ;; ap_write (apk_input ++ ap_sp) ;;
      ap_name_dirs_body name dirs (map ap_inputvaldef fields)
  | XSchema dirs roots =>
      ap_write (apk_extend ++ ap_sp ++ apk_schema) ;;
      ap_directives dirs ;;
      match roots with
      | [] => ap_skip
      | _ => ap_write ap_sp ;; ap_curly (map ap_rootop roots)
      end
  | XScalar name dirs =>
      ap_write (apk_extend ++ ap_sp ++ apk_scalar ++ ap_sp) ;; ap_write name ;; ap_directives dirs
  | XObject name impls dirs fields =>
      ap_write (apk_extend ++ ap_sp ++ apk_type ++ ap_sp) ;; ap_object_type_like name impls dirs fields
  | XInterface name impls dirs fields =>
      ap_write (apk_extend ++ ap_sp ++ apk_interface ++ ap_sp) ;;
      ap_object_type_like name impls dirs fields
  | XUnion name dirs members =>
      ap_write (apk_extend ++ ap_sp ++ apk_union ++ ap_sp) ;; ap_union name dirs members
  | XEnum name dirs values =>
      ap_write (apk_extend ++ ap_sp ++ apk_enum ++ ap_sp) ;;
      ap_name_dirs_body name dirs (map ap_enumvaldef values)
  | XInput name dirs fields =>
      ap_write (apk_extend ++ ap_sp ++ apk_input ++ ap_sp) ;;
      ap_name_dirs_body name dirs (map ap_inputvaldef fields)
  end.

(* impl Document: serialize_impl *)
Definition ap_document (d : document) : ap_m := ap_top_level (map ap_definition d).

(* ---- the builder configuration and `impl Display for Serialize<'_, Document>` *)
Record print_config := { pc_prefix : option str; pc_level : N }.

Definition pc_default : print_config := {| pc_prefix := Some [c_space; c_space]; pc_level := 0 |}.

Definition ap_init_state (cfg : print_config) : ap_state :=
  {| ap_prefix := pc_prefix cfg; ap_level := pc_level cfg; ap_empty := true |}.

Definition ap_display_document (d : document) : ap_m := fun st =>
  ((* Indent the first line. *)
   match ap_prefix st with
   | Some p => ap_repeat (N.to_nat (ap_level st)) (ap_write p)
   | None => ap_skip
   end ;;
   ap_document d) st.

Definition ast_print (cfg : print_config) (d : document) : ap_outcome str :=
  match ap_display_document d (ap_init_state cfg) with
  | ApOk (text, _) => ApOk text
  | ApPanic w => ApPanic w
  end.
