(* Model of the numeric literal code of crates/apollo-compiler/src/ast/impls.rs:
   IntValue::valid_syntax, FloatValue::valid_syntax / valid_fractional_syntax, From<i32>, From<f64>,
   try_to_i32; plus the independent specification grammars (October 2021, 2.9.1 and 2.9.2).
   Definitions only; proofs in NumbersProofs.v. *)
From ApolloVerif Require Import Base.Chars Base.Utf8.
From Coq Require Import ZArith.

(* ---------- the code ---------- *)

(* the slice patterns of IntValue::valid_syntax over `.as_bytes()`:
     [b'0'..=b'9'] => true,  [b'1'..=b'9', rest @ ..] => rest.iter().all(is_ascii_digit),  _ => false *)
Definition num_int_valid_bytes (bytes : list N) : bool :=
  match bytes with
  | [b] => if is_digit b then true
           else if (49 <=? b) && (b <=? 57) then forallb is_digit [] else false
  | b :: rest => if (49 <=? b) && (b <=? 57) then forallb is_digit rest else false
  | [] => false
  end.

(* text.strip_prefix('-').unwrap_or(text) *)
Definition num_strip_minus (text : str) : str :=
  match strip_prefix c_minus text with Some r => r | None => text end.

(* IntValue::valid_syntax *)
Definition num_int_valid_syntax (text : str) : bool :=
  num_int_valid_bytes (utf8_bytes (num_strip_minus text)).

(* str::split_once / strip_prefix with a set-of-chars pattern (['e','E'], ['+','-']) *)
Fixpoint num_split_once_p (p : N -> bool) (s : str) : option (str * str) :=
  match s with
  | [] => None
  | c :: r =>
      if p c then Some ([], r)
      else match num_split_once_p p r with
           | None => None
           | Some (a, b) => Some (c :: a, b)
           end
  end.
Definition num_strip_prefix_p (p : N -> bool) (s : str) : option str :=
  match s with c :: r => if p c then Some r else None | [] => None end.

Definition num_is_e (c : N) : bool := (c =? 101) || (c =? 69).
Definition num_is_sign (c : N) : bool := (c =? c_plus) || (c =? c_minus).

Definition num_is_empty (s : str) : bool := match s with [] => true | _ => false end.

(* FloatValue::valid_fractional_syntax *)
Definition num_float_valid_fractional (integer fractional : str) : bool :=
  num_int_valid_syntax integer
  && negb (num_is_empty fractional)
  && forallb is_digit (utf8_bytes fractional).

(* FloatValue::valid_syntax *)
Definition num_float_valid_syntax (text : str) : bool :=
  match num_split_once_p num_is_e text with
  | Some (mantissa, exponent) =>
      let exponent :=
        match num_strip_prefix_p num_is_sign exponent with Some r => r | None => exponent end in
      if num_is_empty exponent || negb (forallb is_digit (utf8_bytes exponent)) then false
      else
        match split_once c_dot mantissa with
        | Some (int, fract) => num_float_valid_fractional int fract
        | None => num_int_valid_syntax mantissa
        end
  | None =>
      match split_once c_dot text with
      | Some (int, fract) => num_float_valid_fractional int fract
      | None => false
      end
  end.

(* FloatValue::valid_syntax as it was before commit c6646f2 ("fix: FloatValue syntax check rejects an
   exponent without digits", DESIGN.md D8): no emptiness test on the exponent.  Kept only for the
   witness lemmas C10_float_old_refuted; not extracted, not tied. *)
Definition num_float_valid_syntax_old (text : str) : bool :=
  match num_split_once_p num_is_e text with
  | Some (mantissa, exponent) =>
      let exponent :=
        match num_strip_prefix_p num_is_sign exponent with Some r => r | None => exponent end in
      if negb (forallb is_digit (utf8_bytes exponent)) then false
      else
        match split_once c_dot mantissa with
        | Some (int, fract) => num_float_valid_fractional int fract
        | None => num_int_valid_syntax mantissa
        end
  | None =>
      match split_once c_dot text with
      | Some (int, fract) => num_float_valid_fractional int fract
      | None => false
      end
  end.

(* serde Deserialize of IntValue / FloatValue: visit_str and visit_string both test valid_syntax *)
Definition num_int_deserialize (v : str) : option str :=
  if num_int_valid_syntax v then Some v else None.
Definition num_float_deserialize (v : str) : option str :=
  if num_float_valid_syntax v then Some v else None.

(* i32::to_string (std, documented behaviour): '-' for negatives, then the decimal digits of the
   magnitude, most significant first, no leading zeros, "0" for zero.  The digit loop is
   fuel-bounded; running out of fuel is None and is excluded by NumbersProofs.num_dec_total. *)
Fixpoint num_dec_loop (fuel : nat) (n : N) (acc : str) : option str :=
  match fuel with
  | O => None
  | S f =>
      let acc' := (48 + n mod 10) :: acc in
      if n / 10 =? 0 then Some acc' else num_dec_loop f (n / 10) acc'
  end.
Definition num_dec_N (n : N) : option str := num_dec_loop (S (N.size_nat n)) n [].
Definition num_dec (z : Z) : option str :=
  match z with
  | Zneg p => match num_dec_N (Npos p) with Some s => Some (c_minus :: s) | None => None end
  | _ => num_dec_N (Z.to_N z)
  end.

(* From<i32> for IntValue *)
Definition num_int_from_i32 (z : Z) : option str := num_dec z.

(* i32::from_str (std, documented behaviour), as used by IntValue::try_to_i32:
   empty -> Err; a leading '+' or '-' is a sign (alone it is an error); every other character must be
   a digit; the accumulator is multiplied by 10 and the digit added (subtracted for negatives),
   each step checked against the i32 range. *)
Definition num_i32_min : Z := (-2147483648)%Z.
Definition num_i32_max : Z := 2147483647%Z.
Definition num_in_i32 (z : Z) : bool := ((num_i32_min <=? z) && (z <=? num_i32_max))%Z.

Fixpoint num_parse_digits (neg : bool) (s : str) (acc : Z) : option Z :=
  match s with
  | [] => Some acc
  | c :: r =>
      let m := (acc * 10)%Z in
      if negb (num_in_i32 m) then None                    (* checked_mul *)
      else if negb (is_digit c) then None                 (* InvalidDigit *)
      else
        let d := Z.of_N (c - 48) in
        let a := if neg then (m - d)%Z else (m + d)%Z in
        if negb (num_in_i32 a) then None                  (* checked_add / checked_sub *)
        else num_parse_digits neg r a
  end.

Definition num_parse_i32 (s : str) : option Z :=
  match s with
  | [] => None
  | c :: r =>
      if c =? c_minus then (match r with [] => None | _ => num_parse_digits true r 0%Z end)
      else if c =? c_plus then (match r with [] => None | _ => num_parse_digits false r 0%Z end)
      else num_parse_digits false s 0%Z
  end.

(* From<f64> for FloatValue after `value.to_string()`: `if !text.contains('.') { text.push_str(".0") }` *)
Definition num_float_fixup (text : str) : str :=
  if mem c_dot text then text else text ++ [c_dot; 48].

(* ---------- the specification: October 2021, 2.9.1 Int Value and 2.9.2 Float Value ----------
   (the `[lookahead != ...]` side conditions of the token grammar concern what follows the token in
   a document; for a literal given as a whole string there is nothing following) *)

Definition SpecDigit (c : N) : Prop := 48 <= c /\ c <= 57.
Definition SpecNonZeroDigit (c : N) : Prop := 49 <= c /\ c <= 57.

(* IntegerPart :: NegativeSign? 0 | NegativeSign? NonZeroDigit Digit* *)
Inductive SpecIntegerPart : str -> Prop :=
| SIP_zero : SpecIntegerPart [48]
| SIP_neg_zero : SpecIntegerPart [c_minus; 48]
| SIP_nonzero d ds : SpecNonZeroDigit d -> Forall SpecDigit ds -> SpecIntegerPart (d :: ds)
| SIP_neg_nonzero d ds : SpecNonZeroDigit d -> Forall SpecDigit ds -> SpecIntegerPart (c_minus :: d :: ds).

(* IntValue :: IntegerPart *)
Definition SpecIntValue (s : str) : Prop := SpecIntegerPart s.

(* FractionalPart :: . Digit+ *)
Inductive SpecFractionalPart : str -> Prop :=
| SFP d ds : SpecDigit d -> Forall SpecDigit ds -> SpecFractionalPart (c_dot :: d :: ds).

(* ExponentPart :: ExponentIndicator Sign? Digit+ ; ExponentIndicator :: e E ; Sign :: + - *)
Definition SpecExponentIndicator (c : N) : Prop := c = 101 \/ c = 69.
Definition SpecSign (c : N) : Prop := c = c_plus \/ c = c_minus.
Inductive SpecExponentPart : str -> Prop :=
| SEP_unsigned e d ds : SpecExponentIndicator e -> SpecDigit d -> Forall SpecDigit ds ->
    SpecExponentPart (e :: d :: ds)
| SEP_signed e s d ds : SpecExponentIndicator e -> SpecSign s -> SpecDigit d -> Forall SpecDigit ds ->
    SpecExponentPart (e :: s :: d :: ds).

(* FloatValue :: IntegerPart FractionalPart ExponentPart | IntegerPart FractionalPart | IntegerPart ExponentPart *)
Inductive SpecFloatValue : str -> Prop :=
| SFV_ife i f e : SpecIntegerPart i -> SpecFractionalPart f -> SpecExponentPart e -> SpecFloatValue (i ++ f ++ e)
| SFV_if i f : SpecIntegerPart i -> SpecFractionalPart f -> SpecFloatValue (i ++ f)
| SFV_ie i e : SpecIntegerPart i -> SpecExponentPart e -> SpecFloatValue (i ++ e).

(* the class of defect D8 (fixed by c6646f2): there is an exponent indicator and no digit follows the optional sign *)
Definition num_empty_exponent_digits (text : str) : bool :=
  match num_split_once_p num_is_e text with
  | Some (_, exponent) =>
      num_is_empty (match num_strip_prefix_p num_is_sign exponent with Some r => r | None => exponent end)
  | None => false
  end.

(* the output shape of Rust's `{}` for a finite f64: optional '-', decimal integer digits without
   superfluous leading zeros, optionally '.' and at least one digit; never an exponent *)
Inductive RustFloatDisplayShape : str -> Prop :=
| RFS_int i : SpecIntegerPart i -> RustFloatDisplayShape i
| RFS_frac i f : SpecIntegerPart i -> SpecFractionalPart f -> RustFloatDisplayShape (i ++ f).
