(* C10, type references: print then parse is the identity, for every nesting depth within the
   recursion limit. *)
From ApolloVerif Require Import Base.Chars Ast.Ast Ast.TypeRef.
From Coq Require Import ZifyBool ZifyN.

Fixpoint tref_toks (t : ty) : list trtok :=
  match t with
  | TNamed n => [TtName n]
  | TNonNullNamed n => [TtName n; TtBang]
  | TList i => TtLBrack :: tref_toks i ++ [TtRBrack]
  | TNonNullList i => TtLBrack :: tref_toks i ++ [TtRBrack; TtBang]
  end.

(* the text after a name does not continue the name *)
Definition stops (s : str) : Prop :=
  match s with [] => True | c :: _ => is_name_continue c = false end.

Lemma lex_after_name cur s :
  cur <> [] -> stops s ->
  tref_lex cur s = option_map (cons (TtName (rev cur))) (tref_lex [] s).
Proof.
  intros Hcur Hs. destruct s as [|c r].
  - cbn [tref_lex trtok_flush option_map]. destruct cur; [congruence|reflexivity].
  - cbn [stops] in Hs. cbn [tref_lex]. rewrite Hs.
    destruct (if c =? c_lbrack then Some (Some TtLBrack)
              else if c =? c_rbrack then Some (Some TtRBrack)
              else if c =? c_bang then Some (Some TtBang)
              else if trtok_is_ignored c then Some None else None) as [k|]; [|reflexivity].
    destruct (tref_lex [] r) as [toks|]; [|reflexivity].
    cbn [option_map trtok_flush]. destruct cur; [congruence|reflexivity].
Qed.

Lemma lex_name_chars n : forall cur s,
  forallb is_name_continue n = true -> cur <> [] ->
  tref_lex cur (n ++ s) = tref_lex (rev n ++ cur) s.
Proof.
  induction n as [|c r IH]; intros cur s Hn Hcur; [reflexivity|].
  cbn [forallb] in Hn. apply andb_true_iff in Hn as [Hc Hr].
  cbn [app tref_lex]. rewrite Hc. destruct cur as [|x cur]; [congruence|].
  rewrite IH by (auto; discriminate). cbn [rev]. now rewrite <- app_assoc.
Qed.

Lemma lex_name n s :
  is_valid_name n = true -> stops s ->
  tref_lex [] (n ++ s) = option_map (cons (TtName n)) (tref_lex [] s).
Proof.
  intros Hn Hs. destruct n as [|c r]; [discriminate|]. cbn [is_valid_name] in Hn.
  apply andb_true_iff in Hn as [Hc Hr].
  cbn [app tref_lex]. unfold is_name_continue at 1. rewrite Hc. cbn [orb].
  rewrite lex_name_chars by (auto; discriminate).
  rewrite lex_after_name; [|destruct (rev r); discriminate|exact Hs].
  rewrite rev_app_distr, rev_involutive. reflexivity.
Qed.

Lemma lex_lbrack s : tref_lex [] (c_lbrack :: s) = option_map (cons TtLBrack) (tref_lex [] s).
Proof.
  cbn [tref_lex]. change (is_name_continue c_lbrack) with false. change (c_lbrack =? c_lbrack) with true.
  cbn iota. destruct (tref_lex [] s); reflexivity.
Qed.
Lemma lex_rbrack s : tref_lex [] (c_rbrack :: s) = option_map (cons TtRBrack) (tref_lex [] s).
Proof.
  cbn [tref_lex]. change (is_name_continue c_rbrack) with false. change (c_rbrack =? c_lbrack) with false.
  change (c_rbrack =? c_rbrack) with true. cbn iota. destruct (tref_lex [] s); reflexivity.
Qed.
Lemma lex_bang s : tref_lex [] (c_bang :: s) = option_map (cons TtBang) (tref_lex [] s).
Proof.
  cbn [tref_lex]. change (is_name_continue c_bang) with false. change (c_bang =? c_lbrack) with false.
  change (c_bang =? c_rbrack) with false. change (c_bang =? c_bang) with true.
  cbn iota. destruct (tref_lex [] s); reflexivity.
Qed.

Lemma stops_bang s : stops (c_bang :: s). Proof. reflexivity. Qed.
Lemma stops_rbrack s : stops (c_rbrack :: s). Proof. reflexivity. Qed.

Lemma lex_print t : tref_wf t = true -> forall s, stops s ->
  tref_lex [] (tref_print t ++ s) = option_map (app (tref_toks t)) (tref_lex [] s).
Proof.
  induction t as [n|n|i IH|i IH]; cbn [tref_wf tref_print tref_toks]; intros Hwf s Hs.
  - rewrite lex_name by assumption. destruct (tref_lex [] s); reflexivity.
  - rewrite <- app_assoc. cbn [app]. rewrite lex_name by (auto using stops_bang).
    rewrite lex_bang. destruct (tref_lex [] s); reflexivity.
  - rewrite <- !app_assoc. cbn [app]. rewrite lex_lbrack, (IH Hwf) by apply stops_rbrack.
    rewrite lex_rbrack. destruct (tref_lex [] s); cbn [option_map]; [|reflexivity].
    now rewrite <- app_assoc.
  - rewrite <- !app_assoc. cbn [app]. rewrite lex_lbrack, (IH Hwf) by apply stops_rbrack.
    rewrite lex_rbrack, lex_bang. destruct (tref_lex [] s); cbn [option_map]; [|reflexivity].
    now rewrite <- app_assoc.
Qed.

Definition not_bang (rest : list trtok) : Prop :=
  match rest with TtBang :: _ => False | _ => True end.

Lemma parse_toks_print t : forall limit rest,
  (tref_depth t <= limit)%nat -> not_bang rest ->
  tref_parse_toks limit (tref_toks t ++ rest) = TrOk t rest.
Proof.
  induction t as [n|n|i IH|i IH]; cbn [tref_depth tref_toks]; intros limit rest Hd Hr.
  - destruct limit; cbn [app tref_parse_toks]; destruct rest as [|[]]; try reflexivity; contradiction.
  - destruct limit; reflexivity.
  - destruct limit as [|l]; [inversion Hd|]. apply le_S_n in Hd.
    cbn [app tref_parse_toks]. rewrite <- app_assoc. cbn [app].
    rewrite (IH l (TtRBrack :: rest) Hd I).
    destruct rest as [|[]]; try reflexivity; contradiction.
  - destruct limit as [|l]; [inversion Hd|]. apply le_S_n in Hd.
    cbn [app tref_parse_toks]. rewrite <- app_assoc. cbn [app].
    now rewrite (IH l (TtRBrack :: TtBang :: rest) Hd I).
Qed.

Theorem type_roundtrip t limit :
  tref_wf t = true -> (tref_depth t <= limit)%nat -> tref_parse limit (tref_print t) = Some t.
Proof.
  intros Hwf Hd. unfold tref_parse.
  rewrite <- (app_nil_r (tref_print t)), (lex_print t Hwf [] I).
  cbn [tref_lex trtok_flush option_map]. now rewrite (parse_toks_print t limit [] Hd I).
Qed.

(* with no limit in the way (limit = depth), for every type *)
Corollary type_roundtrip_unbounded t :
  tref_wf t = true -> exists limit, tref_parse limit (tref_print t) = Some t.
Proof. intros Hwf. exists (tref_depth t). now apply type_roundtrip. Qed.

(* the limit is exact: one list too many is the limit error, never a wrong type *)
Lemma parse_toks_limit t : forall limit rest,
  (limit < tref_depth t)%nat -> tref_parse_toks limit (tref_toks t ++ rest) = TrLimit.
Proof.
  induction t as [n|n|i IH|i IH]; cbn [tref_depth tref_toks]; intros limit rest Hd;
    try (exfalso; inversion Hd; fail).
  - destruct limit as [|l]; [reflexivity|]. assert (Hd2 : (l < tref_depth i)%nat) by lia; clear Hd; rename Hd2 into Hd.
    cbn [app tref_parse_toks]. rewrite <- app_assoc. now rewrite (IH l _ Hd).
  - destruct limit as [|l]; [reflexivity|]. assert (Hd2 : (l < tref_depth i)%nat) by lia; clear Hd; rename Hd2 into Hd.
    cbn [app tref_parse_toks]. rewrite <- app_assoc. now rewrite (IH l _ Hd).
Qed.

Theorem type_over_limit t limit :
  tref_wf t = true -> (limit < tref_depth t)%nat -> tref_parse limit (tref_print t) = None.
Proof.
  intros Hwf Hd. unfold tref_parse.
  rewrite <- (app_nil_r (tref_print t)), (lex_print t Hwf [] I).
  cbn [tref_lex trtok_flush option_map]. now rewrite (parse_toks_limit t limit [] Hd).
Qed.
