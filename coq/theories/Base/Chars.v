(* Characters and strings shared by all models.
   A character is a Unicode scalar value c : N; a string is a list of them.
   Byte offsets are prefix sums of u8len. *)
From Coq Require Export List NArith Bool Lia.
From Coq Require Import ZifyBool ZifyN.
Export ListNotations.
Open Scope N_scope.

Arguments N.add : simpl never.
Arguments N.sub : simpl never.
Arguments N.mul : simpl never.
Arguments N.ltb : simpl never.
Arguments N.leb : simpl never.
Arguments N.eqb : simpl never.

Definition str := list N.

Definition scalar (c : N) : Prop := c < 55296 \/ (57344 <= c /\ c < 1114112).
Definition scalarb (c : N) : bool := (c <? 55296) || ((57344 <=? c) && (c <? 1114112)).

Lemma scalarb_spec c : scalarb c = true <-> scalar c.
Proof. unfold scalarb, scalar. lia. Qed.

(* UTF-8 length of a scalar value *)
Definition u8len (c : N) : N :=
  if c <? 128 then 1 else if c <? 2048 then 2 else if c <? 65536 then 3 else 4.

Fixpoint blen (s : str) : N :=
  match s with [] => 0 | c :: r => u8len c + blen r end.

Lemma blen_app a b : blen (a ++ b) = blen a + blen b.
Proof. induction a as [|c a IH]; cbn [blen app]; lia. Qed.

Lemma u8len_pos c : 1 <= u8len c.
Proof. unfold u8len. repeat (destruct (_ <? _)); lia. Qed.

(* named ASCII constants *)
Definition c_tab := 9.   Definition c_lf := 10.  Definition c_cr := 13.
Definition c_space := 32. Definition c_bang := 33. Definition c_quote := 34.
Definition c_hash := 35. Definition c_dollar := 36. Definition c_amp := 38.
Definition c_lparen := 40. Definition c_rparen := 41. Definition c_plus := 43.
Definition c_comma := 44. Definition c_minus := 45. Definition c_dot := 46.
Definition c_slash := 47. Definition c_colon := 58. Definition c_eq := 61.
Definition c_at := 64. Definition c_lbrack := 91. Definition c_bslash := 92.
Definition c_rbrack := 93. Definition c_under := 95. Definition c_lbrace := 123.
Definition c_pipe := 124. Definition c_rbrace := 125. Definition c_bom := 65279.

Definition is_digit (c : N) : bool := (48 <=? c) && (c <=? 57).
Definition is_alpha (c : N) : bool :=
  ((65 <=? c) && (c <=? 90)) || ((97 <=? c) && (c <=? 122)).
Definition is_name_start (c : N) : bool := is_alpha c || (c =? 95).
Definition is_name_continue (c : N) : bool := is_name_start c || is_digit c.

(* Name::is_valid_syntax (crates/apollo-compiler/src/name.rs), over characters.
   The code works on bytes; Utf8.v proves the byte-level loop equal to this. *)
Definition is_valid_name (s : str) : bool :=
  match s with
  | [] => false
  | c :: r => is_name_start c && forallb is_name_continue r
  end.

(* GraphQL spec: Name :: NameStart NameContinue* (lookahead handled by the lexer) *)
Definition NameStart (c : N) : Prop :=
  (65 <= c /\ c <= 90) \/ (97 <= c /\ c <= 122) \/ c = 95.
Definition NameContinue (c : N) : Prop := NameStart c \/ (48 <= c /\ c <= 57).
Inductive IsName : str -> Prop :=
| IsName_intro c r : NameStart c -> Forall NameContinue r -> IsName (c :: r).

Lemma is_name_start_spec c : is_name_start c = true <-> NameStart c.
Proof. unfold is_name_start, is_alpha, NameStart. lia. Qed.
Lemma is_name_continue_spec c : is_name_continue c = true <-> NameContinue c.
Proof.
  unfold is_name_continue, NameContinue, is_digit.
  rewrite orb_true_iff, is_name_start_spec. unfold NameStart. lia.
Qed.

Lemma is_valid_name_spec s : is_valid_name s = true <-> IsName s.
Proof.
  split.
  - destruct s as [|c r]; cbn [is_valid_name]; [discriminate|].
    rewrite andb_true_iff, forallb_forall. intros [Hc Hr].
    constructor; [now apply is_name_start_spec|].
    apply Forall_forall. intros x Hx. apply is_name_continue_spec. auto.
  - intros [c r Hc Hr]. cbn [is_valid_name].
    rewrite andb_true_iff, forallb_forall. split; [now apply is_name_start_spec|].
    intros x Hx. apply is_name_continue_spec. rewrite Forall_forall in Hr. auto.
Qed.

(* str::split_once(ch): split at the first occurrence *)
Fixpoint split_once (ch : N) (s : str) : option (str * str) :=
  match s with
  | [] => None
  | c :: r =>
      if c =? ch then Some ([], r)
      else match split_once ch r with
           | None => None
           | Some (a, b) => Some (c :: a, b)
           end
  end.

Definition strip_prefix (ch : N) (s : str) : option str :=
  match s with
  | c :: r => if c =? ch then Some r else None
  | [] => None
  end.

Definition mem (ch : N) (s : str) : bool := existsb (N.eqb ch) s.

Lemma split_once_none ch s : split_once ch s = None <-> mem ch s = false.
Proof.
  induction s as [|c r IH]; cbn [split_once mem existsb]; [tauto|].
  destruct (N.eqb_spec c ch) as [->|Hne].
  - rewrite N.eqb_refl. cbn. split; discriminate.
  - replace (ch =? c) with false by lia. cbn [orb].
    fold (mem ch r). destruct (split_once ch r) as [[a b]|]; [|tauto].
    split; [discriminate|]. intros H. apply IH in H. discriminate.
Qed.

Lemma split_once_app ch a b :
  mem ch a = false -> split_once ch (a ++ ch :: b) = Some (a, b).
Proof.
  induction a as [|x a IH]; cbn [app split_once mem existsb].
  - intros _. now rewrite N.eqb_refl.
  - intros H. apply orb_false_iff in H as [Hx Ha].
    replace (x =? ch) with false by lia. fold (mem ch a) in Ha. now rewrite (IH Ha).
Qed.

Lemma split_once_sound ch s : forall a b,
  split_once ch s = Some (a, b) -> s = a ++ ch :: b /\ mem ch a = false.
Proof.
  induction s as [|c r IH]; intros a b; cbn [split_once]; [discriminate|].
  destruct (N.eqb_spec c ch) as [->|Hne].
  - intros [= <- <-]. now cbn.
  - destruct (split_once ch r) as [[a' b']|]; [|discriminate].
    intros [= <- <-]. destruct (IH a' b' eq_refl) as [-> Hm].
    split; [reflexivity|]. cbn [mem existsb]. replace (ch =? c) with false by lia. exact Hm.
Qed.

Lemma split_once_some ch s a b :
  split_once ch s = Some (a, b) <-> (s = a ++ ch :: b /\ mem ch a = false).
Proof.
  split; [apply split_once_sound|]. intros [-> H]. now apply split_once_app.
Qed.

Lemma mem_app ch a b : mem ch (a ++ b) = mem ch a || mem ch b.
Proof. unfold mem. apply existsb_app. Qed.

(* a valid name contains none of the coordinate punctuation characters *)
Lemma name_no_punct s ch :
  is_valid_name s = true -> is_name_continue ch = false -> mem ch s = false.
Proof.
  destruct s as [|c r]; cbn [is_valid_name]; [discriminate|].
  rewrite andb_true_iff, forallb_forall. intros [Hc Hr] Hch.
  cbn [mem existsb]. apply orb_false_iff. split.
  - destruct (N.eqb_spec ch c) as [->|]; [|reflexivity].
    unfold is_name_continue in Hch. rewrite Hc in Hch. discriminate.
  - destruct (existsb (N.eqb ch) r) eqn:E; [|reflexivity].
    apply existsb_exists in E as [x [Hx Hxe]]. apply N.eqb_eq in Hxe. subst x.
    rewrite (Hr _ Hx) in Hch. discriminate.
Qed.
