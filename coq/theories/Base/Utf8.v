(* UTF-8 encoding of scalar values, for the models whose code works on `as_bytes()` / `.bytes()`.
   Definitions only; proofs are in Utf8Proofs.v. *)
From ApolloVerif Require Import Base.Chars.

(* the bytes of one character (Rust: char::encode_utf8) *)
Definition utf8_encode (c : N) : list N :=
  if c <? 128 then [c]
  else if c <? 2048 then [192 + c / 64; 128 + c mod 64]
  else if c <? 65536 then [224 + c / 4096; 128 + (c / 64) mod 64; 128 + c mod 64]
  else [240 + c / 262144; 128 + (c / 4096) mod 64; 128 + (c / 64) mod 64; 128 + c mod 64].

(* str::as_bytes *)
Definition utf8_bytes (s : str) : list N := flat_map utf8_encode s.

(* a predicate on bytes that only accepts ASCII bytes (u8::is_ascii_digit, is_ascii_alphabetic, ...) *)
Definition ascii_pred (p : N -> bool) : Prop := forall b, p b = true -> b < 128.
