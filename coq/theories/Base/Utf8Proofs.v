(* Facts about the UTF-8 encoding used by C10: lengths, and that a byte-wise ASCII test over the
   encoding of a string is the same as the character-wise test. *)
From ApolloVerif Require Import Base.Chars Base.Utf8.
From Coq Require Import ZifyBool ZifyN.

Lemma utf8_encode_length c : N.of_nat (length (utf8_encode c)) = u8len c.
Proof.
  unfold utf8_encode, u8len.
  destruct (c <? 128); [reflexivity|]. destruct (c <? 2048); [reflexivity|].
  destruct (c <? 65536); reflexivity.
Qed.

Lemma utf8_bytes_length s : N.of_nat (length (utf8_bytes s)) = blen s.
Proof.
  induction s as [|c r IH]; cbn [utf8_bytes flat_map blen]; [reflexivity|].
  rewrite app_length, Nat2N.inj_add, utf8_encode_length. fold (utf8_bytes r). lia.
Qed.

Lemma utf8_encode_ascii c : c < 128 -> utf8_encode c = [c].
Proof. intros H. unfold utf8_encode. replace (c <? 128) with true by lia. reflexivity. Qed.

(* a non-ASCII character is encoded by at least two bytes, all of them >= 128 *)
Lemma utf8_encode_nonascii c :
  128 <= c -> exists b0 b1 bs, utf8_encode c = b0 :: b1 :: bs /\ Forall (fun b => 128 <= b) (b0 :: b1 :: bs).
Proof.
  intros H. unfold utf8_encode. replace (c <? 128) with false by lia.
  destruct (c <? 2048); [|destruct (c <? 65536)];
    do 3 eexists; (split; [reflexivity|]); repeat constructor; lia.
Qed.

Lemma utf8_encode_nonempty c : utf8_encode c <> [].
Proof.
  unfold utf8_encode. destruct (c <? 128); [discriminate|]. destruct (c <? 2048); [discriminate|].
  destruct (c <? 65536); discriminate.
Qed.

Lemma utf8_bytes_app a b : utf8_bytes (a ++ b) = utf8_bytes a ++ utf8_bytes b.
Proof. unfold utf8_bytes. apply flat_map_app. Qed.

Lemma utf8_bytes_cons c r : utf8_bytes (c :: r) = utf8_encode c ++ utf8_bytes r.
Proof. reflexivity. Qed.

Lemma utf8_bytes_nil_iff s : utf8_bytes s = [] <-> s = [].
Proof.
  split; [|intros ->; reflexivity]. destruct s as [|c r]; [reflexivity|].
  rewrite utf8_bytes_cons. intros H. apply app_eq_nil in H as [H _]. now apply utf8_encode_nonempty in H.
Qed.

(* p over the bytes of one character = p on the character, for an ASCII-only predicate *)
Lemma forallb_encode p c : ascii_pred p -> forallb p (utf8_encode c) = p c.
Proof.
  intros Hp. destruct (N.ltb_spec c 128) as [Hc|Hc].
  - rewrite utf8_encode_ascii by exact Hc. cbn [forallb]. apply andb_true_r.
  - destruct (utf8_encode_nonascii c Hc) as (b0 & b1 & bs & -> & Hall).
    inversion Hall as [|? ? Hb0 _]; subst. cbn [forallb].
    assert (E0 : p b0 = false). { destruct (p b0) eqn:E; [apply Hp in E; lia|reflexivity]. }
    assert (Ec : p c = false). { destruct (p c) eqn:E; [apply Hp in E; lia|reflexivity]. }
    now rewrite E0, Ec.
Qed.

Lemma forallb_utf8 p s : ascii_pred p -> forallb p (utf8_bytes s) = forallb p s.
Proof.
  intros Hp. induction s as [|c r IH]; [reflexivity|].
  rewrite utf8_bytes_cons, forallb_app, forallb_encode by exact Hp. cbn [forallb]. now rewrite IH.
Qed.

Lemma ascii_is_digit : ascii_pred is_digit.
Proof. intros b. unfold is_digit. lia. Qed.
Lemma ascii_is_name_start : ascii_pred is_name_start.
Proof. intros b. unfold is_name_start, is_alpha. lia. Qed.
Lemma ascii_is_name_continue : ascii_pred is_name_continue.
Proof. intros b. unfold is_name_continue, is_name_start, is_alpha, is_digit. lia. Qed.
