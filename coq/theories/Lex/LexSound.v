(* Soundness side: a token returned by lex_one is a lexeme of its kind in the specification and the
   lookahead restriction of the kind holds for the text that follows. *)
From ApolloVerif Require Import Base.Chars Lex.Item Lex.Fun Lex.Spec Lex.LexProofs Lex.Bridge Lex.LexComplete.
From Coq Require Import ZifyBool ZifyN.

(* ---------- numbers ---------- *)
Lemma after_exp_sound pre r k d rest : lx_num_after_exp pre r = (LxTok k, d, rest) ->
  k = TkFloat /\ d = pre /\ rest = r /\ ~ starts (fun c => c = 46 \/ NameStart c) r.
Proof.
  unfold lx_num_after_exp. destruct r as [|c r'].
  - intros [= <- <- <-]. cbn [starts]. tauto.
  - destruct ((c =? 46) || is_name_start c) eqn:E; intros [= <- <- <-].
    cbn [starts]. rewrite <- is_name_start_spec. repeat split. lia.
Qed.

Lemma exp_digits_sound pre r k d rest : lx_num_exp_digits pre r = (LxTok k, d, rest) ->
  exists ds, Forall Digit ds /\ k = TkFloat /\ d = pre ++ ds /\ r = ds ++ rest /\ ~ starts NumberFollow rest.
Proof.
  unfold lx_num_exp_digits. destruct (lx_span is_digit r) as [ds r2] eqn:E. intros H.
  apply after_exp_sound in H as [-> [-> [-> Hs]]].
  destruct (span_Forall _ _ _ _ _ is_digit_spec E) as [Hd Hn].
  exists ds. repeat split; auto. symmetry. eapply span_app; eauto.
  destruct r2 as [|c t]; cbn [starts] in *; unfold NumberFollow; tauto.
Qed.

Lemma num_exp_sound pre r k d rest : lx_num_exp pre r = (LxTok k, d, rest) ->
  exists sg c ds, SignOpt sg /\ Digit c /\ Forall Digit ds /\ k = TkFloat /\
    d = pre ++ sg ++ c :: ds /\ r = (sg ++ c :: ds) ++ rest /\ ~ starts NumberFollow rest.
Proof.
  unfold lx_num_exp. destruct r as [|c r']; [discriminate|].
  destruct (is_digit c) eqn:Hc.
  - intros H. apply exp_digits_sound in H as [ds [Hds [-> [-> [-> Hs]]]]].
    exists [], c, ds. split; [left; reflexivity|]. split; [now apply is_digit_spec|]. split; [assumption|].
    split; [reflexivity|]. cbn [app]. split; [now rewrite <- app_assoc|]. split; [reflexivity|assumption].
  - destruct ((c =? 43) || (c =? 45)) eqn:Hs; [|discriminate].
    destruct r' as [|c2 r'']; [discriminate|]. destruct (is_digit c2) eqn:Hc2; [|discriminate].
    intros H. apply exp_digits_sound in H as [ds [Hds [-> [-> [-> Hn]]]]].
    exists [c], c2, ds. split.
    { unfold SignOpt. destruct (N.eqb_spec c 43) as [->|]; [auto|]. destruct (N.eqb_spec c 45) as [->|]; [auto|discriminate]. }
    split; [now apply is_digit_spec|]. split; [assumption|]. split; [reflexivity|]. cbn [app].
    split; [now rewrite <- app_assoc|]. split; [reflexivity|assumption].
Qed.

Lemma exp_part_of e sg c ds : lx_is_exp_ind e = true -> SignOpt sg -> Digit c -> Forall Digit ds ->
  ExponentPart (e :: sg ++ c :: ds).
Proof. intros He. constructor; auto. now apply is_exp_ind_spec. Qed.

Lemma after_frac_sound pre r k d rest : lx_num_after_frac pre r = (LxTok k, d, rest) ->
  ~ starts Digit r ->
  k = TkFloat /\ ((d = pre /\ rest = r /\ ~ starts NumberFollow r) \/
                  exists ep, ExponentPart ep /\ d = pre ++ ep /\ r = ep ++ rest /\ ~ starts NumberFollow rest).
Proof.
  unfold lx_num_after_frac. destruct r as [|c r']; intros H Hnd.
  - injection H as <- <- <-. split; [reflexivity|]. left. cbn [starts]. tauto.
  - destruct (lx_is_exp_ind c) eqn:He.
    + apply num_exp_sound in H as [sg [c2 [ds [Hsg [Hc2 [Hds [-> [-> [-> Hn]]]]]]]]].
      split; [reflexivity|]. right. exists (c :: sg ++ c2 :: ds).
      split; [now apply exp_part_of|]. split; [now rewrite <- app_assoc|]. split; [reflexivity|assumption].
    + destruct ((c =? 46) || is_name_start c) eqn:E; [discriminate|].
      injection H as <- <- <-. split; [reflexivity|]. left. repeat split.
      cbn [starts] in *. unfold NumberFollow. rewrite <- is_name_start_spec. intros [?|[?|?]]; [tauto|lia|].
      rewrite H in E. lia.
Qed.

(* everything that can follow an IntegerPart in a FloatValue *)
Inductive FloatTail : str -> Prop :=
| FT_frac fp : FractionalPart fp -> FloatTail fp
| FT_frac_exp fp ep : FractionalPart fp -> ExponentPart ep -> FloatTail (fp ++ ep)
| FT_exp ep : ExponentPart ep -> FloatTail ep.

Lemma float_of_tail ip t : IntegerPart ip -> FloatTail t -> FloatValue (ip ++ t).
Proof. intros Hip [fp Hfp|fp ep Hfp Hep|ep Hep]; [apply FV_frac|apply FV_frac_exp|apply FV_exp]; auto. Qed.

Lemma num_frac_sound pre r k d rest : lx_num_frac (pre ++ [46]) r = (LxTok k, d, rest) ->
  k = TkFloat /\ exists t, FloatTail t /\ d = pre ++ t /\ 46 :: r = t ++ rest /\ ~ starts NumberFollow rest.
Proof.
  unfold lx_num_frac. destruct r as [|c r']; [discriminate|].
  destruct (is_digit c) eqn:Hc; [|discriminate].
  destruct (lx_span is_digit r') as [ds r2] eqn:E. intros H.
  destruct (span_Forall _ _ _ _ _ is_digit_spec E) as [Hds Hn].
  apply span_app in E. subst r'.
  apply after_frac_sound in H as [-> [[-> [-> Hnf]]|[ep [Hep [-> [-> Hnf]]]]]]; [| |exact Hn];
    (split; [reflexivity|]).
  - exists (46 :: c :: ds). split; [apply FT_frac; constructor; auto; now apply is_digit_spec|].
    split; [now rewrite <- app_assoc|]. split; [reflexivity|assumption].
  - exists ((46 :: c :: ds) ++ ep). split; [apply FT_frac_exp; auto; constructor; auto; now apply is_digit_spec|].
    split; [now rewrite <- !app_assoc|]. split; [cbn [app]; now rewrite <- app_assoc|assumption].
Qed.

Section Sound.
Variable SC : N -> Prop.

Lemma after_int_sound z pre r k d rest : lx_num_after_int z pre r = (LxTok k, d, rest) ->
  (z = false -> ~ starts Digit r) -> IntegerPart pre ->
  Lexeme SC k d /\ Restrict SC k d rest.
Proof.
  unfold lx_num_after_int. destruct r as [|c r']; intros H Hz Hip.
  - injection H as <- <- <-. split; [now apply Lx_int|]. cbn [Restrict starts]. tauto.
  - destruct (N.eqb_spec c 46) as [->|Hc46].
    + apply num_frac_sound in H as [-> [t [Ht [-> [Hr Hn]]]]].
      split; [apply Lx_float; now apply float_of_tail|exact Hn].
    + destruct (lx_is_exp_ind c) eqn:He.
      * apply num_exp_sound in H as [sg [c2 [ds [Hsg [Hc2 [Hds [-> [-> [Hr Hn]]]]]]]]].
        split; [|exact Hn]. apply Lx_float.
        rewrite <- app_assoc. cbn [app]. apply FV_exp; auto. now apply exp_part_of.
      * destruct (z && is_digit c) eqn:Hzd; [discriminate|].
        destruct (is_name_start c) eqn:Hns; [discriminate|].
        injection H as <- <- <-. split; [now apply Lx_int|].
        cbn [Restrict starts]. unfold NumberFollow. rewrite <- is_name_start_spec.
        intros [Hd|[?|?]]; [|lia|congruence].
        destruct z; [apply is_digit_spec in Hd; rewrite Hd in Hzd; discriminate|].
        apply (Hz eq_refl). exact Hd.
Qed.

Lemma int_digits_sound pre r k d rest : lx_num_int_digits pre r = (LxTok k, d, rest) ->
  (forall ds, Forall Digit ds -> IntegerPart (pre ++ ds)) ->
  Lexeme SC k d /\ Restrict SC k d rest.
Proof.
  unfold lx_num_int_digits. destruct (lx_span is_digit r) as [ds r2] eqn:E. intros H Hip.
  destruct (span_Forall _ _ _ _ _ is_digit_spec E) as [Hds Hn].
  eapply after_int_sound; eauto.
Qed.

Lemma num_minus_sound r k d rest : lx_num_minus r = (LxTok k, d, rest) ->
  Lexeme SC k d /\ Restrict SC k d rest.
Proof.
  unfold lx_num_minus. destruct r as [|c r']; [discriminate|].
  destruct (N.eqb_spec c 48) as [->|Hc].
  - intros H. eapply after_int_sound; eauto; [discriminate|].
    apply (IP_zero [45]). unfold NegativeSignOpt. auto.
  - destruct (is_digit c) eqn:Hd; [|discriminate]. intros H.
    eapply int_digits_sound; eauto. intros ds Hds.
    apply (IP_nonzero [45] c ds); auto; unfold NegativeSignOpt, NonZeroDigit; auto.
    unfold is_digit in Hd. lia.
Qed.

(* ---------- quoted strings ---------- *)
Lemma scons_inv c e x d rest : lx_scons c e x = (d, rest, false) ->
  e = false /\ exists d1, x = (d1, rest, false) /\ d = c :: d1.
Proof.
  destruct x as [[d1 rest1] e1]. cbn [lx_scons]. intros [= <- <- H].
  apply orb_false_iff in H as [-> ->]. split; [reflexivity|]. eexists. split; reflexivity.
Qed.

Lemma uni_step n v s d rest : lx_scan_str (LxSUni n v) s = (d, rest, false) ->
  exists a s1 d1, s = a :: s1 /\ HexDigit a /\ d = a :: d1 /\
    match n with
    | S (S m) => lx_scan_str (LxSUni (S m) (16 * v + lx_hexval a)) s1 = (d1, rest, false)
    | _ => lx_is_surrogate (16 * v + lx_hexval a) = false /\ lx_scan_str LxSStr s1 = (d1, rest, false)
    end.
Proof.
  destruct s as [|a s1]; cbn [lx_scan_str]; [discriminate|].
  destruct (a =? 34); [discriminate|].
  destruct (lx_is_hex a) eqn:Hh; cbn [negb].
  2:{ intros H. apply scons_inv in H as [H _]. discriminate. }
  cbv zeta. intros H. exists a, s1.
  destruct n as [|[|m]]; apply scons_inv in H as [He [d1 [E ->]]]; exists d1;
    (split; [reflexivity|]); (split; [now apply is_hex_spec|]); (split; [reflexivity|]); auto.
Qed.

Lemma uni_sound s d rest : lx_scan_str (LxSUni 4 0) s = (d, rest, false) ->
  exists a b c e s' d', s = a :: b :: c :: e :: s' /\ HexDigit a /\ HexDigit b /\ HexDigit c /\ HexDigit e /\
    ~ Surrogate (hex4_value a b c e) /\ d = a :: b :: c :: e :: d' /\
    lx_scan_str LxSStr s' = (d', rest, false).
Proof.
  intros H.
  apply uni_step in H as [a [s1 [d1 [-> [Ha [-> H]]]]]].
  apply uni_step in H as [b [s2 [d2 [-> [Hb [-> H]]]]]].
  apply uni_step in H as [c [s3 [d3 [-> [Hc [-> H]]]]]].
  apply uni_step in H as [e [s4 [d4 [-> [He [-> [Hs H]]]]]]].
  exists a, b, c, e, s4, d4. repeat split; auto.
  intros Hsur. apply is_surrogate_spec in Hsur. unfold hex4_value in Hsur.
  rewrite <- !hexval_spec in Hsur by assumption.
  replace (16 * (16 * (16 * (16 * 0 + lx_hexval a) + lx_hexval b) + lx_hexval c) + lx_hexval e)
    with (4096 * lx_hexval a + 256 * lx_hexval b + 16 * lx_hexval c + lx_hexval e) in Hs by lia.
  congruence.
Qed.

Lemma str_sound : forall n s d rest, (length s <= n)%nat -> Forall SC s ->
  lx_scan_str LxSStr s = (d, rest, false) ->
  exists chunks, Forall (StringCharacter SC) chunks /\ d = concat chunks ++ [34].
Proof.
  induction n as [|n IH]; intros s d rest Hl Hsc.
  - destruct s; [discriminate|cbn in Hl; lia].
  - destruct s as [|c r]; [discriminate|]. cbn [length] in Hl. cbn [lx_scan_str].
    inversion Hsc as [|? ? Hc Hr]; subst.
    destruct (N.eqb_spec c 34) as [->|Hq].
    { intros [= <- <- ]. exists []. split; [constructor|reflexivity]. }
    destruct (lx_is_line_term c) eqn:Hlt.
    { intros H. apply scons_inv in H as [H _]. discriminate. }
    destruct (N.eqb_spec c 92) as [->|Hb].
    + intros H. apply scons_inv in H as [_ [d1 [H ->]]].
      destruct r as [|c2 r2]; [discriminate|]. cbn [lx_scan_str] in H.
      inversion Hr as [|? ? Hc2 Hr2]; subst.
      destruct (lx_is_escaped_char c2) eqn:Hesc.
      * apply scons_inv in H as [_ [d2 [H ->]]].
        apply IH in H as [chunks [Hch ->]]; [|cbn [length] in Hl; lia|assumption].
        exists ([92; c2] :: chunks). split; [constructor; auto; apply SC_escaped; now apply is_escaped_char_spec|reflexivity].
      * destruct (N.eqb_spec c2 117) as [->|]; [|apply scons_inv in H as [H _]; discriminate].
        apply scons_inv in H as [_ [d2 [H ->]]].
        apply uni_sound in H as [a [b [c [e [s' [d' [-> [Ha [Hb' [Hc' [He [Hns [-> H]]]]]]]]]]]]].
        apply IH in H as [chunks [Hch ->]].
        -- exists ([92; 117; a; b; c; e] :: chunks). split; [constructor; auto; now apply SC_unicode|reflexivity].
        -- cbn [length] in Hl. lia.
        -- repeat match goal with X : Forall SC (_ :: _) |- _ => inversion X; subst; clear X end. assumption.
    + intros H. apply scons_inv in H as [_ [d1 [H ->]]].
      apply IH in H as [chunks [Hch ->]]; [|lia|assumption].
      exists ([c] :: chunks). split; [|reflexivity]. constructor; auto.
      apply SC_plain; auto. rewrite <- is_line_term_spec. congruence.
Qed.

(* ---------- block strings ---------- *)
Lemma bcons_inv c x d rest : lx_bcons c x = (d, rest, true) -> exists d1, x = (d1, rest, true) /\ d = c :: d1.
Proof. destruct x as [[d1 rest1] t1]. cbn [lx_bcons]. intros [= <- <- ->]. eauto. Qed.

Lemma scan_block_nonempty bs s d rest : lx_scan_block bs s = (d, rest, true) -> d <> [].
Proof.
  assert (K : forall c x, lx_bcons c x = (d, rest, true) -> d <> []).
  { intros c x H. apply bcons_inv in H as [? [_ ->]]. discriminate. }
  destruct s as [|c r]; cbn [lx_scan_block]; [discriminate|].
  destruct (c =? 34).
  - destruct r as [|q1 r1]; [discriminate|]. destruct (q1 =? 34); [|apply K].
    destruct r1 as [|q2 r2]; [discriminate|]. destruct (q2 =? 34); [|apply K].
    destruct bs; [apply K|]. intros [= <- _]. discriminate.
  - destruct (c =? 92); apply K.
Qed.

Lemma block_head_char bs q r d rest : lx_scan_block bs (q :: r) = (d, rest, true) -> exists d', d = q :: d'.
Proof.
  intros H. pose proof (scan_block_app _ _ _ _ _ H) as Happ.
  pose proof (scan_block_nonempty _ _ _ _ H) as Hne.
  destruct d as [|x d']; [congruence|]. cbn [app] in Happ. injection Happ as -> _. eauto.
Qed.

Lemma BT_plain c t : SC c -> c <> 34 -> c <> 92 -> BlockTail SC t -> BlockTail SC (c :: t).
Proof.
  intros. apply BT_char; auto.
  - intros [r [= ]]. congruence.
  - intros [r [= ]]. congruence.
Qed.

(* a quote followed by something that does not start with two quotes *)
Lemma BT_quote1 q t : SC 34 -> q <> 34 -> BlockTail SC (q :: t) -> BlockTail SC (34 :: q :: t).
Proof. intros. apply BT_char; auto; intros [r [= ]]; congruence. Qed.
Lemma BT_quote2 q t : SC 34 -> q <> 34 -> BlockTail SC (q :: t) -> BlockTail SC (34 :: 34 :: q :: t).
Proof. intros. apply BT_char; auto; [intros [r [= ]]; congruence|intros [r [= ]]|now apply BT_quote1]. Qed.
Lemma BT_backslash t : SC 92 -> ~ starts_triple t -> BlockTail SC t -> BlockTail SC (92 :: t).
Proof.
  intros H1 H2 H3. apply BT_char; auto; [intros [r [= ]]|].
  intros [r [= ->]]. apply H2. eexists. reflexivity.
Qed.

Lemma block_sound : forall n s bs d rest, (length s <= n)%nat -> Forall SC s -> (bs = true -> SC 92) ->
  lx_scan_block bs s = (d, rest, true) ->
  BlockTail SC (if bs then 92 :: d else d).
Proof.
  induction n as [|n IH]; intros s bs d rest Hl Hsc Hbs.
  - destruct s; [discriminate|cbn in Hl; lia].
  - destruct s as [|c r]; [discriminate|]. cbn [length] in Hl. inversion Hsc as [|? ? Hc Hr]; subst.
    cbn [lx_scan_block].
    destruct (N.eqb_spec c 34) as [->|Hq].
    + destruct r as [|q1 r1]; [discriminate|]. inversion Hr as [|? ? Hq1 Hr1]; subst.
      destruct (N.eqb_spec q1 34) as [->|Hq1n].
      * destruct r1 as [|q2 r2]; [discriminate|]. inversion Hr1 as [|? ? Hq2 Hr2]; subst.
        cbn [length] in Hl.
        destruct (N.eqb_spec q2 34) as [->|Hq2n].
        -- destruct bs.
           ++ intros H. apply bcons_inv in H as [d1 [H ->]]. apply bcons_inv in H as [d2 [H ->]].
              apply bcons_inv in H as [d3 [H ->]].
              apply (IH r2 false) in H; [|lia|assumption|discriminate]. now apply BT_escaped.
           ++ intros [= <- <-]. apply BT_close.
        -- intros H. apply bcons_inv in H as [d1 [H ->]]. apply bcons_inv in H as [d2 [H ->]].
           destruct (block_head_char _ _ _ _ _ H) as [d' ->].
           apply (IH (q2 :: r2) false) in H; [|cbn [length]; lia|assumption|discriminate].
           pose proof (BT_quote2 q2 d' Hc Hq2n H) as Hbt.
           destruct bs; [|exact Hbt]. apply BT_backslash; auto.
           intros [r [= ]]. congruence.
      * intros H. apply bcons_inv in H as [d1 [H ->]].
        destruct (block_head_char _ _ _ _ _ H) as [d' ->].
        apply (IH (q1 :: r1) false) in H; [|cbn [length] in *; lia|assumption|discriminate].
        pose proof (BT_quote1 q1 d' Hc Hq1n H) as Hbt.
        destruct bs; [|exact Hbt]. apply BT_backslash; auto.
        intros [r [= ]]. congruence.
    + destruct (N.eqb_spec c 92) as [->|Hb].
      * intros H. apply bcons_inv in H as [d1 [H ->]].
        apply (IH r true) in H; [|lia|assumption|auto].
        destruct bs; [|exact H]. apply BT_backslash; auto. intros [r0 [= ]].
      * intros H. apply bcons_inv in H as [d1 [H ->]].
        apply (IH r false) in H; [|lia|assumption|discriminate].
        pose proof (BT_plain c d1 Hc Hq Hb H) as Hbt.
        destruct bs; [|exact Hbt]. apply BT_backslash; auto. intros [r0 [= ]]. congruence.
Qed.

(* ---------- strings ---------- *)
Lemma chunks_len chunks : Forall (StringCharacter SC) chunks -> chunks <> [] ->
  (1 <= length (concat chunks))%nat.
Proof.
  intros H Hne. destruct chunks as [|ch chs]; [congruence|]. inversion H as [|? ? Hc _]; subst.
  destruct (chunk_first SC _ Hc) as [c [t [-> _]]]. cbn [concat app length]. lia.
Qed.

Lemma lex_string_sound r k d rest : lex_string r = (LxTok k, d, rest) -> Forall SC r -> SC 34 ->
  Lexeme SC k d /\ Restrict SC k d rest.
Proof.
  destruct r as [|c r1]; [discriminate|]. intros H Hsc Hq.
  inversion Hsc as [|? ? Hc Hr1]; subst.
  destruct (N.eqb_spec c 34) as [->|Hc34].
  - unfold lex_string in H. change (34 =? 34) with true in H. cbv iota in H.
    destruct r1 as [|q r2].
    { injection H as <- <- <-. split; [apply Lx_string, QS_empty|]. cbn [Restrict starts]. tauto. }
    destruct (N.eqb_spec q 34) as [->|Hq34].
    + destruct (lx_scan_block false r2) as [[d0 rest0] t] eqn:E. destruct t; [|discriminate].
      injection H as <- <- <-. inversion Hr1; subst.
      apply (block_sound (length r2) r2 false) in E; [|reflexivity|assumption|discriminate].
      split; [apply Lx_block, BS_intro, E|]. cbn [Restrict]. intros [= ].
    + injection H as <- <- <-. split; [apply Lx_string, QS_empty|]. cbn [Restrict starts]. intros _. exact Hq34.
  - rewrite (lex_string_scan SC c r1 Hc34) in H.
    destruct (lx_scan_str LxSStr (c :: r1)) as [[d0 rest0] e] eqn:E2. destruct e; [discriminate|].
    injection H as <- <- <-.
    pose proof (scan_str_app _ _ _ _ _ E2) as Happ.
    apply (str_sound (length (c :: r1)) (c :: r1)) in E2 as [chunks [Hch Hd]]; [|reflexivity|assumption].
    assert (Hne : chunks <> []).
    { intros ->. cbn in Hd. subst d0. cbn [app] in Happ. congruence. }
    split.
    + rewrite Hd. apply Lx_string. now apply QS_chars.
    + cbn [Restrict]. intros Heq. exfalso. rewrite Hd in Heq. injection Heq as Heq.
      pose proof (chunks_len _ Hch Hne) as Hlen.
      apply (f_equal (@length N)) in Heq. rewrite app_length in Heq. cbn [length] in Heq. lia.
Qed.

(* ---------- one step ---------- *)
Theorem lex_one_sound c r k d rest : lex_one c r = (LxTok k, d, rest) -> Forall SC (c :: r) ->
  Lexeme SC k d /\ Restrict SC k d rest.
Proof.
  intros H Hsc. inversion Hsc as [|? ? Hc Hr]; subst.
  destruct (first_class_total c) as [k0 Pk|Hn|Hnz| -> | -> | -> | -> | -> |Hw|Hp Hn Hd H1 H2 H3 H4 Hw].
  - unfold lex_one in H. rewrite Pk in H. injection H as <- <- <-.
    apply punct_kind_some in Pk.
    repeat (destruct Pk as [[-> ->]|Pk]; [split; [constructor|exact I]|]).
    destruct Pk as [-> ->]. split; [constructor|exact I].
  - rewrite lex_one_name in H by assumption.
    destruct (lx_span is_name_continue r) as [x r2] eqn:E. injection H as <- <- <-.
    destruct (span_Forall _ _ _ _ _ is_name_continue_spec E) as [Hx Hs].
    split; [|exact Hs]. apply Lx_name. constructor; auto. now apply is_name_start_spec.
  - rewrite lex_one_nonzero in H by assumption.
    eapply int_digits_sound; eauto. intros ds Hds.
    apply (IP_nonzero [] c ds); auto. unfold NegativeSignOpt. auto.
  - rewrite lex_one_quote in H. eapply lex_string_sound; eauto.
  - rewrite lex_one_hash in H.
    destruct (lx_span lx_not_line_term r) as [x r2] eqn:E. injection H as <- <- <-.
    pose proof (span_all _ _ _ _ E) as Hall. pose proof (span_stop _ _ _ _ E) as Hstop.
    pose proof (span_app _ _ _ _ E) as Happ. subst r. apply Forall_app in Hr as [Hx Hr2].
    split.
    + apply Lx_comment. clear -Hall Hx. induction x as [|a x IH]; [constructor|].
      cbn [forallb] in Hall. apply andb_true_iff in Hall as [Ha Hall]. inversion Hx; subst.
      constructor; [|auto]. split; [assumption|]. unfold lx_not_line_term in Ha.
      rewrite <- is_line_term_spec. destruct (lx_is_line_term a); [discriminate|congruence].
    + cbn [Restrict]. destruct r2 as [|a t]; cbn [starts]; [tauto|].
      unfold CommentChar, lx_not_line_term in *. rewrite <- is_line_term_spec.
      destruct (lx_is_line_term a); [tauto|discriminate].
  - rewrite lex_one_dot in H. unfold lex_spread in H.
    destruct r as [|c1 r1]; [discriminate|]. destruct (N.eqb_spec c1 46) as [->|]; [|discriminate].
    destruct r1 as [|c2 r2]; [discriminate|]. destruct (N.eqb_spec c2 46) as [->|]; [|discriminate].
    injection H as <- <- <-. split; [constructor|exact I].
  - rewrite lex_one_minus in H. eapply num_minus_sound; eauto.
  - rewrite lex_one_zero in H. eapply after_int_sound; eauto; [discriminate|].
    apply (IP_zero []). unfold NegativeSignOpt. auto.
  - rewrite lex_one_ws in H by assumption.
    destruct (lx_span lx_is_ws r) as [x r2] eqn:E. injection H as <- <- <-.
    destruct (span_Forall _ _ _ _ _ is_ws_spec E) as [Hx Hs].
    split; [|exact I]. apply Lx_ignored; [discriminate|]. constructor; auto. now apply is_ws_spec.
  - rewrite lex_one_other in H by assumption. discriminate.
Qed.

End Sound.
