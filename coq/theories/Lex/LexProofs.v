(* Basic facts about the functional lexer: every item swallows a non-empty prefix of the remaining
   input (so fuel length+1 is never exhausted), the unfolding equations of lex_all, concatenation and
   indices. *)
From ApolloVerif Require Import Base.Chars Lex.Item Lex.Fun.
From Coq Require Import ZifyBool ZifyN.

(* ---------- lx_span ---------- *)
Lemma span_app p s a b : lx_span p s = (a, b) -> a ++ b = s.
Proof.
  revert a b. induction s as [|c r IH]; intros a b; cbn [lx_span].
  - intros [= <- <-]. reflexivity.
  - destruct (p c).
    + destruct (lx_span p r) as [a' b'] eqn:E. intros [= <- <-]. cbn [app]. f_equal. now apply IH.
    + intros [= <- <-]. reflexivity.
Qed.

Lemma span_all p s a b : lx_span p s = (a, b) -> forallb p a = true.
Proof.
  revert a b. induction s as [|c r IH]; intros a b; cbn [lx_span].
  - intros [= <- <-]. reflexivity.
  - destruct (p c) eqn:Pc.
    + destruct (lx_span p r) as [a' b'] eqn:E. intros [= <- <-]. cbn [forallb]. rewrite Pc. cbn. eapply IH; eauto.
    + intros [= <- <-]. reflexivity.
Qed.

Lemma span_stop p s a b : lx_span p s = (a, b) -> match b with [] => True | c :: _ => p c = false end.
Proof.
  revert a b. induction s as [|c r IH]; intros a b; cbn [lx_span].
  - intros [= <- <-]. exact I.
  - destruct (p c) eqn:Pc.
    + destruct (lx_span p r) as [a' b'] eqn:E. intros [= <- <-]. eapply IH; eauto.
    + intros [= <- <-]. exact Pc.
Qed.

(* the shape shared by all scanners: the data extends what was consumed so far (pre) by a prefix x
   of the remaining input *)
Definition extends (pre r : str) (o : lx_out) : Prop :=
  let '(_, d, rest) := o in exists x, d = pre ++ x /\ x ++ rest = r.

Ltac ext_solve :=
  repeat match goal with
    | |- extends _ _ (if ?b then _ else _) => destruct b eqn:?
    | |- extends _ _ (match ?r with [] => _ | _ :: _ => _ end) => destruct r
    end.

Lemma ext_here pre r res : extends pre r (res, pre, r).
Proof. exists []. now rewrite app_nil_r. Qed.
Lemma ext_one pre c r res : extends pre (c :: r) (res, pre ++ [c], r).
Proof. exists [c]. auto. Qed.
Lemma ext_two pre c d r res : extends pre (c :: d :: r) (res, pre ++ [c; d], r).
Proof. exists [c; d]. auto. Qed.

Lemma ext_step pre x r r' o : x ++ r' = r -> extends (pre ++ x) r' o -> extends pre r o.
Proof.
  destruct o as [[res d] rest]. intros <- [y [-> <-]]. exists (x ++ y).
  now rewrite !app_assoc.
Qed.

Lemma num_after_exp_ext pre r : extends pre r (lx_num_after_exp pre r).
Proof.
  unfold lx_num_after_exp. destruct r as [|c r']; [apply ext_here|].
  destruct (_ || _); [apply ext_one|apply ext_here].
Qed.

Lemma num_exp_digits_ext pre r : extends pre r (lx_num_exp_digits pre r).
Proof.
  unfold lx_num_exp_digits. destruct (lx_span is_digit r) as [ds r2] eqn:E.
  eapply ext_step; [eapply span_app; eauto|apply num_after_exp_ext].
Qed.

Lemma num_exp_ext pre r : extends pre r (lx_num_exp pre r).
Proof.
  unfold lx_num_exp. destruct r as [|c r']; [apply ext_here|].
  destruct (is_digit c).
  - eapply (ext_step _ [c]); [reflexivity|apply num_exp_digits_ext].
  - destruct (_ || _); [|apply ext_one].
    destruct r' as [|d r'']; [apply ext_one|].
    destruct (is_digit d); [|apply ext_two].
    eapply (ext_step _ [c; d]); [reflexivity|apply num_exp_digits_ext].
Qed.

Lemma num_after_frac_ext pre r : extends pre r (lx_num_after_frac pre r).
Proof.
  unfold lx_num_after_frac. destruct r as [|c r']; [apply ext_here|].
  destruct (lx_is_exp_ind c).
  - eapply (ext_step _ [c]); [reflexivity|apply num_exp_ext].
  - destruct (_ || _); [apply ext_one|apply ext_here].
Qed.

Lemma num_frac_ext pre r : extends pre r (lx_num_frac pre r).
Proof.
  unfold lx_num_frac. destruct r as [|c r']; [apply ext_here|].
  destruct (is_digit c); [|apply ext_one].
  destruct (lx_span is_digit r') as [ds r2] eqn:E.
  eapply (ext_step _ (c :: ds)); [|apply num_after_frac_ext].
  cbn [app]. f_equal. eapply span_app; eauto.
Qed.

Lemma num_after_int_ext z pre r : extends pre r (lx_num_after_int z pre r).
Proof.
  unfold lx_num_after_int. destruct r as [|c r']; [apply ext_here|].
  destruct (c =? 46).
  - eapply (ext_step _ [c]); [reflexivity|apply num_frac_ext].
  - destruct (lx_is_exp_ind c).
    + eapply (ext_step _ [c]); [reflexivity|apply num_exp_ext].
    + destruct (z && is_digit c); [apply ext_one|].
      destruct (is_name_start c); [apply ext_one|apply ext_here].
Qed.

Lemma num_int_digits_ext pre r : extends pre r (lx_num_int_digits pre r).
Proof.
  unfold lx_num_int_digits. destruct (lx_span is_digit r) as [ds r2] eqn:E.
  eapply ext_step; [eapply span_app; eauto|apply num_after_int_ext].
Qed.

Lemma num_minus_ext r : extends [45] r (lx_num_minus r).
Proof.
  unfold lx_num_minus. destruct r as [|c r']; [apply ext_here|].
  destruct (N.eqb_spec c 48) as [->|].
  - eapply (ext_step _ [48]); [reflexivity|apply num_after_int_ext].
  - destruct (is_digit c); [|apply (ext_one [45])].
    eapply (ext_step _ [c]); [reflexivity|apply num_int_digits_ext].
Qed.

Lemma lex_spread_ext r : extends [46] r (lex_spread r).
Proof.
  unfold lex_spread. destruct r as [|c1 r1]; [apply ext_here|].
  destruct (N.eqb_spec c1 46) as [->|]; [|apply (ext_one [46])].
  destruct r1 as [|c2 r2]; [apply (ext_one [46])|].
  destruct (N.eqb_spec c2 46) as [->|]; [apply (ext_two [46])|apply (ext_one [46])].
Qed.

Lemma scan_str_app st s d rest e : lx_scan_str st s = (d, rest, e) -> d ++ rest = s.
Proof.
  revert st d rest e. induction s as [|c r IH]; intros st d rest e; cbn [lx_scan_str].
  - intros [= <- <- <-]. reflexivity.
  - assert (K : forall st' b, lx_scons c b (lx_scan_str st' r) = (d, rest, e) -> d ++ rest = c :: r).
    { intros st' b. destruct (lx_scan_str st' r) as [[d' rest'] e'] eqn:E. cbn [lx_scons].
      intros [= <- <- <-]. cbn [app]. f_equal. eapply IH; eauto. }
    destruct st as [| |n v];
      repeat match goal with
        | |- (if ?b then _ else _) = _ -> _ => destruct b
        | |- (let v' := _ in _) = _ -> _ => cbv zeta
        | |- (match ?n with O => _ | S _ => _ end) = _ -> _ => destruct n
        end; try (apply K); intros [= <- <- <-]; reflexivity.
Qed.

Lemma scan_block_app bs s d rest t : lx_scan_block bs s = (d, rest, t) -> d ++ rest = s.
Proof.
  revert bs s d rest t.
  (* strong induction on the length: the recursion skips up to three characters *)
  assert (H : forall n s, (length s <= n)%nat -> forall bs d rest t,
               lx_scan_block bs s = (d, rest, t) -> d ++ rest = s).
  { induction n as [|n IH]; intros s Hn bs d rest t.
    - destruct s; [|cbn in Hn; lia]. cbn. intros [= <- <- <-]. reflexivity.
    - destruct s as [|c r]; [cbn; intros [= <- <- <-]; reflexivity|].
      cbn [length] in Hn.
      assert (K : forall bs' x s', (length s' <= n)%nat ->
                 forall d0 rest0 t0, lx_scan_block bs' s' = (d0, rest0, t0) ->
                 lx_bcons x (d0, rest0, t0) = (d, rest, t) -> d ++ rest = x :: s').
      { intros bs' x s' Hl d0 rest0 t0 E. cbn [lx_bcons]. intros [= <- <- <-]. cbn [app]. f_equal.
        eapply IH; eauto. }
      cbn [lx_scan_block].
      destruct (c =? 34).
      + destruct r as [|q1 r1]; [intros [= <- <- <-]; reflexivity|].
        destruct (q1 =? 34).
        * destruct r1 as [|q2 r2]; [intros [= <- <- <-]; reflexivity|].
          cbn [length] in Hn.
          destruct (q2 =? 34).
          -- destruct bs; [|intros [= <- <- <-]; reflexivity].
             destruct (lx_scan_block false r2) as [[d0 rest0] t0] eqn:E. cbn [lx_bcons].
             intros [= <- <- <-]. cbn [app]. do 3 f_equal. eapply (IH r2); eauto. lia.
          -- destruct (lx_scan_block false (q2 :: r2)) as [[d0 rest0] t0] eqn:E. cbn [lx_bcons].
             intros [= <- <- <-]. cbn [app]. do 2 f_equal. eapply (IH (q2 :: r2)); eauto. cbn [length]. lia.
        * destruct (lx_scan_block false (q1 :: r1)) as [[d0 rest0] t0] eqn:E.
          eapply K; eauto. lia.
      + destruct (c =? 92).
        * destruct (lx_scan_block true r) as [[d0 rest0] t0] eqn:E. eapply K; eauto. lia.
        * destruct (lx_scan_block false r) as [[d0 rest0] t0] eqn:E. eapply K; eauto. lia. }
  intros bs s d rest t. eapply H. reflexivity.
Qed.

Lemma lex_string_ext r : extends [34] r (lex_string r).
Proof.
  unfold lex_string. destruct r as [|c r1]; [apply ext_here|].
  destruct (N.eqb_spec c 34) as [->|].
  - destruct r1 as [|q r2]; [apply (ext_one [34])|].
    destruct (N.eqb_spec q 34) as [->|]; [|apply (ext_one [34])].
    destruct (lx_scan_block false r2) as [[d rest] t] eqn:E.
    exists (34 :: 34 :: d). split; [reflexivity|]. cbn [app]. do 2 f_equal. eapply scan_block_app; eauto.
  - destruct (lx_scan_str _ r1) as [[d rest] e] eqn:E.
    exists (c :: d). split; [reflexivity|]. cbn [app]. f_equal. eapply scan_str_app; eauto.
Qed.

(* one step: the data is c followed by a prefix of r *)
Lemma lex_one_ext c r : extends [c] r (lex_one c r).
Proof.
  unfold lex_one. destruct (lx_punct_kind c); [apply ext_here|].
  destruct (is_name_start c).
  { destruct (lx_span is_name_continue r) as [d rest] eqn:E. exists d. split; [reflexivity|eapply span_app; eauto]. }
  destruct (negb (c =? 48) && is_digit c); [apply num_int_digits_ext|].
  destruct (N.eqb_spec c 34) as [->|]; [apply lex_string_ext|].
  destruct (N.eqb_spec c 35) as [->|].
  { destruct (lx_span lx_not_line_term r) as [d rest] eqn:E. exists d. split; [reflexivity|eapply span_app; eauto]. }
  destruct (N.eqb_spec c 46) as [->|]; [apply lex_spread_ext|].
  destruct (N.eqb_spec c 45) as [->|]; [apply num_minus_ext|].
  destruct (N.eqb_spec c 48) as [->|]; [apply num_after_int_ext|].
  destruct (lx_is_ws c).
  { destruct (lx_span lx_is_ws r) as [d rest] eqn:E. exists d. split; [reflexivity|eapply span_app; eauto]. }
  apply ext_here.
Qed.

Lemma lex_one_app c r res d rest :
  lex_one c r = (res, d, rest) -> d ++ rest = c :: r /\ exists x, d = c :: x.
Proof.
  intros E. pose proof (lex_one_ext c r) as H. rewrite E in H. destruct H as [x [-> <-]].
  split; [reflexivity|]. exists x. reflexivity.
Qed.

Lemma lex_one_shorter c r res d rest :
  lex_one c r = (res, d, rest) -> (length rest <= length r)%nat.
Proof.
  intros E. destruct (lex_one_app _ _ _ _ _ E) as [Happ [x ->]].
  cbn [app] in Happ. injection Happ as Happ. rewrite <- Happ, app_length. lia.
Qed.

(* ---------- the fuel is never exhausted ---------- *)
Lemma lex_run_fuel fuel idx s : (length s < fuel)%nat -> lex_run fuel idx s <> None.
Proof.
  revert idx s. induction fuel as [|f IH]; intros idx s Hl; [lia|].
  destruct s as [|c r]; cbn [lex_run]; [discriminate|].
  destruct (lex_one c r) as [[res d] rest] eqn:E.
  pose proof (lex_one_shorter _ _ _ _ _ E) as Hs. cbn [length] in Hl.
  specialize (IH (idx + blen d) rest ltac:(lia)).
  destruct (lex_run f (idx + blen d) rest); [discriminate|contradiction].
Qed.

(* more fuel does not change the result *)
Lemma lex_run_mono f1 f2 idx s l : lex_run f1 idx s = Some l -> (f1 <= f2)%nat -> lex_run f2 idx s = Some l.
Proof.
  revert f2 idx s l. induction f1 as [|f IH]; intros f2 idx s l.
  - destruct s; cbn [lex_run]; [|discriminate]. intros [= <-] _. destruct f2; reflexivity.
  - destruct s as [|c r]; cbn [lex_run].
    + intros [= <-] _. destruct f2; reflexivity.
    + intros H Hle. destruct f2 as [|f2]; [lia|]. cbn [lex_run].
      destruct (lex_one c r) as [[res d] rest].
      destruct (lex_run f (idx + blen d) rest) as [l'|] eqn:E; [|discriminate].
      rewrite (IH f2 _ _ _ E ltac:(lia)). exact H.
Qed.

(* the stream from byte offset idx, defined through enough fuel; its unfolding equations are the
   interface used by every later proof *)
Definition lex_from (idx : N) (s : str) : list item :=
  match lex_run (S (length s)) idx s with Some l => l | None => [] end.

Lemma lex_all_from s : lex_all s = lex_from 0 s.
Proof. reflexivity. Qed.

Lemma lex_from_run idx s : lex_run (S (length s)) idx s = Some (lex_from idx s).
Proof.
  unfold lex_from. destruct (lex_run (S (length s)) idx s) eqn:E; [reflexivity|].
  exfalso. eapply lex_run_fuel; [|exact E]. lia.
Qed.

Lemma lex_from_nil idx : lex_from idx [] = [ITok TkEof [] idx].
Proof. reflexivity. Qed.

Lemma lex_run_S f idx c r :
  lex_run (S f) idx (c :: r) =
  let '(res, d, rest) := lex_one c r in
  match lex_run f (idx + blen d) rest with
  | Some l => Some (lex_mk_item res d idx :: l)
  | None => None
  end.
Proof. reflexivity. Qed.

Lemma lex_from_cons idx c r res d rest :
  lex_one c r = (res, d, rest) ->
  lex_from idx (c :: r) = lex_mk_item res d idx :: lex_from (idx + blen d) rest.
Proof.
  intros E. pose proof (lex_from_run idx (c :: r)) as H.
  cbn [length] in H. rewrite lex_run_S, E in H.
  pose proof (lex_from_run (idx + blen d) rest) as H2.
  eapply lex_run_mono with (f2 := S (length r)) in H2.
  2:{ pose proof (lex_one_shorter _ _ _ _ _ E). lia. }
  rewrite H2 in H. injection H as H. symmetry. exact H.
Qed.

(* induction principle following the lexer's own steps *)
Lemma lex_ind (P : str -> Prop) :
  P [] ->
  (forall c r res d rest, lex_one c r = (res, d, rest) -> P rest -> P (c :: r)) ->
  forall s, P s.
Proof.
  intros Hnil Hcons.
  assert (H : forall n s, (length s <= n)%nat -> P s).
  { induction n as [|n IH]; intros s Hl.
    - destruct s; [exact Hnil|cbn in Hl; lia].
    - destruct s as [|c r]; [exact Hnil|].
      destruct (lex_one c r) as [[res d] rest] eqn:E.
      eapply Hcons; [exact E|]. apply IH.
      pose proof (lex_one_shorter _ _ _ _ _ E). cbn [length] in Hl. lia. }
  intros s. eapply H. reflexivity.
Qed.

Lemma item_data_mk res d idx : item_data (lex_mk_item res d idx) = d.
Proof. destruct res; reflexivity. Qed.
Lemma item_index_mk res d idx : item_index (lex_mk_item res d idx) = idx.
Proof. destruct res; reflexivity. Qed.

(* ---------- the items concatenate to the input ---------- *)
Lemma lex_from_concat s : forall idx, concat (map item_data (lex_from idx s)) = s.
Proof.
  induction s as [|c r res d rest E IH] using lex_ind; intros idx.
  - reflexivity.
  - rewrite (lex_from_cons _ _ _ _ _ _ E). cbn [map concat]. rewrite item_data_mk, IH.
    apply (lex_one_app _ _ _ _ _ E).
Qed.

Theorem lex_all_concat s : concat (map item_data (lex_all s)) = s.
Proof. apply lex_from_concat. Qed.

(* ---------- indices are the byte lengths of what precedes ---------- *)
Lemma lex_from_index s : forall idx pre it post,
  lex_from idx s = pre ++ it :: post ->
  item_index it = idx + blen (concat (map item_data pre)).
Proof.
  induction s as [|c r res d rest E IH] using lex_ind; intros idx pre it post.
  - rewrite lex_from_nil. destruct pre as [|p pre]; cbn [app].
    + intros [= <- _]. cbn. lia.
    + intros [= _ H]. destruct pre; discriminate.
  - rewrite (lex_from_cons _ _ _ _ _ _ E). destruct pre as [|p pre]; cbn [app].
    + intros [= <- _]. rewrite item_index_mk. cbn. lia.
    + intros [= <- H]. apply IH in H. rewrite H. cbn [map concat]. rewrite item_data_mk, blen_app. lia.
Qed.

Theorem lex_all_index s pre it post :
  lex_all s = pre ++ it :: post -> item_index it = blen (concat (map item_data pre)).
Proof. intros H. rewrite lex_all_from in H. apply lex_from_index in H. rewrite H. lia. Qed.

(* ---------- the stream ends with TkEof at the byte length, and TkEof occurs nowhere else ---------- *)
Definition is_eof (i : item) : bool :=
  match i with ITok k _ _ => tkind_eqb k TkEof | IErr _ _ _ => false end.

Lemma punct_kind_not_eof c k : lx_punct_kind c = Some k -> k <> TkEof.
Proof.
  unfold lx_punct_kind.
  repeat match goal with |- context [if ?b then _ else _] => destruct b end;
    intros [= <-]; discriminate.
Qed.

Lemma lex_one_not_eof c r res d rest : lex_one c r = (res, d, rest) -> res <> LxTok TkEof.
Proof.
  unfold lex_one. destruct (lx_punct_kind c) as [k|] eqn:Pk.
  { intros [= <- _ _] [= ->]. now apply punct_kind_not_eof in Pk. }
  unfold lx_num_minus, lx_num_int_digits, lx_num_after_int, lx_num_frac, lx_num_after_frac, lx_num_exp,
    lx_num_exp_digits, lx_num_after_exp, lex_spread, lex_string.
  repeat match goal with
    | |- context [match ?x with _ => _ end] => destruct x
    end; intros H Hr; subst res; discriminate H.
Qed.

Lemma lex_from_eof s : forall idx,
  exists pre, lex_from idx s = pre ++ [ITok TkEof [] (idx + blen s)] /\ existsb is_eof pre = false.
Proof.
  induction s as [|c r res d rest E IH] using lex_ind; intros idx.
  - exists []. rewrite lex_from_nil. cbn [blen app]. split; [f_equal; f_equal; lia|reflexivity].
  - destruct (IH (idx + blen d)) as [pre [Hp He]].
    exists (lex_mk_item res d idx :: pre). rewrite (lex_from_cons _ _ _ _ _ _ E), Hp.
    destruct (lex_one_app _ _ _ _ _ E) as [Happ _].
    split.
    + cbn [app]. replace (idx + blen (c :: r)) with (idx + blen d + blen rest); [reflexivity|].
      rewrite <- Happ, blen_app. lia.
    + cbn [existsb]. rewrite He, orb_false_r.
      pose proof (lex_one_not_eof _ _ _ _ _ E) as Hn.
      destruct res as [k|]; [|reflexivity]. cbn [lex_mk_item is_eof].
      destruct (tkind_eqb k TkEof) eqn:K; [|reflexivity]. apply tkind_eqb_eq in K. subst k. contradiction.
Qed.

Theorem lex_all_eof s :
  exists pre, lex_all s = pre ++ [ITok TkEof [] (blen s)] /\ existsb is_eof pre = false.
Proof. destruct (lex_from_eof s 0) as [pre H]. exists pre. rewrite lex_all_from. exact H. Qed.

(* no item is empty except the final TkEof *)
Lemma lex_from_nonempty s : forall idx pre it post,
  lex_from idx s = pre ++ it :: post -> post <> [] -> item_data it <> [].
Proof.
  induction s as [|c r res d rest E IH] using lex_ind; intros idx pre it post.
  - rewrite lex_from_nil. destruct pre as [|p pre]; cbn [app].
    + intros [= <- <-] H. contradiction.
    + intros [= _ H]. destruct pre; discriminate.
  - rewrite (lex_from_cons _ _ _ _ _ _ E). destruct pre as [|p pre]; cbn [app].
    + intros [= <- _] _. rewrite item_data_mk. destruct (lex_one_app _ _ _ _ _ E) as [_ [x ->]]. discriminate.
    + intros [= _ H]. eapply IH; eauto.
Qed.
