(* The C03 theorems over whole inputs: every token of lex_all is the maximal munch of the
   specification; lex_all reports no error exactly on lexically valid inputs; the refutation under
   the strict October 2021 SourceCharacter set. *)
From ApolloVerif Require Import Base.Chars Lex.Item Lex.Fun Lex.Spec Lex.LexProofs Lex.Bridge
  Lex.LexComplete Lex.LexSound.
From Coq Require Import ZifyBool ZifyN.

Definition item_is_tok (i : item) : bool := match i with ITok _ _ _ => true | IErr _ _ _ => false end.
(* the lexer reports no error *)
Definition no_lex_error (s : str) : bool := forallb item_is_tok (lex_all s).

(* ---------- first characters of lexemes ---------- *)
Definition FirstOf (k : tkind) (a : N) : Prop :=
  match k with
  | TkWhitespace => IgnoredChar a | TkComment => a = 35 | TkBang => a = 33 | TkDollar => a = 36
  | TkAmp => a = 38 | TkSpread => a = 46 | TkComma => a = 44 | TkColon => a = 58 | TkEq => a = 61
  | TkAt => a = 64 | TkLParen => a = 40 | TkRParen => a = 41 | TkLBracket => a = 91
  | TkRBracket => a = 93 | TkLCurly => a = 123 | TkRCurly => a = 125 | TkPipe => a = 124
  | TkEof => False | TkName => NameStart a | TkStringValue => a = 34
  | TkInt | TkFloat => a = 45 \/ Digit a
  end.

Lemma integer_part_first ip : IntegerPart ip -> exists a t, ip = a :: t /\ (a = 45 \/ Digit a).
Proof.
  intros [sg [->| ->]|sg c ds [->| ->] Hc Hds]; cbn [app]; eexists _, _; (split; [reflexivity|]);
    unfold Digit, NonZeroDigit in *; lia.
Qed.

Section Main.
Variable SC : N -> Prop.

Lemma lexeme_first k d : Lexeme SC k d -> exists a t, d = a :: t /\ FirstOf k a.
Proof.
  intros L. destruct L; try (eexists _, _; split; [reflexivity|cbn [FirstOf]; reflexivity]).
  - destruct d as [|a t]; [congruence|]. inversion H0; subst. eexists _, _. split; [reflexivity|assumption].
  - destruct H as [c r Hc Hr]. eexists _, _. split; [reflexivity|assumption].
  - destruct (integer_part_first _ H) as [a [t [-> Ha]]]. eexists _, _. split; [reflexivity|assumption].
  - destruct H as [ip fp ep Hip _ _|ip fp Hip _|ip ep Hip _];
      destruct (integer_part_first _ Hip) as [a [t [-> Ha]]]; eexists _, _; (split; [reflexivity|assumption]).
  - destruct H; eexists _, _; (split; [reflexivity|reflexivity]).
  - destruct H. eexists _, _. split; reflexivity.
Qed.

Lemma lexeme_nonempty k d : Lexeme SC k d -> d <> [].
Proof. intros L. destruct (lexeme_first _ _ L) as [a [t [-> _]]]. discriminate. Qed.

(* ---------- every token is the maximal munch ---------- *)
Lemma lex_from_munch (s : str) : forall idx0 pre k d idx post, Forall SC s ->
  lex_from idx0 s = pre ++ ITok k d idx :: post -> k <> TkEof ->
  Munch SC k d (concat (map item_data post)).
Proof.
  induction s as [|c r res d0 rest0 E IH] using lex_ind; intros idx0 pre k d idx post Hsc Hl Hk.
  - rewrite lex_from_nil in Hl. destruct pre as [|p pre]; cbn [app] in Hl.
    + injection Hl as <- _ _ _. congruence.
    + injection Hl as _ Hl. destruct pre; discriminate.
  - rewrite (lex_from_cons _ _ _ _ _ _ E) in Hl.
    destruct (lex_one_app _ _ _ _ _ E) as [Happ _].
    destruct pre as [|p pre]; cbn [app] in Hl.
    + injection Hl as Hm Hp. subst post. rewrite lex_from_concat.
      destruct res as [k0|]; cbn [lex_mk_item] in Hm; [|discriminate]. injection Hm as -> -> _.
      destruct (lex_one_sound SC _ _ _ _ _ E Hsc) as [HL HR].
      split; [exact HL|]. split; [exact HR|].
      intros k' d' rest' Heq HL'.
      destruct (lexeme_consumed SC _ _ rest' HL') as [o [Ho Hext]].
      rewrite Heq, Happ in Ho. cbn [lex_head] in Ho. rewrite E in Ho. injection Ho as <-.
      destruct Hext as [x [-> _]]. rewrite app_length. lia.
    + injection Hl as _ Hl. eapply IH; eauto.
      rewrite <- Happ in Hsc. now apply Forall_app in Hsc.
Qed.

Theorem tokens_are_munch s pre k d idx post : Forall SC s ->
  lex_all s = pre ++ ITok k d idx :: post -> k <> TkEof ->
  Munch SC k d (concat (map item_data post)).
Proof. intros Hsc Hl. rewrite lex_all_from in Hl. eapply lex_from_munch; eauto. Qed.

(* ---------- no error <-> lexically valid ---------- *)
Lemma LV_inv s : LexicallyValid SC s ->
  s = [] \/ exists k d rest, s = d ++ rest /\ Lexeme SC k d /\ Restrict SC k d rest /\ LexicallyValid SC rest.
Proof. intros [|k d rest HL HR HV]; [left; reflexivity|right; eauto 8]. Qed.

Lemma first_ignored k a : FirstOf k a -> IgnoredChar a -> k = TkWhitespace.
Proof.
  unfold IgnoredChar, UnicodeBOM, WhiteSpaceChar, LineTerminatorChar.
  destruct k; cbn [FirstOf]; unfold NameStart, Digit; try reflexivity; lia.
Qed.

Lemma lexeme_ws_inv d : Lexeme SC TkWhitespace d -> d <> [] /\ Forall IgnoredChar d.
Proof. inversion 1; auto. Qed.

(* ignored characters at the head can be dropped from a valid text *)
Lemma LV_strip : forall n x r, (length x <= n)%nat -> Forall IgnoredChar x ->
  LexicallyValid SC (x ++ r) -> LexicallyValid SC r.
Proof.
  induction n as [|n IH]; intros x r Hl Hx HV.
  - destruct x; [exact HV|cbn in Hl; lia].
  - destruct x as [|a x']; [exact HV|].
    apply LV_inv in HV as [HV|[k [d0 [rest0 [Heq [HL [HR HV]]]]]]]; [discriminate|].
    destruct (lexeme_first _ _ HL) as [a0 [t0 [-> Hf]]].
    assert (a0 = a) by (cbn [app] in Heq; congruence). subst a0.
    inversion Hx as [|? ? Ha Hx']; subst.
    assert (k = TkWhitespace) by (eapply first_ignored; eauto). subst k.
    destruct (lexeme_ws_inv _ HL) as [_ Hd0].
    symmetry in Heq. apply app_eq_app in Heq as [l [[E1 E2]|[E1 E2]]].
    + (* the lexeme covers x *)
      subst r. destruct l as [|b l']; [exact HV|].
      apply (LV_cons SC TkWhitespace); [|exact I|exact HV].
      apply Lx_ignored; [discriminate|]. rewrite E1 in Hd0. now apply Forall_app in Hd0.
    + (* the lexeme ends inside x *)
      subst rest0. apply (IH l r); auto.
      * rewrite E1, app_length in Hl. cbn [length] in *. lia.
      * rewrite E1 in Hx. now apply Forall_app in Hx.
Qed.

Lemma valid_no_error : forall n s idx, (length s <= n)%nat -> Forall SC s -> LexicallyValid SC s ->
  forallb item_is_tok (lex_from idx s) = true.
Proof.
  induction n as [|n IH]; intros s idx Hl Hsc HV.
  - destruct s; [reflexivity|cbn in Hl; lia].
  - apply LV_inv in HV as [->|[k [d [rest [-> [HL [HR HV]]]]]]]; [reflexivity|].
    pose proof (lexeme_nonempty _ _ HL) as Hne.
    pose proof Hsc as Hsc'. apply Forall_app in Hsc' as [Hscd Hscr].
    destruct (tkind_eqb k TkWhitespace) eqn:Hk.
    + apply tkind_eqb_eq in Hk. subst k. destruct (lexeme_ws_inv _ HL) as [_ Hd].
      destruct (ignored_head d rest Hne Hd) as [x [rest' [Hh [Hx [Hxi _]]]]].
      destruct (d ++ rest) as [|c r] eqn:Hs; [discriminate|]. cbn [lex_head] in Hh. injection Hh as Hh.
      rewrite (lex_from_cons _ _ _ _ _ _ Hh). cbn [forallb lex_mk_item item_is_tok].
      assert (HV' : LexicallyValid SC rest').
      { apply (LV_strip (length x) x); auto. now rewrite Hx. }
      assert (Hlen : (length rest' <= n)%nat).
      { apply (f_equal (@length N)) in Hs. rewrite app_length in Hs. cbn [length] in Hs, Hl.
        subst rest. rewrite app_length in Hs. destruct d; [congruence|cbn [length] in Hs]. lia. }
      assert (Hsc2 : Forall SC rest').
      { subst rest. now apply Forall_app in Hscr. }
      rewrite (IH rest' (idx + blen (d ++ x)) Hlen Hsc2 HV'). reflexivity.
    + assert (Hkn : k <> TkWhitespace) by (intros ->; cbn in Hk; discriminate).
      pose proof (lexeme_exact SC _ _ _ HL HR Hkn Hscr) as Hh.
      destruct (d ++ rest) as [|c r] eqn:Hs; [discriminate|]. cbn [lex_head] in Hh. injection Hh as Hh.
      rewrite (lex_from_cons _ _ _ _ _ _ Hh). cbn [forallb lex_mk_item item_is_tok].
      assert (Hlen : (length rest <= n)%nat).
      { apply (f_equal (@length N)) in Hs. rewrite app_length in Hs. cbn [length] in Hs, Hl.
        destruct d; [congruence|cbn [length] in Hs]. lia. }
      rewrite (IH rest (idx + blen d) Hlen Hscr HV). reflexivity.
Qed.

Lemma no_error_valid (s : str) : forall idx, Forall SC s ->
  forallb item_is_tok (lex_from idx s) = true -> LexicallyValid SC s.
Proof.
  induction s as [|c r res d rest E IH] using lex_ind; intros idx Hsc Hne.
  - constructor.
  - rewrite (lex_from_cons _ _ _ _ _ _ E) in Hne. cbn [forallb] in Hne.
    apply andb_true_iff in Hne as [Ht Hne].
    destruct res as [k|]; cbn [lex_mk_item item_is_tok] in Ht; [|discriminate].
    destruct (lex_one_app _ _ _ _ _ E) as [Happ _].
    destruct (lex_one_sound SC _ _ _ _ _ E Hsc) as [HL HR].
    rewrite <- Happ. apply (LV_cons SC k); auto.
    eapply IH; eauto. rewrite <- Happ in Hsc. now apply Forall_app in Hsc.
Qed.

Theorem no_error_iff s : Forall SC s -> (no_lex_error s = true <-> LexicallyValid SC s).
Proof.
  intros Hsc. unfold no_lex_error. rewrite lex_all_from. split.
  - intros H. eapply no_error_valid; eauto.
  - intros HV. eapply valid_no_error; eauto.
Qed.

End Main.

(* ---------- a regression example: quote LF quote (accepted before the repair 4dbec7a) ---------- *)
Example leading_line_terminator_is_error : lex_all [34; 10; 34] = [IErr ELex [34; 10; 34] 0; ITok TkEof [] 3].
Proof. vm_compute. reflexivity. Qed.

(* D4: under the strict October 2021 SourceCharacter, hash U+0001 lexes without error but is not valid *)
Definition wit_oct2021 : str := [35; 1].

Theorem no_error_iff_oct2021_refuted :
  exists s, Forall scalar s /\ no_lex_error s = true /\ ~ LexicallyValid SC_oct2021 s.
Proof.
  exists wit_oct2021. split; [repeat constructor; unfold scalar; lia|].
  split; [vm_compute; reflexivity|].
  intros HV. apply LV_inv in HV as [HV|[k [d [rest [Heq [HL [HR HV]]]]]]]; [discriminate|].
  destruct (lexeme_first _ _ _ HL) as [a [t [-> Hf]]]. unfold wit_oct2021 in Heq.
  cbn [app] in Heq. injection Heq as <- Heq.
  assert (k = TkComment).
  { destruct k; cbn [FirstOf] in Hf; try reflexivity; unfold IgnoredChar, UnicodeBOM, WhiteSpaceChar,
      LineTerminatorChar, NameStart, Digit in Hf; try lia; try tauto. }
  subst k. inversion HL as [|body Hb| | | | | | | | | | | | | | | | | | | |]; subst.
  destruct t as [|b body'].
  - cbn [app] in Heq. subst rest.
    apply LV_inv in HV as [HV|[k [d [rest [Heq [HL' [_ _]]]]]]]; [discriminate|].
    destruct (lexeme_first _ _ _ HL') as [a [t [-> Hf']]]. cbn [app] in Heq. injection Heq as <- _.
    destruct k; cbn [FirstOf] in Hf'; unfold IgnoredChar, UnicodeBOM, WhiteSpaceChar,
      LineTerminatorChar, NameStart, Digit in Hf'; try lia; try tauto.
  - cbn [app] in Heq. injection Heq as <- _. inversion Hb as [|? ? [Hsc _] _]; subst.
    unfold SC_oct2021 in Hsc. lia.
Qed.

(* deciding the hypotheses on concrete inputs *)
Definition sc_oct2021_b (c : N) : bool :=
  (c =? 9) || (c =? 10) || (c =? 13) || ((32 <=? c) && (c <=? 65535)).
Lemma sc_oct2021_forall s : forallb sc_oct2021_b s = true -> Forall SC_oct2021 s.
Proof.
  intros H. apply Forall_forall. intros c Hc. rewrite forallb_forall in H. specialize (H c Hc).
  unfold sc_oct2021_b in H. unfold SC_oct2021. lia.
Qed.
Lemma scalar_forall s : forallb scalarb s = true -> Forall scalar s.
Proof.
  intros H. apply Forall_forall. intros c Hc. rewrite forallb_forall in H. apply scalarb_spec. auto.
Qed.
