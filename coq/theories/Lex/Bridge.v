(* Boolean character classes of the lexer model = the character classes of the specification;
   facts about lx_span; how lex_one dispatches on the first character. *)
From ApolloVerif Require Import Base.Chars Lex.Item Lex.Fun Lex.Spec Lex.LexProofs.
From Coq Require Import ZifyBool ZifyN.

Lemma is_digit_spec c : is_digit c = true <-> Digit c.
Proof. unfold is_digit, Digit. lia. Qed.
Lemma is_ws_spec c : lx_is_ws c = true <-> IgnoredChar c.
Proof. unfold lx_is_ws, IgnoredChar, UnicodeBOM, WhiteSpaceChar, LineTerminatorChar. lia. Qed.
Lemma is_line_term_spec c : lx_is_line_term c = true <-> LineTerminatorChar c.
Proof. unfold lx_is_line_term, LineTerminatorChar. lia. Qed.
Lemma is_hex_spec c : lx_is_hex c = true <-> HexDigit c.
Proof. unfold lx_is_hex, is_digit, HexDigit, Digit. lia. Qed.
Lemma is_escaped_char_spec c : lx_is_escaped_char c = true <-> EscapedCharacter c.
Proof. unfold lx_is_escaped_char, EscapedCharacter. lia. Qed.
Lemma is_exp_ind_spec c : lx_is_exp_ind c = true <-> ExponentIndicator c.
Proof. unfold lx_is_exp_ind, ExponentIndicator. lia. Qed.
Lemma is_surrogate_spec v : lx_is_surrogate v = true <-> Surrogate v.
Proof. unfold lx_is_surrogate, Surrogate. lia. Qed.
Lemma hexval_spec c : HexDigit c -> lx_hexval c = hex_digit_value c.
Proof.
  unfold HexDigit, Digit, lx_hexval, hex_digit_value, is_digit. intros H.
  destruct ((48 <=? c) && (c <=? 57)) eqn:E1; destruct (c <=? 57) eqn:E2; destruct (c <=? 70) eqn:E3;
    try reflexivity; lia.
Qed.

Lemma is_digit_false c : is_digit c = false <-> ~ Digit c.
Proof. rewrite <- is_digit_spec. destruct (is_digit c); split; congruence. Qed.

Lemma forallb_Forall (p : N -> bool) (P : N -> Prop) l :
  (forall c, p c = true <-> P c) -> (forallb p l = true <-> Forall P l).
Proof.
  intros H. induction l as [|c l IH]; cbn [forallb].
  - split; auto.
  - rewrite andb_true_iff, IH, H. split; [intros [? ?]; constructor; auto|inversion 1; auto].
Qed.

(* ---------- lx_span ---------- *)
Lemma span_nil p s : match s with [] => True | c :: _ => p c = false end -> lx_span p s = ([], s).
Proof. destruct s as [|c r]; cbn [lx_span]; [reflexivity|]. intros ->. reflexivity. Qed.

Lemma span_prefix p a b : forallb p a = true ->
  lx_span p (a ++ b) = let '(x, r) := lx_span p b in (a ++ x, r).
Proof.
  induction a as [|c a IH]; cbn [forallb app].
  - intros _. destruct (lx_span p b). reflexivity.
  - rewrite andb_true_iff. intros [Hc Ha]. cbn [lx_span]. rewrite Hc, (IH Ha).
    destruct (lx_span p b). reflexivity.
Qed.

Lemma span_Forall p (P : N -> Prop) s a b :
  (forall c, p c = true <-> P c) -> lx_span p s = (a, b) -> Forall P a /\ ~ starts P b.
Proof.
  intros H E. split.
  - eapply forallb_Forall; eauto. eapply span_all; eauto.
  - pose proof (span_stop _ _ _ _ E) as Hs. destruct b as [|c b']; cbn [starts]; [tauto|].
    rewrite <- H. congruence.
Qed.

Lemma not_starts_span p (P : N -> Prop) s :
  (forall c, p c = true <-> P c) -> ~ starts P s -> lx_span p s = ([], s).
Proof.
  intros H Hs. apply span_nil. destruct s as [|c r]; [exact I|]. cbn [starts] in Hs.
  rewrite <- H in Hs. destruct (p c); congruence.
Qed.

(* ---------- the head of a text ---------- *)
Definition lex_head (s : str) : option lx_out :=
  match s with [] => None | c :: r => Some (lex_one c r) end.

(* ---------- dispatch on the first character ---------- *)
Ltac decide_eqb :=
  repeat match goal with
    | |- context [N.eqb ?a ?b] => destruct (N.eqb_spec a b); try lia
    end.

Ltac pick_disj :=
  solve [split; reflexivity] || (left; solve [split; reflexivity]) || (right; pick_disj).

Lemma punct_kind_some c k : lx_punct_kind c = Some k ->
  (c = 123 /\ k = TkLCurly) \/ (c = 125 /\ k = TkRCurly) \/ (c = 33 /\ k = TkBang) \/ (c = 36 /\ k = TkDollar) \/
  (c = 38 /\ k = TkAmp) \/ (c = 40 /\ k = TkLParen) \/ (c = 41 /\ k = TkRParen) \/ (c = 58 /\ k = TkColon) \/
  (c = 44 /\ k = TkComma) \/ (c = 91 /\ k = TkLBracket) \/ (c = 93 /\ k = TkRBracket) \/ (c = 61 /\ k = TkEq) \/
  (c = 64 /\ k = TkAt) \/ (c = 124 /\ k = TkPipe).
Proof.
  unfold lx_punct_kind. intros H.
  repeat match type of H with
    | (if ?a =? ?b then _ else _) = _ =>
        destruct (N.eqb_spec a b) as [->|?]; [injection H as <-; pick_disj|]
    end.
  discriminate H.
Qed.

Lemma punct_kind_none c :
  c <> 123 -> c <> 125 -> c <> 33 -> c <> 36 -> c <> 38 -> c <> 40 -> c <> 41 -> c <> 58 -> c <> 44 ->
  c <> 91 -> c <> 93 -> c <> 61 -> c <> 64 -> c <> 124 -> lx_punct_kind c = None.
Proof. intros. unfold lx_punct_kind. decide_eqb. reflexivity. Qed.

Lemma lex_one_name c r : is_name_start c = true ->
  lex_one c r = let '(d, rest) := lx_span is_name_continue r in (LxTok TkName, c :: d, rest).
Proof.
  intros H. unfold lex_one. rewrite punct_kind_none, H; [reflexivity|..];
    unfold is_name_start, is_alpha in H; lia.
Qed.

Lemma lex_one_ws c r : lx_is_ws c = true ->
  lex_one c r = let '(d, rest) := lx_span lx_is_ws r in (LxTok TkWhitespace, c :: d, rest).
Proof.
  intros H. apply is_ws_spec in H. unfold IgnoredChar, UnicodeBOM, WhiteSpaceChar, LineTerminatorChar in H.
  destruct H as [->|[[->| ->]|[->| ->]]]; reflexivity.
Qed.

Lemma lex_one_nonzero c r : NonZeroDigit c -> lex_one c r = lx_num_int_digits [c] r.
Proof.
  intros H. unfold NonZeroDigit in H. unfold lex_one.
  rewrite punct_kind_none by lia.
  replace (is_name_start c) with false by (unfold is_name_start, is_alpha; lia).
  replace (negb (c =? 48) && is_digit c) with true by (unfold is_digit; lia). reflexivity.
Qed.

Lemma lex_one_quote r : lex_one 34 r = lex_string r. Proof. reflexivity. Qed.
Lemma lex_one_hash r :
  lex_one 35 r = let '(d, rest) := lx_span lx_not_line_term r in (LxTok TkComment, 35 :: d, rest).
Proof. reflexivity. Qed.
Lemma lex_one_dot r : lex_one 46 r = lex_spread r. Proof. reflexivity. Qed.
Lemma lex_one_minus r : lex_one 45 r = lx_num_minus r. Proof. reflexivity. Qed.
Lemma lex_one_zero r : lex_one 48 r = lx_num_after_int true [48] r. Proof. reflexivity. Qed.

(* every other first character is an error of one character *)
Lemma lex_one_other c r :
  lx_punct_kind c = None -> is_name_start c = false -> is_digit c = false -> c <> 34 -> c <> 35 ->
  c <> 46 -> c <> 45 -> lx_is_ws c = false -> lex_one c r = (LxErr, [c], r).
Proof.
  intros Hp Hn Hd H1 H2 H3 H4 Hw. unfold lex_one. rewrite Hp, Hn, Hd, Hw, andb_false_r.
  assert (c <> 48) by (unfold is_digit in Hd; lia).
  decide_eqb. reflexivity.
Qed.

(* the complete case analysis on the first character *)
Inductive first_class (c : N) : Prop :=
| FC_punct k : lx_punct_kind c = Some k -> first_class c
| FC_name : is_name_start c = true -> first_class c
| FC_nonzero : NonZeroDigit c -> first_class c
| FC_quote : c = 34 -> first_class c
| FC_hash : c = 35 -> first_class c
| FC_dot : c = 46 -> first_class c
| FC_minus : c = 45 -> first_class c
| FC_zero : c = 48 -> first_class c
| FC_ws : lx_is_ws c = true -> first_class c
| FC_other : lx_punct_kind c = None -> is_name_start c = false -> is_digit c = false -> c <> 34 ->
    c <> 35 -> c <> 46 -> c <> 45 -> lx_is_ws c = false -> first_class c.

Lemma first_class_total c : first_class c.
Proof.
  destruct (lx_punct_kind c) as [k|] eqn:Pk; [eapply FC_punct; eauto|].
  destruct (is_name_start c) eqn:Hn; [apply FC_name; auto|].
  destruct (N.eqb_spec c 48); [apply FC_zero; auto|].
  destruct (is_digit c) eqn:Hd; [apply FC_nonzero; unfold is_digit in Hd; unfold NonZeroDigit; lia|].
  destruct (N.eqb_spec c 34); [apply FC_quote; auto|].
  destruct (N.eqb_spec c 35); [apply FC_hash; auto|].
  destruct (N.eqb_spec c 46); [apply FC_dot; auto|].
  destruct (N.eqb_spec c 45); [apply FC_minus; auto|].
  destruct (lx_is_ws c) eqn:Hw; [apply FC_ws; auto|].
  apply FC_other; auto.
Qed.
