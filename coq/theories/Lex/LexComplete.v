(* Completeness side: a lexeme of the specification at the head of the text is consumed whole by
   lex_one (so no lexeme at the head is longer than what the lexer takes), and if its lookahead
   restriction holds the lexer returns exactly that lexeme as a token of that kind. *)
From ApolloVerif Require Import Base.Chars Lex.Item Lex.Fun Lex.Spec Lex.LexProofs Lex.Bridge.
From Coq Require Import ZifyBool ZifyN.

Lemma digits_forallb ds : Forall Digit ds -> forallb is_digit ds = true.
Proof. apply forallb_Forall. apply is_digit_spec. Qed.

Lemma Digit_is_digit c : Digit c -> is_digit c = true.
Proof. apply is_digit_spec. Qed.

(* ---------- numbers ---------- *)
Definition frac_cont (pre tail : str) : lx_out :=
  let '(x, r2) := lx_span is_digit tail in lx_num_after_frac (pre ++ x) r2.

Lemma num_exp_digits_app pre ds rest : Forall Digit ds ->
  lx_num_exp_digits pre (ds ++ rest) = lx_num_exp_digits (pre ++ ds) rest.
Proof.
  intros H. unfold lx_num_exp_digits. rewrite (span_prefix _ _ _ (digits_forallb _ H)).
  destruct (lx_span is_digit rest) as [x r2]. now rewrite app_assoc.
Qed.

Lemma num_int_digits_app pre ds rest : Forall Digit ds ->
  lx_num_int_digits pre (ds ++ rest) = lx_num_int_digits (pre ++ ds) rest.
Proof.
  intros H. unfold lx_num_int_digits. rewrite (span_prefix _ _ _ (digits_forallb _ H)).
  destruct (lx_span is_digit rest) as [x r2]. now rewrite app_assoc.
Qed.

Lemma num_exp_ep pre sg c ds rest : SignOpt sg -> Digit c -> Forall Digit ds ->
  lx_num_exp pre (sg ++ c :: ds ++ rest) = lx_num_exp_digits (pre ++ sg ++ c :: ds) rest.
Proof.
  intros Hsg Hc Hds. pose proof (Digit_is_digit _ Hc) as Hc'.
  destruct Hsg as [->|[->| ->]]; cbn [app]; unfold lx_num_exp.
  - rewrite Hc', num_exp_digits_app by exact Hds. now rewrite <- app_assoc.
  - change (is_digit 43) with false. change ((43 =? 43) || (43 =? 45)) with true. cbv iota.
    rewrite Hc', num_exp_digits_app by exact Hds. now rewrite <- app_assoc.
  - change (is_digit 45) with false. change ((45 =? 43) || (45 =? 45)) with true. cbv iota.
    rewrite Hc', num_exp_digits_app by exact Hds. now rewrite <- app_assoc.
Qed.

Lemma exp_ind_facts e : ExponentIndicator e ->
  lx_is_exp_ind e = true /\ (e =? 46) = false /\ is_digit e = false.
Proof. unfold ExponentIndicator, lx_is_exp_ind, is_digit. lia. Qed.

Lemma after_frac_ep pre ep rest : ExponentPart ep ->
  lx_num_after_frac pre (ep ++ rest) = lx_num_exp_digits (pre ++ ep) rest.
Proof.
  intros [e sg c ds He Hsg Hc Hds]. destruct (exp_ind_facts _ He) as [H1 [H2 H3]].
  cbn [app]. unfold lx_num_after_frac. rewrite H1. rewrite <- app_assoc. cbn [app].
  rewrite num_exp_ep by assumption. f_equal. rewrite <- !app_assoc. reflexivity.
Qed.

Lemma after_int_ep z pre ep rest : ExponentPart ep ->
  lx_num_after_int z pre (ep ++ rest) = lx_num_exp_digits (pre ++ ep) rest.
Proof.
  intros [e sg c ds He Hsg Hc Hds]. destruct (exp_ind_facts _ He) as [H1 [H2 H3]].
  cbn [app]. unfold lx_num_after_int. rewrite H2, H1. rewrite <- app_assoc. cbn [app].
  rewrite num_exp_ep by assumption. f_equal. rewrite <- !app_assoc. reflexivity.
Qed.

Lemma after_int_fp z pre fp tail : FractionalPart fp ->
  lx_num_after_int z pre (fp ++ tail) = frac_cont (pre ++ fp) tail.
Proof.
  intros [c ds Hc Hds]. cbn [app]. unfold lx_num_after_int. change (46 =? 46) with true. cbv iota.
  unfold lx_num_frac. rewrite (Digit_is_digit _ Hc).
  rewrite (span_prefix _ _ _ (digits_forallb _ Hds)). unfold frac_cont.
  destruct (lx_span is_digit tail) as [x r2]. f_equal. rewrite <- !app_assoc. reflexivity.
Qed.

Lemma frac_cont_ep pre ep rest : ExponentPart ep ->
  frac_cont pre (ep ++ rest) = lx_num_exp_digits (pre ++ ep) rest.
Proof.
  intros Hep. unfold frac_cont.
  assert (E : lx_span is_digit (ep ++ rest) = ([], ep ++ rest)).
  { destruct Hep as [e sg c ds He Hsg Hc Hds]. destruct (exp_ind_facts _ He) as [H1 [H2 H3]].
    cbn [app lx_span]. now rewrite H3. }
  rewrite E, app_nil_r. now apply after_frac_ep.
Qed.

(* the integer part at the head of the text *)
Definition int_cont (z : bool) (ip tail : str) : lx_out :=
  if z then lx_num_after_int true ip tail else lx_num_int_digits ip tail.

Lemma int_head ip : IntegerPart ip ->
  exists z, forall tail, lex_head (ip ++ tail) = Some (int_cont z ip tail).
Proof.
  intros [sg Hsg|sg c ds Hsg Hc Hds].
  - exists true. intros tail. destruct Hsg as [->| ->]; reflexivity.
  - exists false. intros tail. unfold int_cont.
    assert (Hc' : c <> 48 /\ is_digit c = true) by (unfold NonZeroDigit, is_digit in *; lia).
    destruct Hc' as [Hc1 Hc2].
    destruct Hsg as [->| ->]; cbn [app lex_head].
    + rewrite lex_one_nonzero by exact Hc. rewrite num_int_digits_app by exact Hds. reflexivity.
    + rewrite lex_one_minus. unfold lx_num_minus. replace (c =? 48) with false by lia. rewrite Hc2.
      rewrite num_int_digits_app by exact Hds. reflexivity.
Qed.

Lemma int_cont_nodigit z ip tail : ~ starts Digit tail -> int_cont z ip tail = lx_num_after_int z ip tail.
Proof.
  intros H. destruct z; [reflexivity|]. unfold int_cont, lx_num_int_digits.
  rewrite (not_starts_span _ _ _ is_digit_spec H), app_nil_r. reflexivity.
Qed.

Lemma int_cont_ext z ip tail : extends ip tail (int_cont z ip tail).
Proof. destruct z; [apply num_after_int_ext|apply num_int_digits_ext]. Qed.

Lemma frac_cont_ext pre tail : extends pre tail (frac_cont pre tail).
Proof.
  unfold frac_cont. destruct (lx_span is_digit tail) as [x r2] eqn:E.
  eapply ext_step; [eapply span_app; eauto|apply num_after_frac_ext].
Qed.

Lemma not_follow c : ~ NumberFollow c ->
  (c =? 46) = false /\ lx_is_exp_ind c = false /\ is_digit c = false /\ is_name_start c = false.
Proof.
  unfold NumberFollow, Digit, NameStart, lx_is_exp_ind, is_digit, is_name_start, is_alpha. lia.
Qed.

Lemma after_int_exact z ip tail : ~ starts NumberFollow tail ->
  lx_num_after_int z ip tail = (LxTok TkInt, ip, tail).
Proof.
  intros H. unfold lx_num_after_int. destruct tail as [|c r]; [reflexivity|].
  cbn [starts] in H. destruct (not_follow _ H) as [H1 [H2 [H3 H4]]].
  rewrite H1, H2, H3, H4, andb_false_r. reflexivity.
Qed.

Lemma after_frac_exact pre tail : ~ starts NumberFollow tail ->
  lx_num_after_frac pre tail = (LxTok TkFloat, pre, tail).
Proof.
  intros H. unfold lx_num_after_frac. destruct tail as [|c r]; [reflexivity|].
  cbn [starts] in H. destruct (not_follow _ H) as [H1 [H2 [H3 H4]]].
  rewrite H1, H2, H4. reflexivity.
Qed.

Lemma after_exp_exact pre tail : ~ starts NumberFollow tail ->
  lx_num_after_exp pre tail = (LxTok TkFloat, pre, tail).
Proof.
  intros H. unfold lx_num_after_exp. destruct tail as [|c r]; [reflexivity|].
  cbn [starts] in H. destruct (not_follow _ H) as [H1 [H2 [H3 H4]]].
  rewrite H1, H4. reflexivity.
Qed.

Lemma follow_nodigit tail : ~ starts NumberFollow tail -> ~ starts Digit tail.
Proof. destruct tail; cbn [starts]; unfold NumberFollow; tauto. Qed.

Lemma frac_cont_exact pre tail : ~ starts NumberFollow tail ->
  frac_cont pre tail = (LxTok TkFloat, pre, tail).
Proof.
  intros H. unfold frac_cont.
  rewrite (not_starts_span _ _ _ is_digit_spec (follow_nodigit _ H)), app_nil_r.
  now apply after_frac_exact.
Qed.

Lemma exp_digits_exact pre tail : ~ starts NumberFollow tail ->
  lx_num_exp_digits pre tail = (LxTok TkFloat, pre, tail).
Proof.
  intros H. unfold lx_num_exp_digits.
  rewrite (not_starts_span _ _ _ is_digit_spec (follow_nodigit _ H)), app_nil_r.
  now apply after_exp_exact.
Qed.

Lemma fp_nodigit fp tail : FractionalPart fp -> ~ starts Digit (fp ++ tail).
Proof. intros [c ds _ _]. cbn [app starts]. unfold Digit. lia. Qed.
Lemma ep_nodigit ep tail : ExponentPart ep -> ~ starts Digit (ep ++ tail).
Proof. intros [e sg c ds He _ _ _]. cbn [app starts]. unfold Digit, ExponentIndicator in *. lia. Qed.

(* a FloatValue at the head of the text *)
Lemma float_head d : FloatValue d ->
  forall tail, lex_head (d ++ tail) = Some (frac_cont d tail) \/
               lex_head (d ++ tail) = Some (lx_num_exp_digits d tail).
Proof.
  intros [ip fp ep Hip Hfp Hep|ip fp Hip Hfp|ip ep Hip Hep] tail;
    destruct (int_head _ Hip) as [z Hz].
  - right. rewrite <- !app_assoc, Hz.
    rewrite int_cont_nodigit by (now apply fp_nodigit).
    rewrite after_int_fp by assumption. rewrite frac_cont_ep by assumption.
    now rewrite <- !app_assoc.
  - left. rewrite <- !app_assoc, Hz.
    rewrite int_cont_nodigit by (now apply fp_nodigit).
    now rewrite after_int_fp.
  - right. rewrite <- !app_assoc, Hz.
    rewrite int_cont_nodigit by (now apply ep_nodigit).
    now rewrite after_int_ep.
Qed.

(* ---------- quoted strings ---------- *)
Lemma scons_false c d rest : lx_scons c false (d, rest, false) = (c :: d, rest, false).
Proof. reflexivity. Qed.

Lemma hex_not_quote c : HexDigit c -> (c =? 34) = false /\ lx_is_hex c = true.
Proof. intros H. split; [unfold HexDigit, Digit in H; lia|now apply is_hex_spec]. Qed.

Section WithSC.
Variable SC : N -> Prop.

Lemma scan_one_chunk chunk s : StringCharacter SC chunk ->
  forall d rest, lx_scan_str LxSStr s = (d, rest, false) ->
  lx_scan_str LxSStr (chunk ++ s) = (chunk ++ d, rest, false).
Proof.
  intros [c Hsc H1 H2 H3|a b c e Ha Hb Hc He Hns|c Hc] d rest E; cbn [app].
  - cbn [lx_scan_str]. replace (c =? 34) with false by lia. replace (c =? 92) with false by lia.
    replace (lx_is_line_term c) with false
      by (symmetry; destruct (lx_is_line_term c) eqn:X; [apply is_line_term_spec in X; tauto|reflexivity]).
    rewrite E. reflexivity.
  - destruct (hex_not_quote _ Ha) as [qa ha]. destruct (hex_not_quote _ Hb) as [qb hb].
    destruct (hex_not_quote _ Hc) as [qc hc]. destruct (hex_not_quote _ He) as [qe he].
    cbn [lx_scan_str]. change (92 =? 34) with false. change (lx_is_line_term 92) with false.
    change (92 =? 92) with true. change (lx_is_escaped_char 117) with false. change (117 =? 117) with true.
    cbv iota. rewrite qa, ha, qb, hb, qc, hc, qe, he. cbn [negb]. cbv iota zeta.
    replace (lx_is_surrogate _) with false.
    2:{ symmetry. destruct (lx_is_surrogate _) eqn:X; [|reflexivity]. exfalso. apply Hns.
        apply is_surrogate_spec in X. unfold hex4_value.
        rewrite <- !hexval_spec by assumption. unfold Surrogate in *. lia. }
    rewrite E. reflexivity.
  - cbn [lx_scan_str]. change (92 =? 34) with false. change (lx_is_line_term 92) with false.
    change (92 =? 92) with true. cbv iota.
    replace (lx_is_escaped_char c) with true by (symmetry; now apply is_escaped_char_spec).
    rewrite E. reflexivity.
Qed.

Lemma scan_chunks chunks rest : Forall (StringCharacter SC) chunks ->
  lx_scan_str LxSStr (concat chunks ++ 34 :: rest) = (concat chunks ++ [34], rest, false).
Proof.
  induction 1 as [|chunk chunks Hc Hcs IH]; cbn [concat app].
  - reflexivity.
  - rewrite <- !app_assoc. now apply scan_one_chunk.
Qed.

Lemma chunk_first chunk : StringCharacter SC chunk ->
  exists c t, chunk = c :: t /\ c <> 34 /\ lx_is_line_term c = false.
Proof.
  intros [c Hsc H1 H2 H3|a b c e _ _ _ _ _|c _].
  - exists c, []. split; [reflexivity|split; [assumption|]]. destruct (lx_is_line_term c) eqn:X; [apply is_line_term_spec in X; tauto|reflexivity].
  - exists 92, [117; a; b; c; e]. split; [reflexivity|split; [lia|reflexivity]].
  - exists 92, [c]. split; [reflexivity|split; [lia|reflexivity]].
Qed.

(* after the opening quote, lex_string is lx_scan_str from State::StringLiteral unless the next
   character is a quote *)
Lemma lex_string_scan c r1 : c <> 34 ->
  lex_string (c :: r1) =
  let '(d, rest, e) := lx_scan_str LxSStr (c :: r1) in (if e then LxErr else LxTok TkStringValue, 34 :: d, rest).
Proof.
  intros H1. unfold lex_string. replace (c =? 34) with false by lia. cbn [lx_scan_str].
  replace (c =? 34) with false by lia.
  destruct (lx_is_line_term c) eqn:H2.
  - replace (c =? 92) with false by (unfold lx_is_line_term in H2; lia).
    destruct (lx_scan_str _ r1) as [[d rest] e]; reflexivity.
  - destruct (c =? 92); destruct (lx_scan_str _ r1) as [[d rest] e]; reflexivity.
Qed.

Lemma quoted_head d tail : QuotedString SC d -> d <> [34; 34] ->
  lex_head (d ++ tail) = Some (LxTok TkStringValue, d, tail).
Proof.
  intros [|chunks Hne Hcs] Hd; [congruence|]. cbn [app lex_head]. rewrite lex_one_quote.
  destruct chunks as [|chunk chunks]; [congruence|].
  pose proof (scan_chunks (chunk :: chunks) tail Hcs) as Hs.
  inversion Hcs as [|? ? Hc _]; subst. destruct (chunk_first _ Hc) as [c [t [-> [Hq Hl]]]].
  cbn [concat app] in *. rewrite <- !app_assoc. cbn [app]. rewrite lex_string_scan by assumption.
  rewrite <- !app_assoc in Hs. cbn [app] in Hs. rewrite Hs. reflexivity.
Qed.

(* ---------- block strings ---------- *)
Lemma scan_block_bs s : ~ starts_triple s -> lx_scan_block true s = lx_scan_block false s.
Proof.
  intros H. destruct s as [|c r]; [reflexivity|]. cbn [lx_scan_block].
  destruct (N.eqb_spec c 34) as [->|]; [|reflexivity].
  destruct r as [|q1 r1]; [reflexivity|]. destruct (N.eqb_spec q1 34) as [->|]; [|reflexivity].
  destruct r1 as [|q2 r2]; [reflexivity|]. destruct (N.eqb_spec q2 34) as [->|]; [|reflexivity].
  exfalso. apply H. eexists. reflexivity.
Qed.

Lemma BlockTail_nonempty t : BlockTail SC t -> t <> [].
Proof. intros [| |]; discriminate. Qed.

Lemma BlockTail_len3 t : BlockTail SC t -> exists a b c t', t = a :: b :: c :: t'.
Proof.
  induction 1 as [|t Ht IH|c t Hsc H3 H4 Ht IH].
  - repeat eexists.
  - repeat eexists.
  - destruct IH as [a [b [c' [t' ->]]]]. repeat eexists.
Qed.

Lemma block_tail_scan t : BlockTail SC t -> forall rest, lx_scan_block false (t ++ rest) = (t, rest, true).
Proof.
  induction 1 as [|t Ht IH|c t Hsc H3 H4 Ht IH]; intros rest.
  - reflexivity.
  - cbn [app lx_scan_block]. change (92 =? 34) with false. change (92 =? 92) with true.
    change (34 =? 34) with true. cbv iota. rewrite IH. reflexivity.
  - cbn [app]. specialize (IH rest).
    destruct (N.eqb_spec c 92) as [->|Hc92].
    + cbn [lx_scan_block]. change (92 =? 34) with false. change (92 =? 92) with true. cbv iota.
      rewrite scan_block_bs, IH; [reflexivity|].
      intros [r Hr]. apply H4. destruct (BlockTail_len3 _ Ht) as [x [y [z [t' ->]]]].
      cbn [app] in Hr. injection Hr as -> -> -> _. eexists. reflexivity.
    + destruct (N.eqb_spec c 34) as [->|Hc34].
      * (* a quote that does not start a closing triple *)
        pose proof (BlockTail_nonempty _ Ht) as Hne.
        destruct t as [|q1 t1]; [congruence|]. cbn [app lx_scan_block] in *.
        change (34 =? 34) with true. cbv iota.
        destruct (N.eqb_spec q1 34) as [->|Hq1].
        -- destruct t1 as [|q2 t2].
           { inversion Ht; subst. match goal with X : BlockTail SC [] |- _ => inversion X end. }
           cbn [app] in *. destruct (N.eqb_spec q2 34) as [->|Hq2].
           { exfalso. apply H3. eexists. reflexivity. }
           change (34 =? 34) with true in IH. cbv iota in IH.
           replace (q2 =? 34) with false in IH by lia.
           destruct (lx_scan_block false (q2 :: t2 ++ rest)) as [[d0 rest0] t0].
           cbn [lx_bcons] in IH. injection IH as -> -> ->. reflexivity.
        -- rewrite IH. reflexivity.
      * cbn [lx_scan_block]. replace (c =? 34) with false by lia. replace (c =? 92) with false by lia.
        rewrite IH. reflexivity.
Qed.

Lemma block_head d tail : BlockString SC d -> lex_head (d ++ tail) = Some (LxTok TkStringValue, d, tail).
Proof.
  intros [t Ht]. cbn [app lex_head]. rewrite lex_one_quote. unfold lex_string.
  change (34 =? 34) with true. cbv iota. rewrite (block_tail_scan _ Ht). reflexivity.
Qed.

End WithSC.

(* ---------- every kind ---------- *)
Section Heads.
Variable SC : N -> Prop.

Lemma span_head_ext (p : N -> bool) (P : N -> Prop) body tail :
  (forall x, p x = true <-> P x) -> Forall P body ->
  exists x rest', lx_span p (body ++ tail) = (body ++ x, rest') /\
                  x ++ rest' = tail /\ Forall P x /\ ~ starts P rest'.
Proof.
  intros Hp Hb. rewrite span_prefix by (eapply forallb_Forall; eauto).
  destruct (lx_span p tail) as [x r] eqn:E. exists x, r.
  destruct (span_Forall _ _ _ _ _ Hp E) as [Hx Hr].
  split; [reflexivity|]. split; [eapply span_app; eauto|]. auto.
Qed.

Lemma not_line_term_spec c : SC c -> (lx_not_line_term c = true <-> CommentChar SC c).
Proof.
  intros Hc. unfold lx_not_line_term, CommentChar. rewrite negb_true_iff.
  pose proof (is_line_term_spec c). destruct (lx_is_line_term c); intuition congruence.
Qed.

Lemma empty_string_ext tail : extends [34; 34] tail (lex_string (34 :: tail)).
Proof.
  unfold lex_string. change (34 =? 34) with true. cbv iota.
  destruct tail as [|q t]; [apply ext_here|].
  destruct (N.eqb_spec q 34) as [->|]; [|apply ext_here].
  destruct (lx_scan_block false t) as [[d0 rest0] t0] eqn:E.
  exists (34 :: d0). split; [reflexivity|]. cbn [app]. f_equal. eapply scan_block_app; eauto.
Qed.

(* a lexeme at the head is swallowed whole *)
Theorem lexeme_consumed k d tail : Lexeme SC k d ->
  exists o, lex_head (d ++ tail) = Some o /\ extends d tail o.
Proof.
  intros L. destruct L;
    try (eexists; split; [reflexivity|apply ext_here]).
  - (* whitespace *)
    destruct d as [|c body]; [congruence|]. inversion H0 as [|? ? Hc Hb]; subst.
    cbn [app lex_head]. rewrite lex_one_ws by (now apply is_ws_spec).
    destruct (span_head_ext lx_is_ws IgnoredChar body tail is_ws_spec Hb) as [x [r [E [Hx _]]]].
    rewrite E. eexists. split; [reflexivity|]. exists x. auto.
  - (* comment *)
    cbn [app lex_head]. rewrite lex_one_hash.
    assert (Hb : forallb lx_not_line_term body = true).
    { clear -H. induction H as [|c l [Hc Hl] _ IH]; cbn [forallb]; [reflexivity|]. rewrite IH, andb_true_r.
      unfold lx_not_line_term. destruct (lx_is_line_term c) eqn:X; [apply is_line_term_spec in X; tauto|reflexivity]. }
    rewrite span_prefix by exact Hb. destruct (lx_span lx_not_line_term tail) as [x r] eqn:E.
    eexists. split; [reflexivity|]. exists x. split; [reflexivity|eapply span_app; eauto].
  - (* name *)
    destruct H as [c r0 Hc Hr]. cbn [app lex_head]. rewrite lex_one_name by (now apply is_name_start_spec).
    destruct (span_head_ext is_name_continue NameContinue r0 tail is_name_continue_spec Hr) as [x [r [E [Hx _]]]].
    rewrite E. eexists. split; [reflexivity|]. exists x. auto.
  - (* int *)
    destruct (int_head _ H) as [z Hz]. rewrite Hz. eexists. split; [reflexivity|apply int_cont_ext].
  - (* float *)
    destruct (float_head _ H tail) as [E|E]; rewrite E; eexists; (split; [reflexivity|]).
    + apply frac_cont_ext.
    + apply num_exp_digits_ext.
  - (* quoted string *)
    destruct (list_eq_dec N.eq_dec d [34; 34]) as [->|Hne].
    + cbn [app lex_head]. rewrite lex_one_quote. eexists. split; [reflexivity|]. apply empty_string_ext.
    + rewrite (quoted_head SC _ _ H Hne). eexists. split; [reflexivity|apply ext_here].
  - (* block string *)
    rewrite (block_head SC _ _ H). eexists. split; [reflexivity|apply ext_here].
Qed.

(* with its lookahead restriction satisfied, it is returned exactly *)
Theorem lexeme_exact k d tail : Lexeme SC k d -> Restrict SC k d tail -> k <> TkWhitespace ->
  Forall SC tail -> lex_head (d ++ tail) = Some (LxTok k, d, tail).
Proof.
  intros L R Hk Hsc. destruct L; try reflexivity; cbn [Restrict] in R.
  - congruence.
  - (* comment *)
    cbn [app lex_head]. rewrite lex_one_hash.
    assert (Hb : forallb lx_not_line_term body = true).
    { clear -H. induction H as [|c l [Hc Hl] _ IH]; cbn [forallb]; [reflexivity|]. rewrite IH, andb_true_r.
      unfold lx_not_line_term. destruct (lx_is_line_term c) eqn:X; [apply is_line_term_spec in X; tauto|reflexivity]. }
    rewrite span_prefix by exact Hb.
    rewrite span_nil, app_nil_r; [reflexivity|].
    destruct tail as [|c t]; [exact I|]. cbn [starts] in R. inversion Hsc; subst.
    unfold CommentChar, lx_not_line_term in *. destruct (lx_is_line_term c) eqn:X; [reflexivity|].
    exfalso. apply R. split; [assumption|]. rewrite <- is_line_term_spec. congruence.
  - (* name *)
    destruct H as [c r0 Hc Hr]. cbn [app lex_head]. rewrite lex_one_name by (now apply is_name_start_spec).
    rewrite span_prefix by (eapply forallb_Forall; [apply is_name_continue_spec|exact Hr]).
    rewrite (not_starts_span _ _ _ is_name_continue_spec R), app_nil_r. reflexivity.
  - (* int *)
    destruct (int_head _ H) as [z Hz]. rewrite Hz.
    rewrite int_cont_nodigit by (now apply follow_nodigit). now rewrite after_int_exact.
  - (* float *)
    destruct (float_head _ H tail) as [E|E]; rewrite E.
    + now rewrite frac_cont_exact.
    + now rewrite exp_digits_exact.
  - (* quoted *)
    destruct (list_eq_dec N.eq_dec d [34; 34]) as [->|Hne].
    + specialize (R eq_refl). cbn [app lex_head]. rewrite lex_one_quote. unfold lex_string.
      change (34 =? 34) with true. cbv iota. destruct tail as [|q t]; [reflexivity|].
      cbn [starts] in R. replace (q =? 34) with false by lia. reflexivity.
    + now apply (quoted_head SC).
  - now apply (block_head SC).
Qed.

(* a run of ignored characters at the head: the lexer takes the maximal run *)
Theorem ignored_head d tail : d <> [] -> Forall IgnoredChar d ->
  exists x rest', lex_head (d ++ tail) = Some (LxTok TkWhitespace, d ++ x, rest') /\
                  x ++ rest' = tail /\ Forall IgnoredChar x /\ ~ starts IgnoredChar rest'.
Proof.
  intros Hne Hd. destruct d as [|c body]; [congruence|]. inversion Hd as [|? ? Hc Hb]; subst.
  cbn [app lex_head]. rewrite lex_one_ws by (now apply is_ws_spec).
  destruct (span_head_ext lx_is_ws IgnoredChar body tail is_ws_spec Hb) as [x [r [E H]]].
  exists x, r. rewrite E. auto.
Qed.

End Heads.
