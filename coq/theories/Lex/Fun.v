(* The clean functional lexer: what the `Lexer` iterator of apollo-parser yields.
   crates/apollo-parser/src/lexer/mod.rs (Cursor::advance, eof, done, unterminated_spread_operator,
   Iterator::next), lexer/cursor.rs, lexer/lookup.rs, limit.rs.

   Definitions only (extracted).  Every scanner returns (data, rest) with data ++ rest = input, so
   "how much text an item swallows and where lexing resumes" is explicit:
     - prev_str  : the token ends before the character just read, which is read again;
     - current_str : the item includes the character just read (this is how every direct
       `Err(Error::with_loc(.., self.current_str() ..))` swallows the offending character);
     - drain : everything to the end of input.
   In-string errors (add_err) turn the whole string token into one Err item (Cursor::done).

   Not represented: the error message; `self.err` being inspected in `eof` for the non-string states
   (dead: err is only set inside a quoted string and cleared by `done` when the string ends, or the
   input ends). *)
From ApolloVerif Require Import Base.Chars Lex.Item.

(* ---- character classes of lexer/mod.rs and lookup.rs ---- *)
Definition is_ws (c : N) : bool :=          (* is_whitespace_assimilated *)
  (c =? 9) || (c =? 32) || (c =? 10) || (c =? 13) || (c =? 65279).
Definition is_line_term (c : N) : bool := (c =? 10) || (c =? 13).
Definition not_line_term (c : N) : bool := negb (is_line_term c).
Definition is_escaped_char (c : N) : bool :=  (* quote  \  /  b  f  n  r  t *)
  (c =? 34) || (c =? 92) || (c =? 47) || (c =? 98) || (c =? 102) || (c =? 110) || (c =? 114) || (c =? 116).
Definition is_hex (c : N) : bool :=
  is_digit c || ((65 <=? c) && (c <=? 70)) || ((97 <=? c) && (c <=? 102)).
Definition hexval (c : N) : N :=
  if is_digit c then c - 48 else if c <=? 70 then c - 55 else c - 87.
Definition is_exp_ind (c : N) : bool := (c =? 101) || (c =? 69).
Definition is_surrogate (v : N) : bool := (55296 <=? v) && (v <? 57344).

Definition punct_kind (c : N) : option tkind :=   (* lookup::punctuation_kind *)
  if c =? 123 then Some LCurly else if c =? 125 then Some RCurly
  else if c =? 33 then Some Bang else if c =? 36 then Some Dollar
  else if c =? 38 then Some Amp else if c =? 40 then Some LParen
  else if c =? 41 then Some RParen else if c =? 58 then Some Colon
  else if c =? 44 then Some Comma else if c =? 91 then Some LBracket
  else if c =? 93 then Some RBracket else if c =? 61 then Some Eq
  else if c =? 64 then Some At else if c =? 124 then Some Pipe
  else None.

(* numbering of token kinds for the wire format (the OCaml glue must not depend on how extraction
   renames constructors that clash with OCaml's own, e.g. Eq) : the discriminant of TokenKind *)
Definition tkind_code (k : tkind) : N :=
  match k with
  | Whitespace => 0 | Comment => 1 | Bang => 2 | Dollar => 3 | Amp => 4 | Spread => 5 | Comma => 6
  | Colon => 7 | Eq => 8 | At => 9 | LParen => 10 | RParen => 11 | LBracket => 12 | RBracket => 13
  | LCurly => 14 | RCurly => 15 | Pipe => 16 | Eof => 17 | Name => 18 | StringValue => 19
  | Int => 20 | Float => 21
  end.

(* longest prefix whose characters satisfy p *)
Fixpoint span (p : N -> bool) (s : str) : str * str :=
  match s with
  | [] => ([], [])
  | c :: r => if p c then let '(a, b) := span p r in (c :: a, b) else ([], s)
  end.

(* the result of one Cursor::advance: Ok(token of kind k) or Err *)
Inductive lres := LTok (k : tkind) | LErr.
Definition lout := (lres * str * str)%type.   (* result, data, rest *)

(* ---- numbers.  `pre` is the text consumed so far ---- *)
(* State::ExponentDigit at the first non-digit *)
Definition num_after_exp (pre r : str) : lout :=
  match r with
  | [] => (LTok Float, pre, [])
  | c :: r' => if (c =? 46) || is_name_start c then (LErr, pre ++ [c], r') else (LTok Float, pre, r)
  end.
Definition num_exp_digits (pre r : str) : lout :=
  let '(ds, r2) := span is_digit r in num_after_exp (pre ++ ds) r2.
(* State::ExponentIndicator / ExponentSign *)
Definition num_exp (pre r : str) : lout :=
  match r with
  | [] => (LErr, pre, [])
  | c :: r' =>
      if is_digit c then num_exp_digits (pre ++ [c]) r'
      else if (c =? 43) || (c =? 45) then
        match r' with
        | [] => (LErr, pre ++ [c], [])
        | d :: r'' => if is_digit d then num_exp_digits (pre ++ [c; d]) r'' else (LErr, pre ++ [c; d], r'')
        end
      else (LErr, pre ++ [c], r')
  end.
(* State::FractionalPart at the first non-digit *)
Definition num_after_frac (pre r : str) : lout :=
  match r with
  | [] => (LTok Float, pre, [])
  | c :: r' =>
      if is_exp_ind c then num_exp (pre ++ [c]) r'
      else if (c =? 46) || is_name_start c then (LErr, pre ++ [c], r')
      else (LTok Float, pre, r)
  end.
(* State::DecimalPoint *)
Definition num_frac (pre r : str) : lout :=
  match r with
  | [] => (LErr, pre, [])
  | c :: r' =>
      if is_digit c then let '(ds, r2) := span is_digit r' in num_after_frac (pre ++ c :: ds) r2
      else (LErr, pre ++ [c], r')
  end.
(* State::LeadingZero (zero = true) / State::IntegerPart at the first non-digit (zero = false) *)
Definition num_after_int (zero : bool) (pre r : str) : lout :=
  match r with
  | [] => (LTok Int, pre, [])
  | c :: r' =>
      if c =? 46 then num_frac (pre ++ [c]) r'
      else if is_exp_ind c then num_exp (pre ++ [c]) r'
      else if zero && is_digit c then (LErr, pre ++ [c], r')
      else if is_name_start c then (LErr, pre ++ [c], r')
      else (LTok Int, pre, r)
  end.
Definition num_int_digits (pre r : str) : lout :=
  let '(ds, r2) := span is_digit r in num_after_int false (pre ++ ds) r2.
(* State::MinusSign *)
Definition num_minus (r : str) : lout :=
  match r with
  | [] => (LErr, [45], [])
  | c :: r' =>
      if c =? 48 then num_after_int true [45; 48] r'
      else if is_digit c then num_int_digits [45; c] r'
      else (LErr, [45; c], r')
  end.

(* ---- State::SpreadOperator, after the first '.' ---- *)
Definition lex_spread (r : str) : lout :=
  match r with
  | [] => (LErr, [46], [])
  | c1 :: r1 =>
      if c1 =? 46 then
        match r1 with
        | [] => (LErr, [46; 46], [])
        | c2 :: r2 => if c2 =? 46 then (LTok Spread, [46; 46; 46], r2) else (LErr, [46; 46], r1)
        end
      else (LErr, [46; c1], r1)
  end.

(* ---- quoted strings ---- *)
Inductive sstate :=
| SStr                     (* State::StringLiteral *)
| SBack                    (* State::StringLiteralBackslash *)
| SUni (remaining : nat) (v : N).  (* State::StringLiteralEscapedUnicode(remaining); v = value of the digits read *)

Definition scons (c : N) (e : bool) (x : str * str * bool) : str * str * bool :=
  let '(d, rest, e') := x in (c :: d, rest, e || e').

(* returns (data, rest, error?) ; error? = add_err was called, or the input ended (unterminated) *)
Fixpoint scan_str (st : sstate) (s : str) : str * str * bool :=
  match s with
  | [] => ([], [], true)
  | c :: r =>
      match st with
      | SStr =>
          if c =? 34 then ([c], r, false)
          else if is_line_term c then scons c true (scan_str SStr r)
          else if c =? 92 then scons c false (scan_str SBack r)
          else scons c false (scan_str SStr r)
      | SBack =>
          if is_escaped_char c then scons c false (scan_str SStr r)
          else if c =? 117 then scons c false (scan_str (SUni 4 0) r)
          else scons c true (scan_str SStr r)
      | SUni n v =>
          if c =? 34 then ([c], r, true)
          else if negb (is_hex c) then scons c true (scan_str SStr r)
          else
            let v' := 16 * v + hexval c in
            match n with
            | S (S m) => scons c false (scan_str (SUni (S m) v') r)      (* remaining > 1 *)
            | _ => scons c (is_surrogate v') (scan_str SStr r)           (* remaining <= 1: the 4th digit *)
            end
      end
  end.

(* ---- block strings, after the opening triple quote.
   bs = State::BlockStringLiteralBackslash.  returns (data, rest, terminated?) ---- *)
Definition bcons (c : N) (x : str * str * bool) : str * str * bool :=
  let '(d, rest, t) := x in (c :: d, rest, t).

Fixpoint scan_block (bs : bool) (s : str) : str * str * bool :=
  match s with
  | [] => ([], [], false)
  | c :: r =>
      if c =? 34 then
        (* eatc(quote) twice.  In the backslash state all quotes eaten are content (backslash and up to 3 quotes);
           otherwise three quotes close the string *)
        match r with
        | [] => ([c], [], false)
        | q1 :: r1 =>
            if q1 =? 34 then
              match r1 with
              | [] => ([c; q1], [], false)
              | q2 :: r2 =>
                  if q2 =? 34 then
                    if bs then bcons c (bcons q1 (bcons q2 (scan_block false r2)))
                    else ([c; q1; q2], r2, true)
                  else bcons c (bcons q1 (scan_block false r1))
              end
            else bcons c (scan_block false r)
        end
      else if c =? 92 then bcons c (scan_block true r)
      else bcons c (scan_block false r)
  end.

(* State::StringLiteralStart, after the opening quote *)
Definition lex_string (r : str) : lout :=
  match r with
  | [] => (LErr, [34], [])
  | c :: r1 =>
      if c =? 34 then
        match r1 with
        | [] => (LTok StringValue, [34; 34], [])
        | q :: r2 =>
            if q =? 34 then
              let '(d, rest, t) := scan_block false r2 in
              (if t then LTok StringValue else LErr, 34 :: 34 :: 34 :: d, rest)
            else (LTok StringValue, [34; 34], r1)
        end
      else
        (* the first character is not inspected by State::StringLiteral (the `continue` after
           `state = State::StringLiteral`): a line terminator here is not reported *)
        let '(d, rest, e) := scan_str (if c =? 92 then SBack else SStr) r1 in
        (if e then LErr else LTok StringValue, 34 :: c :: d, rest)
  end.

(* ---- one Cursor::advance on a non-empty remaining input c :: r ---- *)
Definition lex_one (c : N) (r : str) : lout :=
  match punct_kind c with
  | Some k => (LTok k, [c], r)
  | None =>
      if is_name_start c then
        let '(d, rest) := span is_name_continue r in (LTok Name, c :: d, rest)
      else if negb (c =? 48) && is_digit c then num_int_digits [c] r
      else if c =? 34 then lex_string r
      else if c =? 35 then
        let '(d, rest) := span not_line_term r in (LTok Comment, c :: d, rest)
      else if c =? 46 then lex_spread r
      else if c =? 45 then num_minus r
      else if c =? 48 then num_after_int true [48] r
      else if is_ws c then
        let '(d, rest) := span is_ws r in (LTok Whitespace, c :: d, rest)
      else (LErr, [c], r)
  end.

Definition mk_item (res : lres) (d : str) (idx : N) : item :=
  match res with LTok k => Tok k d idx | LErr => Err ELex d idx end.

(* ---- the iterator without a limit.  None = out of fuel (excluded by LexProofs.lex_run_fuel) ---- *)
Fixpoint lex_run (fuel : nat) (idx : N) (s : str) : option (list item) :=
  match s with
  | [] => Some [Tok Eof [] idx]
  | c :: r =>
      match fuel with
      | O => None
      | S f =>
          let '(res, d, rest) := lex_one c r in
          match lex_run f (idx + blen d) rest with
          | Some l => Some (mk_item res d idx :: l)
          | None => None
          end
      end
  end.

(* [] is not a possible output (every output ends with Eof): it marks "out of fuel", which
   LexProofs.lex_all_run shows never happens. *)
Definition lex_all (s : str) : list item :=
  match lex_run (S (length s)) 0 s with Some l => l | None => [] end.

(* ---- Lexer::with_limit(limit): Iterator::next with LimitTracker::check_and_increment.
   cur = tracker.current; cidx = Cursor::index(), which is the start of the next token except after
   an item that reached the end of input through current_str's else branch or drain, where the code
   sets it to source.len() - 1 (visible only in the limit error's index). ---- *)
Fixpoint lexl_run (fuel : nat) (limit cur total cidx idx : N) (s : str) : option (list item) :=
  if limit <? cur + 1 then Some [Err ELimit [] cidx]
  else
    match s with
    | [] => Some [Tok Eof [] idx]
    | c :: r =>
        match fuel with
        | O => None
        | S f =>
            let '(res, d, rest) := lex_one c r in
            let idx' := idx + blen d in
            let cidx' := match rest with [] => total - 1 | _ => idx' end in
            match lexl_run f limit (cur + 1) total cidx' idx' rest with
            | Some l => Some (mk_item res d idx :: l)
            | None => None
            end
        end
    end.

Definition lex_limited (limit : N) (s : str) : list item :=
  match lexl_run (S (length s)) limit 0 (blen s) 0 0 s with Some l => l | None => [] end.
