(* The clean functional lexer: what the `Lexer` iterator of apollo-parser yields.
   crates/apollo-parser/src/lexer/mod.rs (Cursor::advance, eof, done, unterminated_spread_operator,
   Iterator::next), lexer/cursor.rs, lexer/lookup.rs, limit.rs.

   Definitions only (extracted).  Every scanner returns (data, rest) with data ++ rest = input, so
   "how much text an item swallows and where lexing resumes" is explicit:
     - prev_str  : the token ends before the character just read, which is read again;
     - current_str : the item includes the character just read (this is how every direct
       `IErr(Error::with_loc(.., self.current_str() ..))` swallows the offending character);
     - drain : everything to the end of input.
   In-string errors (add_err) turn the whole string token into one IErr item (Cursor::done).
   Follows /repo at 4dbec7a (a line terminator right after the opening quote is an in-string error).

   Not represented: the error message; `self.err` being inspected in `eof` for the non-string states
   (dead: err is only set inside a quoted string and cleared by `done` when the string ends, or the
   input ends). *)
From ApolloVerif Require Import Base.Chars Lex.Item.

(* ---- character classes of lexer/mod.rs and lookup.rs ---- *)
Definition lx_is_ws (c : N) : bool :=          (* is_whitespace_assimilated *)
  (c =? 9) || (c =? 32) || (c =? 10) || (c =? 13) || (c =? 65279).
Definition lx_is_line_term (c : N) : bool := (c =? 10) || (c =? 13).
Definition lx_not_line_term (c : N) : bool := negb (lx_is_line_term c).
Definition lx_is_escaped_char (c : N) : bool :=  (* quote  \  /  b  f  n  r  t *)
  (c =? 34) || (c =? 92) || (c =? 47) || (c =? 98) || (c =? 102) || (c =? 110) || (c =? 114) || (c =? 116).
Definition lx_is_hex (c : N) : bool :=
  is_digit c || ((65 <=? c) && (c <=? 70)) || ((97 <=? c) && (c <=? 102)).
Definition lx_hexval (c : N) : N :=
  if is_digit c then c - 48 else if c <=? 70 then c - 55 else c - 87.
Definition lx_is_exp_ind (c : N) : bool := (c =? 101) || (c =? 69).
Definition lx_is_surrogate (v : N) : bool := (55296 <=? v) && (v <? 57344).

Definition lx_punct_kind (c : N) : option tkind :=   (* lookup::punctuation_kind *)
  if c =? 123 then Some TkLCurly else if c =? 125 then Some TkRCurly
  else if c =? 33 then Some TkBang else if c =? 36 then Some TkDollar
  else if c =? 38 then Some TkAmp else if c =? 40 then Some TkLParen
  else if c =? 41 then Some TkRParen else if c =? 58 then Some TkColon
  else if c =? 44 then Some TkComma else if c =? 91 then Some TkLBracket
  else if c =? 93 then Some TkRBracket else if c =? 61 then Some TkEq
  else if c =? 64 then Some TkAt else if c =? 124 then Some TkPipe
  else None.

(* numbering of token kinds for the wire format (the OCaml glue must not depend on how extraction
   renames constructors that clash with OCaml's own, e.g. TkEq) : the discriminant of TokenKind *)
Definition tkind_code (k : tkind) : N :=
  match k with
  | TkWhitespace => 0 | TkComment => 1 | TkBang => 2 | TkDollar => 3 | TkAmp => 4 | TkSpread => 5 | TkComma => 6
  | TkColon => 7 | TkEq => 8 | TkAt => 9 | TkLParen => 10 | TkRParen => 11 | TkLBracket => 12 | TkRBracket => 13
  | TkLCurly => 14 | TkRCurly => 15 | TkPipe => 16 | TkEof => 17 | TkName => 18 | TkStringValue => 19
  | TkInt => 20 | TkFloat => 21
  end.

(* longest prefix whose characters satisfy p *)
Fixpoint lx_span (p : N -> bool) (s : str) : str * str :=
  match s with
  | [] => ([], [])
  | c :: r => if p c then let '(a, b) := lx_span p r in (c :: a, b) else ([], s)
  end.

(* the result of one Cursor::advance: Ok(token of kind k) or IErr *)
Inductive lx_res := LxTok (k : tkind) | LxErr.
Definition lx_out := (lx_res * str * str)%type.   (* result, data, rest *)

(* ---- numbers.  `pre` is the text consumed so far ---- *)
(* State::ExponentDigit at the first non-digit *)
Definition lx_num_after_exp (pre r : str) : lx_out :=
  match r with
  | [] => (LxTok TkFloat, pre, [])
  | c :: r' => if (c =? 46) || is_name_start c then (LxErr, pre ++ [c], r') else (LxTok TkFloat, pre, r)
  end.
Definition lx_num_exp_digits (pre r : str) : lx_out :=
  let '(ds, r2) := lx_span is_digit r in lx_num_after_exp (pre ++ ds) r2.
(* State::ExponentIndicator / ExponentSign *)
Definition lx_num_exp (pre r : str) : lx_out :=
  match r with
  | [] => (LxErr, pre, [])
  | c :: r' =>
      if is_digit c then lx_num_exp_digits (pre ++ [c]) r'
      else if (c =? 43) || (c =? 45) then
        match r' with
        | [] => (LxErr, pre ++ [c], [])
        | d :: r'' => if is_digit d then lx_num_exp_digits (pre ++ [c; d]) r'' else (LxErr, pre ++ [c; d], r'')
        end
      else (LxErr, pre ++ [c], r')
  end.
(* State::FractionalPart at the first non-digit *)
Definition lx_num_after_frac (pre r : str) : lx_out :=
  match r with
  | [] => (LxTok TkFloat, pre, [])
  | c :: r' =>
      if lx_is_exp_ind c then lx_num_exp (pre ++ [c]) r'
      else if (c =? 46) || is_name_start c then (LxErr, pre ++ [c], r')
      else (LxTok TkFloat, pre, r)
  end.
(* State::DecimalPoint *)
Definition lx_num_frac (pre r : str) : lx_out :=
  match r with
  | [] => (LxErr, pre, [])
  | c :: r' =>
      if is_digit c then let '(ds, r2) := lx_span is_digit r' in lx_num_after_frac (pre ++ c :: ds) r2
      else (LxErr, pre ++ [c], r')
  end.
(* State::LeadingZero (zero = true) / State::IntegerPart at the first non-digit (zero = false) *)
Definition lx_num_after_int (zero : bool) (pre r : str) : lx_out :=
  match r with
  | [] => (LxTok TkInt, pre, [])
  | c :: r' =>
      if c =? 46 then lx_num_frac (pre ++ [c]) r'
      else if lx_is_exp_ind c then lx_num_exp (pre ++ [c]) r'
      else if zero && is_digit c then (LxErr, pre ++ [c], r')
      else if is_name_start c then (LxErr, pre ++ [c], r')
      else (LxTok TkInt, pre, r)
  end.
Definition lx_num_int_digits (pre r : str) : lx_out :=
  let '(ds, r2) := lx_span is_digit r in lx_num_after_int false (pre ++ ds) r2.
(* State::MinusSign *)
Definition lx_num_minus (r : str) : lx_out :=
  match r with
  | [] => (LxErr, [45], [])
  | c :: r' =>
      if c =? 48 then lx_num_after_int true [45; 48] r'
      else if is_digit c then lx_num_int_digits [45; c] r'
      else (LxErr, [45; c], r')
  end.

(* ---- State::SpreadOperator, after the first '.' ---- *)
Definition lex_spread (r : str) : lx_out :=
  match r with
  | [] => (LxErr, [46], [])
  | c1 :: r1 =>
      if c1 =? 46 then
        match r1 with
        | [] => (LxErr, [46; 46], [])
        | c2 :: r2 => if c2 =? 46 then (LxTok TkSpread, [46; 46; 46], r2) else (LxErr, [46; 46], r1)
        end
      else (LxErr, [46; c1], r1)
  end.

(* ---- quoted strings ---- *)
Inductive lx_sstate :=
| LxSStr                     (* State::StringLiteral *)
| LxSBack                    (* State::StringLiteralBackslash *)
| LxSUni (remaining : nat) (v : N).  (* State::StringLiteralEscapedUnicode(remaining); v = value of the digits read *)

Definition lx_scons (c : N) (e : bool) (x : str * str * bool) : str * str * bool :=
  let '(d, rest, e') := x in (c :: d, rest, e || e').

(* returns (data, rest, error?) ; error? = add_err was called, or the input ended (unterminated) *)
Fixpoint lx_scan_str (st : lx_sstate) (s : str) : str * str * bool :=
  match s with
  | [] => ([], [], true)
  | c :: r =>
      match st with
      | LxSStr =>
          if c =? 34 then ([c], r, false)
          else if lx_is_line_term c then lx_scons c true (lx_scan_str LxSStr r)
          else if c =? 92 then lx_scons c false (lx_scan_str LxSBack r)
          else lx_scons c false (lx_scan_str LxSStr r)
      | LxSBack =>
          if lx_is_escaped_char c then lx_scons c false (lx_scan_str LxSStr r)
          else if c =? 117 then lx_scons c false (lx_scan_str (LxSUni 4 0) r)
          else lx_scons c true (lx_scan_str LxSStr r)
      | LxSUni n v =>
          if c =? 34 then ([c], r, true)
          else if negb (lx_is_hex c) then lx_scons c true (lx_scan_str LxSStr r)
          else
            let v' := 16 * v + lx_hexval c in
            match n with
            | S (S m) => lx_scons c false (lx_scan_str (LxSUni (S m) v') r)      (* remaining > 1 *)
            | _ => lx_scons c (lx_is_surrogate v') (lx_scan_str LxSStr r)           (* remaining <= 1: the 4th digit *)
            end
      end
  end.

(* ---- block strings, after the opening triple quote.
   bs = State::BlockStringLiteralBackslash.  returns (data, rest, terminated?) ---- *)
Definition lx_bcons (c : N) (x : str * str * bool) : str * str * bool :=
  let '(d, rest, t) := x in (c :: d, rest, t).

Fixpoint lx_scan_block (bs : bool) (s : str) : str * str * bool :=
  match s with
  | [] => ([], [], false)
  | c :: r =>
      if c =? 34 then
        (* eatc(quote) twice.  In the backslash state all quotes eaten are content (backslash and up to 3 quotes);
           otherwise three quotes close the string *)
        match r with
        | [] => ([c], [], false)
        | q1 :: r1 =>
            if q1 =? 34 then
              match r1 with
              | [] => ([c; q1], [], false)
              | q2 :: r2 =>
                  if q2 =? 34 then
                    if bs then lx_bcons c (lx_bcons q1 (lx_bcons q2 (lx_scan_block false r2)))
                    else ([c; q1; q2], r2, true)
                  else lx_bcons c (lx_bcons q1 (lx_scan_block false r1))
              end
            else lx_bcons c (lx_scan_block false r)
        end
      else if c =? 92 then lx_bcons c (lx_scan_block true r)
      else lx_bcons c (lx_scan_block false r)
  end.

(* State::StringLiteralStart, after the opening quote *)
Definition lex_string (r : str) : lx_out :=
  match r with
  | [] => (LxErr, [34], [])
  | c :: r1 =>
      if c =? 34 then
        match r1 with
        | [] => (LxTok TkStringValue, [34; 34], [])
        | q :: r2 =>
            if q =? 34 then
              let '(d, rest, t) := lx_scan_block false r2 in
              (if t then LxTok TkStringValue else LxErr, 34 :: 34 :: 34 :: d, rest)
            else (LxTok TkStringValue, [34; 34], r1)
        end
      else
        (* State::StringLiteralStart on a character other than the quote: backslash -> Backslash state;
           line terminator -> add_err, StringLiteral; anything else -> StringLiteral *)
        let '(d, rest, e) := lx_scan_str (if c =? 92 then LxSBack else LxSStr) r1 in
        (if lx_is_line_term c || e then LxErr else LxTok TkStringValue, 34 :: c :: d, rest)
  end.

(* ---- one Cursor::advance on a non-empty remaining input c :: r ---- *)
Definition lex_one (c : N) (r : str) : lx_out :=
  match lx_punct_kind c with
  | Some k => (LxTok k, [c], r)
  | None =>
      if is_name_start c then
        let '(d, rest) := lx_span is_name_continue r in (LxTok TkName, c :: d, rest)
      else if negb (c =? 48) && is_digit c then lx_num_int_digits [c] r
      else if c =? 34 then lex_string r
      else if c =? 35 then
        let '(d, rest) := lx_span lx_not_line_term r in (LxTok TkComment, c :: d, rest)
      else if c =? 46 then lex_spread r
      else if c =? 45 then lx_num_minus r
      else if c =? 48 then lx_num_after_int true [48] r
      else if lx_is_ws c then
        let '(d, rest) := lx_span lx_is_ws r in (LxTok TkWhitespace, c :: d, rest)
      else (LxErr, [c], r)
  end.

Definition lex_mk_item (res : lx_res) (d : str) (idx : N) : item :=
  match res with LxTok k => ITok k d idx | LxErr => IErr ELex d idx end.

(* ---- the iterator without a limit.  None = out of fuel (excluded by LexProofs.lex_run_fuel) ---- *)
Fixpoint lex_run (fuel : nat) (idx : N) (s : str) : option (list item) :=
  match s with
  | [] => Some [ITok TkEof [] idx]
  | c :: r =>
      match fuel with
      | O => None
      | S f =>
          let '(res, d, rest) := lex_one c r in
          match lex_run f (idx + blen d) rest with
          | Some l => Some (lex_mk_item res d idx :: l)
          | None => None
          end
      end
  end.

(* [] is not a possible output (every output ends with TkEof): it marks "out of fuel", which
   LexProofs.lex_all_run shows never happens. *)
Definition lex_all (s : str) : list item :=
  match lex_run (S (length s)) 0 s with Some l => l | None => [] end.

(* ---- Lexer::with_limit(limit): Iterator::next with LimitTracker::check_and_increment.
   cur = tracker.current; cidx = Cursor::index(), which is the start of the next token except after
   an item that reached the end of input through current_str's else branch or drain, where the code
   sets it to source.len() - 1 (visible only in the limit error's index). ---- *)
Fixpoint lexl_run (fuel : nat) (limit cur total cidx idx : N) (s : str) : option (list item) :=
  if limit <? cur + 1 then Some [IErr ELimit [] cidx]
  else
    match s with
    | [] => Some [ITok TkEof [] idx]
    | c :: r =>
        match fuel with
        | O => None
        | S f =>
            let '(res, d, rest) := lex_one c r in
            let idx' := idx + blen d in
            let cidx' := match rest with [] => total - 1 | _ => idx' end in
            match lexl_run f limit (cur + 1) total cidx' idx' rest with
            | Some l => Some (lex_mk_item res d idx :: l)
            | None => None
            end
        end
    end.

Definition lex_limited (limit : N) (s : str) : list item :=
  match lexl_run (S (length s)) limit 0 (blen s) 0 0 s with Some l => l | None => [] end.
