(* The lexical grammar of the GraphQL specification, October 2021 (section 2.1, "Source Text" ..
   "String Value", and Appendix B "Lexical Tokens"), as a declarative specification.
   Written independently of the lexer model: this file does not mention Lex.Fun.

   Representation choices shared with apollo-parser's token kinds (they do not change which inputs
   are lexically valid): the ignored single characters UnicodeBOM, WhiteSpace and LineTerminator form
   the kind TkWhitespace (any non-empty run of them); TkComma and TkComment are kinds of their own;
   every Punctuator has its own kind.

   Two documented exceptions of the property are built in: a unicode escape is exactly
   backslash u + four hex digits (no braced form), and an escape denoting a surrogate code point
   (D800..DFFF) is not a StringCharacter.

   SourceCharacter is the section variable SC.  Instances at the end: the October 2021 set and
   "any Unicode scalar value". *)
From ApolloVerif Require Import Base.Chars Lex.Item.

Definition starts (P : N -> Prop) (s : str) : Prop :=
  match s with c :: _ => P c | [] => False end.

(* ---- character classes ---- *)
Definition LineTerminatorChar (c : N) : Prop := c = 10 \/ c = 13.
Definition WhiteSpaceChar (c : N) : Prop := c = 9 \/ c = 32.
Definition UnicodeBOM (c : N) : Prop := c = 65279.
Definition IgnoredChar (c : N) : Prop := UnicodeBOM c \/ WhiteSpaceChar c \/ LineTerminatorChar c.
Definition Digit (c : N) : Prop := 48 <= c /\ c <= 57.
Definition NonZeroDigit (c : N) : Prop := 49 <= c /\ c <= 57.
Definition HexDigit (c : N) : Prop :=
  Digit c \/ (65 <= c /\ c <= 70) \/ (97 <= c /\ c <= 102).
Definition hex_digit_value (c : N) : N :=
  if c <=? 57 then c - 48 else if c <=? 70 then c - 55 else c - 87.
Definition hex4_value (a b c d : N) : N :=
  4096 * hex_digit_value a + 256 * hex_digit_value b + 16 * hex_digit_value c + hex_digit_value d.
Definition Surrogate (v : N) : Prop := 55296 <= v /\ v <= 57343.
(* EscapedCharacter :: one of  quote  \  /  b  f  n  r  t *)
Definition EscapedCharacter (c : N) : Prop :=
  c = 34 \/ c = 92 \/ c = 47 \/ c = 98 \/ c = 102 \/ c = 110 \/ c = 114 \/ c = 116.

(* ---- numbers ---- *)
Definition NegativeSignOpt (s : str) : Prop := s = [] \/ s = [45].
Definition SignOpt (s : str) : Prop := s = [] \/ s = [43] \/ s = [45].
Definition ExponentIndicator (c : N) : Prop := c = 101 \/ c = 69.

(* IntegerPart :: NegativeSign? 0 | NegativeSign? NonZeroDigit Digit* *)
Inductive IntegerPart : str -> Prop :=
| IP_zero sg : NegativeSignOpt sg -> IntegerPart (sg ++ [48])
| IP_nonzero sg c ds : NegativeSignOpt sg -> NonZeroDigit c -> Forall Digit ds ->
    IntegerPart (sg ++ c :: ds).
(* FractionalPart :: . Digit+ *)
Inductive FractionalPart : str -> Prop :=
| FP_intro c ds : Digit c -> Forall Digit ds -> FractionalPart (46 :: c :: ds).
(* ExponentPart :: ExponentIndicator Sign? Digit+ *)
Inductive ExponentPart : str -> Prop :=
| EP_intro e sg c ds : ExponentIndicator e -> SignOpt sg -> Digit c -> Forall Digit ds ->
    ExponentPart (e :: sg ++ c :: ds).
(* FloatValue :: IntegerPart FractionalPart ExponentPart | IntegerPart FractionalPart
               | IntegerPart ExponentPart *)
Inductive FloatValue : str -> Prop :=
| FV_frac_exp ip fp ep : IntegerPart ip -> FractionalPart fp -> ExponentPart ep ->
    FloatValue (ip ++ fp ++ ep)
| FV_frac ip fp : IntegerPart ip -> FractionalPart fp -> FloatValue (ip ++ fp)
| FV_exp ip ep : IntegerPart ip -> ExponentPart ep -> FloatValue (ip ++ ep).

Section Grammar.
Variable SC : N -> Prop.   (* SourceCharacter *)

(* CommentChar :: SourceCharacter but not LineTerminator *)
Definition CommentChar (c : N) : Prop := SC c /\ ~ LineTerminatorChar c.

(* StringCharacter :: SourceCharacter but not quote or \ or LineTerminator
                    | \u EscapedUnicode | \ EscapedCharacter        (as the text it spans) *)
Inductive StringCharacter : str -> Prop :=
| SC_plain c : SC c -> c <> 34 -> c <> 92 -> ~ LineTerminatorChar c -> StringCharacter [c]
| SC_unicode a b c d : HexDigit a -> HexDigit b -> HexDigit c -> HexDigit d ->
    ~ Surrogate (hex4_value a b c d) ->          (* documented exception: surrogates rejected *)
    StringCharacter [92; 117; a; b; c; d]
| SC_escaped c : EscapedCharacter c -> StringCharacter [92; c].

(* StringValue :: q q [lookahead != q]  |  q StringCharacter+ q   (q = the quote character; the
   lookahead is in Restrict) *)
Inductive QuotedString : str -> Prop :=
| QS_empty : QuotedString [34; 34]
| QS_chars chunks : chunks <> [] -> Forall StringCharacter chunks ->
    QuotedString (34 :: concat chunks ++ [34]).

(* BlockStringCharacter :: SourceCharacter but not qqq or \qqq  |  \qqq     (qqq = three quotes)
   BlockTail t : t is BlockStringCharacter* followed by the closing qqq *)
Definition starts_triple (s : str) : Prop := exists r, s = 34 :: 34 :: 34 :: r.
Definition starts_escaped_triple (s : str) : Prop := exists r, s = 92 :: 34 :: 34 :: 34 :: r.
Inductive BlockTail : str -> Prop :=
| BT_close : BlockTail [34; 34; 34]
| BT_escaped t : BlockTail t -> BlockTail (92 :: 34 :: 34 :: 34 :: t)
| BT_char c t : SC c -> ~ starts_triple (c :: t) -> ~ starts_escaped_triple (c :: t) ->
    BlockTail t -> BlockTail (c :: t).
Inductive BlockString : str -> Prop :=
| BS_intro t : BlockTail t -> BlockString (34 :: 34 :: 34 :: t).

(* ---- the lexemes of each token kind ---- *)
Inductive Lexeme : tkind -> str -> Prop :=
| Lx_ignored d : d <> [] -> Forall IgnoredChar d -> Lexeme TkWhitespace d
| Lx_comment body : Forall CommentChar body -> Lexeme TkComment (35 :: body)
| Lx_comma : Lexeme TkComma [44]
| Lx_bang : Lexeme TkBang [33]
| Lx_dollar : Lexeme TkDollar [36]
| Lx_amp : Lexeme TkAmp [38]
| Lx_lparen : Lexeme TkLParen [40]
| Lx_rparen : Lexeme TkRParen [41]
| Lx_spread : Lexeme TkSpread [46; 46; 46]
| Lx_colon : Lexeme TkColon [58]
| Lx_eq : Lexeme TkEq [61]
| Lx_at : Lexeme TkAt [64]
| Lx_lbracket : Lexeme TkLBracket [91]
| Lx_rbracket : Lexeme TkRBracket [93]
| Lx_lcurly : Lexeme TkLCurly [123]
| Lx_pipe : Lexeme TkPipe [124]
| Lx_rcurly : Lexeme TkRCurly [125]
| Lx_name d : IsName d -> Lexeme TkName d
| Lx_int d : IntegerPart d -> Lexeme TkInt d
| Lx_float d : FloatValue d -> Lexeme TkFloat d
| Lx_string d : QuotedString d -> Lexeme TkStringValue d
| Lx_block d : BlockString d -> Lexeme TkStringValue d.

(* ---- the lookahead restrictions of the grammar, on the text that follows a lexeme ---- *)
Definition NumberFollow (c : N) : Prop := Digit c \/ c = 46 \/ NameStart c.
Definition Restrict (k : tkind) (d rest : str) : Prop :=
  match k with
  | TkName => ~ starts NameContinue rest
  | TkInt | TkFloat => ~ starts NumberFollow rest
  | TkComment => ~ starts CommentChar rest
  | TkStringValue => d = [34; 34] -> ~ starts (fun c => c = 34) rest
  | _ => True
  end.

(* maximal munch: d is a lexeme of kind k at the head of d ++ rest, the lookahead restriction of k
   holds, and no lexeme of any kind at the head of the same text is longer *)
Definition Munch (k : tkind) (d rest : str) : Prop :=
  Lexeme k d /\ Restrict k d rest /\
  forall k' d' rest', d' ++ rest' = d ++ rest -> Lexeme k' d' -> (length d' <= length d)%nat.

(* s is a sequence of lexical tokens and ignored tokens *)
Inductive LexicallyValid : str -> Prop :=
| LV_nil : LexicallyValid []
| LV_cons k d rest : Lexeme k d -> Restrict k d rest -> LexicallyValid rest ->
    LexicallyValid (d ++ rest).

End Grammar.

(* ---- the two instances of SourceCharacter ---- *)
(* October 2021: U+0009 | U+000A | U+000D | U+0020 .. U+FFFF *)
Definition SC_oct2021 (c : N) : Prop := c = 9 \/ c = 10 \/ c = 13 \/ (32 <= c /\ c <= 65535).
(* any Unicode scalar value (the September 2025 working draft, graphql-js 16) *)
Definition SC_scalar (c : N) : Prop := scalar c.
