(* Constructor names carry a prefix (Tk, I, E) because the extraction is one flat OCaml file:
   every constructor, type and record field name must be unique across the whole development.
   The lexer's output alphabet, shared by the lexer models (Lex/) and the parser model (Parse/).
   crates/apollo-parser/src/lexer/token_kind.rs and the Iterator impl of Lexer. *)
From ApolloVerif Require Import Base.Chars.

Inductive tkind :=
| TkWhitespace | TkComment | TkBang | TkDollar | TkAmp | TkSpread | TkComma | TkColon | TkEq | TkAt
| TkLParen | TkRParen | TkLBracket | TkRBracket | TkLCurly | TkRCurly | TkPipe | TkEof
| TkName | TkStringValue | TkInt | TkFloat.

Definition tkind_eqb (a b : tkind) : bool :=
  match a, b with
  | TkWhitespace, TkWhitespace | TkComment, TkComment | TkBang, TkBang | TkDollar, TkDollar | TkAmp, TkAmp
  | TkSpread, TkSpread | TkComma, TkComma | TkColon, TkColon | TkEq, TkEq | TkAt, TkAt | TkLParen, TkLParen
  | TkRParen, TkRParen | TkLBracket, TkLBracket | TkRBracket, TkRBracket | TkLCurly, TkLCurly
  | TkRCurly, TkRCurly | TkPipe, TkPipe | TkEof, TkEof | TkName, TkName | TkStringValue, TkStringValue
  | TkInt, TkInt | TkFloat, TkFloat => true
  | _, _ => false
  end.

Lemma tkind_eqb_eq a b : tkind_eqb a b = true <-> a = b.
Proof. destruct a, b; cbn; split; congruence. Qed.

(* One item yielded by the lexer iterator: a token, or an error carrying the offending text.
   `index` is the byte offset (prefix sum of u8len) of the first character of `data`.
   Error classes: ELex = a lexical error produced by Cursor::advance (data = swallowed text),
                  ELimit = "token limit reached" (data empty, index = cursor position). *)
Inductive eclass := ELex | ELimit.

Inductive item :=
| ITok (k : tkind) (data : str) (index : N)
| IErr (c : eclass) (data : str) (index : N).

Definition item_data (i : item) : str :=
  match i with ITok _ d _ => d | IErr _ d _ => d end.
Definition item_index (i : item) : N :=
  match i with ITok _ _ n => n | IErr _ _ n => n end.
