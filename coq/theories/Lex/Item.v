(* The lexer's output alphabet, shared by the lexer models (Lex/) and the parser model (Parse/).
   crates/apollo-parser/src/lexer/token_kind.rs and the Iterator impl of Lexer. *)
From ApolloVerif Require Import Base.Chars.

Inductive tkind :=
| Whitespace | Comment | Bang | Dollar | Amp | Spread | Comma | Colon | Eq | At
| LParen | RParen | LBracket | RBracket | LCurly | RCurly | Pipe | Eof
| Name | StringValue | Int | Float.

Definition tkind_eqb (a b : tkind) : bool :=
  match a, b with
  | Whitespace, Whitespace | Comment, Comment | Bang, Bang | Dollar, Dollar | Amp, Amp
  | Spread, Spread | Comma, Comma | Colon, Colon | Eq, Eq | At, At | LParen, LParen
  | RParen, RParen | LBracket, LBracket | RBracket, RBracket | LCurly, LCurly
  | RCurly, RCurly | Pipe, Pipe | Eof, Eof | Name, Name | StringValue, StringValue
  | Int, Int | Float, Float => true
  | _, _ => false
  end.

Lemma tkind_eqb_eq a b : tkind_eqb a b = true <-> a = b.
Proof. destruct a, b; cbn; split; congruence. Qed.

(* One item yielded by the lexer iterator: a token, or an error carrying the offending text.
   `index` is the byte offset (prefix sum of u8len) of the first character of `data`.
   Error classes: ELex = a lexical error produced by Cursor::advance (data = swallowed text),
                  ELimit = "token limit reached" (data empty, index = cursor position). *)
Inductive eclass := ELex | ELimit.

Inductive item :=
| Tok (k : tkind) (data : str) (index : N)
| Err (c : eclass) (data : str) (index : N).

Definition item_data (i : item) : str :=
  match i with Tok _ d _ => d | Err _ d _ => d end.
Definition item_index (i : item) : N :=
  match i with Tok _ _ n => n | Err _ _ n => n end.
