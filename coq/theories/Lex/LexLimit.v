(* Lexer::with_limit: lex_limited n s is the first n items of lex_all s followed by the limit error,
   or lex_all s itself when it has at most n items. *)
From ApolloVerif Require Import Base.Chars Lex.Item Lex.Fun Lex.LexProofs.
From Coq Require Import ZifyBool ZifyN ZifyNat PeanoNat.

(* Cursor::index() after an item: the start of the next item, except that an item ending at the end
   of the input leaves it at source.len() - 1 *)
Definition cursor_after_item (total : N) (it : item) : N :=
  let e := item_index it + blen (item_data it) in if e =? total then total - 1 else e.

Fixpoint cursor_after (total cidx : N) (l : list item) (k : nat) : N :=
  match k, l with
  | S k', it :: l' => cursor_after total (cursor_after_item total it) l' k'
  | _, _ => cidx
  end.

Definition limited (k : nat) (total cidx : N) (l : list item) : list item :=
  if Nat.leb (length l) k then l else firstn k l ++ [IErr ELimit [] (cursor_after total cidx l k)].

Lemma limited_cons k total cidx it l :
  limited (S k) total cidx (it :: l) = it :: limited k total (cursor_after_item total it) l.
Proof.
  unfold limited. cbn [length firstn cursor_after Nat.leb app].
  destruct (Nat.leb (length l) k); reflexivity.
Qed.

Lemma lex_from_nonempty_list idx s : lex_from idx s <> [].
Proof.
  destruct s as [|c r]; [rewrite lex_from_nil; discriminate|].
  destruct (lex_one c r) as [[res d] rest] eqn:E. rewrite (lex_from_cons _ _ _ _ _ _ E). discriminate.
Qed.

Lemma blen_zero s : blen s = 0 -> s = [].
Proof. destruct s as [|c r]; [reflexivity|]. cbn [blen]. pose proof (u8len_pos c). lia. Qed.

Lemma lexl_run_char : forall fuel s limit cur total cidx idx,
  (length s < fuel)%nat -> idx + blen s = total -> cur <= limit ->
  lexl_run fuel limit cur total cidx idx s =
  Some (limited (N.to_nat (limit - cur)) total cidx (lex_from idx s)).
Proof.
  induction fuel as [|f IH]; intros s limit cur total cidx idx Hf Htot Hcur; [lia|].
  cbn [lexl_run].
  destruct (limit <? cur + 1) eqn:Hlim.
  - replace (limit - cur) with 0 by lia. cbn [N.to_nat]. unfold limited.
    pose proof (lex_from_nonempty_list idx s) as Hne.
    destruct (lex_from idx s) as [|it l]; [congruence|]. reflexivity.
  - assert (Hk : N.to_nat (limit - cur) = S (N.to_nat (limit - (cur + 1)))) by lia.
    rewrite Hk.
    destruct s as [|c r].
    + rewrite lex_from_nil. reflexivity.
    + destruct (lex_one c r) as [[res d] rest] eqn:E.
      rewrite (lex_from_cons _ _ _ _ _ _ E), limited_cons.
      destruct (lex_one_app _ _ _ _ _ E) as [Happ _].
      pose proof (lex_one_shorter _ _ _ _ _ E) as Hs. cbn [length] in Hf.
      assert (Hb : blen d + blen rest = blen (c :: r)) by (rewrite <- Happ, blen_app; reflexivity).
      assert (Hc : match rest with [] => total - 1 | _ :: _ => idx + blen d end =
                   cursor_after_item total (lex_mk_item res d idx)).
      { unfold cursor_after_item. rewrite item_index_mk, item_data_mk.
        destruct rest as [|x rest'].
        - change (blen []) with 0 in Hb. replace (idx + blen d =? total) with true by lia. reflexivity.
        - change (blen (x :: rest')) with (u8len x + blen rest') in Hb. pose proof (u8len_pos x). replace (idx + blen d =? total) with false by lia.
          reflexivity. }
      rewrite Hc.
      rewrite (IH rest limit (cur + 1) total _ (idx + blen d)); [reflexivity|lia|lia|lia].
Qed.

Theorem lex_limited_char limit s :
  lex_limited limit s = limited (N.to_nat limit) (blen s) 0 (lex_all s).
Proof.
  unfold lex_limited. rewrite lexl_run_char; [|lia|lia|lia].
  replace (limit - 0) with limit by lia. reflexivity.
Qed.

(* the two cases spelled out *)
Corollary lex_limited_under limit s : (length (lex_all s) <= N.to_nat limit)%nat ->
  lex_limited limit s = lex_all s.
Proof.
  intros H. rewrite lex_limited_char. unfold limited.
  replace (Nat.leb (length (lex_all s)) (N.to_nat limit)) with true by (symmetry; apply Nat.leb_le; lia). reflexivity.
Qed.

Corollary lex_limited_over limit s : (N.to_nat limit < length (lex_all s))%nat ->
  lex_limited limit s =
  firstn (N.to_nat limit) (lex_all s) ++
  [IErr ELimit [] (cursor_after (blen s) 0 (lex_all s) (N.to_nat limit))].
Proof.
  intros H. rewrite lex_limited_char. unfold limited.
  replace (Nat.leb (length (lex_all s)) (N.to_nat limit)) with false by (symmetry; apply Nat.leb_gt; lia). reflexivity.
Qed.
