(* C05 / C07 link — value.rs (value, list_value, object_value, object_field, enum_value, variable, default_value)
   against the relaxed reference's Value[Const].  Proofs only. *)
From Coq Require Import PeanoNat.
From ApolloVerif Require Import Base.Chars Lex.Item Lex.Fun Parse.Outcome Parse.Builder Parse.Limits Parse.Monad
  Parse.Keywords Parse.Grammar Parse.Generic Parse.Atoms Parse.Entry Parse.LosslessDefs Parse.Lossless
  Parse.TrackerInst Parse.SilentInst Parse.EntryEnd Parse.Terminates Parse.RefGrammar Parse.RefLib Parse.RefLenient
  Parse.RefLenientProofs Parse.RefLinkBase Parse.RefLinkLoops Parse.RefLinkType.

Notation LP := rgl_parser.
Definition rl_cflag (c : g_constness) : bool := match c with GConst => true | GNotConst => false end.

(* ------------------------------------------------------------------ helpers *)
Lemma rl_post_ext q q' s s' :
  q (rl_sigs s) = q' (rl_sigs s) -> rl_sound q s s' /\ rl_complete q s s' -> rl_sound q' s s' /\ rl_complete q' s s'.
Proof. unfold rl_sound, rl_complete. intros <-. auto. Qed.

Lemma rl_post_dirty q s s' :
  ps_errors s' <> ps_errors s -> q (rl_sigs s) = RgNo -> rl_sound q s s' /\ rl_complete q s s'.
Proof.
  intros Hd Hq. split.
  - intros He. contradiction.
  - intros _ r Hr. rewrite Hq in Hr. discriminate.
Qed.

Lemma p_str_eqb_streq a b : p_str_eqb a b = rg_streq a b.
Proof. revert b. induction a as [|x a IH]; intros [|y b]; cbn; try reflexivity; now rewrite IH. Qed.
Lemma rg_streq_sym a b : rg_streq a b = rg_streq b a.
Proof. revert b. induction a as [|x a IH]; intros [|y b]; cbn; try reflexivity; now rewrite IH, N.eqb_sym. Qed.

Lemma rl_sim_node_bump k sk f : rl_sim (rg_starts f) (p_node k (p_bump sk)) (rg_sat f).
Proof. apply rl_sim_node. apply rl_sim_bump. Qed.

(* the recursion guard, decomposed *)
Lemma rl_rec_guard_split {A B} (onr : PM B) (body : PM A) (k : A -> PM B) s b s' :
  p_rec_guard onr body k s = POk (b, s') -> tr_ok (ps_rec s) ->
  (exists s4, rl_same_but_rec s s4 /\ tr_ok (ps_rec s4) /\ ptr_limit (ps_rec s) < ptr_current (ps_rec s) + 1 /\
              onr s4 = POk (b, s')) \/
  (exists s4 a s5 u s6, rl_same_but_rec s s4 /\ tr_ok (ps_rec s4) /\
     ptr_current (ps_rec s4) = ptr_current (ps_rec s) + 1 /\ ptr_limit (ps_rec s4) = ptr_limit (ps_rec s) /\
     body s4 = POk (a, s5) /\ p_rec_decrement s5 = POk (u, s6) /\ k a s6 = POk (b, s')).
Proof.
  intros E Ht. unfold p_rec_guard in E. apply bind_ok in E as (reached & s4 & E4 & E).
  destruct (rl_rec_check_run _ _ _ E4 Ht) as (Hsbr & Ht4 & Hl4 & Htrue & Hfalse). destruct reached.
  - left. exists s4. destruct (Htrue eq_refl) as [_ Hlt]. auto.
  - right. apply bind_ok in E as (a & s5 & E5 & E). apply bind_ok in E as (u & s6 & E6 & E).
    exists s4, a, s5, u, s6. specialize (Hfalse eq_refl). auto 10.
Qed.

(* room for one more level of recursion at a point where no opening token stands before the guard *)
Definition rl_roomy1 (s : pstate) : Prop :=
  ptr_current (ps_rec s) + 1 + rl_weight (rl_sigs s) < ptr_limit (ps_rec s).

(* ------------------------------------------------------------------ variable, enum value *)
Lemma rl_sim_variable : rl_sim (rg_starts (rg_is TkDollar)) g_variable rg_variable.
Proof.
  unfold g_variable, rg_variable. apply rl_sim_node. apply rl_sim_bind; [apply rl_sim_bump|intros _; apply rl_sim_name].
Qed.

Definition rg_enum_name : rg_token -> bool := rg_is_name_but [rg_s_true; rg_s_false; rg_s_null].

Lemma rl_gen_enum_value : rl_gen g_enum_value.
Proof. split; [apply (gg_enum_value CT CT_ok)|apply (gg_enum_value CX CX_ok)]. Qed.

Lemma rl_sim_enum_value : rl_sim rl_any g_enum_value (rg_sat rg_enum_name).
Proof.
  split; [apply rl_gen_enum_value|]. intros s u s' E Hok Ht _.
  unfold g_enum_value, p_node in E. apply bind_ok in E as (? & s1 & E1 & E).
  apply (rl_start_node_obs _ _ _ _ (proj1 (proj1 Hok))) in E1.
  apply bind_ok in E as (? & s2 & E & Ef). apply bind_ok in Ef as (? & s3 & Ef & Er). unfold p_ret in Er.
  injection Er as _ <-. apply rl_finish_node_obs in Ef.
  pose proof (rl_obs_ok _ _ E1 Hok) as Hok1. destruct Hok1 as [Hinv1 Ha1].
  assert (Ht1 : tr_ok (ps_rec s1)) by (destruct E1 as (_ & _ & _ & _ & ->); exact Ht).
  destruct (rl_inv_cur _ Hinv1) as (t & Hc1 & Hi1 & _).
  unfold p_bind at 1 in E. rewrite (peek_token_some t s1 Hc1) in E.
  pose proof (rl_sigs_head _ _ Hinv1 Hc1) as Hhead.
  (* transport the conclusion from (s, s3) to (s1, s2) *)
  assert (Hgoal : rl_sound (rg_sat rg_enum_name) s1 s2 /\ rl_complete (rg_sat rg_enum_name) s1 s2 ->
                  rl_sound (rg_sat rg_enum_name) s s3 /\ rl_complete (rg_sat rg_enum_name) s s3).
  { unfold rl_sound, rl_complete, rl_roomy. rewrite (rl_obs_sigs _ _ E1), (rl_obs_sigs _ _ Ef).
    pose proof Ef as (_ & _ & F1 & F2 & F3). pose proof E1 as (_ & _ & G1 & G2 & G3). rewrite F1, G1, G3.
    intros [Hs Hc]. split.
    - intros He. destruct (Hs He) as (Hok2 & Hp & Hq). split; [exact (rl_obs_ok _ _ Ef Hok2)|auto].
    - exact Hc. }
  apply Hgoal. clear Hgoal.
  destruct (tkind_eqb (tok_kind t) TkName) eqn:Hk.
  - apply tkind_eqb_eq in Hk. rewrite Hk in Hhead. cbn [tkind_eqb] in Hhead.
    apply bind_ok in E as (? & s4 & E4 & E).
    set (kw := p_str_eqb (tok_data t) pkw_true || p_str_eqb (tok_data t) pkw_false || p_str_eqb (tok_data t) pkw_null) in *.
    assert (Hkw : rg_enum_name (TkName, tok_data t) = negb kw).
    { unfold rg_enum_name, rg_is_name_but, rg_is_in, rg_is. cbn [fst snd tkind_eqb andb existsb].
      unfold kw. change (p_str_eqb (tok_data t) pkw_true) with (rg_streq (tok_data t) rg_s_true).
      change (p_str_eqb (tok_data t) pkw_false) with (rg_streq (tok_data t) rg_s_false).
      change (p_str_eqb (tok_data t) pkw_null) with (rg_streq (tok_data t) rg_s_null).
      rewrite (rg_streq_sym rg_s_true), (rg_streq_sym rg_s_false), (rg_streq_sym rg_s_null).
      rewrite orb_false_r, orb_assoc. reflexivity. }
    destruct kw; cbn [p_when] in E4.
    + (* true / false / null: reported, then name *)
      pose proof (rl_err_run _ _ _ (conj Hinv1 Ha1) E4) as Hd.
      destruct (post_returns _ _ _ _ (proj2 rl_gen_name) s4 I _ _ E) as [_ Hx].
      apply rl_post_dirty.
      * intros He. destruct Hx as [n Hn]. apply Hd. rewrite Hn in He.
        destruct (post_returns _ _ _ _ (proj2 rl_gen_err) s1 I _ _ E4) as [_ [n4 Hn4]]. rewrite Hn4 in He.
        rewrite app_assoc in He. apply rl_no_new in He. apply app_eq_nil in He as [_ ->]. exact Hn4.
      * rewrite Hhead. cbn [rg_sat]. rewrite Hkw. reflexivity.
    + unfold p_ret in E4. injection E4 as _ <-.
      apply (rl_post_ext rg_name).
      * rewrite Hhead. cbn [rg_name rg_sat]. rewrite Hkw. reflexivity.
      * exact (proj2 rl_sim_name s1 _ s2 E (conj Hinv1 Ha1) Ht1 I).
  - pose proof (rl_err_run _ _ _ (conj Hinv1 Ha1) E) as Hd. apply rl_post_dirty; [exact Hd|].
    rewrite Hhead. destruct (tkind_eqb (tok_kind t) TkEof); [reflexivity|]. cbn [rg_sat].
    unfold rg_enum_name, rg_is_name_but, rg_is. cbn [fst]. destruct (tok_kind t); try discriminate; reflexivity.
Qed.

(* ------------------------------------------------------------------ the value family *)
Definition rl_value_spec (fuel : nat) : Prop :=
  forall c pop s u s', g_value fuel c pop s = POk (u, s') -> rl_ok s -> tr_ok (ps_rec s) ->
  forall n, (length (rl_sigs s) < n)%nat ->
  rl_sound (rgl_value_f LP n (rl_cflag c)) s s' /\ rl_complete (rgl_value_f LP n (rl_cflag c)) s s'.

Lemma rl_gen_value f c pop : rl_gen (g_value f c pop).
Proof. split; [apply (gg_value CT CT_ok)|apply (gg_value CX CX_ok)]. Qed.

Lemma rl_error_or_pop_run pop s u s' : rl_ok s -> g_error_or_pop pop s = POk (u, s') -> ps_errors s' <> ps_errors s.
Proof. intros Hok E. destruct pop; cbn in E; [eapply rl_err_and_pop_run|eapply rl_err_run]; eauto. Qed.

(* a value under the recursion guard, with continuation `ret y` *)
Lemma rl_guarded_value f (Hf : rl_value_spec f) c {B} (onr : PM B) (y : B) s b s' :
  (forall s0 b0 s1, onr s0 = POk (b0, s1) -> rl_ok s0 -> ps_errors s1 <> ps_errors s0) ->
  p_rec_guard onr (g_value f c true) (fun _ => p_ret y) s = POk (b, s') -> rl_ok s -> tr_ok (ps_rec s) ->
  forall n, (length (rl_sigs s) < n)%nat ->
  (ps_errors s' = ps_errors s ->
     b = y /\ rl_ok s' /\ (exists pre, rl_sigs s = pre ++ rl_sigs s') /\
     rgl_value_f LP n (rl_cflag c) (rl_sigs s) = RgOk (rl_sigs s')) /\
  (rl_roomy1 s -> forall r, rgl_value_f LP n (rl_cflag c) (rl_sigs s) = RgOk r ->
     ps_errors s' = ps_errors s /\ rl_sigs s' = r).
Proof.
  intros Honr E Hok Ht n Hn.
  destruct (rl_rec_guard_split _ _ _ _ _ _ E Ht) as
    [(s4 & Hsbr & Ht4 & Hlt & E4)|(s4 & a & s5 & u & s6 & Hsbr & Ht4 & Hc4 & Hl4 & E5 & E6 & E7)].
  - pose proof (Honr _ _ _ E4 (rl_sbr_ok _ _ Hsbr Hok)) as Hd. destruct Hsbr as (_ & _ & He4 & _). split.
    + intros He. exfalso. apply Hd. congruence.
    + intros Hr r _. exfalso. unfold rl_roomy1 in Hr. lia.
  - unfold p_ret in E7. injection E7 as <- <-.
    pose proof (rl_sbr_ok _ _ Hsbr Hok) as Hok4. pose proof (rl_sbr_sigs _ _ Hsbr) as Hsig4.
    rewrite <- Hsig4 in Hn. destruct (Hf c true s4 a s5 E5 Hok4 Ht4 n Hn) as [Hs5 Hc5].
    destruct (rl_rec_decrement_run _ _ _ E6) as (Hsbr6 & Hc6 & Hl6).
    pose proof (rl_sbr_sigs _ _ Hsbr6) as Hsig6.
    pose proof Hsbr as (_ & _ & He4 & _). pose proof Hsbr6 as (_ & _ & He6 & _).
    unfold rl_sound, rl_complete in Hs5, Hc5. rewrite Hsig4 in Hs5, Hc5. rewrite He4 in Hs5, Hc5. split.
    + intros He. rewrite He6 in He. destruct (Hs5 He) as (Hok5 & Hpre & Hq).
      split; [reflexivity|]. split; [exact (rl_sbr_ok _ _ Hsbr6 Hok5)|]. rewrite Hsig6. auto.
    + intros Hr r Hq. rewrite He6, Hsig6. apply Hc5; [|exact Hq].
      unfold rl_roomy, rl_roomy1 in *. rewrite Hsig4. lia.
Qed.

(* ---- ListValue: the loop after `[` *)
Definition g_list_step (f : nat) (c : g_constness) (node_ : tkind) : PM bool :=
  if tkind_eqb node_ TkRBracket then p_bump SK_R_BRACK ;; p_ret false
  else if tkind_eqb node_ TkEof then p_ret false
  else p_rec_guard (p_limit_err ;; p_ret false) (g_value f c true) (fun _ => p_ret true).

Lemma rl_gen_list_loop f c lf u :
  rl_gen (p_peek_while_acc lf (fun (_ : unit) k => x <- g_list_step f c k ;; p_ret (tt, x)) u).
Proof.
  unfold g_list_step. split; [pose proof CT_ok as H|pose proof CX_ok as H]; gfull.
Qed.

Lemma rl_limit_ret_dirty {B} (y : B) s0 b0 s1 :
  (p_limit_err ;; p_ret y) s0 = POk (b0, s1) -> rl_ok s0 -> ps_errors s1 <> ps_errors s0.
Proof.
  intros E Hok. apply bind_ok in E as (? & s2 & E2 & E). unfold p_ret in E. injection E as _ <-.
  eapply rl_limit_err_run; eauto.
Qed.

Lemma rl_list_loop f (Hf : rl_value_spec f) c m : forall lf (u : unit) s (u0 : unit) s',
  p_peek_while_acc lf (fun (_ : unit) k => x <- g_list_step f c k ;; p_ret (tt, x)) u s = POk (u0, s') ->
  rl_ok s -> tr_ok (ps_rec s) -> (length (rl_sigs s) < m)%nat -> forall n, (length (rl_sigs s) <= n)%nat ->
  let q := rg_seq (rg_many_f n rg_not_rbracket (rgl_value_f LP m (rl_cflag c))) (rgl_close_list true) in
  (ps_errors s' = ps_errors s -> rl_ok s' /\ (exists pre, rl_sigs s = pre ++ rl_sigs s') /\ q (rl_sigs s) = RgOk (rl_sigs s')) /\
  (rl_roomy1 s -> forall r, q (rl_sigs s) = RgOk r -> ps_errors s' = ps_errors s /\ rl_sigs s' = r).
Proof.
  induction lf as [|lf IH]; intros u s u0 s' E Hok Ht Hm n Hn; [discriminate|]. cbv zeta.
  pose proof Hok as [Hinv Ha]. destruct (rl_inv_cur _ Hinv) as (t & Hc & Hi & _).
  destruct (rl_peek_while_acc_unroll _ _ _ _ _ _ _ Hc E) as ([] & cont & s1 & E1 & E2).
  apply bind_ok in E1 as (x & s2 & E1 & E3). unfold p_ret in E3. injection E3 as Hx Hs2. subst x s2.
  pose proof (rl_sigs_head _ _ Hinv Hc) as Hhead. unfold g_list_step in E1.
  destruct (tkind_eqb (tok_kind t) TkRBracket) eqn:Hrb.
  - (* `]` *)
    apply tkind_eqb_eq in Hrb. assert (Hne : tok_kind t <> TkEof) by congruence.
    apply bind_ok in E1 as (? & s3 & E3 & E1). unfold p_ret in E1. injection E1 as <- <-. destruct E2 as [_ ->].
    destruct (rl_bump_run _ _ _ _ _ Hinv Hc Hne E3) as (Hinv3 & Hsig3 & He3 & Ha3 & Hr3).
    rewrite Hrb in Hsig3.
    assert (Hq : rg_seq (rg_many_f n rg_not_rbracket (rgl_value_f LP m (rl_cflag c))) (rgl_close_list true) (rl_sigs s)
                 = RgOk (rl_sigs s3)).
    { rewrite Hsig3. unfold rg_seq. rewrite rg_many_f_stop by reflexivity. reflexivity. }
    split.
    + intros _. split; [split; [exact Hinv3|congruence]|]. split; [eexists [_]; exact Hsig3|exact Hq].
    + intros _ r Hr. rewrite Hq in Hr. injection Hr as <-. auto.
  - destruct (tkind_eqb (tok_kind t) TkEof) eqn:Heof.
    + (* end of input: the loop gives up silently *)
      unfold p_ret in E1. injection E1 as <- <-. destruct E2 as [_ ->].
      assert (Hq : rg_seq (rg_many_f n rg_not_rbracket (rgl_value_f LP m (rl_cflag c))) (rgl_close_list true) (rl_sigs s)
                   = RgOk (rl_sigs s)).
      { rewrite Hhead. destruct n; reflexivity. }
      split.
      * intros _. split; [exact Hok|]. split; [exists []; reflexivity|exact Hq].
      * intros _ r Hr. rewrite Hq in Hr. injection Hr as <-. auto.
    + (* one more element *)
      destruct (rl_guarded_value f Hf c _ true s cont s1 (rl_limit_ret_dirty false) E1 Hok Ht m Hm) as [Hs1 Hc1].
      assert (Hx1 : rl_ext s s1 /\ tr_ok (ps_rec s1) /\ ptr_current (ps_rec s1) = ptr_current (ps_rec s) /\
                    ptr_limit (ps_rec s1) = ptr_limit (ps_rec s)).
      { assert (Hg : rl_gen (p_rec_guard (p_limit_err ;; p_ret false) (g_value f c true) (fun _ => p_ret true))).
        { split; [pose proof CT_ok as H|pose proof CX_ok as H]; gfull. }
        destruct (rl_gen_run _ _ _ _ Hg E1 Ht) as (A & B & C & D). auto. }
      destruct Hx1 as (Hx1 & Ht1 & Hcur1 & Hlim1).
      assert (Hnb : rg_not_rbracket (tok_kind t, tok_data t) = true).
      { unfold rg_not_rbracket, rg_is. cbn [fst]. destruct (tok_kind t); try discriminate; reflexivity. }
      assert (Hx2 : cont = true -> rl_ext s1 s').
      { intros ->. exact (proj2 (proj2 (proj2 (rl_gen_run _ _ _ _ (rl_gen_list_loop f c lf tt) E2 Ht1)))). }
      split.
      * intros He.
        assert (He1 : ps_errors s1 = ps_errors s /\ ps_errors s' = ps_errors s1).
        { destruct cont; [apply (rl_ext_split _ _ _ Hx1 (Hx2 eq_refl) He)|]. destruct E2 as [_ ->]. auto. }
        destruct He1 as [He1 He2]. destruct (Hs1 He1) as (-> & Hok1 & [pre1 Hpre1] & Hq1).
        pose proof (rgl_value_f_progress LP m (rl_cflag c) _ _ Hq1) as Hlt.
        destruct n as [|n]; [lia|].
        assert (Hn1 : (length (rl_sigs s1) <= n)%nat) by lia.
        assert (Hm1 : (length (rl_sigs s1) < m)%nat) by lia.
        destruct (IH _ _ _ _ E2 Hok1 Ht1 Hm1 n Hn1) as [Hs2 _]. cbv zeta in Hs2.
        destruct (Hs2 He2) as (Hok2 & [pre2 Hpre2] & Hq2).
        split; [exact Hok2|]. split; [exists (pre1 ++ pre2); rewrite Hpre1, Hpre2; apply app_assoc|].
        unfold rg_seq in Hq2 |- *. rewrite Hhead in Hq1 |- *. cbn [rg_many_f]. rewrite Hnb, Hq1. cbn [rg_bind].
        exact Hq2.
      * intros Hroom r Hq. unfold rg_seq in Hq. rewrite Hhead in Hq. destruct n as [|n]; cbn [rg_many_f] in Hq; rewrite Hnb in Hq;
          [discriminate|].
        destruct (rgl_value_f LP m (rl_cflag c) ((tok_kind t, tok_data t) :: rl_sig (ps_items s))) as [r1| |] eqn:Eq1;
          try discriminate. cbn [rg_bind] in Hq. rewrite <- Hhead in Eq1.
        destruct (Hc1 Hroom r1 Eq1) as [He1 Hr1]. destruct (Hs1 He1) as (-> & Hok1 & [pre1 Hpre1] & Hq1).
        pose proof (rgl_value_f_progress LP m (rl_cflag c) _ _ Eq1) as Hlt.
        assert (Hn1 : (length (rl_sigs s1) <= n)%nat) by (rewrite Hr1; lia).
        assert (Hm1 : (length (rl_sigs s1) < m)%nat) by (rewrite Hr1; lia).
        destruct (IH _ _ _ _ E2 Hok1 Ht1 Hm1 n Hn1) as [_ Hc2]. cbv zeta in Hc2.
        assert (Hroom1 : rl_roomy1 s1).
        { unfold rl_roomy1 in *. rewrite Hpre1, rl_weight_app in Hroom. lia. }
        unfold rg_seq in Hc2. rewrite Hr1 in Hc2. destruct (Hc2 Hroom1 r Hq) as [He2 Hr2]. split; [congruence|exact Hr2].
Qed.

(* ---- ListValue *)
Lemma rl_list_value f (Hf : rl_value_spec f) c s u s' t n' :
  g_list_value_ (g_value f) f c s = POk (u, s') -> rl_ok s -> tr_ok (ps_rec s) ->
  ps_cur s = Some t -> tok_kind t = TkLBracket -> (length (rl_sigs s) < S n')%nat ->
  rl_sound (rgl_value_f LP (S n') (rl_cflag c)) s s' /\ rl_complete (rgl_value_f LP (S n') (rl_cflag c)) s s'.
Proof.
  intros E Hok Ht Hc Hk Hn. pose proof Hok as [Hinv Ha].
  unfold g_list_value_, p_node in E. apply bind_ok in E as (? & s1 & E1 & E).
  apply (rl_start_node_obs _ _ _ _ (proj1 Hinv)) in E1.
  apply bind_ok in E as (? & s3 & E & Ef). apply bind_ok in Ef as (? & s4 & Ef & Er). unfold p_ret in Er.
  injection Er as _ <-. apply rl_finish_node_obs in Ef.
  pose proof (rl_obs_ok _ _ E1 Hok) as [Hinv1 Ha1].
  assert (Hc1 : ps_cur s1 = Some t) by (destruct E1 as (G & _); congruence).
  assert (Hne : tok_kind t <> TkEof) by congruence.
  apply bind_ok in E as (? & s2 & E2 & E).
  destruct (rl_bump_run _ _ _ _ _ Hinv1 Hc1 Hne E2) as (Hinv2 & Hsig2 & He2 & Ha2 & Hr2).
  rewrite (rl_obs_sigs _ _ E1), Hk in Hsig2.
  unfold p_peek_while in E. apply bind_ok in E as (u2 & s3' & E & Er). unfold p_ret in Er. injection Er as _ ->.
  pose proof E1 as (_ & _ & Ee1 & Ea1 & Er1). pose proof Ef as (_ & _ & Eef & Eaf & Erf).
  assert (Hok2 : rl_ok s2) by (split; [exact Hinv2|congruence]).
  assert (Ht2 : tr_ok (ps_rec s2)) by congruence.
  assert (Hm2 : (length (rl_sigs s2) < n')%nat) by (rewrite Hsig2 in Hn; cbn [length] in Hn; lia).
  assert (Hn2 : (length (rl_sigs s2) <= n')%nat) by lia.
  destruct (rl_list_loop f Hf c n' _ _ _ _ _ E Hok2 Ht2 Hm2 n' Hn2) as [Hs Hcm]. cbv zeta in Hs, Hcm.
  unfold rl_sound, rl_complete. rewrite Hsig2. cbn [rgl_value_f rgl_list_eof rgl_parser]. rewrite (rl_obs_sigs _ _ Ef).
  split.
  - intros He. assert (He3 : ps_errors s3 = ps_errors s2) by congruence.
    destruct (Hs He3) as (Hok3 & [pre Hpre] & Hq). split; [exact (rl_obs_ok _ _ Ef Hok3)|].
    split; [eexists (_ :: pre); cbn [app]; f_equal; exact Hpre|exact Hq].
  - intros Hr r Hq. assert (Hr2' : rl_roomy1 s2).
    { unfold rl_roomy, rl_roomy1 in *. rewrite Hsig2 in Hr. cbn [rl_weight] in Hr. rewrite Hr2, Er1. lia. }
    destruct (Hcm Hr2' r Hq) as [He3 Hr3]. split; [congruence|exact Hr3].
Qed.

(* ---- ObjectValue *)
Definition rl_len_le (m : nat) (ts : list rg_token) : Prop := (length ts <= m)%nat.
Definition rl_len_lt (m : nat) (ts : list rg_token) : Prop := (length ts < m)%nat.
Lemma rl_len_le_closed m : rl_suffix_closed (rl_len_le m).
Proof. intros pre ts. unfold rl_len_le. rewrite app_length. lia. Qed.

Definition rgl_object_item (m : nat) (c : bool) : rg_p :=
  rg_seq rg_name (rgl_colon_then false (rgl_value_f LP m c)).

(* `if p.peek() == Some(k) { m } else { p.err() }` under a precondition on the remaining tokens *)
Lemma rl_sim_peek_else_err_pre (P : list rg_token -> Prop) k (m : PM unit) q : k <> TkEof ->
  rl_sim (fun ts => P ts /\ rg_starts (rg_is k) ts) m q -> rl_requires (rg_is k) q ->
  rl_sim P (b <- g_peek_is k ;; if b then m else p_err) q.
Proof.
  intros Hne [Hg Hm] Hreq. split.
  { apply rl_gen_bind; [apply rl_gen_peek_is|]. intros [|]; [exact Hg|apply rl_gen_err]. }
  intros s u s' E [Hinv Ha] Ht HP. destruct (rl_inv_cur _ Hinv) as (t & Hc & Hi & _).
  unfold p_bind in E. rewrite (peek_is_some k t s Hc) in E.
  rewrite (rl_peek_is_view _ _ _ Hinv Hc Hne) in E.
  destruct (rl_head_is (rg_is k) (rl_sigs s)) eqn:Hh.
  - apply (Hm s u s' E (conj Hinv Ha) Ht). split; [exact HP|]. apply rl_starts_head. exact Hh.
  - pose proof (rl_err_run _ _ _ (conj Hinv Ha) E) as Hd. split.
    + intros He. contradiction.
    + intros _ r Hq. rewrite (Hreq _ Hh) in Hq. discriminate.
Qed.

Lemma rl_sim_colon_value f (Hf : rl_value_spec f) c m :
  rl_sim (fun ts => rl_len_lt m ts /\ rg_starts (rg_is TkColon) ts)
    (p_bump SK_COLON ;; p_rec_guard p_limit_err (g_value f c true) (fun _ => p_ret tt))
    (rg_seq (rg_sat (rg_is TkColon)) (rgl_value_f LP m (rl_cflag c))).
Proof.
  split; [split; [pose proof CT_ok as H|pose proof CX_ok as H]; gfull|].
  intros s u s' E Hok Ht [Hlen Hst]. pose proof Hok as [Hinv Ha].
  destruct (rl_inv_cur _ Hinv) as (t & Hc & Hi & _).
  assert (Hne : tok_kind t <> TkEof).
  { intros Hk. rewrite (rl_sigs_eof _ _ Hinv Hc Hk) in Hst. exact Hst. }
  apply bind_ok in E as (? & s1 & E1 & E).
  destruct (rl_bump_run _ _ _ _ _ Hinv Hc Hne E1) as (Hinv1 & Hsig1 & He1 & Ha1 & Hr1).
  rewrite Hsig1 in Hst. cbn [rg_starts] in Hst.
  assert (Hok1 : rl_ok s1) by (split; [exact Hinv1|congruence]).
  assert (Ht1 : tr_ok (ps_rec s1)) by congruence.
  assert (Hm1 : (length (rl_sigs s1) < m)%nat) by (unfold rl_len_lt in Hlen; rewrite Hsig1 in Hlen; cbn [length] in Hlen; lia).
  destruct (rl_guarded_value f Hf c p_limit_err tt s1 u s' (fun s0 b0 s2 E0 H0 => rl_limit_err_run s0 b0 s2 H0 E0) E Hok1 Ht1 m Hm1)
    as [Hs Hcm].
  unfold rl_sound, rl_complete. rewrite Hsig1. unfold rg_seq. cbn [rg_sat]. rewrite Hst. cbn [rg_bind]. split.
  - intros He. assert (He' : ps_errors s' = ps_errors s1) by congruence.
    destruct (Hs He') as (_ & Hok' & [pre Hpre] & Hq). split; [exact Hok'|].
    split; [eexists (_ :: pre); cbn [app]; f_equal; exact Hpre|exact Hq].
  - intros Hr r Hq. assert (Hr1' : rl_roomy1 s1).
    { unfold rl_roomy, rl_roomy1 in *. rewrite Hsig1 in Hr. cbn [rl_weight] in Hr.
      assert (Hw : (match tok_kind t with TkLCurly | TkLBracket | TkColon => 1 | _ => 0 end) = 1).
      { pose proof Hst as Hst'. unfold rg_is in Hst'. cbn [fst] in Hst'. destruct (tok_kind t); try discriminate; reflexivity. }
      rewrite Hw in Hr. rewrite Hr1. lia. }
    destruct (Hcm Hr1' r Hq) as [He' Hr']. split; [congruence|exact Hr'].
Qed.

Lemma rl_sim_object_field f (Hf : rl_value_spec f) c m :
  rl_sim (fun ts => rl_len_le m ts /\ rg_starts (rg_is TkName) ts) (g_object_field_ (g_value f) c)
    (rgl_object_item m (rl_cflag c)).
Proof.
  unfold g_object_field_, rgl_object_item. apply rl_sim_node.
  eapply (rl_sim_bind_pre _ (rl_len_lt m)).
  - eapply rl_sim_weaken; [|apply rl_sim_name]. intros; exact I.
  - intros _. cbn [rgl_colon_then].
    apply (rl_sim_peek_else_err_pre (rl_len_lt m) TkColon); [discriminate|apply rl_sim_colon_value; exact Hf|].
    intros [|t ts] H; [reflexivity|]. cbn [rl_head_is] in H. unfold rg_seq, rg_sat. rewrite H. reflexivity.
  - intros ts r [Hlen _] Hq. apply rg_progress_sat in Hq. unfold rl_len_le, rl_len_lt in *. lia.
Qed.

Lemma rgl_object_item_progress m c : rg_progress (rgl_object_item m c).
Proof.
  unfold rgl_object_item. apply rg_progress_seq_l; [apply rg_progress_sat|]. apply rgl_colon_then_nolonger.
  apply rg_progress_nolonger, rgl_value_f_progress.
Qed.

Lemma rl_sim_object_value f (Hf : rl_value_spec f) c n' :
  rl_sim (fun ts => rl_len_le (S n') ts /\ rg_starts (rg_is TkLCurly) ts) (g_object_value_ (g_value f) f c)
    (rg_seq (rg_sat (rg_is TkLCurly))
       (rg_seq (rg_many_f n' (rg_is TkName) (rgl_object_item n' (rl_cflag c))) (rg_sat (rg_is TkRCurly)))).
Proof.
  unfold g_object_value_. apply rl_sim_node.
  eapply (rl_sim_bind_pre _ (fun ts => rl_len_le n' ts /\ (length ts <= n')%nat)).
  - eapply rl_sim_weaken; [|apply rl_sim_bump]. intros ts [_ H]. exact H.
  - intros _. eapply rl_sim_bind_pre with (Q := rl_any).
    + apply (rl_sim_many_kind_f (rl_len_le n') TkName); [apply rl_len_le_closed|discriminate| |apply rgl_object_item_progress].
      apply rl_sim_object_field. exact Hf.
    + intros _. apply rl_sim_expect. discriminate.
    + intros; exact I.
  - intros ts r [Hlen _] Hq. apply rg_progress_sat in Hq. unfold rl_len_le in *. split; lia.
Qed.

(* ---- the whole family *)
Lemma rl_enum_name_nokw d :
  p_str_eqb d pkw_true = false -> p_str_eqb d pkw_false = false -> p_str_eqb d pkw_null = false ->
  rg_enum_name (TkName, d) = true.
Proof.
  intros H1 H2 H3. unfold rg_enum_name, rg_is_name_but, rg_is_in, rg_is. cbn [fst snd tkind_eqb andb existsb].
  change (p_str_eqb d pkw_true) with (rg_streq d rg_s_true) in H1.
  change (p_str_eqb d pkw_false) with (rg_streq d rg_s_false) in H2.
  change (p_str_eqb d pkw_null) with (rg_streq d rg_s_null) in H3.
  rewrite (rg_streq_sym rg_s_true), (rg_streq_sym rg_s_false), (rg_streq_sym rg_s_null), H1, H2, H3. reflexivity.
Qed.

Lemma rl_dirty_then s s1 s' : ps_errors s1 <> ps_errors s -> rl_ext s s1 -> rl_ext s1 s' -> ps_errors s' <> ps_errors s.
Proof. intros Hd H1 H2 He. destruct (rl_ext_split _ _ _ H1 H2 He) as [He1 _]. contradiction. Qed.

Theorem rl_value_all : forall fuel, rl_value_spec fuel.
Proof.
  induction fuel as [|f IH]; intros c pop s u s' E Hok Ht n Hn; [discriminate|].
  cbn [g_value] in E. unfold g_value_body in E. pose proof Hok as [Hinv Ha].
  destruct (rl_inv_cur _ Hinv) as (t & Hc & Hi & _).
  unfold p_bind at 1 in E. rewrite (peek_some t s Hc) in E.
  destruct n as [|n']; [lia|]. pose proof (rl_sigs_head _ _ Hinv Hc) as Hhead.
  destruct (tok_kind t) eqn:Hk; try (cbn in Hi; discriminate Hi); cbn [tkind_eqb] in Hhead;
    try (apply rl_post_dirty; [eapply rl_error_or_pop_run; eauto|rewrite Hhead; reflexivity]).
  - (* $ *)
    apply bind_ok in E as (? & s1 & E1 & E). destruct c; cbn [rl_cflag].
    + apply rl_post_dirty; [|rewrite Hhead; reflexivity].
      eapply rl_dirty_then; [eapply rl_error_or_pop_run; eauto| |].
      * exact (proj2 (post_returns _ _ _ _ (gg_error_or_pop CX CX_ok pop) s I _ _ E1)).
      * exact (proj2 (post_returns _ _ _ _ (gg_variable CX CX_ok) s1 I _ _ E)).
    + unfold p_ret in E1. injection E1 as _ <-. apply (rl_post_ext rg_variable); [rewrite Hhead; reflexivity|].
      apply (proj2 rl_sim_variable s u s' E Hok Ht). rewrite Hhead. reflexivity.
  - (* [ *)
    eapply rl_list_value; eauto.
  - (* { *)
    apply (rl_post_ext (rg_seq (rg_sat (rg_is TkLCurly))
             (rg_seq (rg_many_f n' (rg_is TkName) (rgl_object_item n' (rl_cflag c))) (rg_sat (rg_is TkRCurly))))).
    + rewrite Hhead. reflexivity.
    + apply (proj2 (rl_sim_object_value f IH c n') s u s' E Hok Ht).
      split; [unfold rl_len_le; lia|rewrite Hhead; reflexivity].
  - (* Name *)
    unfold p_bind at 1 in E. rewrite (peek_token_some t s Hc) in E.
    assert (Hst : rg_starts (rg_is TkName) (rl_sigs s)) by (rewrite Hhead; reflexivity).
    destruct (p_str_eqb (tok_data t) pkw_true) eqn:H1;
      [apply (rl_post_ext (rg_sat (rg_is TkName))); [rewrite Hhead; reflexivity|];
       exact (proj2 (rl_sim_node_bump _ _ _) s u s' E Hok Ht Hst)|].
    destruct (p_str_eqb (tok_data t) pkw_false) eqn:H2;
      [apply (rl_post_ext (rg_sat (rg_is TkName))); [rewrite Hhead; reflexivity|];
       exact (proj2 (rl_sim_node_bump _ _ _) s u s' E Hok Ht Hst)|].
    destruct (p_str_eqb (tok_data t) pkw_null) eqn:H3;
      [apply (rl_post_ext (rg_sat (rg_is TkName))); [rewrite Hhead; reflexivity|];
       exact (proj2 (rl_sim_node_bump _ _ _) s u s' E Hok Ht Hst)|].
    apply (rl_post_ext (rg_sat rg_enum_name)).
    + rewrite Hhead. cbn [rg_sat rgl_value_f]. rewrite (rl_enum_name_nokw _ H1 H2 H3). reflexivity.
    + exact (proj2 rl_sim_enum_value s u s' E Hok Ht I).
  - (* String *)
    apply (rl_post_ext (rg_sat (rg_is TkStringValue))); [rewrite Hhead; reflexivity|].
    apply (proj2 (rl_sim_node_bump _ _ _) s u s' E Hok Ht). rewrite Hhead. reflexivity.
  - (* Int *)
    apply (rl_post_ext (rg_sat (rg_is TkInt))); [rewrite Hhead; reflexivity|].
    apply (proj2 (rl_sim_node_bump _ _ _) s u s' E Hok Ht). rewrite Hhead. reflexivity.
  - (* Float *)
    apply (rl_post_ext (rg_sat (rg_is TkFloat))); [rewrite Hhead; reflexivity|].
    apply (proj2 (rl_sim_node_bump _ _ _) s u s' E Hok Ht). rewrite Hhead. reflexivity.
Qed.

(* value as a judgement, for the callers *)
Theorem rl_sim_value f c pop : rl_sim rl_any (g_value f c pop) (rgl_value LP (rl_cflag c)).
Proof.
  split; [apply rl_gen_value|]. intros s u s' E Hok Ht _. unfold rgl_value.
  apply (rl_value_all f c pop s u s' E Hok Ht). lia.
Qed.

Lemma rl_sim_default_value f : rl_sim (rg_starts (rg_is TkEq)) (g_default_value f) (rgl_default LP).
Proof.
  unfold g_default_value, rgl_default. apply rl_sim_node.
  apply rl_sim_bind; [apply rl_sim_bump|intros _; apply (rl_sim_value f GConst false)].
Qed.
