(* C04: the recursion LimitTracker discipline, as an instance of the generic traversal (through Atoms.v):
   every production leaves `current` where it found it, never raises it above `limit`, and `high` never
   exceeds limit + 1. *)
From ApolloVerif Require Import Base.Chars Lex.Item Parse.Outcome Parse.Builder Parse.Limits Parse.Monad
  Parse.Keywords Parse.Grammar Parse.Generic Parse.Atoms Parse.Entry.

Definition tr_ok (t : ptracker) : Prop :=
  ptr_current t <= ptr_limit t /\ ptr_high t <= ptr_limit t + 1 /\ ptr_current t <= ptr_high t.

Definition tr_rel (t t' : ptracker) : Prop :=
  ptr_current t' = ptr_current t /\ ptr_limit t' = ptr_limit t /\ ptr_high t <= ptr_high t'.

Definition CT : pcfg :=
  {| cInv := fun s => tr_ok (ps_rec s); cWeak := fun s => tr_ok (ps_rec s);
     cRel := fun s s' => tr_rel (ps_rec s) (ps_rec s'); cPanicOk := True; cFuelOk := True |}.

Lemma CT_rel : prel_ok CT.
Proof.
  constructor; cbn; auto.
  - intros s. unfold tr_rel. lia.
  - intros a b c. unfold tr_rel. lia.
Qed.

(* LimitTracker::check_and_increment, in isolation *)
Lemma check_and_increment_spec t b t' :
  tr_ok t -> ptracker_check_and_increment t = POk (b, t') ->
  tr_ok t' /\ ptr_limit t' = ptr_limit t /\ ptr_high t <= ptr_high t' /\
  (b = true -> ptr_current t' = ptr_current t /\ ptr_limit t < ptr_current t + 1) /\
  (b = false -> ptr_current t' = ptr_current t + 1).
Proof.
  unfold tr_ok, ptracker_check_and_increment, ptracker_decrement. intros (H1 & H2 & H3).
  cbn [ptr_current ptr_high ptr_limit].
  destruct (ptr_limit t <? ptr_current t + 1) eqn:Hr.
  - destruct (ptr_current t + 1 =? 0) eqn:Hz; [discriminate|].
    intros [= <- <-]. cbn [ptr_current ptr_high ptr_limit].
    destruct (ptr_high t <? ptr_current t + 1) eqn:Hh; repeat split; try lia; discriminate.
  - intros [= <- <-]. cbn [ptr_current ptr_high ptr_limit].
    destruct (ptr_high t <? ptr_current t + 1) eqn:Hh; repeat split; try lia; discriminate.
Qed.

Lemma decrement_spec t t' :
  ptracker_decrement t = POk t' ->
  ptr_current t' + 1 = ptr_current t /\ ptr_limit t' = ptr_limit t /\ ptr_high t' = ptr_high t.
Proof.
  unfold ptracker_decrement. destruct (ptr_current t =? 0) eqn:Hz; [discriminate|].
  intros [= <-]. cbn. lia.
Qed.

(* operations that leave the tracker alone *)
Lemma rec_frame {A} (m : PM A) :
  (forall s a s', m s = POk (a, s') -> ps_rec s' = ps_rec s) -> spec CT m.
Proof.
  intros Hm. apply post_partial; [exact I|exact I|]. cbn. intros s Hs a s' E. rewrite (Hm _ _ _ E).
  split; [exact Hs|]. unfold tr_rel. lia.
Qed.

Lemma lexer_error_effect_rec c d i s : ps_rec (p_lexer_error_effect c d i s) = ps_rec s.
Proof. unfold p_lexer_error_effect. destruct d, (ps_accept _), c; reflexivity. Qed.

Lemma next_token_loop_rec items : forall s o s', p_next_token_loop items s = (o, s') -> ps_rec s' = ps_rec s.
Proof.
  induction items as [|[k d i|c d i] r IH]; intros s o s'; cbn [p_next_token_loop].
  - intros [= <- <-]. reflexivity.
  - intros [= <- <-]. reflexivity.
  - intros E. apply IH in E. rewrite E, lexer_error_effect_rec. reflexivity.
Qed.

Lemma skip_loop_rec items : forall s, ps_rec (p_skip_loop items s) = ps_rec s.
Proof.
  induction items as [|[k d i|c d i] r IH]; intros s; cbn [p_skip_loop]; [reflexivity| |].
  - destruct (p_is_ignored_kind k); [rewrite IH|]; reflexivity.
  - rewrite IH, lexer_error_effect_rec. reflexivity.
Qed.

Lemma CT_atoms : patoms_ok CT.
Proof.
  constructor.
  - exact CT_rel.
  - cbn. auto.
  - apply rec_frame. intros s a s'. unfold p_peek_token. destruct (ps_cur s).
    + intros [= <- <-]. reflexivity.
    + destruct (p_next_token_loop _ _) as [o s1] eqn:E. intros [= <- <-]. cbn.
      eapply next_token_loop_rec; eauto.
  - apply rec_frame. intros s a s'. unfold p_pop. destruct (ps_cur s).
    + intros [= <- <-]. reflexivity.
    + destruct (p_next_token_loop _ _) as [[t|] s1] eqn:E; [|discriminate]. intros [= <- <-].
      eapply next_token_loop_rec; eauto.
  - apply rec_frame. intros s a s'. unfold p_skip_ignored. destruct (ps_cur s) as [t|].
    + destruct (p_is_ignored_kind _); intros [= <- <-]; [rewrite skip_loop_rec|]; reflexivity.
    + intros [= <- <-]. apply skip_loop_rec.
  - apply rec_frame. intros s a s'. unfold p_push_ignored. destruct (p_push_pending_list _ _); try discriminate.
    intros [= <- <-]. reflexivity.
  - intros k t. apply rec_frame. intros s a s'. unfold p_push_token, p_modify. intros [= <- <-]. reflexivity.
  - intros t. apply rec_frame. intros s a s'. unfold p_push_err, p_modify. intros [= <- <-].
    destruct (ps_accept s); reflexivity.
  - apply rec_frame. intros s a s'. unfold p_limit_err. intros E.
    apply bind_ok in E as (o & s1 & E1 & E).
    assert (H1 : ps_rec s1 = ps_rec s).
    { revert E1. unfold p_current, p_peek_token. destruct (ps_cur s).
      - intros [= <- <-]. reflexivity.
      - destruct (p_next_token_loop _ _) as [o' s2] eqn:E2. intros [= <- <-]. cbn.
        eapply next_token_loop_rec; eauto. }
    destruct o as [t|].
    + apply bind_ok in E as (u & s2 & E2 & E). unfold p_push_err, p_modify in *.
      injection E2 as _ <-. injection E as _ <-. rewrite <- H1. destruct (ps_accept s1); reflexivity.
    + unfold p_ret in E. injection E as _ <-. exact H1.
  - intros k. apply rec_frame. intros s a s'. unfold p_start_raw, p_modify. intros [= <- <-]. reflexivity.
  - apply rec_frame. intros s a s'. unfold p_finish_node, p_lift_b. destruct (pb_finish_node _); try discriminate.
    intros [= <- <-]. reflexivity.
  - intros cp k. apply rec_frame. intros s a s'. unfold p_wrap_node, p_lift_b.
    destruct (pb_start_node_at _ _ _); try discriminate. intros [= <- <-]. reflexivity.
  - (* the recursion guard *)
    intros A B l body k Hl Hb Hk. apply post_partial; [exact I|exact I|]. cbn. intros s Hs r s' E.
    unfold p_rec_guard in E. apply bind_ok in E as (reached & s1 & Ec & E).
    unfold p_rec_check_and_increment in Ec.
    destruct (ptracker_check_and_increment (ps_rec s)) as [[b t1]| |] eqn:Et; try discriminate.
    injection Ec as <- <-.
    destruct (check_and_increment_spec _ _ _ Hs Et) as (Hok1 & Hl1 & Hh1 & Htrue & Hfalse).
    destruct b.
    + destruct (Htrue eq_refl) as [Hc1 _].
      destruct (post_returns _ _ _ _ Hl (ps_set_rec t1 s) Hok1 _ _ E) as [Hok' Hrel]. cbn in Hok', Hrel.
      split; [exact Hok'|]. unfold tr_rel in *. cbn in Hrel. lia.
    + specialize (Hfalse eq_refl).
      apply bind_ok in E as (x & s2 & Eb & E).
      destruct (post_returns _ _ _ _ Hb (ps_set_rec t1 s) Hok1 _ _ Eb) as [Hok2 Hrel2]. cbn in Hok2, Hrel2.
      apply bind_ok in E as (u & s3 & Ed & E). unfold p_rec_decrement in Ed.
      destruct (ptracker_decrement (ps_rec s2)) as [t3| |] eqn:Et3; try discriminate. injection Ed as _ <-.
      destruct (decrement_spec _ _ Et3) as (Hc3 & Hl3 & Hh3).
      assert (Hok3 : tr_ok t3).
      { unfold tr_ok, tr_rel in *. cbn in Hrel2. lia. }
      destruct (post_returns _ _ _ _ (Hk x) (ps_set_rec t3 s2) Hok3 _ _ E) as [Hok' Hrel]. cbn in Hok', Hrel.
      split; [exact Hok'|]. unfold tr_rel, tr_ok in *. cbn in Hrel2. lia.
  - intros t. apply rec_frame. intros s a s'. unfold p_ghost_dropped, p_modify. intros [= <- <-]. reflexivity.
  - intros A w. apply rec_frame. intros s a s'. discriminate.
  - apply rec_frame. intros s a s'. unfold g_assert_recursion_balanced. destruct (_ =? _); try discriminate.
    intros [= <- <-]. reflexivity.
  - intros b. apply rec_frame. intros s a s'. unfold p_debug_assert_advanced. destruct (_ && _); try discriminate.
    intros [= <- <-]. reflexivity.
Qed.

Definition CT_ok : pcfg_ok CT := atoms_cfg_ok CT CT_atoms I.

(* ---- the entries *)
Lemma init_tr_ok dbg rl items : tr_ok (ps_rec (p_init_state dbg rl items)).
Proof. unfold tr_ok. cbn. lia. Qed.

Theorem tracker_run (g : nat -> PM unit) :
  (forall fuel, specR CT (g fuel)) ->
  forall fuel dbg rl items r,
    p_run_with fuel g dbg rl items = POk r ->
    ptr_current (pr_rec r) = 0 /\ ptr_limit (pr_rec r) = rl /\ ptr_high (pr_rec r) <= rl + 1.
Proof.
  intros Hg fuel dbg rl items r. unfold p_run_with, p_finish.
  destruct (g fuel (p_init_state dbg rl items)) as [[u s]| |] eqn:E; try discriminate.
  destruct (pb_finish _); try discriminate. intros [= <-]. cbn [pr_rec].
  destruct (post_returns _ _ _ _ (Hg fuel) _ (init_tr_ok dbg rl items) _ _ E) as [Hok Hrel].
  cbn in Hok, Hrel. unfold tr_ok, tr_rel in *. cbn in Hrel. lia.
Qed.

Lemma type_entry_CT fuel : specR CT (g_type_entry fuel).
Proof.
  unfold g_type_entry. apply (ok_node _ CT_ok).
  eapply post_bind; [apply CT_rel|apply gg_ty; exact CT_ok|intros; apply gg_trailing; exact CT_ok].
Qed.

Lemma document_CT fuel : specR CT (g_document fuel).
Proof. apply gg_document; [exact CT_ok|apply (a_assert _ CT_atoms)]. Qed.
