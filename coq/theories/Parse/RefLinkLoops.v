(* C05 / C07 link — unpositioned states, and the parser's loops against the recogniser's X* / X+ / separated lists.
   Proofs only. *)
From Coq Require Import PeanoNat.
From ApolloVerif Require Import Base.Chars Lex.Item Lex.Fun Parse.Outcome Parse.Builder Parse.Limits Parse.Monad
  Parse.Keywords Parse.Grammar Parse.Generic Parse.Atoms Parse.Entry Parse.LosslessDefs Parse.Lossless
  Parse.TrackerInst Parse.SilentInst Parse.EntryEnd Parse.Terminates Parse.RefGrammar Parse.RefLib Parse.RefLenient
  Parse.RefLinkBase.

(* ------------------------------------------------------------------ extensionality *)
Lemma rl_gen_fext {A} (m m' : PM A) : (forall s, m s = m' s) -> rl_gen m -> rl_gen m'.
Proof. intros H [H1 H2]. split; intros s Hs; rewrite <- H; [apply H1|apply H2]; exact Hs. Qed.
Lemma rl_sim_fext {A} (P : list rg_token -> Prop) (m m' : PM A) q :
  (forall s, m s = m' s) -> rl_sim P m q -> rl_sim P m' q.
Proof.
  intros H [Hg Hm]. split; [eapply rl_gen_fext; eauto|]. intros s a s' E. rewrite <- H in E. eauto.
Qed.
Lemma p_bind_assoc {A B C} (m : PM A) (f : A -> PM B) (g : B -> PM C) s :
  p_bind (p_bind m f) g s = p_bind m (fun x => p_bind (f x) g) s.
Proof. unfold p_bind. destruct (m s) as [[a s1]| |]; reflexivity. Qed.

(* ------------------------------------------------------------------ states between a pop and the next skip_ignored *)
Definition rl_semi (s : pstate) : Prop :=
  rl_stream (rest_of s) /\ match ps_cur s with Some t => p_is_ignored_kind (tok_kind t) = false | None => True end.

Lemma rl_inv_semi s : rl_inv s -> rl_semi s.
Proof. intros [(t & Hc & Hi) Hs]. split; [exact Hs|]. rewrite Hc. exact Hi. Qed.

Lemma rl_skip_semi s u s' : rl_semi s -> p_skip_ignored s = POk (u, s') ->
  rl_inv s' /\ rl_sigs s' = rl_sigs s /\ rl_keep s s'.
Proof.
  intros [Hs Hc] E. destruct (ps_cur s) as [t|] eqn:Ecur.
  - assert (Hp : rl_pos s) by (exists t; auto). rewrite (rl_skip_ignored_pos _ Hp) in E. injection E as _ <-.
    split; [split; assumption|]. split; [reflexivity|]. repeat split.
  - unfold p_skip_ignored in E. cbv zeta in E. rewrite Ecur in E. injection E as _ <-.
    unfold rest_of in Hs. rewrite Ecur in Hs. cbn [cur_item app] in Hs.
    destruct (rl_skip_loop_stream _ Hs s) as (H1 & H2 & H3 & H4 & H5 & H6).
    split; [split; assumption|]. split.
    + unfold rl_sigs. rewrite H3. unfold rest_of. rewrite Ecur. reflexivity.
    + repeat split; assumption.
Qed.

(* pop / eat of a token that is not Eof leaves the stream behind it *)
Lemma rl_pop_run s t t' s' : rl_inv s -> ps_cur s = Some t -> tok_kind t <> TkEof -> p_pop s = POk (t', s') ->
  t' = t /\ rl_semi s' /\ ps_cur s' = None /\ rl_sigs s = (tok_kind t, tok_data t) :: rl_sigs s' /\ rl_keep s s' /\
  ps_builder s' = ps_builder s.
Proof.
  intros Hinv Hc Hk E. destruct (rl_sigs_tok _ _ Hinv Hc Hk) as (Hsig & _ & Hstr).
  unfold p_pop in E. rewrite Hc in E. injection E as <- <-. split; [reflexivity|].
  split; [split; [unfold rest_of; cbn; exact Hstr|cbn; exact I]|]. split; [reflexivity|].
  split; [rewrite Hsig; reflexivity|]. repeat split.
Qed.

Lemma rl_eat_run k s u s' t : rl_inv s -> ps_cur s = Some t -> tok_kind t <> TkEof -> p_eat k s = POk (u, s') ->
  rl_semi s' /\ rl_sigs s = (tok_kind t, tok_data t) :: rl_sigs s' /\ rl_keep s s'.
Proof.
  intros Hinv Hc Hk E. destruct (rl_sigs_tok _ _ Hinv Hc Hk) as (Hsig & _ & Hstr).
  unfold p_eat in E. apply bind_ok in E as (? & s2 & E2 & E1).
  apply rl_push_ignored_obs in E2. destruct E2 as (Hc2 & Hi2 & He2 & Ha2 & Hr2).
  rewrite Hc in Hc2. apply bind_ok in E1 as (o & s3 & E3 & E1). rewrite (current_some t s2 Hc2) in E3.
  injection E3 as <- <-. apply bind_ok in E1 as (t' & s4 & E4 & E1). unfold p_pop in E4. rewrite Hc2 in E4.
  injection E4 as <- <-. unfold p_push_token, p_modify in E1. injection E1 as _ <-.
  split; [split; [unfold rest_of; cbn; rewrite Hi2; exact Hstr|cbn; exact I]|]. split.
  - rewrite Hsig. unfold rl_sigs, rest_of. cbn. rewrite Hi2. reflexivity.
  - unfold rl_keep. cbn. auto.
Qed.

Lemma rl_debug_assert_run b s u s' : p_debug_assert_advanced b s = POk (u, s') -> s' = s.
Proof. unfold p_debug_assert_advanced. destruct (_ && _); [discriminate|]. intros H. injection H as _ H. symmetry. exact H. Qed.

Lemma rl_head_nh f ts : rl_head_is f ts = false -> rg_nh f ts.
Proof. destruct ts; cbn; auto. Qed.

(* ------------------------------------------------------------------ while the next token is k: X* *)
Lemma rl_gen_peek_while_kind_acc {Acc} fuel k (run : Acc -> PM Acc) :
  (forall acc, rl_gen (run acc)) -> forall acc, rl_gen (p_peek_while_kind_acc fuel k run acc).
Proof.
  intros H acc. split.
  - eapply specR_spec; [apply CT_rel|]. apply (gg_peek_while_kind_acc CT CT_ok). intros a. apply (H a).
  - eapply specR_spec; [apply CX_rel|]. apply (gg_peek_while_kind_acc CX CX_ok). intros a. apply (H a).
Qed.

(* P: an extra condition on the view that is inherited by suffixes (a length bound, for the nested families) *)
Definition rl_suffix_closed (P : list rg_token -> Prop) : Prop := forall pre ts, P (pre ++ ts) -> P ts.

Lemma rl_loop_kind_acc {Acc} (P : list rg_token -> Prop) k (run : Acc -> PM Acc) q :
  rl_suffix_closed P ->
  k <> TkEof -> (forall acc, rl_sim (fun ts => P ts /\ rg_starts (rg_is k) ts) (run acc) q) -> rg_progress q ->
  forall fuel acc s acc' s', p_peek_while_kind_acc fuel k run acc s = POk (acc', s') ->
  rl_ok s -> tr_ok (ps_rec s) -> P (rl_sigs s) -> forall n, (length (rl_sigs s) <= n)%nat ->
  rl_sound (rg_many_f n (rg_is k) q) s s' /\ rl_complete (rg_many_f n (rg_is k) q) s s'.
Proof.
  intros HP Hne Hrun Hprog. induction fuel as [|f IH]; intros acc s acc' s' E Hok Ht Hps n Hn; [discriminate|].
  destruct Hok as [Hinv Ha]. destruct (rl_inv_cur _ Hinv) as (t & Hc & Hi & _).
  cbn [p_peek_while_kind_acc] in E. unfold p_bind at 1 in E. rewrite (peek_some t s Hc) in E.
  pose proof (rl_peek_is_view _ _ _ Hinv Hc Hne) as Hview.
  destruct (tkind_eqb (tok_kind t) k) eqn:Hk; cbn [negb] in E.
  - (* one more item *)
    unfold p_bind at 1 in E. unfold p_get at 1 in E. cbv beta iota in E.
    apply bind_ok in E as (a1 & s1 & E1 & E). apply bind_ok in E as (? & s2 & Ed & E).
    apply rl_debug_assert_run in Ed. subst s2.
    destruct (Hrun acc) as [Hg1 Hr1]. symmetry in Hview.
    assert (Hst : rg_starts (rg_is k) (rl_sigs s)) by (apply rl_starts_head; exact Hview).
    destruct (Hr1 s a1 s1 E1 (conj Hinv Ha) Ht (conj Hps Hst)) as [Hs1 Hcm1].
    destruct (rl_gen_run _ _ _ _ Hg1 E1 Ht) as (Ht1 & Hc1 & Hl1 & Hx1).
    pose proof (rl_gen_peek_while_kind_acc f k run (fun a => proj1 (Hrun a)) a1) as Hg2.
    destruct (rl_gen_run _ _ _ _ Hg2 E Ht1) as (Ht2 & Hc2 & Hl2 & Hx2).
    destruct (rl_sigs s) as [|t0 ts] eqn:Es; [discriminate|]. cbn [rl_head_is] in Hview.
    unfold rl_sound, rl_complete in Hs1, Hcm1 |- *. rewrite Es in Hs1, Hcm1 |- *.
    split.
    + intros He. destruct (rl_ext_split _ _ _ Hx1 Hx2 He) as [He1 He2].
      destruct (Hs1 He1) as (Hok1 & [pre1 Hpre1] & Hq1).
      pose proof (Hprog _ _ Hq1) as Hlt. destruct n as [|n]; [cbn [length] in Hn, Hlt; lia|].
      assert (Hn1 : (length (rl_sigs s1) <= n)%nat) by (cbn [length] in Hn, Hlt; lia).
      assert (Hps1 : P (rl_sigs s1)) by (apply (HP pre1); rewrite <- Hpre1; exact Hps).
      destruct (IH a1 s1 acc' s' E Hok1 Ht1 Hps1 n Hn1) as [Hs2 _].
      destruct (Hs2 He2) as (Hok2 & [pre2 Hpre2] & Hq2).
      split; [exact Hok2|split].
      * exists (pre1 ++ pre2). rewrite Hpre1, Hpre2. apply app_assoc.
      * cbn [rg_many_f]. rewrite Hview, Hq1. exact Hq2.
    + intros Hr r Hq. destruct n as [|n]; cbn [rg_many_f] in Hq; rewrite Hview in Hq; [discriminate|].
      unfold rg_bind in Hq. destruct (q (t0 :: ts)) as [r1| |] eqn:Eq1; try discriminate.
      destruct (Hcm1 Hr r1 eq_refl) as [He1 Hr1'].
      destruct (Hs1 He1) as (Hok1 & [pre1 Hpre1] & Hq1).
      pose proof (Hprog _ _ Eq1) as Hlt.
      assert (Hn1 : (length (rl_sigs s1) <= n)%nat) by (rewrite Hr1'; cbn in Hn, Hlt; lia).
      assert (Hps1 : P (rl_sigs s1)) by (apply (HP pre1); rewrite <- Hpre1; exact Hps).
      destruct (IH a1 s1 acc' s' E Hok1 Ht1 Hps1 n Hn1) as [_ Hcm2].
      assert (Hroom1 : rl_roomy s1) by (eapply rl_roomy_step; eauto; rewrite Es; exact Hpre1).
      rewrite <- Hr1' in Hq. destruct (Hcm2 Hroom1 r Hq) as [He2 Hr2]. split; [congruence|exact Hr2].
  - (* exit *)
    unfold p_ret in E. injection E as _ <-. symmetry in Hview.
    pose proof (rg_many_f_stop n (rg_is k) q _ (rl_head_nh _ _ Hview)) as Hstop. split.
    + intros _. split; [split; assumption|]. split; [exists []; reflexivity|exact Hstop].
    + intros _ r Hq. rewrite Hstop in Hq. injection Hq as <-. auto.
Qed.

(* with explicit list fuel n (the nested families of the recogniser share one fuel) *)
Lemma rl_sim_many_kind_f (P : list rg_token -> Prop) k (run : PM unit) q fuel n :
  rl_suffix_closed P ->
  k <> TkEof -> rl_sim (fun ts => P ts /\ rg_starts (rg_is k) ts) run q -> rg_progress q ->
  rl_sim (fun ts => P ts /\ (length ts <= n)%nat) (p_peek_while_kind fuel k run) (rg_many_f n (rg_is k) q).
Proof.
  intros HP Hne Hrun Hprog. split.
  - unfold p_peek_while_kind. apply rl_gen_peek_while_kind_acc. intros _. apply Hrun.
  - intros s a s' E Hok Ht [Hp Hn]. unfold p_peek_while_kind in E.
    eapply (rl_loop_kind_acc P k (fun _ : unit => run) q HP Hne (fun _ => Hrun) Hprog); eauto.
Qed.

Lemma rl_suffix_closed_any : rl_suffix_closed rl_any.
Proof. intros pre ts _. exact I. Qed.

Lemma rl_sim_many_kind k (run : PM unit) q fuel :
  k <> TkEof -> rl_sim (rg_starts (rg_is k)) run q -> rg_progress q ->
  rl_sim rl_any (p_peek_while_kind fuel k run) (rg_many (rg_is k) q).
Proof.
  intros Hne Hrun Hprog. split.
  - unfold p_peek_while_kind. apply rl_gen_peek_while_kind_acc. intros _. apply Hrun.
  - intros s a s' E Hok Ht _. unfold p_peek_while_kind in E. unfold rg_many.
    assert (Hrun' : forall _ : unit, rl_sim (fun ts => rl_any ts /\ rg_starts (rg_is k) ts) run q).
    { intros _. eapply rl_sim_weaken; [|exact Hrun]. intros ts [_ H]. exact H. }
    eapply (rl_loop_kind_acc rl_any k (fun _ : unit => run) q rl_suffix_closed_any Hne Hrun' Hprog); eauto. exact I.
Qed.

(* ------------------------------------------------------------------ peek_while over a set of kinds: X* *)
Lemma rl_peek_while_acc_unroll {Acc} f (run : Acc -> tkind -> PM (Acc * bool)) acc s t a s' :
  ps_cur s = Some t -> p_peek_while_acc (S f) run acc s = POk (a, s') ->
  exists acc1 cont s1, run acc (tok_kind t) s = POk ((acc1, cont), s1) /\
    (if cont then p_peek_while_acc f run acc1 s1 = POk (a, s') else a = acc1 /\ s' = s1).
Proof.
  intros Hc E. cbn [p_peek_while_acc] in E. unfold p_bind at 1 in E. rewrite (peek_some t s Hc) in E.
  unfold p_bind at 1 in E. unfold p_get at 1 in E. cbv beta iota in E.
  apply bind_ok in E as ([acc1 cont] & s1 & E1 & E). exists acc1, cont, s1. split; [exact E1|].
  destruct cont.
  - apply bind_ok in E as (? & s2 & Ed & E). apply rl_debug_assert_run in Ed. subst s2. exact E.
  - unfold p_ret in E. injection E as <- <-. auto.
Qed.

Lemma rl_gen_peek_while fuel (run : tkind -> PM bool) : (forall k, rl_gen (run k)) -> rl_gen (p_peek_while fuel run).
Proof.
  intros H. split.
  - eapply specR_spec; [apply CT_rel|]. apply (gg_peek_while CT CT_ok). intros k. apply (H k).
  - eapply specR_spec; [apply CX_rel|]. apply (gg_peek_while CX CX_ok). intros k. apply (H k).
Qed.

(* run k = (X ;; true) for the kinds of `sel`, (false) for the others *)
Lemma rl_sim_many_sel (sel : tkind -> bool) f (run : tkind -> PM bool) (X : PM unit) q fuel :
  sel TkEof = false -> (forall t, f t = sel (fst t)) ->
  (forall k, sel k = true -> run k = (X ;; p_ret true)) -> (forall k, sel k = false -> run k = p_ret false) ->
  rl_sim (rg_starts f) X q -> rg_progress q ->
  rl_sim rl_any (p_peek_while fuel run) (rg_many f q).
Proof.
  intros Heof Hf Hyes Hno HX Hprog.
  assert (Hgrun : forall k, rl_gen (run k)).
  { intros k. destruct (sel k) eqn:Ek; [rewrite (Hyes k Ek)|rewrite (Hno k Ek)].
    - apply rl_gen_bind; [apply HX|intros; apply rl_gen_ret].
    - apply rl_gen_ret. }
  split; [apply rl_gen_peek_while; exact Hgrun|].
  assert (Hloop : forall fu (u : unit) s (u0 : unit) s0,
            p_peek_while_acc fu (fun (_ : unit) k => c <- run k ;; p_ret (tt, c)) u s = POk (u0, s0) ->
            rl_ok s -> tr_ok (ps_rec s) -> forall n, (length (rl_sigs s) <= n)%nat ->
            rl_sound (rg_many_f n f q) s s0 /\ rl_complete (rg_many_f n f q) s s0).
  2:{ intros s a s' E Hok Ht _. unfold p_peek_while in E. apply bind_ok in E as (u & s0 & E & Er).
      unfold p_ret in Er. injection Er as _ <-. unfold rg_many. eapply Hloop; eauto. }
  induction fu as [|fu IH]; intros u s u0 s0 E Hok Ht n Hn; [discriminate|].
  destruct Hok as [Hinv Ha]. destruct (rl_inv_cur _ Hinv) as (t & Hc & Hi & _).
  destruct (rl_peek_while_acc_unroll _ _ _ _ _ _ _ Hc E) as ([] & cont & s1 & E1 & E2).
  assert (Hview : sel (tok_kind t) = rl_head_is f (rl_sigs s)).
  { destruct (tkind_eqb (tok_kind t) TkEof) eqn:He.
    - apply tkind_eqb_eq in He. rewrite (rl_sigs_eof _ _ Hinv Hc He), He. cbn. exact Heof.
    - assert (Hk' : tok_kind t <> TkEof) by (intros H; apply tkind_eqb_eq in H; congruence).
      destruct (rl_sigs_tok _ _ Hinv Hc Hk') as (-> & _). cbn. rewrite Hf. reflexivity. }
  destruct (sel (tok_kind t)) eqn:Ek.
  - rewrite (Hyes _ Ek) in E1. apply bind_ok in E1 as (c & s2 & E1 & E3).
    apply bind_ok in E1 as (? & s3 & E1 & E4). unfold p_ret in E3, E4. injection E4 as Hc4 Hs4. injection E3 as Hc3 Hs3. subst s3. subst s2. subst c. subst cont.
    destruct HX as [Hg1 Hr1]. symmetry in Hview.
    assert (Hst : rg_starts f (rl_sigs s)) by (apply rl_starts_head; exact Hview).
    destruct (Hr1 s _ s1 E1 (conj Hinv Ha) Ht Hst) as [Hs1 Hcm1].
    destruct (rl_gen_run _ _ _ _ Hg1 E1 Ht) as (Ht1 & Hc1 & Hl1 & Hx1).
    assert (Hg2 : rl_gen (p_peek_while_acc fu (fun (_ : unit) k => c <- run k ;; p_ret (tt, c)) tt)).
    { split.
      - eapply specR_spec; [apply CT_rel|]. apply (gg_peek_while_acc CT CT_ok). intros a0 k0.
        eapply post_bind; [apply CT_rel|apply (Hgrun k0)|intros; apply post_ret_same; apply CT_rel].
      - eapply specR_spec; [apply CX_rel|]. apply (gg_peek_while_acc CX CX_ok). intros a0 k0.
        eapply post_bind; [apply CX_rel|apply (Hgrun k0)|intros; apply post_ret_same; apply CX_rel]. }
    destruct (rl_gen_run _ _ _ _ Hg2 E2 Ht1) as (Ht2 & Hc2 & Hl2 & Hx2).
    destruct (rl_sigs s) as [|t0 ts] eqn:Es; [discriminate|]. cbn [rl_head_is] in Hview.
    unfold rl_sound, rl_complete in Hs1, Hcm1 |- *. rewrite Es in Hs1, Hcm1 |- *.
    split.
    + intros He. destruct (rl_ext_split _ _ _ Hx1 Hx2 He) as [He1 He2].
      destruct (Hs1 He1) as (Hok1 & [pre1 Hpre1] & Hq1).
      pose proof (Hprog _ _ Hq1) as Hlt. destruct n as [|n]; [cbn [length] in Hn, Hlt; lia|].
      assert (Hn1 : (length (rl_sigs s1) <= n)%nat) by (cbn [length] in Hn, Hlt; lia).
      destruct (IH _ s1 _ s0 E2 Hok1 Ht1 n Hn1) as [Hs2 _].
      destruct (Hs2 He2) as (Hok2 & [pre2 Hpre2] & Hq2).
      split; [exact Hok2|split].
      * exists (pre1 ++ pre2). rewrite Hpre1, Hpre2. apply app_assoc.
      * cbn [rg_many_f]. rewrite Hview, Hq1. exact Hq2.
    + intros Hr r Hq. destruct n as [|n]; cbn [rg_many_f] in Hq; rewrite Hview in Hq; [discriminate|].
      unfold rg_bind in Hq. destruct (q (t0 :: ts)) as [r1| |] eqn:Eq1; try discriminate.
      destruct (Hcm1 Hr r1 eq_refl) as [He1 Hr1'].
      destruct (Hs1 He1) as (Hok1 & [pre1 Hpre1] & Hq1).
      pose proof (Hprog _ _ Eq1) as Hlt.
      assert (Hn1 : (length (rl_sigs s1) <= n)%nat) by (rewrite Hr1'; cbn in Hn, Hlt; lia).
      destruct (IH _ s1 _ s0 E2 Hok1 Ht1 n Hn1) as [_ Hcm2].
      assert (Hroom1 : rl_roomy s1) by (eapply rl_roomy_step; eauto; rewrite Es; exact Hpre1).
      rewrite <- Hr1' in Hq. destruct (Hcm2 Hroom1 r Hq) as [He2 Hr2]. split; [congruence|exact Hr2].
  - rewrite (Hno _ Ek) in E1. unfold p_ret in E1. injection E1 as <- <-. destruct E2 as [_ ->].
    symmetry in Hview. pose proof (rg_many_f_stop n f q _ (rl_head_nh _ _ Hview)) as Hstop. split.
    + intros _. split; [split; assumption|]. split; [exists []; reflexivity|exact Hstop].
    + intros _ r Hq. rewrite Hstop in Hq. injection Hq as <-. auto.
Qed.

(* ------------------------------------------------------------------ parse_separated_list *)
Lemma rl_sim_separated fuel sep sepk (run : PM unit) q :
  sep <> TkEof -> rl_sim rl_any run q -> rg_nolonger q ->
  rl_sim rl_any (p_parse_separated_list fuel sep sepk run)
    (rg_seq (rg_opt (rg_is sep) (rg_sat (rg_is sep)))
       (rg_seq q (rg_many (rg_is sep) (rg_seq (rg_sat (rg_is sep)) q)))).
Proof.
  intros Hne Hrun Hnl. unfold p_parse_separated_list.
  apply (rl_sim_fext rl_any
           (g_if_peek sep (p_bump sepk) ;; (run ;; p_peek_while_kind fuel sep (p_bump sepk ;; run)))).
  { intros s. unfold g_if_peek, g_peek_is, p_bind, p_ret. destruct (p_peek s) as [[o s1]| |]; reflexivity. }
  apply rl_sim_bind; [apply rl_sim_if_peek; [exact Hne|apply rl_sim_bump]|intros _].
  apply rl_sim_bind; [exact Hrun|intros _].
  apply rl_sim_many_kind; [exact Hne| |].
  - apply rl_sim_bind; [apply rl_sim_bump|intros _; exact Hrun].
  - apply rg_progress_seq_l; [apply rg_progress_sat|exact Hnl].
Qed.
