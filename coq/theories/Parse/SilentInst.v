(* C04: no error is reported after the first limit error (token limit or recursion limit), as an instance of
   the generic traversal.  Invariant on (accept_errors, errors):
     accept_errors = true  -> no limit error has been recorded;
     accept_errors = false -> the most recent error is a limit error and it is the only one. *)
From ApolloVerif Require Import Base.Chars Lex.Item Parse.Outcome Parse.Builder Parse.Limits Parse.Monad
  Parse.Keywords Parse.Grammar Parse.Generic Parse.Atoms Parse.Entry.

Definition is_limit_err (e : perror) : bool := match pe_class e with PcLimit => true | PcSyntax => false end.
Definition no_limit (l : list perror) : Prop := Forall (fun e => is_limit_err e = false) l.

(* `errs` is the REVERSED list (most recent first) *)
Definition errs_ok (accept : bool) (errs : list perror) : Prop :=
  if accept then no_limit errs
  else exists e r, errs = e :: r /\ is_limit_err e = true /\ no_limit r.

Definition CS : pcfg :=
  {| cInv := fun s => errs_ok (ps_accept s) (ps_errors s); cWeak := fun s => errs_ok (ps_accept s) (ps_errors s);
     cRel := fun _ _ => True; cPanicOk := True; cFuelOk := True |}.

Lemma CS_rel : prel_ok CS.
Proof. constructor; cbn; auto. Qed.

Lemma errs_frame {A} (m : PM A) :
  (forall s a s', m s = POk (a, s') -> ps_accept s' = ps_accept s /\ ps_errors s' = ps_errors s) -> spec CS m.
Proof.
  intros Hm. apply post_partial; [exact I|exact I|]. cbn. intros s Hs a s' E. destruct (Hm _ _ _ E) as [-> ->]. auto.
Qed.
Lemma errs_step {A} (m : PM A) :
  (forall s a s', m s = POk (a, s') -> errs_ok (ps_accept s) (ps_errors s) -> errs_ok (ps_accept s') (ps_errors s')) ->
  spec CS m.
Proof. intros Hm. apply post_partial; [exact I|exact I|]. cbn. intros s Hs a s' E. split; eauto. Qed.

Lemma lexer_error_effect_fields c d i s :
  ps_accept (p_lexer_error_effect c d i s) = match c with ELimit => false | ELex => ps_accept s end /\
  ps_errors (p_lexer_error_effect c d i s) =
    if ps_accept s
    then {| pe_class := match c with ELimit => PcLimit | ELex => PcSyntax end; pe_index := i |} :: ps_errors s
    else ps_errors s.
Proof.
  unfold p_lexer_error_effect. destruct d; cbn; destruct (ps_accept s) eqn:Ha; destruct c; cbn; rewrite ?Ha; auto.
Qed.

Lemma lexer_error_effect_errs c d i s :
  errs_ok (ps_accept s) (ps_errors s) ->
  errs_ok (ps_accept (p_lexer_error_effect c d i s)) (ps_errors (p_lexer_error_effect c d i s)).
Proof.
  destruct (lexer_error_effect_fields c d i s) as [-> ->]. unfold errs_ok.
  destruct (ps_accept s); destruct c; intros H; auto.
  - constructor; [reflexivity|exact H].
  - eexists; eexists; split; [reflexivity|split; [reflexivity|exact H]].
Qed.

Lemma count_pull_errs s : ps_accept (p_count_pull s) = ps_accept s /\ ps_errors (p_count_pull s) = ps_errors s.
Proof. split; reflexivity. Qed.

Lemma next_token_loop_errs items : forall s o s',
  p_next_token_loop items s = (o, s') ->
  errs_ok (ps_accept s) (ps_errors s) -> errs_ok (ps_accept s') (ps_errors s').
Proof.
  induction items as [|[k d i|c d i] r IH]; intros s o s'; cbn [p_next_token_loop].
  - intros [= <- <-]. auto.
  - intros [= <- <-]. auto.
  - intros E H. eapply IH; eauto. apply lexer_error_effect_errs. exact H.
Qed.

Lemma skip_loop_errs items : forall s,
  errs_ok (ps_accept s) (ps_errors s) ->
  errs_ok (ps_accept (p_skip_loop items s)) (ps_errors (p_skip_loop items s)).
Proof.
  induction items as [|[k d i|c d i] r IH]; intros s H; cbn [p_skip_loop]; auto.
  - destruct (p_is_ignored_kind k); [apply IH|]; exact H.
  - apply IH. apply lexer_error_effect_errs. exact H.
Qed.

Lemma peek_token_errs s o s' :
  p_peek_token s = POk (o, s') -> errs_ok (ps_accept s) (ps_errors s) -> errs_ok (ps_accept s') (ps_errors s').
Proof.
  unfold p_peek_token. destruct (ps_cur s).
  - intros [= <- <-]. auto.
  - destruct (p_next_token_loop _ _) as [o1 s1] eqn:E. intros [= <- <-]. cbn. eapply next_token_loop_errs; eauto.
Qed.

Lemma CS_atoms : patoms_ok CS.
Proof.
  constructor.
  - exact CS_rel.
  - cbn. auto.
  - apply errs_step. apply peek_token_errs.
  - apply errs_step. intros s a s'. unfold p_pop. destruct (ps_cur s).
    + intros [= <- <-]. auto.
    + destruct (p_next_token_loop _ _) as [[t|] s1] eqn:E; [|discriminate]. intros [= <- <-].
      eapply next_token_loop_errs; eauto.
  - apply errs_step. intros s a s'. unfold p_skip_ignored. destruct (ps_cur s) as [t|].
    + destruct (p_is_ignored_kind _); intros [= <- <-]; auto. intros H. apply skip_loop_errs. exact H.
    + intros [= <- <-]. apply skip_loop_errs.
  - apply errs_frame. intros s a s'. unfold p_push_ignored. destruct (p_push_pending_list _ _); try discriminate.
    intros [= <- <-]. auto.
  - intros k t. apply errs_frame. intros s a s'. unfold p_push_token, p_modify. intros [= <- <-]. auto.
  - intros t. apply errs_step. intros s a s'. unfold p_push_err, p_modify. intros [= <- <-].
    unfold errs_ok. destruct (ps_accept s) eqn:Ha; cbn; rewrite Ha; auto.
    intros H. constructor; [reflexivity|exact H].
  - apply errs_step. intros s a s' E H. unfold p_limit_err in E.
    apply bind_ok in E as (o & s1 & E1 & E). apply peek_token_errs in E1; [|exact H].
    destruct o as [t|].
    + apply bind_ok in E as (u & s2 & E2 & E). unfold p_push_err, p_modify in *.
      injection E2 as _ <-. injection E as _ <-. unfold errs_ok in *.
      destruct (ps_accept s1) eqn:Ha; cbn; [|exact E1].
      eexists; eexists; split; [reflexivity|split; [reflexivity|exact E1]].
    + unfold p_ret in E. injection E as _ <-. exact E1.
  - intros k. apply errs_frame. intros s a s'. unfold p_start_raw, p_modify. intros [= <- <-]. auto.
  - apply errs_frame. intros s a s'. unfold p_finish_node, p_lift_b. destruct (pb_finish_node _); try discriminate.
    intros [= <- <-]. auto.
  - intros cp k. apply errs_frame. intros s a s'. unfold p_wrap_node, p_lift_b.
    destruct (pb_start_node_at _ _ _); try discriminate. intros [= <- <-]. auto.
  - intros A B l body k Hl Hb Hk. unfold p_rec_guard.
    eapply post_bind; [apply CS_rel| |intros [|]]; [|exact Hl|].
    + apply errs_frame. intros s a s'. unfold p_rec_check_and_increment.
      destruct (ptracker_check_and_increment _) as [[b t]| |]; try discriminate. intros [= <- <-]. auto.
    + eapply post_bind; [apply CS_rel|exact Hb|intros x].
      eapply post_bind; [apply CS_rel| |intros; apply Hk].
      apply errs_frame. intros s a s'. unfold p_rec_decrement.
      destruct (ptracker_decrement _); try discriminate. intros [= <- <-]. auto.
  - intros t. apply errs_frame. intros s a s'. unfold p_ghost_dropped, p_modify. intros [= <- <-]. auto.
  - intros A w. apply errs_frame. intros s a s'. discriminate.
  - apply errs_frame. intros s a s'. unfold g_assert_recursion_balanced. destruct (_ =? _); try discriminate.
    intros [= <- <-]. auto.
  - intros b. apply errs_frame. intros s a s'. unfold p_debug_assert_advanced. destruct (_ && _); try discriminate.
    intros [= <- <-]. auto.
Qed.

Definition CS_ok : pcfg_ok CS := atoms_cfg_ok CS CS_atoms I.

Lemma type_entry_CS fuel : specR CS (g_type_entry fuel).
Proof.
  unfold g_type_entry. apply (ok_node _ CS_ok).
  eapply post_bind; [apply CS_rel|apply gg_ty; exact CS_ok|intros; apply gg_trailing; exact CS_ok].
Qed.

(* in source order: nothing follows the first limit error *)
Lemma errs_ok_silent accept errs pre e post_ :
  errs_ok accept errs -> rev errs = pre ++ e :: post_ -> is_limit_err e = true -> no_limit pre -> post_ = [].
Proof.
  unfold errs_ok. intros H Hr He Hpre. destruct accept.
  - exfalso. assert (Hin : In e (rev errs)) by (rewrite Hr; apply in_or_app; right; left; reflexivity).
    apply in_rev in Hin. unfold no_limit in H. rewrite Forall_forall in H. rewrite (H e Hin) in He. discriminate.
  - destruct H as (e0 & r & -> & He0 & Hr0). cbn [rev] in Hr.
    destruct post_ as [|x l] using rev_ind; [reflexivity|]. exfalso. clear IHl.
    rewrite app_comm_cons, app_assoc in Hr. apply app_inj_tail in Hr as [Hr _].
    assert (Hin : In e (rev r)) by (rewrite Hr; apply in_or_app; right; left; reflexivity).
    apply in_rev in Hin. unfold no_limit in Hr0. rewrite Forall_forall in Hr0. rewrite (Hr0 e Hin) in He. discriminate.
Qed.

Theorem silent_run (g : nat -> PM unit) :
  (forall fuel, specR CS (g fuel)) ->
  forall fuel dbg rl items r pre e post_,
    p_run_with fuel g dbg rl items = POk r ->
    pr_errors r = pre ++ e :: post_ -> is_limit_err e = true -> no_limit pre -> post_ = [].
Proof.
  intros Hg fuel dbg rl items r pre e post_. unfold p_run_with, p_finish.
  destruct (g fuel (p_init_state dbg rl items)) as [[u s]| |] eqn:E; try discriminate.
  destruct (pb_finish _); try discriminate. intros [= <-]. cbn [pr_errors].
  assert (H0 : errs_ok (ps_accept (p_init_state dbg rl items)) (ps_errors (p_init_state dbg rl items))).
  { cbn. constructor. }
  destruct (post_returns _ _ _ _ (Hg fuel) _ H0 _ _ E) as [Hok _]. cbn in Hok.
  eapply errs_ok_silent; eauto.
Qed.

Lemma document_CS fuel : specR CS (g_document fuel).
Proof. apply gg_document; [exact CS_ok|apply (a_assert _ CS_atoms)]. Qed.
