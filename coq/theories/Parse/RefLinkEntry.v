(* C07 link — the two standalone entries (Parser::parse_type, Parser::parse_selection_set) from the initial state,
   against the reference: no error  <->  the significant tokens are exactly one Type / one field set.
   Proofs only. *)
From Coq Require Import PeanoNat.
From ApolloVerif Require Import Base.Chars Lex.Item Lex.Fun Parse.Outcome Parse.Builder Parse.Limits Parse.Monad
  Parse.Keywords Parse.Grammar Parse.Generic Parse.Atoms Parse.Entry Parse.LosslessDefs Parse.Lossless
  Parse.TrackerInst Parse.SilentInst Parse.EntryEnd Parse.Terminates Parse.RefGrammar Parse.RefLib Parse.RefLenient
  Parse.RefLenientProofs Parse.RefLinkBase Parse.RefLinkLoops Parse.RefLinkType Parse.RefLinkValue Parse.RefLinkExec
  Parse.RefLinkSel.

(* ------------------------------------------------------------------ the first start_node of a run *)
Lemma rl_start_node_init k dbg rl items u s1 :
  rl_stream items -> p_start_node k (p_init_state dbg rl items) = POk (u, s1) ->
  rl_ok s1 /\ rl_sigs s1 = rl_sig items /\ ps_errors s1 = [] /\ ps_rec s1 = ptracker_new rl.
Proof.
  intros Hstr E. unfold p_start_node in E. apply bind_ok in E as (? & s2 & E2 & E).
  apply rl_push_ignored_obs in E2. destruct E2 as (Hc2 & Hi2 & He2 & Ha2 & Hr2).
  apply bind_ok in E as (? & s3 & E3 & E). unfold p_modify in E3. injection E3 as _ <-.
  assert (Hsemi : rl_semi (ps_set_builder (pb_start_node k (ps_builder s2)) s2)).
  { unfold rl_semi, rest_of. cbn. rewrite Hc2, Hi2. cbn. auto. }
  destruct (rl_skip_semi _ _ _ Hsemi E) as (Hinv1 & Hsig1 & He1 & Ha1 & Hr1).
  cbn in He1, Ha1, Hr1. split; [split; [exact Hinv1|rewrite Ha1, Ha2; reflexivity]|].
  split; [|split; [rewrite He1, He2; reflexivity|rewrite Hr1, Hr2; reflexivity]].
  rewrite Hsig1. unfold rl_sigs, rest_of. cbn. rewrite Hc2, Hi2. reflexivity.
Qed.

(* ------------------------------------------------------------------ trailing_tokens_are_errors *)
Lemma rl_gen_trailing_loop f : rl_gen (p_trailing_loop f).
Proof.
  split; [eapply specR_spec; [apply CT_rel|]; apply (gg_trailing_loop CT CT_ok)
         |eapply specR_spec; [apply CX_rel|]; apply (gg_trailing_loop CX CX_ok)].
Qed.
Lemma rl_gen_trailing f : rl_gen (p_trailing_tokens_are_errors f).
Proof.
  split; [eapply specR_spec; [apply CT_rel|]; apply (gg_trailing CT CT_ok)
         |eapply specR_spec; [apply CX_rel|]; apply (gg_trailing CX CX_ok)].
Qed.

Lemma rl_trailing_run fuel s u s' : rl_ok s -> p_trailing_tokens_are_errors fuel s = POk (u, s') ->
  (rl_sigs s = [] -> ps_errors s' = ps_errors s) /\ (ps_errors s' = ps_errors s -> rl_sigs s = []).
Proof.
  intros Hok E. pose proof Hok as [Hinv Ha]. unfold p_trailing_tokens_are_errors in E.
  apply bind_ok in E as (? & s1 & E1 & E). rewrite (rl_skip_ignored_pos _ (proj1 Hinv)) in E1. injection E1 as _ <-.
  apply bind_ok in E as (? & s2 & E2 & E). apply rl_push_ignored_obs in E. destruct E as (_ & _ & He & _).
  rewrite He. clear He s'. destruct (rl_inv_cur _ Hinv) as (t & Hc & Hi & _).
  destruct fuel as [|f]; [discriminate|]. cbn [p_trailing_loop] in E2. unfold p_bind at 1 in E2.
  rewrite (peek_some t s Hc) in E2.
  assert (Hother : tok_kind t <> TkEof -> (p_err_and_pop ;; p_trailing_loop f) s = POk (x0, s2) ->
                   (rl_sigs s = [] -> ps_errors s2 = ps_errors s) /\ (ps_errors s2 = ps_errors s -> rl_sigs s = [])).
  { intros Hne E0. apply bind_ok in E0 as (? & s3 & E3 & E0).
    assert (Hd : ps_errors s2 <> ps_errors s).
    { eapply rl_dirty_then; [eapply rl_err_and_pop_run; eauto| |].
      - exact (proj2 (post_returns _ _ _ _ (proj2 rl_gen_err_and_pop) s I _ _ E3)).
      - exact (proj2 (post_returns _ _ _ _ (proj2 (rl_gen_trailing_loop f)) s3 I _ _ E0)). }
    split; [|intros He; contradiction]. intros Hs. destruct (rl_sigs_tok _ _ Hinv Hc Hne) as (Hs' & _).
    rewrite Hs in Hs'. discriminate. }
  destruct (tok_kind t) eqn:Hk; try (apply Hother; [discriminate|exact E2]).
  unfold p_ret in E2. injection E2 as _ <-. split; [reflexivity|]. intros _. exact (rl_sigs_eof _ _ Hinv Hc Hk).
Qed.

(* ------------------------------------------------------------------ Parser::parse_type *)
Theorem rl_type_entry fuel dbg rl items u s' : rl_stream items ->
  g_type_entry fuel (p_init_state dbg rl items) = POk (u, s') ->
  (ps_errors s' = [] -> rg_type (rl_sig items) = RgOk []) /\
  (rl_weight (rl_sig items) < rl -> rg_type (rl_sig items) = RgOk [] -> ps_errors s' = []).
Proof.
  intros Hstr E. unfold g_type_entry, p_node in E. apply bind_ok in E as (? & s1 & E1 & E).
  destruct (rl_start_node_init _ _ _ _ _ _ Hstr E1) as (Hok1 & Hsig1 & He1 & Hr1).
  apply bind_ok in E as (? & s4 & E & Ef). apply bind_ok in Ef as (? & s5 & Ef & Er). unfold p_ret in Er.
  injection Er as _ <-. apply rl_finish_node_obs in Ef. destruct Ef as (_ & _ & Hef & _). rewrite Hef.
  apply bind_ok in E as (? & s2 & E2 & E3).
  assert (Ht1 : tr_ok (ps_rec s1)) by (rewrite Hr1; unfold tr_ok; cbn; lia).
  destruct (proj2 (rl_sim_ty fuel) s1 _ s2 E2 Hok1 Ht1 I) as [Hs2 Hc2].
  destruct (rl_gen_run _ _ _ _ (rl_gen_ty fuel) E2 Ht1) as (Ht2 & _ & _ & Hx2).
  destruct (rl_gen_run _ _ _ _ (rl_gen_trailing fuel) E3 Ht2) as (_ & _ & _ & Hx3).
  unfold rl_sound, rl_complete in Hs2, Hc2. rewrite Hsig1, He1 in Hs2, Hc2. split.
  - intros He. assert (He' : ps_errors s4 = ps_errors s1) by congruence.
    destruct (rl_ext_split _ _ _ Hx2 Hx3 He') as [He2 He3]. rewrite He1 in He2.
    destruct (Hs2 He2) as (Hok2 & _ & Hq). destruct (rl_trailing_run _ _ _ _ Hok2 E3) as [_ Hnil].
    rewrite (Hnil He3) in Hq. exact Hq.
  - intros Hw Hq. assert (Hroom : rl_roomy s1).
    { unfold rl_roomy. rewrite Hsig1, Hr1. cbn. lia. }
    destruct (Hc2 Hroom [] Hq) as [He2 Hnil]. destruct (Hs2 He2) as (Hok2 & _ & _).
    destruct (rl_trailing_run _ _ _ _ Hok2 E3) as [Hclean _]. rewrite (Hclean Hnil). exact He2.
Qed.

(* ------------------------------------------------------------------ Parser::parse_selection_set *)
Lemma rgl_field_set_braced d r :
  rgl_field_set LP ((TkLCurly, d) :: r) = rg_seq (rgl_selections_f LP (S (length r))) (rg_sat (rg_is TkRCurly)) r.
Proof. reflexivity. Qed.
Lemma rgl_field_set_bare ts : rl_head_is (rg_is TkLCurly) ts = false ->
  rgl_field_set LP ts = rgl_selections_f LP (S (length ts)) ts.
Proof.
  intros H. unfold rgl_field_set, rgl_selections. destruct ts as [|[k d] r]; [reflexivity|].
  destruct k; try reflexivity. discriminate H.
Qed.

Theorem rl_field_set_entry fuel dbg rl items u s' : rl_stream items ->
  g_field_set fuel (p_init_state dbg rl items) = POk (u, s') ->
  (ps_errors s' = [] -> rgl_field_set LP (rl_sig items) = RgOk []) /\
  (rl_weight (rl_sig items) + 1 < rl -> rgl_field_set LP (rl_sig items) = RgOk [] -> ps_errors s' = []).
Proof.
  intros Hstr E. unfold g_field_set, p_node in E. apply bind_ok in E as (? & s1 & E1 & E).
  destruct (rl_start_node_init _ _ _ _ _ _ Hstr E1) as (Hok1 & Hsig1 & He1 & Hr1).
  apply bind_ok in E as (? & s9 & E & Ef). apply bind_ok in Ef as (? & s10 & Ef & Er). unfold p_ret in Er.
  injection Er as _ <-. apply rl_finish_node_obs in Ef. destruct Ef as (_ & _ & Hef & _). rewrite Hef. clear Hef.
  assert (Ht1 : tr_ok (ps_rec s1)) by (rewrite Hr1; unfold tr_ok; cbn; lia).
  pose proof Hok1 as [Hinv1 Ha1]. destruct (rl_inv_cur _ Hinv1) as (t & Hc1 & Hi1 & _).
  unfold p_bind at 1 in E. rewrite (peek_is_some TkLCurly t s1 Hc1) in E.
  rewrite (rl_peek_is_view _ _ _ Hinv1 Hc1) in E by discriminate.
  rewrite <- Hsig1. set (ts := rl_sigs s1) in *.
  (* the state after the optional `{`, and what the braces contribute *)
  apply bind_ok in E as (? & s2 & E2 & E).
  set (braces := rl_head_is (rg_is TkLCurly) ts) in *.
  assert (H2 : rl_ok s2 /\ tr_ok (ps_rec s2) /\ ps_errors s2 = [] /\ ps_rec s2 = ptracker_new rl /\
               ts = (if braces then [(TkLCurly, tok_data t)] else []) ++ rl_sigs s2).
  { destruct braces eqn:Hb; cbn [p_when] in E2.
    - assert (Hne : tok_kind t <> TkEof).
      { intros Hk. unfold braces, ts in Hb. rewrite (rl_sigs_eof _ _ Hinv1 Hc1 Hk) in Hb. discriminate. }
      destruct (rl_bump_run _ _ _ _ _ Hinv1 Hc1 Hne E2) as (Hinv2 & Hsig2 & He2 & Ha2 & Hr2).
      assert (Hk : tok_kind t = TkLCurly).
      { unfold braces, ts in Hb. rewrite Hsig2 in Hb. cbn in Hb. destruct (tok_kind t); try discriminate; reflexivity. }
      rewrite Hk in Hsig2. split; [split; [exact Hinv2|congruence]|]. split; [congruence|]. split; [congruence|].
      split; [congruence|exact Hsig2].
    - unfold p_ret in E2. injection E2 as _ <-. split; [exact Hok1|]. split; [exact Ht1|]. split; [exact He1|].
      split; [exact Hr1|reflexivity]. }
  destruct H2 as (Hok2 & Ht2 & He2 & Hr2 & Hts).
  set (m := length (rl_sigs s2)).
  assert (Hq : rgl_field_set LP ts =
               if braces then rg_seq (rgl_selections_f LP (S m)) (rg_sat (rg_is TkRCurly)) (rl_sigs s2)
               else rgl_selections_f LP (S m) (rl_sigs s2)).
  { destruct braces eqn:Hb.
    - rewrite Hts. cbn [app]. apply rgl_field_set_braced.
    - rewrite Hts. cbn [app]. apply rgl_field_set_bare. unfold braces in Hb. rewrite Hts in Hb. exact Hb. }
  rewrite Hq. clear Hq.
  pose proof (rl_selection_set_all fuel m) as Hss.
  assert (Hgsel : rl_gen (g_selection fuel)) by (apply rl_gen_selection_; apply rl_gen_selection_set).
  destruct (rl_rec_guard_split _ _ _ _ _ _ E Ht2) as
    [(s4 & Hsbr & Ht4 & Hlt & E4)|(s4 & a & s5 & u5 & s6 & Hsbr & Ht4 & Hcur4 & Hlim4 & E5 & E6 & E7)].
  - pose proof (rl_limit_err_run _ _ _ (rl_sbr_ok _ _ Hsbr Hok2) E4) as Hd. destruct Hsbr as (_ & _ & He4 & _). split.
    + intros He. exfalso. apply Hd. congruence.
    + intros Hw _. exfalso. rewrite Hr2 in Hlt. cbn in Hlt. lia.
  - pose proof (rl_sbr_ok _ _ Hsbr Hok2) as Hok4. pose proof (rl_sbr_sigs _ _ Hsbr) as Hsig4.
    assert (Hlen4 : rl_len_le m (rl_sigs s4)) by (rewrite Hsig4; unfold rl_len_le, m; lia).
    destruct (proj2 (rl_sim_selection (g_selection_set fuel) m fuel Hss) s4 a s5 E5 Hok4 Ht4 Hlen4) as [Hs5 Hc5].
    destruct (rl_gen_run _ _ _ _ Hgsel E5 Ht4) as (Ht5 & Hcur5 & Hlim5 & Hx5).
    destruct (rl_rec_decrement_run _ _ _ E6) as (Hsbr6 & Hcur6 & Hlim6).
    pose proof (rl_sbr_sigs _ _ Hsbr6) as Hsig6.
    pose proof Hsbr as (_ & _ & He4 & _). pose proof Hsbr6 as (_ & _ & He6 & _).
    assert (Ht6 : tr_ok (ps_rec s6)).
    { unfold tr_ok in *. destruct Ht5 as (A & B & C). unfold p_rec_decrement in E6.
      destruct (ptracker_decrement (ps_rec s5)) eqn:Ed; try discriminate. injection E6 as _ <-. cbn.
      destruct (decrement_spec _ _ Ed) as (D1 & D2 & D3). lia. }
    apply bind_ok in E7 as (? & s7 & E7 & E8).
    assert (Hg7 : rl_gen (p_when braces (p_expect TkRCurly SK_R_CURLY))).
    { destruct braces; cbn [p_when]; [apply rl_gen_expect|apply rl_gen_ret]. }
    destruct (rl_gen_run _ _ _ _ Hg7 E7 Ht6) as (Ht7 & _ & _ & Hx7).
    destruct (rl_gen_run _ _ _ _ (rl_gen_trailing fuel) E8 Ht7) as (_ & _ & _ & Hx8).
    unfold rl_sound, rl_complete in Hs5, Hc5. rewrite Hsig4 in Hs5, Hc5. rewrite He4 in Hs5, Hc5.
    assert (Hx69 : rl_ext s6 s9) by (eapply rl_ext_trans; eauto).
    assert (Hx26 : rl_ext s2 s6).
    { destruct Hx5 as [n5 Hn5]. exists n5. congruence. }
    assert (Hw2 : rl_weight (rl_sigs s2) <= rl_weight ts).
    { rewrite Hts, rl_weight_app. lia. }
    split.
    + intros He. assert (He' : ps_errors s9 = ps_errors s2) by congruence.
      destruct (rl_ext_split _ _ _ Hx26 Hx69 He') as [He26 He69].
      destruct (rl_ext_split _ _ _ Hx7 Hx8 He69) as [He67 He79].
      assert (He5 : ps_errors s5 = ps_errors s2) by congruence.
      destruct (Hs5 He5) as (Hok5 & _ & Hq5). pose proof (rl_sbr_ok _ _ Hsbr6 Hok5) as Hok6.
      destruct braces; cbn [p_when] in E7.
      * destruct (proj2 (rl_sim_expect TkRCurly SK_R_CURLY ltac:(discriminate)) s6 _ s7 E7 Hok6 Ht6 I) as [Hs7 _].
        destruct (Hs7 He67) as (Hok7 & _ & Hq7). destruct (rl_trailing_run _ _ _ _ Hok7 E8) as [_ Hnil].
        unfold rg_seq. rewrite Hq5. cbn [rg_bind]. rewrite <- Hsig6, Hq7, (Hnil He79). reflexivity.
      * unfold p_ret in E7. injection E7 as _ <-. destruct (rl_trailing_run _ _ _ _ Hok6 E8) as [_ Hnil].
        rewrite Hq5, <- Hsig6, (Hnil He79). reflexivity.
    + intros Hw Hq.
      assert (Hr4 : rl_roomy s4).
      { unfold rl_roomy. rewrite Hsig4, Hcur4, Hlim4, Hr2. cbn. lia. }
      destruct braces; cbn [p_when] in E7.
      * unfold rg_seq in Hq. destruct (rgl_selections_f LP (S m) (rl_sigs s2)) as [r1| |] eqn:Eq1; try discriminate.
        cbn [rg_bind] in Hq. destruct (Hc5 Hr4 r1 eq_refl) as [He5 Hr5]. destruct (Hs5 He5) as (Hok5 & [pre5 Hpre5] & _).
        pose proof (rl_sbr_ok _ _ Hsbr6 Hok5) as Hok6.
        destruct (proj2 (rl_sim_expect TkRCurly SK_R_CURLY ltac:(discriminate)) s6 _ s7 E7 Hok6 Ht6 I) as [Hs7 Hc7].
        assert (Hr6 : rl_roomy s6).
        { unfold rl_roomy. rewrite Hsig6. rewrite Hpre5, rl_weight_app in Hw2.
          assert (ptr_current (ps_rec s6) = 0) by (rewrite Hr2 in Hcur4; cbn in Hcur4; lia).
          assert (ptr_limit (ps_rec s6) = rl) by (rewrite Hr2 in Hlim4; cbn in Hlim4; lia). lia. }
        rewrite <- Hr5, <- Hsig6 in Hq. destruct (Hc7 Hr6 [] Hq) as [He7 Hnil].
        destruct (Hs7 He7) as (Hok7 & _ & _). destruct (rl_trailing_run _ _ _ _ Hok7 E8) as [Hclean _].
        rewrite (Hclean Hnil). congruence.
      * unfold p_ret in E7. injection E7 as _ <-.
        destruct (Hc5 Hr4 [] Hq) as [He5 Hr5]. destruct (Hs5 He5) as (Hok5 & _ & _).
        pose proof (rl_sbr_ok _ _ Hsbr6 Hok5) as Hok6. destruct (rl_trailing_run _ _ _ _ Hok6 E8) as [Hclean _].
        rewrite (Hclean ltac:(congruence)). congruence.
Qed.
