(* C01: the parser never panics (release flavour: debug_assertions off), as an instance of the generic
   traversal with cPanicOk := False.  Covered panic sites: Parser::pop on a finished lexer, push_ignored's
   unreachable!(), rowan's GreenNodeBuilder assertions (finish_node, start_node_at, finish),
   LimitTracker::decrement underflow, document's assert_eq!(recursion_limit.current, 0), and
   validate_name's name[1..] (under the hypothesis that Name tokens carry names, which the lexer guarantees). *)
From Coq Require Import PeanoNat.
From ApolloVerif Require Import Base.Chars Lex.Item Parse.Outcome Parse.Builder Parse.Limits Parse.Monad
  Parse.Keywords Parse.Grammar Parse.Generic Parse.Entry Parse.LosslessDefs Parse.Lossless.

Definition pend_ok (p : ppend) : Prop :=
  match p with PendIgnored t => p_is_ignored_kind (tok_kind t) = true | PendError _ => True end.

(* rowan: every open node's first-child index is within the children, innermost first *)
Fixpoint parents_ok (ps : list (skind * nat)) (n : nat) : Prop :=
  match ps with
  | [] => True
  | (_, fc) :: r => (fc <= n)%nat /\ parents_ok r fc
  end.
Definition bwf (b : pbuilder) : Prop := parents_ok (pb_parents b) (length (pb_children b)).
Definition names_ok (s : pstate) : Prop := Forall item_name_ok (cur_item (ps_cur s) ++ ps_items s).

Definition NPinv (s : pstate) : Prop :=
  Forall pend_ok (ps_pending s) /\ bwf (ps_builder s) /\ names_ok s /\ ps_dbg s = false.
Definition NPrel (s s' : pstate) : Prop :=
  pb_parents (ps_builder s') = pb_parents (ps_builder s) /\
  (length (pb_children (ps_builder s)) <= length (pb_children (ps_builder s')))%nat /\
  ptr_current (ps_rec s') = ptr_current (ps_rec s).

Definition CN : pcfg := {| cInv := NPinv; cWeak := NPinv; cRel := NPrel; cPanicOk := False |}.

Lemma CN_rel : prel_ok CN.
Proof.
  constructor; cbn; auto.
  - intros s. unfold NPrel. auto.
  - intros a b c (H1 & H2 & H3) (H4 & H5 & H6). unfold NPrel. repeat split; try congruence. lia.
Qed.

Lemma parents_ok_mono ps n m : parents_ok ps n -> (n <= m)%nat -> parents_ok ps m.
Proof. destruct ps as [|[k fc] r]; cbn; auto. intros [H1 H2] H. split; [lia|auto]. Qed.

(* states that differ only in fields the invariant and relation do not read, or read trivially *)
Definition keeps (s s' : pstate) : Prop :=
  ps_builder s' = ps_builder s /\ ps_rec s' = ps_rec s /\ ps_dbg s' = ps_dbg s.
Lemma keeps_refl s : keeps s s.
Proof. unfold keeps. auto. Qed.
Lemma keeps_rel s s' : keeps s s' -> NPrel s s'.
Proof. intros (Hb & Hr & _). unfold NPrel. rewrite Hb, Hr. auto. Qed.

Lemma lexer_error_effect_keeps c d i s :
  let s' := p_lexer_error_effect c d i s in
  keeps s s' /\ ps_cur s' = ps_cur s /\ ps_items s' = ps_items s /\
  (Forall pend_ok (ps_pending s) -> Forall pend_ok (ps_pending s')).
Proof.
  unfold p_lexer_error_effect, keeps. destruct d; cbn; destruct (ps_accept s) eqn:Ha; destruct c; cbn; rewrite ?Ha;
    repeat split; auto; try (intros H; apply Forall_app; split; auto; repeat constructor).
Qed.

Lemma next_token_loop_NP items : forall s o s',
  p_next_token_loop items s = (o, s') ->
  keeps s s' /\ ps_cur s' = ps_cur s /\
  (Forall pend_ok (ps_pending s) -> Forall pend_ok (ps_pending s')) /\
  (Forall item_name_ok items -> Forall item_name_ok (cur_item o ++ ps_items s')).
Proof.
  induction items as [|[k d i|c d i] r IH]; intros s o s'; cbn [p_next_token_loop].
  - intros [= <- <-]. unfold keeps. cbn. auto.
  - intros [= <- <-]. unfold keeps. cbn. auto.
  - intros E. apply IH in E. destruct E as ((Hb & Hr & Hd) & Hc & Hp & Hn).
    destruct (lexer_error_effect_keeps c d i (p_count_pull s)) as ((Hb' & Hr' & Hd') & Hc' & _ & Hp').
    cbv zeta in *. cbn [p_count_pull ps_builder ps_rec ps_dbg ps_cur ps_pending ps_set_pulled] in *.
    split; [unfold keeps; repeat split; congruence|]. split; [congruence|]. split.
    + intros H. apply Hp, Hp'. exact H.
    + intros H. apply Hn. inversion H; auto.
Qed.

Lemma skip_loop_NP items : forall s,
  ps_cur s = None ->
  let s' := p_skip_loop items s in
  keeps s s' /\
  (Forall pend_ok (ps_pending s) -> Forall pend_ok (ps_pending s')) /\
  (Forall item_name_ok items -> Forall item_name_ok (cur_item (ps_cur s') ++ ps_items s')).
Proof.
  induction items as [|[k d i|c d i] r IH]; intros s Hc; cbn [p_skip_loop].
  - unfold keeps. cbn. rewrite Hc. auto.
  - destruct (p_is_ignored_kind k) eqn:Hk.
    + match goal with |- context [p_skip_loop r ?s0] => destruct (IH s0 Hc) as ((Hb & Hr & Hd) & Hp & Hn) end.
      cbv zeta. cbn [p_count_pull ps_builder ps_rec ps_dbg ps_cur ps_pending ps_set_pulled ps_set_pending] in *.
      split; [unfold keeps; repeat split; congruence|]. split.
      * intros H. apply Hp. apply Forall_app. split; auto.
      * intros H. apply Hn. inversion H; auto.
    + cbv zeta. unfold keeps. cbn. repeat split; auto.
  - destruct (lexer_error_effect_keeps c d i (p_count_pull s)) as ((Hb' & Hr' & Hd') & Hc' & _ & Hp').
    cbv zeta in *.
    match goal with |- context [p_skip_loop r ?s0] =>
      destruct (IH s0 (eq_trans Hc' Hc)) as ((Hb & Hr & Hd) & Hp & Hn) end.
    cbn [p_count_pull ps_builder ps_rec ps_dbg ps_cur ps_pending ps_set_pulled] in *.
    split; [unfold keeps; repeat split; congruence|]. split.
    + intros H. apply Hp, Hp'. exact H.
    + intros H. apply Hn. inversion H; auto.
Qed.

(* how to establish `post CN` *)
Lemma postN {A} (P Q : pstate -> Prop) (m : PM A) :
  (forall s, P s -> exists a s', m s = POk (a, s') /\ Q s' /\ NPrel s s') -> post CN P Q m.
Proof. intros Hm s Hs. destruct (Hm s Hs) as (a & s' & -> & HQ & HR). split; auto. Qed.

Lemma NPinv_keeps s s' :
  keeps s s' -> ps_pending s' = ps_pending s -> ps_cur s' = ps_cur s -> ps_items s' = ps_items s ->
  NPinv s -> NPinv s'.
Proof.
  intros (Hb & Hr & Hd) Hp Hc Hi (H1 & H2 & H3 & H4). unfold NPinv, names_ok. rewrite Hb, Hp, Hc, Hi, Hd. auto.
Qed.
Ltac psimpl :=
  cbn [ps_items ps_cur ps_builder ps_pending ps_errors ps_rec ps_accept ps_pulled ps_dbg ps_dropped
       ps_set_items ps_set_cur ps_set_builder ps_set_pending ps_set_errors ps_set_rec ps_set_accept
       ps_set_pulled ps_set_dropped p_count_pull] in *.

(* ---- peek_token / skip_ignored *)
Lemma peek_token_runN s :
  NPinv s ->
  exists o s', p_peek_token s = POk (o, s') /\ NPinv s' /\ NPrel s s' /\ ps_cur s' = o /\
               (o = None -> ps_items s' = []).
Proof.
  intros (Hp & Hb & Hn & Hd). unfold p_peek_token. destruct (ps_cur s) as [t|] eqn:Hc.
  - exists (Some t), s. split; [reflexivity|]. split; [repeat split; auto|].
    split; [apply (ok_refl CN CN_rel)|]. split; [exact Hc|discriminate].
  - destruct (p_next_token_loop (ps_items s) s) as [o s1] eqn:E.
    pose proof (next_token_loop_spec _ _ _ _ E) as (_ & _ & _ & _ & _ & Hnone).
    apply next_token_loop_NP in E. destruct E as ((Hb1 & Hr1 & Hd1) & Hc1 & Hp1 & Hn1).
    exists o, (ps_set_cur o s1). split; [reflexivity|]. psimpl.
    unfold names_ok in Hn. rewrite Hc in Hn. cbn [cur_item app] in Hn.
    split; [|split; [|split; [reflexivity|exact Hnone]]].
    + unfold NPinv, names_ok. psimpl. rewrite Hb1. repeat split; auto. congruence.
    + unfold NPrel. psimpl. rewrite Hb1, Hr1. auto.
Qed.

Lemma peek_token_N : spec CN p_peek_token.
Proof.
  apply postN. intros s Hs. destruct (peek_token_runN s Hs) as (o & s' & E & Hi & Hr & _). eauto.
Qed.

Lemma post_peek_token_case {A} (f : option ptoken -> PM A) (R : pstate -> Prop) :
  post CN (fun s => NPinv s /\ ps_cur s = None /\ ps_items s = []) R (f None) ->
  (forall t, post CN (fun s => NPinv s /\ ps_cur s = Some t) R (f (Some t))) ->
  post CN NPinv R (o <- p_peek_token ;; f o).
Proof.
  intros HN HS s Hs. unfold p_bind.
  destruct (peek_token_runN s Hs) as (o & s1 & -> & Hi & Hr & Hc & Hnone).
  destruct o as [t|].
  - specialize (HS t s1 (conj Hi Hc)). destruct (f (Some t) s1) as [[a s2]| |]; auto.
    destruct HS as [HR Hr2]. split; auto. eapply (ok_trans CN CN_rel); eauto.
  - specialize (HN s1 (conj Hi (conj Hc (Hnone eq_refl)))). destruct (f None s1) as [[a s2]| |]; auto.
    destruct HN as [HR Hr2]. split; auto. eapply (ok_trans CN CN_rel); eauto.
Qed.

Lemma skip_ignored_N : spec CN p_skip_ignored.
Proof.
  apply postN. intros s (Hp & Hb & Hn & Hd). unfold p_skip_ignored. cbv zeta.
  destruct (ps_cur s) as [t|] eqn:Hc.
  - destruct (p_is_ignored_kind (tok_kind t)) eqn:Hk.
    + eexists; eexists; split; [reflexivity|].
      cbn [CN cInv].
      match goal with |- NPinv (p_skip_loop ?it ?s0) /\ _ =>
        destruct (skip_loop_NP it s0 eq_refl) as ((Hb1 & Hr1 & Hd1) & Hp1 & Hn1) end.
      cbv zeta in *. psimpl. unfold names_ok in Hn. rewrite Hc in Hn. cbn [cur_item app] in Hn.
      split.
      * unfold NPinv, names_ok. rewrite Hb1. split; [|split; [exact Hb|split; [|congruence]]].
        -- apply Hp1. apply Forall_app. split; auto.
        -- apply Hn1. inversion Hn; auto.
      * unfold NPrel. rewrite Hb1, Hr1. auto.
    + exists tt, s. split; [reflexivity|]. split; [repeat split; auto|apply (ok_refl CN CN_rel)].
  - eexists; eexists; split; [reflexivity|]. cbn [CN cInv].
    destruct (skip_loop_NP (ps_items s) s Hc) as ((Hb1 & Hr1 & Hd1) & Hp1 & Hn1). cbv zeta in *.
    unfold names_ok in Hn. rewrite Hc in Hn. cbn [cur_item app] in Hn.
    split.
    + unfold NPinv, names_ok. rewrite Hb1. split; [auto|split; [exact Hb|split; [auto|congruence]]].
    + unfold NPrel. rewrite Hb1, Hr1. auto.
Qed.

(* ---- builder pushes *)
Lemma bwf_token k d b : bwf b -> bwf (pb_token k d b).
Proof. unfold bwf, pb_token. cbn. intros H. eapply parents_ok_mono; eauto. Qed.

Lemma push_pending_list_N l : forall b,
  Forall pend_ok l -> bwf b ->
  exists b', p_push_pending_list l b = POk b' /\ pb_parents b' = pb_parents b /\ bwf b' /\
             (length (pb_children b) <= length (pb_children b'))%nat.
Proof.
  induction l as [|p l IH]; intros b Hl Hb; cbn [p_push_pending_list].
  - exists b. auto.
  - inversion Hl as [|? ? Hp Hl']; subst. destruct p as [t|d].
    + cbn in Hp. destruct (tok_kind t); try discriminate;
        match goal with |- context [p_push_pending_list l ?b0] =>
          destruct (IH b0 Hl' (bwf_token _ _ _ Hb)) as (b' & E & H1 & H2 & H3) end;
        exists b'; repeat split; auto; cbn in H3; lia.
    + match goal with |- context [p_push_pending_list l ?b0] =>
          destruct (IH b0 Hl' (bwf_token _ _ _ Hb)) as (b' & E & H1 & H2 & H3) end.
      exists b'. repeat split; auto. cbn in H3. lia.
Qed.

Lemma push_ignored_runN s :
  NPinv s ->
  exists s', p_push_ignored s = POk (tt, s') /\ NPinv s' /\ NPrel s s' /\ ps_pending s' = [] /\
             ps_cur s' = ps_cur s /\ ps_items s' = ps_items s.
Proof.
  intros (Hp & Hb & Hn & Hd). unfold p_push_ignored.
  destruct (push_pending_list_N _ _ Hp Hb) as (b' & -> & H1 & H2 & H3).
  eexists. split; [reflexivity|]. psimpl. repeat split; auto. constructor.
Qed.

Lemma push_ignored_N : spec CN p_push_ignored.
Proof.
  apply postN. intros s Hs. destruct (push_ignored_runN s Hs) as (s' & E & Hi & Hr & _). eauto.
Qed.

Lemma push_token_N k t : spec CN (p_push_token k t).
Proof.
  apply postN. intros s (Hp & Hb & Hn & Hd). unfold p_push_token, p_modify.
  eexists; eexists; split; [reflexivity|]. split.
  - repeat split; auto. psimpl. apply bwf_token. exact Hb.
  - unfold NPrel. psimpl. cbn. auto.
Qed.

(* operations that leave builder, rec, dbg, pending, cur, items alone *)
Lemma frame_N {A} (m : PM A) :
  (forall s, exists a s', m s = POk (a, s') /\ keeps s s' /\ ps_pending s' = ps_pending s /\
                          ps_cur s' = ps_cur s /\ ps_items s' = ps_items s) ->
  spec CN m.
Proof.
  intros Hm. apply postN. intros s Hs. destruct (Hm s) as (a & s' & E & Hk & Hp & Hc & Hi).
  exists a, s'. split; [exact E|]. split; [eapply NPinv_keeps; eauto|apply keeps_rel; exact Hk].
Qed.

Lemma push_err_N e : spec CN (p_push_err e).
Proof.
  apply frame_N. intros s. unfold p_push_err, p_modify. eexists; eexists; split; [reflexivity|].
  destruct (ps_accept s); unfold keeps; auto 10.
Qed.
Lemma set_accept_N : spec CN (p_modify (ps_set_accept false)).
Proof. apply frame_N. intros s. unfold p_modify. eexists; eexists; split; [reflexivity|]. unfold keeps; auto 10. Qed.
Lemma ghost_N t : spec CN (p_ghost_dropped t).
Proof. apply frame_N. intros s. unfold p_ghost_dropped, p_modify. eexists; eexists; split; [reflexivity|]. unfold keeps; auto 10. Qed.

Lemma debug_assert_N b : spec CN (p_debug_assert_advanced b).
Proof.
  apply postN. intros s Hs. unfold p_debug_assert_advanced. destruct Hs as (Hp & Hb & Hn & Hd). rewrite Hd.
  cbn [andb]. exists tt, s. split; [reflexivity|]. split; [repeat split; auto|apply (ok_refl CN CN_rel)].
Qed.

(* pop with a current token *)
Lemma post_pop_case {A} t (f : ptoken -> PM A) (R : pstate -> Prop) :
  post CN NPinv R (f t) ->
  post CN (fun s => NPinv s /\ ps_cur s = Some t) R (x <- p_pop ;; f x).
Proof.
  intros Hf s [(Hp & Hb & Hn & Hd) Hc]. unfold p_bind, p_pop. rewrite Hc.
  assert (Hi : NPinv (ps_set_cur None s)).
  { repeat split; auto. unfold names_ok in *. psimpl. rewrite Hc in Hn. cbn [cur_item app] in *. inversion Hn; auto. }
  specialize (Hf _ Hi). destruct (f t (ps_set_cur None s)) as [[a s2]| |]; auto.
Qed.
Lemma ret_N {A} (P : pstate -> Prop) (a : A) : post CN P P (p_ret a).
Proof. apply post_ret_same. apply CN_rel. Qed.
Lemma ret_weaken_N {A} (P Q : pstate -> Prop) (a : A) : (forall s, P s -> Q s) -> post CN P Q (p_ret a).
Proof. apply post_ret. apply CN_rel. Qed.

Lemma current_case_N {A} (f : option ptoken -> PM A) (R : pstate -> Prop) :
  post CN (fun s => NPinv s /\ ps_cur s = None /\ ps_items s = []) R (f None) ->
  (forall t, post CN (fun s => NPinv s /\ ps_cur s = Some t) R (f (Some t))) ->
  post CN NPinv R (o <- p_current ;; f o).
Proof. apply post_peek_token_case. Qed.

Lemma eat_N k : spec CN (p_eat k).
Proof.
  unfold p_eat. eapply post_bind; [apply CN_rel|apply push_ignored_N|intros _].
  apply current_case_N.
  - apply ret_weaken_N. tauto.
  - intros t. apply post_pop_case. apply push_token_N.
Qed.

Lemma bump_N k : spec CN (p_bump k).
Proof. unfold p_bump. eapply post_bind; [apply CN_rel|apply eat_N|intros; apply skip_ignored_N]. Qed.

Lemma current_N : spec CN p_current.
Proof. apply peek_token_N. Qed.

Lemma err_N : spec CN p_err.
Proof.
  unfold p_err. eapply post_bind; [apply CN_rel|apply current_N|intros [t|]]; [apply push_err_N|apply ret_N].
Qed.
Lemma err_at_token_N t : spec CN (p_err_at_token t).
Proof. apply push_err_N. Qed.
Lemma limit_err_N : spec CN p_limit_err.
Proof.
  unfold p_limit_err. eapply post_bind; [apply CN_rel|apply current_N|intros [t|]]; [|apply ret_N].
  eapply post_bind; [apply CN_rel|apply push_err_N|intros; apply set_accept_N].
Qed.

Lemma err_and_pop_N : spec CN p_err_and_pop.
Proof.
  unfold p_err_and_pop. eapply post_bind; [apply CN_rel|apply push_ignored_N|intros _].
  apply current_case_N.
  - apply ret_weaken_N. tauto.
  - intros t. apply post_pop_case.
    eapply post_bind; [apply CN_rel|apply push_token_N|intros _].
    eapply post_bind; [apply CN_rel|apply push_err_N|intros _]. apply skip_ignored_N.
Qed.

Lemma peek_N : spec CN p_peek.
Proof. unfold p_peek. eapply post_bind; [apply CN_rel|apply peek_token_N|intros; apply ret_N]. Qed.
Lemma at_N k : spec CN (p_at k).
Proof. unfold p_at. eapply post_bind; [apply CN_rel|apply peek_N|intros; apply ret_N]. Qed.

Lemma expect_N t k : spec CN (p_expect t k).
Proof.
  unfold p_expect. eapply post_bind; [apply CN_rel|apply current_N|intros [c|]]; [|apply ret_N].
  eapply post_bind; [apply CN_rel|apply at_N|intros [|]]; [apply bump_N|apply push_err_N].
Qed.

(* ---- nodes: start_node ... finish_node *)
Lemma start_raw_run k s :
  NPinv s ->
  let s' := ps_set_builder (pb_start_node k (ps_builder s)) s in
  NPinv s' /\ pb_parents (ps_builder s') = (k, length (pb_children (ps_builder s))) :: pb_parents (ps_builder s)
  /\ pb_children (ps_builder s') = pb_children (ps_builder s).
Proof.
  intros (Hp & Hb & Hn & Hd). cbv zeta. psimpl. split; [|split; reflexivity].
  repeat split; auto; try (unfold bwf in *; cbn; split; [lia|exact Hb]).
Qed.

(* everything between start_node and finish_node keeps the parents and only adds children *)
Definition inside (k : skind) (fc : nat) (ps : list (skind * nat)) (s : pstate) : Prop :=
  NPinv s /\ pb_parents (ps_builder s) = (k, fc) :: ps /\ (fc <= length (pb_children (ps_builder s)))%nat.

Lemma finish_node_inside k fc ps s :
  inside k fc ps s ->
  exists s', p_finish_node s = POk (tt, s') /\ NPinv s' /\
             pb_parents (ps_builder s') = ps /\ length (pb_children (ps_builder s')) = S fc /\
             ps_rec s' = ps_rec s.
Proof.
  intros ((Hp & Hb & Hn & Hd) & Hpar & Hlen). unfold p_finish_node, p_lift_b, pb_finish_node. rewrite Hpar.
  destruct (Nat.ltb (length (pb_children (ps_builder s))) fc) eqn:Hlt.
  { apply Nat.ltb_lt in Hlt. lia. }
  eexists. split; [reflexivity|]. psimpl. cbn [pb_parents pb_children].
  assert (Hl : length (skipn (length (pb_children (ps_builder s)) - fc) (pb_children (ps_builder s))) = fc).
  { rewrite skipn_length. lia. }
  repeat split; auto.
  - unfold bwf in *. psimpl. cbn [pb_parents pb_children length]. rewrite Hl. rewrite Hpar in Hb. cbn in Hb.
    destruct Hb as [_ Hb]. eapply parents_ok_mono; eauto.
  - cbn [length]. now rewrite Hl.
Qed.

Lemma node_N A k (body : PM A) : spec CN body -> spec CN (p_node k body).
Proof.
  intros Hbody s Hs. unfold p_node, p_bind at 1, p_start_node, p_bind at 1.
  destruct (push_ignored_runN s Hs) as (s1 & -> & Hi1 & Hr1 & _).
  unfold p_bind at 1, p_modify at 1.
  destruct (start_raw_run k s1 Hi1) as (Hi2 & Hpar2 & Hch2). cbv zeta in *.
  set (s2 := ps_set_builder _ s1) in *.
  pose proof (skip_ignored_N s2 Hi2) as Hsk.
  destruct (p_skip_ignored s2) as [[u3 s3]| |]; [|exact Hsk|exact I]. destruct Hsk as [Hi3 Hr3].
  unfold p_bind at 1.
  pose proof (Hbody s3 Hi3) as Hb.
  destruct (body s3) as [[r s4]| |]; [|exact Hb|exact I]. destruct Hb as [Hi4 Hr4].
  assert (Hin : inside k (length (pb_children (ps_builder s1))) (pb_parents (ps_builder s1)) s4).
  { destruct Hr3 as (Hp3 & Hl3 & _). destruct Hr4 as (Hp4 & Hl4 & _).
    split; [exact Hi4|]. split; [congruence|]. rewrite Hch2 in Hl3. lia. }
  unfold p_bind at 1.
  destruct (finish_node_inside _ _ _ _ Hin) as (s5 & -> & Hi5 & Hp5 & Hl5 & Hrec5).
  cbn [p_ret]. split; [exact Hi5|].
  destruct Hr1 as (Hp1 & Hl1 & Hc1). destruct Hr3 as (Hp3 & Hl3 & Hc3). destruct Hr4 as (Hp4 & Hl4 & Hc4).
  unfold NPrel. repeat split.
  - congruence.
  - lia.
  - rewrite Hrec5, Hc4, Hc3. exact Hc1.
Qed.

(* ---- recursion guard *)
Lemma rec_check_run s :
  NPinv s ->
  exists b t, p_rec_check_and_increment s = POk (b, ps_set_rec t s) /\
              (b = true -> ptr_current t = ptr_current (ps_rec s)) /\
              (b = false -> ptr_current t = ptr_current (ps_rec s) + 1).
Proof.
  intros _. unfold p_rec_check_and_increment, ptracker_check_and_increment, ptracker_decrement.
  cbn [ptr_current ptr_limit ptr_high].
  destruct (ptr_limit (ps_rec s) <? ptr_current (ps_rec s) + 1) eqn:Hr.
  - destruct (ptr_current (ps_rec s) + 1 =? 0) eqn:Hz; [lia|].
    eexists; eexists; split; [reflexivity|]. cbn. split; [intros _; lia|discriminate].
  - eexists; eexists; split; [reflexivity|]. cbn. split; [discriminate|auto].
Qed.

Lemma set_rec_inv t s : NPinv s -> NPinv (ps_set_rec t s).
Proof. intros (Hp & Hb & Hn & Hd). repeat split; auto. Qed.

Lemma rec_guard_N A B (l : PM B) (body : PM A) (k : A -> PM B) :
  spec CN l -> spec CN body -> (forall x, spec CN (k x)) -> spec CN (p_rec_guard l body k).
Proof.
  intros Hl Hb Hk s Hs. unfold p_rec_guard, p_bind at 1.
  destruct (rec_check_run s Hs) as (b & t & -> & Ht & Hf).
  pose proof (set_rec_inv t s Hs) as Hi1.
  destruct b.
  - specialize (Hl _ Hi1). destruct (l (ps_set_rec t s)) as [[r s2]| |]; auto.
    destruct Hl as [Hi2 (Hp2 & Hl2 & Hc2)]. split; [exact Hi2|]. unfold NPrel. psimpl.
    repeat split; auto. rewrite Hc2. auto.
  - unfold p_bind at 1. specialize (Hb _ Hi1). destruct (body (ps_set_rec t s)) as [[x s2]| |]; auto.
    destruct Hb as [Hi2 (Hp2 & Hl2 & Hc2)]. psimpl.
    unfold p_bind at 1, p_rec_decrement, ptracker_decrement.
    rewrite Hc2, (Hf eq_refl).
    destruct (ptr_current (ps_rec s) + 1 =? 0) eqn:Hz; [lia|].
    set (t3 := Build_ptracker _ _ _).
    pose proof (set_rec_inv t3 s2 Hi2) as Hi3.
    specialize (Hk x _ Hi3). destruct (k x (ps_set_rec t3 s2)) as [[r s4]| |]; auto.
    destruct Hk as [Hi4 (Hp4 & Hl4 & Hc4)]. psimpl. split; [exact Hi4|]. unfold NPrel.
    repeat split; try congruence; try lia.
    rewrite Hc4. unfold t3. cbn [ptr_current ps_rec ps_set_rec]. lia.
Qed.
