(* C01: the parser never panics (release flavour: debug_assertions off), as an instance of the generic
   traversal with cPanicOk := False.  Covered panic sites: Parser::pop on a finished lexer, push_ignored's
   unreachable!(), rowan's GreenNodeBuilder assertions (finish_node, start_node_at, finish),
   LimitTracker::decrement underflow, document's assert_eq!(recursion_limit.current, 0), and
   validate_name's name[1..] (under the hypothesis that Name tokens carry names, which the lexer guarantees). *)
From Coq Require Import PeanoNat.
From ApolloVerif Require Import Base.Chars Lex.Item Parse.Outcome Parse.Builder Parse.Limits Parse.Monad
  Parse.Keywords Parse.Grammar Parse.Generic Parse.Entry Parse.LosslessDefs Parse.Lossless.

Definition pend_ok (p : ppend) : Prop :=
  match p with PendIgnored t => p_is_ignored_kind (tok_kind t) = true | PendError _ => True end.

(* rowan: every open node's first-child index is within the children, innermost first *)
Fixpoint parents_ok (ps : list (skind * nat)) (n : nat) : Prop :=
  match ps with
  | [] => True
  | (_, fc) :: r => (fc <= n)%nat /\ parents_ok r fc
  end.
Definition bwf (b : pbuilder) : Prop := parents_ok (pb_parents b) (length (pb_children b)).
Definition names_ok (s : pstate) : Prop := Forall item_name_ok (cur_item (ps_cur s) ++ ps_items s).

Definition NPinv (s : pstate) : Prop :=
  Forall pend_ok (ps_pending s) /\ bwf (ps_builder s) /\ names_ok s /\ ps_dbg s = false.
Definition NPrel (s s' : pstate) : Prop :=
  pb_parents (ps_builder s') = pb_parents (ps_builder s) /\
  ptr_current (ps_rec s') = ptr_current (ps_rec s).

Definition CN : pcfg := {| cInv := NPinv; cWeak := NPinv; cRel := NPrel; cPanicOk := False; cFuelOk := True |}.

Lemma CN_rel : prel_ok CN.
Proof.
  constructor; cbn; auto.
  - intros s. unfold NPrel. auto.
  - intros a b c (H1 & H3) (H4 & H6). unfold NPrel. split; congruence.
Qed.

Lemma parents_ok_mono ps n m : parents_ok ps n -> (n <= m)%nat -> parents_ok ps m.
Proof. destruct ps as [|[k fc] r]; cbn; auto. intros [H1 H2] H. split; [lia|auto]. Qed.

(* states that differ only in fields the invariant and relation do not read, or read trivially *)
Definition keeps (s s' : pstate) : Prop :=
  ps_builder s' = ps_builder s /\ ps_rec s' = ps_rec s /\ ps_dbg s' = ps_dbg s.
Lemma keeps_refl s : keeps s s.
Proof. unfold keeps. auto. Qed.
Lemma keeps_rel s s' : keeps s s' -> NPrel s s'.
Proof. intros (Hb & Hr & _). unfold NPrel. rewrite Hb, Hr. auto. Qed.

Lemma lexer_error_effect_keeps c d i s :
  let s' := p_lexer_error_effect c d i s in
  keeps s s' /\ ps_cur s' = ps_cur s /\ ps_items s' = ps_items s /\
  (Forall pend_ok (ps_pending s) -> Forall pend_ok (ps_pending s')).
Proof.
  unfold p_lexer_error_effect, keeps. destruct d; cbn; destruct (ps_accept s) eqn:Ha; destruct c; cbn; rewrite ?Ha;
    repeat split; auto; try (intros H; apply Forall_app; split; auto; repeat constructor).
Qed.

Lemma next_token_loop_NP items : forall s o s',
  p_next_token_loop items s = (o, s') ->
  keeps s s' /\ ps_cur s' = ps_cur s /\
  (Forall pend_ok (ps_pending s) -> Forall pend_ok (ps_pending s')) /\
  (Forall item_name_ok items -> Forall item_name_ok (cur_item o ++ ps_items s')).
Proof.
  induction items as [|[k d i|c d i] r IH]; intros s o s'; cbn [p_next_token_loop].
  - intros [= <- <-]. unfold keeps. cbn. auto.
  - intros [= <- <-]. unfold keeps. cbn. auto.
  - intros E. apply IH in E. destruct E as ((Hb & Hr & Hd) & Hc & Hp & Hn).
    destruct (lexer_error_effect_keeps c d i (p_count_pull s)) as ((Hb' & Hr' & Hd') & Hc' & _ & Hp').
    cbv zeta in *. cbn [p_count_pull ps_builder ps_rec ps_dbg ps_cur ps_pending ps_set_pulled] in *.
    split; [unfold keeps; repeat split; congruence|]. split; [congruence|]. split.
    + intros H. apply Hp, Hp'. exact H.
    + intros H. apply Hn. inversion H; auto.
Qed.

Lemma skip_loop_NP items : forall s,
  ps_cur s = None ->
  let s' := p_skip_loop items s in
  keeps s s' /\
  (Forall pend_ok (ps_pending s) -> Forall pend_ok (ps_pending s')) /\
  (Forall item_name_ok items -> Forall item_name_ok (cur_item (ps_cur s') ++ ps_items s')).
Proof.
  induction items as [|[k d i|c d i] r IH]; intros s Hc; cbn [p_skip_loop].
  - unfold keeps. cbn. rewrite Hc. auto.
  - destruct (p_is_ignored_kind k) eqn:Hk.
    + match goal with |- context [p_skip_loop r ?s0] => destruct (IH s0 Hc) as ((Hb & Hr & Hd) & Hp & Hn) end.
      cbv zeta. cbn [p_count_pull ps_builder ps_rec ps_dbg ps_cur ps_pending ps_set_pulled ps_set_pending] in *.
      split; [unfold keeps; repeat split; congruence|]. split.
      * intros H. apply Hp. apply Forall_app. split; auto.
      * intros H. apply Hn. inversion H; auto.
    + cbv zeta. unfold keeps. cbn. repeat split; auto.
  - destruct (lexer_error_effect_keeps c d i (p_count_pull s)) as ((Hb' & Hr' & Hd') & Hc' & _ & Hp').
    cbv zeta in *.
    match goal with |- context [p_skip_loop r ?s0] =>
      destruct (IH s0 (eq_trans Hc' Hc)) as ((Hb & Hr & Hd) & Hp & Hn) end.
    cbn [p_count_pull ps_builder ps_rec ps_dbg ps_cur ps_pending ps_set_pulled] in *.
    split; [unfold keeps; repeat split; congruence|]. split.
    + intros H. apply Hp, Hp'. exact H.
    + intros H. apply Hn. inversion H; auto.
Qed.

(* how to establish `post CN` *)
Lemma postN {A} (P Q : pstate -> Prop) (m : PM A) :
  (forall s, P s -> exists a s', m s = POk (a, s') /\ Q s' /\ NPrel s s') -> post CN P Q m.
Proof. intros Hm s Hs. destruct (Hm s Hs) as (a & s' & -> & HQ & HR). split; auto. Qed.

Lemma NPinv_keeps s s' :
  keeps s s' -> ps_pending s' = ps_pending s -> ps_cur s' = ps_cur s -> ps_items s' = ps_items s ->
  NPinv s -> NPinv s'.
Proof.
  intros (Hb & Hr & Hd) Hp Hc Hi (H1 & H2 & H3 & H4). unfold NPinv, names_ok. rewrite Hb, Hp, Hc, Hi, Hd. auto.
Qed.
Ltac psimpl :=
  cbn [ps_items ps_cur ps_builder ps_pending ps_errors ps_rec ps_accept ps_pulled ps_dbg ps_dropped
       ps_set_items ps_set_cur ps_set_builder ps_set_pending ps_set_errors ps_set_rec ps_set_accept
       ps_set_pulled ps_set_dropped p_count_pull] in *.

(* ---- peek_token / skip_ignored *)
Lemma peek_token_runN s :
  NPinv s ->
  exists o s', p_peek_token s = POk (o, s') /\ NPinv s' /\ NPrel s s' /\ ps_cur s' = o /\
               (o = None -> ps_items s' = []).
Proof.
  intros (Hp & Hb & Hn & Hd). unfold p_peek_token. destruct (ps_cur s) as [t|] eqn:Hc.
  - exists (Some t), s. split; [reflexivity|]. split; [repeat split; auto|].
    split; [apply (ok_refl CN CN_rel)|]. split; [exact Hc|discriminate].
  - destruct (p_next_token_loop (ps_items s) s) as [o s1] eqn:E.
    pose proof (next_token_loop_spec _ _ _ _ E) as (_ & _ & _ & _ & _ & Hnone).
    apply next_token_loop_NP in E. destruct E as ((Hb1 & Hr1 & Hd1) & Hc1 & Hp1 & Hn1).
    exists o, (ps_set_cur o s1). split; [reflexivity|]. psimpl.
    unfold names_ok in Hn. rewrite Hc in Hn. cbn [cur_item app] in Hn.
    split; [|split; [|split; [reflexivity|exact Hnone]]].
    + unfold NPinv, names_ok. psimpl. rewrite Hb1. repeat split; auto. congruence.
    + unfold NPrel. psimpl. rewrite Hb1, Hr1. auto.
Qed.

Lemma peek_token_N : spec CN p_peek_token.
Proof.
  apply postN. intros s Hs. destruct (peek_token_runN s Hs) as (o & s' & E & Hi & Hr & _). eauto.
Qed.

Lemma post_peek_token_case {A} (f : option prstoken -> PM A) (R : pstate -> Prop) :
  post CN (fun s => NPinv s /\ ps_cur s = None /\ ps_items s = []) R (f None) ->
  (forall t, post CN (fun s => NPinv s /\ ps_cur s = Some t) R (f (Some t))) ->
  post CN NPinv R (o <- p_peek_token ;; f o).
Proof.
  intros HN HS s Hs. unfold p_bind.
  destruct (peek_token_runN s Hs) as (o & s1 & -> & Hi & Hr & Hc & Hnone).
  destruct o as [t|].
  - specialize (HS t s1 (conj Hi Hc)). destruct (f (Some t) s1) as [[a s2]| |]; auto.
    destruct HS as [HR Hr2]. split; auto. eapply (ok_trans CN CN_rel); eauto.
  - specialize (HN s1 (conj Hi (conj Hc (Hnone eq_refl)))). destruct (f None s1) as [[a s2]| |]; auto.
    destruct HN as [HR Hr2]. split; auto. eapply (ok_trans CN CN_rel); eauto.
Qed.

Lemma skip_ignored_N : spec CN p_skip_ignored.
Proof.
  apply postN. intros s (Hp & Hb & Hn & Hd). unfold p_skip_ignored. cbv zeta.
  destruct (ps_cur s) as [t|] eqn:Hc.
  - destruct (p_is_ignored_kind (tok_kind t)) eqn:Hk.
    + eexists; eexists; split; [reflexivity|].
      cbn [CN cInv].
      match goal with |- NPinv (p_skip_loop ?it ?s0) /\ _ =>
        destruct (skip_loop_NP it s0 eq_refl) as ((Hb1 & Hr1 & Hd1) & Hp1 & Hn1) end.
      cbv zeta in *. psimpl. unfold names_ok in Hn. rewrite Hc in Hn. cbn [cur_item app] in Hn.
      split.
      * unfold NPinv, names_ok. rewrite Hb1. split; [|split; [exact Hb|split; [|congruence]]].
        -- apply Hp1. apply Forall_app. split; auto.
        -- apply Hn1. inversion Hn; auto.
      * unfold NPrel. rewrite Hb1, Hr1. auto.
    + exists tt, s. split; [reflexivity|]. split; [repeat split; auto|apply (ok_refl CN CN_rel)].
  - eexists; eexists; split; [reflexivity|]. cbn [CN cInv].
    destruct (skip_loop_NP (ps_items s) s Hc) as ((Hb1 & Hr1 & Hd1) & Hp1 & Hn1). cbv zeta in *.
    unfold names_ok in Hn. rewrite Hc in Hn. cbn [cur_item app] in Hn.
    split.
    + unfold NPinv, names_ok. rewrite Hb1. split; [auto|split; [exact Hb|split; [auto|congruence]]].
    + unfold NPrel. rewrite Hb1, Hr1. auto.
Qed.

(* ---- builder pushes *)
Lemma bwf_token k d b : bwf b -> bwf (pb_token k d b).
Proof. unfold bwf, pb_token. cbn. intros H. eapply parents_ok_mono; eauto. Qed.

Lemma push_pending_list_N l : forall b,
  Forall pend_ok l -> bwf b ->
  exists b', p_push_pending_list l b = POk b' /\ pb_parents b' = pb_parents b /\ bwf b' /\
             (length (pb_children b) <= length (pb_children b'))%nat.
Proof.
  induction l as [|p l IH]; intros b Hl Hb; cbn [p_push_pending_list].
  - exists b. auto.
  - inversion Hl as [|? ? Hp Hl']; subst. destruct p as [t|d].
    + cbn in Hp. destruct (tok_kind t); try discriminate;
        match goal with |- context [p_push_pending_list l ?b0] =>
          destruct (IH b0 Hl' (bwf_token _ _ _ Hb)) as (b' & E & H1 & H2 & H3) end;
        exists b'; repeat split; auto; cbn in H3; lia.
    + match goal with |- context [p_push_pending_list l ?b0] =>
          destruct (IH b0 Hl' (bwf_token _ _ _ Hb)) as (b' & E & H1 & H2 & H3) end.
      exists b'. repeat split; auto. cbn in H3. lia.
Qed.

Lemma push_ignored_runN s :
  NPinv s ->
  exists s', p_push_ignored s = POk (tt, s') /\ NPinv s' /\ NPrel s s' /\ ps_pending s' = [] /\
             ps_cur s' = ps_cur s /\ ps_items s' = ps_items s /\
             (length (pb_children (ps_builder s)) <= length (pb_children (ps_builder s')))%nat.
Proof.
  intros (Hp & Hb & Hn & Hd). unfold p_push_ignored.
  destruct (push_pending_list_N _ _ Hp Hb) as (b' & -> & H1 & H2 & H3).
  eexists. split; [reflexivity|]. psimpl. repeat split; auto. constructor.
Qed.

Lemma push_ignored_N : spec CN p_push_ignored.
Proof.
  apply postN. intros s Hs. destruct (push_ignored_runN s Hs) as (s' & E & Hi & Hr & _). eauto.
Qed.

Lemma push_token_N k t : spec CN (p_push_token k t).
Proof.
  apply postN. intros s (Hp & Hb & Hn & Hd). unfold p_push_token, p_modify.
  eexists; eexists; split; [reflexivity|]. split.
  - repeat split; auto. psimpl. apply bwf_token. exact Hb.
  - unfold NPrel. psimpl. cbn. auto.
Qed.

(* operations that leave builder, rec, dbg, pending, cur, items alone *)
Lemma frame_N {A} (m : PM A) :
  (forall s, exists a s', m s = POk (a, s') /\ keeps s s' /\ ps_pending s' = ps_pending s /\
                          ps_cur s' = ps_cur s /\ ps_items s' = ps_items s) ->
  spec CN m.
Proof.
  intros Hm. apply postN. intros s Hs. destruct (Hm s) as (a & s' & E & Hk & Hp & Hc & Hi).
  exists a, s'. split; [exact E|]. split; [eapply NPinv_keeps; eauto|apply keeps_rel; exact Hk].
Qed.

Lemma push_err_N e : spec CN (p_push_err e).
Proof.
  apply frame_N. intros s. unfold p_push_err, p_modify. eexists; eexists; split; [reflexivity|].
  destruct (ps_accept s); unfold keeps; auto 10.
Qed.
Lemma set_accept_N : spec CN (p_modify (ps_set_accept false)).
Proof. apply frame_N. intros s. unfold p_modify. eexists; eexists; split; [reflexivity|]. unfold keeps; auto 10. Qed.
Lemma ghost_N t : spec CN (p_ghost_dropped t).
Proof. apply frame_N. intros s. unfold p_ghost_dropped, p_modify. eexists; eexists; split; [reflexivity|]. unfold keeps; auto 10. Qed.

Lemma debug_assert_N b : spec CN (p_debug_assert_advanced b).
Proof.
  apply postN. intros s Hs. unfold p_debug_assert_advanced. destruct Hs as (Hp & Hb & Hn & Hd). rewrite Hd.
  cbn [andb]. exists tt, s. split; [reflexivity|]. split; [repeat split; auto|apply (ok_refl CN CN_rel)].
Qed.

(* pop with a current token *)
Lemma post_pop_case {A} t (f : prstoken -> PM A) (R : pstate -> Prop) :
  post CN NPinv R (f t) ->
  post CN (fun s => NPinv s /\ ps_cur s = Some t) R (x <- p_pop ;; f x).
Proof.
  intros Hf s [(Hp & Hb & Hn & Hd) Hc]. unfold p_bind, p_pop. rewrite Hc.
  assert (Hi : NPinv (ps_set_cur None s)).
  { repeat split; auto. unfold names_ok in *. psimpl. rewrite Hc in Hn. cbn [cur_item app] in *. inversion Hn; auto. }
  specialize (Hf _ Hi). destruct (f t (ps_set_cur None s)) as [[a s2]| |]; auto.
Qed.
Lemma ret_N {A} (P : pstate -> Prop) (a : A) : post CN P P (p_ret a).
Proof. apply post_ret_same. apply CN_rel. Qed.
Lemma ret_weaken_N {A} (P Q : pstate -> Prop) (a : A) : (forall s, P s -> Q s) -> post CN P Q (p_ret a).
Proof. apply post_ret. apply CN_rel. Qed.

Lemma current_case_N {A} (f : option prstoken -> PM A) (R : pstate -> Prop) :
  post CN (fun s => NPinv s /\ ps_cur s = None /\ ps_items s = []) R (f None) ->
  (forall t, post CN (fun s => NPinv s /\ ps_cur s = Some t) R (f (Some t))) ->
  post CN NPinv R (o <- p_current ;; f o).
Proof. apply post_peek_token_case. Qed.

Lemma eat_N k : spec CN (p_eat k).
Proof.
  unfold p_eat. eapply post_bind; [apply CN_rel|apply push_ignored_N|intros _].
  apply current_case_N.
  - apply ret_weaken_N. tauto.
  - intros t. apply post_pop_case. apply push_token_N.
Qed.

Lemma bump_N k : spec CN (p_bump k).
Proof. unfold p_bump. eapply post_bind; [apply CN_rel|apply eat_N|intros; apply skip_ignored_N]. Qed.

Lemma current_N : spec CN p_current.
Proof. apply peek_token_N. Qed.

Lemma err_N : spec CN p_err.
Proof.
  unfold p_err. eapply post_bind; [apply CN_rel|apply current_N|intros [t|]]; [apply push_err_N|apply ret_N].
Qed.
Lemma err_at_token_N t : spec CN (p_err_at_token t).
Proof. apply push_err_N. Qed.
Lemma limit_err_N : spec CN p_limit_err.
Proof.
  unfold p_limit_err. eapply post_bind; [apply CN_rel|apply current_N|intros [t|]]; [|apply ret_N].
  eapply post_bind; [apply CN_rel|apply push_err_N|intros; apply set_accept_N].
Qed.

Lemma err_and_pop_N : spec CN p_err_and_pop.
Proof.
  unfold p_err_and_pop. eapply post_bind; [apply CN_rel|apply push_ignored_N|intros _].
  apply current_case_N.
  - apply ret_weaken_N. tauto.
  - intros t. apply post_pop_case.
    eapply post_bind; [apply CN_rel|apply push_token_N|intros _].
    eapply post_bind; [apply CN_rel|apply push_err_N|intros _]. apply skip_ignored_N.
Qed.

Lemma peek_N : spec CN p_peek.
Proof. unfold p_peek. eapply post_bind; [apply CN_rel|apply peek_token_N|intros; apply ret_N]. Qed.
Lemma at_N k : spec CN (p_at k).
Proof. unfold p_at. eapply post_bind; [apply CN_rel|apply peek_N|intros; apply ret_N]. Qed.

Lemma expect_N t k : spec CN (p_expect t k).
Proof.
  unfold p_expect. eapply post_bind; [apply CN_rel|apply current_N|intros [c|]]; [|apply ret_N].
  eapply post_bind; [apply CN_rel|apply at_N|intros [|]]; [apply bump_N|apply push_err_N].
Qed.

(* ---- nodes: start_node ... finish_node *)
Lemma start_raw_run k s :
  NPinv s ->
  let s' := ps_set_builder (pb_start_node k (ps_builder s)) s in
  NPinv s' /\ pb_parents (ps_builder s') = (k, length (pb_children (ps_builder s))) :: pb_parents (ps_builder s)
  /\ pb_children (ps_builder s') = pb_children (ps_builder s).
Proof.
  intros (Hp & Hb & Hn & Hd). cbv zeta. psimpl. split; [|split; reflexivity].
  repeat split; auto; try (unfold bwf in *; cbn; split; [lia|exact Hb]).
Qed.

(* everything between start_node and finish_node keeps the parents and only adds children *)
Definition inside (k : skind) (fc : nat) (ps : list (skind * nat)) (s : pstate) : Prop :=
  NPinv s /\ pb_parents (ps_builder s) = (k, fc) :: ps /\ (fc <= length (pb_children (ps_builder s)))%nat.

Lemma finish_node_inside k fc ps s :
  inside k fc ps s ->
  exists s', p_finish_node s = POk (tt, s') /\ NPinv s' /\
             pb_parents (ps_builder s') = ps /\ length (pb_children (ps_builder s')) = S fc /\
             ps_rec s' = ps_rec s /\
             (exists c rest, pb_children (ps_builder s') = PNode k c :: rest /\ length rest = fc).
Proof.
  intros ((Hp & Hb & Hn & Hd) & Hpar & Hlen). unfold p_finish_node, p_lift_b, pb_finish_node. rewrite Hpar.
  destruct (Nat.ltb (length (pb_children (ps_builder s))) fc) eqn:Hlt.
  { apply Nat.ltb_lt in Hlt. lia. }
  eexists. split; [reflexivity|]. psimpl. cbn [pb_parents pb_children].
  assert (Hl : length (skipn (length (pb_children (ps_builder s)) - fc) (pb_children (ps_builder s))) = fc).
  { rewrite skipn_length. lia. }
  split; [|split; [reflexivity|split; [cbn [length]; now rewrite Hl|split; [reflexivity|eauto]]]].
  repeat split; auto.
  unfold bwf in *. psimpl. cbn [pb_parents pb_children length]. rewrite Hl. rewrite Hpar in Hb. cbn in Hb.
  destruct Hb as [_ Hb]. eapply parents_ok_mono; eauto.
Qed.

Lemma node_len_J_N A k (body : PM A) (J : pstate -> Prop) :
  (forall s s', ptr_current (ps_rec s') = ptr_current (ps_rec s) -> J s -> J s') ->
  post CN (fun s => NPinv s /\ J s) NPinv body ->
  forall s, NPinv s -> J s ->
    match p_node k body s with
    | POk (_, s') => NPinv s' /\ NPrel s s' /\
                     (length (pb_children (ps_builder s)) <= length (pb_children (ps_builder s')))%nat /\
                     (ps_pending s = [] -> exists c rest, pb_children (ps_builder s') = PNode k c :: rest /\
                                                         length rest = length (pb_children (ps_builder s)))
    | PPanic _ => False
    | POutOfFuel => True
    end.
Proof.
  intros HJ Hbody s Hs Hj. unfold p_node, p_bind at 1, p_start_node, p_bind at 1.
  assert (Hnil : ps_pending s = [] -> forall s1, p_push_ignored s = POk (tt, s1) -> ps_builder s1 = ps_builder s).
  { intros Hp s1. unfold p_push_ignored. rewrite Hp. cbn. intros [= <-]. reflexivity. }
  destruct (push_ignored_runN s Hs) as (s1 & E1 & Hi1 & Hr1 & _ & _ & _ & Hlen1). rewrite E1.
  unfold p_bind at 1, p_modify at 1.
  destruct (start_raw_run k s1 Hi1) as (Hi2 & Hpar2 & Hch2). cbv zeta in *.
  set (s2 := ps_set_builder _ s1) in *.
  pose proof (skip_ignored_N s2 Hi2) as Hsk.
  destruct (p_skip_ignored s2) as [[u3 s3]| |]; [|exact Hsk|exact I]. destruct Hsk as [Hi3 Hr3].
  unfold p_bind at 1.
  assert (Hj3 : J s3).
  { eapply HJ; [|exact Hj]. destruct Hr3 as (_ & Hc3). destruct Hr1 as (_ & Hc1). rewrite Hc3. exact Hc1. }
  pose proof (Hbody s3 (conj Hi3 Hj3)) as Hb.
  destruct (body s3) as [[r s4]| |]; [|exact Hb|exact I]. destruct Hb as [Hi4 Hr4].
  assert (Hin : inside k (length (pb_children (ps_builder s1))) (pb_parents (ps_builder s1)) s4).
  { destruct Hr3 as (Hp3 & _). destruct Hr4 as (Hp4 & _).
    assert (Hpar4 : pb_parents (ps_builder s4) = (k, length (pb_children (ps_builder s1))) :: pb_parents (ps_builder s1))
      by congruence.
    split; [exact Hi4|]. split; [exact Hpar4|].
    destruct Hi4 as (_ & Hb4 & _). unfold bwf in Hb4. rewrite Hpar4 in Hb4. cbn in Hb4. tauto. }
  unfold p_bind at 1.
  destruct (finish_node_inside _ _ _ _ Hin) as (s5 & -> & Hi5 & Hp5 & Hl5 & Hrec5 & Hshape5).
  cbn [p_ret]. split; [exact Hi5|].
  destruct Hr1 as (Hp1 & Hc1). destruct Hr3 as (Hp3 & Hc3). destruct Hr4 as (Hp4 & Hc4).
  split; [|split; [lia|]].
  - unfold NPrel. split; [congruence|]. rewrite Hrec5, Hc4, Hc3. exact Hc1.
  - intros Hp. destruct Hshape5 as (c & rest & Hch & Hlr). exists c, rest. split; [exact Hch|].
    rewrite Hlr, (Hnil Hp s1 E1). reflexivity.
Qed.

Lemma node_len_N A k (body : PM A) :
  spec CN body ->
  forall s, NPinv s ->
    match p_node k body s with
    | POk (_, s') => NPinv s' /\ NPrel s s' /\
                     (length (pb_children (ps_builder s)) <= length (pb_children (ps_builder s')))%nat
    | PPanic _ => False
    | POutOfFuel => True
    end.
Proof.
  intros Hbody s Hs.
  assert (H : post CN (fun s => NPinv s /\ True) NPinv body) by (eapply post_weaken; [| |exact Hbody]; cbn; tauto).
  pose proof (node_len_J_N A k body (fun _ => True) (fun _ _ _ _ => I) H s Hs I) as Hn.
  destruct (p_node k body s) as [[a s']| |]; auto. tauto.
Qed.

Lemma node_N A k (body : PM A) : spec CN body -> spec CN (p_node k body).
Proof.
  intros Hbody s Hs. pose proof (node_len_N A k body Hbody s Hs) as H.
  destruct (p_node k body s) as [[a s']| |]; auto. tauto.
Qed.

(* ---- recursion guard *)
Lemma rec_check_run s :
  NPinv s ->
  exists b t, p_rec_check_and_increment s = POk (b, ps_set_rec t s) /\
              (b = true -> ptr_current t = ptr_current (ps_rec s)) /\
              (b = false -> ptr_current t = ptr_current (ps_rec s) + 1).
Proof.
  intros _. unfold p_rec_check_and_increment, ptracker_check_and_increment, ptracker_decrement.
  cbn [ptr_current ptr_limit ptr_high].
  destruct (ptr_limit (ps_rec s) <? ptr_current (ps_rec s) + 1) eqn:Hr.
  - destruct (ptr_current (ps_rec s) + 1 =? 0) eqn:Hz; [lia|].
    eexists; eexists; split; [reflexivity|]. cbn. split; [intros _; lia|discriminate].
  - eexists; eexists; split; [reflexivity|]. cbn. split; [discriminate|auto].
Qed.

Lemma set_rec_inv t s : NPinv s -> NPinv (ps_set_rec t s).
Proof. intros (Hp & Hb & Hn & Hd). repeat split; auto. Qed.

Lemma rec_guard_N A B (l : PM B) (body : PM A) (k : A -> PM B) :
  spec CN l -> spec CN body -> (forall x, spec CN (k x)) -> spec CN (p_rec_guard l body k).
Proof.
  intros Hl Hb Hk s Hs. unfold p_rec_guard, p_bind at 1.
  destruct (rec_check_run s Hs) as (b & t & -> & Ht & Hf).
  pose proof (set_rec_inv t s Hs) as Hi1.
  destruct b.
  - specialize (Hl _ Hi1). destruct (l (ps_set_rec t s)) as [[r s2]| |]; auto.
    destruct Hl as [Hi2 (Hp2 & Hc2)]. split; [exact Hi2|]. unfold NPrel. psimpl.
    split; auto. rewrite Hc2. auto.
  - unfold p_bind at 1. specialize (Hb _ Hi1). destruct (body (ps_set_rec t s)) as [[x s2]| |]; auto.
    destruct Hb as [Hi2 (Hp2 & Hc2)]. psimpl.
    unfold p_bind at 1, p_rec_decrement, ptracker_decrement.
    rewrite Hc2, (Hf eq_refl).
    destruct (ptr_current (ps_rec s) + 1 =? 0) eqn:Hz; [lia|].
    set (t3 := Build_ptracker _ _ _).
    pose proof (set_rec_inv t3 s2 Hi2) as Hi3.
    specialize (Hk x _ Hi3). destruct (k x (ps_set_rec t3 s2)) as [[r s4]| |]; auto.
    destruct Hk as [Hi4 (Hp4 & Hc4)]. psimpl. split; [exact Hi4|]. unfold NPrel.
    split; [congruence|].
    rewrite Hc4. unfold t3. cbn [ptr_current ps_rec ps_set_rec]. lia.
Qed.
(* ---- names *)
Lemma validate_name_N n : is_valid_name n = true -> spec CN (g_validate_name n).
Proof.
  intros Hn. apply frame_N. intros s. rewrite validate_name_valid by exact Hn.
  eexists; eexists; split; [reflexivity|]. unfold keeps. auto 10.
Qed.

Lemma cur_valid s t : NPinv s -> ps_cur s = Some t -> tok_kind t = TkName -> is_valid_name (tok_data t) = true.
Proof.
  intros (_ & _ & Hn & _) Hc Hk. unfold names_ok in Hn. rewrite Hc in Hn. cbn [cur_item app] in Hn.
  inversion Hn as [|? ? H1 _]; subst. rewrite Hk in H1. exact H1.
Qed.

Lemma name_N : spec CN g_name.
Proof.
  unfold g_name. apply post_peek_token_case.
  - eapply post_weaken; [| |apply err_N]; cbn; tauto.
  - intros t. destruct (tkind_eqb (tok_kind t) TkName) eqn:Hk.
    + apply tkind_eqb_eq in Hk.
      apply (post_pre_fact CN (is_valid_name (tok_data t) = true)).
      * intros s [Hi Hc]. eapply cur_valid; eauto.
      * intros Hv. eapply post_weaken; [| |apply node_N]; cbn; try tauto.
        eapply post_bind; [apply CN_rel|apply validate_name_N; exact Hv|intros; apply bump_N].
    + eapply post_weaken; [| |apply err_N]; cbn; tauto.
Qed.

(* ---- ty::parse *)
Definition Jb (ps : list (skind * nat)) (cp : nat) (s : pstate) : Prop :=
  pb_parents (ps_builder s) = ps /\ (cp <= length (pb_children (ps_builder s)))%nat.

Lemma peek_token_builder s o s' : p_peek_token s = POk (o, s') -> ps_builder s' = ps_builder s.
Proof.
  unfold p_peek_token. destruct (ps_cur s).
  - intros [= <- <-]. reflexivity.
  - destruct (p_next_token_loop _ _) as [o1 s1] eqn:E. intros [= <- <-]. apply next_token_loop_NP in E.
    destruct E as ((Hb & _) & _). exact Hb.
Qed.
Lemma skip_ignored_builder s a s' : p_skip_ignored s = POk (a, s') -> ps_builder s' = ps_builder s.
Proof.
  unfold p_skip_ignored. cbv zeta. destruct (ps_cur s) as [t|] eqn:Hc.
  - destruct (p_is_ignored_kind _); intros [= <- <-]; [|reflexivity].
    match goal with |- ps_builder (p_skip_loop ?it ?s0) = _ =>
      destruct (skip_loop_NP it s0 eq_refl) as ((Hb & _) & _) end. exact Hb.
  - intros [= <- <-]. destruct (skip_loop_NP (ps_items s) s Hc) as ((Hb & _) & _). exact Hb.
Qed.

Lemma post_builder_J {A} ps cp (P Q : pstate -> Prop) (m : PM A) :
  post CN P Q m -> (forall s a s', m s = POk (a, s') -> ps_builder s' = ps_builder s) ->
  post CN (fun s => P s /\ Jb ps cp s) (fun s => Q s /\ Jb ps cp s) m.
Proof.
  intros Hm Hb s [Hp Hj]. specialize (Hm s Hp). destruct (m s) as [[a s']| |] eqn:E; auto.
  destruct Hm as [Hq Hr]. split; [split; [exact Hq|]|exact Hr]. unfold Jb in *. rewrite (Hb _ _ _ E). exact Hj.
Qed.

Lemma peek_is_N k : spec CN (g_peek_is k).
Proof. unfold g_peek_is. eapply post_bind; [apply CN_rel|apply peek_N|intros; apply ret_N]. Qed.
Lemma peek_is_builder k s a s' : g_peek_is k s = POk (a, s') -> ps_builder s' = ps_builder s.
Proof.
  unfold g_peek_is, p_peek. intros E. apply bind_ok in E as (o & s1 & E & Er). unfold p_ret in Er. injection Er as _ <-.
  apply bind_ok in E as (o2 & s2 & E & Er). unfold p_ret in Er. injection Er as _ <-.
  eapply peek_token_builder; eauto.
Qed.

Lemma wrap_then_finish_N ps cp k (m : PM unit) :
  parents_ok ps cp -> spec CN m ->
  post CN (fun s => NPinv s /\ Jb ps cp s) (fun s => NPinv s /\ Jb ps cp s)
       (p_wrap_node cp k ;; m ;; p_finish_node).
Proof.
  intros Hps Hm s [Hi [Hpar Hlen]]. unfold p_bind at 1, p_wrap_node, p_lift_b, pb_start_node_at.
  destruct (Nat.ltb (length (pb_children (ps_builder s))) cp) eqn:Hlt; [apply Nat.ltb_lt in Hlt; lia|].
  assert (Hwrapped : exists b, match pb_parents (ps_builder s) with
                               | (_, fc) :: _ => if Nat.ltb cp fc then PPanic PnBuilderCheckpointParent
                                                 else POk {| pb_parents := (k, cp) :: pb_parents (ps_builder s);
                                                             pb_children := pb_children (ps_builder s) |}
                               | [] => POk {| pb_parents := (k, cp) :: pb_parents (ps_builder s);
                                              pb_children := pb_children (ps_builder s) |}
                               end = POk b /\ b = {| pb_parents := (k, cp) :: ps; pb_children := pb_children (ps_builder s) |}).
  { rewrite Hpar. destruct ps as [|[k0 fc] r].
    - eexists. split; reflexivity.
    - cbn in Hps. destruct Hps as [Hfc _]. destruct (Nat.ltb cp fc) eqn:E.
      + apply Nat.ltb_lt in E. lia.
      + eexists. split; reflexivity. }
  destruct Hwrapped as (b & -> & ->).
  set (s1 := ps_set_builder _ s).
  assert (Hi1 : NPinv s1).
  { destruct Hi as (Hp & Hb & Hn & Hd). repeat split; auto. all: unfold bwf; cbn; split; [exact Hlen|exact Hps]. }
  unfold p_bind at 1. specialize (Hm s1 Hi1). destruct (m s1) as [[u s2]| |]; auto.
  destruct Hm as [Hi2 (Hp2 & Hc2)].
  assert (Hin : inside k cp ps s2).
  { assert (Hpar2 : pb_parents (ps_builder s2) = (k, cp) :: ps) by (rewrite Hp2; reflexivity).
    split; [exact Hi2|]. split; [exact Hpar2|].
    destruct Hi2 as (_ & Hb2 & _). unfold bwf in Hb2. rewrite Hpar2 in Hb2. cbn in Hb2. tauto. }
  destruct (finish_node_inside _ _ _ _ Hin) as (s3 & -> & Hi3 & Hp3 & Hl3 & Hr3 & _).
  split; [split; [exact Hi3|split; [exact Hp3|lia]]|].
  cbn [CN cRel]. unfold NPrel. rewrite Hp3, Hr3, Hc2. cbn. auto.
Qed.

Lemma parse_tail_N ps cp :
  parents_ok ps cp ->
  post CN (fun s => NPinv s /\ Jb ps cp s) NPinv
    (p_skip_ignored ;;
     b <- g_peek_is TkBang ;;
     p_when b (p_wrap_node cp SK_NON_NULL_TYPE ;; p_eat SK_BANG ;; p_finish_node) ;;
     p_skip_ignored ;;
     p_ret GTyOk).
Proof.
  intros Hps.
  eapply post_bind; [apply CN_rel|apply post_builder_J; [apply skip_ignored_N|apply skip_ignored_builder]|intros _].
  eapply post_bind; [apply CN_rel|apply post_builder_J; [apply peek_is_N|apply peek_is_builder]|intros b].
  eapply post_bind with (Q := NPinv); [apply CN_rel| |intros _].
  - destruct b; cbn [p_when].
    + eapply post_weaken; [| |apply (wrap_then_finish_N ps cp SK_NON_NULL_TYPE (p_eat SK_BANG) Hps (eat_N _))]; cbn; tauto.
    + apply ret_weaken_N. tauto.
  - eapply post_bind; [apply CN_rel|apply skip_ignored_N|intros; apply ret_N].
Qed.

Lemma push_ignored_rec s a s' : p_push_ignored s = POk (a, s') -> ps_rec s' = ps_rec s.
Proof.
  unfold p_push_ignored. destruct (p_push_pending_list _ _); try discriminate. intros [= <- <-]. reflexivity.
Qed.

(* start_node with a current token that is not ignored: only the builder changes *)
Lemma start_node_runN k t s :
  NPinv s -> ps_cur s = Some t -> p_is_ignored_kind (tok_kind t) = false ->
  exists s', p_start_node k s = POk (tt, s') /\ NPinv s' /\ ps_cur s' = Some t /\
             (length (pb_children (ps_builder s)) <= length (pb_children (ps_builder s')))%nat /\
             pb_parents (ps_builder s') = (k, length (pb_children (ps_builder s'))) :: pb_parents (ps_builder s) /\
             ps_rec s' = ps_rec s.
Proof.
  intros Hi Hc Hk. unfold p_start_node, p_bind at 1.
  destruct (push_ignored_runN s Hi) as (s1 & E1 & Hi1 & Hr1 & Hp1 & Hc1 & Hit1 & Hl1).
  pose proof (push_ignored_rec _ _ _ E1) as Hrec1. rewrite E1.
  unfold p_bind at 1, p_modify at 1.
  destruct (start_raw_run k s1 Hi1) as (Hi2 & Hpar2 & Hch2). cbv zeta in *.
  unfold p_skip_ignored. psimpl. rewrite Hc1, Hc, Hk.
  eexists. split; [reflexivity|]. psimpl. split; [exact Hi2|]. split; [congruence|].
  rewrite Hch2. split; [exact Hl1|]. destruct Hr1 as (Hp & Hrc). split; [rewrite Hpar2, Hp; reflexivity|].
  exact Hrec1.
Qed.
Lemma finish_node_rec s a s' : p_finish_node s = POk (a, s') -> ps_rec s' = ps_rec s.
Proof. unfold p_finish_node, p_lift_b. destruct (pb_finish_node _); try discriminate. intros [= <- <-]. reflexivity. Qed.

(* the Name branch of ty::parse *)
Lemma name_branch_N ps cp t :
  tok_kind t = TkName ->
  post CN (fun s => (NPinv s /\ ps_cur s = Some t) /\ Jb ps cp s) (fun s => NPinv s /\ Jb ps cp s)
    (p_node SK_NAMED_TYPE (p_node SK_NAME (
       token <- p_pop ;; g_validate_name (tok_data token) ;; p_push_token SK_IDENT token))).
Proof.
  intros Hk s [[Hi Hc] [Hpar Hlen]].
  assert (Hig : p_is_ignored_kind (tok_kind t) = false) by (rewrite Hk; reflexivity).
  pose proof (cur_valid s t Hi Hc Hk) as Hv.
  unfold p_node at 1, p_bind at 1.
  destruct (start_node_runN SK_NAMED_TYPE t s Hi Hc Hig) as (s1 & -> & Hi1 & Hc1 & Hl1 & Hp1 & Hr1).
  unfold p_bind at 1, p_node at 1, p_bind at 1.
  destruct (start_node_runN SK_NAME t s1 Hi1 Hc1 Hig) as (s2 & -> & Hi2 & Hc2 & Hl2 & Hp2 & Hr2).
  unfold p_bind at 1, p_bind at 1, p_pop. rewrite Hc2.
  unfold p_bind at 1. rewrite (validate_name_valid _ _ Hv).
  unfold p_push_token, p_modify.
  set (s3 := ps_set_builder _ (ps_set_cur None s2)).
  assert (Hi3 : NPinv s3).
  { destruct Hi2 as (Hp & Hb & Hn & Hd). unfold s3. repeat split; auto.
    - psimpl. apply bwf_token. exact Hb.
    - unfold names_ok in *. psimpl. rewrite Hc2 in Hn. cbn [cur_item app] in *. inversion Hn; auto. }
  assert (Hin3 : inside SK_NAME (length (pb_children (ps_builder s2)))
                   ((SK_NAMED_TYPE, length (pb_children (ps_builder s1))) :: pb_parents (ps_builder s)) s3).
  { split; [exact Hi3|]. unfold s3. psimpl. cbn [pb_token pb_parents pb_children length].
    split; [rewrite Hp2, Hp1; reflexivity|lia]. }
  unfold p_bind at 1.
  destruct (finish_node_inside _ _ _ _ Hin3) as (s4 & E4 & Hi4 & Hp4 & Hl4 & Hr4 & _). rewrite E4. cbn [p_ret].
  assert (Hin4 : inside SK_NAMED_TYPE (length (pb_children (ps_builder s1))) (pb_parents (ps_builder s)) s4).
  { split; [exact Hi4|]. split; [exact Hp4|lia]. }
  unfold p_bind at 1.
  destruct (finish_node_inside _ _ _ _ Hin4) as (s5 & E5 & Hi5 & Hp5 & Hl5 & Hr5 & _). rewrite E5. cbn [p_ret].
  split; [split; [exact Hi5|]|].
  - unfold Jb. split; [congruence|lia].
  - cbn [CN cRel]. unfold NPrel. split; [congruence|]. rewrite Hr5, Hr4. unfold s3. psimpl. rewrite Hr2, Hr1. reflexivity.
Qed.

Lemma peek_case_N {A} (f : option tkind -> PM A) (J R : pstate -> Prop) :
  (forall s a s', p_peek s = POk (a, s') -> J s -> J s') ->
  post CN (fun s => NPinv s /\ J s) R (f None) ->
  (forall t, post CN (fun s => (NPinv s /\ ps_cur s = Some t) /\ J s) R (f (Some (tok_kind t)))) ->
  post CN (fun s => NPinv s /\ J s) R (o <- p_peek ;; f o).
Proof.
  intros HJ HN HS s [Hs Hj]. unfold p_bind at 1.
  destruct (peek_token_runN s Hs) as (o & s1 & E & Hi & Hr & Hc & Hnone).
  assert (Ep : p_peek s = POk (option_map tok_kind o, s1)).
  { unfold p_peek, p_bind. rewrite E. reflexivity. }
  rewrite Ep. pose proof (HJ _ _ _ Ep Hj) as Hj1.
  destruct o as [t|]; cbn [option_map].
  - specialize (HS t s1 (conj (conj Hi Hc) Hj1)). destruct (f (Some (tok_kind t)) s1) as [[a s2]| |]; auto.
    destruct HS as [HR Hr2]. split; auto. eapply (ok_trans CN CN_rel); eauto.
  - specialize (HN s1 (conj Hi Hj1)). destruct (f None s1) as [[a s2]| |]; auto.
    destruct HN as [HR Hr2]. split; auto. eapply (ok_trans CN CN_rel); eauto.
Qed.

Lemma peek_builder s a s' : p_peek s = POk (a, s') -> ps_builder s' = ps_builder s.
Proof.
  unfold p_peek. intros E. apply bind_ok in E as (o & s1 & E & Er). unfold p_ret in Er. injection Er as _ <-.
  eapply peek_token_builder; eauto.
Qed.

Lemma drop_branch_N ps cp t :
  post CN (fun s => (NPinv s /\ ps_cur s = Some t) /\ Jb ps cp s) (fun s => NPinv s /\ Jb ps cp s)
    (t0 <- p_pop ;; p_ghost_dropped t0 ;; p_ret (Some (GTyErr (Some t0)))).
Proof.
  apply post_builder_J.
  - apply post_pop_case. eapply post_bind; [apply CN_rel|apply ghost_N|intros; apply ret_N].
  - intros s a s' E. apply bind_ok in E as (t0 & s1 & Ep & E).
    apply bind_ok in E as (u & s2 & Eg & Er). unfold p_ret in Er. injection Er as _ <-.
    unfold p_ghost_dropped, p_modify in Eg. injection Eg as _ <-.
    unfold p_pop in Ep. destruct (ps_cur s).
    + injection Ep as _ <-. reflexivity.
    + destruct (p_next_token_loop _ _) as [[t1|] s3] eqn:El; [|discriminate]. injection Ep as _ <-.
      apply next_token_loop_NP in El. destruct El as ((Hb & _) & _). exact Hb.
Qed.

Lemma parse_body_N rec : spec CN rec -> spec CN (g_parse_body rec).
Proof.
  intros Hrec s Hs. unfold g_parse_body, p_bind at 1, p_checkpoint_node, p_bind at 1.
  destruct (push_ignored_runN s Hs) as (s1 & E1 & Hi1 & Hr1 & _ & _ & _ & Hl1). rewrite E1.
  match goal with |- context [ (p_bind p_get ?f) s1 ] =>
    change ((p_bind p_get f) s1) with (POk (pb_checkpoint (ps_builder s1), s1)) end.
  cbv iota beta. unfold pb_checkpoint.
  set (cp := length (pb_children (ps_builder s1))).
  set (ps := pb_parents (ps_builder s1)).
  assert (Hps : parents_ok ps cp) by (destruct Hi1 as (_ & Hb & _); exact Hb).
  assert (Hj1 : Jb ps cp s1) by (split; [reflexivity|unfold cp; lia]).
  (* what follows the branch: return early, or the non-null wrapper *)
  assert (HK : forall early : option g_tyres,
            post CN (fun s => NPinv s /\ Jb ps cp s) NPinv
              (match early with
               | Some r => p_ret r
               | None =>
                   p_skip_ignored ;;
                   b <- g_peek_is TkBang ;;
                   p_when b (p_wrap_node cp SK_NON_NULL_TYPE ;; p_eat SK_BANG ;; p_finish_node) ;;
                   p_skip_ignored ;;
                   p_ret GTyOk
               end)).
  { intros [r|]; [apply ret_weaken_N; tauto|apply parse_tail_N; exact Hps]. }
  (* everything after the checkpoint, from s1 *)
  match goal with |- match ?m s1 with _ => _ end =>
    assert (Hrest : post CN (fun s => NPinv s /\ Jb ps cp s) NPinv m) end.
  { apply peek_case_N.
    - intros s0 a s0' E [H1 H2]. unfold Jb. rewrite (peek_builder _ _ _ E). auto.
    - (* None: return Err(None) *)
      eapply post_bind with (Q := fun s => NPinv s /\ Jb ps cp s); [apply CN_rel|apply ret_N|exact HK].
    - intros t.
      eapply post_bind with (Q := fun s => NPinv s /\ Jb ps cp s); [apply CN_rel| |exact HK].
      destruct (tok_kind t) eqn:Hk.
      13:{ (* [ *)
        intros s0 [[Hi0 Hc0] [Hp0 Hl0]].
        match goal with |- match ?n s0 with _ => _ end =>
          assert (Hn : forall s, NPinv s -> match n s with
                    | POk (_, s') => NPinv s' /\ NPrel s s' /\
                                     (length (pb_children (ps_builder s)) <= length (pb_children (ps_builder s')))%nat
                    | PPanic _ => False | POutOfFuel => True end) end.
        { apply node_len_N.
          eapply post_bind; [apply CN_rel|apply bump_N|intros _].
          apply rec_guard_N.
          - eapply post_bind; [apply CN_rel|apply limit_err_N|intros; apply ret_N].
          - exact Hrec.
          - intros x. eapply post_bind; [apply CN_rel| |intros _].
            + destruct x as [|[tk|]]; try apply ret_N. apply err_at_token_N.
            + eapply post_bind; [apply CN_rel|apply expect_N|intros; apply ret_N]. }
        specialize (Hn s0 Hi0).
        match goal with |- match ?n s0 with _ => _ end => destruct (n s0) as [[a s2]| |]; auto end.
        destruct Hn as (Hi2 & Hr2 & Hl2). split; [split; [exact Hi2|]|exact Hr2].
        destruct Hr2 as (Hp2 & _). unfold Jb. split; [congruence|lia]. }
      18:{ (* Name *)
        eapply post_bind; [apply CN_rel|apply name_branch_N; exact Hk|intros _]. apply ret_N. }
      all: apply drop_branch_N. }
  specialize (Hrest s1 (conj Hi1 Hj1)).
  match goal with |- match ?m s1 with _ => _ end => destruct (m s1) as [[a s2]| |]; auto end.
  destruct Hrest as [Hi2 Hr2]. split; [exact Hi2|]. eapply (ok_trans CN CN_rel); eauto.
Qed.

(* ---- the instance *)
Lemma CN_ok : pcfg_ok CN.
Proof.
  constructor.
  - exact CN_rel.
  - exact I.
  - exact peek_token_N.
  - exact skip_ignored_N.
  - exact push_ignored_N.
  - exact bump_N.
  - exact err_N.
  - exact err_at_token_N.
  - exact err_at_token_N.
  - exact limit_err_N.
  - exact err_and_pop_N.
  - exact expect_N.
  - exact node_N.
  - exact rec_guard_N.
  - exact rec_guard_N.
  - exact debug_assert_N.
  - exact name_N.
  - exact parse_body_N.
Qed.

(* ---- document: assert_eq!(p.recursion_limit.current, 0) holds at every definition *)
Definition balanced (s : pstate) : Prop := ptr_current (ps_rec s) = 0.

Lemma document_N fuel :
  forall s, NPinv s -> balanced s ->
    match g_document fuel s with
    | POk (_, s') => NPinv s' /\ NPrel s s' /\
                     (ps_pending s = [] -> exists c rest, pb_children (ps_builder s') = PNode SK_DOCUMENT c :: rest /\
                                                         length rest = length (pb_children (ps_builder s)))
    | PPanic _ => False
    | POutOfFuel => True
    end.
Proof.
  intros s Hs Hb. rewrite g_document_unfold.
  pose proof (node_len_J_N unit SK_DOCUMENT) as Hnode.
  match goal with |- match p_node _ ?body s with _ => _ end => specialize (Hnode body balanced) end.
  match goal with |- match ?m s with _ => _ end => assert (H : match m s with
      | POk (_, s') => NPinv s' /\ NPrel s s' /\ (length (pb_children (ps_builder s)) <= length (pb_children (ps_builder s')))%nat /\
                     (ps_pending s = [] -> exists c rest, pb_children (ps_builder s') = PNode SK_DOCUMENT c :: rest /\
                                                         length rest = length (pb_children (ps_builder s)))
      | PPanic _ => False | POutOfFuel => True end) end.
  { apply Hnode; auto.
    - unfold balanced. intros s0 s0' E H0. congruence.
    - (* the body *)
      assert (HJ : forall s0 s0', cRel CN s0 s0' -> balanced s0 -> balanced s0').
      { cbn. unfold balanced. intros s0 s0' (_ & Hc) H0. congruence. }
      eapply post_bind with (Q := fun s0 => NPinv s0 /\ balanced s0);
        [apply CN_rel|apply (post_J CN balanced); [exact HJ|apply peek_N]|intros o].
      eapply post_bind with (Q := fun s0 => NPinv s0 /\ balanced s0); [apply CN_rel| |intros _].
      + apply (post_J CN balanced); [exact HJ|]. destruct (match o with None | Some TkEof => true | _ => false end);
          cbn [p_when]; [apply err_N|apply ret_N].
      + eapply post_bind with (Q := fun s0 => NPinv s0 /\ balanced s0); [apply CN_rel| |intros _].
        * apply (gg_peek_while_J CN CN_ok balanced); [exact HJ|]. intros k.
          eapply post_bind with (Q := NPinv); [apply CN_rel| |intros _; apply (gg_document_step CN CN_ok)].
          intros s0 [Hi0 Hb0]. unfold g_assert_recursion_balanced. unfold balanced in Hb0. rewrite Hb0.
          cbn. split; [exact Hi0|apply (ok_refl CN CN_rel)].
        * eapply post_weaken; [| |apply push_ignored_N]; cbn; tauto. }
  destruct (p_node SK_DOCUMENT _ s) as [[a s']| |]; auto. tauto.
Qed.

(* ---- the entries *)
Lemma init_NPinv rl items : Forall item_name_ok items -> NPinv (p_init_state false rl items).
Proof. intros H. repeat split; cbn; auto. Qed.

Lemma finish_root k c s : pb_children (ps_builder s) = [PNode k c] -> forall u w, p_finish (POk (u, s)) <> PPanic w.
Proof. intros H u w. unfold p_finish, pb_finish. rewrite H. discriminate. Qed.

Lemma root_shape (k : skind) (s0 s' : pstate) :
  pb_children (ps_builder s0) = [] ->
  (exists c rest, pb_children (ps_builder s') = PNode k c :: rest /\ length rest = length (pb_children (ps_builder s0))) ->
  exists c, pb_children (ps_builder s') = [PNode k c].
Proof.
  intros H0 (c & rest & Hc & Hl). rewrite H0 in Hl. destruct rest; [|discriminate]. eauto.
Qed.

Theorem document_no_panic fuel rl items w :
  Forall item_name_ok items -> parse_document_fuel fuel false rl items <> PPanic w.
Proof.
  intros Hn. unfold parse_document_fuel, p_run_with.
  pose proof (document_N fuel _ (init_NPinv rl items Hn) eq_refl) as H.
  destruct (g_document fuel (p_init_state false rl items)) as [[u s']| |]; [|contradiction|discriminate].
  destruct H as (_ & _ & Hshape). destruct (root_shape SK_DOCUMENT (p_init_state false rl items) s' eq_refl (Hshape eq_refl)) as [c Hc].
  eapply finish_root; eauto.
Qed.

Lemma root_node_no_panic k (body : PM unit) rl items w :
  spec CN body -> Forall item_name_ok items ->
  p_finish (p_node k body (p_init_state false rl items)) <> PPanic w.
Proof.
  intros Hb Hn.
  assert (H : post CN (fun s => NPinv s /\ True) NPinv body) by (eapply post_weaken; [| |exact Hb]; cbn; tauto).
  pose proof (node_len_J_N unit k body (fun _ => True) (fun _ _ _ _ => I) H _ (init_NPinv rl items Hn) I) as Hnode.
  destruct (p_node k body (p_init_state false rl items)) as [[u s']| |]; [|contradiction|discriminate].
  destruct Hnode as (_ & _ & _ & Hshape). destruct (root_shape k (p_init_state false rl items) s' eq_refl (Hshape eq_refl)) as [c Hc].
  eapply finish_root; eauto.
Qed.

Theorem type_no_panic fuel rl items w :
  Forall item_name_ok items -> parse_type_fuel fuel false rl items <> PPanic w.
Proof.
  intros Hn. unfold parse_type_fuel, p_run_with, g_type_entry. apply root_node_no_panic; [|exact Hn].
  eapply post_bind; [apply CN_rel|apply (gg_ty CN CN_ok)|intros; apply (gg_trailing CN CN_ok)].
Qed.

Theorem selection_set_no_panic fuel rl items w :
  Forall item_name_ok items -> parse_selection_set_fuel fuel false rl items <> PPanic w.
Proof.
  intros Hn. unfold parse_selection_set_fuel, p_run_with, g_field_set. apply root_node_no_panic; [|exact Hn].
  pose proof CN_ok as H. gfull.
Qed.

(* SyntaxTree::<Type>::ty() cannot panic any more (no unreachable!): p_tree_ty is a total function. *)
