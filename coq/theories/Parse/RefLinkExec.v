(* C05 / C07 link — argument.rs, directive.rs (uses), variable.rs, fragment.rs (name, condition): the productions
   of the executable language below the selection set, against the relaxed reference.  Proofs only. *)
From Coq Require Import PeanoNat.
From ApolloVerif Require Import Base.Chars Lex.Item Lex.Fun Parse.Outcome Parse.Builder Parse.Limits Parse.Monad
  Parse.Keywords Parse.Grammar Parse.Generic Parse.Atoms Parse.Entry Parse.LosslessDefs Parse.Lossless
  Parse.TrackerInst Parse.SilentInst Parse.EntryEnd Parse.Terminates Parse.RefGrammar Parse.RefLib Parse.RefLenient
  Parse.RefLenientProofs Parse.RefLinkBase Parse.RefLinkLoops Parse.RefLinkType Parse.RefLinkValue.

(* ------------------------------------------------------------------ more combinators *)
Lemma rg_seq_assoc' (a b c : rg_p) ts : rg_seq (rg_seq a b) c ts = rg_seq a (rg_seq b c) ts.
Proof. unfold rg_seq, rg_bind. destruct (a ts); reflexivity. Qed.

(* `b <- peek_is k ;; (if b then m else err) ;; rest` *)
Lemma rl_sim_peek_else_err_then {B} k (m : PM unit) (rest : PM B) q qr : k <> TkEof ->
  rl_sim (rg_starts (rg_is k)) m q -> rl_requires (rg_is k) q -> rl_sim rl_any rest qr ->
  rl_sim rl_any (b <- g_peek_is k ;; (if b then m else p_err) ;; rest) (rg_seq q qr).
Proof.
  intros Hne Hm Hreq Hrest.
  apply (rl_sim_fext rl_any ((b <- g_peek_is k ;; if b then m else p_err) ;; rest)).
  { intros s. apply p_bind_assoc. }
  apply rl_sim_bind; [apply rl_sim_peek_else_err; assumption|intros _; exact Hrest].
Qed.
Lemma rl_sim_peek_in_else_err_then {B} ks f (m : PM unit) (rest : PM B) q qr : ~ In TkEof ks ->
  (forall t, f t = rl_kind_in ks t) ->
  rl_sim (rg_starts f) m q -> rl_requires f q -> rl_sim rl_any rest qr ->
  rl_sim rl_any (b <- g_peek_in ks ;; (if b then m else p_err) ;; rest) (rg_seq q qr).
Proof.
  intros Hne Hf Hm Hreq Hrest.
  apply (rl_sim_fext rl_any ((b <- g_peek_in ks ;; if b then m else p_err) ;; rest)).
  { intros s. apply p_bind_assoc. }
  apply rl_sim_bind; [eapply rl_sim_peek_in_else_err; eassumption|intros _; exact Hrest].
Qed.

Lemma rl_sim_any {A} (P : list rg_token -> Prop) (m : PM A) q : rl_sim rl_any m q -> rl_sim P m q.
Proof. apply rl_sim_weaken. intros; exact I. Qed.

(* requirement checks by computation on the first token *)
Ltac rl_req := let ts := fresh "ts" in let H := fresh "H" in
  intros ts H; destruct ts as [|[[] ?] ?]; try discriminate H; reflexivity.

Lemma rl_requires_seq_sat f q : rl_requires f (rg_seq (rg_sat f) q).
Proof. intros [|t ts] H; cbn in *; [reflexivity|]. unfold rg_seq, rg_sat. rewrite H. reflexivity. Qed.

(* X* after an optional test on its first token is X* *)
Lemma rg_opt_many s p ts : rg_opt s (rg_many s p) ts = rg_many s p ts.
Proof.
  unfold rg_opt, rg_many. destruct ts as [|t ts]; [reflexivity|]. destruct (s t) eqn:E; [reflexivity|].
  cbn [length rg_many_f]. rewrite E. reflexivity.
Qed.

(* ------------------------------------------------------------------ arguments, directives *)
Lemma rl_sim_argument f c : rl_sim (rg_starts (rg_is TkName)) (g_argument f c) (rgl_argument LP (rl_cflag c)).
Proof.
  unfold g_argument, rgl_argument. cbn [rgl_arg_novalue rgl_parser rgl_colon_then]. apply rl_sim_node.
  apply rl_sim_bind; [apply rl_sim_any, rl_sim_name|intros _].
  apply (rl_sim_peek_else_err TkColon); [discriminate| |apply rl_requires_seq_sat].
  apply rl_sim_bind; [apply rl_sim_bump|intros _; apply rl_sim_value].
Qed.

Lemma rl_sim_arguments f c : rl_sim (rg_starts (rg_is TkLParen)) (g_arguments f c) (rgl_arguments LP (rl_cflag c)).
Proof.
  unfold g_arguments, rgl_arguments, rg_plus. apply rl_sim_node.
  apply rl_sim_bind; [apply rl_sim_bump|intros _].
  eapply rl_sim_ext; [intros ts _; symmetry; apply rg_seq_assoc'|].
  apply rl_sim_peek_else_err_then; [discriminate|apply rl_sim_argument| |].
  - unfold rgl_argument. apply rl_requires_seq_sat.
  - apply rl_sim_bind; [|intros _; apply rl_sim_expect; discriminate].
    apply rl_sim_many_kind; [discriminate|apply rl_sim_argument|apply rgl_argument_progress].
Qed.

Lemma rl_sim_directive f c : rl_sim rl_any (g_directive f c) (rgl_directive LP (rl_cflag c)).
Proof.
  unfold g_directive, rgl_directive. apply rl_sim_node.
  apply rl_sim_bind; [apply rl_sim_expect; discriminate|intros _].
  apply rl_sim_bind; [apply rl_sim_name|intros _].
  apply rl_sim_if_peek; [discriminate|apply rl_sim_arguments].
Qed.

Lemma rl_sim_directives f c : rl_sim rl_any (g_directives f c) (rgl_directives LP (rl_cflag c)).
Proof.
  unfold g_directives, rgl_directives. apply rl_sim_node.
  apply rl_sim_many_kind; [discriminate|apply rl_sim_any, rl_sim_directive|apply rgl_directive_progress].
Qed.

(* `if let Some(T!["@"]) = p.peek() { directives }` *)
Lemma rl_sim_directives_opt f c :
  rl_sim rl_any (g_if_peek TkAt (g_directives f c)) (rgl_directives LP (rl_cflag c)).
Proof.
  eapply rl_sim_ext; [intros ts _; apply rg_opt_many|].
  apply rl_sim_if_peek; [discriminate|apply rl_sim_any, rl_sim_directives].
Qed.

(* ------------------------------------------------------------------ variable definitions *)
Definition rg_is_type_start (t : rg_token) : bool := rg_is TkName t || rg_is TkLBracket t.
Lemma rg_is_type_start_in t : rg_is_type_start t = rl_kind_in [TkName; TkLBracket] t.
Proof. destruct t as [[] d]; reflexivity. Qed.
Lemma rl_requires_type q : rl_requires rg_is_type_start (rg_seq rg_type q).
Proof. rl_req. Qed.

Lemma rl_sim_typed_tail f :
  rl_sim rl_any
    (g_ty f ;; g_if_peek TkEq (g_default_value f) ;; g_if_peek TkAt (g_directives f GConst))
    (rg_seq rg_type (rg_seq (rg_opt (rg_is TkEq) (rgl_default LP)) (rgl_directives LP true))).
Proof.
  apply rl_sim_bind; [apply rl_sim_ty|intros _].
  apply rl_sim_bind; [apply rl_sim_if_peek; [discriminate|apply rl_sim_default_value]|intros _].
  apply (rl_sim_directives_opt f GConst).
Qed.

(* `: Type DefaultValue? Directives?` with the two error branches of variable_definition / input_value_definition *)
Lemma rl_sim_colon_typed f :
  rl_sim rl_any
    (b <- g_peek_is TkColon ;;
     if b then
       p_bump SK_COLON ;;
       t <- g_peek_in [TkName; TkLBracket] ;;
       if t then g_ty f ;; g_if_peek TkEq (g_default_value f) ;; g_if_peek TkAt (g_directives f GConst) else p_err
     else p_err)
    (rg_seq (rg_sat (rg_is TkColon))
       (rg_seq rg_type (rg_seq (rg_opt (rg_is TkEq) (rgl_default LP)) (rgl_directives LP true)))).
Proof.
  apply rl_sim_peek_else_err; [discriminate| |apply rl_requires_seq_sat].
  apply rl_sim_bind; [apply rl_sim_bump|intros _].
  eapply rl_sim_peek_in_else_err with (f := rg_is_type_start);
    [cbn; intuition discriminate|apply rg_is_type_start_in|apply rl_sim_any, rl_sim_typed_tail|apply rl_requires_type].
Qed.

Lemma rl_sim_variable_definition f : rl_sim (rg_starts (rg_is TkDollar)) (g_variable_definition f) (rgl_vardef LP).
Proof.
  unfold g_variable_definition, rgl_vardef. apply rl_sim_node.
  apply rl_sim_bind; [apply rl_sim_variable|intros _; apply rl_sim_colon_typed].
Qed.

Lemma rgl_default_nolonger : rg_nolonger (rgl_default LP).
Proof.
  unfold rgl_default. apply rg_nolonger_seq; [apply rg_progress_nolonger, rg_progress_sat|].
  apply rg_progress_nolonger, rgl_value_progress.
Qed.
Lemma rg_type_f_nolonger n : rg_nolonger (rg_type_f n).
Proof.
  induction n as [|n IH]; intros ts r; [discriminate|]. cbn [rg_type_f]. unfold rg_bind.
  destruct ts as [|[k d] ts']; [discriminate|].
  assert (Hb : rg_nolonger (rg_opt (rg_is TkBang) (rg_sat (rg_is TkBang)))).
  { apply rg_nolonger_opt, rg_progress_nolonger, rg_progress_sat. }
  destruct k; try discriminate.
  - destruct (rg_seq (rg_type_f n) (rg_sat (rg_is TkRBracket)) ts') as [r1| |] eqn:E; try discriminate.
    intros H. apply Hb in H. assert (Hs : rg_nolonger (rg_seq (rg_type_f n) (rg_sat (rg_is TkRBracket)))).
    { apply rg_nolonger_seq; [exact IH|apply rg_progress_nolonger, rg_progress_sat]. }
    apply Hs in E. cbn [length]. lia.
  - intros H. apply Hb in H. cbn [length]. lia.
Qed.
Lemma rg_type_f_progress n : rg_progress (rg_type_f n).
Proof.
  destruct n as [|n]; intros ts r; [discriminate|]. cbn [rg_type_f]. unfold rg_bind.
  destruct ts as [|[k d] ts']; [discriminate|].
  assert (Hb : rg_nolonger (rg_opt (rg_is TkBang) (rg_sat (rg_is TkBang)))).
  { apply rg_nolonger_opt, rg_progress_nolonger, rg_progress_sat. }
  destruct k; try discriminate.
  - destruct (rg_seq (rg_type_f n) (rg_sat (rg_is TkRBracket)) ts') as [r1| |] eqn:E; try discriminate.
    intros H. apply Hb in H. assert (Hs : rg_nolonger (rg_seq (rg_type_f n) (rg_sat (rg_is TkRBracket)))).
    { apply rg_nolonger_seq; [apply rg_type_f_nolonger|apply rg_progress_nolonger, rg_progress_sat]. }
    apply Hs in E. cbn [length]. lia.
  - intros H. apply Hb in H. cbn [length]. lia.
Qed.
Lemma rg_type_progress : rg_progress rg_type.
Proof. intros ts r. apply rg_type_f_progress. Qed.
Lemma rgl_vardef_progress : rg_progress (rgl_vardef LP).
Proof.
  unfold rgl_vardef, rg_variable. apply rg_progress_seq_l; [apply rg_progress_seq_l; [apply rg_progress_sat|]|].
  - apply rg_progress_nolonger, rg_progress_sat.
  - apply rg_nolonger_seq; [apply rg_progress_nolonger, rg_progress_sat|].
    apply rg_nolonger_seq; [apply rg_progress_nolonger, rg_type_progress|].
    apply rg_nolonger_seq; [apply rg_nolonger_opt, rgl_default_nolonger|apply rgl_directives_nolonger].
Qed.

Lemma rl_sim_variable_definitions f :
  rl_sim (rg_starts (rg_is TkLParen)) (g_variable_definitions f) (rgl_vardefs LP).
Proof.
  unfold g_variable_definitions, rgl_vardefs, rg_plus. apply rl_sim_node.
  apply rl_sim_bind; [apply rl_sim_bump|intros _].
  eapply rl_sim_ext; [intros ts _; symmetry; apply rg_seq_assoc'|].
  apply rl_sim_peek_else_err_then; [discriminate|apply rl_sim_variable_definition| |].
  - unfold rgl_vardef, rg_variable. intros ts H. rewrite rg_seq_assoc'. apply rl_requires_seq_sat. exact H.
  - apply rl_sim_bind; [|intros _; apply rl_sim_expect; discriminate].
    apply rl_sim_many_kind; [discriminate|apply rl_sim_variable_definition|apply rgl_vardef_progress].
Qed.

(* ------------------------------------------------------------------ named type, fragment name, type condition *)
Lemma rl_sim_named_type_opt : rl_sim rl_any g_named_type (rg_opt (rg_is TkName) rg_name).
Proof.
  unfold g_named_type. apply (rl_sim_if_peek TkName); [discriminate|]. apply rl_sim_node. apply rl_sim_any, rl_sim_name.
Qed.
Lemma rl_sim_named_type : rl_sim (rg_starts (rg_is TkName)) g_named_type rg_name.
Proof.
  eapply rl_sim_ext; [|eapply rl_sim_weaken; [|apply rl_sim_named_type_opt]; intros; exact I].
  intros [|t ts] H; cbn [rg_starts] in H; [contradiction|]. unfold rg_opt. rewrite H. reflexivity.
Qed.

Definition rg_is_fragname (t : rg_token) : bool := rg_is TkName t && negb (rg_streq rg_s_on (snd t)).

Lemma rl_gen_fragment_name : rl_gen g_fragment_name.
Proof. split; [apply (gg_fragment_name CT CT_ok)|apply (gg_fragment_name CX CX_ok)]. Qed.

(* the conclusion for a p_node, from the conclusion for its body *)
Lemma rl_node_post {A} k (body : PM A) q s a s' :
  p_node k body s = POk (a, s') -> rl_ok s -> tr_ok (ps_rec s) ->
  (forall s1 s2, rl_obs_eq s s1 -> body s1 = POk (a, s2) -> rl_ok s1 -> tr_ok (ps_rec s1) ->
                 rl_sound q s1 s2 /\ rl_complete q s1 s2) ->
  rl_sound q s s' /\ rl_complete q s s'.
Proof.
  intros E Hok Ht Hbody. unfold p_node in E. apply bind_ok in E as (? & s1 & E1 & E).
  apply (rl_start_node_obs _ _ _ _ (proj1 (proj1 Hok))) in E1.
  apply bind_ok in E as (r & s2 & E & Ef). apply bind_ok in Ef as (? & s3 & Ef & Er). unfold p_ret in Er.
  injection Er as -> <-. apply rl_finish_node_obs in Ef.
  pose proof (rl_obs_ok _ _ E1 Hok) as Hok1.
  assert (Ht1 : tr_ok (ps_rec s1)) by (destruct E1 as (_ & _ & _ & _ & ->); exact Ht).
  destruct (Hbody s1 s2 E1 E Hok1 Ht1) as [Hs Hc].
  unfold rl_sound, rl_complete, rl_roomy in *. rewrite (rl_obs_sigs _ _ E1) in Hs, Hc. rewrite (rl_obs_sigs _ _ Ef).
  pose proof Ef as (_ & _ & F1 & F2 & F3). pose proof E1 as (_ & _ & G1 & G2 & G3). rewrite F1. rewrite G1 in Hs, Hc. rewrite G3 in Hc.
  split.
  - intros He. destruct (Hs He) as (Hok2 & Hp & Hq). split; [exact (rl_obs_ok _ _ Ef Hok2)|auto].
  - exact Hc.
Qed.

Lemma rl_sim_fragment_name : rl_sim rl_any g_fragment_name (rg_sat rg_is_fragname).
Proof.
  split; [apply rl_gen_fragment_name|]. intros s u s' E Hok Ht _. unfold g_fragment_name in E.
  eapply rl_node_post; [exact E|exact Hok|exact Ht|]. clear E. intros s1 s2 _ E [Hinv1 Ha1] Ht1.
  destruct (rl_inv_cur _ Hinv1) as (t & Hc1 & Hi1 & _).
  unfold p_bind at 1 in E. rewrite (peek_token_some t s1 Hc1) in E.
  pose proof (rl_sigs_head _ _ Hinv1 Hc1) as Hhead.
  destruct (tkind_eqb (tok_kind t) TkName) eqn:Hk; cbn [andb] in E.
  - apply tkind_eqb_eq in Hk. rewrite Hk in Hhead. cbn [tkind_eqb] in Hhead.
    change (p_str_eqb (tok_data t) pkw_on) with (rg_streq (tok_data t) rg_s_on) in E.
    rewrite rg_streq_sym in E.
    destruct (rg_streq rg_s_on (tok_data t)) eqn:Hon.
    + apply rl_post_dirty; [eapply rl_err_run; eauto; split; assumption|].
      rewrite Hhead. cbn [rg_sat]. unfold rg_is_fragname. cbn [snd]. rewrite Hon, andb_false_r. reflexivity.
    + apply (rl_post_ext rg_name).
      * rewrite Hhead. cbn [rg_name rg_sat]. unfold rg_is_fragname. cbn [snd]. rewrite Hon. reflexivity.
      * exact (proj2 rl_sim_name s1 _ s2 E (conj Hinv1 Ha1) Ht1 I).
  - apply rl_post_dirty; [eapply rl_err_run; eauto; split; assumption|].
    rewrite Hhead. destruct (tkind_eqb (tok_kind t) TkEof); [reflexivity|]. cbn [rg_sat].
    unfold rg_is_fragname, rg_is. cbn [fst]. destruct (tok_kind t); try discriminate; reflexivity.
Qed.

Lemma rl_gen_type_condition : rl_gen g_type_condition.
Proof. split; [apply (gg_type_condition CT CT_ok)|apply (gg_type_condition CX CX_ok)]. Qed.

Lemma rl_sim_type_condition :
  rl_sim rl_any g_type_condition (rg_seq (rg_sat (rg_is_kw rg_s_on)) rg_name).
Proof.
  split; [apply rl_gen_type_condition|]. intros s u s' E Hok Ht _. unfold g_type_condition in E.
  eapply rl_node_post; [exact E|exact Hok|exact Ht|]. clear E. intros s1 s2 _ E [Hinv1 Ha1] Ht1.
  destruct (rl_inv_cur _ Hinv1) as (t & Hc1 & Hi1 & _).
  unfold p_bind at 1 in E. rewrite (peek_token_some t s1 Hc1) in E.
  pose proof (rl_sigs_head _ _ Hinv1 Hc1) as Hhead.
  assert (Hrest : rl_sim rl_any (b <- g_peek_is TkName ;; if b then g_named_type else p_err) rg_name).
  { apply rl_sim_peek_else_err; [discriminate|apply rl_sim_named_type|]. unfold rg_name. intros [|t0 ts] H; cbn in *; [reflexivity|].
    rewrite H. reflexivity. }
  destruct (tkind_eqb (tok_kind t) TkName && p_str_eqb (tok_data t) pkw_on) eqn:Hon.
  - apply andb_prop in Hon as [Hk Hon]. apply tkind_eqb_eq in Hk. rewrite Hk in Hhead. cbn [tkind_eqb] in Hhead.
    assert (Hsim : rl_sim (rg_starts (rg_is_kw rg_s_on)) (p_bump SK_on_KW ;; b <- g_peek_is TkName ;; if b then g_named_type else p_err)
                     (rg_seq (rg_sat (rg_is_kw rg_s_on)) rg_name)).
    { apply rl_sim_bind; [apply rl_sim_bump|intros _; exact Hrest]. }
    apply (proj2 Hsim s1 _ s2 E (conj Hinv1 Ha1) Ht1). rewrite Hhead. cbn [rg_starts]. unfold rg_is_kw. cbn [fst snd tkind_eqb andb].
    change (p_str_eqb (tok_data t) pkw_on) with (rg_streq (tok_data t) rg_s_on) in Hon. rewrite rg_streq_sym. exact Hon.
  - apply bind_ok in E as (? & s3 & E3 & E).
    apply rl_post_dirty.
    + eapply rl_dirty_then; [eapply rl_err_run; eauto; split; assumption| |].
      * exact (proj2 (post_returns _ _ _ _ (proj2 rl_gen_err) s1 I _ _ E3)).
      * exact (proj2 (post_returns _ _ _ _ (proj2 (proj1 Hrest)) s3 I _ _ E)).
    + rewrite Hhead. destruct (tkind_eqb (tok_kind t) TkEof); [reflexivity|]. unfold rg_seq. cbn [rg_sat].
      unfold rg_is_kw. cbn [fst snd].
      change (p_str_eqb (tok_data t) pkw_on) with (rg_streq (tok_data t) rg_s_on) in Hon. rewrite rg_streq_sym in Hon.
      destruct (tok_kind t); cbn [tkind_eqb andb] in *; try reflexivity. rewrite Hon. reflexivity.
Qed.
