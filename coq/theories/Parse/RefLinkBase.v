(* C05 / C07 — linking the parser model (Parse/Grammar.v) to the reference grammar (Parse/RefGrammar.v through
   its relaxed copy Parse/RefLenient.v): the abstraction, the simulation judgement and its primitives.

   A parser state is VIEWED as the list of significant tokens it still has to read:
     rl_sigs s = the (kind, data) of the current token and of the items the lexer will still yield,
                 without Whitespace / Comment / Comma / Eof.
   rl_sim P m q : from a clean, positioned state whose view satisfies P, the parser computation m
     - (sound)    if it returns without a NEW error, the recogniser q accepts exactly the tokens m consumed
                  (q (view before) = RgOk (view after)), and the state is again clean and positioned;
     - (complete) if q accepts a prefix of the view and the recursion limit leaves room, m reports no new error and
                  leaves exactly what q leaves.
   Proofs only. *)
From Coq Require Import PeanoNat.
From ApolloVerif Require Import Base.Chars Lex.Item Lex.Fun Parse.Outcome Parse.Builder Parse.Limits Parse.Monad
  Parse.Keywords Parse.Grammar Parse.Generic Parse.Atoms Parse.Entry Parse.LosslessDefs Parse.Lossless
  Parse.TrackerInst Parse.SilentInst Parse.EntryEnd Parse.Terminates Parse.RefGrammar Parse.RefLib Parse.RefLenient.

(* ------------------------------------------------------------------ well-formed streams and the view *)
(* what the parser relies on about a token's data: a Name is a name (validate_name is silent), `{` reads "{"
   (document dispatch), and no other token's text can be mistaken for a keyword *)
Definition rl_tok_ok (k : tkind) (d : str) : bool :=
  match k with
  | TkName => is_valid_name d
  | TkLCurly => p_str_eqb d pkw_lcurly
  | _ => match d with c :: _ => negb (is_name_start c) | [] => true end
  end.

(* a stream of well-formed tokens, no lexical error, exactly one Eof, at the end, carrying no text
   (operation_type and the keyword tests compare a token's data without looking at its kind) *)
Fixpoint rl_stream (l : list item) : Prop :=
  match l with
  | [] => False
  | IErr _ _ _ :: _ => False
  | ITok k d _ :: r => if tkind_eqb k TkEof then r = [] /\ d = [] else rl_tok_ok k d = true /\ rl_stream r
  end.

Fixpoint rl_sig (l : list item) : list rg_token :=
  match l with
  | [] => []
  | ITok k d _ :: r => if rg_ignored k then rl_sig r else (k, d) :: rl_sig r
  | IErr _ _ _ :: r => rl_sig r
  end.

Lemma rl_stream_significant l : rl_stream l -> rg_significant l = Some (rl_sig l).
Proof.
  induction l as [|[k d i|c d i] r IH]; cbn [rl_stream rg_significant rl_sig]; try contradiction.
  destruct (tkind_eqb k TkEof) eqn:Hk.
  - intros [-> _]. apply tkind_eqb_eq in Hk. subst k. reflexivity.
  - intros [_ Hr]. rewrite (IH Hr). destruct (rg_ignored k); reflexivity.
Qed.

Lemma rl_ignored_split k : rg_ignored k = p_is_ignored_kind k || tkind_eqb k TkEof.
Proof. destruct k; reflexivity. Qed.

Definition rl_sigs (s : pstate) : list rg_token := rl_sig (rest_of s).
Definition rl_pos (s : pstate) : Prop := exists t, ps_cur s = Some t /\ p_is_ignored_kind (tok_kind t) = false.
Definition rl_inv (s : pstate) : Prop := rl_pos s /\ rl_stream (rest_of s).
Definition rl_ok (s : pstate) : Prop := rl_inv s /\ ps_accept s = true.

(* the nesting budget: the tokens that can open a recursion-guarded construct *)
Fixpoint rl_weight (ts : list rg_token) : N :=
  match ts with
  | [] => 0
  | (k, _) :: r => (match k with TkLCurly | TkLBracket | TkColon => 1 | _ => 0 end) + rl_weight r
  end.
Definition rl_roomy (s : pstate) : Prop :=
  ptr_current (ps_rec s) + rl_weight (rl_sigs s) < ptr_limit (ps_rec s).

Lemma rl_weight_app a b : rl_weight (a ++ b) = rl_weight a + rl_weight b.
Proof. induction a as [|[k d] a IH]; cbn [app rl_weight]; [reflexivity|]. rewrite IH. lia. Qed.

(* observational equality: everything the control flow and the view depend on *)
Definition rl_obs_eq (s s' : pstate) : Prop :=
  ps_cur s' = ps_cur s /\ ps_items s' = ps_items s /\ ps_errors s' = ps_errors s /\
  ps_accept s' = ps_accept s /\ ps_rec s' = ps_rec s.

Lemma rl_obs_eq_refl s : rl_obs_eq s s.
Proof. repeat split. Qed.
Lemma rl_obs_eq_trans a b c : rl_obs_eq a b -> rl_obs_eq b c -> rl_obs_eq a c.
Proof. unfold rl_obs_eq. intros (H1 & H2 & H3 & H4 & H5) (G1 & G2 & G3 & G4 & G5). repeat split; congruence. Qed.
Lemma rl_obs_rest s s' : rl_obs_eq s s' -> rest_of s' = rest_of s.
Proof. intros (H1 & H2 & _). unfold rest_of. rewrite H1, H2. reflexivity. Qed.
Lemma rl_obs_sigs s s' : rl_obs_eq s s' -> rl_sigs s' = rl_sigs s.
Proof. intros H. unfold rl_sigs. rewrite (rl_obs_rest _ _ H). reflexivity. Qed.
Lemma rl_obs_ok s s' : rl_obs_eq s s' -> rl_ok s -> rl_ok s'.
Proof.
  intros H [[(t & Hc & Hi) Hs] Ha]. pose proof (rl_obs_rest _ _ H) as Hr.
  destruct H as (H1 & H2 & H3 & H4 & H5). split; [split|].
  - exists t. rewrite H1. auto.
  - rewrite Hr. exact Hs.
  - congruence.
Qed.
Lemma rl_obs_ok_back s s' : rl_obs_eq s s' -> rl_ok s' -> rl_ok s.
Proof.
  intros H. apply rl_obs_ok. destruct H as (H1 & H2 & H3 & H4 & H5). repeat split; congruence.
Qed.
Lemma rl_obs_roomy s s' : rl_obs_eq s s' -> rl_roomy s -> rl_roomy s'.
Proof.
  intros H. unfold rl_roomy. rewrite (rl_obs_sigs _ _ H). destruct H as (_ & _ & _ & _ & ->). auto.
Qed.

(* ------------------------------------------------------------------ the error list only grows (generic instance) *)
Definition rl_ext (s s' : pstate) : Prop := exists new, ps_errors s' = new ++ ps_errors s.
Definition CX : pcfg :=
  {| cInv := fun _ => True; cWeak := fun _ => True; cRel := rl_ext; cPanicOk := True; cFuelOk := True |}.

Lemma rl_ext_refl s : rl_ext s s.
Proof. exists []. reflexivity. Qed.
Lemma rl_ext_same s s' : ps_errors s' = ps_errors s -> rl_ext s s'.
Proof. intros H. exists []. exact H. Qed.
Lemma rl_ext_trans a b c : rl_ext a b -> rl_ext b c -> rl_ext a c.
Proof. intros [n1 H1] [n2 H2]. exists (n2 ++ n1). rewrite H2, H1. apply app_assoc. Qed.
Lemma CX_rel : prel_ok CX.
Proof. constructor; cbn; auto using rl_ext_refl. intros a b c. apply rl_ext_trans. Qed.

Lemma CX_frame {A} (m : PM A) :
  (forall s a s', m s = POk (a, s') -> ps_errors s' = ps_errors s) -> spec CX m.
Proof.
  intros Hm. apply post_partial; [exact I|exact I|]. cbn. intros s _ a s' E. split; [exact I|].
  exists []. exact (Hm _ _ _ E).
Qed.
Lemma CX_step {A} (m : PM A) :
  (forall s a s', m s = POk (a, s') -> rl_ext s s') -> spec CX m.
Proof. intros Hm. apply post_partial; [exact I|exact I|]. cbn. intros s _ a s' E. split; [exact I|eauto]. Qed.

Lemma rl_lexer_error_effect_ext c d i s : rl_ext s (p_lexer_error_effect c d i s).
Proof.
  destruct (lexer_error_effect_fields c d i s) as [_ H]. unfold rl_ext. rewrite H.
  destruct (ps_accept s); [eexists [_]|exists []]; reflexivity.
Qed.
Lemma rl_next_token_loop_ext items : forall s o s', p_next_token_loop items s = (o, s') -> rl_ext s s'.
Proof.
  induction items as [|[k d i|c d i] r IH]; intros s o s'; cbn [p_next_token_loop].
  - intros [= <- <-]. apply rl_ext_same. reflexivity.
  - intros [= <- <-]. apply rl_ext_same. reflexivity.
  - intros E. eapply rl_ext_trans; [|eapply IH; exact E].
    eapply rl_ext_trans; [|apply (rl_lexer_error_effect_ext c d i (p_count_pull s))]. apply rl_ext_same. reflexivity.
Qed.
Lemma rl_skip_loop_ext items : forall s, rl_ext s (p_skip_loop items s).
Proof.
  induction items as [|[k d i|c d i] r IH]; intros s; cbn [p_skip_loop].
  - apply rl_ext_same. reflexivity.
  - destruct (p_is_ignored_kind k); [|apply rl_ext_same; reflexivity].
    match goal with |- rl_ext _ (p_skip_loop r ?s0) => eapply rl_ext_trans; [|apply (IH s0)] end.
    apply rl_ext_same. reflexivity.
  - eapply rl_ext_trans; [|apply IH].
    eapply rl_ext_trans; [|apply (rl_lexer_error_effect_ext c d i (p_count_pull s))]. apply rl_ext_same. reflexivity.
Qed.
Lemma rl_peek_token_ext s o s' : p_peek_token s = POk (o, s') -> rl_ext s s'.
Proof.
  unfold p_peek_token. destruct (ps_cur s).
  - intros [= <- <-]. apply rl_ext_refl.
  - destruct (p_next_token_loop _ _) as [o1 s1] eqn:E. intros [= <- <-].
    apply rl_next_token_loop_ext in E. eapply rl_ext_trans; [exact E|]. apply rl_ext_same. reflexivity.
Qed.

Lemma CX_atoms : patoms_ok CX.
Proof.
  constructor.
  - exact CX_rel.
  - cbn. auto.
  - apply CX_step. apply rl_peek_token_ext.
  - apply CX_step. intros s a s'. unfold p_pop. destruct (ps_cur s).
    + intros [= <- <-]. apply rl_ext_same. reflexivity.
    + destruct (p_next_token_loop _ _) as [[t|] s1] eqn:E; [|discriminate]. intros [= <- <-].
      eapply rl_next_token_loop_ext; eauto.
  - apply CX_step. intros s a s'. unfold p_skip_ignored. cbv zeta. destruct (ps_cur s) as [t|].
    + destruct (p_is_ignored_kind _); intros [= <- <-]; [|apply rl_ext_refl].
      match goal with |- rl_ext _ (p_skip_loop ?it ?s0) => eapply rl_ext_trans; [|apply (rl_skip_loop_ext it s0)] end.
      apply rl_ext_same. reflexivity.
    + intros [= <- <-]. apply rl_skip_loop_ext.
  - apply CX_frame. intros s a s'. unfold p_push_ignored. destruct (p_push_pending_list _ _); try discriminate.
    intros [= <- <-]. auto.
  - intros k t. apply CX_frame. intros s a s'. unfold p_push_token, p_modify. intros [= <- <-]. auto.
  - intros t. apply CX_step. intros s a s'. unfold p_push_err, p_modify. intros [= <- <-].
    unfold rl_ext. destruct (ps_accept s); cbn; [eexists [_]|exists []]; reflexivity.
  - apply CX_step. intros s a s' E. unfold p_limit_err in E.
    apply bind_ok in E as (o & s1 & E1 & E). apply rl_peek_token_ext in E1.
    destruct o as [t|].
    + apply bind_ok in E as (u & s2 & E2 & E). unfold p_push_err, p_modify in *.
      injection E2 as _ <-. injection E as _ <-. eapply rl_ext_trans; [exact E1|].
      unfold rl_ext. destruct (ps_accept s1); cbn; [eexists [_]|exists []]; reflexivity.
    + unfold p_ret in E. injection E as _ <-. exact E1.
  - intros k. apply CX_frame. intros s a s'. unfold p_start_raw, p_modify. intros [= <- <-]. auto.
  - apply CX_frame. intros s a s'. unfold p_finish_node, p_lift_b. destruct (pb_finish_node _); try discriminate.
    intros [= <- <-]. auto.
  - intros cp k. apply CX_frame. intros s a s'. unfold p_wrap_node, p_lift_b.
    destruct (pb_start_node_at _ _ _); try discriminate. intros [= <- <-]. auto.
  - intros A B l body k Hl Hb Hk. unfold p_rec_guard.
    eapply post_bind; [apply CX_rel| |intros [|]]; [|exact Hl|].
    + apply CX_frame. intros s a s'. unfold p_rec_check_and_increment.
      destruct (ptracker_check_and_increment _) as [[b t]| |]; try discriminate. intros [= <- <-]. auto.
    + eapply post_bind; [apply CX_rel|exact Hb|intros x].
      eapply post_bind; [apply CX_rel| |intros; apply Hk].
      apply CX_frame. intros s a s'. unfold p_rec_decrement.
      destruct (ptracker_decrement _); try discriminate. intros [= <- <-]. auto.
  - intros t. apply CX_frame. intros s a s'. unfold p_ghost_dropped, p_modify. intros [= <- <-]. auto.
  - intros A w. apply CX_frame. intros s a s'. discriminate.
  - apply CX_frame. intros s a s'. unfold g_assert_recursion_balanced. destruct (_ =? _); try discriminate.
    intros [= <- <-]. auto.
  - intros b. apply CX_frame. intros s a s'. unfold p_debug_assert_advanced. destruct (_ && _); try discriminate.
    intros [= <- <-]. auto.
Qed.
Definition CX_ok : pcfg_ok CX := atoms_cfg_ok CX CX_atoms I.

(* ---- what every piece of grammar code satisfies regardless of its input *)
Definition rl_gen {A} (m : PM A) : Prop := spec CT m /\ spec CX m.

Lemma rl_gen_run {A} (m : PM A) s a s' :
  rl_gen m -> m s = POk (a, s') -> tr_ok (ps_rec s) ->
  tr_ok (ps_rec s') /\ ptr_current (ps_rec s') = ptr_current (ps_rec s) /\
  ptr_limit (ps_rec s') = ptr_limit (ps_rec s) /\ rl_ext s s'.
Proof.
  intros [Ht Hx] E Hok.
  destruct (post_returns _ _ _ _ Ht s Hok _ _ E) as [H1 (H2 & H3 & _)].
  destruct (post_returns _ _ _ _ Hx s I _ _ E) as [_ H4]. auto.
Qed.

(* solve rl_gen for any piece of grammar code by the generic traversal *)
Ltac rl_gen_tac :=
  split; [ let H := fresh "H" in pose proof CT_ok as H; gfull | let H := fresh "H" in pose proof CX_ok as H; gfull ].

Lemma rl_gen_bind {A B} (m : PM A) (f : A -> PM B) : rl_gen m -> (forall a, rl_gen (f a)) -> rl_gen (p_bind m f).
Proof.
  intros [H1 H2] Hf. split.
  - eapply post_bind; [apply CT_rel|exact H1|intros a; apply (Hf a)].
  - eapply post_bind; [apply CX_rel|exact H2|intros a; apply (Hf a)].
Qed.
Lemma rl_gen_ret {A} (a : A) : rl_gen (p_ret a).
Proof. split; apply post_ret_same; [apply CT_rel|apply CX_rel]. Qed.
Lemma rl_gen_node {A} k (body : PM A) : rl_gen body -> rl_gen (p_node k body).
Proof.
  intros [H1 H2]. split.
  - apply (d_node CT CT_atoms). exact H1.
  - apply (d_node CX CX_atoms). exact H2.
Qed.

Lemma rl_no_new l (n : list perror) : n ++ l = l -> n = [].
Proof.
  intros H. destruct n as [|x n]; [reflexivity|]. exfalso.
  apply (f_equal (@length _)) in H. rewrite app_length in H. cbn in H. lia.
Qed.
(* if two consecutive steps together add no error, neither does *)
Lemma rl_ext_split s s1 s2 :
  rl_ext s s1 -> rl_ext s1 s2 -> ps_errors s2 = ps_errors s -> ps_errors s1 = ps_errors s /\ ps_errors s2 = ps_errors s1.
Proof.
  intros [n1 H1] [n2 H2] E. rewrite H2, H1, app_assoc in E. apply rl_no_new in E.
  apply app_eq_nil in E as [-> ->]. cbn in *. split; congruence.
Qed.

(* ------------------------------------------------------------------ the judgement *)
Definition rl_sound (q : rg_p) (s s' : pstate) : Prop :=
  ps_errors s' = ps_errors s ->
  rl_ok s' /\ (exists pre, rl_sigs s = pre ++ rl_sigs s') /\ q (rl_sigs s) = RgOk (rl_sigs s').
Definition rl_complete (q : rg_p) (s s' : pstate) : Prop :=
  rl_roomy s -> forall r, q (rl_sigs s) = RgOk r -> ps_errors s' = ps_errors s /\ rl_sigs s' = r.

Definition rl_sim {A} (P : list rg_token -> Prop) (m : PM A) (q : rg_p) : Prop :=
  rl_gen m /\
  forall s a s', m s = POk (a, s') -> rl_ok s -> tr_ok (ps_rec s) -> P (rl_sigs s) ->
    rl_sound q s s' /\ rl_complete q s s'.

Definition rl_any (ts : list rg_token) : Prop := True.

Lemma rl_sim_weaken {A} (P P' : list rg_token -> Prop) (m : PM A) q :
  (forall ts, P' ts -> P ts) -> rl_sim P m q -> rl_sim P' m q.
Proof. intros H [Hg Hm]. split; [exact Hg|]. intros s a s' E Hok Ht Hp. apply (Hm s a s' E Hok Ht). auto. Qed.

(* the recogniser may be replaced by a pointwise equal one *)
Lemma rl_sim_ext {A} (P : list rg_token -> Prop) (m : PM A) q q' :
  (forall ts, P ts -> q ts = q' ts) -> rl_sim P m q -> rl_sim P m q'.
Proof.
  intros H [Hg Hm]. split; [exact Hg|]. intros s a s' E Hok Ht Hp.
  destruct (Hm s a s' E Hok Ht Hp) as [Hs Hc]. unfold rl_sound, rl_complete in *. rewrite <- (H _ Hp). auto.
Qed.

Lemma rl_roomy_step s s' pre :
  rl_roomy s -> rl_sigs s = pre ++ rl_sigs s' ->
  ptr_current (ps_rec s') = ptr_current (ps_rec s) -> ptr_limit (ps_rec s') = ptr_limit (ps_rec s) -> rl_roomy s'.
Proof. unfold rl_roomy. intros H E Hc Hl. rewrite E, rl_weight_app in H. lia. Qed.

(* sequencing; Q is what the first recogniser guarantees about what it leaves *)
Lemma rl_sim_bind_pre {A B} (P Q : list rg_token -> Prop) (m1 : PM A) (m2 : A -> PM B) q1 q2 :
  rl_sim P m1 q1 -> (forall a, rl_sim Q (m2 a) q2) -> (forall ts r, P ts -> q1 ts = RgOk r -> Q r) ->
  rl_sim P (p_bind m1 m2) (rg_seq q1 q2).
Proof.
  intros [Hg1 H1] H2 HQ. split; [apply rl_gen_bind; [exact Hg1|intros a; apply (H2 a)]|].
  intros s b s2 E Hok Ht Hp. apply bind_ok in E as (a & s1 & E1 & E2).
  destruct (H2 a) as [Hg2 H2a].
  destruct (rl_gen_run _ _ _ _ Hg1 E1 Ht) as (Ht1 & Hc1 & Hl1 & Hx1).
  destruct (rl_gen_run _ _ _ _ Hg2 E2 Ht1) as (Ht2 & Hc2 & Hl2 & Hx2).
  destruct (H1 s a s1 E1 Hok Ht Hp) as [Hs1 Hcm1].
  split.
  - intros He. destruct (rl_ext_split _ _ _ Hx1 Hx2 He) as [He1 He2].
    destruct (Hs1 He1) as (Hok1 & [pre1 Hpre1] & Hq1).
    destruct (H2a s1 b s2 E2 Hok1 Ht1 (HQ _ _ Hp Hq1)) as [Hs2 _].
    destruct (Hs2 He2) as (Hok2 & [pre2 Hpre2] & Hq2).
    split; [exact Hok2|split].
    + exists (pre1 ++ pre2). rewrite Hpre1, Hpre2. apply app_assoc.
    + unfold rg_seq. rewrite Hq1. exact Hq2.
  - intros Hr r Hq. unfold rg_seq, rg_bind in Hq. destruct (q1 (rl_sigs s)) as [r1| |] eqn:Eq1; try discriminate.
    destruct (Hcm1 Hr r1 Eq1) as [He1 Hr1].
    destruct (Hs1 He1) as (Hok1 & [pre1 Hpre1] & Hq1).
    assert (HQ1 : Q (rl_sigs s1)) by (rewrite Hr1; exact (HQ _ _ Hp Eq1)).
    destruct (H2a s1 b s2 E2 Hok1 Ht1 HQ1) as [_ Hcm2].
    assert (Hroom1 : rl_roomy s1) by (eapply rl_roomy_step; eauto).
    rewrite <- Hr1 in Hq. destruct (Hcm2 Hroom1 r Hq) as [He2 Hr2]. split; [congruence|exact Hr2].
Qed.
Lemma rl_sim_bind {A B} (P : list rg_token -> Prop) (m1 : PM A) (m2 : A -> PM B) q1 q2 :
  rl_sim P m1 q1 -> (forall a, rl_sim rl_any (m2 a) q2) -> rl_sim P (p_bind m1 m2) (rg_seq q1 q2).
Proof. intros H1 H2. eapply rl_sim_bind_pre; eauto. intros; exact I. Qed.

(* a step that changes nothing observable, before or after *)
Definition rl_silent {A} (m : PM A) : Prop :=
  rl_gen m /\ forall s a s', m s = POk (a, s') -> rl_pos s -> rl_obs_eq s s'.

Lemma rl_sim_silent_l {A B} (P : list rg_token -> Prop) (m1 : PM A) (m2 : A -> PM B) q :
  rl_silent m1 -> (forall a, rl_sim P (m2 a) q) -> rl_sim P (p_bind m1 m2) q.
Proof.
  intros [Hg1 H1] H2. split; [apply rl_gen_bind; [exact Hg1|intros a; apply (H2 a)]|].
  intros s b s2 E Hok Ht Hp. apply bind_ok in E as (a & s1 & E1 & E2).
  destruct (H2 a) as [Hg2 H2a]. pose proof (H1 s a s1 E1 (proj1 (proj1 Hok))) as Ho.
  assert (Ht1 : tr_ok (ps_rec s1)) by (destruct Ho as (_ & _ & _ & _ & ->); exact Ht).
  assert (Hp1 : P (rl_sigs s1)) by (rewrite (rl_obs_sigs _ _ Ho); exact Hp).
  destruct (H2a s1 b s2 E2 (rl_obs_ok _ _ Ho Hok) Ht1 Hp1) as [Hs Hc].
  unfold rl_sound, rl_complete in *. rewrite (rl_obs_sigs _ _ Ho) in Hs, Hc.
  destruct Ho as (_ & _ & Hoe & _ & Hor). rewrite Hoe in Hs, Hc. split; [exact Hs|].
  intros Hr. apply Hc. unfold rl_roomy in *. rewrite Hor. rewrite <- (rl_obs_sigs s s1) in Hr; [exact Hr|].
  repeat split; auto. all: try (destruct (H1 s a s1 E1 (proj1 (proj1 Hok))) as (G1 & G2 & G3 & G4 & G5); auto).
Qed.

Lemma rl_sim_silent_r {A B} (P : list rg_token -> Prop) (m1 : PM A) (m2 : A -> PM B) q :
  rl_sim P m1 q -> (forall a, rl_silent (m2 a)) -> rl_sim P (p_bind m1 m2) q.
Proof.
  intros [Hg1 H1] H2. split; [apply rl_gen_bind; [exact Hg1|intros a; apply (H2 a)]|].
  intros s b s2 E Hok Ht Hp. apply bind_ok in E as (a & s1 & E1 & E2).
  destruct (H2 a) as [Hg2 H2a].
  destruct (rl_gen_run _ _ _ _ Hg1 E1 Ht) as (Ht1 & Hc1 & Hl1 & Hx1).
  destruct (rl_gen_run _ _ _ _ Hg2 E2 Ht1) as (Ht2 & Hc2 & Hl2 & Hx2).
  destruct (H1 s a s1 E1 Hok Ht Hp) as [Hs1 Hcm1]. split.
  - intros He. destruct (rl_ext_split _ _ _ Hx1 Hx2 He) as [He1 He2].
    destruct (Hs1 He1) as (Hok1 & Hpre1 & Hq1).
    pose proof (H2a s1 b s2 E2 (proj1 (proj1 Hok1))) as Ho.
    rewrite (rl_obs_sigs _ _ Ho). split; [exact (rl_obs_ok _ _ Ho Hok1)|auto].
  - intros Hr r Hq. destruct (Hcm1 Hr r Hq) as [He1 Hr1].
    destruct (Hs1 He1) as (Hok1 & _ & _).
    pose proof (H2a s1 b s2 E2 (proj1 (proj1 Hok1))) as Ho.
    rewrite (rl_obs_sigs _ _ Ho). destruct Ho as (_ & _ & Hoe & _). split; congruence.
Qed.

(* ------------------------------------------------------------------ primitives on positioned states *)
Lemma rl_push_ignored_obs s u s' : p_push_ignored s = POk (u, s') -> rl_obs_eq s s'.
Proof.
  unfold p_push_ignored. destruct (p_push_pending_list _ _); try discriminate. intros [= <- <-]. repeat split.
Qed.
Lemma rl_finish_node_obs s u s' : p_finish_node s = POk (u, s') -> rl_obs_eq s s'.
Proof.
  unfold p_finish_node, p_lift_b. destruct (pb_finish_node _); try discriminate. intros [= <- <-]. repeat split.
Qed.
Lemma rl_skip_ignored_pos s : rl_pos s -> p_skip_ignored s = POk (tt, s).
Proof. intros (t & Hc & Hi). unfold p_skip_ignored. cbv zeta. rewrite Hc, Hi. reflexivity. Qed.
Lemma rl_start_node_obs k s u s' : rl_pos s -> p_start_node k s = POk (u, s') -> rl_obs_eq s s'.
Proof.
  intros Hp E. unfold p_start_node in E. apply bind_ok in E as (? & s1 & E1 & E).
  apply rl_push_ignored_obs in E1. apply bind_ok in E as (? & s2 & E2 & E).
  unfold p_modify in E2. injection E2 as _ <-.
  assert (Hp2 : rl_pos (ps_set_builder (pb_start_node k (ps_builder s1)) s1)).
  { destruct Hp as (t & Hc & Hi). exists t. cbn. destruct E1 as (-> & _). auto. }
  rewrite (rl_skip_ignored_pos _ Hp2) in E. injection E as _ <-.
  eapply rl_obs_eq_trans; [exact E1|]. repeat split.
Qed.

Lemma rl_silent_push_ignored : rl_silent p_push_ignored.
Proof.
  split.
  - split; [apply (a_push_ignored _ CT_atoms)|apply (a_push_ignored _ CX_atoms)].
  - intros s a s' E _. eapply rl_push_ignored_obs; eauto.
Qed.
Lemma rl_silent_finish_node : rl_silent p_finish_node.
Proof.
  split.
  - split; [apply (a_finish_node _ CT_atoms)|apply (a_finish_node _ CX_atoms)].
  - intros s a s' E _. eapply rl_finish_node_obs; eauto.
Qed.
Lemma rl_silent_start_node k : rl_silent (p_start_node k).
Proof.
  split.
  - split; [apply (d_start_node _ CT_atoms)|apply (d_start_node _ CX_atoms)].
  - intros s a s' E Hp. eapply rl_start_node_obs; eauto.
Qed.
Lemma rl_silent_ret {A} (a : A) : rl_silent (p_ret a).
Proof. split; [apply rl_gen_ret|]. intros s x s' [= <- <-] _. apply rl_obs_eq_refl. Qed.

(* p_node is transparent *)
Lemma rl_sim_node {A} (P : list rg_token -> Prop) k (body : PM A) q :
  rl_sim P body q -> rl_sim P (p_node k body) q.
Proof.
  intros Hb. unfold p_node. apply rl_sim_silent_l; [apply rl_silent_start_node|intros _].
  apply rl_sim_silent_r; [exact Hb|intros r].
  split; [apply rl_gen_bind; [apply rl_silent_finish_node|intros; apply rl_gen_ret]|].
  intros s a s' E Hp. apply bind_ok in E as (? & s1 & E1 & E). injection E as _ <-.
  eapply rl_finish_node_obs; eauto.
Qed.

(* ---- the stream behind a positioned state *)
Lemma rl_inv_cur s : rl_inv s -> exists t, ps_cur s = Some t /\ p_is_ignored_kind (tok_kind t) = false /\
  rest_of s = ITok (tok_kind t) (tok_data t) (tok_index t) :: ps_items s.
Proof. intros [(t & Hc & Hi) _]. exists t. unfold rest_of. rewrite Hc. auto. Qed.

Lemma rl_sigs_eof s t : rl_inv s -> ps_cur s = Some t -> tok_kind t = TkEof -> rl_sigs s = [].
Proof.
  intros [_ Hs] Hc Hk. unfold rl_sigs, rest_of in *. rewrite Hc in *. cbn [cur_item app rl_stream rl_sig] in *.
  rewrite Hk in *. cbn in Hs. rewrite (proj1 Hs). reflexivity.
Qed.
Lemma rl_eof_data s t : rl_inv s -> ps_cur s = Some t -> tok_kind t = TkEof -> tok_data t = [].
Proof.
  intros [_ Hs] Hc Hk. unfold rest_of in Hs. rewrite Hc in Hs. cbn [cur_item app rl_stream] in Hs.
  rewrite Hk in Hs. cbn in Hs. exact (proj2 Hs).
Qed.
Lemma rl_sigs_tok s t : rl_inv s -> ps_cur s = Some t -> tok_kind t <> TkEof ->
  rl_sigs s = (tok_kind t, tok_data t) :: rl_sig (ps_items s) /\ rl_tok_ok (tok_kind t) (tok_data t) = true /\
  rl_stream (ps_items s).
Proof.
  intros [(t' & Hc' & Hi) Hs] Hc Hk. rewrite Hc in Hc'. injection Hc' as <-.
  unfold rl_sigs, rest_of in *. rewrite Hc in *. cbn [cur_item app rl_stream rl_sig] in *.
  assert (He : tkind_eqb (tok_kind t) TkEof = false).
  { destruct (tkind_eqb (tok_kind t) TkEof) eqn:E; [|reflexivity]. apply tkind_eqb_eq in E. contradiction. }
  rewrite He in Hs. rewrite rl_ignored_split, Hi, He. cbn. tauto.
Qed.

(* skip_ignored from an unpositioned state over a well-formed stream *)
Lemma rl_skip_loop_stream items : rl_stream items -> forall s,
  rl_pos (p_skip_loop items s) /\ rl_stream (rest_of (p_skip_loop items s)) /\
  rl_sig (rest_of (p_skip_loop items s)) = rl_sig items /\
  ps_errors (p_skip_loop items s) = ps_errors s /\ ps_accept (p_skip_loop items s) = ps_accept s /\
  ps_rec (p_skip_loop items s) = ps_rec s.
Proof.
  induction items as [|[k d i|c d i] r IH]; cbn [rl_stream]; try contradiction. intros Hs s.
  cbn [p_skip_loop]. destruct (p_is_ignored_kind k) eqn:Hi.
  - assert (He : tkind_eqb k TkEof = false) by (destruct k; try discriminate; reflexivity).
    rewrite He in Hs. destruct Hs as [_ Hr].
    match goal with |- context [p_skip_loop r ?s0] => destruct (IH Hr s0) as (H1 & H2 & H3 & H4 & H5 & H6) end.
    split; [exact H1|]. split; [exact H2|]. split; [|split; [exact H4|split; [exact H5|exact H6]]].
    rewrite H3. cbn [rl_sig]. rewrite rl_ignored_split, Hi. reflexivity.
  - split; [eexists; split; [reflexivity|exact Hi]|].
    unfold rest_of. cbn. repeat split; auto.
Qed.

Definition rl_keep (s s' : pstate) : Prop :=
  ps_errors s' = ps_errors s /\ ps_accept s' = ps_accept s /\ ps_rec s' = ps_rec s.

(* bump of a token that is not Eof *)
Lemma rl_bump_run k s u s' t :
  rl_inv s -> ps_cur s = Some t -> tok_kind t <> TkEof -> p_bump k s = POk (u, s') ->
  rl_inv s' /\ rl_sigs s = (tok_kind t, tok_data t) :: rl_sigs s' /\ rl_keep s s'.
Proof.
  intros Hinv Hc Hk E. destruct (rl_sigs_tok _ _ Hinv Hc Hk) as (Hsig & _ & Hstr).
  unfold p_bump in E. apply bind_ok in E as (? & s1 & E1 & E).
  unfold p_eat in E1. apply bind_ok in E1 as (? & s2 & E2 & E1).
  apply rl_push_ignored_obs in E2. destruct E2 as (Hc2 & Hi2 & He2 & Ha2 & Hr2).
  rewrite Hc in Hc2. apply bind_ok in E1 as (o & s3 & E3 & E1). rewrite (current_some t s2 Hc2) in E3.
  injection E3 as <- <-. apply bind_ok in E1 as (t' & s4 & E4 & E1). unfold p_pop in E4. rewrite Hc2 in E4.
  injection E4 as <- <-. unfold p_push_token, p_modify in E1. injection E1 as _ <-.
  unfold p_skip_ignored in E. cbv zeta in E. cbn [ps_cur ps_set_builder ps_set_cur ps_items] in E.
  injection E as _ <-. rewrite Hi2.
  match goal with |- context [p_skip_loop _ ?s0] => destruct (rl_skip_loop_stream _ Hstr s0) as (H1 & H2 & H3 & H4 & H5 & H6) end.
  split; [split; assumption|]. split.
  - rewrite Hsig. unfold rl_sigs at 1. rewrite H3. reflexivity.
  - unfold rl_keep. rewrite H4, H5, H6. cbn. auto.
Qed.

Lemma rl_cons_neq {A} (x : A) l : x :: l <> l.
Proof. intros H. apply (f_equal (@length _)) in H. cbn in H. lia. Qed.

(* err on a clean positioned state records an error *)
Lemma rl_err_run s u s' : rl_ok s -> p_err s = POk (u, s') -> ps_errors s' <> ps_errors s.
Proof.
  intros [[(t & Hc & _) _] Ha] E. unfold p_err, p_bind in E. rewrite (current_some t s Hc) in E.
  unfold p_push_err, p_modify in E. injection E as _ <-. rewrite Ha. cbn. apply rl_cons_neq.
Qed.
Lemma rl_err_and_pop_run s u s' : rl_ok s -> p_err_and_pop s = POk (u, s') -> ps_errors s' <> ps_errors s.
Proof.
  intros [[(t & Hc & _) _] Ha] E. unfold p_err_and_pop in E. apply bind_ok in E as (? & s1 & E1 & E).
  apply rl_push_ignored_obs in E1. destruct E1 as (Hc1 & Hi1 & He1 & Ha1 & Hr1). rewrite Hc in Hc1.
  apply bind_ok in E as (o & s2 & E2 & E). rewrite (current_some t s1 Hc1) in E2. injection E2 as <- <-.
  apply bind_ok in E as (t' & s3 & E3 & E). unfold p_pop in E3. rewrite Hc1 in E3. injection E3 as <- <-.
  apply bind_ok in E as (? & s4 & E4 & E). unfold p_push_token, p_modify in E4. injection E4 as _ <-.
  apply bind_ok in E as (? & s5 & E5 & E). unfold p_push_err, p_modify in E5. injection E5 as _ <-.
  cbn [ps_accept ps_set_builder ps_set_cur] in E. rewrite Ha1, Ha in E.
  destruct (post_returns _ _ _ _ (a_skip_ignored _ CX_atoms) _ I _ _ E) as [_ [n Hn]].
  rewrite Hn. cbn [ps_errors ps_set_errors ps_set_builder ps_set_cur]. rewrite He1.
  intros H. change (n ++ ?e :: ps_errors s) with (n ++ [e] ++ ps_errors s) in H.
  rewrite app_assoc in H. apply rl_no_new in H. destruct n; discriminate.
Qed.

Lemma rl_gen_err : rl_gen p_err.
Proof. split; [apply (d_err _ CT_atoms)|apply (d_err _ CX_atoms)]. Qed.
Lemma rl_gen_err_and_pop : rl_gen p_err_and_pop.
Proof. split; [apply (d_err_and_pop _ CT_atoms)|apply (d_err_and_pop _ CX_atoms)]. Qed.
Lemma rl_gen_bump k : rl_gen (p_bump k).
Proof. split; [apply (d_bump _ CT_atoms)|apply (d_bump _ CX_atoms)]. Qed.

(* a computation that always reports an error simulates any recogniser that fails *)
Lemma rl_sim_fail {A} (P : list rg_token -> Prop) (m : PM A) q :
  rl_gen m -> (forall s a s', m s = POk (a, s') -> rl_ok s -> ps_errors s' <> ps_errors s) ->
  (forall ts, P ts -> q ts = RgNo) -> rl_sim P m q.
Proof.
  intros Hg Hm Hq. split; [exact Hg|]. intros s a s' E Hok Ht Hp. specialize (Hm _ _ _ E Hok). split.
  - intros He. contradiction.
  - intros _ r Hr. rewrite (Hq _ Hp) in Hr. discriminate.
Qed.
Lemma rl_sim_err (P : list rg_token -> Prop) q : (forall ts, P ts -> q ts = RgNo) -> rl_sim P p_err q.
Proof. apply rl_sim_fail; [apply rl_gen_err|]. intros s a s' E Hok. eapply rl_err_run; eauto. Qed.
Lemma rl_sim_err_and_pop (P : list rg_token -> Prop) q :
  (forall ts, P ts -> q ts = RgNo) -> rl_sim P p_err_and_pop q.
Proof. apply rl_sim_fail; [apply rl_gen_err_and_pop|]. intros s a s' E Hok. eapply rl_err_and_pop_run; eauto. Qed.

(* bump when the first token is known to satisfy f *)
Lemma rl_sim_bump k f : rl_sim (rg_starts f) (p_bump k) (rg_sat f).
Proof.
  split; [apply rl_gen_bump|]. intros s u s' E [Hinv Ha] Ht Hp.
  destruct (rl_inv_cur _ Hinv) as (t & Hc & Hi & _).
  assert (Hk : tok_kind t <> TkEof).
  { intros Hk. rewrite (rl_sigs_eof _ _ Hinv Hc Hk) in Hp. exact Hp. }
  destruct (rl_bump_run _ _ _ _ _ Hinv Hc Hk E) as (Hinv' & Hsig & He & Ha' & Hr).
  rewrite Hsig in Hp. cbn in Hp. split.
  - intros _. split; [split; [exact Hinv'|congruence]|]. split; [exists [(tok_kind t, tok_data t)]; exact Hsig|].
    rewrite Hsig. cbn. rewrite Hp. reflexivity.
  - intros _ r Hq. rewrite Hsig in Hq. cbn in Hq. rewrite Hp in Hq. injection Hq as <-. auto.
Qed.

(* the first token of the view, as the parser's peeks see it *)
Definition rl_head_is (f : rg_token -> bool) (ts : list rg_token) : bool :=
  match ts with t :: _ => f t | [] => false end.
Lemma rl_starts_head f ts : rg_starts f ts <-> rl_head_is f ts = true.
Proof. destruct ts; cbn; [split; [tauto|discriminate]|tauto]. Qed.

Lemma rl_peek_kind s t k : rl_inv s -> ps_cur s = Some t ->
  tkind_eqb (tok_kind t) k = true -> k <> TkEof -> rl_head_is (rg_is k) (rl_sigs s) = true.
Proof.
  intros Hinv Hc Hk Hne. apply tkind_eqb_eq in Hk.
  assert (Hk' : tok_kind t <> TkEof) by congruence.
  destruct (rl_sigs_tok _ _ Hinv Hc Hk') as (-> & _). cbn. unfold rg_is. cbn. rewrite Hk. apply tkind_eqb_eq. reflexivity.
Qed.

(* the kind test the parser makes equals the test on the view *)
Lemma rl_peek_is_view s t k : rl_inv s -> ps_cur s = Some t -> k <> TkEof ->
  tkind_eqb (tok_kind t) k = rl_head_is (rg_is k) (rl_sigs s).
Proof.
  intros Hinv Hc Hne. destruct (tkind_eqb (tok_kind t) TkEof) eqn:He.
  - apply tkind_eqb_eq in He. rewrite (rl_sigs_eof _ _ Hinv Hc He). cbn. rewrite He. destruct k; try reflexivity. contradiction.
  - assert (Hk' : tok_kind t <> TkEof) by (intros H; apply tkind_eqb_eq in H; congruence).
    destruct (rl_sigs_tok _ _ Hinv Hc Hk') as (-> & _). cbn. unfold rg_is. cbn.
    destruct (tok_kind t), k; reflexivity.
Qed.

Definition rl_kind_in (ks : list tkind) (t : rg_token) : bool := existsb (tkind_eqb (fst t)) ks.
Lemma rl_peek_in_view s t ks : rl_inv s -> ps_cur s = Some t -> ~ In TkEof ks ->
  existsb (tkind_eqb (tok_kind t)) ks = rl_head_is (rl_kind_in ks) (rl_sigs s).
Proof.
  intros Hinv Hc Hne. destruct (tkind_eqb (tok_kind t) TkEof) eqn:He.
  - apply tkind_eqb_eq in He. rewrite (rl_sigs_eof _ _ Hinv Hc He). cbn. rewrite He.
    induction ks as [|k ks IH]; [reflexivity|]. cbn. destruct k; try (apply IH; intros H; apply Hne; right; exact H).
    exfalso. apply Hne. left. reflexivity.
  - assert (Hk' : tok_kind t <> TkEof) by (intros H; apply tkind_eqb_eq in H; congruence).
    destruct (rl_sigs_tok _ _ Hinv Hc Hk') as (-> & _). reflexivity.
Qed.

(* ---- conditionals on the next token's kind *)
Lemma rl_gen_peek_is k : rl_gen (g_peek_is k).
Proof. split; [apply (d_peek_is _ CT_atoms)|apply (d_peek_is _ CX_atoms)]. Qed.

(* `if p.peek() == Some(k) { m }` is `X?` *)
Lemma rl_sim_if_peek_pre (P : list rg_token -> Prop) k m q : k <> TkEof ->
  rl_sim (fun ts => P ts /\ rg_starts (rg_is k) ts) m q -> rl_sim P (g_if_peek k m) (rg_opt (rg_is k) q).
Proof.
  intros Hne [Hg Hm]. split.
  { unfold g_if_peek. apply rl_gen_bind; [apply rl_gen_peek_is|]. intros [|]; cbn [p_when]; [exact Hg|apply rl_gen_ret]. }
  intros s u s' E [Hinv Ha] Ht HP. destruct (rl_inv_cur _ Hinv) as (t & Hc & Hi & _).
  unfold g_if_peek, p_bind in E. rewrite (peek_is_some k t s Hc) in E.
  rewrite (rl_peek_is_view _ _ _ Hinv Hc Hne) in E.
  unfold rl_sound, rl_complete, rg_opt. destruct (rl_sigs s) as [|t0 ts] eqn:Es; cbn [rl_head_is] in E.
  - cbn [p_when] in E. injection E as _ <-. rewrite Es. split.
    + intros _. split; [split; assumption|]. split; [exists []; reflexivity|reflexivity].
    + intros _ r [= <-]. auto.
  - destruct (rg_is k t0) eqn:Hk; cbn [p_when] in E.
    + assert (Hp : P (rl_sigs s) /\ rg_starts (rg_is k) (rl_sigs s)) by (rewrite Es; split; [exact HP|exact Hk]).
      destruct (Hm s u s' E (conj Hinv Ha) Ht Hp) as [Hs Hcm]. unfold rl_sound, rl_complete in *.
      rewrite Es in Hs, Hcm. split; assumption.
    + injection E as _ <-. rewrite Es. split.
      * intros _. split; [split; assumption|]. split; [exists []; reflexivity|reflexivity].
      * intros _ r [= <-]. auto.
Qed.
Lemma rl_sim_if_peek k m q : k <> TkEof ->
  rl_sim (rg_starts (rg_is k)) m q -> rl_sim rl_any (g_if_peek k m) (rg_opt (rg_is k) q).
Proof.
  intros Hne Hm. apply rl_sim_if_peek_pre; [exact Hne|]. eapply rl_sim_weaken; [|exact Hm]. intros ts [_ H]. exact H.
Qed.

(* q accepts only inputs whose first token satisfies f *)
Definition rl_requires (f : rg_token -> bool) (q : rg_p) : Prop :=
  forall ts, rl_head_is f ts = false -> q ts = RgNo.

(* `if p.peek() == Some(k) { m } else { p.err() }` *)
Lemma rl_sim_peek_else_err k (m : PM unit) q : k <> TkEof ->
  rl_sim (rg_starts (rg_is k)) m q -> rl_requires (rg_is k) q ->
  rl_sim rl_any (b <- g_peek_is k ;; if b then m else p_err) q.
Proof.
  intros Hne [Hg Hm] Hreq. split.
  { apply rl_gen_bind; [apply rl_gen_peek_is|]. intros [|]; [exact Hg|apply rl_gen_err]. }
  intros s u s' E [Hinv Ha] Ht _. destruct (rl_inv_cur _ Hinv) as (t & Hc & Hi & _).
  unfold p_bind in E. rewrite (peek_is_some k t s Hc) in E.
  rewrite (rl_peek_is_view _ _ _ Hinv Hc Hne) in E.
  destruct (rl_head_is (rg_is k) (rl_sigs s)) eqn:Hh.
  - apply (Hm s u s' E (conj Hinv Ha) Ht). apply rl_starts_head. exact Hh.
  - pose proof (rl_err_run _ _ _ (conj Hinv Ha) E) as Hd. split.
    + intros He. contradiction.
    + intros _ r Hq. rewrite (Hreq _ Hh) in Hq. discriminate.
Qed.

Lemma rl_gen_peek_in ks : rl_gen (g_peek_in ks).
Proof.
  split; unfold g_peek_in.
  - eapply post_bind; [apply CT_rel|apply (d_peek _ CT_atoms)|intros; apply post_ret_same; apply CT_rel].
  - eapply post_bind; [apply CX_rel|apply (d_peek _ CX_atoms)|intros; apply post_ret_same; apply CX_rel].
Qed.

(* `match p.peek() { Some(k1 | k2) => m, _ => p.err() }` *)
Lemma rl_sim_peek_in_else_err ks f (m : PM unit) q : ~ In TkEof ks ->
  (forall t, f t = rl_kind_in ks t) ->
  rl_sim (rg_starts f) m q -> rl_requires f q ->
  rl_sim rl_any (b <- g_peek_in ks ;; if b then m else p_err) q.
Proof.
  intros Hne Hf [Hg Hm] Hreq. split.
  { apply rl_gen_bind; [apply rl_gen_peek_in|]. intros [|]; [exact Hg|apply rl_gen_err]. }
  intros s u s' E [Hinv Ha] Ht _. destruct (rl_inv_cur _ Hinv) as (t & Hc & Hi & _).
  unfold p_bind in E. rewrite (peek_in_some ks t s Hc) in E.
  rewrite (rl_peek_in_view _ _ _ Hinv Hc Hne) in E.
  assert (Hhf : rl_head_is (rl_kind_in ks) (rl_sigs s) = rl_head_is f (rl_sigs s)).
  { destruct (rl_sigs s); cbn; [reflexivity|]. symmetry. apply Hf. }
  rewrite Hhf in E. destruct (rl_head_is f (rl_sigs s)) eqn:Hh.
  - apply (Hm s u s' E (conj Hinv Ha) Ht). apply rl_starts_head. exact Hh.
  - pose proof (rl_err_run _ _ _ (conj Hinv Ha) E) as Hd. split.
    + intros He. contradiction.
    + intros _ r Hq. rewrite (Hreq _ Hh) in Hq. discriminate.
Qed.

(* expect(k): bump or report *)
Lemma rl_gen_expect k sk : rl_gen (p_expect k sk).
Proof. split; [apply (d_expect _ CT_atoms)|apply (d_expect _ CX_atoms)]. Qed.

Lemma rl_sim_expect k sk : k <> TkEof -> rl_sim rl_any (p_expect k sk) (rg_sat (rg_is k)).
Proof.
  intros Hne. split; [apply rl_gen_expect|]. intros s u s' E [Hinv Ha] Ht _.
  destruct (rl_inv_cur _ Hinv) as (t & Hc & Hi & _).
  unfold p_expect in E. unfold p_bind at 1 in E. rewrite (current_some t s Hc) in E.
  unfold p_at in E. unfold p_bind at 1 in E. unfold p_bind at 1 in E. rewrite (peek_some t s Hc) in E.
  cbn [p_ret] in E. rewrite (rl_peek_is_view _ _ _ Hinv Hc Hne) in E.
  destruct (rl_head_is (rg_is k) (rl_sigs s)) eqn:Hh.
  - apply (proj2 (rl_sim_bump sk (rg_is k)) s u s' E (conj Hinv Ha) Ht). apply rl_starts_head. exact Hh.
  - unfold p_push_err, p_modify in E. injection E as _ <-. rewrite Ha. split.
    + intros He. cbn in He. exfalso. exact (rl_cons_neq _ _ He).
    + intros _ r Hq. unfold rg_sat in Hq. destruct (rl_sigs s) as [|t0 ts]; [discriminate|]. cbn [rl_head_is] in Hh. rewrite Hh in Hq.
      discriminate.
Qed.

(* ---- name *)
Lemma rl_gen_name : rl_gen g_name.
Proof. split; [apply (d_name _ CT_atoms)|apply (d_name _ CX_atoms)]. Qed.

Lemma rl_sim_name : rl_sim rl_any g_name rg_name.
Proof.
  split; [apply rl_gen_name|]. intros s u s' E [Hinv Ha] Ht _.
  destruct (rl_inv_cur _ Hinv) as (t & Hc & Hi & _).
  unfold g_name in E. unfold p_bind at 1 in E. rewrite (peek_token_some t s Hc) in E.
  rewrite (rl_peek_is_view _ _ _ Hinv Hc) in E by discriminate.
  destruct (rl_head_is (rg_is TkName) (rl_sigs s)) eqn:Hh.
  - assert (Hk : tok_kind t = TkName).
    { rewrite <- (rl_peek_is_view _ _ _ Hinv Hc) in Hh by discriminate. apply tkind_eqb_eq. exact Hh. }
    assert (Hk' : tok_kind t <> TkEof) by congruence.
    destruct (rl_sigs_tok _ _ Hinv Hc Hk') as (_ & Hok & _). rewrite Hk in Hok. cbn in Hok.
    assert (Hsim : rl_sim (rg_starts (rg_is TkName)) (p_node SK_NAME (g_validate_name (tok_data t) ;; p_bump SK_IDENT)) rg_name).
    { apply rl_sim_node. apply rl_sim_silent_l; [|intros _; apply rl_sim_bump].
      split.
      - split; [apply (d_validate_name _ CT_atoms)|apply (d_validate_name _ CX_atoms)].
      - intros s0 a s0' E0 _. rewrite (validate_name_valid _ s0 Hok) in E0. injection E0 as _ <-. apply rl_obs_eq_refl. }
    apply (proj2 Hsim s u s' E (conj Hinv Ha) Ht). apply rl_starts_head. exact Hh.
  - pose proof (rl_err_run _ _ _ (conj Hinv Ha) E) as Hd. split.
    + intros He. contradiction.
    + intros _ r Hq. unfold rg_name, rg_sat in Hq. destruct (rl_sigs s) as [|t0 ts]; [discriminate|]. cbn [rl_head_is] in Hh.
      rewrite Hh in Hq. discriminate.
Qed.
