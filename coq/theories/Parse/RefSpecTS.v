(* C05 — the October 2021 type-system grammar (spec section 3, appendix B), declaratively, and the full
   Document grammar.  Same conventions as RefSpec.v.  Left-recursive list productions of the spec
   (ImplementsInterfaces, UnionMemberTypes, DirectiveLocations) are written in the equivalent iterative form
   `head (sep item)*`.  The boolean index of RgTsDefinition is true for the alternatives that end with the
   spec's `[lookahead != {]` restriction. *)
From ApolloVerif Require Import Base.Chars Lex.Item Parse.RefGrammar Parse.RefLib Parse.RefSpec.

Definition RgDescriptionOpt : rg_lang := LOpt (RgPunct TkStringValue).
(* Directives[Const] (at least one) *)
Definition RgDirectivesConst : rg_lang := LPlus (RgDirective true).

(* InputValueDefinition : Description? Name : Type DefaultValue? Directives[Const]? *)
Definition RgInputValueDefinition : rg_lang :=
  LSeq RgDescriptionOpt (LSeq RgName (LSeq (RgPunct TkColon)
    (LSeq RgType (LSeq (LOpt RgDefaultValue) (RgDirectivesOpt true))))).
Definition RgArgumentsDefinition : rg_lang :=
  LSeq (RgPunct TkLParen) (LSeq (LPlus RgInputValueDefinition) (RgPunct TkRParen)).
(* FieldDefinition : Description? Name ArgumentsDefinition? : Type Directives[Const]? *)
Definition RgFieldDefinition : rg_lang :=
  LSeq RgDescriptionOpt (LSeq RgName (LSeq (LOpt RgArgumentsDefinition)
    (LSeq (RgPunct TkColon) (LSeq RgType (RgDirectivesOpt true))))).
Definition RgFieldsDefinition : rg_lang :=
  LSeq (RgPunct TkLCurly) (LSeq (LPlus RgFieldDefinition) (RgPunct TkRCurly)).
Definition RgInputFieldsDefinition : rg_lang :=
  LSeq (RgPunct TkLCurly) (LSeq (LPlus RgInputValueDefinition) (RgPunct TkRCurly)).
(* ImplementsInterfaces : ImplementsInterfaces & NamedType | implements &? NamedType *)
Definition RgImplementsInterfaces : rg_lang :=
  LSeq (RgKw rg_s_implements) (LSeq (LOpt (RgPunct TkAmp))
    (LSeq RgName (LStar (LSeq (RgPunct TkAmp) RgName)))).
(* UnionMemberTypes : UnionMemberTypes | NamedType | = |? NamedType *)
Definition RgUnionMemberTypes : rg_lang :=
  LSeq (RgPunct TkEq) (LSeq (LOpt (RgPunct TkPipe))
    (LSeq RgName (LStar (LSeq (RgPunct TkPipe) RgName)))).
(* EnumValueDefinition : Description? EnumValue Directives[Const]? *)
Definition RgEnumValueDefinition : rg_lang :=
  LSeq RgDescriptionOpt
    (LSeq (LTok (rg_is_name_but [rg_s_true; rg_s_false; rg_s_null])) (RgDirectivesOpt true)).
Definition RgEnumValuesDefinition : rg_lang :=
  LSeq (RgPunct TkLCurly) (LSeq (LPlus RgEnumValueDefinition) (RgPunct TkRCurly)).
(* RootOperationTypeDefinition : OperationType : NamedType *)
Definition RgRootOperationTypeDefinition : rg_lang :=
  LSeq (LTok rg_is_optype) (LSeq (RgPunct TkColon) RgName).
Definition RgRootOperationTypes : rg_lang :=
  LSeq (RgPunct TkLCurly) (LSeq (LPlus RgRootOperationTypeDefinition) (RgPunct TkRCurly)).
(* DirectiveLocations : DirectiveLocations | DirectiveLocation | |? DirectiveLocation *)
Definition RgDirectiveLocations : rg_lang :=
  LSeq (LOpt (RgPunct TkPipe)) (LSeq (LTok rg_is_location)
    (LStar (LSeq (RgPunct TkPipe) (LTok rg_is_location)))).

(* what follows the name of an object / interface type: ImplementsInterfaces? Directives[Const]? *)
Definition RgImplDirs : rg_lang := LSeq (LOpt RgImplementsInterfaces) (RgDirectivesOpt true).
(* DirectiveDefinition after `directive @ Name` : ArgumentsDefinition? repeatable? on DirectiveLocations *)
Definition RgDirectiveDefTail : rg_lang :=
  LSeq (LOpt RgArgumentsDefinition) (LSeq (LOpt (RgKw rg_s_repeatable))
    (LSeq (RgKw rg_s_on) RgDirectiveLocations)).

Inductive RgTsDefinition : bool -> list rg_token -> rg_def -> Prop :=
(* ---- TypeSystemDefinition ---- *)
| RgTD_schema desc kw dirs ops :       (* Description? schema Directives[Const]? { RootOperationTypeDefinition+ } *)
    RgDescriptionOpt desc -> rg_is_kw rg_s_schema kw = true -> RgDirectivesOpt true dirs ->
    RgRootOperationTypes ops -> RgTsDefinition false (desc ++ kw :: dirs ++ ops) (RgkSchemaDef, None)
| RgTD_scalar desc kw w dirs :         (* Description? scalar Name Directives[Const]? *)
    RgDescriptionOpt desc -> rg_is_kw rg_s_scalar kw = true -> RgDirectivesOpt true dirs ->
    RgTsDefinition false (desc ++ kw :: (TkName, w) :: dirs) (RgkScalarDef, Some w)
| RgTD_object desc kw w idirs :        (* Description? type Name ImplementsInterfaces? Directives[Const]? [lookahead != {] *)
    RgDescriptionOpt desc -> rg_is_kw rg_s_type kw = true -> RgImplDirs idirs ->
    RgTsDefinition true (desc ++ kw :: (TkName, w) :: idirs) (RgkObjectDef, Some w)
| RgTD_object_fields desc kw w idirs fields :  (* ... FieldsDefinition *)
    RgDescriptionOpt desc -> rg_is_kw rg_s_type kw = true -> RgImplDirs idirs -> RgFieldsDefinition fields ->
    RgTsDefinition false (desc ++ kw :: (TkName, w) :: idirs ++ fields) (RgkObjectDef, Some w)
| RgTD_interface desc kw w idirs :
    RgDescriptionOpt desc -> rg_is_kw rg_s_interface kw = true -> RgImplDirs idirs ->
    RgTsDefinition true (desc ++ kw :: (TkName, w) :: idirs) (RgkInterfaceDef, Some w)
| RgTD_interface_fields desc kw w idirs fields :
    RgDescriptionOpt desc -> rg_is_kw rg_s_interface kw = true -> RgImplDirs idirs -> RgFieldsDefinition fields ->
    RgTsDefinition false (desc ++ kw :: (TkName, w) :: idirs ++ fields) (RgkInterfaceDef, Some w)
| RgTD_union desc kw w dirs members :  (* Description? union Name Directives[Const]? UnionMemberTypes? *)
    RgDescriptionOpt desc -> rg_is_kw rg_s_union kw = true -> RgDirectivesOpt true dirs ->
    LOpt RgUnionMemberTypes members ->
    RgTsDefinition false (desc ++ kw :: (TkName, w) :: dirs ++ members) (RgkUnionDef, Some w)
| RgTD_enum desc kw w dirs :           (* Description? enum Name Directives[Const]? [lookahead != {] *)
    RgDescriptionOpt desc -> rg_is_kw rg_s_enum kw = true -> RgDirectivesOpt true dirs ->
    RgTsDefinition true (desc ++ kw :: (TkName, w) :: dirs) (RgkEnumDef, Some w)
| RgTD_enum_values desc kw w dirs vals :
    RgDescriptionOpt desc -> rg_is_kw rg_s_enum kw = true -> RgDirectivesOpt true dirs ->
    RgEnumValuesDefinition vals ->
    RgTsDefinition false (desc ++ kw :: (TkName, w) :: dirs ++ vals) (RgkEnumDef, Some w)
| RgTD_input desc kw w dirs :          (* Description? input Name Directives[Const]? [lookahead != {] *)
    RgDescriptionOpt desc -> rg_is_kw rg_s_input kw = true -> RgDirectivesOpt true dirs ->
    RgTsDefinition true (desc ++ kw :: (TkName, w) :: dirs) (RgkInputDef, Some w)
| RgTD_input_fields desc kw w dirs fields :
    RgDescriptionOpt desc -> rg_is_kw rg_s_input kw = true -> RgDirectivesOpt true dirs ->
    RgInputFieldsDefinition fields ->
    RgTsDefinition false (desc ++ kw :: (TkName, w) :: dirs ++ fields) (RgkInputDef, Some w)
| RgTD_directive desc kw att w tail :   (* Description? directive @ Name ArgumentsDefinition? repeatable? on DirectiveLocations *)
    RgDescriptionOpt desc -> rg_is_kw rg_s_directive kw = true -> rg_is TkAt att = true -> RgDirectiveDefTail tail ->
    RgTsDefinition false (desc ++ kw :: att :: (TkName, w) :: tail) (RgkDirectiveDef, Some w)
(* ---- TypeSystemExtension (no description; every alternative adds something) ---- *)
| RgTE_schema_ops ext kw dirs ops :    (* extend schema Directives[Const]? { RootOperationTypeDefinition+ } *)
    rg_is_kw rg_s_extend ext = true -> rg_is_kw rg_s_schema kw = true -> RgDirectivesOpt true dirs ->
    RgRootOperationTypes ops -> RgTsDefinition false (ext :: kw :: dirs ++ ops) (RgkSchemaExt, None)
| RgTE_schema_dirs ext kw dirs :       (* extend schema Directives[Const] [lookahead != {] *)
    rg_is_kw rg_s_extend ext = true -> rg_is_kw rg_s_schema kw = true -> RgDirectivesConst dirs ->
    RgTsDefinition true (ext :: kw :: dirs) (RgkSchemaExt, None)
| RgTE_scalar ext kw w dirs :          (* extend scalar Name Directives[Const] *)
    rg_is_kw rg_s_extend ext = true -> rg_is_kw rg_s_scalar kw = true -> RgDirectivesConst dirs ->
    RgTsDefinition false (ext :: kw :: (TkName, w) :: dirs) (RgkScalarExt, Some w)
| RgTE_object_fields ext kw w idirs fields :   (* extend type Name ImplementsInterfaces? Directives[Const]? FieldsDefinition *)
    rg_is_kw rg_s_extend ext = true -> rg_is_kw rg_s_type kw = true -> RgImplDirs idirs -> RgFieldsDefinition fields ->
    RgTsDefinition false (ext :: kw :: (TkName, w) :: idirs ++ fields) (RgkObjectExt, Some w)
| RgTE_object_dirs ext kw w impl dirs :        (* extend type Name ImplementsInterfaces? Directives[Const] [lookahead != {] *)
    rg_is_kw rg_s_extend ext = true -> rg_is_kw rg_s_type kw = true -> LOpt RgImplementsInterfaces impl ->
    RgDirectivesConst dirs ->
    RgTsDefinition true (ext :: kw :: (TkName, w) :: impl ++ dirs) (RgkObjectExt, Some w)
| RgTE_object_impl ext kw w impl :             (* extend type Name ImplementsInterfaces [lookahead != {] *)
    rg_is_kw rg_s_extend ext = true -> rg_is_kw rg_s_type kw = true -> RgImplementsInterfaces impl ->
    RgTsDefinition true (ext :: kw :: (TkName, w) :: impl) (RgkObjectExt, Some w)
| RgTE_interface_fields ext kw w idirs fields :
    rg_is_kw rg_s_extend ext = true -> rg_is_kw rg_s_interface kw = true -> RgImplDirs idirs ->
    RgFieldsDefinition fields ->
    RgTsDefinition false (ext :: kw :: (TkName, w) :: idirs ++ fields) (RgkInterfaceExt, Some w)
| RgTE_interface_dirs ext kw w impl dirs :
    rg_is_kw rg_s_extend ext = true -> rg_is_kw rg_s_interface kw = true -> LOpt RgImplementsInterfaces impl ->
    RgDirectivesConst dirs ->
    RgTsDefinition true (ext :: kw :: (TkName, w) :: impl ++ dirs) (RgkInterfaceExt, Some w)
| RgTE_interface_impl ext kw w impl :
    rg_is_kw rg_s_extend ext = true -> rg_is_kw rg_s_interface kw = true -> RgImplementsInterfaces impl ->
    RgTsDefinition true (ext :: kw :: (TkName, w) :: impl) (RgkInterfaceExt, Some w)
| RgTE_union_members ext kw w dirs members :   (* extend union Name Directives[Const]? UnionMemberTypes *)
    rg_is_kw rg_s_extend ext = true -> rg_is_kw rg_s_union kw = true -> RgDirectivesOpt true dirs ->
    RgUnionMemberTypes members ->
    RgTsDefinition false (ext :: kw :: (TkName, w) :: dirs ++ members) (RgkUnionExt, Some w)
| RgTE_union_dirs ext kw w dirs :              (* extend union Name Directives[Const] *)
    rg_is_kw rg_s_extend ext = true -> rg_is_kw rg_s_union kw = true -> RgDirectivesConst dirs ->
    RgTsDefinition false (ext :: kw :: (TkName, w) :: dirs) (RgkUnionExt, Some w)
| RgTE_enum_values ext kw w dirs vals :        (* extend enum Name Directives[Const]? EnumValuesDefinition *)
    rg_is_kw rg_s_extend ext = true -> rg_is_kw rg_s_enum kw = true -> RgDirectivesOpt true dirs ->
    RgEnumValuesDefinition vals ->
    RgTsDefinition false (ext :: kw :: (TkName, w) :: dirs ++ vals) (RgkEnumExt, Some w)
| RgTE_enum_dirs ext kw w dirs :               (* extend enum Name Directives[Const] [lookahead != {] *)
    rg_is_kw rg_s_extend ext = true -> rg_is_kw rg_s_enum kw = true -> RgDirectivesConst dirs ->
    RgTsDefinition true (ext :: kw :: (TkName, w) :: dirs) (RgkEnumExt, Some w)
| RgTE_input_fields ext kw w dirs fields :     (* extend input Name Directives[Const]? InputFieldsDefinition *)
    rg_is_kw rg_s_extend ext = true -> rg_is_kw rg_s_input kw = true -> RgDirectivesOpt true dirs ->
    RgInputFieldsDefinition fields ->
    RgTsDefinition false (ext :: kw :: (TkName, w) :: dirs ++ fields) (RgkInputExt, Some w)
| RgTE_input_dirs ext kw w dirs :              (* extend input Name Directives[Const] [lookahead != {] *)
    rg_is_kw rg_s_extend ext = true -> rg_is_kw rg_s_input kw = true -> RgDirectivesConst dirs ->
    RgTsDefinition true (ext :: kw :: (TkName, w) :: dirs) (RgkInputExt, Some w).

(* Definition : ExecutableDefinition | TypeSystemDefinition | TypeSystemExtension *)
Inductive RgDefinition : bool -> list rg_token -> rg_def -> Prop :=
| RgDef_exec l d : RgExecDefinition l d -> RgDefinition false l d
| RgDef_ts o l d : RgTsDefinition o l d -> RgDefinition o l d.

(* Document : Definition+ *)
Definition RgDocument : list rg_token -> list rg_def -> Prop := RgDocOf RgDefinition.
