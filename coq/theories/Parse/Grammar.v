(* crates/apollo-parser/src/parser/grammar/*.rs : one definition per function, same names, same order of
   tests.  `let _g = p.start_node(K); ...` is `node K (...)` (the guard finishes the node at scope exit,
   early returns included).  Loops (peek_while, peek_while_kind, parse_separated_list) and the recursive
   families (value/list_value/object_value/object_field, selection_set/selection/field/inline_fragment,
   ty::parse) take `fuel`: a bound on nesting depth and on the iterations of each loop. *)
From ApolloVerif Require Import Base.Chars Lex.Item Parse.Outcome Parse.Builder Parse.Limits Parse.Monad
  Parse.Keywords.

(* if let Some(k) = p.peek() *)
Definition g_peek_is (k : tkind) : PM bool :=
  o <- p_peek ;; p_ret (match o with Some x => tkind_eqb x k | None => false end).
Definition g_peek_in (ks : list tkind) : PM bool :=
  o <- p_peek ;; p_ret (match o with Some x => existsb (tkind_eqb x) ks | None => false end).
(* if let Some("kw") = p.peek_data() *)
Definition g_peek_data_is (kw : str) : PM bool :=
  o <- p_peek_data ;; p_ret (match o with Some d => p_str_eqb d kw | None => false end).
Definition g_if_peek (k : tkind) (m : PM unit) : PM unit := b <- g_peek_is k ;; p_when b m.

Inductive g_constness := GConst | GNotConst.

(* ------------------------------------------------------------------ name.rs *)
Definition g_is_start_char := is_name_start.
Definition g_is_remainder_char := is_name_continue.

Definition g_validate_name (g_name : str) : PM unit :=
  p_when (negb (match g_name with c :: _ => g_is_start_char c | [] => false end)) p_err_and_pop ;;
  if 2 <=? blen g_name then
    match g_name with
    | c :: r =>
        (* name[1..] : byte 1 must be a char boundary *)
        if u8len c =? 1 then p_when (negb (forallb g_is_remainder_char r)) p_err_and_pop
        else p_panic PnNameSlice
    | [] => p_ret tt
    end
  else p_ret tt.

Definition g_name : PM unit :=
  o <- p_peek_token ;;
  match o with
  | Some token =>
      if tkind_eqb (tok_kind token) TkName then
        p_node SK_NAME (g_validate_name (tok_data token) ;; p_bump SK_IDENT)
      else p_err
  | None => p_err
  end.

Definition g_alias : PM unit := p_node SK_ALIAS (g_name ;; p_bump SK_COLON).

(* ------------------------------------------------------------------ description.rs *)
Definition g_description : PM unit := p_node SK_DESCRIPTION (p_node SK_STRING_VALUE (p_bump SK_STRING)).

(* ------------------------------------------------------------------ ty.rs *)
(* Result<(), Option<Token>> *)
Inductive g_tyres := GTyOk | GTyErr (t : option prstoken).

Definition g_parse_body (parse_rec : PM g_tyres) : PM g_tyres :=
  checkpoint <- p_checkpoint_node ;;
  o <- p_peek ;;
  early <-
    match o with
    | Some TkLBracket =>
        p_node SK_LIST_TYPE (
          p_bump SK_L_BRACK ;;
          p_rec_guard
            (p_limit_err ;; p_ret (Some GTyOk))                        (* return Ok(()) *)
            parse_rec
            (fun result =>
               match result with GTyErr (Some token) => p_err_at_token token | _ => p_ret tt end ;;
               p_expect TkRBracket SK_R_BRACK ;;
               p_ret None))
    | Some TkName =>
        p_node SK_NAMED_TYPE (p_node SK_NAME (
          token <- p_pop ;;
          g_validate_name (tok_data token) ;;
          p_push_token SK_IDENT token)) ;;
        p_ret None
    | Some _ => t <- p_pop ;; p_ghost_dropped t ;; p_ret (Some (GTyErr (Some t)))   (* return Err(Some(p.pop())) *)
    | None => p_ret (Some (GTyErr None))                          (* return Err(None) *)
    end ;;
  match early with
  | Some r => p_ret r
  | None =>
      p_skip_ignored ;;
      b <- g_peek_is TkBang ;;
      p_when b (p_wrap_node checkpoint SK_NON_NULL_TYPE ;; p_eat SK_BANG ;; p_finish_node) ;;
      p_skip_ignored ;;
      p_ret GTyOk
  end.

Fixpoint g_parse (fuel : nat) : PM g_tyres :=
  match fuel with
  | O => p_out_of_fuel
  | S f => g_parse_body (g_parse f)
  end.

Definition g_ty (fuel : nat) : PM unit :=
  r <- g_parse fuel ;;
  match r with
  | GTyOk => p_ret tt
  | GTyErr (Some token) => p_err_at_token token
  | GTyErr None => p_err
  end.

Definition g_named_type : PM unit :=
  b <- g_peek_is TkName ;; p_when b (p_node SK_NAMED_TYPE g_name).

(* ------------------------------------------------------------------ variable.rs (variable) *)
Definition g_variable : PM unit := p_node SK_VARIABLE (p_bump SK_DOLLAR ;; g_name).

(* ------------------------------------------------------------------ value.rs *)
Definition g_enum_value : PM unit :=
  p_node SK_ENUM_VALUE (
    o <- p_peek_token ;;
    match o with
    | Some token =>
        if tkind_eqb (tok_kind token) TkName then
          p_when (p_str_eqb (tok_data token) pkw_true || p_str_eqb (tok_data token) pkw_false || p_str_eqb (tok_data token) pkw_null) p_err ;;
          g_name
        else p_err
    | None => p_err
    end).

Definition g_error_or_pop (pop_on_error : bool) : PM unit :=
  if pop_on_error then p_err_and_pop else p_err.

Definition g_list_value_ (g_value : g_constness -> bool -> PM unit) (fuel : nat) (c : g_constness) : PM unit :=
  p_node SK_LIST_VALUE (
    p_bump SK_L_BRACK ;;
    p_peek_while fuel (fun node_ =>
      if tkind_eqb node_ TkRBracket then p_bump SK_R_BRACK ;; p_ret false
      else if tkind_eqb node_ TkEof then p_ret false
      else
        p_rec_guard (p_limit_err ;; p_ret false) (g_value c true) (fun _ => p_ret true))).

Definition g_object_field_ (g_value : g_constness -> bool -> PM unit) (c : g_constness) : PM unit :=
  p_node SK_OBJECT_FIELD (
    g_name ;;
    b <- g_peek_is TkColon ;;
    if b then
      p_bump SK_COLON ;;
      p_rec_guard p_limit_err (* return *) (g_value c true) (fun _ => p_ret tt)
    else p_err).

Definition g_object_value_ (g_value : g_constness -> bool -> PM unit) (fuel : nat) (c : g_constness) : PM unit :=
  p_node SK_OBJECT_VALUE (
    p_bump SK_L_CURLY ;;
    p_peek_while_kind fuel TkName (g_object_field_ g_value c) ;;
    p_expect TkRCurly SK_R_CURLY).

Definition g_value_body (g_value : g_constness -> bool -> PM unit) (fuel : nat) (c : g_constness)
  (pop_on_error : bool) : PM unit :=
  o <- p_peek ;;
  match o with
  | Some TkDollar =>
      match c with GConst => g_error_or_pop pop_on_error | GNotConst => p_ret tt end ;;
      g_variable
  | Some TkInt => p_node SK_INT_VALUE (p_bump SK_INT)
  | Some TkFloat => p_node SK_FLOAT_VALUE (p_bump SK_FLOAT)
  | Some TkStringValue => p_node SK_STRING_VALUE (p_bump SK_STRING)
  | Some TkName =>
      t <- p_peek_token ;;
      match t with
      | Some token =>
          if p_str_eqb (tok_data token) pkw_true then p_node SK_BOOLEAN_VALUE (p_bump SK_true_KW)
          else if p_str_eqb (tok_data token) pkw_false then p_node SK_BOOLEAN_VALUE (p_bump SK_false_KW)
          else if p_str_eqb (tok_data token) pkw_null then p_node SK_NULL_VALUE (p_bump SK_null_KW)
          else g_enum_value
      | None => p_ret tt
      end
  | Some TkLBracket => g_list_value_ g_value fuel c
  | Some TkLCurly => g_object_value_ g_value fuel c
  | _ => g_error_or_pop pop_on_error
  end.

Fixpoint g_value (fuel : nat) (c : g_constness) (pop_on_error : bool) : PM unit :=
  match fuel with
  | O => p_out_of_fuel
  | S f => g_value_body (g_value f) f c pop_on_error
  end.

Definition g_list_value (fuel : nat) (c : g_constness) : PM unit := g_list_value_ (g_value fuel) fuel c.
Definition g_object_value (fuel : nat) (c : g_constness) : PM unit := g_object_value_ (g_value fuel) fuel c.
Definition g_object_field (fuel : nat) (c : g_constness) : PM unit := g_object_field_ (g_value fuel) c.

Definition g_default_value (fuel : nat) : PM unit :=
  p_node SK_DEFAULT_VALUE (p_bump SK_EQ ;; g_value fuel GConst false).

(* ------------------------------------------------------------------ argument.rs (argument, arguments) *)
Definition g_argument (fuel : nat) (c : g_constness) : PM unit :=
  p_node SK_ARGUMENT (
    g_name ;;
    b <- g_peek_is TkColon ;;
    if b then p_bump SK_COLON ;; g_value fuel c false else p_err).

Definition g_arguments (fuel : nat) (c : g_constness) : PM unit :=
  p_node SK_ARGUMENTS (
    p_bump SK_L_PAREN ;;
    b <- g_peek_is TkName ;;
    (if b then g_argument fuel c else p_err) ;;
    p_peek_while_kind fuel TkName (g_argument fuel c) ;;
    p_expect TkRParen SK_R_PAREN).

(* ------------------------------------------------------------------ directive.rs (directive, directives) *)
Definition g_directive (fuel : nat) (c : g_constness) : PM unit :=
  p_node SK_DIRECTIVE (
    p_expect TkAt SK_AT ;;
    g_name ;;
    g_if_peek TkLParen (g_arguments fuel c)).

Definition g_directives (fuel : nat) (c : g_constness) : PM unit :=
  p_node SK_DIRECTIVES (p_peek_while_kind fuel TkAt (g_directive fuel c)).

(* ------------------------------------------------------------------ input.rs (input_value_definition) *)
Definition g_input_value_definition (fuel : nat) : PM unit :=
  p_node SK_INPUT_VALUE_DEFINITION (
    g_if_peek TkStringValue g_description ;;
    g_name ;;
    b <- g_peek_is TkColon ;;
    if b then
      p_bump SK_COLON ;;
      t <- g_peek_in [TkName; TkLBracket] ;;
      if t then
        g_ty fuel ;;
        g_if_peek TkEq (g_default_value fuel) ;;
        g_if_peek TkAt (g_directives fuel GConst)
      else p_err
    else p_err).

(* ------------------------------------------------------------------ argument.rs (arguments_definition) *)
Definition g_arguments_definition_body (fuel : nat) : PM unit :=
  p_bump SK_L_PAREN ;;
  b <- g_peek_in [TkName; TkStringValue] ;;
  (if b then g_input_value_definition fuel else p_err) ;;
  p_peek_while fuel (fun kind =>
    match kind with
    | TkName | TkStringValue => g_input_value_definition fuel ;; p_ret true
    | _ => p_ret false
    end) ;;
  p_expect TkRParen SK_R_PAREN.

Definition g_arguments_definition (fuel : nat) : PM unit :=
  p_node SK_ARGUMENTS_DEFINITION (g_arguments_definition_body fuel).

(* ------------------------------------------------------------------ directive.rs (definition, locations) *)
Definition g_directive_location_kw (d : str) : option skind :=
  if p_str_eqb d pkw_QUERY then Some SK_QUERY_KW
  else if p_str_eqb d pkw_MUTATION then Some SK_MUTATION_KW
  else if p_str_eqb d pkw_SUBSCRIPTION then Some SK_SUBSCRIPTION_KW
  else if p_str_eqb d pkw_FIELD then Some SK_FIELD_KW
  else if p_str_eqb d pkw_FRAGMENT_DEFINITION then Some SK_FRAGMENT_DEFINITION_KW
  else if p_str_eqb d pkw_FRAGMENT_SPREAD then Some SK_FRAGMENT_SPREAD_KW
  else if p_str_eqb d pkw_INLINE_FRAGMENT then Some SK_INLINE_FRAGMENT_KW
  else if p_str_eqb d pkw_VARIABLE_DEFINITION then Some SK_VARIABLE_DEFINITION_KW
  else if p_str_eqb d pkw_SCHEMA then Some SK_SCHEMA_KW
  else if p_str_eqb d pkw_SCALAR then Some SK_SCALAR_KW
  else if p_str_eqb d pkw_OBJECT then Some SK_OBJECT_KW
  else if p_str_eqb d pkw_FIELD_DEFINITION then Some SK_FIELD_DEFINITION_KW
  else if p_str_eqb d pkw_ARGUMENT_DEFINITION then Some SK_ARGUMENT_DEFINITION_KW
  else if p_str_eqb d pkw_INTERFACE then Some SK_INTERFACE_KW
  else if p_str_eqb d pkw_UNION then Some SK_UNION_KW
  else if p_str_eqb d pkw_ENUM then Some SK_ENUM_KW
  else if p_str_eqb d pkw_ENUM_VALUE then Some SK_ENUM_VALUE_KW
  else if p_str_eqb d pkw_INPUT_OBJECT then Some SK_INPUT_OBJECT_KW
  else if p_str_eqb d pkw_INPUT_FIELD_DEFINITION then Some SK_INPUT_FIELD_DEFINITION_KW
  else None.

Definition g_directive_location : PM unit :=
  o <- p_peek_token ;;
  match o with
  | None => p_ret tt
  | Some token =>
      if tkind_eqb (tok_kind token) TkName then
        match g_directive_location_kw (tok_data token) with
        | Some kw => p_node SK_DIRECTIVE_LOCATION (p_bump kw)
        | None => p_err
        end
      else p_err
  end.

Definition g_directive_locations (fuel : nat) : PM unit :=
  p_parse_separated_list fuel TkPipe SK_PIPE g_directive_location.

Definition g_directive_definition (fuel : nat) : PM unit :=
  p_node SK_DIRECTIVE_DEFINITION (
    g_if_peek TkStringValue g_description ;;
    b <- g_peek_data_is pkw_directive ;; p_when b (p_bump SK_directive_KW) ;;
    a <- g_peek_is TkAt ;; (if a then p_bump SK_AT else p_err) ;;
    g_name ;;
    g_if_peek TkLParen (p_node SK_ARGUMENTS_DEFINITION (g_arguments_definition_body fuel)) ;;
    r <- g_peek_data_is pkw_repeatable ;; p_when r (p_bump SK_repeatable_KW) ;;
    d <- p_peek_data ;;
    match d with
    | Some node_ => if p_str_eqb node_ pkw_on then p_bump SK_on_KW else p_err
    | None => p_ret tt
    end ;;
    l <- g_peek_in [TkName; TkPipe] ;;
    if l then p_node SK_DIRECTIVE_LOCATIONS (g_directive_locations fuel) else p_err).

(* ------------------------------------------------------------------ variable.rs (definitions) *)
Definition g_variable_definition (fuel : nat) : PM unit :=
  p_node SK_VARIABLE_DEFINITION (
    g_variable ;;
    b <- g_peek_is TkColon ;;
    if b then
      p_bump SK_COLON ;;
      t <- g_peek_in [TkName; TkLBracket] ;;
      if t then
        g_ty fuel ;;
        g_if_peek TkEq (g_default_value fuel) ;;
        g_if_peek TkAt (g_directives fuel GConst)
      else p_err
    else p_err).

Definition g_variable_definitions (fuel : nat) : PM unit :=
  p_node SK_VARIABLE_DEFINITIONS (
    p_bump SK_L_PAREN ;;
    b <- g_peek_is TkDollar ;;
    (if b then g_variable_definition fuel else p_err) ;;
    p_peek_while_kind fuel TkDollar (g_variable_definition fuel) ;;
    p_expect TkRParen SK_R_PAREN).

(* ------------------------------------------------------------------ fragment.rs (name, condition, spread) *)
Definition g_fragment_name : PM unit :=
  p_node SK_FRAGMENT_NAME (
    o <- p_peek_token ;;
    match o with
    | Some token =>
        if tkind_eqb (tok_kind token) TkName && p_str_eqb (tok_data token) pkw_on then p_err
        else if tkind_eqb (tok_kind token) TkName then g_name
        else p_err
    | None => p_err
    end).

Definition g_type_condition : PM unit :=
  p_node SK_TYPE_CONDITION (
    o <- p_peek_token ;;
    match o with
    | Some token =>
        (if tkind_eqb (tok_kind token) TkName && p_str_eqb (tok_data token) pkw_on then p_bump SK_on_KW else p_err) ;;
        b <- g_peek_is TkName ;;
        if b then g_named_type else p_err
    | None => p_err
    end).

Definition g_fragment_spread (fuel : nat) : PM unit :=
  p_node SK_FRAGMENT_SPREAD (
    p_bump SK_SPREAD ;;
    b <- g_peek_is TkName ;;
    (if b then g_fragment_name else p_err) ;;
    g_if_peek TkAt (g_directives fuel GNotConst)).

(* ------------------------------------------------------------------ selection.rs / field.rs / fragment.rs *)
Definition g_field_ (g_selection_set : PM unit) (fuel : nat) : PM unit :=
  p_node SK_FIELD (
    b <- g_peek_is TkName ;;
    (if b then
       n2 <- p_peek_n 2 ;;
       p_when (match n2 with Some TkColon => true | _ => false end) g_alias ;;
       g_name
     else p_err) ;;
    g_if_peek TkLParen (g_arguments fuel GNotConst) ;;
    g_if_peek TkAt (g_directives fuel GNotConst) ;;
    g_if_peek TkLCurly g_selection_set).

Definition g_inline_fragment_ (g_selection_set : PM unit) (fuel : nat) : PM unit :=
  p_node SK_INLINE_FRAGMENT (
    p_bump SK_SPREAD ;;
    g_if_peek TkName g_type_condition ;;
    g_if_peek TkAt (g_directives fuel GNotConst) ;;
    b <- g_peek_is TkLCurly ;;
    if b then g_selection_set else p_err).

Definition g_selection_ (g_selection_set : PM unit) (fuel : nat) : PM unit :=
  has_selection <-
    p_peek_while_acc fuel (fun has_selection kind =>
      match kind with
      | TkSpread =>
          p_next_token <- p_peek_token_n 2 ;;
          match p_next_token with
          | Some nt =>
              (if tkind_eqb (tok_kind nt) TkName && negb (p_str_eqb (tok_data nt) pkw_on) then g_fragment_spread fuel
               else if existsb (tkind_eqb (tok_kind nt)) [TkAt; TkName; TkLCurly] then g_inline_fragment_ g_selection_set fuel
               else p_err ;; p_bump SK_SPREAD) ;;
              p_ret (true, true)
          | None => p_err_and_pop ;; p_ret (has_selection, false)
          end
      | TkLCurly => p_ret (has_selection, false)
      | TkName => g_field_ g_selection_set fuel ;; p_ret (true, true)
      | _ => p_ret (has_selection, false)
      end) false ;;
  p_when (negb has_selection) p_err.

Definition g_selection_set_body (g_selection_set : PM unit) (fuel : nat) : PM unit :=
  b <- g_peek_is TkLCurly ;;
  p_when b (
    p_node SK_SELECTION_SET (
      p_bump SK_L_CURLY ;;
      p_rec_guard p_limit_err (* return *)
        (g_selection_ g_selection_set fuel)
        (fun _ => p_expect TkRCurly SK_R_CURLY))).

Fixpoint g_selection_set (fuel : nat) : PM unit :=
  match fuel with
  | O => p_out_of_fuel
  | S f => g_selection_set_body (g_selection_set f) f
  end.

Definition g_selection (fuel : nat) : PM unit := g_selection_ (g_selection_set fuel) fuel.
Definition g_field (fuel : nat) : PM unit := g_field_ (g_selection_set fuel) fuel.
Definition g_inline_fragment (fuel : nat) : PM unit := g_inline_fragment_ (g_selection_set fuel) fuel.

Definition g_field_set (fuel : nat) : PM unit :=
  p_node SK_SELECTION_SET (
    braces <- g_peek_is TkLCurly ;;
    p_when braces (p_bump SK_L_CURLY) ;;
    p_rec_guard p_limit_err (* return *)
      (g_selection fuel)
      (fun _ =>
         p_when braces (p_expect TkRCurly SK_R_CURLY) ;;
         p_trailing_tokens_are_errors fuel)).

(* ------------------------------------------------------------------ fragment.rs (definition) *)
Definition g_fragment_definition (fuel : nat) : PM unit :=
  (* the document dispatch looks through a leading string at the keyword; a fragment definition has no description *)
  d <- g_peek_is TkStringValue ;;
  if d then p_err_and_pop (* return *)
  else
    p_node SK_FRAGMENT_DEFINITION (
      p_bump SK_fragment_KW ;;
      g_fragment_name ;;
      g_type_condition ;;
      g_if_peek TkAt (g_directives fuel GNotConst) ;;
      b <- g_peek_is TkLCurly ;;
      if b then g_selection_set fuel else p_err).

(* ------------------------------------------------------------------ operation.rs *)
Definition g_operation_type : PM unit :=
  o <- p_peek_data ;;
  match o with
  | Some node_ =>
      p_node SK_OPERATION_TYPE (
        if p_str_eqb node_ pkw_query then p_bump SK_query_KW
        else if p_str_eqb node_ pkw_subscription then p_bump SK_subscription_KW
        else if p_str_eqb node_ pkw_mutation then p_bump SK_mutation_KW
        else p_err_and_pop)
  | None => p_ret tt
  end.

Definition g_operation_definition (fuel : nat) : PM unit :=
  o <- p_peek ;;
  match o with
  | Some TkName =>
      p_node SK_OPERATION_DEFINITION (
        g_operation_type ;;
        g_if_peek TkName g_name ;;
        g_if_peek TkLParen (g_variable_definitions fuel) ;;
        g_if_peek TkAt (g_directives fuel GNotConst) ;;
        b <- g_peek_is TkLCurly ;;
        if b then g_selection_set fuel else p_err_and_pop)
  | Some TkLCurly => p_node SK_OPERATION_DEFINITION (g_selection_set fuel)
  | _ => p_err_and_pop
  end.

(* ------------------------------------------------------------------ field.rs (definitions) *)
Definition g_field_definition (fuel : nat) : PM unit :=
  p_node SK_FIELD_DEFINITION (
    g_if_peek TkStringValue g_description ;;
    g_name ;;
    g_if_peek TkLParen (g_arguments_definition fuel) ;;
    b <- g_peek_is TkColon ;;
    if b then
      p_bump SK_COLON ;;
      t <- g_peek_in [TkName; TkLBracket] ;;
      if t then
        g_ty fuel ;;
        g_if_peek TkAt (g_directives fuel GConst) ;;
        _ <- p_peek ;; p_ret tt               (* if p.peek().is_some() { return; } *)
      else p_err
    else p_err).

Definition g_fields_definition (fuel : nat) : PM unit :=
  p_node SK_FIELDS_DEFINITION (
    p_bump SK_L_CURLY ;;
    b <- g_peek_in [TkName; TkStringValue] ;;
    (if b then g_field_definition fuel else p_err) ;;
    p_peek_while fuel (fun kind =>
      match kind with
      | TkName | TkStringValue => g_field_definition fuel ;; p_ret true
      | _ => p_ret false
      end) ;;
    p_expect TkRCurly SK_R_CURLY).

(* ------------------------------------------------------------------ object.rs *)
Definition g_implements_interfaces (fuel : nat) : PM unit :=
  p_node SK_IMPLEMENTS_INTERFACES (
    p_bump SK_implements_KW ;;
    p_parse_separated_list fuel TkAmp SK_AMP (
      b <- g_peek_is TkName ;;
      if b then g_named_type else p_err)).

Definition g_name_or_err : PM unit :=       (* match p.peek() { Some(Name) => name::name(p), _ => p.err(..) } *)
  b <- g_peek_is TkName ;; if b then g_name else p_err.

Definition g_object_type_definition (fuel : nat) : PM unit :=
  p_node SK_OBJECT_TYPE_DEFINITION (
    g_if_peek TkStringValue g_description ;;
    b <- g_peek_data_is pkw_type ;; p_when b (p_bump SK_type_KW) ;;
    g_name_or_err ;;
    o <- p_peek_token ;;
    match o with
    | Some token =>
        p_when (tkind_eqb (tok_kind token) TkName && p_str_eqb (tok_data token) pkw_implements) (g_implements_interfaces fuel)
    | None => p_ret tt
    end ;;
    g_if_peek TkAt (g_directives fuel GConst) ;;
    g_if_peek TkLCurly (g_fields_definition fuel)).

Definition g_object_type_extension (fuel : nat) : PM unit :=
  p_node SK_OBJECT_TYPE_EXTENSION (
    p_bump SK_extend_KW ;;
    p_bump SK_type_KW ;;
    g_name_or_err ;;
    i <- g_peek_data_is pkw_implements ;; p_when i (g_implements_interfaces fuel) ;;
    d <- g_peek_is TkAt ;; p_when d (g_directives fuel GConst) ;;
    f <- g_peek_is TkLCurly ;; p_when f (g_fields_definition fuel) ;;
    p_when (negb (i || d || f)) p_err).

(* ------------------------------------------------------------------ interface.rs *)
Definition g_interface_type_definition (fuel : nat) : PM unit :=
  p_node SK_INTERFACE_TYPE_DEFINITION (
    g_if_peek TkStringValue g_description ;;
    b <- g_peek_data_is pkw_interface ;; p_when b (p_bump SK_interface_KW) ;;
    g_name_or_err ;;
    i <- g_peek_data_is pkw_implements ;; p_when i (g_implements_interfaces fuel) ;;
    g_if_peek TkAt (g_directives fuel GConst) ;;
    g_if_peek TkLCurly (g_fields_definition fuel)).

Definition g_interface_type_extension (fuel : nat) : PM unit :=
  p_node SK_INTERFACE_TYPE_EXTENSION (
    p_bump SK_extend_KW ;;
    p_bump SK_interface_KW ;;
    g_name_or_err ;;
    i <- g_peek_data_is pkw_implements ;; p_when i (g_implements_interfaces fuel) ;;
    d <- g_peek_is TkAt ;; p_when d (g_directives fuel GConst) ;;
    f <- g_peek_is TkLCurly ;; p_when f (g_fields_definition fuel) ;;
    p_when (negb (i || d || f)) p_err).

(* ------------------------------------------------------------------ scalar.rs *)
Definition g_scalar_type_definition (fuel : nat) : PM unit :=
  p_node SK_SCALAR_TYPE_DEFINITION (
    g_if_peek TkStringValue g_description ;;
    b <- g_peek_data_is pkw_scalar ;; p_when b (p_bump SK_scalar_KW) ;;
    g_name_or_err ;;
    g_if_peek TkAt (g_directives fuel GConst)).

Definition g_scalar_type_extension (fuel : nat) : PM unit :=
  p_node SK_SCALAR_TYPE_EXTENSION (
    p_bump SK_extend_KW ;;
    p_bump SK_scalar_KW ;;
    g_name_or_err ;;
    d <- g_peek_is TkAt ;;
    if d then g_directives fuel GConst else p_err).

(* ------------------------------------------------------------------ schema.rs *)
Definition g_root_operation_type_definition : PM unit :=
  p_node SK_ROOT_OPERATION_TYPE_DEFINITION (
    g_operation_type ;;
    b <- g_peek_is TkColon ;;
    if b then p_bump SK_COLON ;; g_named_type else p_err).

Definition g_schema_definition (fuel : nat) : PM unit :=
  p_node SK_SCHEMA_DEFINITION (
    g_if_peek TkStringValue g_description ;;
    b <- g_peek_data_is pkw_schema ;; p_when b (p_bump SK_schema_KW) ;;
    g_if_peek TkAt (g_directives fuel GConst) ;;
    b <- g_peek_is TkLCurly ;;
    if b then
      p_bump SK_L_CURLY ;;
      has_root_operation_types <-
        p_peek_while_kind_acc fuel TkName (fun _ => g_root_operation_type_definition ;; p_ret true) false ;;
      p_when (negb has_root_operation_types) p_err ;;
      p_expect TkRCurly SK_R_CURLY
    else p_err).

Definition g_schema_extension (fuel : nat) : PM unit :=
  p_node SK_SCHEMA_EXTENSION (
    p_bump SK_extend_KW ;;
    p_bump SK_schema_KW ;;
    d <- g_peek_is TkAt ;; p_when d (g_directives fuel GConst) ;;
    c <- g_peek_is TkLCurly ;;
    if c then
      p_bump SK_L_CURLY ;;
      has_root_operation_types <-
        p_peek_while_kind_acc fuel TkName (fun _ => g_root_operation_type_definition ;; p_ret true) false ;;
      p_when (negb has_root_operation_types) p_err ;;
      p_expect TkRCurly SK_R_CURLY
    else p_when (negb d) p_err).

(* ------------------------------------------------------------------ union_.rs *)
Definition g_union_member_types (fuel : nat) : PM unit :=
  p_node SK_UNION_MEMBER_TYPES (
    p_bump SK_EQ ;;
    p_parse_separated_list fuel TkPipe SK_PIPE (
      b <- g_peek_is TkName ;;
      if b then g_named_type else p_err)).

Definition g_union_type_definition (fuel : nat) : PM unit :=
  p_node SK_UNION_TYPE_DEFINITION (
    g_if_peek TkStringValue g_description ;;
    b <- g_peek_data_is pkw_union ;; p_when b (p_bump SK_union_KW) ;;
    g_name_or_err ;;
    g_if_peek TkAt (g_directives fuel GConst) ;;
    g_if_peek TkEq (g_union_member_types fuel)).

Definition g_union_type_extension (fuel : nat) : PM unit :=
  p_node SK_UNION_TYPE_EXTENSION (
    p_bump SK_extend_KW ;;
    p_bump SK_union_KW ;;
    g_name_or_err ;;
    d <- g_peek_is TkAt ;; p_when d (g_directives fuel GConst) ;;
    m <- g_peek_is TkEq ;; p_when m (g_union_member_types fuel) ;;
    p_when (negb (d || m)) p_err).

(* ------------------------------------------------------------------ enum_.rs *)
Definition g_enum_value_definition (fuel : nat) : PM unit :=
  b <- g_peek_in [TkName; TkStringValue] ;;
  p_when b (
    p_node SK_ENUM_VALUE_DEFINITION (
      g_if_peek TkStringValue g_description ;;
      g_enum_value ;;
      g_if_peek TkAt (g_directives fuel GConst))).

Definition g_enum_values_definition (fuel : nat) : PM unit :=
  p_node SK_ENUM_VALUES_DEFINITION (
    p_bump SK_L_CURLY ;;
    b <- g_peek_in [TkName; TkStringValue] ;;
    (if b then g_enum_value_definition fuel else p_err) ;;
    p_peek_while fuel (fun kind =>
      match kind with
      | TkName | TkStringValue => g_enum_value_definition fuel ;; p_ret true
      | _ => p_ret false
      end) ;;
    p_expect TkRCurly SK_R_CURLY).

Definition g_enum_type_definition (fuel : nat) : PM unit :=
  p_node SK_ENUM_TYPE_DEFINITION (
    g_if_peek TkStringValue g_description ;;
    b <- g_peek_data_is pkw_enum ;; p_when b (p_bump SK_enum_KW) ;;
    g_name_or_err ;;
    g_if_peek TkAt (g_directives fuel GConst) ;;
    g_if_peek TkLCurly (g_enum_values_definition fuel)).

Definition g_enum_type_extension (fuel : nat) : PM unit :=
  p_node SK_ENUM_TYPE_EXTENSION (
    p_bump SK_extend_KW ;;
    p_bump SK_enum_KW ;;
    g_name_or_err ;;
    d <- g_peek_is TkAt ;; p_when d (g_directives fuel GConst) ;;
    v <- g_peek_is TkLCurly ;; p_when v (g_enum_values_definition fuel) ;;
    p_when (negb (d || v)) p_err).

(* ------------------------------------------------------------------ input.rs (object definitions) *)
Definition g_input_fields_definition (fuel : nat) : PM unit :=
  p_node SK_INPUT_FIELDS_DEFINITION (
    p_bump SK_L_CURLY ;;
    b <- g_peek_in [TkName; TkStringValue] ;;
    (if b then g_input_value_definition fuel else p_err) ;;
    p_peek_while fuel (fun kind =>
      match kind with
      | TkName | TkStringValue => g_input_value_definition fuel ;; p_ret true
      | _ => p_ret false
      end) ;;
    p_expect TkRCurly SK_R_CURLY).

Definition g_input_object_type_definition (fuel : nat) : PM unit :=
  p_node SK_INPUT_OBJECT_TYPE_DEFINITION (
    g_if_peek TkStringValue g_description ;;
    b <- g_peek_data_is pkw_input ;; p_when b (p_bump SK_input_KW) ;;
    g_name_or_err ;;
    g_if_peek TkAt (g_directives fuel GConst) ;;
    g_if_peek TkLCurly (g_input_fields_definition fuel)).

Definition g_input_object_type_extension (fuel : nat) : PM unit :=
  p_node SK_INPUT_OBJECT_TYPE_EXTENSION (
    p_bump SK_extend_KW ;;
    p_bump SK_input_KW ;;
    g_name_or_err ;;
    d <- g_peek_is TkAt ;; p_when d (g_directives fuel GConst) ;;
    f <- g_peek_is TkLCurly ;; p_when f (g_input_fields_definition fuel) ;;
    p_when (negb (d || f)) p_err).

(* ------------------------------------------------------------------ extensions.rs *)
Definition g_extensions (fuel : nat) : PM unit :=
  o <- p_peek_data_n 2 ;;
  match o with
  | Some d =>
      if p_str_eqb d pkw_schema then g_schema_extension fuel
      else if p_str_eqb d pkw_scalar then g_scalar_type_extension fuel
      else if p_str_eqb d pkw_type then g_object_type_extension fuel
      else if p_str_eqb d pkw_interface then g_interface_type_extension fuel
      else if p_str_eqb d pkw_union then g_union_type_extension fuel
      else if p_str_eqb d pkw_enum then g_enum_type_extension fuel
      else if p_str_eqb d pkw_input then g_input_object_type_extension fuel
      else p_err_and_pop
  | None => p_err_and_pop
  end.

(* ------------------------------------------------------------------ document.rs *)
Definition g_select_definition (def : str) (fuel : nat) : PM unit :=
  if p_str_eqb def pkw_directive then g_directive_definition fuel
  else if p_str_eqb def pkw_enum then g_enum_type_definition fuel
  else if p_str_eqb def pkw_extend then g_extensions fuel
  else if p_str_eqb def pkw_fragment then g_fragment_definition fuel
  else if p_str_eqb def pkw_input then g_input_object_type_definition fuel
  else if p_str_eqb def pkw_interface then g_interface_type_definition fuel
  else if p_str_eqb def pkw_type then g_object_type_definition fuel
  else if p_str_eqb def pkw_query || p_str_eqb def pkw_mutation || p_str_eqb def pkw_subscription
          || p_str_eqb def pkw_lcurly then g_operation_definition fuel
  else if p_str_eqb def pkw_scalar then g_scalar_type_definition fuel
  else if p_str_eqb def pkw_schema then g_schema_definition fuel
  else if p_str_eqb def pkw_union then g_union_type_definition fuel
  else p_err_and_pop.

(* assert_eq!(p.recursion_limit.current, 0, ..) *)
Definition g_assert_recursion_balanced : PM unit :=
  fun s => if ptr_current (ps_rec s) =? 0 then POk (tt, s) else PPanic PnRecUnbalanced.

Definition g_document (fuel : nat) : PM unit :=
  p_node SK_DOCUMENT (
    o <- p_peek ;;
    p_when (match o with None | Some TkEof => true | _ => false end) p_err ;;
    p_peek_while fuel (fun kind =>
      g_assert_recursion_balanced ;;
      match kind with
      | TkStringValue =>
          d <- p_peek_data_n 2 ;;
          match d with Some def => g_select_definition def fuel | None => p_err_and_pop end ;;
          p_ret true
      | TkName | TkLCurly =>
          d <- p_peek_data ;;
          match d with Some def => g_select_definition def fuel | None => p_err_and_pop end ;;
          p_ret true
      | TkEof => p_ret false
      | _ => p_err_and_pop ;; p_ret true
      end) ;;
    p_push_ignored).
