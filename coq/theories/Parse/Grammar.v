(* crates/apollo-parser/src/parser/grammar/*.rs : one definition per function, same names, same order of
   tests.  `let _g = p.start_node(K); ...` is `node K (...)` (the guard finishes the node at scope exit,
   early returns included).  Loops (peek_while, peek_while_kind, parse_separated_list) and the recursive
   families (value/list_value/object_value/object_field, selection_set/selection/field/inline_fragment,
   ty::parse) take `fuel`: a bound on nesting depth and on the iterations of each loop. *)
From ApolloVerif Require Import Base.Chars Lex.Item Parse.Outcome Parse.Builder Parse.Limits Parse.Monad
  Parse.Keywords.

(* if let Some(k) = p.peek() *)
Definition peek_is (k : tkind) : M bool :=
  o <- peek ;; ret (match o with Some x => tkind_eqb x k | None => false end).
Definition peek_in (ks : list tkind) : M bool :=
  o <- peek ;; ret (match o with Some x => existsb (tkind_eqb x) ks | None => false end).
(* if let Some("kw") = p.peek_data() *)
Definition peek_data_is (kw : str) : M bool :=
  o <- peek_data ;; ret (match o with Some d => str_eqb d kw | None => false end).
Definition if_peek (k : tkind) (m : M unit) : M unit := b <- peek_is k ;; when b m.

Inductive constness := Const | NotConst.

(* ------------------------------------------------------------------ name.rs *)
Definition is_start_char := is_name_start.
Definition is_remainder_char := is_name_continue.

Definition validate_name (name : str) : M unit :=
  when (negb (match name with c :: _ => is_start_char c | [] => false end)) err_and_pop ;;
  if 2 <=? blen name then
    match name with
    | c :: r =>
        (* name[1..] : byte 1 must be a char boundary *)
        if u8len c =? 1 then when (negb (forallb is_remainder_char r)) err_and_pop
        else panic NameSlice
    | [] => ret tt
    end
  else ret tt.

Definition name : M unit :=
  o <- peek_token ;;
  match o with
  | Some token =>
      if tkind_eqb (tk token) Name then
        node NAME (validate_name (td token) ;; bump IDENT)
      else err
  | None => err
  end.

Definition alias : M unit := node ALIAS (name ;; bump COLON).

(* ------------------------------------------------------------------ description.rs *)
Definition description : M unit := node DESCRIPTION (node STRING_VALUE (bump STRING)).

(* ------------------------------------------------------------------ ty.rs *)
(* Result<(), Option<Token>> *)
Inductive tyres := TyOk | TyErr (t : option tok).

Definition parse_body (parse_rec : M tyres) : M tyres :=
  checkpoint <- checkpoint_node ;;
  o <- peek ;;
  early <-
    match o with
    | Some LBracket =>
        node LIST_TYPE (
          bump L_BRACK ;;
          rec_guard
            (limit_err ;; ret (Some TyOk))                        (* return Ok(()) *)
            parse_rec
            (fun result =>
               match result with TyErr (Some token) => err_at_token token | _ => ret tt end ;;
               expect RBracket R_BRACK ;;
               ret None))
    | Some Name =>
        node NAMED_TYPE (node NAME (
          token <- pop ;;
          validate_name (td token) ;;
          push_token IDENT token)) ;;
        ret None
    | Some _ => t <- pop ;; ghost_dropped t ;; ret (Some (TyErr (Some t)))   (* return Err(Some(p.pop())) *)
    | None => ret (Some (TyErr None))                          (* return Err(None) *)
    end ;;
  match early with
  | Some r => ret r
  | None =>
      skip_ignored ;;
      b <- peek_is Bang ;;
      when b (wrap_node checkpoint NON_NULL_TYPE ;; eat BANG ;; finish_node) ;;
      skip_ignored ;;
      ret TyOk
  end.

Fixpoint parse (fuel : nat) : M tyres :=
  match fuel with
  | O => out_of_fuel
  | S f => parse_body (parse f)
  end.

Definition ty (fuel : nat) : M unit :=
  r <- parse fuel ;;
  match r with
  | TyOk => ret tt
  | TyErr (Some token) => err_at_token token
  | TyErr None => err
  end.

Definition named_type : M unit :=
  b <- peek_is Name ;; when b (node NAMED_TYPE name).

(* ------------------------------------------------------------------ variable.rs (variable) *)
Definition variable : M unit := node VARIABLE (bump DOLLAR ;; name).

(* ------------------------------------------------------------------ value.rs *)
Definition enum_value : M unit :=
  node ENUM_VALUE (
    o <- peek_token ;;
    match o with
    | Some token =>
        if tkind_eqb (tk token) Name then
          when (str_eqb (td token) s_true || str_eqb (td token) s_false || str_eqb (td token) s_null) err ;;
          name
        else err
    | None => err
    end).

Definition error_or_pop (pop_on_error : bool) : M unit :=
  if pop_on_error then err_and_pop else err.

Definition list_value_ (value : constness -> bool -> M unit) (fuel : nat) (c : constness) : M unit :=
  node LIST_VALUE (
    bump L_BRACK ;;
    peek_while fuel (fun node_ =>
      if tkind_eqb node_ RBracket then bump R_BRACK ;; ret false
      else if tkind_eqb node_ Eof then ret false
      else
        rec_guard (limit_err ;; ret false) (value c true) (fun _ => ret true))).

Definition object_field_ (value : constness -> bool -> M unit) (c : constness) : M unit :=
  node OBJECT_FIELD (
    name ;;
    b <- peek_is Colon ;;
    when b (
      bump COLON ;;
      rec_guard limit_err (* return *) (value c true) (fun _ => ret tt))).

Definition object_value_ (value : constness -> bool -> M unit) (fuel : nat) (c : constness) : M unit :=
  node OBJECT_VALUE (
    bump L_CURLY ;;
    peek_while_kind fuel Name (object_field_ value c) ;;
    expect RCurly R_CURLY).

Definition value_body (value : constness -> bool -> M unit) (fuel : nat) (c : constness)
  (pop_on_error : bool) : M unit :=
  o <- peek ;;
  match o with
  | Some Dollar =>
      match c with Const => error_or_pop pop_on_error | NotConst => ret tt end ;;
      variable
  | Some Int => node INT_VALUE (bump INT)
  | Some Float => node FLOAT_VALUE (bump FLOAT)
  | Some StringValue => node STRING_VALUE (bump STRING)
  | Some Name =>
      t <- peek_token ;;
      match t with
      | Some token =>
          if str_eqb (td token) s_true then node BOOLEAN_VALUE (bump true_KW)
          else if str_eqb (td token) s_false then node BOOLEAN_VALUE (bump false_KW)
          else if str_eqb (td token) s_null then node NULL_VALUE (bump null_KW)
          else enum_value
      | None => ret tt
      end
  | Some LBracket => list_value_ value fuel c
  | Some LCurly => object_value_ value fuel c
  | _ => error_or_pop pop_on_error
  end.

Fixpoint value (fuel : nat) (c : constness) (pop_on_error : bool) : M unit :=
  match fuel with
  | O => out_of_fuel
  | S f => value_body (value f) f c pop_on_error
  end.

Definition list_value (fuel : nat) (c : constness) : M unit := list_value_ (value fuel) fuel c.
Definition object_value (fuel : nat) (c : constness) : M unit := object_value_ (value fuel) fuel c.
Definition object_field (fuel : nat) (c : constness) : M unit := object_field_ (value fuel) c.

Definition default_value (fuel : nat) : M unit :=
  node DEFAULT_VALUE (bump EQ ;; value fuel Const false).

(* ------------------------------------------------------------------ argument.rs (argument, arguments) *)
Definition argument (fuel : nat) (c : constness) : M unit :=
  node ARGUMENT (
    name ;;
    b <- peek_is Colon ;;
    when b (bump COLON ;; value fuel c false)).

Definition arguments (fuel : nat) (c : constness) : M unit :=
  node ARGUMENTS (
    bump L_PAREN ;;
    b <- peek_is Name ;;
    (if b then argument fuel c else err) ;;
    peek_while_kind fuel Name (argument fuel c) ;;
    expect RParen R_PAREN).

(* ------------------------------------------------------------------ directive.rs (directive, directives) *)
Definition directive (fuel : nat) (c : constness) : M unit :=
  node DIRECTIVE (
    expect At AT ;;
    name ;;
    if_peek LParen (arguments fuel c)).

Definition directives (fuel : nat) (c : constness) : M unit :=
  node DIRECTIVES (peek_while_kind fuel At (directive fuel c)).

(* ------------------------------------------------------------------ input.rs (input_value_definition) *)
Definition input_value_definition (fuel : nat) : M unit :=
  node INPUT_VALUE_DEFINITION (
    if_peek StringValue description ;;
    name ;;
    b <- peek_is Colon ;;
    if b then
      bump COLON ;;
      t <- peek_in [Name; LBracket] ;;
      if t then
        ty fuel ;;
        if_peek Eq (default_value fuel) ;;
        if_peek At (directives fuel Const)
      else err
    else err).

(* ------------------------------------------------------------------ argument.rs (arguments_definition) *)
Definition arguments_definition_body (fuel : nat) : M unit :=
  bump L_PAREN ;;
  b <- peek_in [Name; StringValue] ;;
  (if b then input_value_definition fuel else err) ;;
  peek_while fuel (fun kind =>
    match kind with
    | Name | StringValue => input_value_definition fuel ;; ret true
    | _ => ret false
    end) ;;
  expect RParen R_PAREN.

Definition arguments_definition (fuel : nat) : M unit :=
  node ARGUMENTS_DEFINITION (arguments_definition_body fuel).

(* ------------------------------------------------------------------ directive.rs (definition, locations) *)
Definition directive_location_kw (d : str) : option skind :=
  if str_eqb d s_QUERY then Some QUERY_KW
  else if str_eqb d s_MUTATION then Some MUTATION_KW
  else if str_eqb d s_SUBSCRIPTION then Some SUBSCRIPTION_KW
  else if str_eqb d s_FIELD then Some FIELD_KW
  else if str_eqb d s_FRAGMENT_DEFINITION then Some FRAGMENT_DEFINITION_KW
  else if str_eqb d s_FRAGMENT_SPREAD then Some FRAGMENT_SPREAD_KW
  else if str_eqb d s_INLINE_FRAGMENT then Some INLINE_FRAGMENT_KW
  else if str_eqb d s_VARIABLE_DEFINITION then Some VARIABLE_DEFINITION_KW
  else if str_eqb d s_SCHEMA then Some SCHEMA_KW
  else if str_eqb d s_SCALAR then Some SCALAR_KW
  else if str_eqb d s_OBJECT then Some OBJECT_KW
  else if str_eqb d s_FIELD_DEFINITION then Some FIELD_DEFINITION_KW
  else if str_eqb d s_ARGUMENT_DEFINITION then Some ARGUMENT_DEFINITION_KW
  else if str_eqb d s_INTERFACE then Some INTERFACE_KW
  else if str_eqb d s_UNION then Some UNION_KW
  else if str_eqb d s_ENUM then Some ENUM_KW
  else if str_eqb d s_ENUM_VALUE then Some ENUM_VALUE_KW
  else if str_eqb d s_INPUT_OBJECT then Some INPUT_OBJECT_KW
  else if str_eqb d s_INPUT_FIELD_DEFINITION then Some INPUT_FIELD_DEFINITION_KW
  else None.

Definition directive_location : M unit :=
  o <- peek_token ;;
  match o with
  | None => ret tt
  | Some token =>
      if tkind_eqb (tk token) Name then
        match directive_location_kw (td token) with
        | Some kw => node DIRECTIVE_LOCATION (bump kw)
        | None => err
        end
      else err
  end.

Definition directive_locations (fuel : nat) : M unit :=
  parse_separated_list fuel Pipe PIPE directive_location.

Definition directive_definition (fuel : nat) : M unit :=
  node DIRECTIVE_DEFINITION (
    if_peek StringValue description ;;
    b <- peek_data_is s_directive ;; when b (bump directive_KW) ;;
    a <- peek_is At ;; (if a then bump AT else err) ;;
    name ;;
    if_peek LParen (node ARGUMENTS_DEFINITION (arguments_definition_body fuel)) ;;
    r <- peek_data_is s_repeatable ;; when r (bump repeatable_KW) ;;
    d <- peek_data ;;
    match d with
    | Some node_ => if str_eqb node_ s_on then bump on_KW else err
    | None => ret tt
    end ;;
    l <- peek_in [Name; Pipe] ;;
    if l then node DIRECTIVE_LOCATIONS (directive_locations fuel) else err).

(* ------------------------------------------------------------------ variable.rs (definitions) *)
Definition variable_definition (fuel : nat) : M unit :=
  node VARIABLE_DEFINITION (
    variable ;;
    b <- peek_is Colon ;;
    if b then
      bump COLON ;;
      t <- peek_in [Name; LBracket] ;;
      if t then
        ty fuel ;;
        if_peek Eq (default_value fuel) ;;
        if_peek At (directives fuel Const)
      else err
    else err).

Definition variable_definitions (fuel : nat) : M unit :=
  node VARIABLE_DEFINITIONS (
    bump L_PAREN ;;
    b <- peek_is Dollar ;;
    (if b then variable_definition fuel else err) ;;
    peek_while_kind fuel Dollar (variable_definition fuel) ;;
    expect RParen R_PAREN).

(* ------------------------------------------------------------------ fragment.rs (name, condition, spread) *)
Definition fragment_name : M unit :=
  node FRAGMENT_NAME (
    o <- peek_token ;;
    match o with
    | Some token =>
        if tkind_eqb (tk token) Name && str_eqb (td token) s_on then err
        else if tkind_eqb (tk token) Name then name
        else err
    | None => err
    end).

Definition type_condition : M unit :=
  node TYPE_CONDITION (
    o <- peek_token ;;
    match o with
    | Some token =>
        (if tkind_eqb (tk token) Name && str_eqb (td token) s_on then bump on_KW else err) ;;
        b <- peek_is Name ;;
        if b then named_type else err
    | None => err
    end).

Definition fragment_spread (fuel : nat) : M unit :=
  node FRAGMENT_SPREAD (
    bump SPREAD ;;
    b <- peek_is Name ;;
    (if b then fragment_name else err) ;;
    if_peek At (directives fuel NotConst)).

(* ------------------------------------------------------------------ selection.rs / field.rs / fragment.rs *)
Definition field_ (selection_set : M unit) (fuel : nat) : M unit :=
  node FIELD (
    b <- peek_is Name ;;
    (if b then
       n2 <- peek_n 2 ;;
       when (match n2 with Some Colon => true | _ => false end) alias ;;
       name
     else err) ;;
    if_peek LParen (arguments fuel NotConst) ;;
    if_peek At (directives fuel NotConst) ;;
    if_peek LCurly selection_set).

Definition inline_fragment_ (selection_set : M unit) (fuel : nat) : M unit :=
  node INLINE_FRAGMENT (
    bump SPREAD ;;
    if_peek Name type_condition ;;
    if_peek At (directives fuel NotConst) ;;
    b <- peek_is LCurly ;;
    if b then selection_set else err).

Definition selection_ (selection_set : M unit) (fuel : nat) : M unit :=
  has_selection <-
    peek_while_acc fuel (fun has_selection kind =>
      match kind with
      | Spread =>
          next_token <- peek_token_n 2 ;;
          match next_token with
          | Some nt =>
              (if tkind_eqb (tk nt) Name && negb (str_eqb (td nt) s_on) then fragment_spread fuel
               else if existsb (tkind_eqb (tk nt)) [At; Name; LCurly] then inline_fragment_ selection_set fuel
               else err ;; bump SPREAD) ;;
              ret (true, true)
          | None => err_and_pop ;; ret (has_selection, false)
          end
      | LCurly => ret (has_selection, false)
      | Name => field_ selection_set fuel ;; ret (true, true)
      | _ => ret (has_selection, false)
      end) false ;;
  when (negb has_selection) err.

Definition selection_set_body (selection_set : M unit) (fuel : nat) : M unit :=
  b <- peek_is LCurly ;;
  when b (
    node SELECTION_SET (
      bump L_CURLY ;;
      rec_guard limit_err (* return *)
        (selection_ selection_set fuel)
        (fun _ => expect RCurly R_CURLY))).

Fixpoint selection_set (fuel : nat) : M unit :=
  match fuel with
  | O => out_of_fuel
  | S f => selection_set_body (selection_set f) f
  end.

Definition selection (fuel : nat) : M unit := selection_ (selection_set fuel) fuel.
Definition field (fuel : nat) : M unit := field_ (selection_set fuel) fuel.
Definition inline_fragment (fuel : nat) : M unit := inline_fragment_ (selection_set fuel) fuel.

Definition field_set (fuel : nat) : M unit :=
  node SELECTION_SET (
    braces <- peek_is LCurly ;;
    when braces (bump L_CURLY) ;;
    rec_guard limit_err (* return *)
      (selection fuel)
      (fun _ =>
         when braces (expect RCurly R_CURLY) ;;
         trailing_tokens_are_errors fuel)).

(* ------------------------------------------------------------------ fragment.rs (definition) *)
Definition fragment_definition (fuel : nat) : M unit :=
  node FRAGMENT_DEFINITION (
    bump fragment_KW ;;
    fragment_name ;;
    type_condition ;;
    if_peek At (directives fuel NotConst) ;;
    b <- peek_is LCurly ;;
    if b then selection_set fuel else err).

(* ------------------------------------------------------------------ operation.rs *)
Definition operation_type : M unit :=
  o <- peek_data ;;
  match o with
  | Some node_ =>
      node OPERATION_TYPE (
        if str_eqb node_ s_query then bump query_KW
        else if str_eqb node_ s_subscription then bump subscription_KW
        else if str_eqb node_ s_mutation then bump mutation_KW
        else err_and_pop)
  | None => ret tt
  end.

Definition operation_definition (fuel : nat) : M unit :=
  o <- peek ;;
  match o with
  | Some Name =>
      node OPERATION_DEFINITION (
        operation_type ;;
        if_peek Name name ;;
        if_peek LParen (variable_definitions fuel) ;;
        if_peek At (directives fuel NotConst) ;;
        b <- peek_is LCurly ;;
        if b then selection_set fuel else err_and_pop)
  | Some LCurly => node OPERATION_DEFINITION (selection_set fuel)
  | _ => err_and_pop
  end.

(* ------------------------------------------------------------------ field.rs (definitions) *)
Definition field_definition (fuel : nat) : M unit :=
  node FIELD_DEFINITION (
    if_peek StringValue description ;;
    name ;;
    if_peek LParen (arguments_definition fuel) ;;
    b <- peek_is Colon ;;
    if b then
      bump COLON ;;
      t <- peek_in [Name; LBracket] ;;
      if t then
        ty fuel ;;
        if_peek At (directives fuel Const) ;;
        _ <- peek ;; ret tt               (* if p.peek().is_some() { return; } *)
      else err
    else err).

Definition fields_definition (fuel : nat) : M unit :=
  node FIELDS_DEFINITION (
    bump L_CURLY ;;
    b <- peek_in [Name; StringValue] ;;
    (if b then field_definition fuel else err) ;;
    peek_while fuel (fun kind =>
      match kind with
      | Name | StringValue => field_definition fuel ;; ret true
      | _ => ret false
      end) ;;
    expect RCurly R_CURLY).

(* ------------------------------------------------------------------ object.rs *)
Definition implements_interfaces (fuel : nat) : M unit :=
  node IMPLEMENTS_INTERFACES (
    bump implements_KW ;;
    parse_separated_list fuel Amp AMP (
      b <- peek_is Name ;;
      if b then named_type else err)).

Definition name_or_err : M unit :=       (* match p.peek() { Some(Name) => name::name(p), _ => p.err(..) } *)
  b <- peek_is Name ;; if b then name else err.

Definition object_type_definition (fuel : nat) : M unit :=
  node OBJECT_TYPE_DEFINITION (
    if_peek StringValue description ;;
    b <- peek_data_is s_type ;; when b (bump type_KW) ;;
    name_or_err ;;
    o <- peek_token ;;
    match o with
    | Some token =>
        when (tkind_eqb (tk token) Name && str_eqb (td token) s_implements) (implements_interfaces fuel)
    | None => ret tt
    end ;;
    if_peek At (directives fuel Const) ;;
    if_peek LCurly (fields_definition fuel)).

Definition object_type_extension (fuel : nat) : M unit :=
  node OBJECT_TYPE_EXTENSION (
    bump extend_KW ;;
    bump type_KW ;;
    name_or_err ;;
    i <- peek_data_is s_implements ;; when i (implements_interfaces fuel) ;;
    d <- peek_is At ;; when d (directives fuel Const) ;;
    f <- peek_is LCurly ;; when f (fields_definition fuel) ;;
    when (negb (i || d || f)) err).

(* ------------------------------------------------------------------ interface.rs *)
Definition interface_type_definition (fuel : nat) : M unit :=
  node INTERFACE_TYPE_DEFINITION (
    if_peek StringValue description ;;
    b <- peek_data_is s_interface ;; when b (bump interface_KW) ;;
    name_or_err ;;
    i <- peek_data_is s_implements ;; when i (implements_interfaces fuel) ;;
    if_peek At (directives fuel Const) ;;
    if_peek LCurly (fields_definition fuel)).

Definition interface_type_extension (fuel : nat) : M unit :=
  node INTERFACE_TYPE_EXTENSION (
    bump extend_KW ;;
    bump interface_KW ;;
    name_or_err ;;
    i <- peek_data_is s_implements ;; when i (implements_interfaces fuel) ;;
    d <- peek_is At ;; when d (directives fuel Const) ;;
    f <- peek_is LCurly ;; when f (fields_definition fuel) ;;
    when (negb (i || d || f)) err).

(* ------------------------------------------------------------------ scalar.rs *)
Definition scalar_type_definition (fuel : nat) : M unit :=
  node SCALAR_TYPE_DEFINITION (
    if_peek StringValue description ;;
    b <- peek_data_is s_scalar ;; when b (bump scalar_KW) ;;
    name_or_err ;;
    if_peek At (directives fuel Const)).

Definition scalar_type_extension (fuel : nat) : M unit :=
  node SCALAR_TYPE_EXTENSION (
    bump extend_KW ;;
    bump scalar_KW ;;
    name_or_err ;;
    d <- peek_is At ;;
    if d then directives fuel Const else err).

(* ------------------------------------------------------------------ schema.rs *)
Definition root_operation_type_definition : M unit :=
  node ROOT_OPERATION_TYPE_DEFINITION (
    operation_type ;;
    b <- peek_is Colon ;;
    if b then bump COLON ;; named_type else err).

Definition schema_definition (fuel : nat) : M unit :=
  node SCHEMA_DEFINITION (
    if_peek StringValue description ;;
    b <- peek_data_is s_schema ;; when b (bump schema_KW) ;;
    if_peek At (directives fuel Const) ;;
    b <- peek_is LCurly ;;
    if b then
      bump L_CURLY ;;
      has_root_operation_types <-
        peek_while_kind_acc fuel Name (fun _ => root_operation_type_definition ;; ret true) false ;;
      when (negb has_root_operation_types) err ;;
      expect RCurly R_CURLY
    else err).

Definition schema_extension (fuel : nat) : M unit :=
  node SCHEMA_EXTENSION (
    bump extend_KW ;;
    bump schema_KW ;;
    d <- peek_is At ;; when d (directives fuel Const) ;;
    c <- peek_is LCurly ;;
    r <- (if c then
            bump L_CURLY ;;
            r <- peek_while_kind_acc fuel Name (fun _ => root_operation_type_definition ;; ret true) false ;;
            expect RCurly R_CURLY ;;
            ret r
          else ret false) ;;
    when (negb (d || r)) err).

(* ------------------------------------------------------------------ union_.rs *)
Definition union_member_types (fuel : nat) : M unit :=
  node UNION_MEMBER_TYPES (
    bump EQ ;;
    parse_separated_list fuel Pipe PIPE (
      b <- peek_is Name ;;
      if b then named_type else err)).

Definition union_type_definition (fuel : nat) : M unit :=
  node UNION_TYPE_DEFINITION (
    if_peek StringValue description ;;
    b <- peek_data_is s_union ;; when b (bump union_KW) ;;
    name_or_err ;;
    if_peek At (directives fuel Const) ;;
    if_peek Eq (union_member_types fuel)).

Definition union_type_extension (fuel : nat) : M unit :=
  node UNION_TYPE_EXTENSION (
    bump extend_KW ;;
    bump union_KW ;;
    name_or_err ;;
    d <- peek_is At ;; when d (directives fuel Const) ;;
    m <- peek_is Eq ;; when m (union_member_types fuel) ;;
    when (negb (d || m)) err).

(* ------------------------------------------------------------------ enum_.rs *)
Definition enum_value_definition (fuel : nat) : M unit :=
  b <- peek_in [Name; StringValue] ;;
  when b (
    node ENUM_VALUE_DEFINITION (
      if_peek StringValue description ;;
      enum_value ;;
      if_peek At (directives fuel Const))).

Definition enum_values_definition (fuel : nat) : M unit :=
  node ENUM_VALUES_DEFINITION (
    bump L_CURLY ;;
    b <- peek_in [Name; StringValue] ;;
    (if b then enum_value_definition fuel else err) ;;
    peek_while fuel (fun kind =>
      match kind with
      | Name | StringValue => enum_value_definition fuel ;; ret true
      | _ => ret false
      end) ;;
    expect RCurly R_CURLY).

Definition enum_type_definition (fuel : nat) : M unit :=
  node ENUM_TYPE_DEFINITION (
    if_peek StringValue description ;;
    b <- peek_data_is s_enum ;; when b (bump enum_KW) ;;
    name_or_err ;;
    if_peek At (directives fuel Const) ;;
    if_peek LCurly (enum_values_definition fuel)).

Definition enum_type_extension (fuel : nat) : M unit :=
  node ENUM_TYPE_EXTENSION (
    bump extend_KW ;;
    bump enum_KW ;;
    name_or_err ;;
    d <- peek_is At ;; when d (directives fuel Const) ;;
    v <- peek_is LCurly ;; when v (enum_values_definition fuel) ;;
    when (negb (d || v)) err).

(* ------------------------------------------------------------------ input.rs (object definitions) *)
Definition input_fields_definition (fuel : nat) : M unit :=
  node INPUT_FIELDS_DEFINITION (
    bump L_CURLY ;;
    b <- peek_in [Name; StringValue] ;;
    (if b then input_value_definition fuel else err) ;;
    peek_while fuel (fun kind =>
      match kind with
      | Name | StringValue => input_value_definition fuel ;; ret true
      | _ => ret false
      end) ;;
    expect RCurly R_CURLY).

Definition input_object_type_definition (fuel : nat) : M unit :=
  node INPUT_OBJECT_TYPE_DEFINITION (
    if_peek StringValue description ;;
    b <- peek_data_is s_input ;; when b (bump input_KW) ;;
    name_or_err ;;
    if_peek At (directives fuel Const) ;;
    if_peek LCurly (input_fields_definition fuel)).

Definition input_object_type_extension (fuel : nat) : M unit :=
  node INPUT_OBJECT_TYPE_EXTENSION (
    bump extend_KW ;;
    bump input_KW ;;
    name_or_err ;;
    d <- peek_is At ;; when d (directives fuel Const) ;;
    f <- peek_is LCurly ;; when f (input_fields_definition fuel) ;;
    when (negb (d || f)) err).

(* ------------------------------------------------------------------ extensions.rs *)
Definition extensions (fuel : nat) : M unit :=
  o <- peek_data_n 2 ;;
  match o with
  | Some d =>
      if str_eqb d s_schema then schema_extension fuel
      else if str_eqb d s_scalar then scalar_type_extension fuel
      else if str_eqb d s_type then object_type_extension fuel
      else if str_eqb d s_interface then interface_type_extension fuel
      else if str_eqb d s_union then union_type_extension fuel
      else if str_eqb d s_enum then enum_type_extension fuel
      else if str_eqb d s_input then input_object_type_extension fuel
      else err_and_pop
  | None => err_and_pop
  end.

(* ------------------------------------------------------------------ document.rs *)
Definition select_definition (def : str) (fuel : nat) : M unit :=
  if str_eqb def s_directive then directive_definition fuel
  else if str_eqb def s_enum then enum_type_definition fuel
  else if str_eqb def s_extend then extensions fuel
  else if str_eqb def s_fragment then fragment_definition fuel
  else if str_eqb def s_input then input_object_type_definition fuel
  else if str_eqb def s_interface then interface_type_definition fuel
  else if str_eqb def s_type then object_type_definition fuel
  else if str_eqb def s_query || str_eqb def s_mutation || str_eqb def s_subscription
          || str_eqb def s_lcurly then operation_definition fuel
  else if str_eqb def s_scalar then scalar_type_definition fuel
  else if str_eqb def s_schema then schema_definition fuel
  else if str_eqb def s_union then union_type_definition fuel
  else err_and_pop.

(* assert_eq!(p.recursion_limit.current, 0, ..) *)
Definition assert_recursion_balanced : M unit :=
  fun s => if tr_current (st_rec s) =? 0 then Ok (tt, s) else Panic RecUnbalanced.

Definition document (fuel : nat) : M unit :=
  node DOCUMENT (
    o <- peek ;;
    when (match o with None | Some Eof => true | _ => false end) err ;;
    peek_while fuel (fun kind =>
      assert_recursion_balanced ;;
      match kind with
      | StringValue =>
          d <- peek_data_n 2 ;;
          match d with Some def => select_definition def fuel | None => err_and_pop end ;;
          ret true
      | Name | LCurly =>
          d <- peek_data ;;
          match d with Some def => select_definition def fuel | None => err_and_pop end ;;
          ret true
      | Eof => ret false
      | _ => err_and_pop ;; ret true
      end) ;;
    push_ignored).
