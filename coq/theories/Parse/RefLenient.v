(* C05 / C07 — the grammar apollo-parser ACCEPTS, written as a copy of the reference recogniser
   (Parse/RefGrammar.v) with six switchable relaxations.  Definitions only.

   `rgl_X L` is `rg_X` except at the places guarded by a flag of L:
     rgl_arg_novalue      Argument    : Name (: Value)?            instead of  Name : Value
     rgl_objfield_novalue ObjectField : Name (: Value)?            instead of  Name : Value
     rgl_rootop_notype    RootOperationTypeDefinition : OperationType : NamedType?
     rgl_desc_fragment    Definition  : StringValue `fragment` TypeCondition Directives? SelectionSet
                                         (the string is taken as the keyword, the keyword as the fragment's name)
     rgl_schemaext_empty  SchemaExtension : extend schema Directives { RootOperationTypeDefinition* }
                                         (an empty block is accepted once directives are present)
     rgl_list_eof         ListValue   : [ Value* may end at the end of the token list instead of at `]`
                                         (never visible in a whole document or selection set: every value sits
                                          inside parentheses or braces that must still be closed)
   With every flag off (rgl_strict) the functions ARE the reference (Parse/RefLenientProofs.v, the rgl_strict_ lemmas);
   with the flags of rgl_parser they are exactly what the parser model accepts without reporting an error
   (Parse/RefLink*.v).  The first five flags were the five known findings of C05 (rgl_parser_old: every flag on).
   Four of them were repaired in /repo (argument(), object_field(), fragment_definition(), schema_extension() now
   report the error; Parse/Grammar.v follows) and are off in rgl_parser; rgl_rootop_notype is the remaining known
   finding; rgl_list_eof is proved invisible in whole documents and field sets (Parse/RefLenientEof.v). *)
From ApolloVerif Require Import Base.Chars Lex.Item Lex.Fun Parse.RefGrammar.

Record rgl_flags := {
  rgl_arg_novalue : bool;
  rgl_objfield_novalue : bool;
  rgl_rootop_notype : bool;
  rgl_desc_fragment : bool;
  rgl_schemaext_empty : bool;
  rgl_list_eof : bool
}.

Definition rgl_strict : rgl_flags :=
  {| rgl_arg_novalue := false; rgl_objfield_novalue := false; rgl_rootop_notype := false;
     rgl_desc_fragment := false; rgl_schemaext_empty := false; rgl_list_eof := false |}.
Definition rgl_parser : rgl_flags :=
  {| rgl_arg_novalue := false; rgl_objfield_novalue := false; rgl_rootop_notype := true;
     rgl_desc_fragment := false; rgl_schemaext_empty := false; rgl_list_eof := true |}.
(* what the parser accepted before the repairs of the known findings of C05: every relaxation on *)
Definition rgl_parser_old : rgl_flags :=
  {| rgl_arg_novalue := true; rgl_objfield_novalue := true; rgl_rootop_notype := true;
     rgl_desc_fragment := true; rgl_schemaext_empty := true; rgl_list_eof := true |}.

(* `: X`, or `(: X)?` when lenient *)
Definition rgl_colon_then (lenient : bool) (p : rg_p) : rg_p :=
  if lenient then rg_opt (rg_is TkColon) (rg_seq (rg_sat (rg_is TkColon)) p)
  else rg_seq (rg_sat (rg_is TkColon)) p.

(* `]`, or (when lenient) the end of the token list *)
Definition rgl_close_list (lenient : bool) : rg_p :=
  if lenient then fun ts => match ts with [] => RgOk [] | _ :: _ => rg_sat (rg_is TkRBracket) ts end
  else rg_sat (rg_is TkRBracket).

Section Lenient.
Variable L : rgl_flags.

(* ---- Value[Const] ---- *)
Fixpoint rgl_value_f (n : nat) (c : bool) (ts : list rg_token) : rg_r (list rg_token) :=
  match n with
  | O => RgOut
  | S n' =>
      match ts with
      | [] => RgNo
      | (k, _) :: r =>
          match k with
          | TkDollar => if c then RgNo else rg_name r
          | TkInt | TkFloat | TkStringValue => RgOk r
          | TkName => RgOk r
          | TkLBracket =>
              rg_seq (rg_many_f n' rg_not_rbracket (rgl_value_f n' c)) (rgl_close_list (rgl_list_eof L)) r
          | TkLCurly =>
              rg_seq (rg_many_f n' (rg_is TkName)
                        (rg_seq rg_name (rgl_colon_then (rgl_objfield_novalue L) (rgl_value_f n' c))))
                     (rg_sat (rg_is TkRCurly)) r
          | _ => RgNo
          end
      end
  end.
Definition rgl_value (c : bool) : rg_p := fun ts => rgl_value_f (S (length ts)) c ts.

(* ---- Arguments[Const], Directives[Const] ---- *)
Definition rgl_argument (c : bool) : rg_p :=
  rg_seq rg_name (rgl_colon_then (rgl_arg_novalue L) (rgl_value c)).
Definition rgl_arguments (c : bool) : rg_p :=
  rg_seq (rg_sat (rg_is TkLParen)) (rg_seq (rg_plus (rg_is TkName) (rgl_argument c)) (rg_sat (rg_is TkRParen))).
Definition rgl_directive (c : bool) : rg_p :=
  rg_seq (rg_sat (rg_is TkAt)) (rg_seq rg_name (rg_opt (rg_is TkLParen) (rgl_arguments c))).
Definition rgl_directives (c : bool) : rg_p := rg_many (rg_is TkAt) (rgl_directive c).

(* ---- VariableDefinitions ---- *)
Definition rgl_default : rg_p := rg_seq (rg_sat (rg_is TkEq)) (rgl_value true).
Definition rgl_vardef : rg_p :=
  rg_seq rg_variable (rg_seq (rg_sat (rg_is TkColon)) (rg_seq rg_type
    (rg_seq (rg_opt (rg_is TkEq) rgl_default) (rgl_directives true)))).
Definition rgl_vardefs : rg_p :=
  rg_seq (rg_sat (rg_is TkLParen)) (rg_seq (rg_plus (rg_is TkDollar) rgl_vardef) (rg_sat (rg_is TkRParen))).

(* ---- SelectionSet ---- *)
Fixpoint rgl_selset_f (n : nat) (ts : list rg_token) : rg_r (list rg_token) :=
  match n with
  | O => RgOut
  | S n' =>
      rg_seq (rg_sat (rg_is TkLCurly))
        (rg_seq (rg_seq (rgl_selection_f n') (rg_many_f n' rg_sel_start (rgl_selection_f n')))
                (rg_sat (rg_is TkRCurly))) ts
  end
with rgl_selection_f (n : nat) (ts : list rg_token) : rg_r (list rg_token) :=
  match n with
  | O => RgOut
  | S n' =>
      match ts with
      | (TkSpread, _) :: r =>
          match r with
          | (TkName, w) :: r2 =>
              if rg_streq rg_s_on w
              then rg_seq rg_name (rg_seq (rgl_directives false) (rgl_selset_f n')) r2
              else rgl_directives false r2
          | _ => rg_seq (rgl_directives false) (rgl_selset_f n') r
          end
      | (TkName, _) :: r =>
          rg_seq (rg_opt (rg_is TkColon) (rg_seq (rg_sat (rg_is TkColon)) rg_name))
            (rg_seq (rg_opt (rg_is TkLParen) (rgl_arguments false))
               (rg_seq (rgl_directives false) (rg_opt (rg_is TkLCurly) (rgl_selset_f n')))) r
      | _ => RgNo
      end
  end.
Definition rgl_selset : rg_p := fun ts => rgl_selset_f (S (length ts)) ts.
(* Selection+ : the content of a selection set (the `selections` of the field-set entry) *)
Definition rgl_selections_f (n : nat) : rg_p :=
  rg_seq (rgl_selection_f n) (rg_many_f n rg_sel_start (rgl_selection_f n)).
Definition rgl_selections : rg_p := fun ts => rgl_selections_f (S (length ts)) ts.

(* ---- executable definitions ---- *)
Definition rgl_op_tail : rg_p :=
  rg_seq (rg_opt (rg_is TkLParen) rgl_vardefs) (rg_seq (rgl_directives false) rgl_selset).
Definition rgl_operation : rg_dp :=
  fun ts => match ts with
            | (TkLCurly, _) :: _ => rg_ret (RgkOperation, None) rgl_selset ts
            | t :: r =>
                if rg_is_optype t then
                  match r with
                  | (TkName, w) :: r' => rg_ret (RgkOperation, Some w) rgl_op_tail r'
                  | _ => rg_ret (RgkOperation, None) rgl_op_tail r
                  end
                else RgNo
            | [] => RgNo
            end.
Definition rgl_fragment_tail : rg_p :=
  rg_seq (rg_sat (rg_is_kw rg_s_on)) (rg_seq rg_name (rg_seq (rgl_directives false) rgl_selset)).
Definition rgl_fragment : rg_dp :=
  fun ts => match ts with
            | t :: (TkName, w) :: r =>
                if rg_is_kw rg_s_fragment t && negb (rg_streq rg_s_on w)
                then rg_ret (RgkFragment, Some w) rgl_fragment_tail r
                else RgNo
            | _ => RgNo
            end.
Definition rgl_exec_definition : rg_dp :=
  fun ts => match ts with
            | t :: _ => if rg_is_kw rg_s_fragment t then rgl_fragment ts else rgl_operation ts
            | [] => RgNo
            end.

(* ---- type system ---- *)
Definition rgl_inputvaldef : rg_p :=
  rg_seq rg_desc_opt (rg_seq rg_name (rg_seq (rg_sat (rg_is TkColon)) (rg_seq rg_type
    (rg_seq (rg_opt (rg_is TkEq) rgl_default) (rgl_directives true))))).
Definition rgl_argsdef : rg_p :=
  rg_seq (rg_sat (rg_is TkLParen))
    (rg_seq (rg_plus rg_is_name_or_string rgl_inputvaldef) (rg_sat (rg_is TkRParen))).
Definition rgl_fielddef : rg_p :=
  rg_seq rg_desc_opt (rg_seq rg_name (rg_seq (rg_opt (rg_is TkLParen) rgl_argsdef)
    (rg_seq (rg_sat (rg_is TkColon)) (rg_seq rg_type (rgl_directives true))))).
Definition rgl_fieldsdef : rg_p :=
  rg_seq (rg_sat (rg_is TkLCurly))
    (rg_seq (rg_plus rg_is_name_or_string rgl_fielddef) (rg_sat (rg_is TkRCurly))).
Definition rgl_inputfieldsdef : rg_p :=
  rg_seq (rg_sat (rg_is TkLCurly))
    (rg_seq (rg_plus rg_is_name_or_string rgl_inputvaldef) (rg_sat (rg_is TkRCurly))).
Definition rgl_enumvaldef : rg_p :=
  rg_seq rg_desc_opt
    (rg_seq (rg_sat (rg_is_name_but [rg_s_true; rg_s_false; rg_s_null])) (rgl_directives true)).
Definition rgl_enumvalsdef : rg_p :=
  rg_seq (rg_sat (rg_is TkLCurly))
    (rg_seq (rg_plus rg_is_name_or_string rgl_enumvaldef) (rg_sat (rg_is TkRCurly))).
(* RootOperationTypeDefinition: OperationType : NamedType   (NamedType? when lenient) *)
Definition rgl_rootop : rg_p :=
  rg_seq (rg_sat rg_is_optype)
    (rg_seq (rg_sat (rg_is TkColon)) (if rgl_rootop_notype L then rg_opt (rg_is TkName) rg_name else rg_name)).
Definition rgl_rootops : rg_p :=
  rg_seq (rg_sat (rg_is TkLCurly)) (rg_seq (rg_plus (rg_is TkName) rgl_rootop) (rg_sat (rg_is TkRCurly))).
(* { RootOperationTypeDefinition* } *)
Definition rgl_rootops0 : rg_p :=
  rg_seq (rg_sat (rg_is TkLCurly)) (rg_seq (rg_many (rg_is TkName) rgl_rootop) (rg_sat (rg_is TkRCurly))).

Definition rgl_schema_tail : rg_p := rg_seq (rgl_directives true) rgl_rootops.
Definition rgl_scalar_tail : rg_p := rgl_directives true.
Definition rgl_object_tail : rg_p :=
  rg_seq (rg_opt (rg_is_kw rg_s_implements) rg_implements)
    (rg_seq (rgl_directives true) (rg_opt (rg_is TkLCurly) rgl_fieldsdef)).
Definition rgl_union_tail : rg_p := rg_seq (rgl_directives true) (rg_opt (rg_is TkEq) rg_unionmembers).
Definition rgl_enum_tail : rg_p := rg_seq (rgl_directives true) (rg_opt (rg_is TkLCurly) rgl_enumvalsdef).
Definition rgl_input_tail : rg_p := rg_seq (rgl_directives true) (rg_opt (rg_is TkLCurly) rgl_inputfieldsdef).
Definition rgl_dirdef_tail : rg_p :=
  rg_seq (rg_opt (rg_is TkLParen) rgl_argsdef)
    (rg_seq (rg_opt (rg_is_kw rg_s_repeatable) (rg_sat (rg_is_kw rg_s_repeatable)))
       (rg_seq (rg_sat (rg_is_kw rg_s_on)) rg_dirlocs)).
(* the part of a schema extension after `extend schema` *)
Definition rgl_schema_ext_tail : rg_p :=
  fun ts =>
    if rgl_schemaext_empty L && match ts with t :: _ => rg_is TkAt t | [] => false end
    then rg_seq (rgl_directives true) (rg_opt (rg_is TkLCurly) rgl_rootops0) ts
    else rg_seq (rg_peek (rg_is_at_or TkLCurly))
           (rg_seq (rgl_directives true) (rg_opt (rg_is TkLCurly) rgl_rootops)) ts.

Definition rgl_ts_def_kw : rg_dp :=
  fun ts => match ts with
            | (TkName, w) :: r =>
                if rg_streq rg_s_schema w then rg_ret (RgkSchemaDef, None) rgl_schema_tail r
                else if rg_streq rg_s_scalar w then rg_named RgkScalarDef rgl_scalar_tail r
                else if rg_streq rg_s_type w then rg_named RgkObjectDef rgl_object_tail r
                else if rg_streq rg_s_interface w then rg_named RgkInterfaceDef rgl_object_tail r
                else if rg_streq rg_s_union w then rg_named RgkUnionDef rgl_union_tail r
                else if rg_streq rg_s_enum w then rg_named RgkEnumDef rgl_enum_tail r
                else if rg_streq rg_s_input w then rg_named RgkInputDef rgl_input_tail r
                else if rg_streq rg_s_directive w then
                  match r with
                  | (TkAt, _) :: r' => rg_named RgkDirectiveDef rgl_dirdef_tail r'
                  | _ => RgNo
                  end
                else RgNo
            | _ => RgNo
            end.
Definition rgl_ts_ext_kw : rg_dp :=
  fun ts => match ts with
            | (TkName, w) :: r =>
                if rg_streq rg_s_schema w then rg_ret (RgkSchemaExt, None) rgl_schema_ext_tail r
                else if rg_streq rg_s_scalar w then
                  rg_named RgkScalarExt (rg_seq (rg_peek (rg_is TkAt)) rgl_scalar_tail) r
                else if rg_streq rg_s_type w then
                  rg_named RgkObjectExt (rg_seq (rg_peek rg_is_objext_start) rgl_object_tail) r
                else if rg_streq rg_s_interface w then
                  rg_named RgkInterfaceExt (rg_seq (rg_peek rg_is_objext_start) rgl_object_tail) r
                else if rg_streq rg_s_union w then
                  rg_named RgkUnionExt (rg_seq (rg_peek (rg_is_at_or TkEq)) rgl_union_tail) r
                else if rg_streq rg_s_enum w then
                  rg_named RgkEnumExt (rg_seq (rg_peek (rg_is_at_or TkLCurly)) rgl_enum_tail) r
                else if rg_streq rg_s_input w then
                  rg_named RgkInputExt (rg_seq (rg_peek (rg_is_at_or TkLCurly)) rgl_input_tail) r
                else RgNo
            | _ => RgNo
            end.

(* a string directly followed by the keyword `fragment`, when lenient: a fragment named `fragment` *)
Definition rgl_desc_then (r : list rg_token) : rg_r (rg_def * list rg_token) :=
  match r with
  | (TkName, w) :: r' =>
      if rgl_desc_fragment L && rg_streq rg_s_fragment w
      then rg_ret (RgkFragment, Some w) rgl_fragment_tail r'
      else rgl_ts_def_kw r
  | _ => rgl_ts_def_kw r
  end.

Definition rgl_definition : rg_dp :=
  fun ts => match ts with
            | (TkStringValue, _) :: r => rgl_desc_then r
            | (TkLCurly, _) :: _ => rgl_operation ts
            | (TkName, w) :: r =>
                if rg_is_optype (TkName, w) || rg_streq rg_s_fragment w then rgl_exec_definition ts
                else if rg_streq rg_s_extend w then rgl_ts_ext_kw r
                else rgl_ts_def_kw ts
            | _ => RgNo
            end.

Definition rgl_document (ts : list rg_token) : option (list rg_def) :=
  rg_to_option (rg_document_r rgl_definition ts).

(* the two standalone entries: one Type / `{ Selection+ }` or bare `Selection+`, to the end of the tokens *)
Definition rgl_whole (p : rg_p) (ts : list rg_token) : bool :=
  match p ts with RgOk [] => true | _ => false end.
Definition rgl_field_set : rg_p :=
  fun ts => match ts with
            | (TkLCurly, _) :: _ => rgl_selset ts
            | _ => rgl_selections ts
            end.
End Lenient.

(* the reference's counterparts of the two standalone entries *)
Definition rg_selections : rg_p :=
  fun ts => rg_seq (rg_selection_f (S (length ts))) (rg_many_f (S (length ts)) rg_sel_start (rg_selection_f (S (length ts)))) ts.
Definition rg_field_set : rg_p :=
  fun ts => match ts with
            | (TkLCurly, _) :: _ => rg_selset ts
            | _ => rg_selections ts
            end.

(* the class of token lists on which the parser's verdict can differ from the grammar's: the relaxed grammar
   accepts, the reference does not (decidable: both are total functions) *)
Definition rgl_known_document (ts : list rg_token) : bool :=
  match rgl_document rgl_parser ts, rg_document ts with
  | Some _, None => true
  | _, _ => false
  end.
Definition rgl_known_field_set (ts : list rg_token) : bool :=
  rgl_whole (rgl_field_set rgl_parser) ts && negb (rgl_whole rg_field_set ts).
