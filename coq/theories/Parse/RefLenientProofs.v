(* C05 — pure facts about the relaxed recogniser of Parse/RefLenient.v:
     rgl_strict_X   : with every flag off it IS the reference recogniser (pointwise equal);
     rgl_sub_X      : with any flags it accepts everything the reference accepts, with the same result
                      (the relaxations only add alternatives where the reference fails);
     rgl_X_progress : every list item of the relaxed grammar consumes a token (fuel arguments).
   Proofs only. *)
From ApolloVerif Require Import Base.Chars Lex.Item Lex.Fun Parse.RefGrammar Parse.RefLib Parse.RefLenient.

(* ------------------------------------------------------------------ pointwise equality of recognisers *)
Definition rg_eqv (p q : rg_p) : Prop := forall ts, p ts = q ts.
Definition rg_deqv (p q : rg_dp) : Prop := forall ts, p ts = q ts.

(* ------------------------------------------------------------------ inclusion of recognisers *)
Definition rg_sub (p q : rg_p) : Prop := forall ts r, p ts = RgOk r -> q ts = RgOk r.
Definition rg_dsub (p q : rg_dp) : Prop := forall ts x, p ts = RgOk x -> q ts = RgOk x.

Lemma rg_sub_refl p : rg_sub p p.
Proof. intros ts r H. exact H. Qed.
Lemma rg_sub_seq p p' q q' : rg_sub p p' -> rg_sub q q' -> rg_sub (rg_seq p q) (rg_seq p' q').
Proof.
  intros Hp Hq ts r. unfold rg_seq, rg_bind. destruct (p ts) as [r1| |] eqn:E; try discriminate.
  rewrite (Hp _ _ E). apply Hq.
Qed.
Lemma rg_sub_opt s p p' : rg_sub p p' -> rg_sub (rg_opt s p) (rg_opt s p').
Proof. intros Hp [|t ts] r; unfold rg_opt; [intros H; exact H|]. destruct (s t); [apply Hp|intros H; exact H]. Qed.
Lemma rg_sub_many_f s p p' : rg_sub p p' -> forall n, rg_sub (rg_many_f n s p) (rg_many_f n s p').
Proof.
  intros Hp n. induction n as [|n IH]; intros [|t ts] r; cbn [rg_many_f]; try (intros H; exact H).
  destruct (s t); [|intros H; exact H]. unfold rg_bind. destruct (p (t :: ts)) as [r1| |] eqn:E; try discriminate.
  rewrite (Hp _ _ E). apply IH.
Qed.
Lemma rg_sub_many s p p' : rg_sub p p' -> rg_sub (rg_many s p) (rg_many s p').
Proof. intros Hp ts r. unfold rg_many. now apply rg_sub_many_f. Qed.
Lemma rg_sub_plus s p p' : rg_sub p p' -> rg_sub (rg_plus s p) (rg_plus s p').
Proof. intros Hp. unfold rg_plus. apply rg_sub_seq; [exact Hp|now apply rg_sub_many]. Qed.
Lemma rg_dsub_ret d p p' : rg_sub p p' -> rg_dsub (rg_ret d p) (rg_ret d p').
Proof.
  intros Hp ts x. unfold rg_ret, rg_bind. destruct (p ts) as [r1| |] eqn:E; try discriminate.
  rewrite (Hp _ _ E). intros H; exact H.
Qed.
Lemma rg_dsub_named k p p' : rg_sub p p' -> rg_dsub (rg_named k p) (rg_named k p').
Proof. intros Hp [|[[] w] r] x; cbn; try discriminate. now apply rg_dsub_ret. Qed.

(* `: X` is included in `(: X)?` *)
Lemma rg_sub_colon_then b p p' : rg_sub p p' -> rg_sub (rg_seq (rg_sat (rg_is TkColon)) p) (rgl_colon_then b p').
Proof.
  intros Hp. destruct b; cbn [rgl_colon_then]; [|apply rg_sub_seq; [apply rg_sub_refl|exact Hp]].
  intros [|t ts] r; [discriminate|]. unfold rg_opt, rg_seq at 1, rg_bind, rg_sat at 1.
  destruct (rg_is TkColon t) eqn:E; [|discriminate]. intros H.
  unfold rg_seq, rg_bind, rg_sat. rewrite E. now apply Hp.
Qed.
Lemma rg_sub_close_list b : rg_sub (rg_sat (rg_is TkRBracket)) (rgl_close_list b).
Proof. destruct b; cbn [rgl_close_list]; [|apply rg_sub_refl]. intros [|t ts] r; [discriminate|intros H; exact H]. Qed.

(* more fuel does not change an accepting run of a list *)
Lemma rg_many_f_more s p : forall a b ts r, (a <= b)%nat ->
  rg_many_f a s p ts = RgOk r -> rg_many_f b s p ts = RgOk r.
Proof.
  induction a as [|a IH]; intros b ts r Hab; destruct ts as [|t ts']; cbn [rg_many_f].
  - destruct b; auto.
  - destruct (s t) eqn:Es; [discriminate|]. destruct b; cbn [rg_many_f]; rewrite Es; auto.
  - destruct b; auto.
  - destruct b as [|b]; [lia|]. cbn [rg_many_f]. destruct (s t); auto.
    unfold rg_bind. destruct (p (t :: ts')); auto. apply IH. lia.
Qed.
Lemma rg_plus_sub_many s p :
  rg_progress p -> (forall ts r, p ts = RgOk r -> rg_starts s ts) -> rg_sub (rg_plus s p) (rg_many s p).
Proof.
  intros Hp Hs ts r H. unfold rg_plus, rg_seq, rg_bind in H. destruct (p ts) as [r1| |] eqn:E; try discriminate.
  pose proof (Hs _ _ E) as Hst. pose proof (Hp _ _ E) as Hlt.
  destruct ts as [|t ts']; [contradiction|]. cbn in Hst. unfold rg_many. cbn [length rg_many_f].
  rewrite Hst, E. cbn [rg_bind]. unfold rg_many in H. eapply rg_many_f_more; [|exact H]. cbn in Hlt. lia.
Qed.

(* ------------------------------------------------------------------ strict = reference *)
(* with the flags off, every relaxed function unfolds to the text of the reference function: by conversion *)
Lemma rgl_strict_value c : rg_eqv (rgl_value rgl_strict c) (rg_value c).
Proof. intros ts. reflexivity. Qed.
Lemma rgl_strict_arguments c : rg_eqv (rgl_arguments rgl_strict c) (rg_arguments c).
Proof. intros ts. reflexivity. Qed.
Lemma rgl_strict_directives c : rg_eqv (rgl_directives rgl_strict c) (rg_directives c).
Proof. intros ts. reflexivity. Qed.
Lemma rgl_strict_vardefs : rg_eqv (rgl_vardefs rgl_strict) rg_vardefs.
Proof. intros ts. reflexivity. Qed.
Lemma rgl_strict_selset : rg_eqv (rgl_selset rgl_strict) rg_selset.
Proof. intros ts. reflexivity. Qed.
Lemma rgl_strict_selections : rg_eqv (rgl_selections rgl_strict) rg_selections.
Proof. intros ts. reflexivity. Qed.
Lemma rgl_strict_field_set : rg_eqv (rgl_field_set rgl_strict) rg_field_set.
Proof. intros ts. reflexivity. Qed.
Lemma rgl_strict_exec_definition : rg_deqv (rgl_exec_definition rgl_strict) rg_exec_definition.
Proof. intros ts. reflexivity. Qed.
Lemma rgl_strict_ts_def_kw : rg_deqv (rgl_ts_def_kw rgl_strict) rg_ts_def_kw.
Proof. intros ts. reflexivity. Qed.
Lemma rgl_strict_ts_ext_kw : rg_deqv (rgl_ts_ext_kw rgl_strict) rg_ts_ext_kw.
Proof. intros ts. reflexivity. Qed.
Lemma rgl_strict_definition : rg_deqv (rgl_definition rgl_strict) rg_definition.
Proof.
  intros ts. unfold rgl_definition, rg_definition. destruct ts as [|[k w] r]; [reflexivity|].
  destruct k; try reflexivity.
  unfold rgl_desc_then. cbn [rgl_desc_fragment rgl_strict andb].
  destruct r as [|[k2 w2] r2]; [reflexivity|]. destruct k2; reflexivity.
Qed.

Lemma rg_defs_f_ext (d d' : rg_dp) : rg_deqv d d' -> forall n ts, rg_defs_f n d ts = rg_defs_f n d' ts.
Proof.
  intros Hd n. induction n as [|n IH]; intros [|t ts]; cbn [rg_defs_f]; try reflexivity.
  rewrite Hd. unfold rg_bind. destruct (d' (t :: ts)) as [dr| |]; try reflexivity. rewrite IH. reflexivity.
Qed.
Theorem rgl_strict_document ts : rgl_document rgl_strict ts = rg_document ts.
Proof.
  unfold rgl_document, rg_document, rg_document_r. destruct ts as [|t ts]; [reflexivity|].
  rewrite (rg_defs_f_ext _ _ rgl_strict_definition). reflexivity.
Qed.

(* ------------------------------------------------------------------ reference ⊆ relaxed *)
(* structural steps; `known` closes the leaves that are earlier lemmas *)
Ltac rgl_sub_struct known :=
  repeat first
    [ match goal with
      | |- rg_sub ?p ?q => constr_eq p q; apply rg_sub_refl
      | |- rg_sub (rg_seq (rg_sat (rg_is TkColon)) _) (rgl_colon_then _ _) => apply rg_sub_colon_then
      | |- rg_sub (rg_seq _ _) (rg_seq _ _) => apply rg_sub_seq
      | |- rg_sub (rg_opt _ _) (rg_opt _ _) => apply rg_sub_opt
      | |- rg_sub (rg_many _ _) (rg_many _ _) => apply rg_sub_many
      | |- rg_sub (rg_plus _ _) (rg_plus _ _) => apply rg_sub_plus
      end
    | known ].

Section Sub.
Variable L : rgl_flags.

Lemma rgl_sub_value_f n : forall c, rg_sub (rg_value_f n c) (rgl_value_f L n c).
Proof.
  induction n as [|n IH]; intros c ts r; [discriminate|]. cbn [rgl_value_f rg_value_f].
  destruct ts as [|[k d] r0]; [intros H; exact H|]. destruct k; try (intros H; exact H).
  - revert r. apply rg_sub_seq; [|apply rg_sub_close_list]. apply rg_sub_many_f. apply IH.
  - revert r. apply rg_sub_seq; [|apply rg_sub_refl]. apply rg_sub_many_f.
    apply rg_sub_seq; [apply rg_sub_refl|]. apply rg_sub_colon_then. apply IH.
Qed.
Lemma rgl_sub_value c : rg_sub (rg_value c) (rgl_value L c).
Proof. intros ts r. apply rgl_sub_value_f. Qed.
Lemma rgl_sub_argument c : rg_sub (rg_argument c) (rgl_argument L c).
Proof. unfold rgl_argument, rg_argument. rgl_sub_struct ltac:(apply rgl_sub_value). Qed.
Lemma rgl_sub_arguments c : rg_sub (rg_arguments c) (rgl_arguments L c).
Proof. unfold rgl_arguments, rg_arguments. rgl_sub_struct ltac:(first [apply rgl_sub_value|apply rgl_sub_argument]). Qed.
Lemma rgl_sub_directive c : rg_sub (rg_directive c) (rgl_directive L c).
Proof. unfold rgl_directive, rg_directive. rgl_sub_struct ltac:(first [first [apply rgl_sub_value|apply rgl_sub_argument]|apply rgl_sub_arguments]). Qed.
Lemma rgl_sub_directives c : rg_sub (rg_directives c) (rgl_directives L c).
Proof. unfold rgl_directives, rg_directives. rgl_sub_struct ltac:(first [first [first [apply rgl_sub_value|apply rgl_sub_argument]|apply rgl_sub_arguments]|apply rgl_sub_directive]). Qed.
Lemma rgl_sub_default : rg_sub (rg_default) (rgl_default L).
Proof. unfold rgl_default, rg_default. rgl_sub_struct ltac:(first [first [first [first [apply rgl_sub_value|apply rgl_sub_argument]|apply rgl_sub_arguments]|apply rgl_sub_directive]|apply rgl_sub_directives]). Qed.
Lemma rgl_sub_vardef : rg_sub (rg_vardef) (rgl_vardef L).
Proof. unfold rgl_vardef, rg_vardef. rgl_sub_struct ltac:(first [first [first [first [first [apply rgl_sub_value|apply rgl_sub_argument]|apply rgl_sub_arguments]|apply rgl_sub_directive]|apply rgl_sub_directives]|apply rgl_sub_default]). Qed.
Lemma rgl_sub_vardefs : rg_sub (rg_vardefs) (rgl_vardefs L).
Proof. unfold rgl_vardefs, rg_vardefs. rgl_sub_struct ltac:(first [first [first [first [first [first [apply rgl_sub_value|apply rgl_sub_argument]|apply rgl_sub_arguments]|apply rgl_sub_directive]|apply rgl_sub_directives]|apply rgl_sub_default]|apply rgl_sub_vardef]). Qed.

Lemma rgl_sub_sel n :
  rg_sub (rg_selset_f n) (rgl_selset_f L n) /\ rg_sub (rg_selection_f n) (rgl_selection_f L n).
Proof.
  induction n as [|n [IH1 IH2]]; [split; intros ts r; discriminate|]. split.
  - intros ts. cbn [rgl_selset_f rg_selset_f]. revert ts.
    apply rg_sub_seq; [apply rg_sub_refl|]. apply rg_sub_seq; [|apply rg_sub_refl].
    apply rg_sub_seq; [exact IH2|]. apply rg_sub_many_f. exact IH2.
  - intros ts. cbn [rgl_selection_f rg_selection_f].
    destruct ts as [|[k d] r]; [intros r0 H; exact H|]. destruct k; try (intros r0 H; exact H).
    + destruct r as [|[k2 w] r2].
      * apply (rg_sub_seq _ _ _ _ (rgl_sub_directives false) IH1).
      * destruct k2; try apply (rg_sub_seq _ _ _ _ (rgl_sub_directives false) IH1).
        destruct (rg_streq rg_s_on w); [|apply rgl_sub_directives].
        apply rg_sub_seq; [apply rg_sub_refl|]. apply (rg_sub_seq _ _ _ _ (rgl_sub_directives false) IH1).
    + revert r. apply rg_sub_seq; [apply rg_sub_refl|]. apply rg_sub_seq; [apply rg_sub_opt, rgl_sub_arguments|].
      apply rg_sub_seq; [apply rgl_sub_directives|]. apply rg_sub_opt. exact IH1.
Qed.
Lemma rgl_sub_selset : rg_sub rg_selset (rgl_selset L).
Proof. intros ts. apply (proj1 (rgl_sub_sel _)). Qed.
Lemma rgl_sub_selections : rg_sub rg_selections (rgl_selections L).
Proof.
  intros ts. unfold rgl_selections, rgl_selections_f, rg_selections. generalize (S (length ts)). intros n. revert ts.
  apply rg_sub_seq; [apply (proj2 (rgl_sub_sel _))|]. apply rg_sub_many_f. apply (proj2 (rgl_sub_sel _)).
Qed.
Lemma rgl_sub_field_set : rg_sub rg_field_set (rgl_field_set L).
Proof.
  intros ts. unfold rgl_field_set, rg_field_set. destruct ts as [|[[] d] r];
    first [apply rgl_sub_selset|apply rgl_sub_selections].
Qed.
Lemma rgl_sub_op_tail : rg_sub (rg_op_tail) (rgl_op_tail L).
Proof. unfold rgl_op_tail, rg_op_tail. rgl_sub_struct ltac:(first [first [first [first [first [first [first [first [apply rgl_sub_value|apply rgl_sub_argument]|apply rgl_sub_arguments]|apply rgl_sub_directive]|apply rgl_sub_directives]|apply rgl_sub_default]|apply rgl_sub_vardef]|apply rgl_sub_vardefs]|apply rgl_sub_selset]). Qed.
Lemma rgl_sub_fragment_tail : rg_sub (rg_fragment_tail) (rgl_fragment_tail L).
Proof. unfold rgl_fragment_tail, rg_fragment_tail. rgl_sub_struct ltac:(first [first [first [first [first [first [first [first [first [apply rgl_sub_value|apply rgl_sub_argument]|apply rgl_sub_arguments]|apply rgl_sub_directive]|apply rgl_sub_directives]|apply rgl_sub_default]|apply rgl_sub_vardef]|apply rgl_sub_vardefs]|apply rgl_sub_selset]|apply rgl_sub_op_tail]). Qed.

Ltac rgl_id := let x := fresh "x" in let H := fresh "H" in intros x H; exact H.
Ltac rgl_no := let x := fresh "x" in let H := fresh "H" in intros x H; discriminate H.

Lemma rgl_sub_operation : rg_dsub rg_operation (rgl_operation L).
Proof.
  intros ts. unfold rgl_operation, rg_operation. destruct ts as [|[k d] r]; [rgl_no|].
  destruct k; try rgl_no; try (apply rg_dsub_ret; apply rgl_sub_selset).
  destruct (rg_is_optype _); [|rgl_no]. destruct r as [|[k2 w] r2]; [apply rg_dsub_ret; apply rgl_sub_op_tail|].
  destruct k2; apply rg_dsub_ret; apply rgl_sub_op_tail.
Qed.
Lemma rgl_sub_fragment : rg_dsub rg_fragment (rgl_fragment L).
Proof.
  intros ts. unfold rgl_fragment, rg_fragment. destruct ts as [|t [|[k w] r]]; try rgl_no.
  destruct k; try rgl_no. destruct (_ && _); [|rgl_no]. apply rg_dsub_ret; apply rgl_sub_fragment_tail.
Qed.
Lemma rgl_sub_exec_definition : rg_dsub rg_exec_definition (rgl_exec_definition L).
Proof.
  intros ts. unfold rgl_exec_definition, rg_exec_definition. destruct ts as [|t r]; [rgl_no|].
  destruct (rg_is_kw _ t); [apply rgl_sub_fragment|apply rgl_sub_operation].
Qed.

Lemma rgl_sub_inputvaldef : rg_sub (rg_inputvaldef) (rgl_inputvaldef L).
Proof. unfold rgl_inputvaldef, rg_inputvaldef. rgl_sub_struct ltac:(first [first [first [first [first [first [first [first [first [first [apply rgl_sub_value|apply rgl_sub_argument]|apply rgl_sub_arguments]|apply rgl_sub_directive]|apply rgl_sub_directives]|apply rgl_sub_default]|apply rgl_sub_vardef]|apply rgl_sub_vardefs]|apply rgl_sub_selset]|apply rgl_sub_op_tail]|apply rgl_sub_fragment_tail]). Qed.
Lemma rgl_sub_argsdef : rg_sub (rg_argsdef) (rgl_argsdef L).
Proof. unfold rgl_argsdef, rg_argsdef. rgl_sub_struct ltac:(first [first [first [first [first [first [first [first [first [first [first [apply rgl_sub_value|apply rgl_sub_argument]|apply rgl_sub_arguments]|apply rgl_sub_directive]|apply rgl_sub_directives]|apply rgl_sub_default]|apply rgl_sub_vardef]|apply rgl_sub_vardefs]|apply rgl_sub_selset]|apply rgl_sub_op_tail]|apply rgl_sub_fragment_tail]|apply rgl_sub_inputvaldef]). Qed.
Lemma rgl_sub_fielddef : rg_sub (rg_fielddef) (rgl_fielddef L).
Proof. unfold rgl_fielddef, rg_fielddef. rgl_sub_struct ltac:(first [first [first [first [first [first [first [first [first [first [first [first [apply rgl_sub_value|apply rgl_sub_argument]|apply rgl_sub_arguments]|apply rgl_sub_directive]|apply rgl_sub_directives]|apply rgl_sub_default]|apply rgl_sub_vardef]|apply rgl_sub_vardefs]|apply rgl_sub_selset]|apply rgl_sub_op_tail]|apply rgl_sub_fragment_tail]|apply rgl_sub_inputvaldef]|apply rgl_sub_argsdef]). Qed.
Lemma rgl_sub_fieldsdef : rg_sub (rg_fieldsdef) (rgl_fieldsdef L).
Proof. unfold rgl_fieldsdef, rg_fieldsdef. rgl_sub_struct ltac:(first [first [first [first [first [first [first [first [first [first [first [first [first [apply rgl_sub_value|apply rgl_sub_argument]|apply rgl_sub_arguments]|apply rgl_sub_directive]|apply rgl_sub_directives]|apply rgl_sub_default]|apply rgl_sub_vardef]|apply rgl_sub_vardefs]|apply rgl_sub_selset]|apply rgl_sub_op_tail]|apply rgl_sub_fragment_tail]|apply rgl_sub_inputvaldef]|apply rgl_sub_argsdef]|apply rgl_sub_fielddef]). Qed.
Lemma rgl_sub_inputfieldsdef : rg_sub (rg_inputfieldsdef) (rgl_inputfieldsdef L).
Proof. unfold rgl_inputfieldsdef, rg_inputfieldsdef. rgl_sub_struct ltac:(first [first [first [first [first [first [first [first [first [first [first [first [first [first [apply rgl_sub_value|apply rgl_sub_argument]|apply rgl_sub_arguments]|apply rgl_sub_directive]|apply rgl_sub_directives]|apply rgl_sub_default]|apply rgl_sub_vardef]|apply rgl_sub_vardefs]|apply rgl_sub_selset]|apply rgl_sub_op_tail]|apply rgl_sub_fragment_tail]|apply rgl_sub_inputvaldef]|apply rgl_sub_argsdef]|apply rgl_sub_fielddef]|apply rgl_sub_fieldsdef]). Qed.
Lemma rgl_sub_enumvaldef : rg_sub (rg_enumvaldef) (rgl_enumvaldef L).
Proof. unfold rgl_enumvaldef, rg_enumvaldef. rgl_sub_struct ltac:(first [first [first [first [first [first [first [first [first [first [first [first [first [first [first [apply rgl_sub_value|apply rgl_sub_argument]|apply rgl_sub_arguments]|apply rgl_sub_directive]|apply rgl_sub_directives]|apply rgl_sub_default]|apply rgl_sub_vardef]|apply rgl_sub_vardefs]|apply rgl_sub_selset]|apply rgl_sub_op_tail]|apply rgl_sub_fragment_tail]|apply rgl_sub_inputvaldef]|apply rgl_sub_argsdef]|apply rgl_sub_fielddef]|apply rgl_sub_fieldsdef]|apply rgl_sub_inputfieldsdef]). Qed.
Lemma rgl_sub_enumvalsdef : rg_sub (rg_enumvalsdef) (rgl_enumvalsdef L).
Proof. unfold rgl_enumvalsdef, rg_enumvalsdef. rgl_sub_struct ltac:(first [first [first [first [first [first [first [first [first [first [first [first [first [first [first [first [apply rgl_sub_value|apply rgl_sub_argument]|apply rgl_sub_arguments]|apply rgl_sub_directive]|apply rgl_sub_directives]|apply rgl_sub_default]|apply rgl_sub_vardef]|apply rgl_sub_vardefs]|apply rgl_sub_selset]|apply rgl_sub_op_tail]|apply rgl_sub_fragment_tail]|apply rgl_sub_inputvaldef]|apply rgl_sub_argsdef]|apply rgl_sub_fielddef]|apply rgl_sub_fieldsdef]|apply rgl_sub_inputfieldsdef]|apply rgl_sub_enumvaldef]). Qed.
Lemma rgl_sub_rootop : rg_sub rg_rootop (rgl_rootop L).
Proof.
  unfold rgl_rootop, rg_rootop. apply rg_sub_seq; [apply rg_sub_refl|]. apply rg_sub_seq; [apply rg_sub_refl|].
  destruct (rgl_rootop_notype L); [|apply rg_sub_refl].
  intros [|t ts] r; [discriminate|]. unfold rg_opt, rg_name, rg_sat. destruct (rg_is TkName t); [intros H; exact H|discriminate].
Qed.
Lemma rgl_sub_rootops : rg_sub (rg_rootops) (rgl_rootops L).
Proof. unfold rgl_rootops, rg_rootops. rgl_sub_struct ltac:(first [first [first [first [first [first [first [first [first [first [first [first [first [first [first [first [first [first [apply rgl_sub_value|apply rgl_sub_argument]|apply rgl_sub_arguments]|apply rgl_sub_directive]|apply rgl_sub_directives]|apply rgl_sub_default]|apply rgl_sub_vardef]|apply rgl_sub_vardefs]|apply rgl_sub_selset]|apply rgl_sub_op_tail]|apply rgl_sub_fragment_tail]|apply rgl_sub_inputvaldef]|apply rgl_sub_argsdef]|apply rgl_sub_fielddef]|apply rgl_sub_fieldsdef]|apply rgl_sub_inputfieldsdef]|apply rgl_sub_enumvaldef]|apply rgl_sub_enumvalsdef]|apply rgl_sub_rootop]). Qed.
(* one or more is included in zero or more *)
Lemma rgl_sub_rootops0 : rg_sub rg_rootops (rgl_rootops0 L).
Proof.
  unfold rgl_rootops0, rg_rootops. apply rg_sub_seq; [apply rg_sub_refl|]. apply rg_sub_seq; [|apply rg_sub_refl].
  intros ts r H. apply rg_plus_sub_many.
  - unfold rgl_rootop. apply rg_progress_seq_l; [apply rg_progress_sat|]. apply rg_nolonger_seq.
    + apply rg_progress_nolonger, rg_progress_sat.
    + destruct (rgl_rootop_notype L); [apply rg_nolonger_opt|]; apply rg_progress_nolonger, rg_progress_sat.
  - intros ts0 r0 E. unfold rgl_rootop, rg_seq, rg_bind, rg_sat in E. destruct ts0 as [|t ts0']; [discriminate|].
    cbn. destruct (rg_is_optype t) eqn:Eo; [|discriminate].
    unfold rg_is_optype, rg_is_in in Eo. apply andb_prop in Eo as [Eo _]. exact Eo.
  - revert H. apply rg_sub_plus. apply rgl_sub_rootop.
Qed.
Lemma rgl_sub_schema_tail : rg_sub (rg_schema_tail) (rgl_schema_tail L).
Proof. unfold rgl_schema_tail, rg_schema_tail. rgl_sub_struct ltac:(first [first [first [first [first [first [first [first [first [first [first [first [first [first [first [first [first [first [first [apply rgl_sub_value|apply rgl_sub_argument]|apply rgl_sub_arguments]|apply rgl_sub_directive]|apply rgl_sub_directives]|apply rgl_sub_default]|apply rgl_sub_vardef]|apply rgl_sub_vardefs]|apply rgl_sub_selset]|apply rgl_sub_op_tail]|apply rgl_sub_fragment_tail]|apply rgl_sub_inputvaldef]|apply rgl_sub_argsdef]|apply rgl_sub_fielddef]|apply rgl_sub_fieldsdef]|apply rgl_sub_inputfieldsdef]|apply rgl_sub_enumvaldef]|apply rgl_sub_enumvalsdef]|apply rgl_sub_rootop]|apply rgl_sub_rootops]). Qed.
Lemma rgl_sub_scalar_tail : rg_sub (rg_scalar_tail) (rgl_scalar_tail L).
Proof. unfold rgl_scalar_tail, rg_scalar_tail. rgl_sub_struct ltac:(first [first [first [first [first [first [first [first [first [first [first [first [first [first [first [first [first [first [first [first [apply rgl_sub_value|apply rgl_sub_argument]|apply rgl_sub_arguments]|apply rgl_sub_directive]|apply rgl_sub_directives]|apply rgl_sub_default]|apply rgl_sub_vardef]|apply rgl_sub_vardefs]|apply rgl_sub_selset]|apply rgl_sub_op_tail]|apply rgl_sub_fragment_tail]|apply rgl_sub_inputvaldef]|apply rgl_sub_argsdef]|apply rgl_sub_fielddef]|apply rgl_sub_fieldsdef]|apply rgl_sub_inputfieldsdef]|apply rgl_sub_enumvaldef]|apply rgl_sub_enumvalsdef]|apply rgl_sub_rootop]|apply rgl_sub_rootops]|apply rgl_sub_schema_tail]). Qed.
Lemma rgl_sub_object_tail : rg_sub (rg_object_tail) (rgl_object_tail L).
Proof. unfold rgl_object_tail, rg_object_tail. rgl_sub_struct ltac:(first [first [first [first [first [first [first [first [first [first [first [first [first [first [first [first [first [first [first [first [first [apply rgl_sub_value|apply rgl_sub_argument]|apply rgl_sub_arguments]|apply rgl_sub_directive]|apply rgl_sub_directives]|apply rgl_sub_default]|apply rgl_sub_vardef]|apply rgl_sub_vardefs]|apply rgl_sub_selset]|apply rgl_sub_op_tail]|apply rgl_sub_fragment_tail]|apply rgl_sub_inputvaldef]|apply rgl_sub_argsdef]|apply rgl_sub_fielddef]|apply rgl_sub_fieldsdef]|apply rgl_sub_inputfieldsdef]|apply rgl_sub_enumvaldef]|apply rgl_sub_enumvalsdef]|apply rgl_sub_rootop]|apply rgl_sub_rootops]|apply rgl_sub_schema_tail]|apply rgl_sub_scalar_tail]). Qed.
Lemma rgl_sub_union_tail : rg_sub (rg_union_tail) (rgl_union_tail L).
Proof. unfold rgl_union_tail, rg_union_tail. rgl_sub_struct ltac:(first [first [first [first [first [first [first [first [first [first [first [first [first [first [first [first [first [first [first [first [first [first [apply rgl_sub_value|apply rgl_sub_argument]|apply rgl_sub_arguments]|apply rgl_sub_directive]|apply rgl_sub_directives]|apply rgl_sub_default]|apply rgl_sub_vardef]|apply rgl_sub_vardefs]|apply rgl_sub_selset]|apply rgl_sub_op_tail]|apply rgl_sub_fragment_tail]|apply rgl_sub_inputvaldef]|apply rgl_sub_argsdef]|apply rgl_sub_fielddef]|apply rgl_sub_fieldsdef]|apply rgl_sub_inputfieldsdef]|apply rgl_sub_enumvaldef]|apply rgl_sub_enumvalsdef]|apply rgl_sub_rootop]|apply rgl_sub_rootops]|apply rgl_sub_schema_tail]|apply rgl_sub_scalar_tail]|apply rgl_sub_object_tail]). Qed.
Lemma rgl_sub_enum_tail : rg_sub (rg_enum_tail) (rgl_enum_tail L).
Proof. unfold rgl_enum_tail, rg_enum_tail. rgl_sub_struct ltac:(first [first [first [first [first [first [first [first [first [first [first [first [first [first [first [first [first [first [first [first [first [first [first [apply rgl_sub_value|apply rgl_sub_argument]|apply rgl_sub_arguments]|apply rgl_sub_directive]|apply rgl_sub_directives]|apply rgl_sub_default]|apply rgl_sub_vardef]|apply rgl_sub_vardefs]|apply rgl_sub_selset]|apply rgl_sub_op_tail]|apply rgl_sub_fragment_tail]|apply rgl_sub_inputvaldef]|apply rgl_sub_argsdef]|apply rgl_sub_fielddef]|apply rgl_sub_fieldsdef]|apply rgl_sub_inputfieldsdef]|apply rgl_sub_enumvaldef]|apply rgl_sub_enumvalsdef]|apply rgl_sub_rootop]|apply rgl_sub_rootops]|apply rgl_sub_schema_tail]|apply rgl_sub_scalar_tail]|apply rgl_sub_object_tail]|apply rgl_sub_union_tail]). Qed.
Lemma rgl_sub_input_tail : rg_sub (rg_input_tail) (rgl_input_tail L).
Proof. unfold rgl_input_tail, rg_input_tail. rgl_sub_struct ltac:(first [first [first [first [first [first [first [first [first [first [first [first [first [first [first [first [first [first [first [first [first [first [first [first [apply rgl_sub_value|apply rgl_sub_argument]|apply rgl_sub_arguments]|apply rgl_sub_directive]|apply rgl_sub_directives]|apply rgl_sub_default]|apply rgl_sub_vardef]|apply rgl_sub_vardefs]|apply rgl_sub_selset]|apply rgl_sub_op_tail]|apply rgl_sub_fragment_tail]|apply rgl_sub_inputvaldef]|apply rgl_sub_argsdef]|apply rgl_sub_fielddef]|apply rgl_sub_fieldsdef]|apply rgl_sub_inputfieldsdef]|apply rgl_sub_enumvaldef]|apply rgl_sub_enumvalsdef]|apply rgl_sub_rootop]|apply rgl_sub_rootops]|apply rgl_sub_schema_tail]|apply rgl_sub_scalar_tail]|apply rgl_sub_object_tail]|apply rgl_sub_union_tail]|apply rgl_sub_enum_tail]). Qed.
Lemma rgl_sub_dirdef_tail : rg_sub (rg_dirdef_tail) (rgl_dirdef_tail L).
Proof. unfold rgl_dirdef_tail, rg_dirdef_tail. rgl_sub_struct ltac:(first [first [first [first [first [first [first [first [first [first [first [first [first [first [first [first [first [first [first [first [first [first [first [first [first [apply rgl_sub_value|apply rgl_sub_argument]|apply rgl_sub_arguments]|apply rgl_sub_directive]|apply rgl_sub_directives]|apply rgl_sub_default]|apply rgl_sub_vardef]|apply rgl_sub_vardefs]|apply rgl_sub_selset]|apply rgl_sub_op_tail]|apply rgl_sub_fragment_tail]|apply rgl_sub_inputvaldef]|apply rgl_sub_argsdef]|apply rgl_sub_fielddef]|apply rgl_sub_fieldsdef]|apply rgl_sub_inputfieldsdef]|apply rgl_sub_enumvaldef]|apply rgl_sub_enumvalsdef]|apply rgl_sub_rootop]|apply rgl_sub_rootops]|apply rgl_sub_schema_tail]|apply rgl_sub_scalar_tail]|apply rgl_sub_object_tail]|apply rgl_sub_union_tail]|apply rgl_sub_enum_tail]|apply rgl_sub_input_tail]). Qed.

Lemma rgl_sub_schema_ext_tail :
  rg_sub (rg_seq (rg_peek (rg_is_at_or TkLCurly)) (rg_seq (rg_directives true) (rg_opt (rg_is TkLCurly) rg_rootops)))
         (rgl_schema_ext_tail L).
Proof.
  intros ts r H. unfold rgl_schema_ext_tail.
  destruct (rgl_schemaext_empty L && match ts with t :: _ => rg_is TkAt t | [] => false end) eqn:Eb.
  - (* lenient branch: the peek succeeded on `@` *)
    unfold rg_seq at 1, rg_bind in H. destruct (rg_peek (rg_is_at_or TkLCurly) ts) as [r0| |] eqn:Ep; try discriminate.
    assert (r0 = ts).
    { unfold rg_peek in Ep. destruct ts as [|t ts']; [discriminate|]. destruct (rg_is_at_or TkLCurly t); [|discriminate].
      now injection Ep as <-. }
    subst r0. revert H. apply rg_sub_seq; [apply rgl_sub_directives|]. apply rg_sub_opt. apply rgl_sub_rootops0.
  - revert H. apply rg_sub_seq; [apply rg_sub_refl|]. apply rg_sub_seq; [apply rgl_sub_directives|].
    apply rg_sub_opt. apply rgl_sub_rootops.
Qed.

Ltac rgl_kw_step :=
  match goal with |- context [if rg_streq ?a ?b then _ else _] => destruct (rg_streq a b) end.
Ltac rgl_tail known :=
  first [ apply rg_dsub_ret | apply rg_dsub_named ]; rgl_sub_struct known.

Lemma rgl_sub_ts_def_kw : rg_dsub rg_ts_def_kw (rgl_ts_def_kw L).
Proof.
  intros ts. unfold rgl_ts_def_kw, rg_ts_def_kw. destruct ts as [|[k w] r]; [rgl_no|]. destruct k; try rgl_no.
  rgl_kw_step; [apply rg_dsub_ret; apply rgl_sub_schema_tail|].
  rgl_kw_step; [apply rg_dsub_named; apply rgl_sub_scalar_tail|].
  rgl_kw_step; [apply rg_dsub_named; apply rgl_sub_object_tail|].
  rgl_kw_step; [apply rg_dsub_named; apply rgl_sub_object_tail|].
  rgl_kw_step; [apply rg_dsub_named; apply rgl_sub_union_tail|].
  rgl_kw_step; [apply rg_dsub_named; apply rgl_sub_enum_tail|].
  rgl_kw_step; [apply rg_dsub_named; apply rgl_sub_input_tail|].
  rgl_kw_step; [|rgl_no].
  destruct r as [|[k2 w2] r2]; [rgl_no|]. destruct k2; try rgl_no. apply rg_dsub_named; apply rgl_sub_dirdef_tail.
Qed.
Lemma rgl_sub_ts_ext_kw : rg_dsub rg_ts_ext_kw (rgl_ts_ext_kw L).
Proof.
  intros ts. unfold rgl_ts_ext_kw, rg_ts_ext_kw. destruct ts as [|[k w] r]; [rgl_no|]. destruct k; try rgl_no.
  rgl_kw_step; [apply rg_dsub_ret; apply rgl_sub_schema_ext_tail|].
  rgl_kw_step; [apply rg_dsub_named; apply rg_sub_seq; [apply rg_sub_refl|apply rgl_sub_scalar_tail]|].
  rgl_kw_step; [apply rg_dsub_named; apply rg_sub_seq; [apply rg_sub_refl|apply rgl_sub_object_tail]|].
  rgl_kw_step; [apply rg_dsub_named; apply rg_sub_seq; [apply rg_sub_refl|apply rgl_sub_object_tail]|].
  rgl_kw_step; [apply rg_dsub_named; apply rg_sub_seq; [apply rg_sub_refl|apply rgl_sub_union_tail]|].
  rgl_kw_step; [apply rg_dsub_named; apply rg_sub_seq; [apply rg_sub_refl|apply rgl_sub_enum_tail]|].
  rgl_kw_step; [apply rg_dsub_named; apply rg_sub_seq; [apply rg_sub_refl|apply rgl_sub_input_tail]|].
  rgl_no.
Qed.
(* `fragment` is not a type-system keyword: the reference rejects a string followed by it *)
Lemma rg_streq_eq a b : rg_streq a b = true -> a = b.
Proof.
  revert b. induction a as [|x a IH]; intros [|y b]; cbn [rg_streq]; try discriminate; [reflexivity|].
  intros H. apply andb_prop in H as [H1 H2]. apply N.eqb_eq in H1. subst y. f_equal. now apply IH.
Qed.
Lemma rg_ts_def_kw_fragment w r : rg_streq rg_s_fragment w = true -> rg_ts_def_kw ((TkName, w) :: r) = RgNo.
Proof. intros H. apply rg_streq_eq in H. subst w. reflexivity. Qed.
Lemma rgl_sub_definition : rg_dsub rg_definition (rgl_definition L).
Proof.
  intros ts. unfold rgl_definition, rg_definition. destruct ts as [|[k w] r]; [rgl_no|].
  destruct k; try rgl_no.
  - apply rgl_sub_operation.
  - destruct (_ || _); [apply rgl_sub_exec_definition|]. destruct (rg_streq _ _); [apply rgl_sub_ts_ext_kw|].
    apply rgl_sub_ts_def_kw.
  - unfold rgl_desc_then. destruct r as [|[k2 w2] r2]; [apply rgl_sub_ts_def_kw|].
    destruct k2; try apply rgl_sub_ts_def_kw.
    destruct (rgl_desc_fragment L && rg_streq rg_s_fragment w2) eqn:Eb; [|apply rgl_sub_ts_def_kw].
    apply andb_prop in Eb as [_ Eb]. intros x. rewrite (rg_ts_def_kw_fragment _ _ Eb). discriminate.
Qed.

Lemma rg_defs_f_sub (d d' : rg_dp) : rg_dsub d d' ->
  forall n ts ds, rg_defs_f n d ts = RgOk ds -> rg_defs_f n d' ts = RgOk ds.
Proof.
  intros Hd n. induction n as [|n IH]; intros [|t ts] ds; cbn [rg_defs_f]; auto.
  unfold rg_bind. destruct (d (t :: ts)) as [dr| |] eqn:E; try discriminate. rewrite (Hd _ _ E).
  destruct (rg_defs_f n d (snd dr)) as [ds'| |] eqn:E2; try discriminate. rewrite (IH _ _ E2). auto.
Qed.
Theorem rgl_sub_document ts ds : rg_document ts = Some ds -> rgl_document L ts = Some ds.
Proof.
  unfold rgl_document, rg_document, rg_document_r. destruct ts as [|t ts]; [discriminate|].
  destruct (rg_defs_f _ rg_definition _) as [ds'| |] eqn:E; try discriminate. intros [= <-].
  rewrite (rg_defs_f_sub _ _ rgl_sub_definition _ _ _ E). reflexivity.
Qed.

(* ------------------------------------------------------------------ progress *)
Lemma rgl_colon_then_nolonger b p : rg_nolonger p -> rg_nolonger (rgl_colon_then b p).
Proof.
  intros Hp. destruct b; cbn [rgl_colon_then].
  - apply rg_nolonger_opt. apply rg_nolonger_seq; [apply rg_progress_nolonger, rg_progress_sat|exact Hp].
  - apply rg_nolonger_seq; [apply rg_progress_nolonger, rg_progress_sat|exact Hp].
Qed.
Lemma rgl_close_list_nolonger b : rg_nolonger (rgl_close_list b).
Proof.
  destruct b; cbn [rgl_close_list]; [|apply rg_progress_nolonger, rg_progress_sat].
  intros [|t ts] r; [intros [= <-]; lia|]. intros H. apply rg_progress_sat in H. lia.
Qed.

Lemma rgl_value_f_progress n : forall c, rg_progress (rgl_value_f L n c).
Proof.
  induction n as [|n IH]; intros c ts r; [discriminate|]. cbn [rgl_value_f].
  destruct ts as [|[k d] r0]; [discriminate|]. cbn [length].
  assert (Hnl : forall p, rg_nolonger p -> p r0 = RgOk r -> (length r < S (length r0))%nat).
  { intros p Hp E. specialize (Hp _ _ E). lia. }
  destruct k; try discriminate; try (intros [= <-]; lia).
  - destruct c; [discriminate|]. apply Hnl. apply rg_progress_nolonger, rg_progress_sat.
  - apply Hnl. apply rg_nolonger_seq; [|apply rgl_close_list_nolonger].
    apply rg_nolonger_many_f. apply rg_progress_nolonger, IH.
  - apply Hnl. apply rg_nolonger_seq; [|apply rg_progress_nolonger, rg_progress_sat].
    apply rg_nolonger_many_f. apply rg_nolonger_seq; [apply rg_progress_nolonger, rg_progress_sat|].
    apply rgl_colon_then_nolonger. apply rg_progress_nolonger, IH.
Qed.
Lemma rgl_value_progress c : rg_progress (rgl_value L c).
Proof. intros ts r. apply rgl_value_f_progress. Qed.

Lemma rgl_argument_progress c : rg_progress (rgl_argument L c).
Proof.
  unfold rgl_argument. apply rg_progress_seq_l; [apply rg_progress_sat|].
  apply rgl_colon_then_nolonger. apply rg_progress_nolonger, rgl_value_progress.
Qed.
Lemma rgl_arguments_progress c : rg_progress (rgl_arguments L c).
Proof.
  unfold rgl_arguments. apply rg_progress_seq_l; [apply rg_progress_sat|]. apply rg_nolonger_seq.
  - apply rg_progress_nolonger, rg_progress_plus, rgl_argument_progress.
  - apply rg_progress_nolonger, rg_progress_sat.
Qed.
Lemma rgl_directive_progress c : rg_progress (rgl_directive L c).
Proof.
  unfold rgl_directive. apply rg_progress_seq_l; [apply rg_progress_sat|]. apply rg_nolonger_seq.
  - apply rg_progress_nolonger, rg_progress_sat.
  - apply rg_nolonger_opt, rg_progress_nolonger, rgl_arguments_progress.
Qed.
Lemma rgl_directives_nolonger c : rg_nolonger (rgl_directives L c).
Proof. apply rg_nolonger_many, rg_progress_nolonger, rgl_directive_progress. Qed.
End Sub.
