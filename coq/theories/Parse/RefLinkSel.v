(* C05 / C07 link — selection.rs, field.rs, fragment.rs (spread, inline fragment): the selection-set family against
   the relaxed reference, and the standalone field-set entry.  Proofs only. *)
From Coq Require Import PeanoNat.
From ApolloVerif Require Import Base.Chars Lex.Item Lex.Fun Parse.Outcome Parse.Builder Parse.Limits Parse.Monad
  Parse.Keywords Parse.Grammar Parse.Generic Parse.Atoms Parse.Entry Parse.LosslessDefs Parse.Lossless
  Parse.TrackerInst Parse.SilentInst Parse.EntryEnd Parse.Terminates Parse.RefGrammar Parse.RefLib Parse.RefLenient
  Parse.RefLenientProofs Parse.RefLinkBase Parse.RefLinkLoops Parse.RefLinkType Parse.RefLinkValue Parse.RefLinkExec.

(* ------------------------------------------------------------------ two tokens of look-ahead *)
Definition rl_tok_view (t2 : prstoken) (ts : list rg_token) : Prop :=
  match ts with
  | [] => tok_kind t2 = TkEof /\ tok_data t2 = []
  | (k, d) :: _ => tok_kind t2 = k /\ tok_data t2 = d /\ k <> TkEof /\ rl_tok_ok k d = true
  end.

Lemma rl_nth_sig0 items : rl_stream items ->
  exists t2, p_nth_significant 0 items = Some t2 /\ rl_tok_view t2 (rl_sig items).
Proof.
  induction items as [|[k d i|c d i] r IH]; cbn [rl_stream]; try contradiction. intros Hs.
  cbn [p_nth_significant rl_sig]. rewrite rl_ignored_split. destruct (p_is_ignored_kind k) eqn:Hi.
  - assert (He : tkind_eqb k TkEof = false) by (destruct k; try discriminate; reflexivity).
    rewrite He in Hs. destruct Hs as [_ Hr]. cbn [orb]. exact (IH Hr).
  - cbn [orb]. eexists. split; [reflexivity|]. destruct (tkind_eqb k TkEof) eqn:He.
    + apply tkind_eqb_eq in He. destruct Hs as [-> ->]. cbn. auto.
    + cbn. destruct Hs as [Hok _]. repeat split; auto. intros ->. discriminate He.
Qed.

Lemma rl_peek_token_n2 s t : rl_inv s -> ps_cur s = Some t -> tok_kind t <> TkEof ->
  exists t2, p_peek_token_n 2 s = POk (Some t2, s) /\ rl_tok_view t2 (rl_sig (ps_items s)).
Proof.
  intros Hinv Hc Hne. destruct (rl_sigs_tok _ _ Hinv Hc Hne) as (_ & _ & Hstr).
  destruct (rl_nth_sig0 _ Hstr) as (t2 & H2 & Hv). exists t2. split; [|exact Hv].
  unfold p_peek_token_n, p_peek_n_inner. rewrite Hc. cbn [p_nth_significant].
  destruct Hinv as [(t' & Hc' & Hi) _]. rewrite Hc in Hc'. injection Hc' as <-. rewrite Hi, H2. reflexivity.
Qed.

(* ------------------------------------------------------------------ combinators with a length bound *)
Definition rl_len_mono (P : list rg_token -> Prop) : Prop :=
  forall ts r, (length r <= length ts)%nat -> P ts -> P r.
Lemma rl_len_lt_mono m : rl_len_mono (rl_len_lt m).
Proof. intros ts r H. unfold rl_len_lt. lia. Qed.

Lemma rl_sim_bind_mono {A B} (P : list rg_token -> Prop) (m1 : PM A) (m2 : A -> PM B) q1 q2 :
  rl_len_mono P -> rg_nolonger q1 ->
  rl_sim P m1 q1 -> (forall a, rl_sim P (m2 a) q2) -> rl_sim P (p_bind m1 m2) (rg_seq q1 q2).
Proof.
  intros HP Hnl H1 H2. eapply rl_sim_bind_pre; [exact H1|exact H2|]. intros ts r Hp Hq. eapply HP; [|exact Hp].
  exact (Hnl _ _ Hq).
Qed.

Definition rl_rejects (f : rg_token -> bool) (q : rg_p) : Prop :=
  forall ts r, rl_head_is f ts = false -> q ts = RgOk r -> False.
Lemma rl_requires_rejects f q : rl_requires f q -> rl_rejects f q.
Proof. intros H ts r Hh Hq. rewrite (H _ Hh) in Hq. discriminate. Qed.

Lemma rl_sim_peek_else_err_pre (P : list rg_token -> Prop) k (m : PM unit) q : k <> TkEof ->
  rl_sim (fun ts => P ts /\ rg_starts (rg_is k) ts) m q -> rl_rejects (rg_is k) q ->
  rl_sim P (b <- g_peek_is k ;; if b then m else p_err) q.
Proof.
  intros Hne [Hg Hm] Hreq. split.
  { apply rl_gen_bind; [apply rl_gen_peek_is|]. intros [|]; [exact Hg|apply rl_gen_err]. }
  intros s u s' E [Hinv Ha] Ht HP. destruct (rl_inv_cur _ Hinv) as (t & Hc & Hi & _).
  unfold p_bind in E. rewrite (peek_is_some k t s Hc) in E.
  rewrite (rl_peek_is_view _ _ _ Hinv Hc Hne) in E.
  destruct (rl_head_is (rg_is k) (rl_sigs s)) eqn:Hh.
  - apply (Hm s u s' E (conj Hinv Ha) Ht). split; [exact HP|]. apply rl_starts_head. exact Hh.
  - pose proof (rl_err_run _ _ _ (conj Hinv Ha) E) as Hd. split.
    + intros He. contradiction.
    + intros _ r Hq. exfalso. exact (Hreq _ _ Hh Hq).
Qed.

Lemma rgl_selset_rejects m : rl_rejects (rg_is TkLCurly) (rgl_selset_f LP m).
Proof.
  intros ts r Hh Hq. destruct m as [|m]; [discriminate|]. cbn [rgl_selset_f] in Hq.
  unfold rg_seq at 1, rg_bind, rg_sat in Hq. destruct ts as [|t ts]; [discriminate|]. cbn [rl_head_is] in Hh.
  rewrite Hh in Hq. discriminate.
Qed.

(* what the field / fragment productions assume about the selection-set parser they are given *)
Definition rl_ss_spec (ss : PM unit) (m : nat) : Prop :=
  rl_sim (fun ts => rl_len_lt m ts /\ rg_starts (rg_is TkLCurly) ts) ss (rgl_selset_f LP m).

(* ------------------------------------------------------------------ field *)
Definition rgl_field_rest (m : nat) : rg_p :=
  rg_seq (rg_opt (rg_is TkLParen) (rgl_arguments LP false))
    (rg_seq (rgl_directives LP false) (rg_opt (rg_is TkLCurly) (rgl_selset_f LP m))).

Definition g_field_rest (ss : PM unit) (f : nat) : PM unit :=
  g_if_peek TkLParen (g_arguments f GNotConst) ;; g_if_peek TkAt (g_directives f GNotConst) ;; g_if_peek TkLCurly ss.

Lemma rl_sim_field_rest ss m f : rl_ss_spec ss m -> rl_sim (rl_len_lt m) (g_field_rest ss f) (rgl_field_rest m).
Proof.
  intros Hss. unfold rgl_field_rest, g_field_rest.
  apply rl_sim_bind_mono; [apply rl_len_lt_mono| | |intros _].
  - apply rg_nolonger_opt, rg_progress_nolonger, rgl_arguments_progress.
  - apply rl_sim_any. apply rl_sim_if_peek; [discriminate|apply (rl_sim_arguments f GNotConst)].
  - apply rl_sim_bind_mono; [apply rl_len_lt_mono|apply rgl_directives_nolonger| |intros _].
    + apply rl_sim_any. apply (rl_sim_directives_opt f GNotConst).
    + apply rl_sim_if_peek_pre; [discriminate|exact Hss].
Qed.

Definition rl_aliased (ts : list rg_token) : Prop :=
  match ts with (TkName, _) :: (TkColon, _) :: _ => True | _ => False end.

Lemma rl_sim_alias : rl_sim rl_aliased g_alias (rg_seq rg_name (rg_sat (rg_is TkColon))).
Proof.
  unfold g_alias. apply rl_sim_node.
  eapply rl_sim_bind_pre with (Q := rg_starts (rg_is TkColon)); [apply rl_sim_any, rl_sim_name|intros _; apply rl_sim_bump|].
  intros [|[[] d] [|[[] d2] r']] r Hp Hq; try contradiction. cbn in Hq. injection Hq as <-. reflexivity.
Qed.

Lemma rl_gen_field_ ss f : rl_gen ss -> rl_gen (g_field_ ss f).
Proof. intros [H1 H2]. split; [apply (gg_field_ CT CT_ok ss H1)|apply (gg_field_ CX CX_ok ss H2)]. Qed.

Lemma rl_sim_field ss m f : rl_ss_spec ss m ->
  rl_sim (fun ts => rl_len_le m ts /\ rg_starts (rg_is TkName) ts) (g_field_ ss f) (rgl_selection_f LP (S m)).
Proof.
  intros Hss. split; [apply rl_gen_field_; apply Hss|]. intros s u s' E Hok Ht [Hlen Hst]. unfold g_field_ in E.
  eapply rl_node_post; [exact E|exact Hok|exact Ht|]. clear E. intros s1 s2 Hobs E [Hinv1 Ha1] Ht1.
  rewrite <- (rl_obs_sigs _ _ Hobs) in Hlen, Hst.
  destruct (rl_inv_cur _ Hinv1) as (t & Hc1 & Hi1 & _).
  pose proof (rl_sigs_head _ _ Hinv1 Hc1) as Hhead.
  assert (Hk : tok_kind t = TkName).
  { rewrite Hhead in Hst. destruct (tkind_eqb (tok_kind t) TkEof); [contradiction|]. cbn in Hst.
    destruct (tok_kind t); try discriminate; reflexivity. }
  rewrite Hk in Hhead. cbn [tkind_eqb] in Hhead.
  unfold p_bind at 1 in E. rewrite (peek_is_some TkName t s1 Hc1), Hk in E. cbn [tkind_eqb] in E.
  (* E : ((n2 <- p_peek_n 2 ;; p_when .. g_alias ;; g_name) ;; rest) s1 *)
  assert (Hne : tok_kind t <> TkEof) by congruence.
  destruct (rl_peek_token_n2 _ _ Hinv1 Hc1 Hne) as (t2 & Hp2 & Hv2).
  apply bind_ok in E as (? & s3 & EX & E).
  unfold p_bind at 1 in EX. unfold p_peek_n in EX. unfold p_bind at 1 in EX.
  change (p_peek_n_inner 2 s1) with (p_peek_token_n 2 s1) in EX. rewrite Hp2 in EX. cbn [p_ret option_map] in EX.
  pose proof (rl_sim_field_rest ss m f Hss) as Hrest.
  assert (Hlen' : (length (rl_sig (ps_items s1)) < m)%nat).
  { unfold rl_len_le in Hlen. rewrite Hhead in Hlen. cbn [length] in Hlen. lia. }
  destruct (rl_sig (ps_items s1)) as [|[k2 d2] r'] eqn:Er.
  - (* the field name is the last token *)
    cbn in Hv2. destruct Hv2 as [Hv2 _]. rewrite Hv2 in EX. cbn [p_when] in EX.
    assert (Hsim : rl_sim (fun ts => ts = [(TkName, tok_data t)]) ((p_ret tt ;; g_name) ;; g_field_rest ss f) (rg_seq rg_name (rgl_field_rest m))).
    { eapply rl_sim_bind_pre with (Q := rl_len_lt m).
      - apply rl_sim_any. eapply rl_sim_fext; [|apply rl_sim_name]. intros s0. reflexivity.
      - intros _. exact Hrest.
      - intros ts r -> Hq. cbn in Hq. injection Hq as <-. unfold rl_len_lt. cbn. lia. }
    apply (rl_post_ext (rg_seq rg_name (rgl_field_rest m))); [rewrite Hhead; reflexivity|].
    eapply (proj2 Hsim s1 _ s2); [|split; assumption|exact Ht1|exact Hhead].
    unfold p_bind at 1. rewrite EX. exact E.
  - destruct Hv2 as (Hk2 & Hd2 & _ & _). rewrite Hk2 in EX.
    destruct (tkind_eqb k2 TkColon) eqn:Hcolon.
    + apply tkind_eqb_eq in Hcolon. rewrite Hcolon in Hk2, Hhead, Er, Hlen', EX. cbn [p_when] in EX.
      assert (Hsim : rl_sim (fun ts => ts = (TkName, tok_data t) :: (TkColon, d2) :: r') ((g_alias ;; g_name) ;; g_field_rest ss f)
                       (rg_seq (rg_seq (rg_seq rg_name (rg_sat (rg_is TkColon))) rg_name) (rgl_field_rest m))).
      { eapply rl_sim_bind_pre with (Q := rl_len_lt m).
        - apply rl_sim_bind; [|intros _; apply rl_sim_name].
          eapply rl_sim_weaken; [|apply rl_sim_alias]. intros ts ->. exact I.
        - intros _. exact Hrest.
        - intros ts r -> Hq.
          assert (Hnl : rg_nolonger (rg_seq (rg_seq rg_name (rg_sat (rg_is TkColon))) rg_name)).
          { apply rg_nolonger_seq; [apply rg_nolonger_seq|]; apply rg_progress_nolonger, rg_progress_sat. }
          cbn in Hq. unfold rl_len_lt. cbn [length] in Hlen'. apply rg_progress_sat in Hq. lia. }
      apply (rl_post_ext (rg_seq (rg_seq (rg_seq rg_name (rg_sat (rg_is TkColon))) rg_name) (rgl_field_rest m)));
        [rewrite Hhead; reflexivity|].
      eapply (proj2 Hsim s1 _ s2); [|split; assumption|exact Ht1|exact Hhead].
      unfold p_bind at 1. rewrite EX. exact E.
    + assert (Hw : match k2 with TkColon => true | _ => false end = false) by (destruct k2; try reflexivity; discriminate).
      rewrite Hw in EX. cbn [p_when] in EX.
      assert (Hsim : rl_sim (fun ts => ts = (TkName, tok_data t) :: (k2, d2) :: r') ((p_ret tt ;; g_name) ;; g_field_rest ss f)
                       (rg_seq rg_name (rgl_field_rest m))).
      { eapply rl_sim_bind_pre with (Q := rl_len_lt m).
        - apply rl_sim_any. eapply rl_sim_fext; [|apply rl_sim_name]. intros s0. reflexivity.
        - intros _. exact Hrest.
        - intros ts r -> Hq. cbn in Hq. injection Hq as <-. exact Hlen'. }
      apply (rl_post_ext (rg_seq rg_name (rgl_field_rest m))).
      * rewrite Hhead. destruct k2; try discriminate Hcolon; reflexivity.
      * eapply (proj2 Hsim s1 _ s2); [|split; assumption|exact Ht1|exact Hhead].
        unfold p_bind at 1. rewrite EX. exact E.
Qed.

(* ------------------------------------------------------------------ fragment spread, inline fragment *)
Lemma rl_requires_fragname : rl_requires (rg_is TkName) (rg_sat rg_is_fragname).
Proof.
  intros [|t ts] H; cbn [rl_head_is] in H; [reflexivity|]. cbn [rg_sat]. unfold rg_is_fragname. rewrite H. reflexivity.
Qed.

Definition rgl_spread : rg_p :=
  rg_seq (rg_sat (rg_is TkSpread)) (rg_seq (rg_sat rg_is_fragname) (rgl_directives LP false)).

Lemma rl_sim_fragment_spread f : rl_sim (rg_starts (rg_is TkSpread)) (g_fragment_spread f) rgl_spread.
Proof.
  unfold g_fragment_spread, rgl_spread. apply rl_sim_node.
  apply rl_sim_bind; [apply rl_sim_bump|intros _].
  apply rl_sim_peek_else_err_then; [discriminate|apply rl_sim_any, rl_sim_fragment_name|apply rl_requires_fragname|].
  apply (rl_sim_directives_opt f GNotConst).
Qed.

Definition rgl_inline (m : nat) : rg_p :=
  rg_seq (rg_sat (rg_is TkSpread))
    (rg_seq (rg_opt (rg_is TkName) (rg_seq (rg_sat (rg_is_kw rg_s_on)) rg_name))
       (rg_seq (rgl_directives LP false) (rgl_selset_f LP m))).

Lemma rl_sim_inline_fragment ss m f : rl_ss_spec ss m ->
  rl_sim (fun ts => rl_len_le m ts /\ rg_starts (rg_is TkSpread) ts) (g_inline_fragment_ ss f) (rgl_inline m).
Proof.
  intros Hss. unfold g_inline_fragment_, rgl_inline. apply rl_sim_node.
  eapply rl_sim_bind_pre with (Q := rl_len_lt m).
  - eapply rl_sim_weaken; [|apply rl_sim_bump]. intros ts [_ H]. exact H.
  - intros _. apply rl_sim_bind_mono; [apply rl_len_lt_mono| | |intros _].
    + apply rg_nolonger_opt. apply rg_nolonger_seq; apply rg_progress_nolonger, rg_progress_sat.
    + apply rl_sim_any. apply rl_sim_if_peek; [discriminate|apply rl_sim_any, rl_sim_type_condition].
    + apply rl_sim_bind_mono; [apply rl_len_lt_mono|apply rgl_directives_nolonger| |intros _].
      * apply rl_sim_any. apply (rl_sim_directives_opt f GNotConst).
      * apply rl_sim_peek_else_err_pre; [discriminate|exact Hss|apply rgl_selset_rejects].
  - intros ts r [Hlen _] Hq. apply rg_progress_sat in Hq. unfold rl_len_le, rl_len_lt in *. lia.
Qed.

(* ------------------------------------------------------------------ selection: the loop *)
Definition g_sel_step (ss : PM unit) (f : nat) (has_selection : bool) (kind : tkind) : PM (bool * bool) :=
  match kind with
  | TkSpread =>
      p_next_token <- p_peek_token_n 2 ;;
      match p_next_token with
      | Some nt =>
          (if tkind_eqb (tok_kind nt) TkName && negb (p_str_eqb (tok_data nt) pkw_on) then g_fragment_spread f
           else if existsb (tkind_eqb (tok_kind nt)) [TkAt; TkName; TkLCurly] then g_inline_fragment_ ss f
           else p_err ;; p_bump SK_SPREAD) ;;
          p_ret (true, true)
      | None => p_err_and_pop ;; p_ret (has_selection, false)
      end
  | TkLCurly => p_ret (has_selection, false)
  | TkName => g_field_ ss f ;; p_ret (true, true)
  | _ => p_ret (has_selection, false)
  end.

Lemma g_selection_unfold ss f :
  g_selection_ ss f = (has <- p_peek_while_acc f (g_sel_step ss f) false ;; p_when (negb has) p_err).
Proof. reflexivity. Qed.

Lemma rl_gen_sel_loop ss f lf has : rl_gen ss -> rl_gen (p_peek_while_acc lf (g_sel_step ss f) has).
Proof.
  intros [H1 H2]. unfold g_sel_step. split; [pose proof CT_ok as H|pose proof CX_ok as H].
  - pose proof (gg_field_ CT H ss H1 f) as Hf. pose proof (gg_inline_fragment_ CT H ss H1 f) as Hi. gfull.
  - pose proof (gg_field_ CX H ss H2 f) as Hf. pose proof (gg_inline_fragment_ CX H ss H2 f) as Hi. gfull.
Qed.

(* one selection, as the loop body sees it: the step continues and sets the flag *)
Lemma rl_sel_step ss m f (Hss : rl_ss_spec ss m) has s has1 cont s1 t :
  rl_ok s -> tr_ok (ps_rec s) -> ps_cur s = Some t -> rl_len_le m (rl_sigs s) ->
  rl_head_is rg_sel_start (rl_sigs s) = true ->
  g_sel_step ss f has (tok_kind t) s = POk ((has1, cont), s1) ->
  has1 = true /\ cont = true /\
  rl_sound (rgl_selection_f LP (S m)) s s1 /\ rl_complete (rgl_selection_f LP (S m)) s s1.
Proof.
  intros Hok Ht Hc Hlen Hsel E. pose proof Hok as [Hinv Ha].
  pose proof (rl_sigs_head _ _ Hinv Hc) as Hhead.
  destruct (tkind_eqb (tok_kind t) TkEof) eqn:Heof; [rewrite Hhead in Hsel; discriminate|].
  assert (Hne : tok_kind t <> TkEof) by (intros H; apply tkind_eqb_eq in H; congruence).
  assert (Hmpos : m <> O).
  { intros ->. unfold rl_len_le in Hlen. rewrite Hhead in Hlen. cbn in Hlen. lia. }
  rewrite Hhead in Hsel. cbn [rl_head_is] in Hsel. unfold rg_sel_start, rg_is in Hsel. cbn [fst] in Hsel.
  destruct (tok_kind t) eqn:Hk; try discriminate Hsel; unfold g_sel_step in E.
  - (* ... *)
    destruct (rl_peek_token_n2 _ _ Hinv Hc ltac:(congruence)) as (t2 & Hp2 & Hv2).
    unfold p_bind at 1 in E. rewrite Hp2 in E.
    apply bind_ok in E as (? & s2 & E & Er). unfold p_ret in Er. injection Er as <- <- <-.
    split; [reflexivity|]. split; [reflexivity|].
    assert (Hst : rg_starts (rg_is TkSpread) (rl_sigs s)) by (rewrite Hhead; reflexivity).
    change (p_str_eqb (tok_data t2) pkw_on) with (rg_streq (tok_data t2) rg_s_on) in E.
    rewrite rg_streq_sym in E.
    destruct (rl_sig (ps_items s)) as [|[k2 d2] r2] eqn:Er.
    + (* `...` is the last token *)
      cbn in Hv2. destruct Hv2 as [Hv2 _]. rewrite Hv2 in E. cbn [tkind_eqb andb existsb orb] in E.
      apply bind_ok in E as (? & s3 & E3 & E).
      apply rl_post_dirty; [|rewrite Hhead; destruct m; [exfalso; exact (Hmpos eq_refl)|reflexivity]].
      eapply rl_dirty_then; [eapply rl_err_run; eauto| |].
      * exact (proj2 (post_returns _ _ _ _ (proj2 rl_gen_err) s I _ _ E3)).
      * exact (proj2 (post_returns _ _ _ _ (proj2 (rl_gen_bump SK_SPREAD)) s3 I _ _ E)).
    + destruct Hv2 as (Hk2 & Hd2 & _ & _). rewrite Hk2, Hd2 in E.
      destruct (tkind_eqb k2 TkName) eqn:Hname.
      * apply tkind_eqb_eq in Hname. subst k2. cbn [andb] in E.
        destruct (rg_streq rg_s_on d2) eqn:Hon; cbn [negb] in E.
        -- (* ... on T : inline fragment *)
           cbn [existsb tkind_eqb orb] in E.
           apply (rl_post_ext (rgl_inline m)).
           ++ rewrite Hhead. unfold rgl_inline. cbn [rgl_selection_f]. rewrite Hon.
              unfold rg_seq at 1, rg_bind at 1. cbn [rg_sat rg_is fst tkind_eqb].
              unfold rg_seq at 1, rg_bind at 1, rg_opt at 1. cbn [rg_is fst tkind_eqb].
              unfold rg_seq at 1, rg_bind at 1. unfold rg_sat at 1, rg_is_kw at 1. cbn [fst snd tkind_eqb andb]. rewrite Hon.
              reflexivity.
           ++ apply (proj2 (rl_sim_inline_fragment ss m f Hss) s _ s2 E Hok Ht). split; assumption.
        -- (* ... Name : fragment spread *)
           apply (rl_post_ext rgl_spread).
           ++ rewrite Hhead. unfold rgl_spread. cbn [rgl_selection_f]. rewrite Hon.
              unfold rg_seq at 1, rg_bind at 1. cbn [rg_sat rg_is fst tkind_eqb].
              unfold rg_seq at 1, rg_bind at 1. unfold rg_sat at 1, rg_is_fragname at 1, rg_is at 1. cbn [fst snd tkind_eqb andb].
              rewrite Hon. reflexivity.
           ++ exact (proj2 (rl_sim_fragment_spread f) s _ s2 E Hok Ht Hst).
      * cbn [andb] in E.
        destruct (existsb (tkind_eqb k2) [TkAt; TkName; TkLCurly]) eqn:Hin.
        -- (* ... @d / ... { : inline fragment without type condition *)
           apply (rl_post_ext (rgl_inline m)).
           ++ rewrite Hhead. unfold rgl_inline. cbn [rgl_selection_f].
              unfold rg_seq at 1, rg_bind at 1. cbn [rg_sat rg_is fst tkind_eqb].
              unfold rg_seq at 1, rg_bind at 1, rg_opt at 1. unfold rg_is at 1. cbn [fst].
              destruct k2; try discriminate Hname; try discriminate Hin; reflexivity.
           ++ apply (proj2 (rl_sim_inline_fragment ss m f Hss) s _ s2 E Hok Ht). split; assumption.
        -- apply bind_ok in E as (? & s3 & E3 & E).
           apply rl_post_dirty.
           ++ eapply rl_dirty_then; [eapply rl_err_run; eauto| |].
              ** exact (proj2 (post_returns _ _ _ _ (proj2 rl_gen_err) s I _ _ E3)).
              ** exact (proj2 (post_returns _ _ _ _ (proj2 (rl_gen_bump SK_SPREAD)) s3 I _ _ E)).
           ++ rewrite Hhead. destruct m; [exfalso; exact (Hmpos eq_refl)|].
              destruct k2; try discriminate Hname; try discriminate Hin; reflexivity.
  - (* field *)
    apply bind_ok in E as (? & s2 & E & Er). unfold p_ret in Er. injection Er as <- <- <-.
    split; [reflexivity|]. split; [reflexivity|].
    apply (proj2 (rl_sim_field ss m f Hss) s _ s2 E Hok Ht). split; [exact Hlen|]. rewrite Hhead. reflexivity.
Qed.

(* ---- progress of the relaxed selection grammar *)
Lemma rgl_sel_progress n : rg_progress (rgl_selset_f LP n) /\ rg_progress (rgl_selection_f LP n).
Proof.
  induction n as [|n [IH1 IH2]]; [split; intros ts r; discriminate|]. split.
  - cbn [rgl_selset_f]. intros ts r. revert ts r. apply rg_progress_seq_l; [apply rg_progress_sat|].
    apply rg_nolonger_seq; [|apply rg_progress_nolonger, rg_progress_sat].
    apply rg_nolonger_seq; [apply rg_progress_nolonger, IH2|]. apply rg_nolonger_many_f, rg_progress_nolonger, IH2.
  - intros ts r. cbn [rgl_selection_f].
    assert (Hds : rg_nolonger (rg_seq (rgl_directives LP false) (rgl_selset_f LP n))).
    { apply rg_nolonger_seq; [apply rgl_directives_nolonger|apply rg_progress_nolonger, IH1]. }
    destruct ts as [|[k d] r0]; [discriminate|]. destruct k; try discriminate.
    + destruct r0 as [|[k2 w] r2]; [intros H; apply Hds in H; cbn [length] in *; lia|].
      destruct k2; try (intros H; apply Hds in H; cbn [length] in *; lia).
      destruct (rg_streq rg_s_on w).
      * intros H. assert (Hn : rg_nolonger (rg_seq rg_name (rg_seq (rgl_directives LP false) (rgl_selset_f LP n)))).
        { apply rg_nolonger_seq; [apply rg_progress_nolonger, rg_progress_sat|exact Hds]. }
        apply Hn in H. cbn [length]. lia.
      * intros H. apply rgl_directives_nolonger in H. cbn [length]. lia.
    + intros H.
      assert (Hn : rg_nolonger (rg_seq (rg_opt (rg_is TkColon) (rg_seq (rg_sat (rg_is TkColon)) rg_name))
                    (rg_seq (rg_opt (rg_is TkLParen) (rgl_arguments LP false))
                       (rg_seq (rgl_directives LP false) (rg_opt (rg_is TkLCurly) (rgl_selset_f LP n)))))).
      { apply rg_nolonger_seq; [apply rg_nolonger_opt, rg_nolonger_seq; apply rg_progress_nolonger, rg_progress_sat|].
        apply rg_nolonger_seq; [apply rg_nolonger_opt, rg_progress_nolonger, rgl_arguments_progress|].
        apply rg_nolonger_seq; [apply rgl_directives_nolonger|apply rg_nolonger_opt, rg_progress_nolonger, IH1]. }
      apply Hn in H. cbn [length]. lia.
Qed.

Lemma rl_gen_sel_step ss f has k : rl_gen ss -> rl_gen (g_sel_step ss f has k).
Proof.
  intros [H1 H2]. unfold g_sel_step. split; [pose proof CT_ok as H|pose proof CX_ok as H].
  - pose proof (gg_field_ CT H ss H1 f) as Hf. pose proof (gg_inline_fragment_ CT H ss H1 f) as Hi. gfull.
  - pose proof (gg_field_ CX H ss H2 f) as Hf. pose proof (gg_inline_fragment_ CX H ss H2 f) as Hi. gfull.
Qed.

Lemma rl_sel_len_le m pre ts r : rl_len_le m ts -> ts = pre ++ r -> rl_len_le m r.
Proof. unfold rl_len_le. intros H ->. rewrite app_length in H. lia. Qed.

Lemma rl_sel_loop ss m f (Hss : rl_ss_spec ss m) : forall lf has s has' s',
  p_peek_while_acc lf (g_sel_step ss f) has s = POk (has', s') -> rl_ok s -> tr_ok (ps_rec s) ->
  rl_len_le m (rl_sigs s) -> forall n, (length (rl_sigs s) <= n)%nat ->
  (rl_sound (rg_many_f n rg_sel_start (rgl_selection_f LP (S m))) s s' /\
   rl_complete (rg_many_f n rg_sel_start (rgl_selection_f LP (S m))) s s') /\
  (ps_errors s' = ps_errors s -> has' = has || rl_head_is rg_sel_start (rl_sigs s)).
Proof.
  assert (Hgss : rl_gen ss) by apply Hss.
  induction lf as [|lf IH]; intros has s has' s' E Hok Ht Hlen n Hn; [discriminate|].
  pose proof Hok as [Hinv Ha]. destruct (rl_inv_cur _ Hinv) as (t & Hc & Hi & _).
  destruct (rl_peek_while_acc_unroll _ _ _ _ _ _ _ Hc E) as (has1 & cont & s1 & E1 & E2).
  destruct (rl_head_is rg_sel_start (rl_sigs s)) eqn:Hsel.
  - destruct (rl_sel_step ss m f Hss has s has1 cont s1 t Hok Ht Hc Hlen Hsel E1) as (-> & -> & Hs1 & Hc1).
    destruct (rl_gen_run _ _ _ _ (rl_gen_sel_step ss f has (tok_kind t) Hgss) E1 Ht) as (Ht1 & Hcur1 & Hlim1 & Hx1).
    destruct (rl_gen_run _ _ _ _ (rl_gen_sel_loop ss f lf true Hgss) E2 Ht1) as (Ht2 & Hcur2 & Hlim2 & Hx2).
    destruct (rl_sigs s) as [|t0 ts] eqn:Es; [discriminate|]. cbn [rl_head_is] in Hsel.
    unfold rl_sound, rl_complete in Hs1, Hc1 |- *. rewrite Es in Hs1, Hc1 |- *.
    assert (Hprog := proj2 (rgl_sel_progress (S m))).
    split; [split|].
    + intros He. destruct (rl_ext_split _ _ _ Hx1 Hx2 He) as [He1 He2].
      destruct (Hs1 He1) as (Hok1 & [pre1 Hpre1] & Hq1).
      pose proof (Hprog _ _ Hq1) as Hlt. destruct n as [|n]; [cbn [length] in Hn, Hlt; lia|].
      assert (Hn1 : (length (rl_sigs s1) <= n)%nat) by (cbn [length] in Hn, Hlt; lia).
      assert (Hlen1 : rl_len_le m (rl_sigs s1)) by (eapply rl_sel_len_le; [exact Hlen|exact Hpre1]).
      destruct (IH _ _ _ _ E2 Hok1 Ht1 Hlen1 n Hn1) as [[Hs2 _] _].
      destruct (Hs2 He2) as (Hok2 & [pre2 Hpre2] & Hq2).
      split; [exact Hok2|split].
      * exists (pre1 ++ pre2). rewrite Hpre1, Hpre2. apply app_assoc.
      * cbn [rg_many_f]. rewrite Hsel, Hq1. exact Hq2.
    + intros Hr r Hq. destruct n as [|n]; cbn [rg_many_f] in Hq; rewrite Hsel in Hq; [discriminate|].
      unfold rg_bind in Hq. destruct (rgl_selection_f LP (S m) (t0 :: ts)) as [r1| |] eqn:Eq1; try discriminate.
      destruct (Hc1 Hr r1 eq_refl) as [He1 Hr1'].
      destruct (Hs1 He1) as (Hok1 & [pre1 Hpre1] & Hq1).
      pose proof (Hprog _ _ Eq1) as Hlt.
      assert (Hn1 : (length (rl_sigs s1) <= n)%nat) by (rewrite Hr1'; cbn in Hn, Hlt; lia).
      assert (Hlen1 : rl_len_le m (rl_sigs s1)) by (eapply rl_sel_len_le; [exact Hlen|exact Hpre1]).
      destruct (IH _ _ _ _ E2 Hok1 Ht1 Hlen1 n Hn1) as [[_ Hcm2] _].
      assert (Hroom1 : rl_roomy s1) by (eapply rl_roomy_step; eauto; rewrite Es; exact Hpre1).
      rewrite <- Hr1' in Hq. destruct (Hcm2 Hroom1 r Hq) as [He2 Hr2]. split; [congruence|exact Hr2].
    + intros He. destruct (rl_ext_split _ _ _ Hx1 Hx2 He) as [He1 He2].
      destruct (Hs1 He1) as (Hok1 & [pre1 Hpre1] & Hq1).
      assert (Hlen1 : rl_len_le m (rl_sigs s1)) by (eapply rl_sel_len_le; [exact Hlen|exact Hpre1]).
      destruct (IH _ _ _ _ E2 Hok1 Ht1 Hlen1 (length (rl_sigs s1)) (le_n _)) as [_ Hhas]. rewrite (Hhas He2).
      rewrite orb_true_r. reflexivity.
  - (* not the start of a selection: the loop stops without touching anything *)
    assert (Hstop : g_sel_step ss f has (tok_kind t) = p_ret (has, false)).
    { pose proof (rl_sigs_head _ _ Hinv Hc) as Hhead. rewrite Hhead in Hsel.
      destruct (tkind_eqb (tok_kind t) TkEof) eqn:Heof.
      - apply tkind_eqb_eq in Heof. rewrite Heof. reflexivity.
      - cbn [rl_head_is] in Hsel. unfold rg_sel_start, rg_is in Hsel. cbn [fst] in Hsel.
        destruct (tok_kind t); try discriminate Hsel; reflexivity. }
    rewrite Hstop in E1. unfold p_ret in E1. injection E1 as <- <- <-. destruct E2 as [-> ->].
    pose proof (rg_many_f_stop n rg_sel_start (rgl_selection_f LP (S m)) _ (rl_head_nh _ _ Hsel)) as Hq.
    split; [split|].
    + intros _. split; [exact Hok|]. split; [exists []; reflexivity|exact Hq].
    + intros _ r Hr. rewrite Hq in Hr. injection Hr as <-. auto.
    + intros _. rewrite orb_false_r. reflexivity.
Qed.

(* selection(): Selection+ *)
Lemma rl_gen_selection_ ss f : rl_gen ss -> rl_gen (g_selection_ ss f).
Proof. intros [H1 H2]. split; [apply (gg_selection_ CT CT_ok ss H1)|apply (gg_selection_ CX CX_ok ss H2)]. Qed.

Lemma rl_sim_selection ss m f : rl_ss_spec ss m ->
  rl_sim (rl_len_le m) (g_selection_ ss f) (rgl_selections_f LP (S m)).
Proof.
  intros Hss. assert (Hgss : rl_gen ss) by apply Hss. split; [apply rl_gen_selection_; exact Hgss|].
  intros s u s' E Hok Ht Hlen. rewrite g_selection_unfold in E. apply bind_ok in E as (has & s1 & E1 & E).
  assert (Hn : (length (rl_sigs s) <= S (S m))%nat) by (unfold rl_len_le in Hlen; lia).
  destruct (rl_sel_loop ss m f Hss _ _ _ _ _ E1 Hok Ht Hlen _ Hn) as [[Hs1 Hc1] Hhas].
  destruct (rl_gen_run _ _ _ _ (rl_gen_sel_loop ss f f false Hgss) E1 Ht) as (Ht1 & Hcur1 & Hlim1 & Hx1).
  assert (Hx2 : rl_ext s1 s').
  { destruct (negb has); cbn [p_when] in E.
    - exact (proj2 (post_returns _ _ _ _ (proj2 rl_gen_err) s1 I _ _ E)).
    - unfold p_ret in E. injection E as _ <-. apply rl_ext_refl. }
  unfold rgl_selections_f.
  destruct (rl_head_is rg_sel_start (rl_sigs s)) eqn:Hsel.
  - (* Selection+ from here is X* with one more unit of fuel *)
    assert (Heq : rg_seq (rgl_selection_f LP (S m)) (rg_many_f (S m) rg_sel_start (rgl_selection_f LP (S m))) (rl_sigs s)
                  = rg_many_f (S (S m)) rg_sel_start (rgl_selection_f LP (S m)) (rl_sigs s)).
    { destruct (rl_sigs s) as [|t0 ts]; [discriminate|]. cbn [rl_head_is] in Hsel. cbn [rg_many_f]. rewrite Hsel. reflexivity. }
    unfold rl_sound, rl_complete. rewrite Heq. split.
    + intros He. destruct (rl_ext_split _ _ _ Hx1 Hx2 He) as [He1 He2].
      rewrite (Hhas He1) in E. cbn [orb negb p_when] in E. unfold p_ret in E. injection E as _ <-. exact (Hs1 He1).
    + intros Hr r Hq. destruct (Hc1 Hr r Hq) as [He1 Hr1].
      rewrite (Hhas He1) in E. cbn [orb negb p_when] in E. unfold p_ret in E. injection E as _ <-. auto.
  - (* no selection at all: reported *)
    assert (Hno : rg_seq (rgl_selection_f LP (S m)) (rg_many_f (S m) rg_sel_start (rgl_selection_f LP (S m))) (rl_sigs s) = RgNo).
    { unfold rg_seq. destruct (rl_sigs s) as [|[k d] ts]; [reflexivity|]. cbn [rl_head_is] in Hsel.
      unfold rg_sel_start, rg_is in Hsel. cbn [fst] in Hsel. destruct k; try discriminate Hsel; reflexivity. }
    apply rl_post_dirty; [|exact Hno]. intros He. destruct (rl_ext_split _ _ _ Hx1 Hx2 He) as [He1 He2].
    rewrite (Hhas He1) in E. cbn [orb negb p_when] in E.
    destruct (Hs1 He1) as (Hok1 & _ & _). exact (rl_err_run _ _ _ Hok1 E He2).
Qed.

(* ------------------------------------------------------------------ selection_set *)
Lemma rl_gen_selection_set f : rl_gen (g_selection_set f).
Proof. split; [apply (gg_selection_set CT CT_ok)|apply (gg_selection_set CX CX_ok)]. Qed.

Lemma rgl_selset_f_SS m d r :
  rgl_selset_f LP (S (S m)) ((TkLCurly, d) :: r) = rg_seq (rgl_selections_f LP (S m)) (rg_sat (rg_is TkRCurly)) r.
Proof. reflexivity. Qed.

Lemma rl_selection_set_body ss f : (forall m, rl_ss_spec ss m) ->
  forall M, rl_ss_spec (g_selection_set_body ss f) M.
Proof.
  intros Hss M. assert (Hgss : rl_gen ss) by apply (Hss O).
  split.
  { destruct Hgss as [H1 H2]. split; [apply (gg_selection_set_body CT CT_ok ss H1)|apply (gg_selection_set_body CX CX_ok ss H2)]. }
  intros s u s' E Hok Ht [Hlen Hst]. pose proof Hok as [Hinv Ha].
  destruct (rl_inv_cur _ Hinv) as (t & Hc & Hi & _).
  pose proof (rl_sigs_head _ _ Hinv Hc) as Hhead.
  assert (Hk : tok_kind t = TkLCurly).
  { rewrite Hhead in Hst. destruct (tkind_eqb (tok_kind t) TkEof); [contradiction|]. cbn in Hst.
    destruct (tok_kind t); try discriminate; reflexivity. }
  rewrite Hk in Hhead. cbn [tkind_eqb] in Hhead.
  (* the fuel is at least 2 *)
  destruct M as [|[|m]]; try (unfold rl_len_lt in Hlen; rewrite Hhead in Hlen; cbn [length] in Hlen; lia).
  unfold g_selection_set_body in E. unfold p_bind at 1 in E. rewrite (peek_is_some TkLCurly t s Hc), Hk in E.
  cbn [tkind_eqb p_when] in E.
  eapply rl_node_post; [exact E|exact Hok|exact Ht|]. clear E. intros s1 s9 Hobs E [Hinv1 Ha1] Ht1.
  assert (Hc1 : ps_cur s1 = Some t) by (destruct Hobs as (G & _); congruence).
  assert (Hne : tok_kind t <> TkEof) by congruence.
  apply bind_ok in E as (? & s2 & E2 & E).
  destruct (rl_bump_run _ _ _ _ _ Hinv1 Hc1 Hne E2) as (Hinv2 & Hsig2 & He2 & Ha2 & Hr2).
  rewrite Hk in Hsig2.
  assert (Hhead1 : rl_sigs s1 = (TkLCurly, tok_data t) :: rl_sig (ps_items s)) by (rewrite (rl_obs_sigs _ _ Hobs); exact Hhead).
  assert (Hok2 : rl_ok s2) by (split; [exact Hinv2|congruence]).
  assert (Ht2 : tr_ok (ps_rec s2)) by congruence.
  assert (Hlen2 : rl_len_le m (rl_sigs s2)).
  { unfold rl_len_lt in Hlen. rewrite <- (rl_obs_sigs _ _ Hobs), Hsig2 in Hlen. cbn [length] in Hlen. unfold rl_len_le. lia. }
  unfold rl_sound, rl_complete. rewrite Hsig2, rgl_selset_f_SS.
  destruct (rl_rec_guard_split _ _ _ _ _ _ E Ht2) as
    [(s4 & Hsbr & Ht4 & Hlt & E4)|(s4 & a & s5 & u5 & s6 & Hsbr & Ht4 & Hcur4 & Hlim4 & E5 & E6 & E7)].
  - pose proof (rl_limit_err_run _ _ _ (rl_sbr_ok _ _ Hsbr Hok2) E4) as Hd. destruct Hsbr as (_ & _ & He4 & _). split.
    + intros He. exfalso. apply Hd. congruence.
    + intros Hr r _. exfalso. unfold rl_roomy in Hr. rewrite Hsig2 in Hr. cbn [rl_weight] in Hr. rewrite Hr2 in Hlt. lia.
  - pose proof (rl_sbr_ok _ _ Hsbr Hok2) as Hok4. pose proof (rl_sbr_sigs _ _ Hsbr) as Hsig4.
    assert (Hlen4 : rl_len_le m (rl_sigs s4)) by (rewrite Hsig4; exact Hlen2).
    destruct (proj2 (rl_sim_selection ss m f (Hss m)) s4 a s5 E5 Hok4 Ht4 Hlen4) as [Hs5 Hc5].
    destruct (rl_gen_run _ _ _ _ (rl_gen_selection_ ss f Hgss) E5 Ht4) as (Ht5 & Hcur5 & Hlim5 & Hx5).
    destruct (rl_rec_decrement_run _ _ _ E6) as (Hsbr6 & Hcur6 & Hlim6).
    pose proof (rl_sbr_sigs _ _ Hsbr6) as Hsig6.
    pose proof Hsbr as (_ & _ & He4 & _). pose proof Hsbr6 as (_ & _ & He6 & _).
    assert (Ht6 : tr_ok (ps_rec s6)).
    { unfold tr_ok in *. destruct Ht5 as (A & B & C). unfold p_rec_decrement in E6.
      destruct (ptracker_decrement (ps_rec s5)) eqn:Ed; try discriminate. injection E6 as _ <-. cbn.
      destruct (decrement_spec _ _ Ed) as (D1 & D2 & D3). lia. }
    destruct (rl_gen_run _ _ _ _ (rl_gen_expect TkRCurly SK_R_CURLY) E7 Ht6) as (Ht7 & _ & _ & Hx7).
    unfold rl_sound, rl_complete in Hs5, Hc5. rewrite Hsig4 in Hs5, Hc5. rewrite He4 in Hs5, Hc5.
    assert (Hx56 : rl_ext s5 s6) by (apply rl_ext_same; exact He6).
    split.
    + intros He. assert (He' : ps_errors s9 = ps_errors s2) by congruence.
      assert (Hx26 : rl_ext s2 s6).
      { eapply rl_ext_trans; [|exact Hx56]. destruct Hx5 as [n5 Hn5]. exists n5. congruence. }
      destruct (rl_ext_split _ _ _ Hx26 Hx7 He') as [He26 He7].
      assert (He5 : ps_errors s5 = ps_errors s2) by congruence.
      destruct (Hs5 He5) as (Hok5 & [pre5 Hpre5] & Hq5).
      pose proof (rl_sbr_ok _ _ Hsbr6 Hok5) as Hok6.
      destruct (proj2 (rl_sim_expect TkRCurly SK_R_CURLY ltac:(discriminate)) s6 _ s9 E7 Hok6 Ht6 I) as [Hs7 _].
      destruct (Hs7 He7) as (Hok9 & [pre7 Hpre7] & Hq7). rewrite Hsig6 in Hpre7, Hq7.
      split; [exact Hok9|]. split.
      * eexists (_ :: pre5 ++ pre7). cbn [app]. f_equal. rewrite Hpre5, Hpre7. apply app_assoc.
      * unfold rg_seq at 1. rewrite Hq5. cbn [rg_bind]. exact Hq7.
    + intros Hr r Hq. unfold rg_seq at 1 in Hq.
      destruct (rgl_selections_f LP (S m) (rl_sigs s2)) as [r1| |] eqn:Eq1; try discriminate. cbn [rg_bind] in Hq.
      assert (Hr4 : rl_roomy s4).
      { unfold rl_roomy in *. rewrite Hsig2 in Hr. cbn [rl_weight] in Hr. rewrite Hsig4, Hcur4, Hlim4, Hr2. lia. }
      destruct (Hc5 Hr4 r1 eq_refl) as [He5 Hr5]. destruct (Hs5 He5) as (Hok5 & [pre5 Hpre5] & _).
      pose proof (rl_sbr_ok _ _ Hsbr6 Hok5) as Hok6.
      destruct (proj2 (rl_sim_expect TkRCurly SK_R_CURLY ltac:(discriminate)) s6 _ s9 E7 Hok6 Ht6 I) as [_ Hc7].
      assert (Hr6 : rl_roomy s6).
      { unfold rl_roomy in *. rewrite Hsig6. rewrite Hsig2 in Hr. cbn [rl_weight] in Hr.
        rewrite Hpre5, rl_weight_app in Hr. rewrite Hr2 in *. lia. }
      rewrite <- Hr5, <- Hsig6 in Hq. destruct (Hc7 Hr6 r Hq) as [He7 Hr7]. split; [congruence|exact Hr7].
Qed.

Theorem rl_selection_set_all : forall f M, rl_ss_spec (g_selection_set f) M.
Proof.
  induction f as [|f IH]; intros M.
  - split; [apply rl_gen_selection_set|]. intros s u s' E. discriminate.
  - cbn [g_selection_set]. apply rl_selection_set_body. exact IH.
Qed.

(* a selection set where the parser has just seen `{` *)
Theorem rl_sim_selection_set f : rl_sim (rg_starts (rg_is TkLCurly)) (g_selection_set f) (rgl_selset LP).
Proof.
  split; [apply rl_gen_selection_set|]. intros s u s' E Hok Ht Hst. unfold rgl_selset.
  apply (proj2 (rl_selection_set_all f (S (length (rl_sigs s)))) s u s' E Hok Ht). split; [unfold rl_len_lt; lia|exact Hst].
Qed.
