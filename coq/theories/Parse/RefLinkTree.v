(* C05 link — what the parser does to the tree builder: every piece of grammar code leaves the stack of open nodes
   as it found it and only ADDS finished elements to the current node (generic instance CB); a `p_node k body`
   adds exactly one node of kind k, after the pending trivia.  Proofs only. *)
From Coq Require Import PeanoNat.
From ApolloVerif Require Import Base.Chars Lex.Item Lex.Fun Parse.Outcome Parse.Builder Parse.Limits Parse.Monad
  Parse.Keywords Parse.Grammar Parse.Generic Parse.Atoms Parse.Entry Parse.LosslessDefs Parse.Lossless Parse.NoPanic.

Definition rl_bext (s s' : pstate) : Prop :=
  pb_parents (ps_builder s') = pb_parents (ps_builder s) /\
  exists new, pb_children (ps_builder s') = new ++ pb_children (ps_builder s).

Definition CB : pcfg :=
  {| cInv := fun _ => True; cWeak := fun _ => True; cRel := rl_bext; cPanicOk := True; cFuelOk := True |}.

Lemma rl_bext_refl s : rl_bext s s.
Proof. split; [reflexivity|exists []; reflexivity]. Qed.
Lemma rl_bext_trans a b c : rl_bext a b -> rl_bext b c -> rl_bext a c.
Proof.
  intros [H1 [n1 E1]] [H2 [n2 E2]]. split; [congruence|]. exists (n2 ++ n1). rewrite E2, E1. apply app_assoc.
Qed.
Lemma CB_rel : prel_ok CB.
Proof. constructor; cbn; auto using rl_bext_refl. intros a b c. apply rl_bext_trans. Qed.

Lemma rl_bext_same s s' : ps_builder s' = ps_builder s -> rl_bext s s'.
Proof. intros H. unfold rl_bext. rewrite H. split; [reflexivity|exists []; reflexivity]. Qed.

Lemma CB_frame {A} (m : PM A) :
  (forall s a s', m s = POk (a, s') -> ps_builder s' = ps_builder s) -> spec CB m.
Proof.
  intros Hm. apply post_partial; [exact I|exact I|]. cbn. intros s _ a s' E. split; [exact I|].
  apply rl_bext_same. eapply Hm; eauto.
Qed.
Lemma CB_step {A} (m : PM A) : (forall s a s', m s = POk (a, s') -> rl_bext s s') -> spec CB m.
Proof. intros Hm. apply post_partial; [exact I|exact I|]. cbn. intros s _ a s' E. split; [exact I|eauto]. Qed.
Lemma CB_run {A} (m : PM A) s a s' : spec CB m -> m s = POk (a, s') -> rl_bext s s'.
Proof. intros Hm E. exact (proj2 (post_returns _ _ _ _ Hm s I _ _ E)). Qed.

(* ---- the lexer side never touches the builder *)
Lemma rl_lexer_error_effect_builder c d i s : ps_builder (p_lexer_error_effect c d i s) = ps_builder s.
Proof. unfold p_lexer_error_effect. destruct d; cbn; destruct (ps_accept s), c; reflexivity. Qed.
Lemma rl_next_token_loop_builder items : forall s o s', p_next_token_loop items s = (o, s') -> ps_builder s' = ps_builder s.
Proof.
  induction items as [|[k d i|c d i] r IH]; intros s o s'; cbn [p_next_token_loop].
  - intros [= <- <-]. reflexivity.
  - intros [= <- <-]. reflexivity.
  - intros E. rewrite (IH _ _ _ E), rl_lexer_error_effect_builder. reflexivity.
Qed.
Lemma rl_skip_loop_builder items : forall s, ps_builder (p_skip_loop items s) = ps_builder s.
Proof.
  induction items as [|[k d i|c d i] r IH]; intros s; cbn [p_skip_loop]; [reflexivity| |].
  - destruct (p_is_ignored_kind k); [rewrite IH|]; reflexivity.
  - rewrite IH, rl_lexer_error_effect_builder. reflexivity.
Qed.

Lemma CB_peek_token : spec CB p_peek_token.
Proof.
  apply CB_frame. intros s a s'. unfold p_peek_token. destruct (ps_cur s).
  - intros [= <- <-]. reflexivity.
  - destruct (p_next_token_loop _ _) as [o s1] eqn:E. intros [= <- <-]. cbn. eapply rl_next_token_loop_builder; eauto.
Qed.
Lemma CB_pop : spec CB p_pop.
Proof.
  apply CB_frame. intros s a s'. unfold p_pop. destruct (ps_cur s).
  - intros [= <- <-]. reflexivity.
  - destruct (p_next_token_loop _ _) as [[t|] s1] eqn:E; [|discriminate]. intros [= <- <-].
    eapply rl_next_token_loop_builder; eauto.
Qed.
Lemma rl_skip_ignored_builder s u s' : p_skip_ignored s = POk (u, s') -> ps_builder s' = ps_builder s.
Proof.
  unfold p_skip_ignored. cbv zeta. destruct (ps_cur s) as [t|].
  - destruct (p_is_ignored_kind _); intros [= <- <-]; [rewrite rl_skip_loop_builder|]; reflexivity.
  - intros [= <- <-]. apply rl_skip_loop_builder.
Qed.
Lemma CB_skip_ignored : spec CB p_skip_ignored.
Proof. apply CB_frame. intros s a s'. apply rl_skip_ignored_builder. Qed.

(* ---- pushing tokens *)
Definition rl_is_leaf (t : ptree) : Prop := match t with PLeaf _ _ => True | PNode _ _ => False end.

Lemma rl_push_pending_list l : forall b b', p_push_pending_list l b = POk b' ->
  pb_parents b' = pb_parents b /\ exists new, pb_children b' = new ++ pb_children b /\ Forall rl_is_leaf new.
Proof.
  induction l as [|p l IH]; intros b b'; cbn [p_push_pending_list].
  - intros [= <-]. split; [reflexivity|]. exists []. split; [reflexivity|constructor].
  - assert (Hstep : forall k d, p_push_pending_list l (pb_token k d b) = POk b' ->
              pb_parents b' = pb_parents b /\
              exists new, pb_children b' = new ++ pb_children b /\ Forall rl_is_leaf new).
    { intros k d E. destruct (IH _ _ E) as (H1 & new & H2 & H3). cbn in H1, H2. split; [exact H1|].
      exists (new ++ [PLeaf k d]). rewrite <- app_assoc. split; [exact H2|]. apply Forall_app. split; [exact H3|].
      repeat constructor. }
    destruct p as [t|d]; [|apply Hstep]. destruct (tok_kind t); try discriminate; apply Hstep.
Qed.

Lemma rl_push_ignored_run s u s' : p_push_ignored s = POk (u, s') ->
  pb_parents (ps_builder s') = pb_parents (ps_builder s) /\
  (exists new, pb_children (ps_builder s') = new ++ pb_children (ps_builder s) /\ Forall rl_is_leaf new) /\
  ps_cur s' = ps_cur s /\ ps_items s' = ps_items s.
Proof.
  unfold p_push_ignored. destruct (p_push_pending_list _ _) as [b| |] eqn:E; try discriminate. intros [= <- <-].
  destruct (rl_push_pending_list _ _ _ E) as (H1 & H2). cbn. auto.
Qed.
Lemma CB_push_ignored : spec CB p_push_ignored.
Proof.
  apply CB_step. intros s a s' E. destruct (rl_push_ignored_run _ _ _ E) as (H1 & (new & H2 & _) & _). split; eauto.
Qed.
Lemma CB_push_token k t : spec CB (p_push_token k t).
Proof.
  apply CB_step. intros s a s'. unfold p_push_token, p_modify. intros [= <- <-]. split; [reflexivity|].
  exists [PLeaf k (tok_data t)]. reflexivity.
Qed.
Lemma CB_push_err e : spec CB (p_push_err e).
Proof. apply CB_frame. intros s a s'. unfold p_push_err, p_modify. intros [= <- <-]. destruct (ps_accept s); reflexivity. Qed.
Lemma CB_modify_accept : spec CB (p_modify (ps_set_accept false)).
Proof. apply CB_frame. intros s a s'. unfold p_modify. intros [= <- <-]. reflexivity. Qed.

Ltac cb_bind := eapply post_bind; [apply CB_rel| |intros].
Ltac cb_ret := apply post_ret_same; apply CB_rel.

Lemma CB_current : spec CB p_current.
Proof. apply CB_peek_token. Qed.
Lemma CB_peek : spec CB p_peek.
Proof. unfold p_peek. cb_bind; [apply CB_peek_token|cb_ret]. Qed.
Lemma CB_eat k : spec CB (p_eat k).
Proof.
  unfold p_eat. cb_bind; [apply CB_push_ignored|]. cb_bind; [apply CB_current|].
  destruct a0; [|cb_ret]. cb_bind; [apply CB_pop|apply CB_push_token].
Qed.
Lemma CB_bump k : spec CB (p_bump k).
Proof. unfold p_bump. cb_bind; [apply CB_eat|apply CB_skip_ignored]. Qed.
Lemma CB_err : spec CB p_err.
Proof. unfold p_err. cb_bind; [apply CB_current|]. destruct a; [apply CB_push_err|cb_ret]. Qed.
Lemma CB_err_at_token t : spec CB (p_err_at_token t).
Proof. apply CB_push_err. Qed.
Lemma CB_limit_err : spec CB p_limit_err.
Proof.
  unfold p_limit_err. cb_bind; [apply CB_current|]. destruct a; [|cb_ret].
  cb_bind; [apply CB_push_err|apply CB_modify_accept].
Qed.
Lemma CB_err_and_pop : spec CB p_err_and_pop.
Proof.
  unfold p_err_and_pop. cb_bind; [apply CB_push_ignored|]. cb_bind; [apply CB_current|]. destruct a0; [|cb_ret].
  cb_bind; [apply CB_pop|]. cb_bind; [apply CB_push_token|]. cb_bind; [apply CB_push_err|apply CB_skip_ignored].
Qed.
Lemma CB_at k : spec CB (p_at k).
Proof. unfold p_at. cb_bind; [apply CB_peek|cb_ret]. Qed.
Lemma CB_expect t k : spec CB (p_expect t k).
Proof.
  unfold p_expect. cb_bind; [apply CB_current|]. destruct a; [|cb_ret]. cb_bind; [apply CB_at|].
  destruct a; [apply CB_bump|apply CB_push_err].
Qed.

(* ---- nodes *)
Lemma rl_firstn_app_exact {A} (a b : list A) : firstn (length a) (a ++ b) = a.
Proof. rewrite firstn_app, Nat.sub_diag, firstn_all. cbn. apply app_nil_r. Qed.
Lemma rl_skipn_app_exact {A} (a b : list A) : skipn (length a) (a ++ b) = b.
Proof. rewrite skipn_app, Nat.sub_diag, skipn_all. reflexivity. Qed.

(* a node: the pending trivia go to the enclosing node, then exactly one node of kind k *)
Lemma rl_node_run {A} k (body : PM A) s a s' : spec CB body -> p_node k body s = POk (a, s') ->
  pb_parents (ps_builder s') = pb_parents (ps_builder s) /\
  exists cs lv, pb_children (ps_builder s') = PNode k cs :: lv ++ pb_children (ps_builder s) /\ Forall rl_is_leaf lv.
Proof.
  intros Hb E. unfold p_node in E. apply bind_ok in E as (? & s3 & Es & E).
  unfold p_start_node in Es. apply bind_ok in Es as (? & s1 & E1 & Es).
  destruct (rl_push_ignored_run _ _ _ E1) as (Hp1 & (lv & Hc1 & Hlv) & _).
  apply bind_ok in Es as (? & s2 & E2 & Es). unfold p_modify in E2. injection E2 as _ <-.
  apply rl_skip_ignored_builder in Es. cbn [ps_builder ps_set_builder] in Es.
  apply bind_ok in E as (r & s4 & Eb & E). destruct (CB_run _ _ _ _ Hb Eb) as [Hp4 [nb Hc4]].
  apply bind_ok in E as (? & s5 & Ef & Er). unfold p_ret in Er. injection Er as _ <-.
  unfold p_finish_node, p_lift_b in Ef. destruct (pb_finish_node (ps_builder s4)) as [b5| |] eqn:Efn; try discriminate.
  injection Ef as _ <-. cbn [ps_builder ps_set_builder].
  unfold pb_finish_node in Efn. rewrite Hp4, Hc4, Es in Efn. cbn [pb_start_node pb_parents pb_children] in Efn.
  destruct (Nat.ltb _ _) eqn:Hlt; [discriminate|]. injection Efn as <-. cbn [pb_parents pb_children].
  split; [exact Hp1|].
  rewrite app_length, Nat.add_sub, rl_firstn_app_exact, rl_skipn_app_exact.
  exists (rev nb), lv. rewrite Hc1. split; [reflexivity|exact Hlv].
Qed.

Lemma CB_node A k (body : PM A) : spec CB body -> specR CB (p_node k body).
Proof.
  intros Hb. apply CB_step. intros s a s' E. destruct (rl_node_run _ _ _ _ _ Hb E) as (Hp & cs & lv & Hc & _).
  split; [exact Hp|]. exists (PNode k cs :: lv). exact Hc.
Qed.

(* ---- recursion guard, assertions *)
Lemma CB_rec_check : spec CB p_rec_check_and_increment.
Proof.
  apply CB_frame. intros s a s'. unfold p_rec_check_and_increment.
  destruct (ptracker_check_and_increment _) as [[b t]| |]; try discriminate. intros [= <- <-]. reflexivity.
Qed.
Lemma CB_rec_decrement : spec CB p_rec_decrement.
Proof.
  apply CB_frame. intros s a s'. unfold p_rec_decrement. destruct (ptracker_decrement _); try discriminate.
  intros [= <- <-]. reflexivity.
Qed.
Lemma CB_rec_guard A B (l : PM B) (body : PM A) (k : A -> PM B) :
  spec CB l -> spec CB body -> (forall x, spec CB (k x)) -> spec CB (p_rec_guard l body k).
Proof.
  intros Hl Hb Hk. unfold p_rec_guard. cb_bind; [apply CB_rec_check|]. destruct a; [exact Hl|].
  cb_bind; [exact Hb|]. cb_bind; [apply CB_rec_decrement|apply Hk].
Qed.
Lemma CB_debug_assert b : spec CB (p_debug_assert_advanced b).
Proof.
  apply CB_frame. intros s a s'. unfold p_debug_assert_advanced. destruct (_ && _); try discriminate.
  intros [= <- <-]. reflexivity.
Qed.
Lemma CB_assert : spec CB g_assert_recursion_balanced.
Proof.
  apply CB_frame. intros s a s'. unfold g_assert_recursion_balanced. destruct (_ =? _); try discriminate.
  intros [= <- <-]. reflexivity.
Qed.

(* ---- name *)
Lemma CB_validate_name n : spec CB (g_validate_name n).
Proof.
  unfold g_validate_name. cb_bind.
  - destruct (negb _); cbn [p_when]; [apply CB_err_and_pop|cb_ret].
  - destruct (2 <=? blen n); [|cb_ret]. destruct n as [|c r]; [cb_ret|].
    destruct (u8len c =? 1); [|apply CB_frame; intros s0 a0 s0'; discriminate].
    destruct (negb _); cbn [p_when]; [apply CB_err_and_pop|cb_ret].
Qed.
Lemma CB_name : spec CB g_name.
Proof.
  unfold g_name. cb_bind; [apply CB_peek_token|]. destruct a as [token|]; [|apply CB_err].
  destruct (tkind_eqb _ _); [|apply CB_err]. apply CB_node. cb_bind; [apply CB_validate_name|apply CB_bump].
Qed.

(* ---- ty::parse: the checkpoint, and the NON_NULL_TYPE wrapper around what was built since *)
Lemma CB_parse_body rec : spec CB rec -> spec CB (g_parse_body rec).
Proof.
  intros Hrec. apply CB_step. intros s res s' E. unfold g_parse_body in E.
  apply bind_ok in E as (cp & s1 & Ecp & E).
  (* the checkpoint: trivia are flushed, cp = number of elements of the current node *)
  unfold p_checkpoint_node in Ecp. apply bind_ok in Ecp as (? & s0 & E0 & Ecp).
  destruct (rl_push_ignored_run _ _ _ E0) as (Hp0 & (lv0 & Hc0 & _) & _).
  unfold p_bind, p_get, p_ret in Ecp. injection Ecp as <- <-. unfold pb_checkpoint in *.
  apply bind_ok in E as (o & s1 & Ep & E). pose proof (CB_run _ _ _ _ CB_peek Ep) as [Hp1 [n1 Hc1]].
  apply bind_ok in E as (early & s2 & Ee & E).
  assert (Hearly : rl_bext s1 s2).
  { destruct o as [k|].
    - destruct k;
        try (apply bind_ok in Ee as (t & s3 & E3 & Ee); apply bind_ok in Ee as (? & s4 & E4 & Ee);
             unfold p_ret in Ee; injection Ee as _ <-;
             apply (rl_bext_trans _ _ _ (CB_run _ _ _ _ CB_pop E3)); apply rl_bext_same;
             unfold p_ghost_dropped, p_modify in E4; injection E4 as _ <-; reflexivity).
      + (* [ *)
        revert Ee. apply CB_run. apply CB_node. cb_bind; [apply CB_bump|].
        apply CB_rec_guard; [cb_bind; [apply CB_limit_err|cb_ret]|exact Hrec|intros result].
        cb_bind; [destruct result as [|[tok|]]; [cb_ret|apply CB_err_at_token|cb_ret]|].
        cb_bind; [apply CB_expect|cb_ret].
      + (* Name *)
        revert Ee. apply CB_run. cb_bind; [|cb_ret]. apply CB_node. apply CB_node.
        cb_bind; [apply CB_pop|]. cb_bind; [apply CB_validate_name|apply CB_push_token].
    - unfold p_ret in Ee. injection Ee as _ <-. apply rl_bext_refl. }
  destruct early as [r|].
  { unfold p_ret in E. injection E as _ <-.
    eapply rl_bext_trans; [apply (CB_run _ _ _ _ CB_push_ignored E0)|].
    eapply rl_bext_trans; [split; [exact Hp1|exists n1; exact Hc1]|exact Hearly]. }
  (* the tail *)
  apply bind_ok in E as (? & s3 & E3 & E). apply rl_skip_ignored_builder in E3.
  apply bind_ok in E as (b & s4 & E4 & E).
  assert (Hb4 : ps_builder s4 = ps_builder s3).
  { unfold g_peek_is in E4. apply bind_ok in E4 as (o4 & s5 & E5 & E4). unfold p_ret in E4. injection E4 as _ <-.
    destruct (CB_run _ _ _ _ CB_peek E5) as [_ _].
    unfold p_peek in E5. apply bind_ok in E5 as (o5 & s6 & E6 & E5). unfold p_ret in E5. injection E5 as _ <-.
    unfold p_peek_token in E6. destruct (ps_cur s3).
    - injection E6 as _ <-. reflexivity.
    - destruct (p_next_token_loop _ _) as [o7 s7] eqn:E7. injection E6 as _ <-. cbn.
      eapply rl_next_token_loop_builder; eauto. }
  apply bind_ok in E as (? & s5 & E5 & E). apply bind_ok in E as (? & s6 & E6 & E). unfold p_ret in E.
  injection E as _ <-. apply rl_skip_ignored_builder in E6.
  destruct Hearly as [Hp2 [n2 Hc2]].
  (* the state before the optional wrapper: everything built since the checkpoint sits on top of it *)
  assert (Hbase : pb_parents (ps_builder s4) = pb_parents (ps_builder s) /\
                  pb_children (ps_builder s4) = (n2 ++ n1) ++ (lv0 ++ pb_children (ps_builder s))).
  { rewrite Hb4, E3. split; [congruence|]. rewrite Hc2. rewrite Hc1. rewrite Hc0. rewrite app_assoc. reflexivity. }
  destruct Hbase as [Hpb Hcb].
  unfold rl_bext. rewrite E6. destruct b; cbn [p_when] in E5.
  - apply bind_ok in E5 as (? & s7 & E7 & E5). apply bind_ok in E5 as (? & s8 & E8 & E9).
    unfold p_wrap_node, p_lift_b in E7. destruct (pb_start_node_at _ _ _) as [b7| |] eqn:Ew; try discriminate.
    injection E7 as _ <-.
    assert (Hb7 : pb_parents b7 = (SK_NON_NULL_TYPE, length (lv0 ++ pb_children (ps_builder s))) :: pb_parents (ps_builder s4) /\
                  pb_children b7 = pb_children (ps_builder s4)).
    { unfold pb_start_node_at in Ew. rewrite Hc0 in Ew. destruct (Nat.ltb _ _); [discriminate|].
      destruct (pb_parents (ps_builder s4)) as [|[k' fc] ps'].
      - injection Ew as <-. cbn. auto.
      - destruct (Nat.ltb _ _); [discriminate|]. injection Ew as <-. cbn. auto. }
    destruct Hb7 as [Hp7 Hc7].
    destruct (CB_run _ _ _ _ (CB_eat SK_BANG) E8) as [Hp8 [n8 Hc8]]. cbn [ps_builder ps_set_builder] in Hp8, Hc8.
    unfold p_finish_node, p_lift_b in E9. destruct (pb_finish_node (ps_builder s8)) as [b9| |] eqn:Efn; try discriminate.
    injection E9 as _ <-. cbn [ps_builder ps_set_builder].
    unfold pb_finish_node in Efn. rewrite Hp8, Hp7, Hc8, Hc7, Hcb in Efn.
    destruct (Nat.ltb _ _) eqn:Hlt; [discriminate|]. injection Efn as <-. cbn [pb_parents pb_children].
    split; [exact Hpb|].
    rewrite app_assoc, app_length, Nat.add_sub, rl_firstn_app_exact, rl_skipn_app_exact.
    eexists (_ :: lv0). reflexivity.
  - unfold p_ret in E5. injection E5 as _ <-. split; [exact Hpb|]. rewrite Hcb. rewrite app_assoc. eauto.
Qed.

Theorem CB_ok : pcfg_ok CB.
Proof.
  constructor.
  - exact CB_rel.
  - exact I.
  - exact CB_peek_token.
  - exact CB_skip_ignored.
  - exact CB_push_ignored.
  - exact CB_bump.
  - exact CB_err.
  - exact CB_err_at_token.
  - exact CB_err_at_token.
  - exact CB_limit_err.
  - exact CB_err_and_pop.
  - exact CB_expect.
  - exact CB_node.
  - exact CB_rec_guard.
  - exact CB_rec_guard.
  - exact CB_debug_assert.
  - exact CB_name.
  - exact CB_parse_body.
Qed.
