(* A small program logic for the parser monad, and ONE generic traversal of the whole grammar:
   for any configuration (invariants + relation) whose primitives are proved correct (record pcfg_ok),
   every grammar production and the document production preserve the invariant and the relation.
   Each property (lossless text, limit-tracker discipline, error silence after a limit, absence of
   panics) is then an instance: it only has to prove the primitives (Parse/Inst*.v).

   post C P Q m :  from a state satisfying P, m either returns in a state satisfying Q that is
                   cRel-related to the initial one, or panics (allowed only if cPanicOk), or runs out of fuel
                   (termination is a separate theorem).
   Two assertion levels: cInv (at production boundaries) and the weaker cWeak (also right after ty::parse
   has popped a token without looking at the next one); cInv -> cWeak. *)
From ApolloVerif Require Import Base.Chars Lex.Item Parse.Outcome Parse.Builder Parse.Limits Parse.Monad
  Parse.Keywords Parse.Grammar.

Record pcfg := {
  cInv : pstate -> Prop;
  cWeak : pstate -> Prop;
  cRel : pstate -> pstate -> Prop;
  cPanicOk : Prop;      (* is a panic an acceptable outcome?  (True for partial-correctness instances) *)
  cFuelOk : Prop        (* is running out of fuel acceptable?  (False only for the termination instance) *)
}.

Definition post (C : pcfg) (P Q : pstate -> Prop) {A} (m : PM A) : Prop :=
  forall s, P s ->
    match m s with
    | POk (_, s') => Q s' /\ cRel C s s'
    | PPanic _ => cPanicOk C
    | POutOfFuel => cFuelOk C
    end.

Notation spec C m := (post C (cInv C) (cInv C) m).
Notation specW C m := (post C (cInv C) (cWeak C) m).
Notation specR C m := (post C (cWeak C) (cInv C) m).
Notation specWW C m := (post C (cWeak C) (cWeak C) m).

(* the part the logic itself needs *)
Record prel_ok (C : pcfg) : Prop := {
  ok_inv_weak : forall s, cInv C s -> cWeak C s;
  ok_refl : forall s, cRel C s s;
  ok_trans : forall a b c, cRel C a b -> cRel C b c -> cRel C a c
}.

Record pcfg_ok (C : pcfg) : Prop := {
  ok_rel : prel_ok C;
  ok_fuel : cFuelOk C;
  (* primitives of parser/mod.rs *)
  ok_peek_token : specR C p_peek_token;
  ok_skip_ignored : specR C p_skip_ignored;
  ok_push_ignored : spec C p_push_ignored;
  ok_bump : forall k, spec C (p_bump k);
  ok_err : specR C p_err;
  ok_err_at_token : forall t, specWW C (p_err_at_token t);
  ok_err_at_token_inv : forall t, spec C (p_err_at_token t);
  ok_limit_err : spec C p_limit_err;
  ok_err_and_pop : spec C p_err_and_pop;
  ok_expect : forall t k, specR C (p_expect t k);
  ok_node : forall A k (body : PM A), spec C body -> specR C (p_node k body);
  ok_rec_guard : forall A B (l : PM B) (body : PM A) (k : A -> PM B),
      spec C l -> spec C body -> (forall x, spec C (k x)) -> spec C (p_rec_guard l body k);
  ok_rec_guard_w : forall A B (l : PM B) (body : PM A) (k : A -> PM B),
      spec C l -> specW C body -> (forall x, specR C (k x)) -> spec C (p_rec_guard l body k);
  ok_debug_assert : forall b, spec C (p_debug_assert_advanced b);
  (* the two productions that use token data / pop directly *)
  ok_name : spec C g_name;
  ok_parse_body : forall rec, specW C rec -> specW C (g_parse_body rec)
}.

Section Logic.
  Context (C : pcfg) (H : prel_ok C).

  Lemma post_ret {A} (P Q : pstate -> Prop) (a : A) :
    (forall s, P s -> Q s) -> post C P Q (p_ret a).
  Proof. intros HPQ s Hs. cbn. split; [auto|apply (ok_refl C H)]. Qed.

  Lemma post_ret_same {A} (P : pstate -> Prop) (a : A) : post C P P (p_ret a).
  Proof. apply post_ret; auto. Qed.

  Lemma post_bind {A B} (P Q R : pstate -> Prop) (m : PM A) (f : A -> PM B) :
    post C P Q m -> (forall a, post C Q R (f a)) -> post C P R (p_bind m f).
  Proof.
    intros Hm Hf s Hs. unfold p_bind. specialize (Hm s Hs).
    destruct (m s) as [[a s']| |]; auto.
    destruct Hm as [HQ HR]. specialize (Hf a s' HQ).
    destruct (f a s') as [[b s'']| |]; auto.
    destruct Hf as [HR' HRel]. split; [auto|]. eapply (ok_trans C H); eauto.
  Qed.

  Lemma post_weaken {A} (P P' Q Q' : pstate -> Prop) (m : PM A) :
    (forall s, P' s -> P s) -> (forall s, Q s -> Q' s) -> post C P Q m -> post C P' Q' m.
  Proof.
    intros HP HQ Hm s Hs. specialize (Hm s (HP s Hs)).
    destruct (m s) as [[a s']| |]; auto. destruct Hm; split; auto.
  Qed.

  Lemma specR_spec {A} (m : PM A) : specR C m -> spec C m.
  Proof. apply post_weaken; auto. apply (ok_inv_weak C H). Qed.
  Lemma spec_specW {A} (m : PM A) : spec C m -> specW C m.
  Proof. apply post_weaken; auto. apply (ok_inv_weak C H). Qed.
  Lemma specR_specWW {A} (m : PM A) : specR C m -> specWW C m.
  Proof. apply post_weaken; auto. apply (ok_inv_weak C H). Qed.

  (* operations that do not change the state *)
  Lemma post_pure {A} (P : pstate -> Prop) (m : PM A) :
    (forall s, exists a, m s = POk (a, s)) -> post C P P m.
  Proof.
    intros Hm s Hs. destruct (Hm s) as [a ->]. split; [auto|apply (ok_refl C H)].
  Qed.

  Lemma post_get P : post C P P p_get.
  Proof. apply post_pure. intros s. eexists. reflexivity. Qed.

  Lemma post_peek_n_inner P n : post C P P (p_peek_n_inner (S n)).
  Proof. apply post_pure. intros s. eexists. reflexivity. Qed.

  Lemma post_out_of_fuel {A} P Q : cFuelOk C -> post C P Q (@p_out_of_fuel A).
  Proof. intros Hf s _. exact Hf. Qed.
End Logic.

(* ------------------------------------------------------------------ the generic traversal *)
Create HintDb gen discriminated.
Global Hint Resolve ok_rel ok_fuel : gen.
Global Hint Resolve ok_peek_token ok_skip_ignored ok_push_ignored ok_bump ok_err ok_err_at_token
  ok_err_at_token_inv ok_limit_err ok_err_and_pop ok_expect ok_debug_assert ok_name
  post_ret_same post_get post_peek_n_inner post_out_of_fuel : gen.

Ltac gside := first [ eassumption | apply ok_rel; eassumption ].

Ltac gbranch :=
  match goal with
  | |- post _ _ _ (p_when ?b _) => destruct b; cbn [p_when]
  | |- post _ _ _ (if ?b then _ else _) => destruct b
  | |- post _ _ _ (match ?x with _ => _ end) => destruct x
  | |- post _ _ _ (let '(_, _) := ?x in _) => destruct x
  end.

(* close a goal by a known fact, possibly after moving between the two assertion levels *)
Ltac gknown :=
  solve [ eauto 4 with gen
        | eapply specR_spec; [gside|]; eauto 4 with gen
        | eapply spec_specW; [gside|]; eauto 4 with gen
        | eapply spec_specW; [gside|]; eapply specR_spec; [gside|]; eauto 4 with gen
        | eapply specR_specWW; [gside|]; eauto 4 with gen ].

Ltac gnode :=
  first [ eapply ok_node; [gside|]
        | eapply specR_spec; [gside|]; eapply ok_node; [gside|]
        | eapply spec_specW; [gside|]; eapply specR_spec; [gside|]; eapply ok_node; [gside|]
        | eapply specR_specWW; [gside|]; eapply ok_node; [gside|] ].

Ltac gstep :=
  first
    [ gknown
    | match goal with
      | |- post _ _ _ (p_bind _ _) => eapply post_bind; [ gside | | intros ]
      | |- post _ _ _ (p_node _ _) => gnode
      | |- post _ _ _ (p_rec_guard _ _ _) =>
          first [ eapply ok_rec_guard; [gside| | |intros]
                | eapply spec_specW; [gside|]; eapply ok_rec_guard; [gside| | |intros] ]
      end
    | gbranch ].

Ltac gsolve := repeat gstep.

(* ---- derived primitives *)
Lemma g_peek C (H : pcfg_ok C) : specR C p_peek.
Proof. unfold p_peek. gsolve. Qed.
Lemma g_peek_data C (H : pcfg_ok C) : specR C p_peek_data.
Proof. unfold p_peek_data. gsolve. Qed.
Lemma g_current C (H : pcfg_ok C) : specR C p_current.
Proof. unfold p_current. gsolve. Qed.
Global Hint Resolve g_peek g_peek_data g_current : gen.

Lemma g_peek_n C (H : pcfg_ok C) n : spec C (p_peek_n (S n)).
Proof. unfold p_peek_n. gsolve. Qed.
Lemma g_peek_token_n C (H : pcfg_ok C) n : spec C (p_peek_token_n (S n)).
Proof. unfold p_peek_token_n. gsolve. Qed.
Lemma g_peek_data_n C (H : pcfg_ok C) n : spec C (p_peek_data_n (S n)).
Proof. unfold p_peek_data_n, p_peek_token_n. gsolve. Qed.
Global Hint Resolve g_peek_n g_peek_token_n g_peek_data_n : gen.

Lemma gg_peek_is C (H : pcfg_ok C) k : specR C (g_peek_is k).
Proof. unfold g_peek_is. gsolve. Qed.
Lemma gg_peek_in C (H : pcfg_ok C) ks : specR C (g_peek_in ks).
Proof. unfold g_peek_in. gsolve. Qed.
Lemma gg_peek_data_is C (H : pcfg_ok C) kw : specR C (g_peek_data_is kw).
Proof. unfold g_peek_data_is. gsolve. Qed.
Global Hint Resolve gg_peek_is gg_peek_in gg_peek_data_is : gen.

Lemma gg_if_peek C (H : pcfg_ok C) k m : spec C m -> specR C (g_if_peek k m).
Proof. intros Hm. unfold g_if_peek. gsolve. Qed.
Global Hint Resolve gg_if_peek : gen.

(* ---- loops *)
Lemma gg_peek_while_acc C (H : pcfg_ok C) {Acc} fuel (run : Acc -> tkind -> PM (Acc * bool)) :
  (forall acc k, spec C (run acc k)) -> forall acc, specR C (p_peek_while_acc fuel run acc).
Proof.
  intros Hrun. induction fuel as [|f IH]; intros acc; cbn [p_peek_while_acc]; [gsolve|].
  gsolve. all: try (eapply specR_spec; [gside|]; apply IH).
Qed.

Lemma gg_peek_while C (H : pcfg_ok C) fuel (run : tkind -> PM bool) :
  (forall k, spec C (run k)) -> specR C (p_peek_while fuel run).
Proof.
  intros Hrun. unfold p_peek_while.
  eapply post_bind; [gside| |intros; gsolve].
  apply gg_peek_while_acc; [assumption|]. intros. gsolve.
Qed.

Lemma gg_peek_while_kind_acc C (H : pcfg_ok C) {Acc} fuel e (run : Acc -> PM Acc) :
  (forall acc, spec C (run acc)) -> forall acc, specR C (p_peek_while_kind_acc fuel e run acc).
Proof.
  intros Hrun. induction fuel as [|f IH]; intros acc; cbn [p_peek_while_kind_acc]; [gsolve|].
  gsolve. all: try (eapply specR_spec; [gside|]; apply IH).
Qed.

Lemma gg_peek_while_kind C (H : pcfg_ok C) fuel e (run : PM unit) :
  spec C run -> specR C (p_peek_while_kind fuel e run).
Proof. intros Hrun. unfold p_peek_while_kind. apply gg_peek_while_kind_acc; auto. Qed.

Lemma gg_parse_separated_list C (H : pcfg_ok C) fuel sep ss (run : PM unit) :
  spec C run -> specR C (p_parse_separated_list fuel sep ss run).
Proof.
  intros Hrun. unfold p_parse_separated_list. gsolve.
  all: try (eapply specR_spec; [gside|]; apply gg_peek_while_kind; [assumption|]; gsolve).
Qed.

Lemma gg_trailing_loop C (H : pcfg_ok C) fuel : specR C (p_trailing_loop fuel).
Proof.
  induction fuel as [|f IH]; cbn [p_trailing_loop]; [gsolve|].
  gsolve. all: try (eapply specR_spec; [gside|]; apply IH).
Qed.

Lemma gg_trailing C (H : pcfg_ok C) fuel : specR C (p_trailing_tokens_are_errors fuel).
Proof.
  unfold p_trailing_tokens_are_errors.
  eapply post_bind; [gside|gsolve|intros].
  eapply post_bind; [gside| |intros; gsolve].
  eapply specR_spec; [gside|]. apply gg_trailing_loop; assumption.
Qed.

Global Hint Resolve gg_trailing gg_trailing_loop : gen.

(* lift a specR fact to whichever of the four forms the goal has *)
Ltac glift tac :=
  first [ tac
        | eapply specR_spec; [gside|]; tac
        | eapply spec_specW; [gside|]; eapply specR_spec; [gside|]; tac
        | eapply specR_specWW; [gside|]; tac ].

Ltac gloop :=
  match goal with
  | |- post _ _ _ (p_peek_while _ _) => glift ltac:(eapply gg_peek_while; [gside|intros])
  | |- post _ _ _ (p_peek_while_acc _ _ _) => glift ltac:(eapply gg_peek_while_acc; [gside|intros])
  | |- post _ _ _ (p_peek_while_kind _ _ _) => glift ltac:(eapply gg_peek_while_kind; [gside|])
  | |- post _ _ _ (p_peek_while_kind_acc _ _ _ _) =>
      glift ltac:(eapply gg_peek_while_kind_acc; [gside|intros])
  | |- post _ _ _ (p_parse_separated_list _ _ _ _) =>
      glift ltac:(eapply gg_parse_separated_list; [gside|])
  | |- post _ _ _ (g_if_peek _ _) => glift ltac:(eapply gg_if_peek; [gside|])
  end.

Ltac gfull := repeat first [ gstep | gloop ].

(* ------------------------------------------------------------------ name.rs, description.rs *)
Lemma gg_alias C (H : pcfg_ok C) : spec C g_alias.
Proof. unfold g_alias. gfull. Qed.
Lemma gg_description C (H : pcfg_ok C) : spec C g_description.
Proof. unfold g_description. gfull. Qed.
Global Hint Resolve gg_alias gg_description : gen.

(* ------------------------------------------------------------------ ty.rs *)
Lemma gg_parse C (H : pcfg_ok C) fuel : specW C (g_parse fuel).
Proof.
  induction fuel as [|f IH]; cbn [g_parse]; [gfull|]. apply (ok_parse_body C H). exact IH.
Qed.
Global Hint Resolve gg_parse : gen.

Lemma gg_ty C (H : pcfg_ok C) fuel : specW C (g_ty fuel).
Proof.
  unfold g_ty. eapply post_bind; [gside|apply gg_parse; assumption|intros r].
  destruct r as [|[t|]].
  - apply post_ret_same; gside.
  - apply (ok_err_at_token C H).
  - eapply specR_specWW; [gside|]. apply (ok_err C H).
Qed.
Global Hint Resolve gg_ty : gen.

Lemma gg_named_type C (H : pcfg_ok C) : spec C g_named_type.
Proof. unfold g_named_type. gfull. Qed.
Global Hint Resolve gg_named_type : gen.

(* ------------------------------------------------------------------ variable.rs, value.rs *)
Lemma gg_variable C (H : pcfg_ok C) : spec C g_variable.
Proof. unfold g_variable. gfull. Qed.
Lemma gg_enum_value C (H : pcfg_ok C) : spec C g_enum_value.
Proof. unfold g_enum_value. gfull. Qed.
Lemma gg_error_or_pop C (H : pcfg_ok C) b : spec C (g_error_or_pop b).
Proof. unfold g_error_or_pop. gfull. Qed.
Global Hint Resolve gg_variable gg_enum_value gg_error_or_pop : gen.

Section ValueFamily.
  Context (C : pcfg) (H : pcfg_ok C) (value : g_constness -> bool -> PM unit)
          (Hvalue : forall c p, spec C (value c p)).
  Local Hint Resolve Hvalue : gen.
  Lemma gg_list_value_ fuel c : spec C (g_list_value_ value fuel c).
  Proof. unfold g_list_value_. gfull. Qed.
  Lemma gg_object_field_ c : spec C (g_object_field_ value c).
  Proof. unfold g_object_field_. gfull. Qed.
  Local Hint Resolve gg_object_field_ : gen.
  Lemma gg_object_value_ fuel c : spec C (g_object_value_ value fuel c).
  Proof. unfold g_object_value_. gfull. Qed.
  Local Hint Resolve gg_list_value_ gg_object_value_ : gen.
  Lemma gg_value_body fuel c p : spec C (g_value_body value fuel c p).
  Proof. unfold g_value_body. gfull. Qed.
End ValueFamily.

Lemma gg_value C (H : pcfg_ok C) fuel : forall c p, spec C (g_value fuel c p).
Proof.
  induction fuel as [|f IH]; intros c p; cbn [g_value]; [gfull|]. apply gg_value_body; assumption.
Qed.
Global Hint Resolve gg_value : gen.

Lemma gg_list_value C (H : pcfg_ok C) fuel c : spec C (g_list_value fuel c).
Proof. unfold g_list_value. apply gg_list_value_; auto with gen. Qed.
Lemma gg_object_value C (H : pcfg_ok C) fuel c : spec C (g_object_value fuel c).
Proof. unfold g_object_value. apply gg_object_value_; auto with gen. Qed.
Lemma gg_object_field C (H : pcfg_ok C) fuel c : spec C (g_object_field fuel c).
Proof. unfold g_object_field. apply gg_object_field_; auto with gen. Qed.
Lemma gg_default_value C (H : pcfg_ok C) fuel : spec C (g_default_value fuel).
Proof. unfold g_default_value. gfull. Qed.
Global Hint Resolve gg_list_value gg_object_value gg_object_field gg_default_value : gen.

(* ------------------------------------------------------------------ argument.rs, directive.rs, input.rs *)
Lemma gg_argument C (H : pcfg_ok C) fuel c : spec C (g_argument fuel c).
Proof. unfold g_argument. gfull. Qed.
Global Hint Resolve gg_argument : gen.
Lemma gg_arguments C (H : pcfg_ok C) fuel c : spec C (g_arguments fuel c).
Proof. unfold g_arguments. gfull. Qed.
Global Hint Resolve gg_arguments : gen.
Lemma gg_directive C (H : pcfg_ok C) fuel c : spec C (g_directive fuel c).
Proof. unfold g_directive. gfull. Qed.
Global Hint Resolve gg_directive : gen.
Lemma gg_directives C (H : pcfg_ok C) fuel c : spec C (g_directives fuel c).
Proof. unfold g_directives. gfull. Qed.
Global Hint Resolve gg_directives : gen.
Lemma gg_input_value_definition C (H : pcfg_ok C) fuel : spec C (g_input_value_definition fuel).
Proof. unfold g_input_value_definition. gfull. Qed.
Global Hint Resolve gg_input_value_definition : gen.
Lemma gg_arguments_definition_body C (H : pcfg_ok C) fuel : spec C (g_arguments_definition_body fuel).
Proof. unfold g_arguments_definition_body. gfull. Qed.
Global Hint Resolve gg_arguments_definition_body : gen.
Lemma gg_arguments_definition C (H : pcfg_ok C) fuel : spec C (g_arguments_definition fuel).
Proof. unfold g_arguments_definition. gfull. Qed.
Global Hint Resolve gg_arguments_definition : gen.
Lemma gg_directive_location C (H : pcfg_ok C) : spec C g_directive_location.
Proof. unfold g_directive_location. gfull. Qed.
Global Hint Resolve gg_directive_location : gen.
Lemma gg_directive_locations C (H : pcfg_ok C) fuel : spec C (g_directive_locations fuel).
Proof. unfold g_directive_locations. gfull. Qed.
Global Hint Resolve gg_directive_locations : gen.
Lemma gg_directive_definition C (H : pcfg_ok C) fuel : spec C (g_directive_definition fuel).
Proof. unfold g_directive_definition. gfull. Qed.
Global Hint Resolve gg_directive_definition : gen.

(* ------------------------------------------------------------------ variable.rs, fragment.rs *)
Lemma gg_variable_definition C (H : pcfg_ok C) fuel : spec C (g_variable_definition fuel).
Proof. unfold g_variable_definition. gfull. Qed.
Global Hint Resolve gg_variable_definition : gen.
Lemma gg_variable_definitions C (H : pcfg_ok C) fuel : spec C (g_variable_definitions fuel).
Proof. unfold g_variable_definitions. gfull. Qed.
Global Hint Resolve gg_variable_definitions : gen.
Lemma gg_fragment_name C (H : pcfg_ok C) : spec C g_fragment_name.
Proof. unfold g_fragment_name. gfull. Qed.
Lemma gg_type_condition C (H : pcfg_ok C) : spec C g_type_condition.
Proof. unfold g_type_condition. gfull. Qed.
Global Hint Resolve gg_fragment_name gg_type_condition : gen.
Lemma gg_fragment_spread C (H : pcfg_ok C) fuel : spec C (g_fragment_spread fuel).
Proof. unfold g_fragment_spread. gfull. Qed.
Global Hint Resolve gg_fragment_spread : gen.

(* ------------------------------------------------------------------ selection.rs / field.rs / fragment.rs *)
Section SelectionFamily.
  Context (C : pcfg) (H : pcfg_ok C) (ss : PM unit) (Hss : spec C ss).
  Local Hint Resolve Hss : gen.
  Lemma gg_field_ fuel : spec C (g_field_ ss fuel).
  Proof. unfold g_field_. gfull. Qed.
  Lemma gg_inline_fragment_ fuel : spec C (g_inline_fragment_ ss fuel).
  Proof. unfold g_inline_fragment_. gfull. Qed.
  Local Hint Resolve gg_field_ gg_inline_fragment_ : gen.
  Lemma gg_selection_ fuel : spec C (g_selection_ ss fuel).
  Proof. unfold g_selection_. gfull. Qed.
  Local Hint Resolve gg_selection_ : gen.
  Lemma gg_selection_set_body fuel : spec C (g_selection_set_body ss fuel).
  Proof. unfold g_selection_set_body. gfull. Qed.
End SelectionFamily.

Lemma gg_selection_set C (H : pcfg_ok C) fuel : spec C (g_selection_set fuel).
Proof.
  induction fuel as [|f IH]; cbn [g_selection_set]; [gfull|]. apply gg_selection_set_body; assumption.
Qed.
Global Hint Resolve gg_selection_set : gen.
Lemma gg_selection C (H : pcfg_ok C) fuel : spec C (g_selection fuel).
Proof. unfold g_selection. apply gg_selection_; auto with gen. Qed.
Lemma gg_field C (H : pcfg_ok C) fuel : spec C (g_field fuel).
Proof. unfold g_field. apply gg_field_; auto with gen. Qed.
Lemma gg_inline_fragment C (H : pcfg_ok C) fuel : spec C (g_inline_fragment fuel).
Proof. unfold g_inline_fragment. apply gg_inline_fragment_; auto with gen. Qed.
Global Hint Resolve gg_selection gg_field gg_inline_fragment : gen.

Lemma gg_field_set C (H : pcfg_ok C) fuel : specR C (g_field_set fuel).
Proof. unfold g_field_set. gfull. Qed.

Lemma gg_fragment_definition C (H : pcfg_ok C) fuel : spec C (g_fragment_definition fuel).
Proof. unfold g_fragment_definition. gfull. Qed.
Global Hint Resolve gg_fragment_definition : gen.

(* ------------------------------------------------------------------ operation.rs *)
Lemma gg_operation_type C (H : pcfg_ok C) : spec C g_operation_type.
Proof. unfold g_operation_type. gfull. Qed.
Global Hint Resolve gg_operation_type : gen.
Lemma gg_operation_definition C (H : pcfg_ok C) fuel : spec C (g_operation_definition fuel).
Proof. unfold g_operation_definition. gfull. Qed.
Global Hint Resolve gg_operation_definition : gen.

(* ------------------------------------------------------------------ type system definitions *)
Lemma gg_field_definition C (H : pcfg_ok C) fuel : spec C (g_field_definition fuel).
Proof. unfold g_field_definition. gfull. Qed.
Global Hint Resolve gg_field_definition : gen.
Lemma gg_fields_definition C (H : pcfg_ok C) fuel : spec C (g_fields_definition fuel).
Proof. unfold g_fields_definition. gfull. Qed.
Global Hint Resolve gg_fields_definition : gen.
Lemma gg_implements_interfaces C (H : pcfg_ok C) fuel : spec C (g_implements_interfaces fuel).
Proof. unfold g_implements_interfaces. gfull. Qed.
Lemma gg_name_or_err C (H : pcfg_ok C) : spec C g_name_or_err.
Proof. unfold g_name_or_err. gfull. Qed.
Global Hint Resolve gg_implements_interfaces gg_name_or_err : gen.
Lemma gg_object_type_definition C (H : pcfg_ok C) fuel : spec C (g_object_type_definition fuel).
Proof. unfold g_object_type_definition. gfull. Qed.
Lemma gg_object_type_extension C (H : pcfg_ok C) fuel : spec C (g_object_type_extension fuel).
Proof. unfold g_object_type_extension. gfull. Qed.
Lemma gg_interface_type_definition C (H : pcfg_ok C) fuel : spec C (g_interface_type_definition fuel).
Proof. unfold g_interface_type_definition. gfull. Qed.
Lemma gg_interface_type_extension C (H : pcfg_ok C) fuel : spec C (g_interface_type_extension fuel).
Proof. unfold g_interface_type_extension. gfull. Qed.
Lemma gg_scalar_type_definition C (H : pcfg_ok C) fuel : spec C (g_scalar_type_definition fuel).
Proof. unfold g_scalar_type_definition. gfull. Qed.
Lemma gg_scalar_type_extension C (H : pcfg_ok C) fuel : spec C (g_scalar_type_extension fuel).
Proof. unfold g_scalar_type_extension. gfull. Qed.
Lemma gg_root_operation_type_definition C (H : pcfg_ok C) : spec C g_root_operation_type_definition.
Proof. unfold g_root_operation_type_definition. gfull. Qed.
Global Hint Resolve gg_root_operation_type_definition : gen.
Lemma gg_schema_definition C (H : pcfg_ok C) fuel : spec C (g_schema_definition fuel).
Proof. unfold g_schema_definition. gfull. Qed.
Lemma gg_schema_extension C (H : pcfg_ok C) fuel : spec C (g_schema_extension fuel).
Proof. unfold g_schema_extension. gfull. Qed.
Lemma gg_union_member_types C (H : pcfg_ok C) fuel : spec C (g_union_member_types fuel).
Proof. unfold g_union_member_types. gfull. Qed.
Global Hint Resolve gg_union_member_types : gen.
Lemma gg_union_type_definition C (H : pcfg_ok C) fuel : spec C (g_union_type_definition fuel).
Proof. unfold g_union_type_definition. gfull. Qed.
Lemma gg_union_type_extension C (H : pcfg_ok C) fuel : spec C (g_union_type_extension fuel).
Proof. unfold g_union_type_extension. gfull. Qed.
Lemma gg_enum_value_definition C (H : pcfg_ok C) fuel : spec C (g_enum_value_definition fuel).
Proof. unfold g_enum_value_definition. gfull. Qed.
Global Hint Resolve gg_enum_value_definition : gen.
Lemma gg_enum_values_definition C (H : pcfg_ok C) fuel : spec C (g_enum_values_definition fuel).
Proof. unfold g_enum_values_definition. gfull. Qed.
Global Hint Resolve gg_enum_values_definition : gen.
Lemma gg_enum_type_definition C (H : pcfg_ok C) fuel : spec C (g_enum_type_definition fuel).
Proof. unfold g_enum_type_definition. gfull. Qed.
Lemma gg_enum_type_extension C (H : pcfg_ok C) fuel : spec C (g_enum_type_extension fuel).
Proof. unfold g_enum_type_extension. gfull. Qed.
Lemma gg_input_fields_definition C (H : pcfg_ok C) fuel : spec C (g_input_fields_definition fuel).
Proof. unfold g_input_fields_definition. gfull. Qed.
Global Hint Resolve gg_input_fields_definition : gen.
Lemma gg_input_object_type_definition C (H : pcfg_ok C) fuel : spec C (g_input_object_type_definition fuel).
Proof. unfold g_input_object_type_definition. gfull. Qed.
Lemma gg_input_object_type_extension C (H : pcfg_ok C) fuel : spec C (g_input_object_type_extension fuel).
Proof. unfold g_input_object_type_extension. gfull. Qed.
Global Hint Resolve gg_object_type_definition gg_object_type_extension gg_interface_type_definition
  gg_interface_type_extension gg_scalar_type_definition gg_scalar_type_extension gg_schema_definition
  gg_schema_extension gg_union_type_definition gg_union_type_extension gg_enum_type_definition
  gg_enum_type_extension gg_input_object_type_definition gg_input_object_type_extension : gen.

Lemma gg_extensions C (H : pcfg_ok C) fuel : spec C (g_extensions fuel).
Proof. unfold g_extensions. gfull. Qed.
Global Hint Resolve gg_extensions : gen.
Lemma gg_select_definition C (H : pcfg_ok C) def fuel : spec C (g_select_definition def fuel).
Proof. unfold g_select_definition. gfull. Qed.
Global Hint Resolve gg_select_definition : gen.

(* ------------------------------------------------------------------ document.rs and the type entry *)
(* document.rs: the body of the definition loop, without the assert_eq!(recursion_limit.current, 0) *)
Definition g_document_step (fuel : nat) (kind : tkind) : PM bool :=
  match kind with
  | TkStringValue =>
      d <- p_peek_data_n 2 ;;
      match d with Some def => g_select_definition def fuel | None => p_err_and_pop end ;;
      p_ret true
  | TkName | TkLCurly =>
      d <- p_peek_data ;;
      match d with Some def => g_select_definition def fuel | None => p_err_and_pop end ;;
      p_ret true
  | TkEof => p_ret false
  | _ => p_err_and_pop ;; p_ret true
  end.

Lemma gg_document_step C (H : pcfg_ok C) fuel kind : spec C (g_document_step fuel kind).
Proof. unfold g_document_step. gfull. Qed.

Lemma g_document_unfold fuel :
  g_document fuel =
  p_node SK_DOCUMENT (
    o <- p_peek ;;
    p_when (match o with None | Some TkEof => true | _ => false end) p_err ;;
    p_peek_while fuel (fun kind => g_assert_recursion_balanced ;; g_document_step fuel kind) ;;
    p_push_ignored).
Proof. reflexivity. Qed.

(* given that the assertion is harmless for the configuration (partial-correctness instances) *)
Lemma gg_document C (H : pcfg_ok C) fuel :
  spec C g_assert_recursion_balanced -> specR C (g_document fuel).
Proof.
  intros Ha. rewrite g_document_unfold. pose proof (gg_document_step C H fuel) as Hs. gfull.
Qed.

(* a loop whose iterations start in states satisfying an extra predicate J that the relation transports *)
Lemma gg_peek_while_J C (H : pcfg_ok C) (J : pstate -> Prop) fuel (run : tkind -> PM bool) :
  (forall s s', cRel C s s' -> J s -> J s') ->
  (forall k, post C (fun s => cInv C s /\ J s) (cInv C) (run k)) ->
  post C (fun s => cWeak C s /\ J s) (fun s => cInv C s /\ J s) (p_peek_while fuel run).
Proof.
  intros HJ Hrun. unfold p_peek_while.
  assert (Hloop : forall acc, post C (fun s => cWeak C s /\ J s) (fun s => cInv C s /\ J s)
            (p_peek_while_acc fuel (fun (_ : unit) k => c <- run k ;; p_ret (tt, c)) acc)).
  { induction fuel as [|f IH]; intros acc; cbn [p_peek_while_acc]; [intros s _; apply (ok_fuel C H)|].
    intros s [Hw Hj].
    pose proof (g_peek C H s Hw) as Hp. unfold p_bind at 1.
    destruct (p_peek s) as [[o s1]| |]; [|exact Hp|apply (ok_fuel C H)]. destruct Hp as [Hi1 Hr1].
    pose proof (HJ _ _ Hr1 Hj) as Hj1.
    destruct o as [kind|].
    2:{ cbn. split; [auto|]. exact Hr1. }
    unfold p_bind at 1. unfold p_get at 1. cbv iota beta.
    unfold p_bind at 1. unfold p_bind at 1.
    pose proof (Hrun kind s1 (conj Hi1 Hj1)) as Hk.
    destruct (run kind s1) as [[c s2]| |]; [|exact Hk|apply (ok_fuel C H)]. destruct Hk as [Hi2 Hr2].
    cbn [p_ret]. cbv iota beta.
    pose proof (HJ _ _ Hr2 Hj1) as Hj2.
    destruct c.
    - unfold p_bind at 1.
      pose proof (ok_debug_assert C H (ps_cur s1) s2 Hi2) as Hd.
      destruct (p_debug_assert_advanced (ps_cur s1) s2) as [[u s3]| |]; [|exact Hd|apply (ok_fuel C H)].
      destruct Hd as [Hi3 Hr3]. pose proof (HJ _ _ Hr3 Hj2) as Hj3.
      specialize (IH tt s3 (conj (ok_inv_weak C (ok_rel C H) _ Hi3) Hj3)).
      destruct (p_peek_while_acc f _ tt s3) as [[a s4]| |]; [|exact IH|apply (ok_fuel C H)].
      destruct IH as [Hi4 Hr4]. split; [exact Hi4|].
      eapply (ok_trans C (ok_rel C H)); [exact Hr1|]. eapply (ok_trans C (ok_rel C H)); [exact Hr2|].
      eapply (ok_trans C (ok_rel C H)); eauto.
    - cbn. split; [auto|]. eapply (ok_trans C (ok_rel C H)); eauto. }
  intros s Hs. unfold p_bind. specialize (Hloop tt s Hs).
  destruct (p_peek_while_acc fuel _ tt s) as [[a s1]| |]; auto.
Qed.

(* configurations in which a panic is acceptable (partial correctness): post speaks about returns only *)
Lemma post_partial C {A} (P Q : pstate -> Prop) (m : PM A) :
  cPanicOk C -> cFuelOk C ->
  (forall s, P s -> forall a s', m s = POk (a, s') -> Q s' /\ cRel C s s') -> post C P Q m.
Proof.
  intros Hp Hfu Hm s Hs. destruct (m s) as [[a s']| |] eqn:E; auto. eapply Hm; eauto.
Qed.
Lemma post_returns C {A} (P Q : pstate -> Prop) (m : PM A) :
  post C P Q m -> forall s, P s -> forall a s', m s = POk (a, s') -> Q s' /\ cRel C s s'.
Proof. intros Hm s Hs a s' E. specialize (Hm s Hs). rewrite E in Hm. exact Hm. Qed.

Lemma bind_ok {A B} (m : PM A) (f : A -> PM B) s r s' :
  p_bind m f s = POk (r, s') -> exists a s1, m s = POk (a, s1) /\ f a s1 = POk (r, s').
Proof. unfold p_bind. destruct (m s) as [[a s1]| |]; try discriminate. eauto. Qed.

(* carrying an extra predicate that the relation transports *)
Lemma post_J C {A} (J P Q : pstate -> Prop) (m : PM A) :
  (forall s s', cRel C s s' -> J s -> J s') ->
  post C P Q m -> post C (fun s => P s /\ J s) (fun s => Q s /\ J s) m.
Proof.
  intros HJ Hm s [Hp Hj]. specialize (Hm s Hp). destruct (m s) as [[a s']| |]; auto.
  destruct Hm as [Hq Hr]. split; [split|]; eauto.
Qed.
Lemma post_pre_fact C {A} (F : Prop) (P Q : pstate -> Prop) (m : PM A) :
  (forall s, P s -> F) -> (F -> post C P Q m) -> post C P Q m.
Proof. intros HF Hm s Hs. exact (Hm (HF s Hs) s Hs). Qed.
