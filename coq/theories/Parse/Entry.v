(* The three entry points of `Parser` (parser/mod.rs: parse, parse_selection_set, parse_type) including
   SyntaxTreeBuilder::finish_* (rowan's GreenNodeBuilder::finish) and SyntaxTree::<Type>::ty().
   They are functions of the ITEM LIST the parser's own lexer yields (Lex/: lex_all s, or lex_limited n s
   when a token limit is set) and of the recursion limit.  `dbg` = debug_assertions. *)
From ApolloVerif Require Import Base.Chars Lex.Item Parse.Outcome Parse.Builder Parse.Limits Parse.Monad
  Parse.Grammar.

(* what a SyntaxTree holds: green tree, errors (in order), recursion tracker, token tracker's high mark *)
Record presult := {
  pr_tree : ptree;
  pr_errors : list perror;
  pr_rec : ptracker;
  pr_tokens_high : N;
  pr_dropped : list prstoken       (* GHOST: tokens popped and never given to the builder *)
}.

(* the fuel the entries run with: a bound on nesting depth and on each loop's iterations; every loop
   iteration and every nested call consumes at least one item (Parse/Terminates.v) *)
Definition p_fuel_for (items : list item) : nat := S (S (length items)).

Definition p_finish (r : poutcome (unit * pstate)) : poutcome presult :=
  match r with
  | POk (_, s) =>
      match pb_finish (ps_builder s) with
      | POk t => POk {| pr_tree := t; pr_errors := rev (ps_errors s); pr_rec := ps_rec s;
                      pr_tokens_high := ps_pulled s; pr_dropped := rev (ps_dropped s) |}
      | PPanic w => PPanic w
      | POutOfFuel => POutOfFuel
      end
  | PPanic w => PPanic w
  | POutOfFuel => POutOfFuel
  end.

Definition p_run_with (fuel : nat) (g : nat -> PM unit) (dbg : bool) (rl : N) (items : list item)
  : poutcome presult :=
  p_finish (g fuel (p_init_state dbg rl items)).

(* Parser::parse *)
Definition parse_document_fuel (fuel : nat) := p_run_with fuel g_document.
Definition parse_document_items (dbg : bool) (recursion_limit : N) (items : list item) : poutcome presult :=
  parse_document_fuel (p_fuel_for items) dbg recursion_limit items.

(* Parser::parse_selection_set *)
Definition parse_selection_set_fuel (fuel : nat) := p_run_with fuel g_field_set.
Definition parse_selection_set_items (dbg : bool) (recursion_limit : N) (items : list item)
  : poutcome presult :=
  parse_selection_set_fuel (p_fuel_for items) dbg recursion_limit items.

(* Parser::parse_type: { let _root = start_node(TYPE); ty::ty; trailing_tokens_are_errors } *)
Definition g_type_entry (fuel : nat) : PM unit :=
  p_node SK_TYPE (g_ty fuel ;; p_trailing_tokens_are_errors fuel).
Definition parse_type_fuel (fuel : nat) := p_run_with fuel g_type_entry.
Definition parse_type_items (dbg : bool) (recursion_limit : N) (items : list item) : poutcome presult :=
  parse_type_fuel (p_fuel_for items) dbg recursion_limit items.

(* SyntaxTree::<Type>::ty(): root.children().find_map(cst::Type::cast), else the root itself
   (as a NamedType).  cst::Type::can_cast: NAMED_TYPE | LIST_TYPE | NON_NULL_TYPE.  Never panics. *)
Definition p_is_type_node (t : ptree) : bool :=
  match t with
  | PNode SK_NAMED_TYPE _ | PNode SK_LIST_TYPE _ | PNode SK_NON_NULL_TYPE _ => true
  | _ => false
  end.
Definition p_tree_ty (t : ptree) : ptree :=
  match t with
  | PNode _ c => match find p_is_type_node c with Some x => x | None => t end
  | PLeaf _ _ => t
  end.
