(* The three entry points of `Parser` (parser/mod.rs: parse, parse_selection_set, parse_type) including
   SyntaxTreeBuilder::finish_* (rowan's GreenNodeBuilder::finish) and SyntaxTree::<Type>::ty().
   They are functions of the ITEM LIST the parser's own lexer yields (Lex/: lex_all s, or lex_limited n s
   when a token limit is set) and of the recursion limit.  `dbg` = debug_assertions. *)
From ApolloVerif Require Import Base.Chars Lex.Item Parse.Outcome Parse.Builder Parse.Limits Parse.Monad
  Parse.Grammar.

(* what a SyntaxTree holds: green tree, errors (in order), recursion tracker, token tracker's high mark *)
Record result := {
  r_tree : tree;
  r_errors : list perror;
  r_rec : tracker;
  r_tokens_high : N;
  r_dropped : list tok       (* GHOST: tokens popped and never given to the builder *)
}.

(* the fuel the entries run with: a bound on nesting depth and on each loop's iterations; every loop
   iteration and every nested call consumes at least one item (Parse/Terminates.v) *)
Definition fuel_for (items : list item) : nat := S (S (length items)).

Definition finish (r : outcome (unit * pstate)) : outcome result :=
  match r with
  | Ok (_, s) =>
      match b_finish (st_builder s) with
      | Ok t => Ok {| r_tree := t; r_errors := rev (st_errors s); r_rec := st_rec s;
                      r_tokens_high := st_pulled s; r_dropped := rev (st_dropped s) |}
      | Panic w => Panic w
      | OutOfFuel => OutOfFuel
      end
  | Panic w => Panic w
  | OutOfFuel => OutOfFuel
  end.

Definition run_with (fuel : nat) (g : nat -> M unit) (dbg : bool) (rl : N) (items : list item)
  : outcome result :=
  finish (g fuel (init_state dbg rl items)).

(* Parser::parse *)
Definition parse_document_fuel (fuel : nat) := run_with fuel document.
Definition parse_document_items (dbg : bool) (recursion_limit : N) (items : list item) : outcome result :=
  parse_document_fuel (fuel_for items) dbg recursion_limit items.

(* Parser::parse_selection_set *)
Definition parse_selection_set_fuel (fuel : nat) := run_with fuel field_set.
Definition parse_selection_set_items (dbg : bool) (recursion_limit : N) (items : list item)
  : outcome result :=
  parse_selection_set_fuel (fuel_for items) dbg recursion_limit items.

(* Parser::parse_type: { let _root = start_node(TYPE); ty::ty; trailing_tokens_are_errors } *)
Definition type_entry (fuel : nat) : M unit :=
  node TYPE (ty fuel ;; trailing_tokens_are_errors fuel).
Definition parse_type_fuel (fuel : nat) := run_with fuel type_entry.
Definition parse_type_items (dbg : bool) (recursion_limit : N) (items : list item) : outcome result :=
  parse_type_fuel (fuel_for items) dbg recursion_limit items.

(* SyntaxTree::<Type>::ty(): root.children().find_map(cst::Type::cast), else the root itself
   (as a NamedType).  cst::Type::can_cast: NAMED_TYPE | LIST_TYPE | NON_NULL_TYPE.  Never panics. *)
Definition is_type_node (t : tree) : bool :=
  match t with
  | Node NAMED_TYPE _ | Node LIST_TYPE _ | Node NON_NULL_TYPE _ => true
  | _ => false
  end.
Definition tree_ty (t : tree) : tree :=
  match t with
  | Node _ c => match find is_type_node c with Some x => x | None => t end
  | Leaf _ _ => t
  end.
