(* The three entry points of `Parser` (parser/mod.rs: parse, parse_selection_set, parse_type) including
   SyntaxTreeBuilder::finish_* (rowan's GreenNodeBuilder::finish) and SyntaxTree::<Type>::ty().
   They are functions of the ITEM LIST the parser's own lexer yields (Lex/: lex_all s, or lex_limited n s
   when a token limit is set) and of the recursion limit.  `dbg` = debug_assertions. *)
From ApolloVerif Require Import Base.Chars Lex.Item Parse.Outcome Parse.Builder Parse.Limits Parse.Monad
  Parse.Grammar.

(* what a SyntaxTree holds: green tree, errors (in order), recursion tracker, token tracker's high mark *)
Record result := {
  r_tree : tree;
  r_errors : list perror;
  r_rec : tracker;
  r_tokens_high : N
}.

(* the fuel the entries run with: a bound on nesting depth and on each loop's iterations; every loop
   iteration and every nested call consumes at least one item (Parse/Terminates.v) *)
Definition fuel_for (items : list item) : nat := S (S (length items)).

Definition finish (r : outcome (unit * pstate)) : outcome result :=
  match r with
  | Ok (_, s) =>
      match b_finish (st_builder s) with
      | Ok t => Ok {| r_tree := t; r_errors := rev (st_errors s); r_rec := st_rec s;
                      r_tokens_high := st_pulled s |}
      | Panic w => Panic w
      | OutOfFuel => OutOfFuel
      end
  | Panic w => Panic w
  | OutOfFuel => OutOfFuel
  end.

Definition run_with (fuel : nat) (g : nat -> M unit) (dbg : bool) (rl : N) (items : list item)
  : outcome result :=
  finish (g fuel (init_state dbg rl items)).

(* Parser::parse *)
Definition parse_document_fuel (fuel : nat) := run_with fuel document.
Definition parse_document_items (dbg : bool) (recursion_limit : N) (items : list item) : outcome result :=
  parse_document_fuel (fuel_for items) dbg recursion_limit items.

(* Parser::parse_selection_set *)
Definition parse_selection_set_fuel (fuel : nat) := run_with fuel field_set.
Definition parse_selection_set_items (dbg : bool) (recursion_limit : N) (items : list item)
  : outcome result :=
  parse_selection_set_fuel (fuel_for items) dbg recursion_limit items.

(* Parser::parse_type *)
Definition parse_type_fuel (fuel : nat) := run_with fuel ty.
Definition parse_type_items (dbg : bool) (recursion_limit : N) (items : list item) : outcome result :=
  parse_type_fuel (fuel_for items) dbg recursion_limit items.

(* SyntaxTree::<Type>::ty() *)
Definition tree_ty (t : tree) : outcome skind :=
  match tree_kind t with
  | NAMED_TYPE => Ok NAMED_TYPE
  | LIST_TYPE => Ok LIST_TYPE
  | NON_NULL_TYPE => Ok NON_NULL_TYPE
  | _ => Panic TyUnreachable
  end.

(* parse_type followed by .ty(), as the compiler's Type::parse does *)
Definition parse_type_ty_items (dbg : bool) (recursion_limit : N) (items : list item) : outcome result :=
  match parse_type_items dbg recursion_limit items with
  | Ok r => match tree_ty (r_tree r) with
            | Ok _ => Ok r
            | Panic w => Panic w
            | OutOfFuel => OutOfFuel
            end
  | o => o
  end.
