(* For invariants that every ATOMIC operation of the parser preserves on its own (no dependence on the values
   returned, one assertion level), the composite primitives of Generic.pcfg_ok are derived once here. *)
From ApolloVerif Require Import Base.Chars Lex.Item Parse.Outcome Parse.Builder Parse.Limits Parse.Monad
  Parse.Keywords Parse.Grammar Parse.Generic.

Definition p_start_raw (k : skind) : PM unit :=
  p_modify (fun s => ps_set_builder (pb_start_node k (ps_builder s)) s).

Record patoms_ok (C : pcfg) : Prop := {
  a_rel : prel_ok C;
  a_same : forall s, cWeak C s -> cInv C s;          (* one assertion level *)
  a_peek_token : spec C p_peek_token;
  a_pop : spec C p_pop;
  a_skip_ignored : spec C p_skip_ignored;
  a_push_ignored : spec C p_push_ignored;
  a_push_token : forall k t, spec C (p_push_token k t);
  a_push_syntax_err : forall t, spec C (p_push_err (p_syntax_error_at t));
  a_limit_err : spec C p_limit_err;
  a_start_raw : forall k, spec C (p_start_raw k);
  a_finish_node : spec C p_finish_node;
  a_wrap_node : forall cp k, spec C (p_wrap_node cp k);
  a_rec_guard : forall A B (l : PM B) (body : PM A) (k : A -> PM B),
      spec C l -> spec C body -> (forall x, spec C (k x)) -> spec C (p_rec_guard l body k);
  a_ghost : forall t, spec C (p_ghost_dropped t);
  a_panic : forall A w, spec C (@p_panic A w);
  a_assert : spec C g_assert_recursion_balanced;
  a_debug : forall b, spec C (p_debug_assert_advanced b)
}.

Create HintDb atoms discriminated.
Global Hint Resolve a_peek_token a_pop a_skip_ignored a_push_ignored a_push_token a_push_syntax_err
  a_limit_err a_start_raw a_finish_node a_wrap_node a_ghost a_panic a_assert a_debug a_rel
  post_ret_same post_get post_peek_n_inner post_out_of_fuel : atoms.

Ltac aside := first [ eassumption | apply a_rel; eassumption ].
Ltac astep :=
  first
    [ solve [ eauto 4 with atoms ]
    | match goal with
      | |- post _ _ _ (p_bind _ _) => eapply post_bind; [ aside | | intros ]
      | |- post _ _ _ (p_rec_guard _ _ _) => eapply a_rec_guard; [eassumption| | |intros]
      end
    | gbranch ].
Ltac asolve := repeat astep.

Section Derive.
  Context (C : pcfg) (H : patoms_ok C).

  Lemma d_all_levels {A} (P Q : pstate -> Prop) (m : PM A) :
    spec C m ->
    (P = cInv C \/ P = cWeak C) -> (Q = cInv C \/ Q = cWeak C) -> post C P Q m.
  Proof.
    intros Hm HP HQ. eapply post_weaken; [| |exact Hm].
    - intros s Hs. destruct HP as [->| ->]; [exact Hs|apply (a_same C H); exact Hs].
    - intros s Hs. destruct HQ as [->| ->]; [exact Hs|apply (ok_inv_weak C (a_rel C H)); exact Hs].
  Qed.

  Lemma d_current : spec C p_current.
  Proof. unfold p_current. asolve. Qed.
  Lemma d_peek : spec C p_peek.
  Proof. unfold p_peek. asolve. Qed.
  Hint Resolve d_current d_peek : atoms.
  Lemma d_eat k : spec C (p_eat k).
  Proof. unfold p_eat. asolve. Qed.
  Hint Resolve d_eat : atoms.
  Lemma d_bump k : spec C (p_bump k).
  Proof. unfold p_bump. asolve. Qed.
  Lemma d_err : spec C p_err.
  Proof. unfold p_err. asolve. Qed.
  Lemma d_err_at_token t : spec C (p_err_at_token t).
  Proof. unfold p_err_at_token. asolve. Qed.
  Lemma d_err_and_pop : spec C p_err_and_pop.
  Proof. unfold p_err_and_pop. asolve. Qed.
  Lemma d_at k : spec C (p_at k).
  Proof. unfold p_at. asolve. Qed.
  Hint Resolve d_bump d_err d_err_at_token d_err_and_pop d_at : atoms.
  Lemma d_expect t k : spec C (p_expect t k).
  Proof. unfold p_expect. asolve. Qed.
  Lemma d_start_node k : spec C (p_start_node k).
  Proof. unfold p_start_node. fold (p_start_raw k). asolve. Qed.
  Hint Resolve d_expect d_start_node : atoms.
  Lemma d_node {A} k (body : PM A) : spec C body -> spec C (p_node k body).
  Proof. intros Hb. unfold p_node. asolve. Qed.
  Lemma d_checkpoint_node : spec C p_checkpoint_node.
  Proof. unfold p_checkpoint_node. asolve. Qed.
  Lemma d_validate_name n : spec C (g_validate_name n).
  Proof. unfold g_validate_name. asolve. Qed.
  Hint Resolve d_checkpoint_node d_validate_name : atoms.
  Lemma d_name : spec C g_name.
  Proof. unfold g_name. asolve; apply d_node; asolve. Qed.
  Lemma d_peek_is k : spec C (g_peek_is k).
  Proof. unfold g_peek_is. asolve. Qed.
  Hint Resolve d_peek_is : atoms.
  Lemma d_parse_body rec : spec C rec -> spec C (g_parse_body rec).
  Proof.
    intros Hrec. unfold g_parse_body. asolve.
    all: try (apply d_node; asolve).
    all: try (apply d_node; asolve).
  Qed.

  Theorem atoms_cfg_ok : cFuelOk C -> pcfg_ok C.
  Proof.
    intros Hfuel. constructor.
    - apply (a_rel C H).
    - exact Hfuel.
    - apply d_all_levels; auto with atoms.
    - apply d_all_levels; auto with atoms.
    - apply (a_push_ignored C H).
    - apply d_bump.
    - apply d_all_levels; auto. apply d_err.
    - intros t. apply d_all_levels; auto. apply d_err_at_token.
    - apply d_err_at_token.
    - apply (a_limit_err C H).
    - apply d_err_and_pop.
    - intros t k. apply d_all_levels; auto. apply d_expect.
    - intros A k body Hb. apply d_all_levels; auto. apply d_node. exact Hb.
    - apply (a_rec_guard C H).
    - intros A B l body k Hl Hb Hk. apply (a_rec_guard C H); auto.
      + apply d_all_levels; auto.
        eapply post_weaken; [| |exact Hb]; auto. apply (a_same C H).
      + intros x. apply d_all_levels; auto.
        eapply post_weaken; [| |exact (Hk x)]; auto. apply (ok_inv_weak C (a_rel C H)).
    - apply (a_debug C H).
    - apply d_name.
    - intros rec Hrec. apply d_all_levels; auto. apply d_parse_body.
      eapply post_weaken; [| |exact Hrec]; auto. apply (a_same C H).
  Qed.
End Derive.
