(* crates/apollo-parser/src/limit.rs : LimitTracker.  `current`, `high`, `limit` are usize in the code;
   here N, with the one operation that can go below zero (`decrement`) returning an outcome. *)
From ApolloVerif Require Import Base.Chars Parse.Outcome.

Record ptracker := { ptr_current : N; ptr_high : N; ptr_limit : N }.

(* LimitTracker::new *)
Definition ptracker_new (limit : N) : ptracker := {| ptr_current := 0; ptr_high := 0; ptr_limit := limit |}.

(* LimitTracker::decrement : self.current -= 1 *)
Definition ptracker_decrement (t : ptracker) : poutcome ptracker :=
  if ptr_current t =? 0 then PPanic PnRecUnderflow
  else POk {| ptr_current := ptr_current t - 1; ptr_high := ptr_high t; ptr_limit := ptr_limit t |}.

(* LimitTracker::check_and_increment : returns (reached, tracker) *)
Definition ptracker_check_and_increment (t : ptracker) : poutcome (bool * ptracker) :=
  let p_current := ptr_current t + 1 in
  let high := if ptr_high t <? p_current then p_current else ptr_high t in
  let t1 := {| ptr_current := p_current; ptr_high := high; ptr_limit := ptr_limit t |} in
  let reached := ptr_limit t <? p_current in
  if reached then
    match ptracker_decrement t1 with
    | POk t2 => POk (true, t2)
    | PPanic w => PPanic w
    | POutOfFuel => POutOfFuel
    end
  else POk (false, t1).
