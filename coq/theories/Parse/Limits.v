(* crates/apollo-parser/src/limit.rs : LimitTracker.  `current`, `high`, `limit` are usize in the code;
   here N, with the one operation that can go below zero (`decrement`) returning an outcome. *)
From ApolloVerif Require Import Base.Chars Parse.Outcome.

Record tracker := { tr_current : N; tr_high : N; tr_limit : N }.

(* LimitTracker::new *)
Definition tracker_new (limit : N) : tracker := {| tr_current := 0; tr_high := 0; tr_limit := limit |}.

(* LimitTracker::decrement : self.current -= 1 *)
Definition tracker_decrement (t : tracker) : outcome tracker :=
  if tr_current t =? 0 then Panic RecUnderflow
  else Ok {| tr_current := tr_current t - 1; tr_high := tr_high t; tr_limit := tr_limit t |}.

(* LimitTracker::check_and_increment : returns (reached, tracker) *)
Definition tracker_check_and_increment (t : tracker) : outcome (bool * tracker) :=
  let current := tr_current t + 1 in
  let high := if tr_high t <? current then current else tr_high t in
  let t1 := {| tr_current := current; tr_high := high; tr_limit := tr_limit t |} in
  let reached := tr_limit t <? current in
  if reached then
    match tracker_decrement t1 with
    | Ok t2 => Ok (true, t2)
    | Panic w => Panic w
    | OutOfFuel => OutOfFuel
    end
  else Ok (false, t1).
