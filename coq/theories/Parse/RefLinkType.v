(* C05 / C07 link — ty.rs (parse / ty) against the reference's Type, and the recursion guard.  Proofs only. *)
From Coq Require Import PeanoNat.
From ApolloVerif Require Import Base.Chars Lex.Item Lex.Fun Parse.Outcome Parse.Builder Parse.Limits Parse.Monad
  Parse.Keywords Parse.Grammar Parse.Generic Parse.Atoms Parse.Entry Parse.LosslessDefs Parse.Lossless
  Parse.TrackerInst Parse.SilentInst Parse.EntryEnd Parse.Terminates Parse.RefGrammar Parse.RefLib Parse.RefLenient
  Parse.RefLinkBase Parse.RefLinkLoops.

(* ------------------------------------------------------------------ small run lemmas *)
Lemma rl_checkpoint_obs s cp s' : p_checkpoint_node s = POk (cp, s') -> rl_obs_eq s s'.
Proof.
  unfold p_checkpoint_node. intros E. apply bind_ok in E as (? & s1 & E1 & E). apply rl_push_ignored_obs in E1.
  unfold p_bind, p_get, p_ret in E. injection E as _ <-. exact E1.
Qed.
Lemma rl_wrap_node_obs cp k s u s' : p_wrap_node cp k s = POk (u, s') -> rl_obs_eq s s'.
Proof.
  unfold p_wrap_node, p_lift_b. destruct (pb_start_node_at _ _ _); try discriminate. intros [= <- <-]. repeat split.
Qed.

Lemma rl_obs_inv s s' : rl_obs_eq s s' -> rl_inv s -> rl_inv s'.
Proof.
  intros H [(t & Hc & Hi) Hs]. pose proof (rl_obs_rest _ _ H) as Hr. destruct H as (H1 & _). split.
  - exists t. rewrite H1. auto.
  - rewrite Hr. exact Hs.
Qed.

(* everything but the recursion tracker *)
Definition rl_same_but_rec (s s' : pstate) : Prop :=
  ps_cur s' = ps_cur s /\ ps_items s' = ps_items s /\ ps_errors s' = ps_errors s /\ ps_accept s' = ps_accept s.
Lemma rl_sbr_sigs s s' : rl_same_but_rec s s' -> rl_sigs s' = rl_sigs s.
Proof. intros (H1 & H2 & _). unfold rl_sigs, rest_of. rewrite H1, H2. reflexivity. Qed.
Lemma rl_sbr_ok s s' : rl_same_but_rec s s' -> rl_ok s -> rl_ok s'.
Proof.
  intros (H1 & H2 & H3 & H4) [[(t & Hc & Hi) Hs] Ha]. split; [split|congruence].
  - exists t. rewrite H1. auto.
  - unfold rest_of in *. rewrite H1, H2. exact Hs.
Qed.

Lemma rl_rec_check_run s b s' : p_rec_check_and_increment s = POk (b, s') -> tr_ok (ps_rec s) ->
  rl_same_but_rec s s' /\ tr_ok (ps_rec s') /\ ptr_limit (ps_rec s') = ptr_limit (ps_rec s) /\
  (b = true -> ptr_current (ps_rec s') = ptr_current (ps_rec s) /\ ptr_limit (ps_rec s) < ptr_current (ps_rec s) + 1) /\
  (b = false -> ptr_current (ps_rec s') = ptr_current (ps_rec s) + 1).
Proof.
  unfold p_rec_check_and_increment. intros E Hok.
  destruct (ptracker_check_and_increment (ps_rec s)) as [[b0 t1]| |] eqn:Et; try discriminate.
  injection E as <- <-. destruct (check_and_increment_spec _ _ _ Hok Et) as (H1 & H2 & _ & H4 & H5).
  cbn. split; [repeat split|]. split; [exact H1|]. split; [exact H2|]. split; [exact H4|exact H5].
Qed.
Lemma rl_rec_decrement_run s u s' : p_rec_decrement s = POk (u, s') ->
  rl_same_but_rec s s' /\ ptr_current (ps_rec s') + 1 = ptr_current (ps_rec s) /\
  ptr_limit (ps_rec s') = ptr_limit (ps_rec s).
Proof.
  unfold p_rec_decrement. intros E. destruct (ptracker_decrement (ps_rec s)) as [t1| |] eqn:Et; try discriminate.
  injection E as _ <-. destruct (decrement_spec _ _ Et) as (H1 & H2 & _). cbn. split; [repeat split|]. split; [exact H1|exact H2].
Qed.

Lemma rl_limit_err_run s u s' : rl_ok s -> p_limit_err s = POk (u, s') -> ps_errors s' <> ps_errors s.
Proof.
  intros [[(t & Hc & _) _] Ha] E. unfold p_limit_err, p_bind in E. rewrite (current_some t s Hc) in E.
  unfold p_push_err, p_modify in E. rewrite Ha in E. injection E as _ <-. cbn. apply rl_cons_neq.
Qed.
Lemma rl_err_at_token_run t s u s' : ps_accept s = true -> p_err_at_token t s = POk (u, s') -> ps_errors s' <> ps_errors s.
Proof.
  intros Ha E. unfold p_err_at_token, p_push_err, p_modify in E. rewrite Ha in E. injection E as _ <-. cbn.
  apply rl_cons_neq.
Qed.

Lemma rl_sigs_head s t : rl_inv s -> ps_cur s = Some t ->
  rl_sigs s = if tkind_eqb (tok_kind t) TkEof then [] else (tok_kind t, tok_data t) :: rl_sig (ps_items s).
Proof.
  intros Hinv Hc. destruct (tkind_eqb (tok_kind t) TkEof) eqn:He.
  - apply tkind_eqb_eq in He. exact (rl_sigs_eof _ _ Hinv Hc He).
  - assert (Hk : tok_kind t <> TkEof) by (intros H; apply tkind_eqb_eq in H; congruence).
    exact (proj1 (rl_sigs_tok _ _ Hinv Hc Hk)).
Qed.

(* ------------------------------------------------------------------ the tail of ty::parse: skip, `!`, skip *)
Definition g_parse_tail (cp : nat) : PM g_tyres :=
  p_skip_ignored ;;
  b <- g_peek_is TkBang ;;
  p_when b (p_wrap_node cp SK_NON_NULL_TYPE ;; p_eat SK_BANG ;; p_finish_node) ;;
  p_skip_ignored ;;
  p_ret GTyOk.

Definition rg_bang_opt : rg_p := rg_opt (rg_is TkBang) (rg_sat (rg_is TkBang)).

Lemma rl_parse_tail cp s res s' : rl_semi s -> g_parse_tail cp s = POk (res, s') ->
  res = GTyOk /\ rl_inv s' /\ rl_keep s s' /\ (exists pre, rl_sigs s = pre ++ rl_sigs s') /\
  rg_bang_opt (rl_sigs s) = RgOk (rl_sigs s').
Proof.
  intros Hsemi E. unfold g_parse_tail in E. apply bind_ok in E as (? & s1 & E1 & E).
  destruct (rl_skip_semi _ _ _ Hsemi E1) as (Hinv1 & Hsig1 & He1 & Ha1 & Hr1).
  destruct (rl_inv_cur _ Hinv1) as (t & Hc1 & Hi1 & _).
  unfold p_bind at 1 in E. rewrite (peek_is_some TkBang t s1 Hc1) in E.
  rewrite (rl_peek_is_view _ _ _ Hinv1 Hc1) in E by discriminate. rewrite <- Hsig1.
  unfold rg_bang_opt, rg_opt. destruct (rl_sigs s1) as [|t0 ts] eqn:Es; cbn [rl_head_is] in E.
  - cbn [p_when] in E. apply bind_ok in E as (? & s2 & E2 & E). unfold p_ret in E2. injection E2 as _ <-.
    apply bind_ok in E as (? & s3 & E3 & E). unfold p_ret in E. injection E as <- <-.
    destruct (rl_skip_semi _ _ _ (rl_inv_semi _ Hinv1) E3) as (Hinv3 & Hsig3 & He3 & Ha3 & Hr3).
    split; [reflexivity|]. split; [exact Hinv3|]. split; [unfold rl_keep; repeat split; congruence|].
    rewrite Hsig3, Es. split; [exists []; reflexivity|reflexivity].
  - destruct (rg_is TkBang t0) eqn:Hb; cbn [p_when] in E.
    + apply bind_ok in E as (? & s2 & E2 & E). apply bind_ok in E2 as (? & s4 & E4 & E2).
      apply rl_wrap_node_obs in E4. apply bind_ok in E2 as (? & s5 & E5 & E2). apply rl_finish_node_obs in E2.
      assert (Hinv4 : rl_inv s4) by (eapply rl_obs_inv; eauto).
      pose proof E4 as (Hc4 & _). rewrite Hc1 in Hc4.
      assert (Hk : tok_kind t <> TkEof).
      { intros Hk. rewrite (rl_sigs_eof _ _ Hinv1 Hc1 Hk) in Es. discriminate. }
      destruct (rl_eat_run _ _ _ _ _ Hinv4 Hc4 Hk E5) as (Hsemi5 & Hsig5 & He5 & Ha5 & Hr5).
      rewrite (rl_obs_sigs _ _ E4), Es in Hsig5. injection Hsig5 as Ht0 Hts.
      assert (Hsemi2 : rl_semi s2).
      { destruct Hsemi5 as [Hs5 Hcur5]. destruct E2 as (G1 & G2 & _). unfold rl_semi, rest_of in *. rewrite G1, G2. auto. }
      apply bind_ok in E as (? & s3 & E3 & E). unfold p_ret in E. injection E as <- <-.
      destruct (rl_skip_semi _ _ _ Hsemi2 E3) as (Hinv3 & Hsig3 & He3 & Ha3 & Hr3).
      assert (Hsig2 : rl_sigs s2 = rl_sigs s5) by (apply rl_obs_sigs; exact E2).
      destruct E2 as (_ & _ & Ge & Ga & Gr). destruct E4 as (_ & _ & Fe & Fa & Fr).
      split; [reflexivity|]. split; [exact Hinv3|]. split; [unfold rl_keep; repeat split; congruence|].
      rewrite Hsig3, Hsig2, <- Hts. split; [exists [t0]; reflexivity|]. cbv beta iota. unfold rg_sat. rewrite Hb. reflexivity.
    + apply bind_ok in E as (? & s2 & E2 & E). unfold p_ret in E2. injection E2 as _ <-.
      apply bind_ok in E as (? & s3 & E3 & E). unfold p_ret in E. injection E as <- <-.
      destruct (rl_skip_semi _ _ _ (rl_inv_semi _ Hinv1) E3) as (Hinv3 & Hsig3 & He3 & Ha3 & Hr3).
      split; [reflexivity|]. split; [exact Hinv3|]. split; [unfold rl_keep; repeat split; congruence|].
      rewrite Hsig3, Es. split; [exists []; reflexivity|reflexivity].
Qed.

Lemma gen_parse_tail C (H : patoms_ok C) cp : spec C (g_parse_tail cp).
Proof.
  unfold g_parse_tail.
  eapply post_bind; [apply (a_rel C H)|apply (a_skip_ignored C H)|intros _].
  eapply post_bind; [apply (a_rel C H)|apply (d_peek_is C H)|intros b].
  eapply post_bind; [apply (a_rel C H)| |intros _].
  { destruct b; cbn [p_when]; [|apply post_ret_same; apply (a_rel C H)].
    eapply post_bind; [apply (a_rel C H)|apply (a_wrap_node C H)|intros _].
    eapply post_bind; [apply (a_rel C H)|apply (d_eat C H)|intros _; apply (a_finish_node C H)]. }
  eapply post_bind; [apply (a_rel C H)|apply (a_skip_ignored C H)|intros _; apply post_ret_same; apply (a_rel C H)].
Qed.
Lemma rl_gen_parse_tail cp : rl_gen (g_parse_tail cp).
Proof. split; [apply (gen_parse_tail CT CT_atoms)|apply (gen_parse_tail CX CX_atoms)]. Qed.

(* ------------------------------------------------------------------ ty::parse *)
Lemma rl_gen_parse f : rl_gen (g_parse f).
Proof. split; [apply (gg_parse CT CT_ok)|apply (gg_parse CX CX_ok)]. Qed.

Lemma rl_obs_semi s s' : rl_obs_eq s s' -> rl_semi s -> rl_semi s'.
Proof.
  intros H [Hs Hc]. pose proof (rl_obs_rest _ _ H) as Hr. destruct H as (H1 & _). split.
  - rewrite Hr. exact Hs.
  - rewrite H1. exact Hc.
Qed.

(* what ty::parse guarantees.  An Err result carries no error yet: the caller reports it. *)
Definition rl_ty_post (n : nat) (s : pstate) (res : g_tyres) (s' : pstate) : Prop :=
  (ps_errors s' = ps_errors s ->
     ps_accept s' = true /\ res <> GTyErr None /\
     (res = GTyOk -> rl_inv s' /\ (exists pre, rl_sigs s = pre ++ rl_sigs s') /\
                     rg_type_f n (rl_sigs s) = RgOk (rl_sigs s'))) /\
  (rl_roomy s -> forall r, rg_type_f n (rl_sigs s) = RgOk r ->
     res = GTyOk /\ ps_errors s' = ps_errors s /\ rl_sigs s' = r).

Lemma rl_parse_other s1 t early s9 :
  ps_cur s1 = Some t ->
  (t0 <- p_pop ;; p_ghost_dropped t0 ;; p_ret (Some (GTyErr (Some t0)))) s1 = POk (early, s9) ->
  early = Some (GTyErr (Some t)) /\ ps_errors s9 = ps_errors s1 /\ ps_accept s9 = ps_accept s1.
Proof.
  intros Hc E. apply bind_ok in E as (t0 & s2 & E2 & E). unfold p_pop in E2. rewrite Hc in E2. injection E2 as <- <-.
  apply bind_ok in E as (? & s3 & E3 & E). unfold p_ghost_dropped, p_modify in E3. injection E3 as _ <-.
  unfold p_ret in E. injection E as <- <-. auto.
Qed.

(* the NamedType branch: NAMED_TYPE(NAME(pop, validate, push)) *)
Lemma rl_parse_named s1 t early s9 :
  rl_inv s1 -> ps_cur s1 = Some t -> tok_kind t = TkName ->
  (p_node SK_NAMED_TYPE (p_node SK_NAME (
     token <- p_pop ;; g_validate_name (tok_data token) ;; p_push_token SK_IDENT token)) ;; p_ret (@None g_tyres)) s1
    = POk (early, s9) ->
  early = None /\ rl_semi s9 /\ rl_sigs s1 = (TkName, tok_data t) :: rl_sigs s9 /\ rl_keep s1 s9.
Proof.
  intros Hinv1 Hc1 Hk E.
  assert (Hp1 : rl_pos s1) by (exact (proj1 Hinv1)).
  apply bind_ok in E as (? & s8 & E & Er). unfold p_ret in Er. injection Er as <- <-.
  unfold p_node at 1 in E. apply bind_ok in E as (? & s2 & E2 & E). apply (rl_start_node_obs _ _ _ _ Hp1) in E2.
  apply bind_ok in E as (? & s7 & E & Ef). apply bind_ok in Ef as (? & s8' & Ef & Er). unfold p_ret in Er.
  injection Er as _ <-. apply rl_finish_node_obs in Ef.
  pose proof (rl_obs_inv _ _ E2 Hinv1) as Hinv2.
  unfold p_node in E. apply bind_ok in E as (? & s3 & E3 & E). apply (rl_start_node_obs _ _ _ _ (proj1 Hinv2)) in E3.
  apply bind_ok in E as (? & s6 & E & Ef2). apply bind_ok in Ef2 as (? & s7' & Ef2 & Er). unfold p_ret in Er.
  injection Er as _ <-. apply rl_finish_node_obs in Ef2.
  pose proof (rl_obs_inv _ _ E3 Hinv2) as Hinv3.
  assert (Hc3 : ps_cur s3 = Some t).
  { destruct E3 as (G1 & _). destruct E2 as (F1 & _). congruence. }
  assert (Hne : tok_kind t <> TkEof) by congruence.
  apply bind_ok in E as (t' & s4 & E4 & E).
  destruct (rl_pop_run _ _ _ _ Hinv3 Hc3 Hne E4) as (-> & Hsemi4 & Hcur4 & Hsig4 & Hk4 & _).
  destruct (rl_sigs_tok _ _ Hinv3 Hc3 Hne) as (_ & Hokt & _). rewrite Hk in Hokt. cbn [rl_tok_ok] in Hokt.
  apply bind_ok in E as (? & s5 & E5 & E). rewrite (validate_name_valid _ s4 Hokt) in E5. injection E5 as _ <-.
  unfold p_push_token, p_modify in E. injection E as _ <-.
  assert (Hobs46 : rl_obs_eq s4 (ps_set_builder (pb_token SK_IDENT (tok_data t) (ps_builder s4)) s4)) by (repeat split).
  pose proof (rl_obs_eq_trans _ _ _ Hobs46 (rl_obs_eq_trans _ _ _ Ef2 Ef)) as Hobs49.
  split; [reflexivity|]. split; [exact (rl_obs_semi _ _ Hobs49 Hsemi4)|].
  split.
  - rewrite (rl_obs_sigs _ _ Hobs49). rewrite <- Hk. rewrite <- Hsig4.
    rewrite (rl_obs_sigs _ _ E3), (rl_obs_sigs _ _ E2). reflexivity.
  - destruct Hobs49 as (_ & _ & A1 & A2 & A3). destruct Hk4 as (B1 & B2 & B3).
    destruct E3 as (_ & _ & C1 & C2 & C3). destruct E2 as (_ & _ & D1 & D2 & D3).
    unfold rl_keep. repeat split; congruence.
Qed.

Lemma rl_parse_sim : forall fuel s res s', g_parse fuel s = POk (res, s') -> rl_ok s -> tr_ok (ps_rec s) ->
  forall n, (length (rl_sigs s) < n)%nat -> rl_ty_post n s res s'.
Proof.
  induction fuel as [|f IH]; intros s res s' E Hok Ht n Hn; [discriminate|].
  cbn [g_parse] in E. unfold g_parse_body in E.
  apply bind_ok in E as (cp & s1 & Ecp & E). apply rl_checkpoint_obs in Ecp.
  pose proof (rl_obs_ok _ _ Ecp Hok) as [Hinv1 Ha1]. destruct Hok as [Hinv Ha].
  destruct (rl_inv_cur _ Hinv1) as (t & Hc1 & Hi1 & _).
  apply bind_ok in E as (o & s1' & Ep & E). rewrite (peek_some t s1 Hc1) in Ep. injection Ep as <- <-.
  apply bind_ok in E as (early & s9 & Ee & E).
  destruct n as [|n']; [lia|].
  pose proof (rl_sigs_head _ _ Hinv1 Hc1) as Hhead. rewrite (rl_obs_sigs _ _ Ecp) in Hhead.
  pose proof Ecp as (_ & _ & Ee1 & Ea1 & Er1).
  destruct (tok_kind t) eqn:Hk; try (cbn in Hi1; discriminate Hi1);
  try (destruct (rl_parse_other _ _ _ _ Hc1 Ee) as (-> & He9 & Ha9); unfold p_ret in E; injection E as <- <-;
       cbn [tkind_eqb] in Hhead; unfold rl_ty_post; rewrite Hhead;
       split; [intros _; split; [congruence|split; [discriminate|intros H; discriminate H]]
              |intros _ r Hr; cbn in Hr; discriminate Hr]).
  - (* ListType *)
    cbn [tkind_eqb] in Hhead.
    unfold p_node in Ee. apply bind_ok in Ee as (? & s2 & E2 & Ee).
    apply (rl_start_node_obs _ _ _ _ (proj1 Hinv1)) in E2.
    apply bind_ok in Ee as (early' & s8o & Ee & Ef). apply bind_ok in Ef as (? & s9' & Ef & Er). unfold p_ret in Er.
    injection Er as -> ->. apply rl_finish_node_obs in Ef.
    pose proof (rl_obs_inv _ _ E2 Hinv1) as Hinv2.
    assert (Hc2 : ps_cur s2 = Some t) by (destruct E2 as (G1 & _); congruence).
    assert (Hne : tok_kind t <> TkEof) by congruence.
    apply bind_ok in Ee as (? & s3 & E3 & Ee).
    destruct (rl_bump_run _ _ _ _ _ Hinv2 Hc2 Hne E3) as (Hinv3 & Hsig3 & He3 & Ha3 & Hr3).
    rewrite (rl_obs_sigs _ _ E2), (rl_obs_sigs _ _ Ecp), Hhead, Hk in Hsig3. injection Hsig3 as Hsig3.
    pose proof E2 as (_ & _ & Ee2 & Ea2 & Er2).
    assert (Ht3 : tr_ok (ps_rec s3)) by congruence.
    assert (Hok3 : rl_ok s3) by (split; [exact Hinv3|congruence]).
    unfold p_rec_guard in Ee. apply bind_ok in Ee as (reached & s4 & E4 & Ee).
    destruct (rl_rec_check_run _ _ _ E4 Ht3) as (Hsbr4 & Ht4 & Hl4 & Htrue & Hfalse).
    pose proof (rl_sbr_ok _ _ Hsbr4 Hok3) as Hok4. pose proof (rl_sbr_sigs _ _ Hsbr4) as Hsig4.
    pose proof Hsbr4 as (_ & _ & Ee4 & Ea4).
    destruct reached.
    + (* the recursion limit is reached *)
      apply bind_ok in Ee as (? & s5 & E5 & Ee). unfold p_ret in Ee. injection Ee as <- <-.
      unfold p_ret in E. injection E as <- <-.
      pose proof (rl_limit_err_run _ _ _ Hok4 E5) as Hd. destruct Ef as (_ & _ & Ef & _).
      split.
      * intros He. exfalso. apply Hd. congruence.
      * intros Hroom r _. exfalso. destruct (Htrue eq_refl) as [Hcur Hlt].
        unfold rl_roomy in Hroom. rewrite Hhead in Hroom. cbn [rl_weight] in Hroom.
        assert (ptr_current (ps_rec s3) = ptr_current (ps_rec s)) by congruence.
        assert (ptr_limit (ps_rec s3) = ptr_limit (ps_rec s)) by congruence. lia.
    + specialize (Hfalse eq_refl).
      apply bind_ok in Ee as (result & s5 & E5 & Ee). apply bind_ok in Ee as (? & s6 & E6 & Ee).
      assert (Hn4 : (length (rl_sigs s4) < n')%nat).
      { rewrite Hsig4, <- Hsig3. rewrite Hhead in Hn. cbn [length] in Hn. lia. }
      pose proof (IH _ _ _ E5 Hok4 Ht4 n' Hn4) as [Hps Hpc].
      destruct (rl_gen_run _ _ _ _ (rl_gen_parse f) E5 Ht4) as (Ht5 & Hcur5 & Hl5 & Hx5).
      destruct (rl_rec_decrement_run _ _ _ E6) as (Hsbr6 & Hcur6 & Hl6).
      pose proof Hsbr6 as (_ & _ & Ee6 & Ea6).
      apply bind_ok in Ee as (? & s7 & E7 & Ee). apply bind_ok in Ee as (? & s8 & E8 & Ee).
      unfold p_ret in Ee. injection Ee as <- <-.
      assert (Ht6 : tr_ok (ps_rec s6)).
      { unfold tr_ok in *. destruct Ht5 as (A & B & C). destruct (ptracker_decrement (ps_rec s5)) eqn:Ed.
        - unfold p_rec_decrement in E6. rewrite Ed in E6. injection E6 as _ <-. cbn.
          destruct (decrement_spec _ _ Ed) as (D1 & D2 & D3). lia.
        - unfold p_rec_decrement in E6. rewrite Ed in E6. discriminate.
        - unfold p_rec_decrement in E6. rewrite Ed in E6. discriminate. }
      assert (Hx7 : rl_ext s6 s7).
      { destruct result as [|[tok|]].
        - unfold p_ret in E7. injection E7 as _ <-. apply rl_ext_refl.
        - exact (proj2 (post_returns _ _ _ _ (d_err_at_token CX CX_atoms tok) s6 I _ _ E7)).
        - unfold p_ret in E7. injection E7 as _ <-. apply rl_ext_refl. }
      assert (Ht7 : tr_ok (ps_rec s7) /\ ptr_current (ps_rec s7) = ptr_current (ps_rec s6) /\
                    ptr_limit (ps_rec s7) = ptr_limit (ps_rec s6)).
      { destruct result as [|[tok|]].
        - unfold p_ret in E7. injection E7 as _ <-. auto.
        - destruct (post_returns _ _ _ _ (d_err_at_token CT CT_atoms tok) s6 Ht6 _ _ E7) as [A (B & C & _)]. auto.
        - unfold p_ret in E7. injection E7 as _ <-. auto. }
      destruct Ht7 as (Ht7 & Hcur7 & Hl7).
      destruct (rl_gen_run _ _ _ _ (rl_gen_expect TkRBracket SK_R_BRACK) E8 Ht7) as (Ht8 & Hcur8 & Hl8 & Hx8).
      pose proof Ef as (_ & _ & Eef & Eaf & Erf).
      (* the tail runs from s9 *)
      cbv beta iota in E.
      split.
      * intros He.
        (* no new error anywhere *)
        assert (Hsemi9' : True) by exact I.
        assert (Hchain : ps_errors s5 = ps_errors s4 /\ ps_errors s7 = ps_errors s6 /\ ps_errors s8 = ps_errors s7 /\
                         ps_errors s' = ps_errors s9).
        { (* s' extends s9 extends ... s4 = s *)
          assert (Hx9 : rl_ext s9 s').
          { apply (rl_gen_run (g_parse_tail cp) s9 res s'); [apply rl_gen_parse_tail|exact E|congruence]. }
          assert (Hx49 : rl_ext s4 s9).
          { eapply rl_ext_trans; [exact Hx5|]. eapply rl_ext_trans; [apply rl_ext_same; exact Ee6|].
            eapply rl_ext_trans; [exact Hx7|]. eapply rl_ext_trans; [exact Hx8|]. apply rl_ext_same. exact Eef. }
          assert (He4 : ps_errors s4 = ps_errors s) by congruence.
          destruct Hx9 as [n9 Hn9]. destruct Hx5 as [n5 Hn5]. destruct Hx7 as [n7 Hn7]. destruct Hx8 as [n8 Hn8].
          assert (Hall : n9 ++ n8 ++ n7 ++ n5 = []).
          { apply (rl_no_new (ps_errors s)). rewrite <- He at 2. rewrite Hn9, Eef, Hn8, Hn7, Ee6, Hn5, He4.
            rewrite !app_assoc. reflexivity. }
          apply app_eq_nil in Hall as [-> Hall]. apply app_eq_nil in Hall as [-> Hall].
          apply app_eq_nil in Hall as [-> ->]. cbn in *. repeat split; congruence. }
        destruct Hchain as (He5 & He7 & He8 & He9).
        destruct (Hps He5) as (Ha5 & Hnn & Hres).
        destruct result as [|[tok|]]; [|exfalso|exfalso; apply Hnn; reflexivity].
        2:{ eapply (rl_err_at_token_run tok s6 _ s7); [congruence|exact E7|exact He7]. }
        destruct (Hres eq_refl) as (Hinv5 & [pre5 Hpre5] & Hq5).
        unfold p_ret in E7. injection E7 as _ <-.
        assert (Hok6 : rl_ok s6) by (apply (rl_sbr_ok _ _ Hsbr6); split; [exact Hinv5|exact Ha5]).
        destruct (proj2 (rl_sim_expect TkRBracket SK_R_BRACK ltac:(discriminate)) s6 _ s8 E8 Hok6 Ht6 I) as [Hs8 _].
        destruct (Hs8 He8) as (Hok8 & [pre8 Hpre8] & Hq8).
        assert (Hsemi9 : rl_semi s9) by (apply (rl_obs_semi _ _ Ef); apply rl_inv_semi; exact (proj1 Hok8)).
        destruct (rl_parse_tail _ _ _ _ Hsemi9 E) as (-> & Hinv' & (Hke & Hka & Hkr) & [pre' Hpre'] & Hq').
        split; [destruct Hok8 as [_ Ha8]; congruence|]. split; [discriminate|]. intros _.
        split; [exact Hinv'|].
        rewrite Hhead. rewrite (rl_obs_sigs _ _ Ef) in Hpre', Hq'.
        rewrite (rl_sbr_sigs _ _ Hsbr6) in Hpre8, Hq8. rewrite Hsig4 in Hpre5, Hq5. rewrite <- Hsig3 in Hpre5, Hq5.
        split.
        -- eexists ((TkLBracket, tok_data t) :: pre5 ++ pre8 ++ pre'). cbn [app]. f_equal.
           rewrite Hpre5, Hpre8, Hpre'. rewrite !app_assoc. reflexivity.
        -- cbn [rg_type_f]. unfold rg_seq. cbn [rg_bind]. rewrite Hq5. cbn [rg_bind]. rewrite Hq8. cbn [rg_bind].
           exact Hq'.
      * intros Hroom r Hq. rewrite Hhead in Hq. cbn [rg_type_f] in Hq. unfold rg_seq in Hq.
        destruct (rg_type_f n' (rl_sig (ps_items s1))) as [r1| |] eqn:Eq1; try discriminate. cbn [rg_bind] in Hq.
        destruct (rg_sat (rg_is TkRBracket) r1) as [r2| |] eqn:Eq2; try discriminate. cbn [rg_bind] in Hq.
        assert (Hcur34 : ptr_current (ps_rec s3) = ptr_current (ps_rec s) /\ ptr_limit (ps_rec s3) = ptr_limit (ps_rec s))
          by (split; congruence).
        destruct Hcur34 as [Hcur3 Hlim3].
        assert (Hroom4 : rl_roomy s4).
        { unfold rl_roomy in *. rewrite Hhead in Hroom. cbn [rl_weight] in Hroom. rewrite Hsig4, <- Hsig3. lia. }
        rewrite Hsig3, <- Hsig4 in Eq1. destruct (Hpc Hroom4 r1 Eq1) as (-> & He5 & Hr5).
        destruct (Hps He5) as (Ha5 & _ & Hres). destruct (Hres eq_refl) as (Hinv5 & [pre5 Hpre5] & _).
        unfold p_ret in E7. injection E7 as _ <-.
        assert (Hok6 : rl_ok s6) by (apply (rl_sbr_ok _ _ Hsbr6); split; [exact Hinv5|exact Ha5]).
        destruct (proj2 (rl_sim_expect TkRBracket SK_R_BRACK ltac:(discriminate)) s6 _ s8 E8 Hok6 Ht6 I) as [Hs8 Hc8].
        assert (Hroom6 : rl_roomy s6).
        { unfold rl_roomy in *. rewrite (rl_sbr_sigs _ _ Hsbr6). rewrite Hpre5, rl_weight_app in Hroom4. lia. }
        rewrite <- Hr5, <- (rl_sbr_sigs _ _ Hsbr6) in Eq2. destruct (Hc8 Hroom6 r2 Eq2) as [He8 Hr8].
        destruct (Hs8 He8) as (Hok8 & _ & _).
        assert (Hsemi9 : rl_semi s9) by (apply (rl_obs_semi _ _ Ef); apply rl_inv_semi; exact (proj1 Hok8)).
        destruct (rl_parse_tail _ _ _ _ Hsemi9 E) as (-> & Hinv' & (Hke & Hka & Hkr) & _ & Hq').
        unfold rg_bang_opt in Hq'. rewrite (rl_obs_sigs _ _ Ef), Hr8, Hq in Hq'. injection Hq' as Hq'.
        split; [reflexivity|]. split; [congruence|]. symmetry. exact Hq'.
  - (* NamedType *)
    cbn [tkind_eqb] in Hhead.
    destruct (rl_parse_named _ _ _ _ Hinv1 Hc1 Hk Ee) as (-> & Hsemi9 & Hsig9 & (Hke9 & Hka9 & Hkr9)).
    cbv beta iota in E.
    destruct (rl_parse_tail _ _ _ _ Hsemi9 E) as (-> & Hinv' & (Hke & Hka & Hkr) & [pre' Hpre'] & Hq').
    rewrite (rl_obs_sigs _ _ Ecp), Hhead in Hsig9. injection Hsig9 as Hsig9.
    split.
    + intros _. split; [congruence|]. split; [discriminate|]. intros _. split; [exact Hinv'|].
      rewrite Hhead. split.
      * exists ((TkName, tok_data t) :: pre'). cbn [app]. f_equal. rewrite Hsig9. exact Hpre'.
      * cbn [rg_type_f rg_bind]. rewrite Hsig9. exact Hq'.
    + intros _ r Hq. rewrite Hhead in Hq. cbn [rg_type_f rg_bind] in Hq. rewrite Hsig9 in Hq.
      unfold rg_bang_opt in Hq'. rewrite Hq in Hq'. injection Hq' as Hq'.
      split; [reflexivity|]. split; [congruence|]. symmetry. exact Hq'.
Qed.

(* ------------------------------------------------------------------ ty::ty *)
Lemma rl_gen_ty f : rl_gen (g_ty f).
Proof. split; [apply (gg_ty CT CT_ok)|apply (gg_ty CX CX_ok)]. Qed.

Theorem rl_sim_ty fuel : rl_sim rl_any (g_ty fuel) rg_type.
Proof.
  split; [apply rl_gen_ty|]. intros s u s' E Hok Ht _. unfold g_ty in E. apply bind_ok in E as (res & s1 & E1 & E).
  pose proof (rl_parse_sim _ _ _ _ E1 Hok Ht (S (length (rl_sigs s))) (Nat.lt_succ_diag_r _)) as [Hps Hpc].
  destruct (rl_gen_run _ _ _ _ (rl_gen_parse fuel) E1 Ht) as (Ht1 & _ & _ & Hx1).
  unfold rl_sound, rl_complete, rg_type. destruct res as [|[tok|]].
  - unfold p_ret in E. injection E as _ <-. split.
    + intros He. destruct (Hps He) as (Ha1 & _ & Hres). destruct (Hres eq_refl) as (Hinv1 & Hpre & Hq).
      split; [split; auto|]. auto.
    + intros Hr r Hq. destruct (Hpc Hr r Hq) as (_ & He & Hr1). auto.
  - assert (Hx : rl_ext s1 s') by (exact (proj2 (post_returns _ _ _ _ (d_err_at_token CX CX_atoms tok) s1 I _ _ E))).
    split.
    + intros He. destruct (rl_ext_split _ _ _ Hx1 Hx He) as [He1 He2]. destruct (Hps He1) as (Ha1 & _).
      exfalso. eapply rl_err_at_token_run; eauto.
    + intros Hr r Hq. destruct (Hpc Hr r Hq) as (Hres & _). discriminate.
  - split.
    + intros He.
      assert (Hx : rl_ext s1 s') by (exact (proj2 (post_returns _ _ _ _ (d_err CX CX_atoms) s1 I _ _ E))).
      destruct (rl_ext_split _ _ _ Hx1 Hx He) as [He1 _]. destruct (Hps He1) as (_ & Hnn & _).
      exfalso. apply Hnn. reflexivity.
    + intros Hr r Hq. destruct (Hpc Hr r Hq) as (Hres & _). discriminate.
Qed.
