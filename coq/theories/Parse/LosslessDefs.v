(* C02 / C04 (prefix): the lossless-text invariant as an instance of the generic traversal.

   chunks already in the builder ++ chunks of pending ++ current token ++ remaining items
     = the chunks of the whole item list                    (chunks = the non-empty data, in order)

   preserved by every primitive, except that ty::parse's error branch drops a token (known finding D3):
   the equation is therefore kept under the ghost condition "no text was dropped so far". *)
From ApolloVerif Require Import Base.Chars Lex.Item Parse.Outcome Parse.Builder Parse.Limits Parse.Monad
  Parse.Keywords Parse.Grammar Parse.Generic Parse.Entry.

Definition is_nil (d : str) : bool := match d with [] => true | _ => false end.
Definition ne (l : list str) : list str := filter (fun d => negb (is_nil d)) l.

Lemma ne_app a b : ne (a ++ b) = ne a ++ ne b.
Proof. apply filter_app. Qed.
Lemma concat_ne l : concat (ne l) = concat l.
Proof.
  induction l as [|x l IH]; [reflexivity|]. destruct x as [|c d]; [exact IH|].
  change (ne ((c :: d) :: l)) with ((c :: d) :: ne l). cbn [concat]. now rewrite IH.
Qed.
Lemma ne_nil_cons l : ne ([] :: l) = ne l.
Proof. reflexivity. Qed.

Definition pend_data (p : ppend) : str :=
  match p with PendIgnored t => tok_data t | PendError d => d end.
Definition cur_data (o : option prstoken) : list str :=
  match o with Some t => [tok_data t] | None => [] end.
Definition cur_item (o : option prstoken) : list item :=
  match o with Some t => [ITok (tok_kind t) (tok_data t) (tok_index t)] | None => [] end.

(* tokens in the builder, oldest first *)
Definition trees_leaves (l : list ptree) : list (skind * str) := flat_map p_leaves l.
Definition b_leaves (b : pbuilder) : list (skind * str) := trees_leaves (rev (pb_children b)).
Definition b_chunks (b : pbuilder) : list str := ne (map snd (b_leaves b)).

Lemma p_leaves_node k c : p_leaves (PNode k c) = trees_leaves c.
Proof. unfold trees_leaves. induction c as [|x c IH]; [reflexivity|]. cbn [flat_map]. rewrite <- IH. reflexivity. Qed.
Lemma p_text_of_node k c : p_text_of (PNode k c) = p_texts_of c.
Proof. unfold p_texts_of. induction c as [|x c IH]; [reflexivity|]. cbn [map concat]. rewrite <- IH. reflexivity. Qed.
Lemma trees_leaves_app a b : trees_leaves (a ++ b) = trees_leaves a ++ trees_leaves b.
Proof. unfold trees_leaves. apply flat_map_app. Qed.

Lemma ptree_ind' (P : ptree -> Prop) :
  (forall k c, Forall P c -> P (PNode k c)) -> (forall k s, P (PLeaf k s)) -> forall t, P t.
Proof.
  intros Hn Hl. fix F 1. intros [k c|k s]; [apply Hn|apply Hl].
  induction c as [|x c IH]; constructor; [apply F|apply IH].
Qed.

(* the text of a tree is the concatenation of its leaves *)
Lemma text_of_leaves t : p_text_of t = concat (map snd (p_leaves t)).
Proof.
  induction t as [k c IH|k s] using ptree_ind'.
  - rewrite p_text_of_node, p_leaves_node. unfold p_texts_of, trees_leaves.
    induction IH as [|x c Hx Hc IHc]; cbn; auto.
    rewrite map_app, concat_app, <- Hx, <- IHc. reflexivity.
  - cbn. now rewrite app_nil_r.
Qed.

Lemma b_leaves_token k t b : b_leaves (pb_token k t b) = b_leaves b ++ [(k, t)].
Proof. unfold b_leaves, pb_token. cbn. rewrite trees_leaves_app. reflexivity. Qed.
Lemma b_leaves_start k b : b_leaves (pb_start_node k b) = b_leaves b.
Proof. reflexivity. Qed.
Lemma b_leaves_finish b b' : pb_finish_node b = POk b' -> b_leaves b' = b_leaves b.
Proof.
  unfold pb_finish_node. destruct (pb_parents b) as [|[k fc] ps]; [discriminate|].
  destruct (Nat.ltb _ _); [discriminate|]. intros [= <-]. unfold b_leaves. cbn [pb_children].
  set (n := (length (pb_children b) - fc)%nat).
  rewrite <- (firstn_skipn n (pb_children b)) at 3.
  cbn [rev]. rewrite rev_app_distr, !trees_leaves_app. cbn [trees_leaves flat_map].
  rewrite p_leaves_node, app_nil_r. reflexivity.
Qed.
Lemma b_leaves_start_at cp k b b' : pb_start_node_at cp k b = POk b' -> b_leaves b' = b_leaves b.
Proof.
  unfold pb_start_node_at. destruct (Nat.ltb _ _); [discriminate|].
  destruct (pb_parents b) as [|[k' fc] ps]; [intros [= <-]; reflexivity|].
  destruct (Nat.ltb _ _); [discriminate|]. intros [= <-]. reflexivity.
Qed.

(* ------------------------------------------------------------------ the invariant *)
Definition st_done (s : pstate) : list str := b_chunks (ps_builder s).
Definition ahead_of (pending : list ppend) (cur : option prstoken) (items : list item) : list str :=
  ne (map pend_data pending ++ cur_data cur ++ map item_data items).
Definition st_ahead (s : pstate) : list str := ahead_of (ps_pending s) (ps_cur s) (ps_items s).
Definition suffix_of (orig : list item) (s : pstate) : Prop :=
  exists pre, orig = pre ++ cur_item (ps_cur s) ++ ps_items s.
Definition no_text_dropped (s : pstate) : Prop := ne (map tok_data (ps_dropped s)) = [].
Definition filled (s : pstate) : Prop := ps_cur s <> None \/ ps_items s = [].

Definition weakL (orig : list item) (s : pstate) : Prop :=
  suffix_of orig s /\ (no_text_dropped s -> st_done s ++ st_ahead s = ne (map item_data orig)).
Definition invL (orig : list item) (s : pstate) : Prop := weakL orig s /\ filled s.

Definition CL (orig : list item) : pcfg :=
  {| cInv := invL orig; cWeak := weakL orig; cRel := fun _ _ => True; cPanicOk := True; cFuelOk := True |}.

Lemma CL_rel orig : prel_ok (CL orig).
Proof. constructor; cbn; auto. intros s [Hw _]. exact Hw. Qed.

(* what `post (CL orig)` means *)
Lemma postL orig {A} (P Q : pstate -> Prop) (m : PM A) :
  (forall s, P s -> forall a s', m s = POk (a, s') -> Q s') -> post (CL orig) P Q m.
Proof.
  intros Hm s Hs. destruct (m s) as [[a s']| |] eqn:E; cbn; auto. split; auto. eapply Hm; eauto.
Qed.
Lemma postL_inv orig {A} (P Q : pstate -> Prop) (m : PM A) :
  post (CL orig) P Q m -> forall s, P s -> forall a s', m s = POk (a, s') -> Q s'.
Proof. intros Hm s Hs a s' E. specialize (Hm s Hs). rewrite E in Hm. apply Hm. Qed.

