(* C04: token consumption.  ps_pulled (= lexer.limit_tracker.high) counts exactly the items taken from the
   parser's own lexer; look-ahead (peek_n) takes none. *)
From ApolloVerif Require Import Base.Chars Lex.Item Parse.Outcome Parse.Builder Parse.Limits Parse.Monad
  Parse.Keywords Parse.Grammar Parse.Generic Parse.Atoms Parse.Entry.

Definition pulled_ok (n : N) (s : pstate) : Prop :=
  ps_pulled s + N.of_nat (length (ps_items s)) = n.

Definition CP (n : N) : pcfg :=
  {| cInv := pulled_ok n; cWeak := pulled_ok n; cRel := fun _ _ => True; cPanicOk := True; cFuelOk := True |}.

Lemma CP_rel n : prel_ok (CP n).
Proof. constructor; cbn; auto. Qed.

Lemma pulled_frame n {A} (m : PM A) :
  (forall s a s', m s = POk (a, s') -> ps_pulled s' = ps_pulled s /\ ps_items s' = ps_items s) -> spec (CP n) m.
Proof.
  intros Hm. apply post_partial; [exact I|exact I|]. cbn. intros s Hs a s' E. destruct (Hm _ _ _ E) as [H1 H2].
  unfold pulled_ok in *. rewrite H1, H2. auto.
Qed.
Lemma pulled_step n {A} (m : PM A) :
  (forall s a s', m s = POk (a, s') -> pulled_ok n s -> pulled_ok n s') -> spec (CP n) m.
Proof. intros Hm. apply post_partial; [exact I|exact I|]. cbn. intros s Hs a s' E. split; eauto. Qed.

Lemma lexer_error_effect_pulled c d i s :
  ps_pulled (p_lexer_error_effect c d i s) = ps_pulled s.
Proof. unfold p_lexer_error_effect. destruct d, (ps_accept _), c; reflexivity. Qed.

Lemma next_token_loop_pulled items : forall s o s',
  p_next_token_loop items s = (o, s') ->
  ps_pulled s' + N.of_nat (length (ps_items s')) = ps_pulled s + N.of_nat (length items).
Proof.
  induction items as [|[k d i|c d i] r IH]; intros s o s'; cbn [p_next_token_loop].
  - intros [= <- <-]. reflexivity.
  - intros [= <- <-]. cbn [ps_pulled ps_items ps_set_items p_count_pull ps_set_pulled length]. lia.
  - intros E. apply IH in E. rewrite E, lexer_error_effect_pulled. cbn [ps_pulled p_count_pull ps_set_pulled length]. lia.
Qed.

Lemma skip_loop_pulled items : forall s,
  ps_pulled (p_skip_loop items s) + N.of_nat (length (ps_items (p_skip_loop items s)))
  = ps_pulled s + N.of_nat (length items).
Proof.
  induction items as [|[k d i|c d i] r IH]; intros s; cbn [p_skip_loop].
  - reflexivity.
  - destruct (p_is_ignored_kind k).
    + rewrite IH. cbn [ps_pulled ps_set_pending p_count_pull ps_set_pulled length]. lia.
    + cbn [ps_pulled ps_items ps_set_cur ps_set_items p_count_pull ps_set_pulled length]. lia.
  - rewrite IH, lexer_error_effect_pulled. cbn [ps_pulled p_count_pull ps_set_pulled length]. lia.
Qed.

Lemma peek_token_pulled n s o s' : p_peek_token s = POk (o, s') -> pulled_ok n s -> pulled_ok n s'.
Proof.
  unfold p_peek_token, pulled_ok. destruct (ps_cur s).
  - intros [= <- <-]. auto.
  - destruct (p_next_token_loop _ _) as [o1 s1] eqn:E. intros [= <- <-]. apply next_token_loop_pulled in E.
    cbn [ps_pulled ps_items ps_set_cur]. lia.
Qed.

Lemma CP_atoms n : patoms_ok (CP n).
Proof.
  constructor.
  - apply CP_rel.
  - cbn. auto.
  - apply pulled_step. apply peek_token_pulled.
  - apply pulled_step. intros s a s'. unfold p_pop, pulled_ok. destruct (ps_cur s).
    + intros [= <- <-]. auto.
    + destruct (p_next_token_loop _ _) as [[t|] s1] eqn:E; [|discriminate]. intros [= <- <-].
      apply next_token_loop_pulled in E. lia.
  - apply pulled_step. intros s a s'. unfold p_skip_ignored, pulled_ok. destruct (ps_cur s) as [t|].
    + destruct (p_is_ignored_kind _); intros [= <- <-]; auto. rewrite skip_loop_pulled. auto.
    + intros [= <- <-]. rewrite skip_loop_pulled. auto.
  - apply pulled_frame. intros s a s'. unfold p_push_ignored. destruct (p_push_pending_list _ _); try discriminate.
    intros [= <- <-]. auto.
  - intros k t. apply pulled_frame. intros s a s'. unfold p_push_token, p_modify. intros [= <- <-]. auto.
  - intros t. apply pulled_frame. intros s a s'. unfold p_push_err, p_modify. intros [= <- <-].
    destruct (ps_accept s); auto.
  - apply pulled_step. intros s a s' E H. unfold p_limit_err in E.
    apply bind_ok in E as (o & s1 & E1 & E). eapply peek_token_pulled in E1; [|exact H].
    destruct o as [t|].
    + apply bind_ok in E as (u & s2 & E2 & E). unfold p_push_err, p_modify in *.
      injection E2 as _ <-. injection E as _ <-. unfold pulled_ok in *. destruct (ps_accept s1); exact E1.
    + unfold p_ret in E. injection E as _ <-. exact E1.
  - intros k. apply pulled_frame. intros s a s'. unfold p_start_raw, p_modify. intros [= <- <-]. auto.
  - apply pulled_frame. intros s a s'. unfold p_finish_node, p_lift_b. destruct (pb_finish_node _); try discriminate.
    intros [= <- <-]. auto.
  - intros cp k. apply pulled_frame. intros s a s'. unfold p_wrap_node, p_lift_b.
    destruct (pb_start_node_at _ _ _); try discriminate. intros [= <- <-]. auto.
  - intros A B l body k Hl Hb Hk. unfold p_rec_guard.
    eapply post_bind; [apply CP_rel| |intros [|]]; [|exact Hl|].
    + apply pulled_frame. intros s a s'. unfold p_rec_check_and_increment.
      destruct (ptracker_check_and_increment _) as [[b t]| |]; try discriminate. intros [= <- <-]. auto.
    + eapply post_bind; [apply CP_rel|exact Hb|intros x].
      eapply post_bind; [apply CP_rel| |intros; apply Hk].
      apply pulled_frame. intros s a s'. unfold p_rec_decrement.
      destruct (ptracker_decrement _); try discriminate. intros [= <- <-]. auto.
  - intros t. apply pulled_frame. intros s a s'. unfold p_ghost_dropped, p_modify. intros [= <- <-]. auto.
  - intros A w. apply pulled_frame. intros s a s'. discriminate.
  - apply pulled_frame. intros s a s'. unfold g_assert_recursion_balanced. destruct (_ =? _); try discriminate.
    intros [= <- <-]. auto.
  - intros b. apply pulled_frame. intros s a s'. unfold p_debug_assert_advanced. destruct (_ && _); try discriminate.
    intros [= <- <-]. auto.
Qed.

Definition CP_ok n : pcfg_ok (CP n) := atoms_cfg_ok (CP n) (CP_atoms n) I.

Lemma type_entry_CP n fuel : specR (CP n) (g_type_entry fuel).
Proof.
  unfold g_type_entry. apply (ok_node _ (CP_ok n)).
  eapply post_bind; [apply CP_rel|apply gg_ty; apply CP_ok|intros; apply gg_trailing; apply CP_ok].
Qed.

Theorem pulled_run (g : nat -> PM unit) :
  (forall n fuel, specR (CP n) (g fuel)) ->
  forall fuel dbg rl items r,
    p_run_with fuel g dbg rl items = POk r ->
    pr_tokens_high r <= N.of_nat (length items).
Proof.
  intros Hg fuel dbg rl items r. unfold p_run_with, p_finish.
  destruct (g fuel (p_init_state dbg rl items)) as [[u s]| |] eqn:E; try discriminate.
  destruct (pb_finish _); try discriminate. intros [= <-]. cbn [pr_tokens_high].
  assert (H0 : pulled_ok (N.of_nat (length items)) (p_init_state dbg rl items)) by reflexivity.
  destruct (post_returns _ _ _ _ (Hg _ fuel) _ H0 _ _ E) as [Hok _]. cbn in Hok. unfold pulled_ok in Hok. lia.
Qed.

Lemma document_CP n fuel : specR (CP n) (g_document fuel).
Proof. apply gg_document; [apply CP_ok|apply (a_assert _ (CP_atoms n))]. Qed.
