(* C05 — the reference recogniser is the grammar, type-system part and the full Document. *)
From ApolloVerif Require Import Base.Chars Lex.Item Lex.Fun Parse.RefGrammar Parse.RefLib Parse.RefSpec
  Parse.RefProofsValue Parse.RefProofsExec Parse.RefSpecTS.

(* ---- soundness with the reason for stopping ---- *)
Lemma rg_opt_sound2 s (p : rg_p) (P : rg_lang) ts r :
  rg_sound p P -> rg_first P s -> rg_opt s p ts = RgOk r ->
  exists a, ts = a ++ r /\ LOpt P a /\ (a = [] -> rg_nh s r).
Proof.
  intros Hs Hf. unfold rg_opt. destruct ts as [|t ts'].
  - intros [= <-]. exists []. split; [reflexivity|]. split; [now left|]. intros _. exact I.
  - destruct (s t) eqn:Es.
    + intros E. destruct (Hs _ _ E) as (a & Ea & Ha). exists a. split; [exact Ea|]. split; [now right|].
      intros ->. apply Hf in Ha. contradiction.
    + intros [= <-]. exists []. split; [reflexivity|]. split; [now left|]. intros _. exact Es.
Qed.
Lemma rg_many_f_sound2 s (item : rg_p) (P : rg_lang) :
  rg_sound item P -> forall n ts r, rg_many_f n s item ts = RgOk r ->
  exists a, ts = a ++ r /\ LStar P a /\ rg_nh s r.
Proof.
  intros Hi n. induction n as [|n IH]; intros ts r; destruct ts as [|t ts']; cbn [rg_many_f].
  - intros [= <-]. exists []. split; [reflexivity|]. split; [constructor|exact I].
  - destruct (s t) eqn:Es; [discriminate|]. intros [= <-]. exists []. split; [reflexivity|]. split; [constructor|exact Es].
  - intros [= <-]. exists []. split; [reflexivity|]. split; [constructor|exact I].
  - destruct (s t) eqn:Es.
    + unfold rg_bind. destruct (item (t :: ts')) as [r1| |] eqn:E1; try discriminate.
      intros E2. destruct (Hi _ _ E1) as (a & Ea & Ha). destruct (IH _ _ E2) as (b & -> & Hb & Hn).
      exists (a ++ b). split; [now rewrite <- app_assoc|]. split; [now constructor|exact Hn].
    + intros [= <-]. exists []. split; [reflexivity|]. split; [constructor|exact Es].
Qed.
Lemma rg_directives_sound2 c ts r : rg_directives c ts = RgOk r ->
  exists a, ts = a ++ r /\ RgDirectivesOpt c a /\ rg_nh (rg_is TkAt) r.
Proof. apply rg_many_f_sound2, rg_directive_sound. Qed.

Lemma rg_star_plus (P : rg_lang) l : LStar P l -> l = [] \/ LPlus P l.
Proof. intros [|a b Ha Hb]; [now left|right]. exists a, b. auto. Qed.
Lemma rg_plus_star (P : rg_lang) l : LPlus P l -> LStar P l.
Proof. intros (a & b & -> & Ha & Hb). now constructor. Qed.
Lemma rg_plus_first (P : rg_lang) f : rg_first P f -> rg_first (LPlus P) f.
Proof. apply rg_first_seq. Qed.

(* ---- Description? ---- *)
Lemma rg_desc_opt_sound : rg_sound rg_desc_opt RgDescriptionOpt.
Proof. apply rg_sound_opt, rg_sound_sat. Qed.
Lemma rg_desc_opt_complete :
  rg_complete rg_desc_opt RgDescriptionOpt (fun r => rg_true r /\ rg_nh (rg_is TkStringValue) r).
Proof. apply rg_complete_opt; [apply rg_complete_sat|apply rg_first_tok]. Qed.
Lemma rg_desc_opt_first0 : rg_first0 RgDescriptionOpt (rg_is TkStringValue).
Proof. apply rg_first0_opt, rg_first_tok. Qed.
Lemma rg_desc_opt_noout : rg_noout rg_desc_opt.
Proof. apply rg_noout_opt, rg_noout_sat. Qed.

(* a description then a named thing: Description? Name rest *)
Lemma rg_desc_name_first (Q : rg_lang) : rg_first (LSeq RgDescriptionOpt (LSeq RgName Q)) rg_is_name_or_string.
Proof.
  eapply rg_first_weaken; [|apply rg_first_seq0; [apply rg_desc_opt_first0|apply rg_first_seq, rg_first_tok]].
  intros t. unfold rg_is_name_or_string. cbn. intros H. apply orb_true_iff in H as [->| ->]; [apply orb_true_r|reflexivity].
Qed.

(* ---- InputValueDefinition, ArgumentsDefinition ---- *)
Lemma rg_inputvaldef_sound : rg_sound rg_inputvaldef RgInputValueDefinition.
Proof.
  apply rg_sound_seq; [apply rg_desc_opt_sound|]. apply rg_sound_seq; [apply rg_sound_sat|].
  apply rg_sound_seq; [apply rg_sound_sat|]. apply rg_typed_tail_sound.
Qed.
Lemma rg_inputvaldef_complete : rg_complete rg_inputvaldef RgInputValueDefinition rg_follow_typed.
Proof.
  eapply rg_complete_seq; [apply rg_desc_opt_complete| |].
  - apply (rg_complete_seq _ _ _ _ rg_true); [apply rg_complete_sat| |easy].
    apply (rg_complete_seq _ _ _ _ rg_true); [apply rg_complete_sat|apply rg_typed_tail_complete|easy].
  - apply (rg_follow_intro1 _ (rg_is TkName)); [apply rg_first_seq, rg_first_tok|]. rg_follow.
Qed.
Lemma rg_inputvaldef_first : rg_first RgInputValueDefinition rg_is_name_or_string.
Proof. apply rg_desc_name_first. Qed.
Lemma rg_inputvaldef_noout : rg_noout rg_inputvaldef.
Proof.
  apply rg_noout_seq; [apply rg_desc_opt_noout|]. apply rg_noout_seq; [apply rg_noout_sat|].
  apply rg_noout_seq; [apply rg_noout_sat|apply rg_typed_tail_noout].
Qed.

(* open-bracket item+ close-bracket *)
Section Bracketed.
  Variables (ko kc : tkind) (item : rg_p) (P : rg_lang) (Fi : list rg_token -> Prop).
  Hypothesis Hs : rg_sound item P.
  Hypothesis Hc : rg_complete item P Fi.
  Hypothesis Hf : rg_first P rg_is_name_or_string.
  Hypothesis Hfi : forall l, rg_starts rg_is_name_or_string l -> Fi l.
  Hypothesis Hclose : forall l, rg_starts (rg_is kc) l -> rg_nh rg_is_name_or_string l /\ Fi l.
  Hypothesis Ho : rg_noout item.
  Let p := rg_seq (rg_sat (rg_is ko)) (rg_seq (rg_plus rg_is_name_or_string item) (rg_sat (rg_is kc))).
  Let L := LSeq (RgPunct ko) (LSeq (LPlus P) (RgPunct kc)).

  Lemma rg_bracketed_sound : rg_sound p L.
  Proof.
    apply rg_sound_seq; [apply rg_sound_sat|]. apply rg_sound_seq; [|apply rg_sound_sat].
    now apply rg_sound_plus.
  Qed.
  Lemma rg_bracketed_complete F : rg_complete p L F.
  Proof.
    apply (rg_complete_seq _ _ _ _ rg_true); [apply rg_complete_sat| |easy].
    eapply rg_complete_seq; [|apply rg_complete_sat|].
    - apply rg_complete_plus; [exact Hc|exact Hf|exact Hfi].
    - apply (rg_follow_intro1 _ (rg_is kc)); [apply rg_first_tok|exact Hclose].
  Qed.
  Lemma rg_bracketed_first : rg_first L (rg_is ko).
  Proof. apply rg_first_seq, rg_first_tok. Qed.
  Lemma rg_bracketed_noout : rg_noout p.
  Proof.
    apply rg_noout_seq; [apply rg_noout_sat|]. apply rg_noout_seq; [|apply rg_noout_sat].
    eapply rg_noout_plus; eauto.
  Qed.
End Bracketed.

Lemma rg_follow_typed_start l : rg_starts rg_is_name_or_string l -> rg_follow_typed l.
Proof. revert l. unfold rg_follow_typed, rg_follow_dirs. rg_follow. Qed.
Lemma rg_follow_typed_close k l : k = TkRParen \/ k = TkRCurly ->
  rg_starts (rg_is k) l -> rg_nh rg_is_name_or_string l /\ rg_follow_typed l.
Proof. intros [-> | ->]; revert l; unfold rg_follow_typed, rg_follow_dirs; rg_follow. Qed.

Lemma rg_argsdef_sound : rg_sound rg_argsdef RgArgumentsDefinition.
Proof. apply rg_bracketed_sound, rg_inputvaldef_sound. Qed.
Lemma rg_argsdef_complete F : rg_complete rg_argsdef RgArgumentsDefinition F.
Proof.
  apply (rg_bracketed_complete _ _ _ _ rg_follow_typed); [apply rg_inputvaldef_complete|apply rg_inputvaldef_first
    |apply rg_follow_typed_start|intros l; apply rg_follow_typed_close; now left].
Qed.
Lemma rg_argsdef_first : rg_first RgArgumentsDefinition (rg_is TkLParen).
Proof. apply rg_bracketed_first. Qed.
Lemma rg_argsdef_noout : rg_noout rg_argsdef.
Proof. eapply rg_bracketed_noout; [apply rg_inputvaldef_sound|apply rg_inputvaldef_first|apply rg_inputvaldef_noout]. Qed.

Lemma rg_inputfieldsdef_sound : rg_sound rg_inputfieldsdef RgInputFieldsDefinition.
Proof. apply rg_bracketed_sound, rg_inputvaldef_sound. Qed.
Lemma rg_inputfieldsdef_complete F : rg_complete rg_inputfieldsdef RgInputFieldsDefinition F.
Proof.
  apply (rg_bracketed_complete _ _ _ _ rg_follow_typed); [apply rg_inputvaldef_complete|apply rg_inputvaldef_first
    |apply rg_follow_typed_start|intros l; apply rg_follow_typed_close; now right].
Qed.
Lemma rg_inputfieldsdef_first : rg_first RgInputFieldsDefinition (rg_is TkLCurly).
Proof. apply rg_bracketed_first. Qed.
Lemma rg_inputfieldsdef_noout : rg_noout rg_inputfieldsdef.
Proof. eapply rg_bracketed_noout; [apply rg_inputvaldef_sound|apply rg_inputvaldef_first|apply rg_inputvaldef_noout]. Qed.

(* ---- FieldDefinition, FieldsDefinition ---- *)
Definition rg_follow_fielddef (r : list rg_token) : Prop := rg_nh (rg_is TkBang) r /\ rg_follow_dirs r.

Lemma rg_fielddef_sound : rg_sound rg_fielddef RgFieldDefinition.
Proof.
  apply rg_sound_seq; [apply rg_desc_opt_sound|]. apply rg_sound_seq; [apply rg_sound_sat|].
  apply rg_sound_seq; [apply rg_sound_opt, rg_argsdef_sound|]. apply rg_sound_seq; [apply rg_sound_sat|].
  apply rg_sound_seq; [apply rg_type_sound|apply rg_directives_sound].
Qed.
Lemma rg_fielddef_complete : rg_complete rg_fielddef RgFieldDefinition rg_follow_fielddef.
Proof.
  eapply rg_complete_seq; [apply rg_desc_opt_complete| |].
  - apply (rg_complete_seq _ _ _ _ rg_true); [apply rg_complete_sat| |easy].
    eapply rg_complete_seq; [apply rg_complete_opt; [apply (rg_argsdef_complete rg_true)|apply rg_argsdef_first]| |].
    + apply (rg_complete_seq _ _ _ _ rg_true); [apply rg_complete_sat| |easy].
      eapply rg_complete_seq; [apply rg_type_complete| |].
      * eapply rg_complete_ext; [intros l H; exact H| |apply rg_directives_complete]. intros r H. exact (proj2 H).
      * apply (rg_follow_intro _ (rg_is TkAt)); [apply rg_directives_first0| |rg_follow].
        intros r H. exact (proj1 H).
    + apply (rg_follow_intro1 _ (rg_is TkColon)); [apply rg_first_seq, rg_first_tok|]. rg_follow.
  - apply (rg_follow_intro1 _ (rg_is TkName)); [apply rg_first_seq, rg_first_tok|]. rg_follow.
Qed.
Lemma rg_fielddef_first : rg_first RgFieldDefinition rg_is_name_or_string.
Proof. apply rg_desc_name_first. Qed.
Lemma rg_fielddef_noout : rg_noout rg_fielddef.
Proof.
  apply rg_noout_seq; [apply rg_desc_opt_noout|]. apply rg_noout_seq; [apply rg_noout_sat|].
  apply rg_noout_seq; [apply rg_noout_opt, rg_argsdef_noout|]. apply rg_noout_seq; [apply rg_noout_sat|].
  apply rg_noout_seq; [apply rg_type_noout|apply rg_directives_noout].
Qed.

Lemma rg_fieldsdef_sound : rg_sound rg_fieldsdef RgFieldsDefinition.
Proof. apply rg_bracketed_sound, rg_fielddef_sound. Qed.
Lemma rg_fieldsdef_complete F : rg_complete rg_fieldsdef RgFieldsDefinition F.
Proof.
  apply (rg_bracketed_complete _ _ _ _ rg_follow_fielddef); [apply rg_fielddef_complete|apply rg_fielddef_first| |];
    unfold rg_follow_fielddef, rg_follow_dirs; rg_follow.
Qed.
Lemma rg_fieldsdef_first : rg_first RgFieldsDefinition (rg_is TkLCurly).
Proof. apply rg_bracketed_first. Qed.
Lemma rg_fieldsdef_noout : rg_noout rg_fieldsdef.
Proof. eapply rg_bracketed_noout; [apply rg_fielddef_sound|apply rg_fielddef_first|apply rg_fielddef_noout]. Qed.

(* ---- EnumValueDefinition, EnumValuesDefinition ---- *)
Lemma rg_enumvaldef_sound : rg_sound rg_enumvaldef RgEnumValueDefinition.
Proof.
  apply rg_sound_seq; [apply rg_desc_opt_sound|]. apply rg_sound_seq; [apply rg_sound_sat|apply rg_directives_sound].
Qed.
Lemma rg_enumvaldef_complete : rg_complete rg_enumvaldef RgEnumValueDefinition rg_follow_dirs.
Proof.
  eapply rg_complete_seq; [apply rg_desc_opt_complete| |].
  - apply (rg_complete_seq _ _ _ _ rg_true); [apply rg_complete_sat|apply rg_directives_complete|easy].
  - apply (rg_follow_intro1 _ (rg_is TkName)).
    + apply rg_first_seq. eapply rg_first_weaken; [|apply rg_first_tok]. intros t. unfold rg_is_name_but.
      intros H. now apply andb_true_iff in H as [H _].
    + rg_follow.
Qed.
Lemma rg_enumvaldef_first : rg_first RgEnumValueDefinition rg_is_name_or_string.
Proof.
  eapply rg_first_weaken; [|apply rg_first_seq0; [apply rg_desc_opt_first0|apply rg_first_seq, rg_first_tok]].
  intros t. unfold rg_is_name_or_string, rg_is_name_but. cbn. intros H.
  apply orb_true_iff in H as [->|H]; [apply orb_true_r|]. apply andb_true_iff in H as [-> _]. reflexivity.
Qed.
Lemma rg_enumvaldef_noout : rg_noout rg_enumvaldef.
Proof.
  apply rg_noout_seq; [apply rg_desc_opt_noout|]. apply rg_noout_seq; [apply rg_noout_sat|apply rg_directives_noout].
Qed.
Lemma rg_enumvalsdef_sound : rg_sound rg_enumvalsdef RgEnumValuesDefinition.
Proof. apply rg_bracketed_sound, rg_enumvaldef_sound. Qed.
Lemma rg_enumvalsdef_complete F : rg_complete rg_enumvalsdef RgEnumValuesDefinition F.
Proof.
  apply (rg_bracketed_complete _ _ _ _ rg_follow_dirs); [apply rg_enumvaldef_complete|apply rg_enumvaldef_first| |];
    unfold rg_follow_dirs; rg_follow.
Qed.
Lemma rg_enumvalsdef_first : rg_first RgEnumValuesDefinition (rg_is TkLCurly).
Proof. apply rg_bracketed_first. Qed.
Lemma rg_enumvalsdef_noout : rg_noout rg_enumvalsdef.
Proof. eapply rg_bracketed_noout; [apply rg_enumvaldef_sound|apply rg_enumvaldef_first|apply rg_enumvaldef_noout]. Qed.

(* ---- head (sep item)* lists: ImplementsInterfaces, UnionMemberTypes, DirectiveLocations ---- *)
Section SepList.
  Variables (ks : tkind) (fi : rg_token -> bool).
  Let p := rg_seq (rg_opt (rg_is ks) (rg_sat (rg_is ks)))
             (rg_seq (rg_sat fi) (rg_many (rg_is ks) (rg_seq (rg_sat (rg_is ks)) (rg_sat fi)))).
  Let L := LSeq (LOpt (RgPunct ks)) (LSeq (LTok fi) (LStar (LSeq (RgPunct ks) (LTok fi)))).
  Hypothesis Hdisj : forall t, fi t = true -> rg_is ks t = false.

  Lemma rg_seplist_sound : rg_sound p L.
  Proof.
    apply rg_sound_seq; [apply rg_sound_opt, rg_sound_sat|]. apply rg_sound_seq; [apply rg_sound_sat|].
    apply rg_sound_many. apply rg_sound_seq; apply rg_sound_sat.
  Qed.
  Lemma rg_seplist_complete : rg_complete p L (rg_nh (rg_is ks)).
  Proof.
    eapply rg_complete_seq; [apply rg_complete_opt; [apply (rg_complete_sat _ rg_true)|apply rg_first_tok]| |].
    - apply (rg_complete_seq _ _ _ _ rg_true); [apply rg_complete_sat| |easy].
      eapply rg_complete_ext; [intros l H; exact H| |apply (rg_complete_many _ _ _ rg_true)].
      + intros r H. split; [exact H|exact I].
      + apply (rg_complete_seq _ _ _ _ rg_true); [apply rg_complete_sat|apply rg_complete_sat|easy].
      + apply rg_first_seq, rg_first_tok.
      + easy.
    - apply (rg_follow_intro1 _ fi); [apply rg_first_seq, rg_first_tok|].
      intros [|t l] H; [contradiction|]. cbn in *. split; [exact I|now apply Hdisj].
  Qed.
  Lemma rg_seplist_first : rg_first L (fun t => rg_is ks t || fi t).
  Proof. apply rg_first_seq0; [apply rg_first0_opt, rg_first_tok|apply rg_first_seq, rg_first_tok]. Qed.
  Lemma rg_seplist_noout : rg_noout p.
  Proof.
    apply rg_noout_seq; [apply rg_noout_opt, rg_noout_sat|]. apply rg_noout_seq; [apply rg_noout_sat|].
    apply rg_noout_many_p; [apply rg_progress_seq_l; [apply rg_progress_sat|apply rg_progress_nolonger, rg_progress_sat]|].
    apply rg_noout_seq; apply rg_noout_sat.
  Qed.
End SepList.

Lemma rg_name_not k t : k <> TkName -> rg_is TkName t = true -> rg_is k t = false.
Proof. intros Hk H. apply rg_is_kind in H. destruct t as [k2 d]. cbn in H. subst k2. unfold rg_is. cbn [fst]. destruct k; try reflexivity. now contradiction Hk. Qed.
Lemma rg_is_in_name ws t : rg_is_in ws t = true -> rg_is TkName t = true.
Proof. unfold rg_is_in, rg_is. intros H. now apply andb_true_iff in H as [H _]. Qed.
Lemma rg_is_kw_name w t : rg_is_kw w t = true -> rg_is TkName t = true.
Proof. unfold rg_is_kw, rg_is. intros H. now apply andb_true_iff in H as [H _]. Qed.

Lemma rg_implements_sound : rg_sound rg_implements RgImplementsInterfaces.
Proof. apply rg_sound_seq; [apply rg_sound_sat|apply rg_seplist_sound]. Qed.
Lemma rg_implements_complete : rg_complete rg_implements RgImplementsInterfaces (rg_nh (rg_is TkAmp)).
Proof.
  apply (rg_complete_seq _ _ _ _ rg_true); [apply rg_complete_sat| |easy].
  apply rg_seplist_complete. intros t. apply rg_name_not. discriminate.
Qed.
Lemma rg_implements_first : rg_first RgImplementsInterfaces (rg_is_kw rg_s_implements).
Proof. apply rg_first_seq, rg_first_tok. Qed.
Lemma rg_implements_noout : rg_noout rg_implements.
Proof. apply rg_noout_seq; [apply rg_noout_sat|apply rg_seplist_noout]. Qed.

Lemma rg_unionmembers_sound : rg_sound rg_unionmembers RgUnionMemberTypes.
Proof. apply rg_sound_seq; [apply rg_sound_sat|apply rg_seplist_sound]. Qed.
Lemma rg_unionmembers_complete : rg_complete rg_unionmembers RgUnionMemberTypes (rg_nh (rg_is TkPipe)).
Proof.
  apply (rg_complete_seq _ _ _ _ rg_true); [apply rg_complete_sat| |easy].
  apply rg_seplist_complete. intros t. apply rg_name_not. discriminate.
Qed.
Lemma rg_unionmembers_first : rg_first RgUnionMemberTypes (rg_is TkEq).
Proof. apply rg_first_seq, rg_first_tok. Qed.
Lemma rg_unionmembers_noout : rg_noout rg_unionmembers.
Proof. apply rg_noout_seq; [apply rg_noout_sat|apply rg_seplist_noout]. Qed.

Lemma rg_dirlocs_sound : rg_sound rg_dirlocs RgDirectiveLocations.
Proof. apply rg_seplist_sound. Qed.
Lemma rg_dirlocs_complete : rg_complete rg_dirlocs RgDirectiveLocations (rg_nh (rg_is TkPipe)).
Proof.
  apply rg_seplist_complete. intros t H. apply rg_name_not; [discriminate|]. eapply rg_is_in_name; eauto.
Qed.
Lemma rg_dirlocs_noout : rg_noout rg_dirlocs.
Proof. apply rg_seplist_noout. Qed.

(* ---- { RootOperationTypeDefinition+ } ---- *)
Lemma rg_rootop_sound : rg_sound rg_rootop RgRootOperationTypeDefinition.
Proof. apply rg_sound_seq; [apply rg_sound_sat|]. apply rg_sound_seq; apply rg_sound_sat. Qed.
Lemma rg_rootop_complete F : rg_complete rg_rootop RgRootOperationTypeDefinition F.
Proof.
  apply (rg_complete_seq _ _ _ _ rg_true); [apply rg_complete_sat| |easy].
  apply (rg_complete_seq _ _ _ _ rg_true); [apply rg_complete_sat|apply rg_complete_sat|easy].
Qed.
Lemma rg_rootop_first : rg_first RgRootOperationTypeDefinition (rg_is TkName).
Proof.
  apply rg_first_seq. eapply rg_first_weaken; [|apply rg_first_tok]. intros t. apply rg_is_in_name.
Qed.
Lemma rg_rootop_noout : rg_noout rg_rootop.
Proof. apply rg_noout_seq; [apply rg_noout_sat|]. apply rg_noout_seq; apply rg_noout_sat. Qed.

Lemma rg_rootops_sound : rg_sound rg_rootops RgRootOperationTypes.
Proof.
  apply rg_sound_seq; [apply rg_sound_sat|]. apply rg_sound_seq; [|apply rg_sound_sat].
  apply rg_sound_plus, rg_rootop_sound.
Qed.
Lemma rg_rootops_complete F : rg_complete rg_rootops RgRootOperationTypes F.
Proof.
  apply (rg_complete_seq _ _ _ _ rg_true); [apply rg_complete_sat| |easy].
  eapply rg_complete_seq; [|apply rg_complete_sat|].
  - apply (rg_complete_plus _ _ _ rg_true); [apply rg_rootop_complete|apply rg_rootop_first|easy].
  - apply (rg_follow_intro1 _ (rg_is TkRCurly)); [apply rg_first_tok|]. rg_follow.
Qed.
Lemma rg_rootops_first : rg_first RgRootOperationTypes (rg_is TkLCurly).
Proof. apply rg_first_seq, rg_first_tok. Qed.
Lemma rg_rootops_noout : rg_noout rg_rootops.
Proof.
  apply rg_noout_seq; [apply rg_noout_sat|]. apply rg_noout_seq; [|apply rg_noout_sat].
  eapply rg_noout_plus; [apply rg_rootop_sound|apply rg_rootop_first|apply rg_rootop_noout].
Qed.

(* ================= the part of a definition after its name ================= *)
Lemma rg_seq_then (p q : rg_p) (P : rg_lang) F a tl :
  rg_complete p P F -> P a -> F tl -> rg_seq p q (a ++ tl) = q tl.
Proof. intros Hc Ha Hf. unfold rg_seq. now rewrite (Hc a tl Ha Hf). Qed.
Lemma rg_seq_assoc (a b c : rg_p) ts : rg_seq (rg_seq a b) c ts = rg_seq a (rg_seq b c) ts.
Proof. unfold rg_seq, rg_bind. destruct (a ts); reflexivity. Qed.

(* Directives[Const]? body?  where body starts with a token satisfying s *)
Section DirsBody.
  Variables (s : rg_token -> bool) (p : rg_p) (P : rg_lang).
  Hypothesis Hs : rg_sound p P.
  Hypothesis Hf : rg_first P s.
  Hypothesis Hsd : forall t, s t = true -> rg_is TkAt t = false /\ rg_is TkLParen t = false.
  Let tail := rg_seq (rg_directives true) (rg_opt s p).

  Lemma rg_dirs_body_sound2 ts r : tail ts = RgOk r ->
    exists dirs body, ts = dirs ++ body ++ r /\ RgDirectivesOpt true dirs /\ LOpt P body /\
                      rg_nh (rg_is TkAt) (body ++ r) /\ (body = [] -> rg_nh s r).
  Proof.
    unfold tail, rg_seq, rg_bind. destruct (rg_directives true ts) as [r1| |] eqn:E1; try discriminate.
    intros E2. destruct (rg_directives_sound2 _ _ _ E1) as (dirs & -> & Hd & Hn).
    destruct (rg_opt_sound2 _ _ _ _ _ Hs Hf E2) as (body & -> & Hb & Hstop).
    exists dirs, body. repeat split; auto.
  Qed.
  (* with the body: any rest *)
  Lemma rg_dirs_body_c1 F dirs body r :
    rg_complete p P F -> RgDirectivesOpt true dirs -> P body -> F r -> tail (dirs ++ body ++ r) = RgOk r.
  Proof.
    intros Hc Hd Hb HF. unfold tail. pose proof (rg_starts_app _ _ r (Hf _ Hb)) as Hst.
    rewrite (rg_seq_then _ _ _ _ _ _ (rg_directives_complete true) Hd).
    - rewrite rg_opt_go; [|exact Hst]. now apply Hc.
    - destruct (body ++ r) as [|t l]; [contradiction|]. cbn in Hst. destruct (Hsd _ Hst). split; cbn; auto.
  Qed.
  (* without the body: the rest must not look like more directives or like the body *)
  Lemma rg_dirs_body_c0 dirs r :
    RgDirectivesOpt true dirs -> rg_follow_dirs r -> rg_nh s r -> tail (dirs ++ r) = RgOk r.
  Proof.
    intros Hd Hfd Hn. unfold tail. rewrite (rg_seq_then _ _ _ _ _ _ (rg_directives_complete true) Hd Hfd).
    now apply rg_opt_stop.
  Qed.
  Lemma rg_dirs_body_noout : rg_noout p -> rg_noout tail.
  Proof. intros Ho. apply rg_noout_seq; [apply rg_directives_noout|now apply rg_noout_opt]. Qed.
End DirsBody.

Ltac rg_sd := let t := fresh "t" in intros t; rg_kinds.

(* ---- schema ---- *)
Lemma rg_schema_tail_sound : rg_sound rg_schema_tail (LSeq (RgDirectivesOpt true) RgRootOperationTypes).
Proof. apply rg_sound_seq; [apply rg_directives_sound|apply rg_rootops_sound]. Qed.
Lemma rg_schema_tail_complete F : rg_complete rg_schema_tail (LSeq (RgDirectivesOpt true) RgRootOperationTypes) F.
Proof.
  eapply rg_complete_seq; [apply rg_directives_complete|apply rg_rootops_complete|].
  apply (rg_follow_intro1 _ (rg_is TkLCurly)); [apply rg_rootops_first|]. unfold rg_follow_dirs. rg_follow.
Qed.
Lemma rg_schema_tail_noout : rg_noout rg_schema_tail.
Proof. apply rg_noout_seq; [apply rg_directives_noout|apply rg_rootops_noout]. Qed.

(* ---- object / interface : ImplementsInterfaces? Directives[Const]? FieldsDefinition? ---- *)
Definition rg_impl_dirs : rg_p := rg_seq (rg_opt (rg_is_kw rg_s_implements) rg_implements) (rg_directives true).
Definition rg_follow_impl_dirs (r : list rg_token) : Prop :=
  rg_nh (rg_is_kw rg_s_implements) r /\ rg_nh (rg_is TkAmp) r /\ rg_follow_dirs r.

Lemma rg_object_tail_eq ts : rg_object_tail ts = rg_seq rg_impl_dirs (rg_opt (rg_is TkLCurly) rg_fieldsdef) ts.
Proof. unfold rg_object_tail, rg_impl_dirs. now rewrite rg_seq_assoc. Qed.

Lemma rg_impl_dirs_complete : rg_complete rg_impl_dirs RgImplDirs rg_follow_impl_dirs.
Proof.
  eapply rg_complete_seq; [apply rg_complete_opt; [apply rg_implements_complete|apply rg_implements_first]| |].
  - eapply rg_complete_ext; [intros l H; exact H| |apply rg_directives_complete]. intros r H. exact (proj2 (proj2 H)).
  - apply (rg_follow_intro _ (rg_is TkAt)); [apply rg_directives_first0| |rg_follow].
    intros r (H1 & H2 & _). split; assumption.
Qed.

Lemma rg_object_tail_sound2 ts r : rg_object_tail ts = RgOk r ->
  exists impl dirs fields, ts = impl ++ dirs ++ fields ++ r /\
    LOpt RgImplementsInterfaces impl /\ RgDirectivesOpt true dirs /\ LOpt RgFieldsDefinition fields /\
    (impl = [] -> rg_nh (rg_is_kw rg_s_implements) (dirs ++ fields ++ r)) /\
    rg_nh (rg_is TkAt) (fields ++ r) /\ (fields = [] -> rg_nh (rg_is TkLCurly) r).
Proof.
  unfold rg_object_tail. unfold rg_seq at 1, rg_bind at 1.
  destruct (rg_opt (rg_is_kw rg_s_implements) rg_implements ts) as [r1| |] eqn:E1; try discriminate.
  intros E2. destruct (rg_opt_sound2 _ _ _ _ _ rg_implements_sound rg_implements_first E1) as (impl & -> & Hi & Hstop).
  destruct (rg_dirs_body_sound2 _ _ _ rg_fieldsdef_sound rg_fieldsdef_first _ _ E2) as (dirs & fields & -> & Hd & Hfl & Hn & Hstop2).
  exists impl, dirs, fields. repeat split; auto.
Qed.
Lemma rg_object_tail_c1 idirs fields r :
  RgImplDirs idirs -> RgFieldsDefinition fields -> rg_object_tail (idirs ++ fields ++ r) = RgOk r.
Proof.
  intros Hi Hfl. rewrite rg_object_tail_eq. pose proof (rg_starts_app _ _ r (rg_fieldsdef_first _ Hfl)) as Hst.
  rewrite (rg_seq_then _ _ _ _ _ _ rg_impl_dirs_complete Hi).
  - rewrite rg_opt_go; [|exact Hst]. exact (rg_fieldsdef_complete rg_true fields r Hfl I).
  - revert Hst. generalize (fields ++ r). unfold rg_follow_impl_dirs, rg_follow_dirs. rg_follow.
Qed.
Lemma rg_object_tail_c0 idirs r :
  RgImplDirs idirs -> rg_follow_impl_dirs r -> rg_nh (rg_is TkLCurly) r -> rg_object_tail (idirs ++ r) = RgOk r.
Proof.
  intros Hi Hf Hn. rewrite rg_object_tail_eq. rewrite (rg_seq_then _ _ _ _ _ _ rg_impl_dirs_complete Hi Hf).
  now apply rg_opt_stop.
Qed.
Lemma rg_object_tail_noout : rg_noout rg_object_tail.
Proof.
  apply rg_noout_seq; [apply rg_noout_opt, rg_implements_noout|].
  apply rg_noout_seq; [apply rg_directives_noout|apply rg_noout_opt, rg_fieldsdef_noout].
Qed.

(* ---- directive definition tail ---- *)
Lemma rg_dirdef_tail_sound : rg_sound rg_dirdef_tail RgDirectiveDefTail.
Proof.
  apply rg_sound_seq; [apply rg_sound_opt, rg_argsdef_sound|].
  apply rg_sound_seq; [apply rg_sound_opt, rg_sound_sat|]. apply rg_sound_seq; [apply rg_sound_sat|apply rg_dirlocs_sound].
Qed.
Lemma rg_on_not_repeatable t : rg_is_kw rg_s_on t = true -> rg_is_kw rg_s_repeatable t = false.
Proof.
  destruct t as [k w]. unfold rg_is_kw. cbn [fst snd]. intros H. apply andb_true_iff in H as [-> H].
  apply rg_streq_eq in H. subst w. reflexivity.
Qed.
Lemma rg_dirdef_tail_complete : rg_complete rg_dirdef_tail RgDirectiveDefTail (rg_nh (rg_is TkPipe)).
Proof.
  eapply rg_complete_seq; [apply rg_complete_opt; [apply (rg_argsdef_complete rg_true)|apply rg_argsdef_first]| |].
  - eapply rg_complete_seq; [apply rg_complete_opt; [apply (rg_complete_sat _ rg_true)|apply rg_first_tok]| |].
    + apply (rg_complete_seq _ _ _ _ rg_true); [apply rg_complete_sat|apply rg_dirlocs_complete|easy].
    + apply (rg_follow_intro1 _ (rg_is_kw rg_s_on)); [apply rg_first_seq, rg_first_tok|].
      intros [|t l] H; [contradiction|]. cbn in *. split; [exact I|now apply rg_on_not_repeatable].
  - apply (rg_follow_intro1 _ (rg_is TkName)).
    + eapply rg_first_weaken; [|apply rg_first_seq0; [apply rg_first0_opt, rg_first_tok|apply rg_first_seq, rg_first_tok]].
      intros t H. cbn in H. apply orb_true_iff in H as [H|H]; eapply rg_is_kw_name; eauto.
    + rg_follow.
Qed.
Lemma rg_dirdef_tail_noout : rg_noout rg_dirdef_tail.
Proof.
  apply rg_noout_seq; [apply rg_noout_opt, rg_argsdef_noout|].
  apply rg_noout_seq; [apply rg_noout_opt, rg_noout_sat|]. apply rg_noout_seq; [apply rg_noout_sat|apply rg_dirlocs_noout].
Qed.

(* ================= TypeSystemDefinition / TypeSystemExtension: the keyword dispatch ================= *)
Lemma rg_kw_eq w t : rg_is_kw w t = true -> t = (TkName, w).
Proof.
  destruct t as [k d]. unfold rg_is_kw. cbn [fst snd]. intros H. apply andb_true_iff in H as [Hk Hw].
  apply tkind_eqb_eq in Hk. apply rg_streq_eq in Hw. congruence.
Qed.

Lemma rg_def_kw_schema r : rg_ts_def_kw ((TkName, rg_s_schema) :: r) = rg_ret (RgkSchemaDef, None) rg_schema_tail r.
Proof. reflexivity. Qed.
Lemma rg_def_kw_scalar r : rg_ts_def_kw ((TkName, rg_s_scalar) :: r) = rg_named RgkScalarDef rg_scalar_tail r.
Proof. reflexivity. Qed.
Lemma rg_def_kw_type r : rg_ts_def_kw ((TkName, rg_s_type) :: r) = rg_named RgkObjectDef rg_object_tail r.
Proof. reflexivity. Qed.
Lemma rg_def_kw_interface r : rg_ts_def_kw ((TkName, rg_s_interface) :: r) = rg_named RgkInterfaceDef rg_object_tail r.
Proof. reflexivity. Qed.
Lemma rg_def_kw_union r : rg_ts_def_kw ((TkName, rg_s_union) :: r) = rg_named RgkUnionDef rg_union_tail r.
Proof. reflexivity. Qed.
Lemma rg_def_kw_enum r : rg_ts_def_kw ((TkName, rg_s_enum) :: r) = rg_named RgkEnumDef rg_enum_tail r.
Proof. reflexivity. Qed.
Lemma rg_def_kw_input r : rg_ts_def_kw ((TkName, rg_s_input) :: r) = rg_named RgkInputDef rg_input_tail r.
Proof. reflexivity. Qed.
Lemma rg_def_kw_directive r :
  rg_ts_def_kw ((TkName, rg_s_directive) :: r) =
  match r with (TkAt, _) :: r' => rg_named RgkDirectiveDef rg_dirdef_tail r' | _ => RgNo end.
Proof. reflexivity. Qed.

Definition rg_ts_keywords : list str :=
  [rg_s_schema; rg_s_scalar; rg_s_type; rg_s_interface; rg_s_union; rg_s_enum; rg_s_input; rg_s_directive].

(* a Name that is none of the type-system definition keywords starts no type-system definition *)
Lemma rg_def_kw_other w r : rg_is_in rg_ts_keywords (TkName, w) = false -> rg_ts_def_kw ((TkName, w) :: r) = RgNo.
Proof.
  unfold rg_is_in, rg_ts_keywords. cbn [fst snd tkind_eqb andb existsb]. intros H.
  repeat (apply orb_false_iff in H as [?E H]). unfold rg_ts_def_kw.
  now rewrite E, E0, E1, E2, E3, E4, E5, E6.
Qed.

(* Description? then the keyword: the document-level dispatch reaches rg_ts_def_kw *)
Lemma rg_definition_ts desc w rest :
  RgDescriptionOpt desc -> In w rg_ts_keywords ->
  rg_definition (desc ++ (TkName, w) :: rest) = rg_ts_def_kw ((TkName, w) :: rest).
Proof.
  intros [->|(t & -> & Ht)] Hin.
  - cbn [app]. unfold rg_definition.
    assert (E : rg_is_optype (TkName, w) || rg_streq rg_s_fragment w = false /\ rg_streq rg_s_extend w = false).
    { cbn in Hin. repeat (destruct Hin as [<-|Hin]; [split; reflexivity|]). contradiction. }
    destruct E as [-> ->]. reflexivity.
  - destruct t as [k d]. apply rg_is_kind in Ht. cbn in Ht. subst k. reflexivity.
Qed.

Lemma rg_ext_kw_schema r :
  rg_ts_ext_kw ((TkName, rg_s_schema) :: r) =
  rg_ret (RgkSchemaExt, None)
    (rg_seq (rg_peek (rg_is_at_or TkLCurly)) (rg_seq (rg_directives true) (rg_opt (rg_is TkLCurly) rg_rootops))) r.
Proof. reflexivity. Qed.
Lemma rg_ext_kw_scalar r :
  rg_ts_ext_kw ((TkName, rg_s_scalar) :: r) = rg_named RgkScalarExt (rg_seq (rg_peek (rg_is TkAt)) rg_scalar_tail) r.
Proof. reflexivity. Qed.
Lemma rg_ext_kw_type r :
  rg_ts_ext_kw ((TkName, rg_s_type) :: r) = rg_named RgkObjectExt (rg_seq (rg_peek rg_is_objext_start) rg_object_tail) r.
Proof. reflexivity. Qed.
Lemma rg_ext_kw_interface r :
  rg_ts_ext_kw ((TkName, rg_s_interface) :: r) =
  rg_named RgkInterfaceExt (rg_seq (rg_peek rg_is_objext_start) rg_object_tail) r.
Proof. reflexivity. Qed.
Lemma rg_ext_kw_union r :
  rg_ts_ext_kw ((TkName, rg_s_union) :: r) = rg_named RgkUnionExt (rg_seq (rg_peek (rg_is_at_or TkEq)) rg_union_tail) r.
Proof. reflexivity. Qed.
Lemma rg_ext_kw_enum r :
  rg_ts_ext_kw ((TkName, rg_s_enum) :: r) = rg_named RgkEnumExt (rg_seq (rg_peek (rg_is_at_or TkLCurly)) rg_enum_tail) r.
Proof. reflexivity. Qed.
Lemma rg_ext_kw_input r :
  rg_ts_ext_kw ((TkName, rg_s_input) :: r) = rg_named RgkInputExt (rg_seq (rg_peek (rg_is_at_or TkLCurly)) rg_input_tail) r.
Proof. reflexivity. Qed.
Lemma rg_definition_ext r : rg_definition ((TkName, rg_s_extend) :: r) = rg_ts_ext_kw r.
Proof. reflexivity. Qed.

Lemma rg_named_ok k (tail : rg_p) ts d r :
  rg_named k tail ts = RgOk (d, r) <-> exists w r0, ts = (TkName, w) :: r0 /\ d = (k, Some w) /\ tail r0 = RgOk r.
Proof.
  unfold rg_named. split.
  - destruct ts as [|[k0 w] r0]; [discriminate|]. destruct k0; try discriminate.
    intros E. apply rg_ret_ok in E as [-> E]. eauto.
  - intros (w & r0 & -> & -> & E). now apply rg_ret_ok.
Qed.
Lemma rg_named_noout k (tail : rg_p) ts : rg_noout tail -> rg_named k tail ts <> RgOut.
Proof.
  intros Ho. unfold rg_named. destruct ts as [|[k0 w] r0]; [discriminate|]. destruct k0; try discriminate.
  apply rg_ret_noout, Ho.
Qed.

Lemma rg_peek_ok f ts r : rg_peek f ts = RgOk r <-> r = ts /\ rg_starts f ts.
Proof.
  unfold rg_peek. destruct ts as [|t ts']; [split; [discriminate|intros [_ []]]|]. cbn [rg_starts].
  destruct (f t); split; try discriminate; try (intros [_ H]; discriminate).
  - intros [= <-]. auto.
  - intros [-> _]. reflexivity.
Qed.
Lemma rg_peek_seq f (p : rg_p) ts : rg_starts f ts -> rg_seq (rg_peek f) p ts = p ts.
Proof. intros H. unfold rg_seq. now rewrite (proj2 (rg_peek_ok f ts ts) (conj eq_refl H)). Qed.
Lemma rg_peek_seq_ok f (p : rg_p) ts r : rg_seq (rg_peek f) p ts = RgOk r -> rg_starts f ts /\ p ts = RgOk r.
Proof.
  unfold rg_seq, rg_bind. destruct (rg_peek f ts) as [r1| |] eqn:E; try discriminate.
  apply rg_peek_ok in E as [-> H]. auto.
Qed.

(* ================= completeness of the type-system definitions ================= *)
Definition rg_follow_def (r : list rg_token) : Prop := r = [] \/ rg_starts rg_def_start r.

Lemma rg_def_start_facts t : rg_def_start t = true ->
  rg_is TkAt t = false /\ rg_is TkLParen t = false /\ rg_is TkAmp t = false /\ rg_is TkEq t = false /\
  rg_is TkPipe t = false /\ rg_is_kw rg_s_implements t = false.
Proof.
  destruct t as [k w]. intros H. repeat split; try (destruct k; rg_kinds; fail).
  destruct (rg_is_kw rg_s_implements (k, w)) eqn:E; [|reflexivity].
  apply rg_kw_eq in E. injection E as -> ->. discriminate.
Qed.
Lemma rg_follow_def_facts r : rg_follow_def r ->
  rg_follow_dirs r /\ rg_follow_impl_dirs r /\ rg_nh (rg_is TkEq) r /\ rg_nh (rg_is TkPipe) r.
Proof.
  unfold rg_follow_dirs, rg_follow_impl_dirs, rg_follow_dirs. intros [->|H]; [cbn; tauto|].
  destruct r as [|t r']; [contradiction|]. cbn in H. apply rg_def_start_facts in H. cbn [rg_nh]. tauto.
Qed.

Definition rg_dirs_then_curly (p : rg_p) : rg_p := rg_seq (rg_directives true) (rg_opt (rg_is TkLCurly) p).

Lemma rg_sd_curly t : rg_is TkLCurly t = true -> rg_is TkAt t = false /\ rg_is TkLParen t = false.
Proof. rg_kinds. Qed.
Lemma rg_sd_eq t : rg_is TkEq t = true -> rg_is TkAt t = false /\ rg_is TkLParen t = false.
Proof. rg_kinds. Qed.

Lemma rg_dirs_plus_starts dirs l : RgDirectivesConst dirs -> rg_starts (rg_is TkAt) (dirs ++ l).
Proof. intros H. apply rg_starts_app. exact (rg_plus_first _ _ (rg_directive_first true) _ H). Qed.
Lemma rg_starts_weaken f g l : (forall t, f t = true -> g t = true) -> rg_starts f l -> rg_starts g l.
Proof. destruct l; cbn; auto. Qed.

Lemma rg_starts2 (f g h : rg_token -> bool) a b :
  a = [] \/ rg_starts f a -> rg_starts g b ->
  (forall t, f t = true -> h t = true) -> (forall t, g t = true -> h t = true) -> rg_starts h (a ++ b).
Proof.
  intros [->|Ha] Hb Hf Hg.
  - cbn [app]. exact (rg_starts_weaken _ _ _ Hg Hb).
  - apply rg_starts_app. exact (rg_starts_weaken _ _ _ Hf Ha).
Qed.
Lemma rg_impl_dirs_first0 : rg_first0 RgImplDirs (fun t => rg_is_kw rg_s_implements t || rg_is TkAt t).
Proof. apply rg_first0_seq; [apply rg_first0_opt, rg_implements_first|apply rg_directives_first0]. Qed.
Lemma rg_impl_dirs_of impl dirs : LOpt RgImplementsInterfaces impl -> RgDirectivesOpt true dirs -> RgImplDirs (impl ++ dirs).
Proof. intros Hi Hd. exists impl, dirs. auto. Qed.
Lemma rg_objext_a t : rg_is_kw rg_s_implements t || rg_is TkAt t = true -> rg_is_objext_start t = true.
Proof. unfold rg_is_objext_start. intros H. apply orb_true_iff in H as [-> | ->]; [reflexivity|]. now rewrite orb_true_r. Qed.
Lemma rg_objext_b t : rg_is TkLCurly t = true -> rg_is_objext_start t = true.
Proof. unfold rg_is_objext_start. intros ->. now rewrite !orb_true_r. Qed.
Lemma rg_at_or_a k t : rg_is TkAt t = true -> rg_is_at_or k t = true.
Proof. unfold rg_is_at_or. now intros ->. Qed.
Lemma rg_at_or_b k t : rg_is k t = true -> rg_is_at_or k t = true.
Proof. unfold rg_is_at_or. intros ->. apply orb_true_r. Qed.

Lemma rg_ts_definition_complete o pre d : RgTsDefinition o pre d ->
  forall r, rg_follow_def r -> (o = true -> rg_nh (rg_is TkLCurly) r) -> rg_definition (pre ++ r) = RgOk (d, r).
Proof.
  intros H r Hfd Ho. destruct (rg_follow_def_facts _ Hfd) as (Fd & Fid & Feq & Fpipe).
  destruct H; try (apply rg_kw_eq in H; subst ext); try (apply rg_kw_eq in H0; subst kw);
    rewrite <- ?app_assoc; cbn [app]; rewrite <- ?app_assoc;
    try (rewrite rg_definition_ts; [|assumption|cbn; tauto]); try rewrite rg_definition_ext.
  - (* schema *) rewrite rg_def_kw_schema. apply rg_ret_complete.
    rewrite app_assoc. apply (rg_schema_tail_complete rg_true (dirs ++ ops) r); [|exact I]. exists dirs, ops. auto.
  - (* scalar *) rewrite rg_def_kw_scalar. apply rg_named_ok. exists w, (dirs ++ r). repeat split.
    now apply rg_directives_complete.
  - (* type, open *) rewrite rg_def_kw_type. apply rg_named_ok. exists w, (idirs ++ r). repeat split.
    apply rg_object_tail_c0; auto.
  - rewrite rg_def_kw_type. apply rg_named_ok. exists w, (idirs ++ fields ++ r). repeat split.
    now apply rg_object_tail_c1.
  - rewrite rg_def_kw_interface. apply rg_named_ok. exists w, (idirs ++ r). repeat split.
    apply rg_object_tail_c0; auto.
  - rewrite rg_def_kw_interface. apply rg_named_ok. exists w, (idirs ++ fields ++ r). repeat split.
    now apply rg_object_tail_c1.
  - (* union *) rewrite rg_def_kw_union. apply rg_named_ok. exists w, (dirs ++ members ++ r). repeat split.
    destruct H2 as [->|Hm].
    + apply rg_dirs_body_c0; auto.
    + eapply rg_dirs_body_c1; [apply rg_unionmembers_first|apply rg_sd_eq|apply rg_unionmembers_complete|auto..].
  - (* enum, open *) rewrite rg_def_kw_enum. apply rg_named_ok. exists w, (dirs ++ r). repeat split.
    apply rg_dirs_body_c0; auto.
  - rewrite rg_def_kw_enum. apply rg_named_ok. exists w, (dirs ++ vals ++ r). repeat split.
    eapply rg_dirs_body_c1; [apply rg_enumvalsdef_first|apply rg_sd_curly|apply (rg_enumvalsdef_complete rg_true)|auto..].
    exact I.
  - (* input, open *) rewrite rg_def_kw_input. apply rg_named_ok. exists w, (dirs ++ r). repeat split.
    apply rg_dirs_body_c0; auto.
  - rewrite rg_def_kw_input. apply rg_named_ok. exists w, (dirs ++ fields ++ r). repeat split.
    eapply rg_dirs_body_c1; [apply rg_inputfieldsdef_first|apply rg_sd_curly|apply (rg_inputfieldsdef_complete rg_true)|auto..].
    exact I.
  - (* directive *) rewrite rg_def_kw_directive. destruct att as [k dd]. apply rg_is_kind in H1. cbn in H1. subst k.
    apply rg_named_ok. exists w, (tail ++ r). repeat split. now apply rg_dirdef_tail_complete.
  - (* extend schema ... { } *) rewrite rg_ext_kw_schema. apply rg_ret_complete.
    rewrite rg_peek_seq.
    + eapply rg_dirs_body_c1; [apply rg_rootops_first|apply rg_sd_curly|apply (rg_rootops_complete rg_true)|auto..].
      exact I.
    + destruct (rg_directives_first0 _ _ H1) as [->|Hs].
      * cbn [app]. apply rg_starts_app. eapply rg_starts_weaken; [|apply (rg_rootops_first _ H2)].
        intros t Ht. unfold rg_is_at_or. rewrite Ht. apply orb_true_r.
      * apply rg_starts_app. eapply rg_starts_weaken; [|exact Hs]. intros t Ht. unfold rg_is_at_or. now rewrite Ht.
  - (* extend schema Directives *) rewrite rg_ext_kw_schema. apply rg_ret_complete.
    rewrite rg_peek_seq.
    + apply rg_dirs_body_c0; auto. now apply rg_plus_star.
    + eapply rg_starts_weaken; [|apply (rg_dirs_plus_starts _ r H1)]. intros t Ht. unfold rg_is_at_or. now rewrite Ht.
  - (* extend scalar *) rewrite rg_ext_kw_scalar. apply rg_named_ok. exists w, (dirs ++ r). repeat split.
    rewrite rg_peek_seq; [|now apply rg_dirs_plus_starts]. apply rg_directives_complete; auto. now apply rg_plus_star.
  - (* extend type ... fields *) rewrite rg_ext_kw_type. apply rg_named_ok. exists w, (idirs ++ fields ++ r). repeat split.
    rewrite rg_peek_seq; [now apply rg_object_tail_c1|].
    eapply rg_starts2; [apply (rg_impl_dirs_first0 _ H1)|apply rg_starts_app, (rg_fieldsdef_first _ H2)|apply rg_objext_a|apply rg_objext_b].
  - (* extend type impl? dirs+ *) rewrite rg_ext_kw_type. apply rg_named_ok. exists w, (impl ++ dirs ++ r). repeat split.
    rewrite rg_peek_seq.
    + rewrite app_assoc. apply rg_object_tail_c0; auto. apply rg_impl_dirs_of; auto. now apply rg_plus_star.
    + eapply rg_starts2; [destruct H1 as [->|Hi]; [now left|right; apply (rg_implements_first _ Hi)]
                         |apply (rg_dirs_plus_starts _ r H2)| |]; intros t Ht; apply rg_objext_a; rewrite Ht; auto using orb_true_r.
  - (* extend type impl *) rewrite rg_ext_kw_type. apply rg_named_ok. exists w, (impl ++ r). repeat split.
    rewrite rg_peek_seq.
    + apply rg_object_tail_c0; auto. rewrite <- (app_nil_r impl). apply rg_impl_dirs_of; [now right|constructor].
    + apply rg_starts_app. eapply rg_starts_weaken; [|apply (rg_implements_first _ H1)].
      intros t Ht. apply rg_objext_a. now rewrite Ht.
  - rewrite rg_ext_kw_interface. apply rg_named_ok. exists w, (idirs ++ fields ++ r). repeat split.
    rewrite rg_peek_seq; [now apply rg_object_tail_c1|].
    eapply rg_starts2; [apply (rg_impl_dirs_first0 _ H1)|apply rg_starts_app, (rg_fieldsdef_first _ H2)|apply rg_objext_a|apply rg_objext_b].
  - rewrite rg_ext_kw_interface. apply rg_named_ok. exists w, (impl ++ dirs ++ r). repeat split.
    rewrite rg_peek_seq.
    + rewrite app_assoc. apply rg_object_tail_c0; auto. apply rg_impl_dirs_of; auto. now apply rg_plus_star.
    + eapply rg_starts2; [destruct H1 as [->|Hi]; [now left|right; apply (rg_implements_first _ Hi)]
                         |apply (rg_dirs_plus_starts _ r H2)| |]; intros t Ht; apply rg_objext_a; rewrite Ht; auto using orb_true_r.
  - rewrite rg_ext_kw_interface. apply rg_named_ok. exists w, (impl ++ r). repeat split.
    rewrite rg_peek_seq.
    + apply rg_object_tail_c0; auto. rewrite <- (app_nil_r impl). apply rg_impl_dirs_of; [now right|constructor].
    + apply rg_starts_app. eapply rg_starts_weaken; [|apply (rg_implements_first _ H1)].
      intros t Ht. apply rg_objext_a. now rewrite Ht.
  - (* extend union ... members *) rewrite rg_ext_kw_union. apply rg_named_ok. exists w, (dirs ++ members ++ r). repeat split.
    rewrite rg_peek_seq.
    + eapply rg_dirs_body_c1; [apply rg_unionmembers_first|apply rg_sd_eq|apply rg_unionmembers_complete|auto..].
    + eapply rg_starts2; [apply (rg_directives_first0 _ _ H1)|apply rg_starts_app, (rg_unionmembers_first _ H2)
                         |apply rg_at_or_a|apply rg_at_or_b].
  - (* extend union dirs+ *) rewrite rg_ext_kw_union. apply rg_named_ok. exists w, (dirs ++ r). repeat split.
    rewrite rg_peek_seq.
    + apply rg_dirs_body_c0; auto. now apply rg_plus_star.
    + eapply rg_starts_weaken; [apply rg_at_or_a|apply (rg_dirs_plus_starts _ r H1)].
  - (* extend enum ... values *) rewrite rg_ext_kw_enum. apply rg_named_ok. exists w, (dirs ++ vals ++ r). repeat split.
    rewrite rg_peek_seq.
    + eapply rg_dirs_body_c1; [apply rg_enumvalsdef_first|apply rg_sd_curly|apply (rg_enumvalsdef_complete rg_true)|auto..].
      exact I.
    + eapply rg_starts2; [apply (rg_directives_first0 _ _ H1)|apply rg_starts_app, (rg_enumvalsdef_first _ H2)
                         |apply rg_at_or_a|apply rg_at_or_b].
  - rewrite rg_ext_kw_enum. apply rg_named_ok. exists w, (dirs ++ r). repeat split.
    rewrite rg_peek_seq.
    + apply rg_dirs_body_c0; auto. now apply rg_plus_star.
    + eapply rg_starts_weaken; [apply rg_at_or_a|apply (rg_dirs_plus_starts _ r H1)].
  - rewrite rg_ext_kw_input. apply rg_named_ok. exists w, (dirs ++ fields ++ r). repeat split.
    rewrite rg_peek_seq.
    + eapply rg_dirs_body_c1; [apply rg_inputfieldsdef_first|apply rg_sd_curly|apply (rg_inputfieldsdef_complete rg_true)|auto..].
      exact I.
    + eapply rg_starts2; [apply (rg_directives_first0 _ _ H1)|apply rg_starts_app, (rg_inputfieldsdef_first _ H2)
                         |apply rg_at_or_a|apply rg_at_or_b].
  - rewrite rg_ext_kw_input. apply rg_named_ok. exists w, (dirs ++ r). repeat split.
    rewrite rg_peek_seq.
    + apply rg_dirs_body_c0; auto. now apply rg_plus_star.
    + eapply rg_starts_weaken; [apply rg_at_or_a|apply (rg_dirs_plus_starts _ r H1)].
Qed.

(* ================= soundness of the type-system definitions ================= *)
Lemma rg_kw_refl w : rg_is_kw w (TkName, w) = true.
Proof. unfold rg_is_kw. cbn. now apply rg_streq_eq. Qed.

Lemma rg_starts_nh_false f l : rg_starts f l -> rg_nh f l -> False.
Proof. destruct l; cbn; [tauto|congruence]. Qed.
Lemma rg_objext_contra l :
  rg_starts rg_is_objext_start l -> rg_nh (rg_is_kw rg_s_implements) l -> rg_nh (rg_is TkAt) l ->
  rg_nh (rg_is TkLCurly) l -> False.
Proof.
  destruct l as [|t l]; cbn [rg_starts rg_nh]; [tauto|]. unfold rg_is_objext_start. intros H H1 H2 H3. rewrite H1, H2, H3 in H. discriminate.
Qed.
Lemma rg_at_or_contra k l :
  rg_starts (rg_is_at_or k) l -> rg_nh (rg_is TkAt) l -> rg_nh (rg_is k) l -> False.
Proof. destruct l as [|t l]; cbn [rg_starts rg_nh]; [tauto|]. unfold rg_is_at_or. intros H H1 H2. rewrite H1, H2 in H. discriminate. Qed.

(* Directives? body? after a peek that something is there: three outcomes *)
Lemma rg_ext_dirs_body_cases (s : rg_token -> bool) (p : rg_p) (P : rg_lang) k ts r :
  rg_sound p P -> rg_first P s -> (forall t, s t = rg_is k t) ->
  rg_seq (rg_peek (rg_is_at_or k)) (rg_seq (rg_directives true) (rg_opt s p)) ts = RgOk r ->
  (exists dirs body, ts = dirs ++ body ++ r /\ RgDirectivesOpt true dirs /\ P body) \/
  (exists dirs, ts = dirs ++ r /\ RgDirectivesConst dirs /\ rg_nh s r).
Proof.
  intros Hs Hf Hk E. apply rg_peek_seq_ok in E as [Hst E].
  destruct (rg_dirs_body_sound2 _ _ _ Hs Hf _ _ E) as (dirs & body & -> & Hd & Hb & Hn & Hstop).
  destruct Hb as [->|Hb]; [|left; eauto].
  right. specialize (Hstop eq_refl). cbn [app] in *. destruct (rg_star_plus _ _ Hd) as [->|Hp].
  - exfalso. cbn [app] in Hst. apply (rg_at_or_contra k r Hst Hn).
    destruct r as [|t r']; cbn in *; [exact I|]. now rewrite <- Hk.
  - exists dirs. auto.
Qed.

Lemma rg_ts_def_kw_sound ts d r : rg_ts_def_kw ts = RgOk (d, r) ->
  exists o body, ts = body ++ r /\
    (forall desc, RgDescriptionOpt desc -> RgTsDefinition o (desc ++ body) d) /\
    (o = true -> rg_nh (rg_is TkLCurly) r).
Proof.
  destruct ts as [|[k w] r0]; [discriminate|]. destruct k; try discriminate.
  unfold rg_ts_def_kw.
  destruct (rg_streq rg_s_schema w) eqn:E1; [apply rg_streq_eq in E1; subst w|].
  { intros E. apply rg_ret_ok in E as [-> E].
    destruct (rg_schema_tail_sound _ _ E) as (a & -> & (dirs & ops & -> & Hd & Hops)).
    exists false, ((TkName, rg_s_schema) :: dirs ++ ops). split; [cbn; now rewrite <- !app_assoc|].
    split; [|discriminate]. intros desc Hdesc. apply RgTD_schema; auto; try apply rg_kw_refl. }
  destruct (rg_streq rg_s_scalar w) eqn:E2; [apply rg_streq_eq in E2; subst w|].
  { intros E. apply rg_named_ok in E as (w2 & r1 & -> & -> & E).
    destruct (rg_directives_sound true _ _ E) as (dirs & -> & Hd).
    exists false, ((TkName, rg_s_scalar) :: (TkName, w2) :: dirs). split; [reflexivity|].
    split; [|discriminate]. intros desc Hdesc. apply RgTD_scalar; auto; try apply rg_kw_refl. }
  assert (Hobj : forall kw kind,
            (forall desc w2 idirs, RgDescriptionOpt desc -> RgImplDirs idirs ->
               RgTsDefinition true (desc ++ (TkName, kw) :: (TkName, w2) :: idirs) (kind, Some w2)) ->
            (forall desc w2 idirs fields, RgDescriptionOpt desc -> RgImplDirs idirs -> RgFieldsDefinition fields ->
               RgTsDefinition false (desc ++ (TkName, kw) :: (TkName, w2) :: idirs ++ fields) (kind, Some w2)) ->
            rg_named kind rg_object_tail r0 = RgOk (d, r) ->
            exists o body, (TkName, kw) :: r0 = body ++ r /\
              (forall desc, RgDescriptionOpt desc -> RgTsDefinition o (desc ++ body) d) /\
              (o = true -> rg_nh (rg_is TkLCurly) r)).
  { intros kw kind Hopen Hclosed E. apply rg_named_ok in E as (w2 & r1 & -> & -> & E).
    destruct (rg_object_tail_sound2 _ _ E) as (impl & dirs & fields & -> & Hi & Hd & Hfl & _ & _ & Hstop).
    destruct Hfl as [->|Hfl].
    - exists true, ((TkName, kw) :: (TkName, w2) :: impl ++ dirs). split; [cbn; now rewrite <- !app_assoc|].
      split; [|intros _; now apply Hstop]. intros desc Hdesc. apply Hopen; auto. now apply rg_impl_dirs_of.
    - exists false, ((TkName, kw) :: (TkName, w2) :: (impl ++ dirs) ++ fields).
      split; [cbn; now rewrite <- !app_assoc|]. split; [|discriminate].
      intros desc Hdesc. apply Hclosed; auto. now apply rg_impl_dirs_of. }
  destruct (rg_streq rg_s_type w) eqn:E3; [apply rg_streq_eq in E3; subst w|].
  { apply Hobj; intros; [apply RgTD_object|apply RgTD_object_fields]; auto; try apply rg_kw_refl. }
  destruct (rg_streq rg_s_interface w) eqn:E4; [apply rg_streq_eq in E4; subst w|].
  { apply Hobj; intros; [apply RgTD_interface|apply RgTD_interface_fields]; auto; try apply rg_kw_refl. }
  clear Hobj.
  destruct (rg_streq rg_s_union w) eqn:E5; [apply rg_streq_eq in E5; subst w|].
  { intros E. apply rg_named_ok in E as (w2 & r1 & -> & -> & E).
    destruct (rg_dirs_body_sound2 _ _ _ rg_unionmembers_sound rg_unionmembers_first _ _ E)
      as (dirs & body & -> & Hd & Hb & _ & _).
    exists false, ((TkName, rg_s_union) :: (TkName, w2) :: dirs ++ body). split; [cbn; now rewrite <- !app_assoc|].
    split; [|discriminate]. intros desc Hdesc. apply RgTD_union; auto; try apply rg_kw_refl. }
  assert (Hbody : forall kw kind (p : rg_p) (P : rg_lang),
            rg_sound p P -> rg_first P (rg_is TkLCurly) ->
            (forall desc w2 dirs, RgDescriptionOpt desc -> RgDirectivesOpt true dirs ->
               RgTsDefinition true (desc ++ (TkName, kw) :: (TkName, w2) :: dirs) (kind, Some w2)) ->
            (forall desc w2 dirs body, RgDescriptionOpt desc -> RgDirectivesOpt true dirs -> P body ->
               RgTsDefinition false (desc ++ (TkName, kw) :: (TkName, w2) :: dirs ++ body) (kind, Some w2)) ->
            rg_named kind (rg_seq (rg_directives true) (rg_opt (rg_is TkLCurly) p)) r0 = RgOk (d, r) ->
            exists o body, (TkName, kw) :: r0 = body ++ r /\
              (forall desc, RgDescriptionOpt desc -> RgTsDefinition o (desc ++ body) d) /\
              (o = true -> rg_nh (rg_is TkLCurly) r)).
  { intros kw kind p P Hs Hf Hopen Hclosed E. apply rg_named_ok in E as (w2 & r1 & -> & -> & E).
    destruct (rg_dirs_body_sound2 _ _ _ Hs Hf _ _ E) as (dirs & body & -> & Hd & Hb & _ & Hstop).
    destruct Hb as [->|Hb].
    - exists true, ((TkName, kw) :: (TkName, w2) :: dirs). split; [reflexivity|].
      split; [|intros _; now apply Hstop]. intros desc Hdesc. now apply Hopen.
    - exists false, ((TkName, kw) :: (TkName, w2) :: dirs ++ body). split; [cbn; now rewrite <- !app_assoc|].
      split; [|discriminate]. intros desc Hdesc. now apply Hclosed. }
  destruct (rg_streq rg_s_enum w) eqn:E6; [apply rg_streq_eq in E6; subst w|].
  { apply (Hbody _ _ _ _ rg_enumvalsdef_sound rg_enumvalsdef_first); intros;
      [apply RgTD_enum|apply RgTD_enum_values]; auto; try apply rg_kw_refl. }
  destruct (rg_streq rg_s_input w) eqn:E7; [apply rg_streq_eq in E7; subst w|].
  { apply (Hbody _ _ _ _ rg_inputfieldsdef_sound rg_inputfieldsdef_first); intros;
      [apply RgTD_input|apply RgTD_input_fields]; auto; try apply rg_kw_refl. }
  clear Hbody.
  destruct (rg_streq rg_s_directive w) eqn:E8; [apply rg_streq_eq in E8; subst w|discriminate].
  destruct r0 as [|[k2 dd] r1]; [discriminate|]. destruct k2; try discriminate.
  intros E. apply rg_named_ok in E as (w2 & r2 & -> & -> & E).
  destruct (rg_dirdef_tail_sound _ _ E) as (tail & -> & Ht).
  exists false, ((TkName, rg_s_directive) :: (TkAt, dd) :: (TkName, w2) :: tail). split; [reflexivity|].
  split; [|discriminate]. intros desc Hdesc. apply RgTD_directive; auto; try apply rg_kw_refl; try apply rg_is_refl.
Qed.

Lemma rg_ts_ext_kw_sound ts d r : rg_ts_ext_kw ts = RgOk (d, r) ->
  exists o body, ts = body ++ r /\
    (forall ext, rg_is_kw rg_s_extend ext = true -> RgTsDefinition o (ext :: body) d) /\
    (o = true -> rg_nh (rg_is TkLCurly) r).
Proof.
  destruct ts as [|[k w] r0]; [discriminate|]. destruct k; try discriminate.
  unfold rg_ts_ext_kw.
  destruct (rg_streq rg_s_schema w) eqn:E1; [apply rg_streq_eq in E1; subst w|].
  { intros E. apply rg_ret_ok in E as [-> E].
    destruct (rg_ext_dirs_body_cases _ _ _ TkLCurly _ _ rg_rootops_sound rg_rootops_first (fun t => eq_refl) E)
      as [(dirs & ops & -> & Hd & Hops)|(dirs & -> & Hd & Hn)].
    - exists false, ((TkName, rg_s_schema) :: dirs ++ ops). split; [cbn; now rewrite <- !app_assoc|].
      split; [|discriminate]. intros ext Hext. apply RgTE_schema_ops; auto; try apply rg_kw_refl.
    - exists true, ((TkName, rg_s_schema) :: dirs). split; [reflexivity|]. split; [|intros _; exact Hn].
      intros ext Hext. apply RgTE_schema_dirs; auto; try apply rg_kw_refl. }
  destruct (rg_streq rg_s_scalar w) eqn:E2; [apply rg_streq_eq in E2; subst w|].
  { intros E. apply rg_named_ok in E as (w2 & r1 & -> & -> & E). apply rg_peek_seq_ok in E as [Hst E].
    destruct (rg_directives_sound2 _ _ _ E) as (dirs & -> & Hd & Hn).
    destruct (rg_star_plus _ _ Hd) as [->|Hp]; [exfalso; exact (rg_starts_nh_false _ _ Hst Hn)|].
    exists false, ((TkName, rg_s_scalar) :: (TkName, w2) :: dirs). split; [reflexivity|]. split; [|discriminate].
    intros ext Hext. apply RgTE_scalar; auto; try apply rg_kw_refl. }
  assert (Hobj : forall kw kind,
            (forall ext w2 idirs fields, rg_is_kw rg_s_extend ext = true -> RgImplDirs idirs -> RgFieldsDefinition fields ->
               RgTsDefinition false (ext :: (TkName, kw) :: (TkName, w2) :: idirs ++ fields) (kind, Some w2)) ->
            (forall ext w2 impl dirs, rg_is_kw rg_s_extend ext = true -> LOpt RgImplementsInterfaces impl ->
               RgDirectivesConst dirs ->
               RgTsDefinition true (ext :: (TkName, kw) :: (TkName, w2) :: impl ++ dirs) (kind, Some w2)) ->
            (forall ext w2 impl, rg_is_kw rg_s_extend ext = true -> RgImplementsInterfaces impl ->
               RgTsDefinition true (ext :: (TkName, kw) :: (TkName, w2) :: impl) (kind, Some w2)) ->
            rg_named kind (rg_seq (rg_peek rg_is_objext_start) rg_object_tail) r0 = RgOk (d, r) ->
            exists o body, (TkName, kw) :: r0 = body ++ r /\
              (forall ext, rg_is_kw rg_s_extend ext = true -> RgTsDefinition o (ext :: body) d) /\
              (o = true -> rg_nh (rg_is TkLCurly) r)).
  { intros kw kind H1 H2 H3 E. apply rg_named_ok in E as (w2 & r1 & -> & -> & E).
    apply rg_peek_seq_ok in E as [Hst E].
    destruct (rg_object_tail_sound2 _ _ E) as (impl & dirs & fields & -> & Hi & Hd & Hfl & Hs1 & Hs2 & Hs3).
    destruct Hfl as [->|Hfl].
    2:{ exists false, ((TkName, kw) :: (TkName, w2) :: (impl ++ dirs) ++ fields).
        split; [cbn; now rewrite <- !app_assoc|]. split; [|discriminate].
        intros ext Hext. apply H1; auto. now apply rg_impl_dirs_of. }
    specialize (Hs3 eq_refl). cbn [app] in *.
    destruct (rg_star_plus _ _ Hd) as [->|Hp].
    2:{ exists true, ((TkName, kw) :: (TkName, w2) :: impl ++ dirs). split; [cbn; now rewrite <- !app_assoc|].
        split; [|intros _; exact Hs3]. intros ext Hext. now apply H2. }
    cbn [app] in *. destruct Hi as [->|Hi].
    - exfalso. cbn [app] in *. exact (rg_objext_contra _ Hst (Hs1 eq_refl) Hs2 Hs3).
    - exists true, ((TkName, kw) :: (TkName, w2) :: impl). split; [reflexivity|].
      split; [|intros _; exact Hs3]. intros ext Hext. now apply H3. }
  destruct (rg_streq rg_s_type w) eqn:E3; [apply rg_streq_eq in E3; subst w|].
  { apply Hobj; intros; [apply RgTE_object_fields|apply RgTE_object_dirs|apply RgTE_object_impl]; auto;
      try apply rg_kw_refl. }
  destruct (rg_streq rg_s_interface w) eqn:E4; [apply rg_streq_eq in E4; subst w|].
  { apply Hobj; intros; [apply RgTE_interface_fields|apply RgTE_interface_dirs|apply RgTE_interface_impl]; auto;
      try apply rg_kw_refl. }
  clear Hobj.
  destruct (rg_streq rg_s_union w) eqn:E5; [apply rg_streq_eq in E5; subst w|].
  { intros E. apply rg_named_ok in E as (w2 & r1 & -> & -> & E).
    destruct (rg_ext_dirs_body_cases _ _ _ TkEq _ _ rg_unionmembers_sound rg_unionmembers_first (fun t => eq_refl) E)
      as [(dirs & ms & -> & Hd & Hm)|(dirs & -> & Hd & Hn)].
    - exists false, ((TkName, rg_s_union) :: (TkName, w2) :: dirs ++ ms). split; [cbn; now rewrite <- !app_assoc|].
      split; [|discriminate]. intros ext Hext. apply RgTE_union_members; auto; try apply rg_kw_refl.
    - exists false, ((TkName, rg_s_union) :: (TkName, w2) :: dirs). split; [reflexivity|]. split; [|discriminate].
      intros ext Hext. apply RgTE_union_dirs; auto; try apply rg_kw_refl. }
  destruct (rg_streq rg_s_enum w) eqn:E6; [apply rg_streq_eq in E6; subst w|].
  { intros E. apply rg_named_ok in E as (w2 & r1 & -> & -> & E).
    destruct (rg_ext_dirs_body_cases _ _ _ TkLCurly _ _ rg_enumvalsdef_sound rg_enumvalsdef_first (fun t => eq_refl) E)
      as [(dirs & vs & -> & Hd & Hv)|(dirs & -> & Hd & Hn)].
    - exists false, ((TkName, rg_s_enum) :: (TkName, w2) :: dirs ++ vs). split; [cbn; now rewrite <- !app_assoc|].
      split; [|discriminate]. intros ext Hext. apply RgTE_enum_values; auto; try apply rg_kw_refl.
    - exists true, ((TkName, rg_s_enum) :: (TkName, w2) :: dirs). split; [reflexivity|]. split; [|intros _; exact Hn].
      intros ext Hext. apply RgTE_enum_dirs; auto; try apply rg_kw_refl. }
  destruct (rg_streq rg_s_input w) eqn:E7; [apply rg_streq_eq in E7; subst w|discriminate].
  intros E. apply rg_named_ok in E as (w2 & r1 & -> & -> & E).
  destruct (rg_ext_dirs_body_cases _ _ _ TkLCurly _ _ rg_inputfieldsdef_sound rg_inputfieldsdef_first (fun t => eq_refl) E)
    as [(dirs & fs & -> & Hd & Hf)|(dirs & -> & Hd & Hn)].
  - exists false, ((TkName, rg_s_input) :: (TkName, w2) :: dirs ++ fs). split; [cbn; now rewrite <- !app_assoc|].
    split; [|discriminate]. intros ext Hext. apply RgTE_input_fields; auto; try apply rg_kw_refl.
  - exists true, ((TkName, rg_s_input) :: (TkName, w2) :: dirs). split; [reflexivity|]. split; [|intros _; exact Hn].
    intros ext Hext. apply RgTE_input_dirs; auto; try apply rg_kw_refl.
Qed.

(* ================= Definition and Document ================= *)
Lemma rg_definition_sound ts d r : rg_definition ts = RgOk (d, r) ->
  exists o pre, ts = pre ++ r /\ RgDefinition o pre d /\ (o = true -> rg_nh (rg_is TkLCurly) r).
Proof.
  assert (Hexec : rg_exec_definition ts = RgOk (d, r) ->
            exists o pre, ts = pre ++ r /\ RgDefinition o pre d /\ (o = true -> rg_nh (rg_is TkLCurly) r)).
  { intros E. destruct (rg_exec_definition_sound _ _ _ E) as (pre & -> & H).
    exists false, pre. split; [reflexivity|]. split; [now apply RgDef_exec|discriminate]. }
  unfold rg_definition. destruct ts as [|[k w] r0]; [discriminate|]. destruct k; try discriminate.
  - exact Hexec.
  - destruct (rg_is_optype (TkName, w) || rg_streq rg_s_fragment w) eqn:Ee; [exact Hexec|]. clear Hexec.
    destruct (rg_streq rg_s_extend w) eqn:Ex.
    + apply rg_streq_eq in Ex. subst w. intros E.
      destruct (rg_ts_ext_kw_sound _ _ _ E) as (o & body & -> & Hb & Ho).
      exists o, ((TkName, rg_s_extend) :: body). split; [reflexivity|]. split; [|exact Ho].
      apply RgDef_ts, Hb, rg_kw_refl.
    + intros E. destruct (rg_ts_def_kw_sound _ _ _ E) as (o & body & Eb & Hb & Ho).
      exists o, body. split; [exact Eb|]. split; [|exact Ho]. apply RgDef_ts. apply (Hb []). now left.
  - clear Hexec. intros E. destruct (rg_ts_def_kw_sound _ _ _ E) as (o & body & -> & Hb & Ho).
    exists o, ([(TkStringValue, w)] ++ body). split; [reflexivity|]. split; [|exact Ho].
    apply RgDef_ts, Hb. right. exists (TkStringValue, w). split; [reflexivity|apply rg_is_refl].
Qed.

Lemma rg_definition_exec l d r : RgExecDefinition l d -> rg_definition (l ++ r) = rg_exec_definition (l ++ r).
Proof.
  intros [l0 Hl|t l0 Ht Hl|t w l0 Ht Hl|t w l0 Ht Hon Hl].
  - pose proof (rg_selset_first _ Hl) as Hs. destruct l0 as [|[k dd] l1]; [contradiction|].
    cbn [rg_starts] in Hs. apply rg_is_kind in Hs. cbn in Hs. subst k. reflexivity.
  - destruct (rg_optype_name _ Ht) as (w & -> & Hw). cbn [app]. unfold rg_definition. now rewrite Ht.
  - destruct (rg_optype_name _ Ht) as (w0 & -> & Hw). cbn [app]. unfold rg_definition. now rewrite Ht.
  - apply rg_kw_eq in Ht. subst t. reflexivity.
Qed.

Lemma rg_definition_complete o pre d r : RgDefinition o pre d ->
  rg_follow_def r -> (o = true -> rg_nh (rg_is TkLCurly) r) -> rg_definition (pre ++ r) = RgOk (d, r).
Proof.
  intros [l d0 He|o0 l d0 Ht] Hf Ho.
  - rewrite (rg_definition_exec _ _ _ He). now apply rg_exec_definition_complete.
  - now apply (rg_ts_definition_complete o0).
Qed.

Lemma rg_def_start_kw w t : In w rg_def_keywords -> rg_is_kw w t = true -> rg_def_start t = true.
Proof. intros Hin H. unfold rg_def_start. now rewrite (rg_is_kw_in _ _ _ Hin H). Qed.

Lemma rg_definition_first o l d : RgDefinition o l d -> rg_starts rg_def_start l.
Proof.
  assert (Hdesc : forall desc kw rest w, RgDescriptionOpt desc -> In w rg_def_keywords -> rg_is_kw w kw = true ->
            rg_starts rg_def_start (desc ++ kw :: rest)).
  { intros desc kw rest w [->|(t & -> & Ht)] Hin Hkw; cbn [app rg_starts].
    - eapply rg_def_start_kw; eauto.
    - unfold rg_def_start. rewrite Ht. now rewrite orb_true_r. }
  intros [l0 d0 He|o0 l0 d0 Ht]; [eapply rg_exec_definition_first; eauto|].
  destruct Ht; try (eapply Hdesc; [eassumption| |eassumption]; cbn; tauto);
    cbn [rg_starts]; eapply rg_def_start_kw; try eassumption; cbn; tauto.
Qed.

Lemma rg_union_tail_noout : rg_noout rg_union_tail.
Proof. apply rg_dirs_body_noout, rg_unionmembers_noout. Qed.
Lemma rg_enum_tail_noout : rg_noout rg_enum_tail.
Proof. apply rg_dirs_body_noout, rg_enumvalsdef_noout. Qed.
Lemma rg_input_tail_noout : rg_noout rg_input_tail.
Proof. apply rg_dirs_body_noout, rg_inputfieldsdef_noout. Qed.

Lemma rg_scalar_tail_noout : rg_noout rg_scalar_tail.
Proof. apply rg_directives_noout. Qed.

Lemma rg_ts_def_kw_noout ts : rg_ts_def_kw ts <> RgOut.
Proof.
  unfold rg_ts_def_kw. destruct ts as [|[k w] r0]; [discriminate|]. destruct k; try discriminate.
  destruct (rg_streq rg_s_schema w); [apply rg_ret_noout, rg_schema_tail_noout|].
  destruct (rg_streq rg_s_scalar w); [apply rg_named_noout, rg_scalar_tail_noout|].
  destruct (rg_streq rg_s_type w); [apply rg_named_noout, rg_object_tail_noout|].
  destruct (rg_streq rg_s_interface w); [apply rg_named_noout, rg_object_tail_noout|].
  destruct (rg_streq rg_s_union w); [apply rg_named_noout, rg_union_tail_noout|].
  destruct (rg_streq rg_s_enum w); [apply rg_named_noout, rg_enum_tail_noout|].
  destruct (rg_streq rg_s_input w); [apply rg_named_noout, rg_input_tail_noout|].
  destruct (rg_streq rg_s_directive w); [|discriminate].
  destruct r0 as [|[k2 dd] r1]; [discriminate|]. destruct k2; try discriminate.
  apply rg_named_noout, rg_dirdef_tail_noout.
Qed.
Lemma rg_ts_ext_kw_noout ts : rg_ts_ext_kw ts <> RgOut.
Proof.
  unfold rg_ts_ext_kw. destruct ts as [|[k w] r0]; [discriminate|]. destruct k; try discriminate.
  destruct (rg_streq rg_s_schema w).
  { apply rg_ret_noout, rg_noout_seq; [apply rg_noout_peek|]. apply rg_dirs_body_noout, rg_rootops_noout. }
  destruct (rg_streq rg_s_scalar w).
  { apply rg_named_noout, rg_noout_seq; [apply rg_noout_peek|apply rg_scalar_tail_noout]. }
  destruct (rg_streq rg_s_type w).
  { apply rg_named_noout, rg_noout_seq; [apply rg_noout_peek|apply rg_object_tail_noout]. }
  destruct (rg_streq rg_s_interface w).
  { apply rg_named_noout, rg_noout_seq; [apply rg_noout_peek|apply rg_object_tail_noout]. }
  destruct (rg_streq rg_s_union w).
  { apply rg_named_noout, rg_noout_seq; [apply rg_noout_peek|apply rg_union_tail_noout]. }
  destruct (rg_streq rg_s_enum w).
  { apply rg_named_noout, rg_noout_seq; [apply rg_noout_peek|apply rg_enum_tail_noout]. }
  destruct (rg_streq rg_s_input w); [|discriminate].
  apply rg_named_noout, rg_noout_seq; [apply rg_noout_peek|apply rg_input_tail_noout].
Qed.
Lemma rg_definition_noout ts : rg_definition ts <> RgOut.
Proof.
  unfold rg_definition. destruct ts as [|[k w] r0]; [discriminate|]. destruct k; try discriminate.
  - apply (rg_exec_definition_noout ((TkLCurly, w) :: r0)).
  - destruct (_ || _); [apply rg_exec_definition_noout|]. destruct (rg_streq _ _); [apply rg_ts_ext_kw_noout|apply rg_ts_def_kw_noout].
  - apply rg_ts_def_kw_noout.
Qed.

(* the reference recogniser accepts exactly the documents of the grammar, with exactly its definitions *)
Theorem rg_document_iff ts ds : rg_document ts = Some ds <-> RgDocument ts ds.
Proof.
  unfold rg_document, RgDocument.
  rewrite <- (rg_document_r_iff rg_definition RgDefinition).
  - destruct (rg_document_r rg_definition ts); cbn; split; congruence.
  - apply rg_definition_sound.
  - apply rg_definition_first.
  - intros o pre d r H Hr Ho. now apply (rg_definition_complete o).
  - apply rg_definition_noout.
Qed.

(* fuel = token count suffices: the recogniser never answers "out of fuel" *)
Theorem rg_document_fuel ts : rg_document_r rg_definition ts <> RgOut.
Proof.
  apply (rg_document_r_noout rg_definition RgDefinition).
  - apply rg_definition_sound.
  - apply rg_definition_first.
  - intros o pre d r H Hr Ho. now apply (rg_definition_complete o).
  - apply rg_definition_noout.
Qed.

(* determinism: a token list has at most one list of definitions in the grammar *)
Lemma rg_grammar_deterministic : forall ts ds1 ds2, RgDocument ts ds1 -> RgDocument ts ds2 -> ds1 = ds2.
Proof.
  intros ts ds1 ds2 H1 H2. apply rg_document_iff in H1. apply rg_document_iff in H2. congruence.
Qed.

(* the source-level verdict: lex, drop the ignored tokens, derive *)
Lemma rg_parse_source_iff : forall s ds,
  rg_parse_source s = Some ds <-> exists ts, rg_significant (lex_all s) = Some ts /\ RgDocument ts ds.
Proof.
  intros s ds. unfold rg_parse_source. destruct (rg_significant (lex_all s)) as [ts|].
  - rewrite rg_document_iff. split; [intros H; exists ts; auto|intros (ts' & [= <-] & H); exact H].
  - split; [discriminate|intros (ts' & E & _); discriminate].
Qed.
