(* C05 / C07 link — from item lists to source strings:
   (1) a run that ends at the end of its input without any error on record has pulled no lexical error
       (so the input's items are all tokens);
   (2) the tokens of Lex.Fun.lex_all satisfy what the link assumes about token data (rl_tok_ok);
   hence: no error on record  ->  the item list is a well-formed stream (rl_stream).
   Proofs only. *)
From Coq Require Import PeanoNat.
From ApolloVerif Require Import Base.Chars Lex.Item Lex.Spec Lex.Fun Lex.LexProofs Lex.LexMain
  Parse.Outcome Parse.Builder Parse.Limits Parse.Monad
  Parse.Keywords Parse.Grammar Parse.Generic Parse.Atoms Parse.Entry Parse.LosslessDefs Parse.Lossless
  Parse.TrackerInst Parse.SilentInst Parse.EntryEnd Parse.Terminates Parse.Compose Parse.RefGrammar Parse.RefLib
  Parse.RefLenient Parse.RefLinkBase.

(* ------------------------------------------------------------------ (1) a clean run has pulled only tokens *)
Definition rl_is_tok (i : item) : Prop := match i with ITok _ _ _ => True | IErr _ _ _ => False end.

Definition rl_clean_prefix (orig : list item) (s : pstate) : Prop :=
  ps_accept s = true /\ exists pre, orig = pre ++ rest_of s /\ Forall rl_is_tok pre.
Definition rl_J (orig : list item) (s : pstate) : Prop := ps_errors s <> [] \/ rl_clean_prefix orig s.

Definition CJ (orig : list item) : pcfg :=
  {| cInv := rl_J orig; cWeak := rl_J orig; cRel := fun _ _ => True; cPanicOk := True; cFuelOk := True |}.
Lemma CJ_rel orig : prel_ok (CJ orig).
Proof. constructor; cbn; auto. Qed.

(* an operation that keeps a dirty state dirty (CE) and a clean prefix either clean or dirty *)
Lemma CJ_step orig {A} (m : PM A) :
  spec CE m -> (forall s a s', m s = POk (a, s') -> rl_clean_prefix orig s -> rl_J orig s') -> spec (CJ orig) m.
Proof.
  intros Hce Hm. apply post_partial; [exact I|exact I|]. cbn. intros s [Hd|Hc] a s' E; split; auto.
  - left. exact (proj1 (post_returns _ _ _ _ Hce s Hd _ _ E)).
  - eapply Hm; eauto.
Qed.
(* an operation that touches neither the lexer side nor the error list *)
Lemma CJ_frame orig {A} (m : PM A) :
  spec CE m ->
  (forall s a s', m s = POk (a, s') -> ps_cur s' = ps_cur s /\ ps_items s' = ps_items s /\ ps_accept s' = ps_accept s) ->
  spec (CJ orig) m.
Proof.
  intros Hce Hm. apply CJ_step; [exact Hce|]. intros s a s' E [Ha (pre & Ho & Hf)].
  destruct (Hm _ _ _ E) as (H1 & H2 & H3). right. split; [congruence|]. exists pre. unfold rest_of. rewrite H1, H2. auto.
Qed.

(* the loops take the remaining items as an argument; the state's own item field is only set on exit *)
Definition rl_Jx (orig : list item) (s : pstate) (items : list item) : Prop :=
  ps_errors s <> [] \/ (ps_accept s = true /\ exists pre, orig = pre ++ items /\ Forall rl_is_tok pre).

Lemma rl_next_token_loop_J orig items : forall s o s',
  p_next_token_loop items s = (o, s') -> ps_cur s = None -> rl_Jx orig s items -> rl_J orig (ps_set_cur o s').
Proof.
  induction items as [|[k d i|c d i] r IH]; intros s o s' E Hc HJ; cbn [p_next_token_loop] in E.
  - injection E as <- <-. destruct HJ as [Hd|[Ha (pre & Ho & Hf)]]; [left; exact Hd|right].
    split; [exact Ha|]. exists pre. unfold rest_of. cbn. auto.
  - injection E as <- <-. destruct HJ as [Hd|[Ha (pre & Ho & Hf)]]; [left; exact Hd|right].
    split; [exact Ha|]. exists pre. unfold rest_of. cbn. auto.
  - left. cbn. eapply next_token_loop_errors_stay; [exact E|]. destruct HJ as [Hd|[Ha _]].
    + apply lexer_error_effect_keeps_errors. exact Hd.
    + apply lexer_error_effect_dirty. exact Ha.
Qed.

Lemma rl_skip_loop_J orig items : forall s, ps_cur s = None -> rl_Jx orig s items -> rl_J orig (p_skip_loop items s).
Proof.
  induction items as [|[k d i|c d i] r IH]; intros s Hc HJ; cbn [p_skip_loop].
  - destruct HJ as [Hd|[Ha (pre & Ho & Hf)]]; [left; exact Hd|right].
    split; [exact Ha|]. exists pre. unfold rest_of. cbn. rewrite Hc. cbn. auto.
  - destruct (p_is_ignored_kind k).
    + apply IH; [exact Hc|]. destruct HJ as [Hd|[Ha (pre & Ho & Hf)]]; [left; exact Hd|right].
      split; [exact Ha|]. exists (pre ++ [ITok k d i]).
      split; [rewrite <- app_assoc; exact Ho|]. apply Forall_app. split; [exact Hf|repeat constructor].
    + destruct HJ as [Hd|[Ha (pre & Ho & Hf)]]; [left; exact Hd|right].
      split; [exact Ha|]. exists pre. unfold rest_of. cbn. auto.
  - left. apply skip_loop_errors_stay. destruct HJ as [Hd|[Ha _]].
    + apply lexer_error_effect_keeps_errors. exact Hd.
    + apply lexer_error_effect_dirty. exact Ha.
Qed.

Lemma rl_J_Jx orig s : ps_cur s = None -> rl_J orig s -> rl_Jx orig s (ps_items s).
Proof.
  intros Hc [Hd|[Ha (pre & Ho & Hf)]]; [left; exact Hd|right]. split; [exact Ha|]. exists pre.
  unfold rest_of in Ho. rewrite Hc in Ho. auto.
Qed.

Lemma rl_next_token_loop_cur items : forall s o s', p_next_token_loop items s = (o, s') -> ps_cur s' = ps_cur s.
Proof.
  induction items as [|[k d i|c d i] r IH]; intros s o s' E; cbn [p_next_token_loop] in E.
  - injection E as _ <-. reflexivity.
  - injection E as _ <-. reflexivity.
  - rewrite (IH _ _ _ E). rewrite (proj2 (lexer_error_effect_mu c d i (p_count_pull s))). reflexivity.
Qed.

Lemma rl_J_pop_cur orig s t : ps_cur s = Some t -> rl_J orig s -> rl_J orig (ps_set_cur None s).
Proof.
  intros Hc [Hd|[Ha (pre & Ho & Hf)]]; [left; exact Hd|right]. split; [exact Ha|].
  exists (pre ++ [ITok (tok_kind t) (tok_data t) (tok_index t)]). unfold rest_of in *. rewrite Hc in Ho. cbn in *.
  split; [rewrite <- app_assoc; exact Ho|]. apply Forall_app. split; [exact Hf|repeat constructor].
Qed.

Lemma CJ_peek_token orig : spec (CJ orig) p_peek_token.
Proof.
  apply post_partial; [exact I|exact I|]. cbn. intros s HJ o s' E. split; [|exact I].
  unfold p_peek_token in E. destruct (ps_cur s) eqn:Hc.
  - injection E as <- <-. exact HJ.
  - destruct (p_next_token_loop (ps_items s) s) as [o1 s1] eqn:El. injection E as <- <-.
    eapply rl_next_token_loop_J; eauto. apply rl_J_Jx; auto.
Qed.

Lemma CJ_atoms orig : patoms_ok (CJ orig).
Proof.
  constructor.
  - apply CJ_rel.
  - cbn. auto.
  - apply CJ_peek_token.
  - (* pop *)
    apply post_partial; [exact I|exact I|]. cbn. intros s HJ t s' E. split; [|exact I].
    unfold p_pop in E. destruct (ps_cur s) eqn:Hc.
    + injection E as <- <-. eapply rl_J_pop_cur; eauto.
    + destruct (p_next_token_loop (ps_items s) s) as [[t1|] s1] eqn:El; [|discriminate]. injection E as <- <-.
      pose proof (rl_next_token_loop_J orig _ _ _ _ El Hc (rl_J_Jx _ _ Hc HJ)) as HJ1.
      assert (Hc1 : ps_cur s1 = None) by (rewrite (rl_next_token_loop_cur _ _ _ _ El); exact Hc).
      assert (Hs : ps_set_cur None (ps_set_cur (Some t1) s1) = s1).
      { destruct s1. cbn in *. rewrite Hc1. reflexivity. }
      rewrite <- Hs. eapply rl_J_pop_cur; [reflexivity|exact HJ1].
  - (* skip_ignored *)
    apply post_partial; [exact I|exact I|]. cbn. intros s HJ u s' E. split; [|exact I].
    unfold p_skip_ignored in E. cbv zeta in E. destruct (ps_cur s) as [t|] eqn:Hc.
    + destruct (p_is_ignored_kind (tok_kind t)).
      * injection E as _ <-. apply rl_skip_loop_J; [reflexivity|].
        pose proof (rl_J_pop_cur orig s t Hc HJ) as H1.
        destruct H1 as [Hd|[Ha (pre & Ho & Hf)]]; [left; exact Hd|right]. split; [exact Ha|]. exists pre. auto.
      * injection E as _ <-. exact HJ.
    + injection E as _ <-. apply rl_skip_loop_J; [exact Hc|apply rl_J_Jx; auto].
  - apply CJ_frame; [apply (a_push_ignored _ CE_atoms)|]. intros s a s'. unfold p_push_ignored.
    destruct (p_push_pending_list _ _); try discriminate. intros [= <- <-]. auto.
  - intros k t. apply CJ_frame; [apply (a_push_token _ CE_atoms)|]. intros s a s'. unfold p_push_token, p_modify.
    intros [= <- <-]. auto.
  - intros t. apply CJ_step; [apply (a_push_syntax_err _ CE_atoms)|]. intros s a s' E [Ha _]. left.
    unfold p_push_err, p_modify in E. injection E as _ <-. rewrite Ha. cbn. discriminate.
  - (* limit_err *)
    apply post_partial; [exact I|exact I|]. cbn. intros s HJ u s' E. split; [|exact I].
    unfold p_limit_err in E. apply bind_ok in E as (o & s1 & E1 & E).
    pose proof (proj1 (post_returns _ _ _ _ (CJ_peek_token orig) s HJ _ _ E1)) as HJ1. cbn in HJ1.
    destruct o as [t|].
    + apply bind_ok in E as (? & s2 & E2 & E). unfold p_push_err, p_modify in E2, E. injection E2 as _ <-.
      injection E as _ <-. left. destruct HJ1 as [Hd|[Ha _]].
      * cbn. destruct (ps_accept s1); cbn; [discriminate|exact Hd].
      * cbn. rewrite Ha. cbn. discriminate.
    + unfold p_ret in E. injection E as _ <-. exact HJ1.
  - intros k. apply CJ_frame; [apply (a_start_raw _ CE_atoms)|]. intros s a s'. unfold p_start_raw, p_modify.
    intros [= <- <-]. auto.
  - apply CJ_frame; [apply (a_finish_node _ CE_atoms)|]. intros s a s'. unfold p_finish_node, p_lift_b.
    destruct (pb_finish_node _); try discriminate. intros [= <- <-]. auto.
  - intros cp k. apply CJ_frame; [apply (a_wrap_node _ CE_atoms)|]. intros s a s'. unfold p_wrap_node, p_lift_b.
    destruct (pb_start_node_at _ _ _); try discriminate. intros [= <- <-]. auto.
  - intros A B l body k Hl Hb Hk. unfold p_rec_guard.
    eapply post_bind; [apply CJ_rel| |intros [|]]; [|exact Hl|].
    + apply CJ_frame.
      * apply CE_frame. intros s a s'. unfold p_rec_check_and_increment.
        destruct (ptracker_check_and_increment _) as [[b t]| |]; try discriminate. intros [= <- <-]. auto.
      * intros s a s'. unfold p_rec_check_and_increment.
        destruct (ptracker_check_and_increment _) as [[b t]| |]; try discriminate. intros [= <- <-]. auto.
    + eapply post_bind; [apply CJ_rel|exact Hb|intros x].
      eapply post_bind; [apply CJ_rel| |intros; apply Hk].
      apply CJ_frame.
      * apply CE_frame. intros s a s'. unfold p_rec_decrement. destruct (ptracker_decrement _); try discriminate.
        intros [= <- <-]. auto.
      * intros s a s'. unfold p_rec_decrement. destruct (ptracker_decrement _); try discriminate.
        intros [= <- <-]. auto.
  - intros t. apply CJ_frame; [apply (a_ghost _ CE_atoms)|]. intros s a s'. unfold p_ghost_dropped, p_modify.
    intros [= <- <-]. auto.
  - intros A w. apply CJ_frame; [apply (a_panic _ CE_atoms)|]. intros s a s'. discriminate.
  - apply CJ_frame; [apply (a_assert _ CE_atoms)|]. intros s a s'. unfold g_assert_recursion_balanced.
    destruct (_ =? _); try discriminate. intros [= <- <-]. auto.
  - intros b. apply CJ_frame; [apply (a_debug _ CE_atoms)|]. intros s a s'. unfold p_debug_assert_advanced.
    destruct (_ && _); try discriminate. intros [= <- <-]. auto.
Qed.
Definition CJ_ok orig : pcfg_ok (CJ orig) := atoms_cfg_ok (CJ orig) (CJ_atoms orig) I.

Lemma rl_init_J dbg rl items : rl_J items (p_init_state dbg rl items).
Proof. right. split; [reflexivity|]. exists []. split; [reflexivity|constructor]. Qed.

(* a run that is at the end of its input with no error on record has seen only tokens *)
Lemma rl_clean_run_tokens (g : PM unit) dbg rl items u s' :
  eof_terminated items ->
  specR (CJ items) g -> g (p_init_state dbg rl items) = POk (u, s') -> at_end s' -> ps_errors s' = [] ->
  Forall rl_is_tok items.
Proof.
  intros (body & n & Hi & Hb) Hg E Hend He.
  destruct (post_returns _ _ _ _ Hg _ (rl_init_J dbg rl items) _ _ E) as [HJ _]. cbn in HJ.
  destruct HJ as [Hd|[_ (pre & Ho & Hf)]]; [contradiction|].
  unfold rest_of in Ho. destruct Hend as [[Hc Hit]|(t & Hc & Hk)]; rewrite Hc in Ho; cbn [cur_item app] in Ho.
  - rewrite Hit, app_nil_r in Ho. rewrite Ho. exact Hf.
  - rewrite Hk in Ho. destruct (ps_items s') as [|x l] eqn:Hl using rev_ind.
    + rewrite Ho. apply Forall_app. split; [exact Hf|repeat constructor].
    + exfalso. clear IHl. rewrite Hi in Ho. rewrite app_comm_cons, app_assoc in Ho.
      apply app_inj_tail in Ho as [Hbody _].
      rewrite Forall_forall in Hb. apply (Hb (ITok TkEof (tok_data t) (tok_index t))).
      rewrite Hbody. apply in_or_app. right. left. reflexivity.
Qed.

(* ------------------------------------------------------------------ (2) the tokens of the lexer model *)
Lemma rl_digit_not_name_start c : Digit c -> is_name_start c = false.
Proof.
  unfold Digit, is_name_start, is_alpha. intros [H1 H2].
  destruct (65 <=? c) eqn:E1; [apply N.leb_le in E1; lia|]. destruct (97 <=? c) eqn:E2; [apply N.leb_le in E2; lia|].
  destruct (c =? 95) eqn:E3; [apply N.eqb_eq in E3; lia|]. reflexivity.
Qed.
Lemma rl_integer_part_ok d : IntegerPart d -> match d with c :: _ => negb (is_name_start c) | [] => true end = true.
Proof.
  intros [sg [->| ->]|sg c ds [->| ->] Hc Hds]; cbn; try reflexivity.
  rewrite rl_digit_not_name_start; [reflexivity|]. unfold Digit, NonZeroDigit in *. lia.
Qed.
Lemma rl_integer_part_nonempty d : IntegerPart d -> d <> [].
Proof. intros [sg [->| ->]|sg c ds [->| ->] Hc Hds]; discriminate. Qed.

Lemma rl_lexeme_ok k d : Lexeme (fun _ => True) k d -> rl_tok_ok k d = true.
Proof.
  intros H. inversion H; subst; cbn [rl_tok_ok]; try reflexivity.
  - (* whitespace run *)
    destruct d as [|c r]; [contradiction|]. inversion H1 as [|? ? Hc Hr]; subst.
    unfold IgnoredChar, UnicodeBOM, WhiteSpaceChar, LineTerminatorChar in Hc.
    destruct Hc as [->|[[->| ->]|[->| ->]]]; reflexivity.
  - apply is_valid_name_spec. assumption.
  - apply rl_integer_part_ok. assumption.
  - (* float: starts with its integer part *)
    match goal with Hf : FloatValue d |- _ => inversion Hf; subst end;
      match goal with Hip : IntegerPart ?ip |- _ =>
        pose proof (rl_integer_part_ok _ Hip); pose proof (rl_integer_part_nonempty _ Hip);
        destruct ip as [|c0 r0]; [contradiction|]; cbn [app]; assumption end.
  - match goal with Hq : QuotedString _ d |- _ => inversion Hq; subst; reflexivity end.
  - match goal with Hq : BlockString _ d |- _ => inversion Hq; subst; reflexivity end.
Qed.

Definition rl_item_ok (i : item) : Prop :=
  match i with ITok k d _ => k = TkEof \/ rl_tok_ok k d = true | IErr _ _ _ => True end.

Lemma lex_all_items_ok s : Forall rl_item_ok (lex_all s).
Proof.
  apply Forall_forall. intros it Hin. destruct it as [k d i|c d i]; [|exact I]. cbn.
  destruct (tkind_eqb k TkEof) eqn:Hk; [left; apply tkind_eqb_eq; exact Hk|right].
  apply in_split in Hin as (pre & post & E).
  assert (HSC : Forall (fun _ : N => True) s) by (apply Forall_forall; auto).
  assert (Hne : k <> TkEof) by (intros H; apply tkind_eqb_eq in H; congruence).
  destruct (tokens_are_munch (fun _ => True) s pre k d i post HSC E Hne) as (HL & _).
  apply rl_lexeme_ok. exact HL.
Qed.

(* ------------------------------------------------------------------ together *)
Lemma rl_stream_of items :
  Forall rl_is_tok items -> Forall rl_item_ok items -> eof_terminated items -> rl_stream items.
Proof.
  intros Ht Hok (pre & n & -> & Hne).
  apply Forall_app in Ht as [Ht _]. apply Forall_app in Hok as [Hok _].
  induction pre as [|[k d i|c d i] pre IH]; cbn [app rl_stream].
  - cbn. auto.
  - inversion Ht; subst. inversion Hok; subst. inversion Hne; subst.
    destruct (tkind_eqb k TkEof) eqn:Hk.
    + apply tkind_eqb_eq in Hk. subst k. cbn in *. contradiction.
    + match goal with H : rl_item_ok _ |- _ => cbn in H; destruct H as [->|H]; [discriminate|] end.
      split; [assumption|]. apply IH; assumption.
  - inversion Ht; subst. contradiction.
Qed.

Theorem rl_lex_all_stream s : Forall rl_is_tok (lex_all s) -> rl_stream (lex_all s).
Proof.
  intros H. apply rl_stream_of; [exact H|apply lex_all_items_ok|apply lex_all_eof_terminated].
Qed.
(* and conversely a well-formed stream has no lexical error *)
Lemma rl_stream_tokens items : rl_stream items -> Forall rl_is_tok items.
Proof.
  induction items as [|[k d i|c d i] r IH]; cbn [rl_stream]; try contradiction. intros H. constructor; [exact I|].
  destruct (tkind_eqb k TkEof); [destruct H as [-> _]; constructor|apply IH; tauto].
Qed.
Lemma rl_significant_tokens items ts : rg_significant items = Some ts -> Forall rl_is_tok items.
Proof.
  revert ts. induction items as [|[k d i|c d i] r IH]; intros ts; cbn [rg_significant]; [constructor| |discriminate].
  destruct (rg_significant r) as [ts'|] eqn:E; [|discriminate]. intros _. constructor; [exact I|eauto].
Qed.
