(* C05 link — operation.rs, fragment.rs (definition): the executable definitions against the relaxed reference,
   and the tools for the dispatch on keywords.  Proofs only. *)
From Coq Require Import PeanoNat.
From ApolloVerif Require Import Base.Chars Lex.Item Lex.Fun Parse.Outcome Parse.Builder Parse.Limits Parse.Monad
  Parse.Keywords Parse.Grammar Parse.Generic Parse.Atoms Parse.Entry Parse.LosslessDefs Parse.Lossless
  Parse.TrackerInst Parse.SilentInst Parse.EntryEnd Parse.Terminates Parse.RefGrammar Parse.RefLib Parse.RefLenient
  Parse.RefLenientProofs Parse.RefLinkBase Parse.RefLinkLoops Parse.RefLinkType Parse.RefLinkValue Parse.RefLinkExec
  Parse.RefLinkSel.

(* ------------------------------------------------------------------ acceptance of a definition recogniser *)
Definition rl_acc (d : rg_dp) : rg_p := fun ts => rg_bind (d ts) (fun x => RgOk (snd x)).

Lemma rl_acc_ret x p ts : rl_acc (rg_ret x p) ts = p ts.
Proof. unfold rl_acc, rg_ret, rg_bind. destruct (p ts); reflexivity. Qed.
Lemma rl_acc_named k tail ts : rl_acc (rg_named k tail) ts = rg_seq rg_name tail ts.
Proof.
  unfold rl_acc, rg_named. destruct ts as [|[[] w] r]; try reflexivity.
  change (rg_seq rg_name tail ((TkName, w) :: r)) with (tail r). apply (rl_acc_ret (k, Some w) tail r).
Qed.

(* ------------------------------------------------------------------ keywords and token data *)
(* a keyword: a string that starts with a name-start character *)
Definition rl_is_kw_str (kw : str) : Prop := match kw with c :: _ => is_name_start c = true | [] => False end.

Lemma rl_data_not_kw s t kw : rl_inv s -> ps_cur s = Some t -> tok_kind t <> TkName -> rl_is_kw_str kw ->
  p_str_eqb (tok_data t) kw = false.
Proof.
  intros Hinv Hc Hk Hkw. destruct kw as [|c kw]; [contradiction|]. cbn in Hkw.
  destruct (tkind_eqb (tok_kind t) TkEof) eqn:He.
  - apply tkind_eqb_eq in He. rewrite (rl_eof_data _ _ Hinv Hc He). reflexivity.
  - assert (Hne : tok_kind t <> TkEof) by (intros H; apply tkind_eqb_eq in H; congruence).
    destruct (rl_sigs_tok _ _ Hinv Hc Hne) as (_ & Hok & _).
    destruct (tok_data t) as [|c' d'] eqn:Ed; [reflexivity|]. cbn [p_str_eqb].
    assert (Hcc : (c' =? c) = false).
    { destruct (c' =? c) eqn:E; [|reflexivity]. apply N.eqb_eq in E. subst c'. exfalso.
      destruct (tok_kind t); cbn [rl_tok_ok] in Hok; try contradiction;
        try (rewrite Hkw in Hok; discriminate Hok).
      (* `{` : the data is "{" *)
      cbn in Hok. apply andb_prop in Hok as [Hok _]. apply N.eqb_eq in Hok. subst c. cbn in Hkw. discriminate. }
    rewrite Hcc. reflexivity.
Qed.

Lemma p_str_eqb_eq a b : p_str_eqb a b = true -> a = b.
Proof.
  revert b. induction a as [|x a IH]; intros [|y b]; cbn [p_str_eqb]; try discriminate; [reflexivity|].
  intros H. apply andb_prop in H as [H1 H2]. apply N.eqb_eq in H1. subst y. f_equal. now apply IH.
Qed.
Lemma p_str_eqb_refl a : p_str_eqb a a = true.
Proof. induction a as [|x a IH]; cbn; [reflexivity|]. now rewrite N.eqb_refl, IH. Qed.

(* `if b then m else bad` where bad always reports *)
Lemma rl_sim_peek_else (P : list rg_token -> Prop) k (m bad : PM unit) q : k <> TkEof ->
  rl_sim (fun ts => P ts /\ rg_starts (rg_is k) ts) m q -> rl_rejects (rg_is k) q ->
  rl_gen bad -> (forall s u s', bad s = POk (u, s') -> rl_ok s -> ps_errors s' <> ps_errors s) ->
  rl_sim P (b <- g_peek_is k ;; if b then m else bad) q.
Proof.
  intros Hne [Hg Hm] Hreq Hgb Hbad. split.
  { apply rl_gen_bind; [apply rl_gen_peek_is|]. intros [|]; [exact Hg|exact Hgb]. }
  intros s u s' E [Hinv Ha] Ht HP. destruct (rl_inv_cur _ Hinv) as (t & Hc & Hi & _).
  unfold p_bind in E. rewrite (peek_is_some k t s Hc) in E.
  rewrite (rl_peek_is_view _ _ _ Hinv Hc Hne) in E.
  destruct (rl_head_is (rg_is k) (rl_sigs s)) eqn:Hh.
  - apply (Hm s u s' E (conj Hinv Ha) Ht). split; [exact HP|]. apply rl_starts_head. exact Hh.
  - pose proof (Hbad _ _ _ E (conj Hinv Ha)) as Hd. split.
    + intros He. contradiction.
    + intros _ r Hq. exfalso. exact (Hreq _ _ Hh Hq).
Qed.

Lemma rgl_selset_rejects' : rl_rejects (rg_is TkLCurly) (rgl_selset LP).
Proof. intros ts r Hh Hq. exact (rgl_selset_rejects _ ts r Hh Hq). Qed.

(* `{ ... }` or report, the last step of operations and fragments *)
Lemma rl_sim_selset_or (bad : PM unit) f :
  rl_gen bad -> (forall s u s', bad s = POk (u, s') -> rl_ok s -> ps_errors s' <> ps_errors s) ->
  rl_sim rl_any (b <- g_peek_is TkLCurly ;; if b then g_selection_set f else bad) (rgl_selset LP).
Proof.
  intros Hg Hbad. apply rl_sim_peek_else; [discriminate| |apply rgl_selset_rejects'|exact Hg|exact Hbad].
  eapply rl_sim_weaken; [|apply rl_sim_selection_set]. intros ts [_ H]. exact H.
Qed.

(* ------------------------------------------------------------------ operation *)
Lemma rl_gen_operation_type : rl_gen g_operation_type.
Proof. split; [apply (gg_operation_type CT CT_ok)|apply (gg_operation_type CX CX_ok)]. Qed.

Lemma rl_optype_view d :
  rg_is_optype (TkName, d) = p_str_eqb d pkw_query || p_str_eqb d pkw_subscription || p_str_eqb d pkw_mutation.
Proof.
  unfold rg_is_optype, rg_is_in. cbn [fst snd tkind_eqb andb existsb].
  change (p_str_eqb d pkw_query) with (rg_streq d rg_s_query).
  change (p_str_eqb d pkw_subscription) with (rg_streq d rg_s_subscription).
  change (p_str_eqb d pkw_mutation) with (rg_streq d rg_s_mutation).
  rewrite (rg_streq_sym rg_s_query), (rg_streq_sym rg_s_mutation), (rg_streq_sym rg_s_subscription).
  destruct (rg_streq d rg_s_query), (rg_streq d rg_s_mutation), (rg_streq d rg_s_subscription); reflexivity.
Qed.

Lemma rl_sim_operation_type : rl_sim rl_any g_operation_type (rg_sat rg_is_optype).
Proof.
  split; [apply rl_gen_operation_type|]. intros s u s' E Hok Ht _. pose proof Hok as [Hinv Ha].
  destruct (rl_inv_cur _ Hinv) as (t & Hc & Hi & _).
  unfold g_operation_type in E. unfold p_bind at 1 in E. rewrite (peek_data_some t s Hc) in E.
  eapply rl_node_post; [exact E|exact Hok|exact Ht|]. clear E. intros s1 s2 Hobs E [Hinv1 Ha1] Ht1.
  assert (Hc1 : ps_cur s1 = Some t) by (destruct Hobs as (G & _); congruence).
  pose proof (rl_sigs_head _ _ Hinv1 Hc1) as Hhead.
  assert (Hbump : forall sk, rg_is_optype (tok_kind t, tok_data t) = true -> tok_kind t <> TkEof ->
            p_bump sk s1 = POk (tt, s2) -> rl_sound (rg_sat rg_is_optype) s1 s2 /\ rl_complete (rg_sat rg_is_optype) s1 s2).
  { intros sk Hop Hne Eb. apply (proj2 (rl_sim_bump sk rg_is_optype) s1 tt s2 Eb (conj Hinv1 Ha1) Ht1).
    rewrite Hhead. destruct (tkind_eqb (tok_kind t) TkEof) eqn:He; [apply tkind_eqb_eq in He; contradiction|]. exact Hop. }
  destruct (tkind_eqb (tok_kind t) TkName) eqn:Hk.
  - apply tkind_eqb_eq in Hk. assert (Hne : tok_kind t <> TkEof) by congruence.
    pose proof (rl_optype_view (tok_data t)) as Hv. rewrite <- Hk in Hv.
    destruct (p_str_eqb (tok_data t) pkw_query) eqn:H1; [destruct u; apply (Hbump _ Hv Hne E)|].
    destruct (p_str_eqb (tok_data t) pkw_subscription) eqn:H2; [destruct u; apply (Hbump _ Hv Hne E)|].
    destruct (p_str_eqb (tok_data t) pkw_mutation) eqn:H3; [destruct u; apply (Hbump _ Hv Hne E)|].
    apply rl_post_dirty; [eapply rl_err_and_pop_run; eauto; split; assumption|].
    rewrite Hhead, Hk. cbn [tkind_eqb rg_sat]. rewrite Hk in Hv. rewrite Hv. reflexivity.
  - assert (Hnn : tok_kind t <> TkName) by (intros H; apply tkind_eqb_eq in H; congruence).
    rewrite (rl_data_not_kw _ _ pkw_query Hinv1 Hc1 Hnn eq_refl),
            (rl_data_not_kw _ _ pkw_subscription Hinv1 Hc1 Hnn eq_refl),
            (rl_data_not_kw _ _ pkw_mutation Hinv1 Hc1 Hnn eq_refl) in E.
    apply rl_post_dirty; [eapply rl_err_and_pop_run; eauto; split; assumption|].
    rewrite Hhead. destruct (tkind_eqb (tok_kind t) TkEof); [reflexivity|]. cbn [rg_sat].
    unfold rg_is_optype, rg_is_in. cbn [fst]. destruct (tok_kind t); try reflexivity. discriminate Hk.
Qed.

Definition rgl_operation_p : rg_p :=
  rg_seq (rg_sat rg_is_optype) (rg_seq (rg_opt (rg_is TkName) rg_name) (rgl_op_tail LP)).

Lemma rl_sim_operation_named f :
  rl_sim rl_any
    (p_node SK_OPERATION_DEFINITION (
       g_operation_type ;; g_if_peek TkName g_name ;; g_if_peek TkLParen (g_variable_definitions f) ;;
       g_if_peek TkAt (g_directives f GNotConst) ;;
       b <- g_peek_is TkLCurly ;; if b then g_selection_set f else p_err_and_pop))
    rgl_operation_p.
Proof.
  unfold rgl_operation_p, rgl_op_tail. apply rl_sim_node.
  apply rl_sim_bind; [apply rl_sim_operation_type|intros _].
  apply rl_sim_bind; [apply rl_sim_if_peek; [discriminate|apply rl_sim_any, rl_sim_name]|intros _].
  apply rl_sim_bind; [apply rl_sim_if_peek; [discriminate|apply rl_sim_variable_definitions]|intros _].
  apply rl_sim_bind; [apply (rl_sim_directives_opt f GNotConst)|intros _].
  apply rl_sim_selset_or; [apply rl_gen_err_and_pop|]. intros s u s' E Hok. eapply rl_err_and_pop_run; eauto.
Qed.

(* the recogniser of an operation, on token lists that start with an operation type *)
Lemma rgl_operation_acc t r : rg_is_optype t = true ->
  rl_acc (rgl_operation LP) (t :: r) = rgl_operation_p (t :: r).
Proof.
  intros Hop. unfold rl_acc, rgl_operation, rgl_operation_p. destruct t as [k d].
  assert (Hk : k = TkName).
  { unfold rg_is_optype, rg_is_in in Hop. cbn [fst] in Hop. destruct k; try discriminate Hop; reflexivity. }
  subst k. rewrite Hop. unfold rg_seq at 1. cbn [rg_sat]. rewrite Hop. cbn [rg_bind].
  destruct r as [|[k2 w] r']; [apply (rl_acc_ret (RgkOperation, None) (rgl_op_tail LP) [])|].
  destruct k2; try apply (rl_acc_ret (RgkOperation, None) (rgl_op_tail LP) _).
  apply (rl_acc_ret (RgkOperation, Some w) (rgl_op_tail LP) r').
Qed.

Lemma rl_gen_operation_definition f : rl_gen (g_operation_definition f).
Proof. split; [apply (gg_operation_definition CT CT_ok)|apply (gg_operation_definition CX CX_ok)]. Qed.

(* operation_definition, wherever the dispatch sends it *)
Theorem rl_sim_operation_definition f :
  rl_sim rl_any (g_operation_definition f)
    (fun ts => match ts with
               | (TkLCurly, _) :: _ => rgl_selset LP ts
               | (TkName, _) :: _ => rgl_operation_p ts
               | _ => RgNo
               end).
Proof.
  split; [apply rl_gen_operation_definition|]. intros s u s' E Hok Ht _. pose proof Hok as [Hinv Ha].
  destruct (rl_inv_cur _ Hinv) as (t & Hc & Hi & _).
  unfold g_operation_definition in E. unfold p_bind at 1 in E. rewrite (peek_some t s Hc) in E.
  pose proof (rl_sigs_head _ _ Hinv Hc) as Hhead.
  destruct (tok_kind t) eqn:Hk; try (cbn in Hi; discriminate Hi); cbn [tkind_eqb] in Hhead;
    try (apply rl_post_dirty; [eapply rl_err_and_pop_run; eauto|rewrite Hhead; reflexivity]).
  - (* { : anonymous query *)
    apply (rl_post_ext (rgl_selset LP)); [rewrite Hhead; reflexivity|].
    assert (Hsim : rl_sim (rg_starts (rg_is TkLCurly)) (p_node SK_OPERATION_DEFINITION (g_selection_set f)) (rgl_selset LP)).
    { apply rl_sim_node. apply rl_sim_selection_set. }
    apply (proj2 Hsim s u s' E Hok Ht). rewrite Hhead. reflexivity.
  - apply (rl_post_ext rgl_operation_p); [rewrite Hhead; reflexivity|].
    exact (proj2 (rl_sim_operation_named f) s u s' E Hok Ht I).
Qed.

(* ------------------------------------------------------------------ fragment definition *)
Definition rgl_fragment_rest : rg_p :=
  rg_seq (rg_sat rg_is_fragname) (rg_seq (rg_seq (rg_sat (rg_is_kw rg_s_on)) rg_name)
    (rg_seq (rgl_directives LP false) (rgl_selset LP))).

(* the node: whatever the first token is, it is bumped as the `fragment` keyword *)
Lemma rl_sim_fragment_definition_node f first :
  rl_sim (rg_starts first)
    (p_node SK_FRAGMENT_DEFINITION (
       p_bump SK_fragment_KW ;; g_fragment_name ;; g_type_condition ;;
       g_if_peek TkAt (g_directives f GNotConst) ;;
       b <- g_peek_is TkLCurly ;; if b then g_selection_set f else p_err))
    (rg_seq (rg_sat first) rgl_fragment_rest).
Proof.
  unfold rgl_fragment_rest. apply rl_sim_node.
  apply rl_sim_bind; [apply rl_sim_bump|intros _].
  apply rl_sim_bind; [apply rl_sim_fragment_name|intros _].
  apply rl_sim_bind; [apply rl_sim_type_condition|intros _].
  apply rl_sim_bind; [apply (rl_sim_directives_opt f GNotConst)|intros _].
  apply rl_sim_selset_or; [apply rl_gen_err|]. intros s u s' E Hok. eapply rl_err_run; eauto.
Qed.

Lemma rl_gen_fragment_definition f : rl_gen (g_fragment_definition f).
Proof. split; [apply (gg_fragment_definition CT CT_ok)|apply (gg_fragment_definition CX CX_ok)]. Qed.

(* fragment_definition entered on the keyword: the test for a leading string fails, the node is built *)
Lemma rl_sim_fragment_definition f :
  rl_sim (rg_starts (rg_is_kw rg_s_fragment)) (g_fragment_definition f)
    (rg_seq (rg_sat (rg_is_kw rg_s_fragment)) rgl_fragment_rest).
Proof.
  split; [apply rl_gen_fragment_definition|]. intros s u s' E Hok Ht Hp. pose proof Hok as [Hinv Ha].
  destruct (rl_inv_cur _ Hinv) as (t & Hc & Hi & _).
  unfold g_fragment_definition in E. unfold p_bind at 1 in E. rewrite (peek_is_some TkStringValue t s Hc) in E.
  rewrite (rl_peek_is_view _ _ _ Hinv Hc) in E by discriminate.
  assert (Hh : rl_head_is (rg_is TkStringValue) (rl_sigs s) = false).
  { destruct (rl_sigs s) as [|[k d] ts]; [reflexivity|]. cbn [rg_starts] in Hp. unfold rg_is_kw in Hp. cbn [fst] in Hp.
    destruct k; try discriminate Hp; reflexivity. }
  rewrite Hh in E.
  exact (proj2 (rl_sim_fragment_definition_node f (rg_is_kw rg_s_fragment)) s u s' E Hok Ht Hp).
Qed.

(* fragment_definition entered on a string (the dispatch looked through it at the keyword): reported *)
Lemma rl_fragment_definition_after_string f s u s' t :
  rl_ok s -> ps_cur s = Some t -> tok_kind t = TkStringValue -> g_fragment_definition f s = POk (u, s') ->
  ps_errors s' <> ps_errors s.
Proof.
  intros Hok Hc Hk E. unfold g_fragment_definition in E. unfold p_bind at 1 in E.
  rewrite (peek_is_some TkStringValue t s Hc), Hk in E. cbn [tkind_eqb] in E. eapply rl_err_and_pop_run; eauto.
Qed.

Lemma rgl_fragment_rest_eq w r : rg_streq rg_s_on w = false ->
  rgl_fragment_rest ((TkName, w) :: r) = rgl_fragment_tail LP r.
Proof.
  intros Hon. unfold rgl_fragment_rest, rgl_fragment_tail. unfold rg_seq at 1. cbn [rg_sat].
  unfold rg_is_fragname. cbn [rg_is fst snd tkind_eqb andb]. rewrite Hon. cbn [negb rg_bind].
  apply rg_seq_assoc'.
Qed.
Lemma rgl_fragment_rest_no ts :
  (forall w r, ts = (TkName, w) :: r -> rg_streq rg_s_on w = true) -> rgl_fragment_rest ts = RgNo.
Proof.
  intros H. unfold rgl_fragment_rest, rg_seq at 1. destruct ts as [|[k w] r]; [reflexivity|]. cbn [rg_sat].
  unfold rg_is_fragname, rg_is. cbn [fst snd]. destruct k; try reflexivity. cbn [tkind_eqb andb].
  rewrite (H w r eq_refl). reflexivity.
Qed.
